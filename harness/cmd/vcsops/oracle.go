package main

// Property oracles evaluated on the implementation only (written from the property statements,
// independent of the Lean model), and the read-side queries compared between dolt and the model.

import (
	"fmt"
	"regexp"
	"sort"
	"strconv"
	"strings"

	"verif/harness/internal/hx"
)

type oracle struct {
	im       *impl
	rep      *hx.Report
	prop     string
	r        *hx.Rng
	rec      map[string]string // commit hash -> root dump recorded when it became a branch head
	ntmp     int
	replay   bool
	preStash string // implementation dump right before the last stashpush (valid for the next op only)
	lastOp   string
	lastDump string
}

func (o *oracle) record(h, d string) { o.rec[h] = d }

func (o *oracle) recordHead(st *mstate) {
	h, ok := o.im.hashes[st.branches[st.cur]]
	if !ok {
		return
	}
	if _, seen := o.rec[h]; seen {
		return
	}
	ts, err := o.im.readRoot("HEAD")
	if err == nil {
		o.rec[h] = showRoot(ts)
	}
}

func rootEq(a, b []*table, withCreate bool) (bool, string) {
	if len(a) != len(b) {
		return false, fmt.Sprintf("table sets differ: %s vs %s", showRoot(a), showRoot(b))
	}
	for i := range a {
		if showTable(a[i]) != showTable(b[i]) {
			return false, fmt.Sprintf("%s vs %s", showTable(a[i]), showTable(b[i]))
		}
		if withCreate && a[i].Create != b[i].Create {
			return false, fmt.Sprintf("SHOW CREATE TABLE differs: %q vs %q", a[i].Create, b[i].Create)
		}
	}
	return true, ""
}

// onTemp runs f on a fresh temporary branch created at `at` (a hash) and restores the session.
func (o *oracle) onTemp(cur, at string, f func(tmp string)) error {
	o.ntmp++
	tmp := fmt.Sprintf("zz_tmp%d", o.ntmp)
	if r := o.im.q(fmt.Sprintf("call dolt_checkout('-b', '%s', '%s')", tmp, at)); r.Err != nil {
		return r.Err
	}
	defer func() {
		o.im.q("call dolt_reset('--hard')")
		o.im.q(fmt.Sprintf("call dolt_checkout('%s')", cur))
		o.im.q(fmt.Sprintf("call dolt_branch('-D', '%s')", tmp))
	}()
	f(tmp)
	return nil
}

func (o *oracle) chance(num, den int, all bool) bool { return all || o.r.Chance(num, den) }

// dropsColumnBeforeKey: does some table have, in the parent, a column declared before `pk` that the
// commit no longer has?
func dropsColumnBeforeKey(parent, commit []*table) bool {
	for _, pt := range parent {
		ct := findTable(commit, pt.Name)
		if ct == nil {
			continue
		}
		for _, l := range strings.Split(pt.Create, "\n")[1:] {
			m := colLineRe.FindStringSubmatch(l)
			if m == nil || m[1] == "pk" {
				break
			}
			found := false
			for _, c := range ct.Cols {
				if c.Name == m[1] {
					found = true
				}
			}
			if !found {
				return true
			}
		}
	}
	return false
}

// pickCommit picks a known commit id with exactly one parent (not the root).
func (o *oracle) pickCommit(st *mstate, newest bool) (int, bool) {
	var c []int
	for _, id := range st.ids {
		if len(st.parents[id]) == 1 {
			c = append(c, id)
		}
	}
	if len(c) == 0 {
		return 0, false
	}
	if newest {
		return c[len(c)-1], true
	}
	return hx.Pick(o.r, c), true
}

// after runs the oracles that apply to the statement just executed.  false = stop the program.
func (o *oracle) after(line, res string, pre, st *mstate, kc kase, all bool) bool {
	im := o.im
	w := strings.Fields(line)
	kind := w[0]
	defer func() { o.lastOp = kind }()
	// every oracle group runs only in its own property's check (violation keys are per property)
	weight := func(p string, hi, lo int) int {
		if o.prop == p {
			return hi
		}
		return 0
	}
	if all {
		all = false // replay: the own group always, the others never
		defer func() { all = true }()
	}
	own := func(p string) bool { return o.prop == p }

	// ---------------- C31
	replay := kc.Prop != "" && len(kc.Ops) > 0 && o.replay
	if c, ok := o.pickCommit(st, replay); ok && own("C31") && (replay || o.chance(10, 100, false)) {
		h := im.hashes[c]
		p := im.hashes[st.parents[c][0]]
		want, err1 := im.readRoot(h)
		par, err2 := im.readRoot(p)
		if err1 == nil && err2 == nil && showRoot(want) != showRoot(par) {
			// cherry-pick onto own parent reproduces the commit's data
			o.onTemp(st.cur, p, func(string) {
				r := im.q(fmt.Sprintf("call dolt_cherry_pick('%s')", h))
				if r.Err != nil {
					o.rep.Violate("C31/cherry-pick-onto-own-parent/error", fmt.Sprintf("cherry-pick of commit %d onto its own parent failed: %v", c, r.Err), kc)
					return
				}
				got, gerr := im.readRoot("HEAD")
				if dropsColumnBeforeKey(par, want) {
					ok := gerr == nil
					if ok {
						ok, _ = rootEq(got, want, true)
					}
					if !ok {
						o.rep.Known("C31/cherry-pick/drop-column-before-key", fmt.Sprintf("cherry-picking commit %d, which drops the column declared before the primary key, onto its own parent corrupts the table (key and values swapped, PRIMARY KEY moved): %v", c, gerr), kc)
					}
					return
				}
				if gerr != nil {
					o.rep.Violate("C31/cherry-pick-onto-own-parent/unreadable", fmt.Sprintf("after cherry-picking commit %d onto its own parent HEAD cannot be read: %v", c, gerr), kc)
					return
				}
				o.rep.Hit("oracle/C31/own-parent")
				if ok, why := rootEq(got, want, true); !ok {
					if ok2, _ := rootEq(normCols(got), normCols(want), false); ok2 {
						o.rep.Known("C31/cherry-pick-onto-own-parent/column-order", fmt.Sprintf("cherry-pick of commit %d onto its own parent reproduces its rows but appends the column the commit has in the middle of its column list: %s", c, why), kc)
					} else {
						o.rep.Violate("C31/cherry-pick-onto-own-parent/data", fmt.Sprintf("cherry-pick of commit %d onto its own parent does not reproduce its data: %s", c, why), kc)
					}
				}
			})
			// reverting the latest commit restores its parent's data
			o.onTemp(st.cur, h, func(string) {
				r := im.q("call dolt_revert('HEAD')")
				if r.Err != nil {
					o.rep.Violate("C31/revert-head/error", fmt.Sprintf("revert of HEAD (= commit %d) failed: %v", c, r.Err), kc)
					return
				}
				got, _ := im.readRoot("HEAD")
				o.rep.Hit("oracle/C31/revert-head")
				if ok, why := rootEq(got, par, true); !ok {
					o.rep.Violate("C31/revert-head/data", fmt.Sprintf("revert of HEAD (= commit %d) does not restore the parent's data: %s", c, why), kc)
				}
			})
		}
	}
	if own("C31") && (kind == "cherry" || kind == "cherryA" || kind == "revert" || kind == "revertA") && res == "ok" {
		o.mergeDef(kind, w[1], pre, st, kc)
	}
	if own("C31") && (kind == "cherryA" || kind == "revertA") && res != "ok" && o.lastDump != "" {
		// a failed / aborted cherry-pick or revert leaves everything as it was (abort ∘ start = id)
		if now, err := im.dump(); err == nil && now != o.lastDump {
			o.rep.Hit("oracle/C31/abort-changed-state")
			if kind == "revertA" && len(pre.status) > 0 {
				o.rep.Known("C31/revert-abort/discards-uncommitted-changes", fmt.Sprintf("dolt_revert on a working set with unrelated uncommitted changes hit a conflict; dolt_revert('--abort') reset the working set to HEAD and discarded them: before %s after %s", field(o.lastDump, "W:"), field(now, "W:")), kc)
			} else {
				o.rep.Violate("C31/abort/state-changed", fmt.Sprintf("%s failed but the state changed: before %s after %s", line, o.lastDump, now), kc)
			}
		} else if err == nil {
			o.rep.Hit("oracle/C31/abort-identity")
		}
	}
	if own("C31") && kind == "rebase" && res == "ok" && len(im.lastPlan) > 0 {
		o.rebaseFold(w, pre, st, kc)
	}

	// ---------------- C32
	if own("C32") && len(st.ids) >= 2 && (replay || o.chance(25, 100, false)) {
		a := im.hashes[hx.Pick(o.r, st.ids)]
		b := im.hashes[hx.Pick(o.r, st.ids)]
		if replay {
			b = im.hashes[st.ids[len(st.ids)-1]]
		}
		o.diffBrute(a, b, kc)
		if replay || o.chance(1, 2, false) {
			o.patchRoundTrip(st.cur, a, b, kc)
		}
		if replay {
			for _, x := range st.ids {
				o.diffBrute(im.hashes[x], b, kc)
				o.patchRoundTrip(st.cur, im.hashes[x], b, kc)
			}
		}
	}
	if own("C32") && pre != nil && st.branches[st.cur] != pre.branches[pre.cur] && st.cur == pre.cur {
		nh := st.branches[st.cur]
		if ps := st.parents[nh]; len(ps) > 0 {
			if _, known := pre.parents[nh]; !known {
				o.diffBrute(im.hashes[ps[0]], im.hashes[nh], kc)
				o.patchRoundTrip(st.cur, im.hashes[ps[0]], im.hashes[nh], kc)
			}
		}
	}
	if own("C32") && len(st.W) > 0 && (replay || o.chance(10, 100, false)) {
		o.diffTableEdges(hx.Pick(o.r, st.W).Name, st, kc)
	}

	// ---------------- C33
	if own("C33") && (replay || o.chance(30, 100, false)) {
		o.asOfAll(st, kc)
	}
	if own("C33") && len(st.H) > 0 && (replay || o.chance(6, 100, false)) {
		o.rebuildAndRename(st, kc)
	}
	if own("C31") && (replay || o.chance(4, 100, false)) {
		o.conflictingRevert(st, kc)
	}
	if own("C32") && len(st.H) > 0 && (replay || o.chance(5, 100, false)) {
		o.renameAndRetype(st, kc)
	}
	if own("C34") && len(st.H) > 0 && (replay || o.chance(5, 100, false)) {
		o.untrackedNameCollision(st, kc)
	}
	_ = weight

	// ---------------- C34
	if !own("C34") {
		kind = "-"
	}
	switch kind {
	case "stashpush":
		if res == "ok" {
			o.preStash = o.lastDump
		}
	case "stashpop":
		if res == "ok" && o.lastOp == "stashpush" && o.preStash != "" {
			o.stashIdentity(st, kc)
		}
	case "resethard":
		if res == "ok" {
			o.resetHard(pre, st, kc)
		}
	case "checkoutmove":
		o.checkoutMove(w[1], res, pre, st, kc)
	}
	if kind != "stashpush" {
		o.preStash = ""
	}
	if d, err := im.dump(); err == nil {
		o.lastDump = d
	}
	return true
}

// ---------------------------------------------------------------- brute-force merge / diff

func rowMap(t *table) map[int64][]string {
	m := map[int64][]string{}
	if t != nil {
		for _, r := range t.Rows {
			m[r.PK] = r.Cells
		}
	}
	return m
}

func eqCells(a, b []string) bool { return strings.Join(a, ",") == strings.Join(b, ",") }

// merge3Brute is the documented cell-wise three-way merge for tables with one common column list.
// ok=false: conflict, or the schemas differ (the oracle does not apply).
func merge3Brute(b, o, t *table) (*table, bool) {
	if o == nil || t == nil || b == nil {
		return nil, false
	}
	if showCols(b.Cols) != showCols(o.Cols) || showCols(b.Cols) != showCols(t.Cols) {
		return nil, false
	}
	bm, om, tm := rowMap(b), rowMap(o), rowMap(t)
	keys := map[int64]bool{}
	for k := range bm {
		keys[k] = true
	}
	for k := range om {
		keys[k] = true
	}
	for k := range tm {
		keys[k] = true
	}
	var ks []int64
	for k := range keys {
		ks = append(ks, k)
	}
	sort.Slice(ks, func(i, j int) bool { return ks[i] < ks[j] })
	out := &table{Name: o.Name, Cols: o.Cols}
	for _, k := range ks {
		br, bok := bm[k]
		or, ook := om[k]
		tr, tok := tm[k]
		same := func(x []string, xok bool, y []string, yok bool) bool { return xok == yok && (!xok || eqCells(x, y)) }
		var res []string
		var rok bool
		switch {
		case same(or, ook, br, bok):
			res, rok = tr, tok
		case same(tr, tok, br, bok):
			res, rok = or, ook
		case same(or, ook, tr, tok):
			res, rok = or, ook
		case bok && ook && tok:
			res = make([]string, len(br))
			for i := range br {
				switch {
				case or[i] == br[i]:
					res[i] = tr[i]
				case tr[i] == br[i]:
					res[i] = or[i]
				case or[i] == tr[i]:
					res[i] = or[i]
				default:
					return nil, false
				}
			}
			rok = true
		default:
			return nil, false
		}
		if rok {
			out.Rows = append(out.Rows, row{k, res})
		}
	}
	return out, true
}

// mergeDef: cherry-pick C onto HEAD = merge(base parent(C), HEAD, C); revert C = merge(base C, HEAD, parent(C)).
func (o *oracle) mergeDef(kind, ref string, pre, st *mstate, kc kase) {
	im := o.im
	rs, _ := im.refSQL(ref)
	// resolve the commit against the *pre* head: use the parent chain of the new head
	newHead := im.hashes[st.branches[st.cur]]
	if strings.HasPrefix(rs, "HEAD") {
		rs = newHead + "~1" + rs[4:]
	} else if strings.HasPrefix(ref, "b") && (rs == pre.cur || strings.HasPrefix(rs, pre.cur+"~")) {
		// the current branch's name: it meant the old head
		rs = newHead + "~1" + rs[len(pre.cur):]
	}
	cRoot, e1 := im.readRoot(rs)
	pRoot, e2 := im.readRoot(rs + "~1")
	oRoot, e3 := im.readRoot(newHead + "~1")
	got, e4 := im.readRoot(newHead)
	if e1 != nil || e2 != nil || e3 != nil || e4 != nil {
		return
	}
	base, theirs := pRoot, cRoot
	if strings.HasPrefix(kind, "revert") {
		base, theirs = cRoot, pRoot
	}
	names := map[string]bool{}
	for _, t := range oRoot {
		names[t.Name] = true
	}
	for _, t := range theirs {
		names[t.Name] = true
	}
	for _, t := range got {
		names[t.Name] = true
	}
	for n := range names {
		bt, ot, tt, gt := findTable(base, n), findTable(oRoot, n), findTable(theirs, n), findTable(got, n)
		if bt == nil && ot == nil && tt == nil && gt != nil {
			o.rep.Violate("C31/"+strings.TrimSuffix(kind, "A")+"-def/extra-table", fmt.Sprintf("%s %s: the new commit contains table %s which neither HEAD, the commit nor its parent has (an untracked table was committed)", kind, ref, n), kc)
			continue
		}
		want, ok := merge3Brute(bt, ot, tt)
		if !ok {
			o.rep.Hit("oracle/C31/merge-def/not-applicable")
			continue
		}
		o.rep.Hit("oracle/C31/merge-def")
		if gt == nil || showTable(gt) != showTable(want) {
			g := "absent"
			if gt != nil {
				g = showTable(gt)
			}
			o.rep.Violate("C31/"+strings.TrimSuffix(kind, "A")+"-def/data", fmt.Sprintf("%s %s: table %s is %s, the three-way merge of its definition is %s", kind, ref, n, g, showTable(want)), kc)
		}
	}
}

// rebaseFold: the rebased branch has the data of cherry-picking the kept commits in plan order.
func (o *oracle) rebaseFold(w []string, pre, st *mstate, kc kase) {
	im := o.im
	up, _ := im.refSQL(w[1])
	if strings.HasPrefix(up, "HEAD") {
		// resolved against the pre-rebase head
		up = im.hashes[pre.branches[pre.cur]] + up[4:]
	}
	if up == st.cur {
		return
	}
	var plan []string
	if len(w) > 2 && w[2] != "-" {
		plan = strings.Split(w[2], ",")
	}
	steps := im.lastPlan
	im.lastPlan = nil
	want, err := im.readRoot("HEAD")
	if err != nil {
		return
	}
	// resolve upstream to a hash first (a branch name may be the current branch's sibling)
	r := im.q(fmt.Sprintf("select hashof('%s')", up))
	if r.Err != nil {
		return
	}
	uph := unq(r.Rows[0][0])
	o.onTemp(st.cur, uph, func(string) {
		for i, h := range steps {
			if i < len(plan) && plan[i] == "d" {
				continue
			}
			r := im.q(fmt.Sprintf("call dolt_cherry_pick('%s')", h))
			// a plan commit that is (or has become) empty contributes no data: rebase keeps / drops it by
			// its empty-commit handling, a plain cherry-pick refuses it — skip it in the fold
			if r.Err != nil && !strings.Contains(r.Err.Error(), "no changes were made") &&
				!strings.Contains(r.Err.Error(), "cherry-pick commit is empty") {
				o.rep.Violate("C31/rebase-fold/error", fmt.Sprintf("rebase succeeded but cherry-picking plan step %d fails: %v", i+1, r.Err), kc)
				return
			}
		}
		got, _ := im.readRoot("HEAD")
		o.rep.Hit("oracle/C31/rebase-fold")
		if ok, why := rootEq(got, want, true); !ok {
			o.rep.Violate("C31/rebase-fold/data", "rebase result differs from cherry-picking the kept commits in plan order: "+why, kc)
		}
	})
}

type diffRow struct {
	PK   int64
	Ty   string
	F, T []string // nil when absent
}

func (d diffRow) String() string {
	f, t := "-", "-"
	if d.F != nil {
		f = strings.Join(d.F, ",")
	}
	if d.T != nil {
		t = strings.Join(d.T, ",")
	}
	return fmt.Sprintf("%d:%s:F%s:T%s", d.PK, d.Ty, f, t)
}

// readDiff runs dolt_diff(a,b,t) and canonicalises its rows (in result order).
func (im *impl) readDiff(a, b, t string) ([]diffRow, error) {
	r := im.q(fmt.Sprintf("select * from dolt_diff('%s','%s','%s')", a, b, t))
	if r.Err != nil {
		return nil, r.Err
	}
	return parseDiffRows(r.Cols, r.Rows)
}

func parseDiffRows(cols []string, rows [][]string) ([]diffRow, error) {
	var toIdx, fromIdx []int
	toPK, fromPK, ty := -1, -1, -1
	for i, c := range cols {
		switch {
		case c == "to_pk":
			toPK = i
		case c == "from_pk":
			fromPK = i
		case c == "diff_type":
			ty = i
		case c == "to_commit" || c == "to_commit_date" || c == "from_commit" || c == "from_commit_date":
		case strings.HasPrefix(c, "to_"):
			toIdx = append(toIdx, i)
		case strings.HasPrefix(c, "from_"):
			fromIdx = append(fromIdx, i)
		}
	}
	if toPK < 0 || fromPK < 0 || ty < 0 {
		return nil, fmt.Errorf("unexpected diff columns %v", cols)
	}
	var out []diffRow
	for _, rr := range rows {
		d := diffRow{Ty: unq(rr[ty])}
		pk := rr[toPK]
		if d.Ty == "removed" {
			pk = rr[fromPK]
		}
		d.PK, _ = strconv.ParseInt(pk, 10, 64)
		if d.Ty != "added" {
			d.F = []string{}
			for _, i := range fromIdx {
				d.F = append(d.F, wireCell(rr[i]))
			}
		}
		if d.Ty != "removed" {
			d.T = []string{}
			for _, i := range toIdx {
				d.T = append(d.T, wireCell(rr[i]))
			}
		}
		out = append(out, d)
	}
	return out, nil
}

func colIndex(cs []col, c col) int {
	for i, x := range cs {
		if x == c {
			return i
		}
	}
	return -1
}

// visiblyEqual: do two rows agree on every column of either layout (absent column = NULL)?
func visiblyEqual(fc []col, f []string, tc []col, t []string) bool {
	for i, c := range fc {
		j := colIndex(tc, c)
		tv := "N"
		if j >= 0 {
			tv = t[j]
		}
		if f[i] != tv {
			return false
		}
	}
	for j, c := range tc {
		if colIndex(fc, c) < 0 && t[j] != "N" {
			return false
		}
	}
	return true
}

// diffBrute: dolt_diff(a,b,t) lists exactly the differing keys, ascending, with the right values.
func (o *oracle) diffBrute(a, b string, kc kase) {
	im := o.im
	na, _ := im.tableNames(a)
	nb, _ := im.tableNames(b)
	names := map[string]bool{}
	for _, n := range append(na, nb...) {
		names[n] = true
	}
	for n := range names {
		ta, _ := im.readTable(a, n)
		tb, _ := im.readTable(b, n)
		got, err := im.readDiff(a, b, n)
		if err != nil {
			o.rep.Violate("C32/dolt_diff/error", fmt.Sprintf("dolt_diff(%s,%s,%s) failed: %v", a, b, n, err), kc)
			continue
		}
		o.checkDiff("dolt_diff()", n, ta, tb, got, kc, ta == nil || tb == nil || showCols(ta.Cols) == showCols(tb.Cols))
	}
}

// checkDiff compares reported diff rows with the brute-force diff of two table dumps.
// `layout`: the from/to cells are laid out by the tables' own columns (dolt_diff()).
func (o *oracle) checkDiff(what, n string, ta, tb *table, got []diffRow, kc kase, sameSchema bool, raw ...*table) {
	layout := true
	// raw[0], raw[1]: the two tables in their own layouts when ta / tb are projections (dolt_diff_<t>):
	// a change in a column the current schema no longer shows is a real change
	var rawA, rawB map[int64][]string
	if len(raw) == 2 {
		rawA, rawB = rowMap(raw[0]), rowMap(raw[1])
	}
	am, bm := rowMap(ta), rowMap(tb)
	seen := map[int64]bool{}
	last := int64(0)
	for i, d := range got {
		if i > 0 && d.PK <= last {
			o.rep.Violate("C32/"+what+"/order", fmt.Sprintf("%s on %s: keys not strictly ascending (%d after %d)", what, n, d.PK, last), kc)
		}
		last = d.PK
		seen[d.PK] = true
		f, fok := am[d.PK]
		t, tok := bm[d.PK]
		wantTy := "modified"
		switch {
		case !fok && tok:
			wantTy = "added"
		case fok && !tok:
			wantTy = "removed"
		case !fok && !tok:
			wantTy = "none"
		}
		if d.Ty != wantTy {
			o.rep.Violate("C32/"+what+"/type", fmt.Sprintf("%s on %s: key %d reported %s, expected %s", what, n, d.PK, d.Ty, wantTy), kc)
			continue
		}
		if layout {
			if d.F != nil && !eqCells(d.F, f) {
				o.rep.Violate("C32/"+what+"/from-values", fmt.Sprintf("%s on %s: key %d from=%v, table has %v", what, n, d.PK, d.F, f), kc)
			}
			if d.T != nil && !eqCells(d.T, t) {
				o.rep.Violate("C32/"+what+"/to-values", fmt.Sprintf("%s on %s: key %d to=%v, table has %v", what, n, d.PK, d.T, t), kc)
			}
		}
		if wantTy == "modified" && visiblyEqual(ta.Cols, f, tb.Cols, t) {
			if rawA != nil && !eqCells(rawA[d.PK], rawB[d.PK]) {
				o.rep.Hit("oracle/C32/hidden-column-modified-row")
			} else if sameSchema {
				o.rep.Violate("C32/"+what+"/spurious", fmt.Sprintf("%s on %s: key %d reported modified but the rows are equal", what, n, d.PK), kc)
			} else {
				o.rep.Hit("oracle/C32/schema-only-modified-row")
			}
		}
	}
	keys := map[int64]bool{}
	for k := range am {
		keys[k] = true
	}
	for k := range bm {
		keys[k] = true
	}
	for k := range keys {
		f, fok := am[k]
		t, tok := bm[k]
		differs := fok != tok || !visiblyEqual(ta.Cols, f, tb.Cols, t)
		if differs && !seen[k] {
			// exactly one input shape is a known dolt defect: a column was dropped between the two
			// versions AND the stored tuples of this key are byte-equal after trailing-NULL trimming
			// although the logical rows differ
			rf, rt, ca, cb := f, t, ta.Cols, tb.Cols
			if rawA != nil {
				rf, rt, ca, cb = rawA[k], rawB[k], raw[0].Cols, raw[1].Cols
			}
			if fok && tok && tupleAliasAfterDrop(ca, rf, cb, rt) {
				o.rep.Known(aliasKey, fmt.Sprintf("%s on %s: key %d differs (from=%v to=%v) but is not reported: a column was dropped and the stored tuples of the two versions coincide", what, n, k, rf, rt), kc)
			} else {
				o.rep.Violate("C32/"+what+"/missing", fmt.Sprintf("%s on %s: key %d differs (from=%v to=%v) but is not reported", what, n, k, f, t), kc)
			}
		}
	}
	o.rep.Hit("oracle/C32/" + what)
}

// patchRoundTrip: executing dolt_patch(a,b) on a checkout of a gives b's data and schema.
func (o *oracle) patchRoundTrip(cur, a, b string, kc kase) {
	im := o.im
	r := im.q(fmt.Sprintf("select statement from dolt_patch('%s','%s') order by statement_order", a, b))
	if r.Err != nil {
		o.rep.Violate("C32/dolt_patch/error", fmt.Sprintf("dolt_patch(%s,%s) failed: %v", a, b, r.Err), kc)
		return
	}
	want, err := im.readRoot(b)
	if err != nil {
		return
	}
	o.onTemp(cur, a, func(string) {
		for _, row := range r.Rows {
			stmt := unq(row[0])
			if x := im.q(stmt); x.Err != nil {
				o.rep.Violate("C32/patch-roundtrip/exec", fmt.Sprintf("patch statement fails on a checkout of the first commit: %q: %v", stmt, x.Err), kc)
				return
			}
		}
		got, _ := im.readRoot("WORKING")
		o.rep.Hit("oracle/C32/patch-roundtrip")
		if ok, why := rootEq(got, want, true); !ok {
			if fromRoot, ferr := im.readRoot(a); ferr == nil && aliasExplains(fromRoot, want, got) {
				o.rep.Known(aliasKey, "executing dolt_patch(a,b) on a leaves a row unchanged that differs in b: a column was dropped and the row's stored tuples coincide, so the diff (and the patch) misses it: "+why, kc)
			} else if ok2, _ := rootEq(normCols(got), normCols(want), false); ok2 {
				o.rep.Known("C32/patch-roundtrip/column-order", "executing dolt_patch(a,b) on a gives b's data but not b's column order (a dropped middle column is re-added at the end): "+why, kc)
			} else {
				o.rep.Violate("C32/patch-roundtrip/data", "executing dolt_patch(a,b) on a does not give b: "+why, kc)
			}
		}
	})
}

const aliasKey = "C32/diff-misses-row/stored-tuple-alias-after-drop-column"

func trimNulls(r []string) []string {
	n := len(r)
	for n > 0 && r[n-1] == "N" {
		n--
	}
	return r[:n]
}

// tupleAliasAfterDrop: some column of the from-layout is gone in the to-layout, and the two stored
// tuples (positional, trailing NULLs not stored) are equal.
func tupleAliasAfterDrop(ca []col, f []string, cb []col, t []string) bool {
	dropped := false
	for _, c := range ca {
		if colIndex(cb, c) < 0 {
			dropped = true
		}
	}
	return dropped && f != nil && t != nil && eqCells(trimNulls(f), trimNulls(t))
}

// aliasExplains: every row in which the patched root differs from the wanted one is a stored-tuple
// alias across a dropped column between the first commit's table and the second's (and there is one).
func aliasExplains(from, want, got []*table) bool {
	found := false
	if len(want) != len(got) {
		return false
	}
	for i, wt := range want {
		gt := got[i]
		if gt.Name != wt.Name || showCols(gt.Cols) != showCols(wt.Cols) || gt.Create != wt.Create {
			return false
		}
		ft := findTable(from, wt.Name)
		wm, gm := rowMap(wt), rowMap(gt)
		if len(wm) != len(gm) {
			return false
		}
		for k, wr := range wm {
			gr, ok := gm[k]
			if !ok {
				return false
			}
			if eqCells(wr, gr) {
				continue
			}
			if ft == nil {
				return false
			}
			fr, ok := rowMap(ft)[k]
			if !ok || !tupleAliasAfterDrop(ft.Cols, fr, wt.Cols, wr) {
				return false
			}
			found = true
		}
	}
	return found
}

// normCols sorts the columns of every table by name (cells permuted accordingly).
func normCols(ts []*table) []*table {
	out := make([]*table, len(ts))
	for i, t := range ts {
		idx := make([]int, len(t.Cols))
		for j := range idx {
			idx[j] = j
		}
		sort.Slice(idx, func(a, b int) bool { return t.Cols[idx[a]].Name < t.Cols[idx[b]].Name })
		n := &table{Name: t.Name}
		for _, j := range idx {
			n.Cols = append(n.Cols, t.Cols[j])
		}
		for _, r := range t.Rows {
			cells := make([]string, len(idx))
			for k, j := range idx {
				cells[k] = r.Cells[j]
			}
			n.Rows = append(n.Rows, row{r.PK, cells})
		}
		out[i] = n
	}
	return out
}

// diffTableEdges: every (first parent, child) edge of the current branch's linear history whose
// table differs appears in dolt_diff_<t> with the brute-force rows; nothing else appears.
func (o *oracle) diffTableEdges(n string, st *mstate, kc kase) {
	im := o.im
	cur, err := im.readTable("WORKING", n)
	if err != nil {
		return
	}
	r := im.q(fmt.Sprintf("select * from `dolt_diff_%s`", n))
	if r.Err != nil {
		o.rep.Violate("C32/dolt_diff_t/error", fmt.Sprintf("select from dolt_diff_%s failed: %v", n, r.Err), kc)
		return
	}
	toC, fromC := -1, -1
	for i, c := range r.Cols {
		if c == "to_commit" {
			toC = i
		}
		if c == "from_commit" {
			fromC = i
		}
	}
	groups := map[string][][]string{}
	var order []string
	for _, rr := range r.Rows {
		k := unq(rr[toC]) + "<" + unq(rr[fromC])
		if _, ok := groups[k]; !ok {
			order = append(order, k)
		}
		groups[k] = append(groups[k], rr)
	}
	proj := func(t *table) *table {
		if t == nil {
			return nil
		}
		p := &table{Name: t.Name, Cols: cur.Cols}
		for _, rw := range t.Rows {
			cells := make([]string, len(cur.Cols))
			for i, c := range cur.Cols {
				cells[i] = "N"
				if j := colIndex(t.Cols, c); j >= 0 {
					cells[i] = rw.Cells[j]
				}
			}
			p.Rows = append(p.Rows, row{rw.PK, cells})
		}
		return p
	}
	for _, k := range order {
		p := strings.SplitN(k, "<", 2)
		to, from := p[0], p[1]
		tt, _ := im.readTable(to, n)
		ft, _ := im.readTable(from, n)
		got, err := parseDiffRows(r.Cols, groups[k])
		if err != nil {
			continue
		}
		// values are laid out by the current schema: compare against projected tables
		o.checkDiff("dolt_diff_t", n, proj(ft), proj(tt), got, kc, ft == nil || tt == nil || showCols(ft.Cols) == showCols(tt.Cols), ft, tt)
	}
	// walk the first-parent chain from HEAD
	id := st.branches[st.cur]
	child := "WORKING"
	childT := cur
	linear := true
	for {
		h := im.hashes[id]
		t, _ := im.readTable(h, n)
		if len(st.parents[id]) > 1 {
			linear = false
		}
		differs := false // some key whose visible rows differ
		if childT != nil {
			am, bm := rowMap(proj(t)), rowMap(proj(childT))
			for k, v := range am {
				if w, ok := bm[k]; !ok || !eqCells(v, w) {
					differs = true
				}
			}
			for k := range bm {
				if _, ok := am[k]; !ok {
					differs = true
				}
			}
		}
		if childT == nil {
			break // the table did not exist in the child: dolt_diff_t stops here
		}
		if differs && linear {
			if _, ok := groups[child+"<"+h]; !ok {
				o.rep.Violate("C32/dolt_diff_t/missing-edge", fmt.Sprintf("dolt_diff_%s has no rows for the edge %s <- %s although the table differs", n, child, h), kc)
			}
		}
		if len(st.parents[id]) == 0 {
			break
		}
		child, childT = h, t
		id = st.parents[id][0]
	}
	o.rep.Hit("oracle/C32/dolt_diff_t")
	// merged histories: every (parent, child) edge of HEAD's ancestry between two commits that both
	// have the table must be listed when the rows differ (checked only when the table was never dropped
	// in the ancestry, so that the "stop at a dropped table" rule does not apply).
	anc := ancestors(st, st.branches[st.cur])
	tbl := map[int]*table{}
	for _, c := range anc {
		tbl[c], _ = im.readTable(im.hashes[c], n)
	}
	dropped := false
	for _, c := range anc {
		for _, p := range st.parents[c] {
			if tbl[p] != nil && tbl[c] == nil {
				dropped = true
			}
		}
	}
	if dropped {
		return
	}
	for _, c := range anc {
		if len(st.parents[c]) == 0 || tbl[c] == nil {
			continue
		}
		for _, p := range st.parents[c] {
			if tbl[p] == nil || showTable(proj(tbl[p])) == showTable(proj(tbl[c])) {
				continue
			}
			if _, ok := groups[im.hashes[c]+"<"+im.hashes[p]]; !ok {
				o.rep.Known("C32/dolt_diff_t/merge-edge-missing", fmt.Sprintf("dolt_diff_%s lists no rows for the edge commit %d <- commit %d of a merged history although the table differs between them", n, c, p), kc)
			}
		}
	}
}

// asOfAll: AS OF c in every spelling equals the dump recorded when c was created.
func (o *oracle) asOfAll(st *mstate, kc kase) {
	im := o.im
	var cands []int
	for _, id := range st.ids {
		if _, ok := o.rec[im.hashes[id]]; ok {
			cands = append(cands, id)
		}
	}
	if len(cands) == 0 {
		return
	}
	id := hx.Pick(o.r, cands)
	h := im.hashes[id]
	want := o.rec[h]
	spell := []string{h}
	isBranch := map[string]bool{}
	for b, bid := range st.branches {
		if bid == id {
			spell = append(spell, b)
			isBranch[b] = true
		}
	}
	for t, tid := range st.tags {
		if tid == id {
			spell = append(spell, t)
		}
	}
	// HEAD~n / branch~n along first parents
	x := st.branches[st.cur]
	for n := 0; n < 6; n++ {
		if x == id {
			spell = append(spell, fmt.Sprintf("HEAD~%d", n), fmt.Sprintf("%s~%d", st.cur, n))
			break
		}
		if len(st.parents[x]) == 0 {
			break
		}
		x = st.parents[x][0]
	}
	// every HEAD~k (k ≤ 4) must read the k-th first parent, whatever commit was picked above
	{
		y := st.branches[st.cur]
		for k := 1; k <= 4 && len(st.parents[y]) > 0; k++ {
			y = st.parents[y][0]
			a, e1 := im.readRoot(fmt.Sprintf("HEAD~%d", k))
			b, e2 := im.readRoot(im.hashes[y])
			if e1 != nil || e2 != nil {
				o.rep.Violate("C33/as-of/error", fmt.Sprintf("reading HEAD~%d or its commit %d failed: %v %v", k, y, e1, e2), kc)
				continue
			}
			o.rep.Hit("oracle/C33/head-tilde")
			if showRoot(a) != showRoot(b) {
				o.rep.Violate("C33/as-of/tilde", fmt.Sprintf("AS OF 'HEAD~%d' returns %s but the %d-th first parent (commit %d) holds %s", k, showRoot(a), k, y, showRoot(b)), kc)
			}
		}
	}
	sort.Strings(spell)
	for _, s := range spell {
		ts, err := im.readRoot(s)
		if err != nil {
			o.rep.Violate("C33/as-of/error", fmt.Sprintf("reading AS OF '%s' (commit %d) failed: %v", s, id, err), kc)
			continue
		}
		o.rep.Hit("oracle/C33/as-of")
		if showRoot(ts) != want {
			o.rep.Violate("C33/as-of/data", fmt.Sprintf("AS OF '%s' (commit %d) returns %s, recorded at commit time: %s", s, id, showRoot(ts), want), kc)
		}
		// revision database spelling (`db/<branch>` is that branch's *working set*, not a commit: skipped)
		if isBranch[s] {
			continue
		}
		if err := o.revDB(s, want, id, kc); err != nil {
			o.rep.Hit("oracle/C33/revdb-unavailable")
		}
	}
	// history table filtered to the commit
	wantTs := parseRootDump(want)
	for _, wt := range st.W {
		cur, err := im.readTable("WORKING", wt.Name)
		if err != nil {
			continue
		}
		r := im.q(fmt.Sprintf("select * from `dolt_history_%s` where commit_hash = '%s' order by pk", wt.Name, h))
		if r.Err != nil {
			o.rep.Violate("C33/history/error", fmt.Sprintf("dolt_history_%s for commit %d failed: %v", wt.Name, id, r.Err), kc)
			continue
		}
		inScope := false
		for _, a := range ancestors(st, st.branches[st.cur]) {
			if a == id {
				inScope = true
			}
		}
		var got []string
		for _, rr := range r.Rows {
			pk, cells := splitRow(r.Cols, rr)
			got = append(got, pk+"="+strings.Join(cells, ","))
		}
		var exp []string
		_ = inScope // a commit_hash filter resolves any commit, also outside the current branch's ancestry
		if ct := findTable(wantTs, wt.Name); ct != nil {
			for _, rw := range ct.Rows {
				cells := make([]string, len(cur.Cols))
				for i, c := range cur.Cols {
					cells[i] = "N"
					if j := colIndex(ct.Cols, c); j >= 0 {
						cells[i] = rw.Cells[j]
					}
				}
				exp = append(exp, fmt.Sprintf("%d=%s", rw.PK, strings.Join(cells, ",")))
			}
		}
		o.rep.Hit("oracle/C33/history")
		if strings.Join(got, ";") != strings.Join(exp, ";") {
			o.rep.Violate("C33/history/data", fmt.Sprintf("dolt_history_%s WHERE commit_hash = commit %d returns %v, the table held %v", wt.Name, id, got, exp), kc)
		}
	}
}

// rebuildAndRename (on a temporary branch, no model involved): a table rebuilt under another name and
// renamed back (same definition, same rows, new column tags), and a plainly renamed table.  Afterwards
// the history table filtered to the commit *before* the change must still return the rows the table of
// that name held there (nothing for a name that did not exist), and AS OF must agree.
func (o *oracle) rebuildAndRename(st *mstate, kc kase) {
	im := o.im
	head := im.hashes[st.branches[st.cur]]
	var cands []*table
	hroot, err := im.readRoot(head)
	if err != nil {
		return
	}
	for _, t := range hroot {
		if len(t.Rows) > 0 {
			cands = append(cands, t)
		}
	}
	if len(cands) == 0 {
		return
	}
	t := hx.Pick(o.r, cands)
	var rowsWant []string
	for _, rw := range t.Rows {
		rowsWant = append(rowsWant, fmt.Sprintf("%d=%s", rw.PK, strings.Join(rw.Cells, ",")))
	}
	hist := func(name, commit string) ([]string, error) {
		r := im.q(fmt.Sprintf("select * from `dolt_history_%s` where commit_hash = '%s' order by pk", name, commit))
		if r.Err != nil {
			return nil, r.Err
		}
		var got []string
		for _, rr := range r.Rows {
			pk, cells := splitRow(r.Cols, rr)
			got = append(got, pk+"="+strings.Join(cells, ","))
		}
		return got, nil
	}
	o.onTemp(st.cur, head, func(string) {
		def := t.Create
		i := strings.Index(def, "(")
		stmts := []string{
			"CREATE TABLE `zz_new` " + def[i:],
			fmt.Sprintf("insert into `zz_new` select * from `%s`", t.Name),
			fmt.Sprintf("drop table `%s`", t.Name),
			fmt.Sprintf("rename table `zz_new` to `%s`", t.Name),
			"call dolt_commit('-Am', 'zz rebuild')",
		}
		for _, q := range stmts {
			if r := im.q(q); r.Err != nil {
				o.rep.Hit("oracle/C33/rebuild-unavailable")
				return
			}
		}
		o.rep.Hit("oracle/C33/rebuild")
		got, err := hist(t.Name, head)
		if err != nil {
			o.rep.Violate("C33/history/error", fmt.Sprintf("dolt_history_%s after a rebuild failed: %v", t.Name, err), kc)
			return
		}
		if strings.Join(got, ";") != strings.Join(rowsWant, ";") {
			o.rep.Violate("C33/history/rebuilt-table", fmt.Sprintf("table %s was rebuilt under another name and renamed back; dolt_history_%s WHERE commit_hash = <commit before the rebuild> returns %v, the table held %v", t.Name, t.Name, got, rowsWant), kc)
		}
		if at, err := im.readTable(head, t.Name); err != nil || showTable(at) != showTable(t) {
			o.rep.Violate("C33/as-of/rebuilt-table", fmt.Sprintf("AS OF the commit before the rebuild of %s does not return the recorded table", t.Name), kc)
		}
		// plain rename
		for _, q := range []string{fmt.Sprintf("rename table `%s` to `zz_r`", t.Name), "call dolt_commit('-Am', 'zz rename')"} {
			if r := im.q(q); r.Err != nil {
				o.rep.Hit("oracle/C33/rename-unavailable")
				return
			}
		}
		o.rep.Hit("oracle/C33/rename")
		if got, err := hist("zz_r", head); err == nil && len(got) != 0 {
			o.rep.Violate("C33/history/renamed-table", fmt.Sprintf("dolt_history_zz_r WHERE commit_hash = <commit before the rename> returns %v although no table of that name existed there", got), kc)
		}
		if got, err := hist("zz_r", "HEAD"); err == nil {
			r := im.q("select hashof('HEAD')")
			if r.Err == nil {
				if got2, err2 := hist("zz_r", unq(r.Rows[0][0])); err2 == nil {
					got = got2
				}
			}
			if strings.Join(got, ";") != strings.Join(rowsWant, ";") {
				o.rep.Violate("C33/history/renamed-table", fmt.Sprintf("dolt_history_zz_r at the rename commit returns %v, the table holds %v", got, rowsWant), kc)
			}
		}
		if at, err := im.readTable(head, t.Name); err != nil || showTable(at) != showTable(t) {
			o.rep.Violate("C33/as-of/renamed-table", fmt.Sprintf("AS OF the commit before the rename no longer returns table %s", t.Name), kc)
		}
	})
}

// ---------------------------------------------------------------- model-free side trips (round 2)

// rawRoot reads every user table of a revision without assuming the model's table family:
// SHOW CREATE TABLE text and the rows in primary-key order, rendered canonically.
func (im *impl) rawRoot(rev string) (map[string][2]string, error) {
	names, err := im.tableNames(rev)
	if err != nil {
		return nil, err
	}
	out := map[string][2]string{}
	for _, n := range names {
		cr := im.q(fmt.Sprintf("show create table `%s` as of '%s'", n, rev))
		if cr.Err != nil {
			return nil, cr.Err
		}
		r := im.q(fmt.Sprintf("select * from `%s` as of '%s'", n, rev))
		if r.Err != nil {
			return nil, r.Err
		}
		out[n] = [2]string{unq(cr.Rows[0][1]), strings.Join(r.Sorted(), ";")}
	}
	return out, nil
}

func rawEq(a, b map[string][2]string) (bool, string) {
	if len(a) != len(b) {
		return false, fmt.Sprintf("table sets differ (%d vs %d)", len(a), len(b))
	}
	for n, x := range a {
		y, ok := b[n]
		if !ok {
			return false, "table " + n + " missing"
		}
		if x[0] != y[0] {
			return false, fmt.Sprintf("SHOW CREATE TABLE %s differs: %q vs %q", n, x[0], y[0])
		}
		if x[1] != y[1] {
			return false, fmt.Sprintf("rows of %s differ: %s vs %s", n, x[1], y[1])
		}
	}
	return true, ""
}

func (im *impl) headHash() string {
	r := im.q("select hashof('HEAD')")
	if r.Err != nil || len(r.Rows) == 0 {
		return ""
	}
	return unq(r.Rows[0][0])
}

// conflictingRevert (C31): three commits editing one cell, then a revert of the middle one with
// conflicts allowed.  The conflict artifacts must show base = the reverted commit's row, ours = HEAD's,
// theirs = the parent's; resolving with --theirs and continuing must leave the parent's value.
func (o *oracle) conflictingRevert(st *mstate, kc kase) {
	im := o.im
	head := im.hashes[st.branches[st.cur]]
	v1, v2, v3 := o.r.Range(1, 9), o.r.Range(10, 19), o.r.Range(20, 29)
	o.onTemp(st.cur, head, func(string) {
		setup := []string{
			"create table zz_c (pk int primary key, c int, d int)",
			fmt.Sprintf("insert into zz_c values (1,%d,0),(2,5,5)", v1),
			"call dolt_commit('-Am','zz p')",
			fmt.Sprintf("update zz_c set c=%d where pk=1", v2),
			"call dolt_commit('-am','zz c')",
			fmt.Sprintf("update zz_c set c=%d, d=7 where pk=1", v3),
			"call dolt_commit('-am','zz h')",
		}
		for _, q := range setup {
			if r := im.q(q); r.Err != nil {
				o.rep.Hit("oracle/C31/conflicting-revert-unavailable")
				return
			}
		}
		im.q("set @@dolt_allow_commit_conflicts = 1")
		defer im.q("set @@dolt_allow_commit_conflicts = 0")
		r := im.q("call dolt_revert('HEAD~1')")
		if r.Err != nil || len(r.Rows) != 1 || r.Rows[0][1] == "0" {
			o.rep.Violate("C31/revert-conflict/not-reported", fmt.Sprintf("reverting a commit whose cell HEAD changed again did not report a data conflict: %v %v", r.Rows, r.Err), kc)
			im.q("call dolt_revert('--abort')")
			return
		}
		o.rep.Hit("oracle/C31/conflicting-revert")
		cr := im.q("select base_c, our_c, their_c, base_d, our_d, their_d from dolt_conflicts_zz_c where our_pk = 1 or base_pk = 1")
		want := fmt.Sprintf("%d|%d|%d|0|7|0", v2, v3, v1)
		if cr.Err != nil || len(cr.Rows) != 1 || strings.Join(cr.Rows[0], "|") != want {
			o.rep.Violate("C31/revert-conflict/artifacts", fmt.Sprintf("revert of C under HEAD: dolt_conflicts_zz_c shows base|ours|theirs = %v (err %v), the definition (base = C, ours = HEAD, theirs = parent C) gives %s", cr.Rows, cr.Err, want), kc)
			im.q("call dolt_revert('--abort')")
			return
		}
		for _, q := range []string{"call dolt_conflicts_resolve('--theirs', 'zz_c')", "call dolt_add('zz_c')", "call dolt_revert('--continue')"} {
			if x := im.q(q); x.Err != nil {
				o.rep.Violate("C31/revert-conflict/continue", fmt.Sprintf("%s failed after resolving the revert conflict: %v", q, x.Err), kc)
				im.q("call dolt_revert('--abort')")
				return
			}
		}
		fr := im.q("select c, d from zz_c where pk = 1")
		if fr.Err != nil || len(fr.Rows) != 1 || fr.Rows[0][0] != strconv.Itoa(v1) {
			o.rep.Violate("C31/revert-conflict/resolved-theirs", fmt.Sprintf("resolve --theirs + revert --continue left %v, the parent's value is %d", fr.Rows, v1), kc)
		}
	})
}

// renameAndRetype (C32): a column renamed in one commit and widened in the next; the patches of both
// adjacent pairs and of the spanning pair must round-trip (data and SHOW CREATE TABLE).
func (o *oracle) renameAndRetype(st *mstate, kc kase) {
	im := o.im
	head := im.hashes[st.branches[st.cur]]
	hroot, err := im.readRoot(head)
	if err != nil {
		return
	}
	var t *table
	var c col
	for _, x := range hroot {
		for _, cc := range x.Cols {
			if cc.Name != "c0" && (t == nil || o.r.Chance(1, 2)) {
				t, c = x, cc
			}
		}
	}
	if t == nil {
		return
	}
	newTy, big := "varchar(100)", "'a value that needs more than twenty characters'"
	if c.Ty == "int" {
		newTy, big = "bigint", "123456789012"
	}
	o.ntmp++
	t2 := fmt.Sprintf("zz_rt%d", o.ntmp)
	o.onTemp(st.cur, head, func(t1 string) {
		var hs []string
		steps := [][]string{
			{fmt.Sprintf("alter table `%s` rename column `%s` to `zz_r`", t.Name, c.Name), "call dolt_commit('-Am','zz rename')"},
			{fmt.Sprintf("alter table `%s` modify column `zz_r` %s", t.Name, newTy),
				fmt.Sprintf("insert into `%s` (pk, zz_r) values (77, %s)", t.Name, big), "call dolt_commit('-Am','zz widen')"},
		}
		for _, ss := range steps {
			for _, q := range ss {
				if r := im.q(q); r.Err != nil {
					o.rep.Hit("oracle/C32/rename-retype-unavailable")
					return
				}
			}
			hs = append(hs, im.headHash())
		}
		o.rep.Hit("oracle/C32/rename-retype")
		for _, pair := range [][2]string{{head, hs[0]}, {hs[0], hs[1]}, {head, hs[1]}} {
			pr := im.q(fmt.Sprintf("select statement from dolt_patch('%s','%s') order by statement_order", pair[0], pair[1]))
			if pr.Err != nil {
				o.rep.Violate("C32/dolt_patch/error", fmt.Sprintf("dolt_patch across a column rename / retype failed: %v", pr.Err), kc)
				return
			}
			want, err := im.rawRoot(pair[1])
			if err != nil {
				return
			}
			if r := im.q(fmt.Sprintf("call dolt_checkout('-b', '%s', '%s')", t2, pair[0])); r.Err != nil {
				return
			}
			failed := ""
			for _, row := range pr.Rows {
				if x := im.q(unq(row[0])); x.Err != nil {
					failed = fmt.Sprintf("%q: %v", unq(row[0]), x.Err)
					break
				}
			}
			got, gerr := im.rawRoot("WORKING")
			im.q("call dolt_reset('--hard')")
			im.q(fmt.Sprintf("call dolt_checkout('%s')", t1))
			im.q(fmt.Sprintf("call dolt_branch('-D', '%s')", t2))
			if failed != "" {
				o.rep.Violate("C32/patch-roundtrip/rename-retype", "a statement of dolt_patch(a,b) across a renamed and retyped column fails on a checkout of a: "+failed, kc)
				return
			}
			if gerr == nil {
				if ok, why := rawEq(got, want); !ok {
					o.rep.Violate("C32/patch-roundtrip/rename-retype", "executing dolt_patch(a,b) across a renamed and retyped column on a does not give b: "+why, kc)
					return
				}
			}
		}
	})
}

// untrackedNameCollision (C34): a committed table is dropped, the drop is staged, and an unrelated table
// of the same name (other key, other columns) is created — an untracked table.  `reset --hard` must give
// back the target commit's table: working = staged = HEAD.
func (o *oracle) untrackedNameCollision(st *mstate, kc kase) {
	im := o.im
	head := im.hashes[st.branches[st.cur]]
	hroot, err := im.readRoot(head)
	if err != nil || len(hroot) == 0 {
		return
	}
	t := hx.Pick(o.r, hroot)
	o.onTemp(st.cur, head, func(string) {
		want, err := im.rawRoot(head)
		if err != nil {
			return
		}
		for _, q := range []string{
			fmt.Sprintf("drop table `%s`", t.Name),
			fmt.Sprintf("call dolt_add('%s')", t.Name),
			fmt.Sprintf("create table `%s` (id bigint primary key, w text, z double)", t.Name),
			fmt.Sprintf("insert into `%s` values (1, 'untracked', 1.5)", t.Name),
			"call dolt_reset('--hard')",
		} {
			if r := im.q(q); r.Err != nil {
				o.rep.Hit("oracle/C34/name-collision-unavailable")
				return
			}
		}
		o.rep.Hit("oracle/C34/name-collision")
		got, err := im.rawRoot("WORKING")
		if err != nil {
			o.rep.Violate("C34/reset-hard/name-collision", fmt.Sprintf("after reset --hard the working root cannot be read: %v", err), kc)
			return
		}
		if ok, why := rawEq(got, want); !ok {
			o.rep.Violate("C34/reset-hard/name-collision", fmt.Sprintf("table %s was dropped (staged) and an unrelated untracked table of the same name created; after reset --hard the working root is not the target commit: %s", t.Name, why), kc)
		}
		if sr := im.q("select count(*) from dolt_status"); sr.Err == nil && sr.Rows[0][0] != "0" {
			o.rep.Violate("C34/reset-hard/name-collision", "after reset --hard dolt_status is not empty", kc)
		}
	})
}

func ancestors(st *mstate, id int) []int {
	seen := map[int]bool{}
	var out []int
	var walk func(int)
	walk = func(i int) {
		if seen[i] {
			return
		}
		seen[i] = true
		out = append(out, i)
		for _, p := range st.parents[i] {
			walk(p)
		}
	}
	walk(id)
	return out
}

// revDB reads every table through the revision database `db/<rev>`.
func (o *oracle) revDB(rev, want string, id int, kc kase) error {
	im := o.im
	wantTs := parseRootDump(want)
	r := im.q(fmt.Sprintf("show tables from `db/%s`", rev))
	if r.Err != nil {
		return r.Err
	}
	var names []string
	for _, rr := range r.Rows {
		if n := unq(rr[0]); !strings.HasPrefix(n, "dolt_") {
			names = append(names, n)
		}
	}
	sort.Strings(names)
	var wn []string
	for _, t := range wantTs {
		wn = append(wn, t.Name)
	}
	if strings.Join(names, ",") != strings.Join(wn, ",") {
		o.rep.Violate("C33/revision-db/tables", fmt.Sprintf("`db/%s` (commit %d) has tables %v, recorded %v", rev, id, names, wn), kc)
		return nil
	}
	for _, wt := range wantTs {
		rr := im.q(fmt.Sprintf("select * from `db/%s`.`%s` order by pk", rev, wt.Name))
		if rr.Err != nil {
			o.rep.Violate("C33/revision-db/error", fmt.Sprintf("select from `db/%s`.%s failed: %v", rev, wt.Name, rr.Err), kc)
			continue
		}
		var got []string
		for _, x := range rr.Rows {
			pk, cells := splitRow(rr.Cols, x)
			got = append(got, pk+"="+strings.Join(cells, ","))
		}
		var exp []string
		for _, rw := range wt.Rows {
			exp = append(exp, fmt.Sprintf("%d=%s", rw.PK, strings.Join(rw.Cells, ",")))
		}
		o.rep.Hit("oracle/C33/revision-db")
		if strings.Join(got, ";") != strings.Join(exp, ";") || len(rr.Cols)-1 != len(wt.Cols) {
			o.rep.Violate("C33/revision-db/data", fmt.Sprintf("`db/%s`.%s (commit %d) returns %v, recorded %v", rev, wt.Name, id, got, exp), kc)
		}
	}
	return nil
}

func field(d, key string) string {
	for _, f := range strings.Split(d, " ") {
		if strings.HasPrefix(f, key) {
			return f[len(key):]
		}
	}
	return ""
}

// stashIdentity: stash push immediately followed by pop is the identity on data and status.
func (o *oracle) stashIdentity(st *mstate, kc kase) {
	now, err := o.im.dump()
	if err != nil {
		return
	}
	o.rep.Hit("oracle/C34/stash-pop")
	if field(now, "W:") != field(o.preStash, "W:") {
		o.rep.Violate("C34/stash-pop/working", fmt.Sprintf("stash push; pop changed the working tables: before %s after %s", field(o.preStash, "W:"), field(now, "W:")), kc)
		return
	}
	if field(now, "S:") != field(o.preStash, "S:") || field(now, "ST:") != field(o.preStash, "ST:") {
		o.rep.Known("C34/stash-pop/staged-not-restored", fmt.Sprintf("stash push; pop does not restore the staged contents: staged before %s [%s] after %s [%s]",
			field(o.preStash, "S:"), field(o.preStash, "ST:"), field(now, "S:"), field(now, "ST:")), kc)
	}
}

// resetHard: working (tracked tables) and staged equal the target commit; untracked tables stay.
func (o *oracle) resetHard(pre, st *mstate, kc kase) {
	im := o.im
	h, e1 := im.readRoot("HEAD")
	w, e2 := im.readRoot("WORKING")
	s, e3 := im.readRoot("STAGED")
	if e1 != nil || e2 != nil || e3 != nil {
		return
	}
	o.rep.Hit("oracle/C34/reset-hard")
	if showRoot(s) != showRoot(h) {
		o.rep.Violate("C34/reset-hard/staged", fmt.Sprintf("after reset --hard staged %s != HEAD %s", showRoot(s), showRoot(h)), kc)
	}
	for _, t := range h {
		wt := findTable(w, t.Name)
		if wt == nil || showTable(wt) != showTable(t) {
			o.rep.Violate("C34/reset-hard/working", fmt.Sprintf("after reset --hard working table %s differs from HEAD", t.Name), kc)
		}
	}
	for _, t := range w {
		if findTable(h, t.Name) != nil {
			continue
		}
		// must be a table that was untracked before (in working, not in staged) with the same content
		pw, ps := findTable(pre.W, t.Name), findTable(pre.S, t.Name)
		if pw == nil || ps != nil || showTable(pw) != showTable(t) {
			o.rep.Violate("C34/reset-hard/extra-table", fmt.Sprintf("after reset --hard working has table %s which is neither in the target commit nor an untouched untracked table", t.Name), kc)
		}
	}
}

// checkoutMove: a successful `checkout` (moving the working set) carries every uncommitted change;
// a failed one leaves everything as it was.
func (o *oracle) checkoutMove(b, res string, pre, st *mstate, kc kase) {
	im := o.im
	if res != "ok" {
		now, err := im.dump()
		if err == nil && o.lastDump != "" && now != o.lastDump {
			o.rep.Violate("C34/checkout/failed-not-intact", fmt.Sprintf("checkout %s failed but the state changed: before %s after %s", b, o.lastDump, now), kc)
		}
		o.rep.Hit("oracle/C34/checkout-failed")
		return
	}
	if pre.cur == b {
		return
	}
	w, err := im.readRoot("WORKING")
	if err != nil {
		return
	}
	o.rep.Hit("oracle/C34/checkout-carry")
	names := map[string]bool{}
	for _, t := range pre.W {
		names[t.Name] = true
	}
	for _, t := range pre.H {
		names[t.Name] = true
	}
	// staged changes must be carried as well
	if sroot, err := im.readRoot("STAGED"); err == nil {
		sn := map[string]bool{}
		for _, t := range pre.S {
			sn[t.Name] = true
		}
		for _, t := range pre.H {
			sn[t.Name] = true
		}
		for n := range sn {
			ps, ph := findTable(pre.S, n), findTable(pre.H, n)
			if (ps == nil) == (ph == nil) && (ps == nil || showTable(ps) == showTable(ph)) {
				continue
			}
			ns := findTable(sroot, n)
			if (ns == nil) == (ps == nil) && (ns == nil || showTable(ns) == showTable(ps)) {
				continue
			}
			what := fmt.Sprintf("checkout %s succeeded but the STAGED change to table %s was not carried over (and the source working set was reset)", b, n)
			if ps == nil {
				o.rep.Known("C34/checkout/dropped-table-lost", what+": the table was dropped and reappears", kc)
			} else {
				o.rep.Violate("C34/checkout/staged-change-lost", what, kc)
			}
		}
	}
	for n := range names {
		pw, ph := findTable(pre.W, n), findTable(pre.H, n)
		changed := (pw == nil) != (ph == nil) || (pw != nil && showTable(pw) != showTable(ph))
		if !changed {
			continue
		}
		nw := findTable(w, n)
		same := (nw == nil) == (pw == nil) && (nw == nil || showTable(nw) == showTable(pw))
		if !same {
			what := fmt.Sprintf("checkout %s succeeded but the uncommitted change to table %s was not carried over (and the source working set was reset)", b, n)
			if pw == nil {
				o.rep.Known("C34/checkout/dropped-table-lost", what+": the table was dropped in the working set and reappears", kc)
			} else {
				o.rep.Violate("C34/checkout/change-lost", what, kc)
			}
		}
	}
}

// ---------------------------------------------------------------- model-vs-dolt queries

var (
	reAddCol  = regexp.MustCompile("^ALTER TABLE `([^`]+)` ADD `([^`]+)` (int|varchar\\(20\\));$")
	reDropCol = regexp.MustCompile("^ALTER TABLE `([^`]+)` DROP `([^`]+)`;$")
	reDropTbl = regexp.MustCompile("^DROP TABLE `([^`]+)`;$")
	reCreate  = regexp.MustCompile("(?s)^CREATE TABLE `([^`]+)` \\((.*)\\) ENGINE")
	reInsert  = regexp.MustCompile("(?s)^INSERT INTO `([^`]+)` \\(([^)]*)\\) VALUES \\((.*)\\);$")
	reUpdate  = regexp.MustCompile("(?s)^UPDATE `([^`]+)` SET (.*) WHERE `pk`=(-?\\d+);$")
	reDelete  = regexp.MustCompile("^DELETE FROM `([^`]+)` WHERE `pk`=(-?\\d+);$")
)

// splitSQLValues splits "1,'a,b',NULL" at top-level commas and converts each literal to a wire cell.
func splitSQLList(s string) []string {
	var out []string
	var cur strings.Builder
	inq := false
	for i := 0; i < len(s); i++ {
		c := s[i]
		switch {
		case inq && c == '\\' && i+1 < len(s):
			cur.WriteByte(c)
			cur.WriteByte(s[i+1])
			i++
		case c == '\'':
			inq = !inq
			cur.WriteByte(c)
		case c == ',' && !inq:
			out = append(out, cur.String())
			cur.Reset()
		default:
			cur.WriteByte(c)
		}
	}
	out = append(out, cur.String())
	return out
}

func litToCell(l string) string {
	l = strings.TrimSpace(l)
	if l == "NULL" {
		return "N"
	}
	if strings.HasPrefix(l, "'") {
		body := l[1 : len(l)-1]
		var b strings.Builder
		for i := 0; i < len(body); i++ {
			if body[i] == '\\' && i+1 < len(body) {
				i++
				switch body[i] {
				case 'n':
					b.WriteByte('\n')
				case 't':
					b.WriteByte('\t')
				case '0':
					b.WriteByte(0)
				default:
					b.WriteByte(body[i])
				}
				continue
			}
			if body[i] == '\'' && i+1 < len(body) && body[i+1] == '\'' {
				i++
			}
			b.WriteByte(body[i])
		}
		return "s" + hexS(b.String())
	}
	return "i" + l
}

// abstractStmt parses one statement of dolt_patch into the model's abstract form.
func abstractStmt(s string) string {
	if m := reAddCol.FindStringSubmatch(s); m != nil {
		ty := "int"
		if m[3] != "int" {
			ty = "str"
		}
		return fmt.Sprintf("AC:%s:%s:%s", m[1], m[2], ty)
	}
	if m := reDropCol.FindStringSubmatch(s); m != nil {
		return fmt.Sprintf("DC:%s:%s", m[1], m[2])
	}
	if m := reDropTbl.FindStringSubmatch(s); m != nil {
		return "D:" + m[1]
	}
	if m := reCreate.FindStringSubmatch(s); m != nil {
		var cs []string
		for _, l := range strings.Split(m[2], "\n") {
			if x := colLineRe.FindStringSubmatch(l); x != nil && x[1] != "pk" {
				ty := "int"
				if x[2] != "int" {
					ty = "str"
				}
				cs = append(cs, x[1]+":"+ty)
			}
		}
		return fmt.Sprintf("C:%s:%s", m[1], strings.Join(cs, ","))
	}
	if m := reInsert.FindStringSubmatch(s); m != nil {
		vals := splitSQLList(m[3])
		names := strings.Split(m[2], ",")
		cells := make([]string, 0, len(vals))
		pk := ""
		for i, v := range vals {
			if i < len(names) && strings.Trim(names[i], "` ") == "pk" {
				pk = strings.TrimSpace(v)
				continue
			}
			cells = append(cells, litToCell(v))
		}
		return fmt.Sprintf("I:%s:%s:%s", m[1], pk, strings.Join(cells, ","))
	}
	if m := reUpdate.FindStringSubmatch(s); m != nil {
		var sets []string
		for _, a := range splitSQLList(m[2]) {
			i := strings.Index(a, "=")
			sets = append(sets, strings.Trim(a[:i], "` ")+"="+litToCell(a[i+1:]))
		}
		return fmt.Sprintf("U:%s:%s:%s", m[1], m[3], strings.Join(sets, ","))
	}
	if m := reDelete.FindStringSubmatch(s); m != nil {
		return fmt.Sprintf("X:%s:%s", m[1], m[2])
	}
	return "?:" + s
}

// queries compares read-side answers of dolt and the model on the current state.
func (rn *runner) queries(im *impl, st *mstate, kc kase, all bool) bool {
	rep := rn.e.Rep
	r := rn.oracleR
	weight := func(p string, hi, lo int) int {
		if rn.prop == p {
			return hi
		}
		return lo
	}
	pickRev := func() string {
		switch r.Intn(8) {
		case 0:
			return "W"
		case 1:
			return "S"
		case 2:
			return "H"
		case 3:
			return "b" + hx.Pick(r, keysOf(st.branches))
		default:
			s := "c" + strconv.Itoa(hx.Pick(r, st.ids))
			if r.Chance(1, 4) {
				s += "~1"
			}
			return s
		}
	}
	tn := hx.Pick(r, tablePool)
	disagree := func(q, impl, model string) bool {
		rep.Disagree(map[string]any{"prop": kc.Prop, "ops": kc.Ops, "query": q}, impl, model, "query "+q)
		return false
	}
	if all || r.Chance(weight("C33", 40, 4), 100) {
		rev := pickRev()
		q := fmt.Sprintf("asof %s %s", rev, tn)
		mresp := rn.m.Ask(q)
		rs, _ := im.refSQL(rev)
		t, err := im.readTable(rs, tn)
		iresp := "err"
		if err == nil {
			iresp = "ok " + showTable(t)
		}
		rep.Hit("query/asof/" + strings.Fields(mresp)[0])
		if iresp != mresp {
			return disagree(q, iresp, mresp)
		}
	}
	if all || r.Chance(weight("C32", 40, 4), 100) {
		a, b := pickRev(), pickRev()
		q := fmt.Sprintf("diff %s %s %s", a, b, tn)
		mresp := rn.m.Ask(q)
		as, _ := im.refSQL(a)
		bs, _ := im.refSQL(b)
		rows, err := im.readDiff(as, bs, tn)
		iresp := "err"
		if err == nil {
			p := make([]string, len(rows))
			for i, d := range rows {
				p[i] = d.String()
			}
			iresp = "ok " + strings.Join(p, ";")
		}
		rep.Hit("query/diff/" + strings.Fields(mresp)[0])
		if strings.TrimSpace(iresp) != strings.TrimSpace(mresp) {
			return disagree(q, iresp, mresp)
		}
		// patch
		q = fmt.Sprintf("patch %s %s", a, b)
		mresp = rn.m.Ask(q)
		pr := im.q(fmt.Sprintf("select statement from dolt_patch('%s','%s') order by statement_order", as, bs))
		iresp = "err"
		if pr.Err == nil {
			p := make([]string, len(pr.Rows))
			for i, rr := range pr.Rows {
				p[i] = abstractStmt(unq(rr[0]))
			}
			iresp = "ok " + strings.Join(p, ";")
		}
		rep.Hit("query/patch/" + strings.Fields(mresp)[0])
		if strings.TrimSpace(iresp) != strings.TrimSpace(mresp) {
			return disagree(q, iresp, mresp)
		}
	}
	if all || r.Chance(weight("C32", 15, 2), 100) {
		q := "difftable " + tn
		mresp := rn.m.Ask(q)
		dr := im.q(fmt.Sprintf("select * from `dolt_diff_%s`", tn))
		iresp := "err"
		if dr.Err == nil {
			rows, err := parseDiffRows(dr.Cols, dr.Rows)
			toC, fromC := -1, -1
			for i, c := range dr.Cols {
				if c == "to_commit" {
					toC = i
				}
				if c == "from_commit" {
					fromC = i
				}
			}
			if err == nil {
				p := make([]string, len(rows))
				for i, d := range rows {
					to := unq(dr.Rows[i][toC])
					if to == "WORKING" {
						to = "W"
					} else {
						to = strconv.Itoa(im.ids[to])
					}
					p[i] = fmt.Sprintf("%s<%d:%s", to, im.ids[unq(dr.Rows[i][fromC])], d.String())
				}
				iresp = "ok " + strings.Join(p, ";")
			}
		}
		rep.Hit("query/difftable/" + strings.Fields(mresp)[0])
		if strings.TrimSpace(iresp) != strings.TrimSpace(mresp) {
			return disagree(q, iresp, mresp)
		}
	}
	if all || r.Chance(weight("C33", 25, 2), 100) {
		c := hx.Pick(r, st.ids)
		q := fmt.Sprintf("history %s c%d", tn, c)
		mresp := rn.m.Ask(q)
		hr := im.q(fmt.Sprintf("select * from `dolt_history_%s` where commit_hash = '%s' order by pk", tn, im.hashes[c]))
		iresp := "err"
		if hr.Err == nil {
			var p []string
			for _, rr := range hr.Rows {
				pk, cells := splitRow(hr.Cols, rr)
				p = append(p, pk+"="+strings.Join(cells, ","))
			}
			iresp = "ok " + strings.Join(p, ";")
		}
		rep.Hit("query/history/" + strings.Fields(mresp)[0])
		if strings.TrimSpace(iresp) != strings.TrimSpace(mresp) {
			return disagree(q, iresp, mresp)
		}
	}
	return true
}

// witnesses replays the fixed refuting witnesses of the full-strength statements that the model
// refutes (design/C32.md, design/C34.md), so that a KNOWN-FINDING line is printed only while the
// implementation still exhibits them.
func witnesses(rn *runner) {
	var ops []string
	switch rn.prop {
	case "C31":
		// dolt_revert('--abort') discards unrelated uncommitted changes (here: an untracked table)
		hx.Recover(func() string {
			rn.runProgram(nil, []string{"create t c1:int", "ins t 1 i1", "commitA " + hexS("w1"), "upd t 1 c1 i2", "commitA " + hexS("w2"),
				"upd t 1 c1 i3", "commitA " + hexS("w3"), "create u c1:int", "ins u 1 i1", "revertA c2"}, 0)
			return ""
		})
		// cherry-picking a commit that drops the column declared before the key corrupts the table
		ops = []string{"create v pk@1 c1:int c2:int", "ins v 6 i2 i-4", "commitA " + hexS("w1"), "dropcol v c1", "upd v 6 c2 i7", "ins v 0 N", "commitA " + hexS("w2")}
	case "C34":
		ops = []string{"create t c1:int", "ins t 1 i1", "create u c1:int", "commitA " + hexS("w1"), "branch b1 H",
			"droptable u", "checkoutmove b1",
			"upd t 1 c1 i2", "add t", "stashpush", "stashpop"}
	case "C32":
		// (1) dolt_patch re-adds a dropped middle column at the end; (2) dolt_diff_<t> omits the
		// P -> A edge of a diamond
		hx.Recover(func() string {
			rn.runProgram(nil, []string{"create t c1:int c2:int c3:int", "ins t 1 i10 i20 i30", "commitA " + hexS("w1"),
				"dropcol t c2", "commitA " + hexS("w2"), "revert H"}, 0)
			return ""
		})
		// (3) a dropped column whose value equals the new value of the next column: stored tuples coincide
		hx.Recover(func() string {
			rn.runProgram(nil, []string{"create t c1:int c2:int", "ins t 1 i5 N", "ins t 2 i7 i8", "commitA " + hexS("w1"),
				"dropcol t c1", "upd t 1 c2 i5", "commitA " + hexS("w2")}, 0)
			return ""
		})
		ops = []string{"create t c1:int", "ins t 1 i10", "commitA " + hexS("w1"), "branch b1 H", "ins t 2 i20", "commita " + hexS("w2"),
			"checkout b1", "ins t 3 i30", "commita " + hexS("w3"), "checkout main", "merge b1 0 " + hexS("w4"), "ins t 4 N"}
	default:
		return
	}
	hx.Recover(func() string { rn.runProgram(nil, ops, 0); return "" })
}
