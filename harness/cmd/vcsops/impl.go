package main

// The implementation side: one in-process dolt engine per program, canonical dumps of the roots /
// status / commit graph in exactly the format the Lean driver prints, and the translation of the
// abstract op lines to SQL.

import (
	"encoding/hex"
	"fmt"
	"regexp"
	"sort"
	"strconv"
	"strings"

	"verif/harness/internal/sqleng"
)

type col struct {
	Name string
	Ty   string // int | str
}

type row struct {
	PK    int64
	Cells []string // wire cells: N, i<dec>, s<hex>
}

type table struct {
	Name   string
	Cols   []col
	Rows   []row
	Create string // SHOW CREATE TABLE text
}

type impl struct {
	eng    *sqleng.Engine
	s      *sqleng.Session
	ids    map[string]int // commit hash -> model id
	hashes map[int]string
	nq     int
	// commit hashes of the default plan of the last rebase (for the rebase-fold oracle)
	lastPlan []string
}

func newImpl(dir string) (*impl, error) {
	e, err := sqleng.New(dir, sqleng.Options{})
	if err != nil {
		return nil, err
	}
	s, err := e.NewSession()
	if err != nil {
		return nil, err
	}
	im := &impl{eng: e, s: s, ids: map[string]int{}, hashes: map[int]string{}}
	r := im.q("select commit_hash from dolt_log")
	if r.Err != nil || len(r.Rows) != 1 {
		return nil, fmt.Errorf("fresh database: unexpected log: %v %v", r.Rows, r.Err)
	}
	h := unq(r.Rows[0][0])
	im.ids[h] = 0
	im.hashes[0] = h
	return im, nil
}

func (im *impl) close() { im.eng.Close() }

func (im *impl) q(sql string) *sqleng.Result {
	im.nq++
	return im.s.Exec(sql)
}

// unq undoes sqleng's %q rendering of strings.
func unq(s string) string {
	if len(s) >= 2 && s[0] == '"' {
		if u, err := strconv.Unquote(s); err == nil {
			return u
		}
	}
	return s
}

func hexS(s string) string {
	if s == "" {
		return "-"
	}
	return hex.EncodeToString([]byte(s))
}

func unhexS(h string) string {
	if h == "-" {
		return ""
	}
	b, err := hex.DecodeString(h)
	if err != nil {
		panic("bad hex " + h)
	}
	return string(b)
}

// wireCell converts one rendered SQL value to the wire form.
func wireCell(v string) string {
	if v == "NULL" {
		return "N"
	}
	if len(v) > 0 && v[0] == '"' {
		return "s" + hexS(unq(v))
	}
	return "i" + v
}

func sqlStr(s string) string {
	s = strings.ReplaceAll(s, `\`, `\\`)
	s = strings.ReplaceAll(s, `'`, `''`)
	return "'" + s + "'"
}

// sqlCell converts a wire cell to a SQL literal.
func sqlCell(c string) string {
	switch {
	case c == "N":
		return "NULL"
	case strings.HasPrefix(c, "i"):
		return c[1:]
	case strings.HasPrefix(c, "s"):
		return sqlStr(unhexS(c[1:]))
	}
	panic("bad cell " + c)
}

var colLineRe = regexp.MustCompile("^\\s*`([^`]+)` (int|varchar\\(20\\))")

// readTable reads one table at a revision ('WORKING', 'STAGED', 'HEAD', a hash, a branch …).
func (im *impl) readTable(rev, name string) (*table, error) {
	cr := im.q(fmt.Sprintf("show create table `%s` as of '%s'", name, rev))
	if cr.Err != nil {
		return nil, cr.Err
	}
	t := &table{Name: name, Create: unq(cr.Rows[0][1])}
	for _, l := range strings.Split(t.Create, "\n")[1:] {
		m := colLineRe.FindStringSubmatch(l)
		if m == nil {
			continue
		}
		ty := "int"
		if m[2] != "int" {
			ty = "str"
		}
		t.Cols = append(t.Cols, col{m[1], ty})
	}
	// the key column `pk` may be declared at any position
	pkAt := -1
	for i, c := range t.Cols {
		if c.Name == "pk" {
			pkAt = i
		}
	}
	if pkAt < 0 {
		return nil, fmt.Errorf("table %s@%s: unexpected schema %q", name, rev, t.Create)
	}
	t.Cols = append(append([]col{}, t.Cols[:pkAt]...), t.Cols[pkAt+1:]...)
	r := im.q(fmt.Sprintf("select * from `%s` as of '%s' order by pk", name, rev))
	if r.Err != nil {
		return nil, r.Err
	}
	for _, rr := range r.Rows {
		pks, cells := splitRow(r.Cols, rr)
		pk, err := strconv.ParseInt(pks, 10, 64)
		if err != nil {
			return nil, fmt.Errorf("pk %q", pks)
		}
		t.Rows = append(t.Rows, row{pk, cells})
	}
	return t, nil
}

// splitRow separates the key column `pk` (wherever it is declared) from the other data cells and
// drops the commit meta columns of the history table.
func splitRow(cols []string, rr []string) (pk string, cells []string) {
	cells = []string{}
	for i, c := range cols {
		switch c {
		case "pk":
			pk = rr[i]
		case "commit_hash", "committer", "commit_date":
		default:
			cells = append(cells, wireCell(rr[i]))
		}
	}
	return
}

func (im *impl) tableNames(rev string) ([]string, error) {
	r := im.q(fmt.Sprintf("show tables as of '%s'", rev))
	if r.Err != nil {
		return nil, r.Err
	}
	var out []string
	for _, rr := range r.Rows {
		n := unq(rr[0])
		if strings.HasPrefix(n, "dolt_") {
			continue
		}
		out = append(out, n)
	}
	sort.Strings(out)
	return out, nil
}

func (im *impl) readRoot(rev string) ([]*table, error) {
	names, err := im.tableNames(rev)
	if err != nil {
		return nil, err
	}
	var out []*table
	for _, n := range names {
		t, err := im.readTable(rev, n)
		if err != nil {
			return nil, err
		}
		out = append(out, t)
	}
	return out, nil
}

func showCols(cs []col) string {
	p := make([]string, len(cs))
	for i, c := range cs {
		p[i] = c.Name + ":" + c.Ty
	}
	return strings.Join(p, ",")
}

func showTable(t *table) string {
	rs := make([]string, len(t.Rows))
	for i, r := range t.Rows {
		rs[i] = fmt.Sprintf("%d=%s", r.PK, strings.Join(r.Cells, ","))
	}
	return t.Name + "(" + showCols(t.Cols) + "){" + strings.Join(rs, ";") + "}"
}

func showRoot(ts []*table) string {
	p := make([]string, len(ts))
	for i, t := range ts {
		p[i] = showTable(t)
	}
	return strings.Join(p, "/")
}

// graph reads every commit reachable from a branch with its parents (in parent order).
func (im *impl) graph() (map[string][]string, error) {
	r := im.q("select commit_hash, parent_hash, parent_index from dolt_commit_ancestors")
	if r.Err != nil {
		return nil, r.Err
	}
	type pe struct {
		idx int
		h   string
	}
	tmp := map[string][]pe{}
	for _, rr := range r.Rows {
		c := unq(rr[0])
		if _, ok := tmp[c]; !ok {
			tmp[c] = nil
		}
		if rr[1] == "NULL" {
			continue
		}
		i, _ := strconv.Atoi(rr[2])
		tmp[c] = append(tmp[c], pe{i, unq(rr[1])})
	}
	out := map[string][]string{}
	for c, ps := range tmp {
		sort.Slice(ps, func(i, j int) bool { return ps[i].idx < ps[j].idx })
		for _, p := range ps {
			out[c] = append(out[c], p.h)
		}
		if _, ok := out[c]; !ok {
			out[c] = nil
		}
	}
	return out, nil
}

func heightOf(g map[string][]string, h string, memo map[string]int) int {
	if v, ok := memo[h]; ok {
		return v
	}
	m := 0
	for _, p := range g[h] {
		if x := heightOf(g, p, memo); x > m {
			m = x
		}
	}
	memo[h] = m + 1
	return m + 1
}

// learn assigns the model's fresh ids to the implementation's fresh commits (both ordered by
// height; fresh commits of one statement form a chain).
func (im *impl) learn(fresh []int) error {
	g, err := im.graph()
	if err != nil {
		return err
	}
	var nu []string
	for h := range g {
		if _, ok := im.ids[h]; !ok {
			nu = append(nu, h)
		}
	}
	memo := map[string]int{}
	sort.Slice(nu, func(i, j int) bool {
		hi, hj := heightOf(g, nu[i], memo), heightOf(g, nu[j], memo)
		if hi != hj {
			return hi < hj
		}
		return nu[i] < nu[j]
	})
	for i := 1; i < len(nu); i++ {
		if heightOf(g, nu[i], memo) == heightOf(g, nu[i-1], memo) {
			return fmt.Errorf("two fresh commits of equal height")
		}
	}
	if len(nu) != len(fresh) {
		return fmt.Errorf("implementation has %d fresh reachable commits, model %d", len(nu), len(fresh))
	}
	for i, h := range nu {
		im.ids[h] = fresh[i]
		im.hashes[fresh[i]] = h
	}
	return nil
}

// dump renders the implementation's state in the model driver's dump format.
func (im *impl) dump() (string, error) {
	r := im.q("select active_branch()")
	if r.Err != nil {
		return "", r.Err
	}
	cur := unq(r.Rows[0][0])
	idOf := func(h string) string {
		if id, ok := im.ids[h]; ok {
			return strconv.Itoa(id)
		}
		return "?" + h
	}
	r = im.q("select name, hash from dolt_branches")
	if r.Err != nil {
		return "", r.Err
	}
	var bs []string
	for _, l := range r.Rows {
		bs = append(bs, unq(l[0])+"="+idOf(unq(l[1])))
	}
	sort.Strings(bs)
	r = im.q("select tag_name, tag_hash from dolt_tags")
	if r.Err != nil {
		return "", r.Err
	}
	var ts []string
	for _, l := range r.Rows {
		ts = append(ts, unq(l[0])+"="+idOf(unq(l[1])))
	}
	sort.Strings(ts)
	g, err := im.graph()
	if err != nil {
		return "", err
	}
	type ce struct {
		id int
		s  string
	}
	var cs []ce
	for h, ps := range g {
		id, ok := im.ids[h]
		if !ok {
			id = 1 << 30
		}
		pp := make([]string, len(ps))
		for i, p := range ps {
			pp[i] = idOf(p)
		}
		cs = append(cs, ce{id, idOf(h) + "(" + strings.Join(pp, ".") + ")"})
	}
	sort.Slice(cs, func(i, j int) bool { return cs[i].id < cs[j].id || (cs[i].id == cs[j].id && cs[i].s < cs[j].s) })
	cstr := make([]string, len(cs))
	for i, c := range cs {
		cstr[i] = c.s
	}
	r = im.q("select table_name, staged, status from dolt_status")
	if r.Err != nil {
		return "", r.Err
	}
	var staged, unstaged []string
	for _, l := range r.Rows {
		e := unq(l[0]) + "/" + l[1] + "/" + strings.ReplaceAll(unq(l[2]), " ", "-")
		if l[1] == "1" {
			staged = append(staged, e)
		} else {
			unstaged = append(unstaged, e)
		}
	}
	sort.Strings(staged)
	sort.Strings(unstaged)
	st := append(staged, unstaged...)
	var roots [3]string
	for i, rev := range []string{"WORKING", "STAGED", "HEAD"} {
		ts, err := im.readRoot(rev)
		if err != nil {
			return "", fmt.Errorf("root %s: %w", rev, err)
		}
		roots[i] = showRoot(ts)
	}
	r = im.q("select count(*) from dolt_stashes")
	if r.Err != nil {
		return "", r.Err
	}
	return fmt.Sprintf("cur=%s B:%s T:%s C:%s ST:%s W:%s S:%s H:%s stash=%s", cur, strings.Join(bs, ","), strings.Join(ts, ","),
		strings.Join(cstr, ","), strings.Join(st, ","), roots[0], roots[1], roots[2], r.Rows[0][0]), nil
}

// refSQL translates a wire revision (H, c<id>, b<name>, t<name>, with ~n; W, S) to dolt's spelling.
func (im *impl) refSQL(r string) (string, bool) {
	base, up := r, ""
	if i := strings.Index(r, "~"); i >= 0 {
		base, up = r[:i], r[i:]
	}
	switch {
	case base == "H":
		return "HEAD" + up, true
	case base == "W":
		return "WORKING", true
	case base == "S":
		return "STAGED", true
	case strings.HasPrefix(base, "c"):
		id, _ := strconv.Atoi(base[1:])
		h, ok := im.hashes[id]
		if !ok {
			return "0000000000000000000000000000000" + strconv.Itoa(id%10), false
		}
		return h + up, true
	case strings.HasPrefix(base, "b"), strings.HasPrefix(base, "t"):
		return base[1:] + up, true
	}
	return r, false
}

func sqlTy(t string) string {
	if t == "int" {
		return "int"
	}
	return "varchar(20)"
}

// outcome of running one abstract op on dolt
type outcome struct {
	ok    bool
	class string
	msg   string
}

func oc(r *sqleng.Result) outcome {
	if r.Err == nil {
		return outcome{ok: true, class: "ok"}
	}
	return outcome{false, r.Class(), r.Err.Error()}
}

// run executes one abstract op line on dolt.
func (im *impl) run(line string) outcome {
	w := strings.Fields(line)
	call := func(proc string, args ...string) outcome {
		qa := make([]string, len(args))
		for i, a := range args {
			qa[i] = sqlStr(a)
		}
		return oc(im.q("call " + proc + "(" + strings.Join(qa, ",") + ")"))
	}
	ref := func(s string) string { r, _ := im.refSQL(s); return r }
	switch w[0] {
	case "ins":
		// explicit column list (the key column need not be first): pk, then the data columns in order
		vals := []string{w[2]}
		for _, c := range w[3:] {
			vals = append(vals, sqlCell(c))
		}
		names := []string{"`pk`"}
		if t, err := im.readTable("WORKING", w[1]); err == nil && len(t.Cols) == len(w)-3 {
			for _, c := range t.Cols {
				names = append(names, "`"+c.Name+"`")
			}
			return oc(im.q(fmt.Sprintf("insert into `%s` (%s) values (%s)", w[1], strings.Join(names, ","), strings.Join(vals, ","))))
		}
		return oc(im.q(fmt.Sprintf("insert into `%s` values (%s)", w[1], strings.Join(vals, ","))))
	case "upd":
		return oc(im.q(fmt.Sprintf("update `%s` set `%s`=%s where pk=%s", w[1], w[3], sqlCell(w[4]), w[2])))
	case "del":
		return oc(im.q(fmt.Sprintf("delete from `%s` where pk=%s", w[1], w[2])))
	case "create":
		// `pk@N`: the key column is declared at position N (the model abstracts the position away)
		at := 0
		var defs []string
		for _, c := range w[2:] {
			if strings.HasPrefix(c, "pk@") {
				at, _ = strconv.Atoi(c[3:])
				continue
			}
			p := strings.SplitN(c, ":", 2)
			defs = append(defs, fmt.Sprintf("`%s` %s", p[0], sqlTy(p[1])))
		}
		if at > len(defs) {
			at = len(defs)
		}
		defs = append(defs[:at], append([]string{"pk int primary key"}, defs[at:]...)...)
		return oc(im.q(fmt.Sprintf("create table `%s` (%s)", w[1], strings.Join(defs, ", "))))
	case "droptable":
		return oc(im.q(fmt.Sprintf("drop table `%s`", w[1])))
	case "addcol":
		return oc(im.q(fmt.Sprintf("alter table `%s` add column `%s` %s", w[1], w[2], sqlTy(w[3]))))
	case "dropcol":
		return oc(im.q(fmt.Sprintf("alter table `%s` drop column `%s`", w[1], w[2])))
	case "add":
		return call("dolt_add", w[1])
	case "addall":
		return call("dolt_add", "-A")
	case "commit":
		return call("dolt_commit", "-m", unhexS(w[1]))
	case "commita":
		return call("dolt_commit", "-a", "-m", unhexS(w[1]))
	case "commitA":
		return call("dolt_commit", "-A", "-m", unhexS(w[1]))
	case "branch":
		return call("dolt_branch", w[1], ref(w[2]))
	case "tag":
		return call("dolt_tag", w[1], ref(w[2]))
	case "checkout":
		return call("dolt_checkout", w[1])
	case "checkoutb":
		return call("dolt_checkout", "-b", w[1])
	case "checkoutmove":
		return call("dolt_checkout", "--move", w[1])
	case "checkouttable":
		return call("dolt_checkout", w[1])
	case "merge":
		if w[2] == "1" {
			return call("dolt_merge", "--no-ff", w[1], "-m", unhexS(w[3]))
		}
		return call("dolt_merge", w[1], "-m", unhexS(w[3]))
	case "cherry", "revert":
		proc := map[string]string{"cherry": "dolt_cherry_pick", "revert": "dolt_revert"}[w[0]]
		return call(proc, ref(w[1]))
	case "cherryA", "revertA":
		// conflicts are allowed to be committed to the working set, then the operation is aborted
		proc := map[string]string{"cherryA": "dolt_cherry_pick", "revertA": "dolt_revert"}[w[0]]
		im.q("set @@dolt_allow_commit_conflicts = 1")
		defer im.q("set @@dolt_allow_commit_conflicts = 0")
		r := im.q("call " + proc + "(" + sqlStr(ref(w[1])) + ")")
		if r.Err != nil {
			return oc(r)
		}
		if len(r.Rows) == 1 && len(r.Rows[0]) == 4 && (r.Rows[0][1] != "0" || r.Rows[0][2] != "0" || r.Rows[0][3] != "0") {
			a := im.q("call " + proc + "('--abort')")
			if a.Err != nil {
				return outcome{false, "abort-failed", a.Err.Error()}
			}
			return outcome{false, "conflict", "conflicts, aborted"}
		}
		return oc(r)
	case "rebase":
		r := im.q("call dolt_rebase('-i', " + sqlStr(ref(w[1])) + ")")
		if r.Err != nil {
			return oc(r)
		}
		plan := []string{}
		if len(w) > 2 && w[2] != "-" {
			plan = strings.Split(w[2], ",")
		}
		im.lastPlan = nil
		if pr := im.q("select commit_hash from dolt_rebase order by rebase_order"); pr.Err == nil {
			for _, rr := range pr.Rows {
				im.lastPlan = append(im.lastPlan, unq(rr[0]))
			}
		}
		for i, a := range plan {
			var u string
			switch {
			case a == "p":
				continue
			case a == "d":
				u = "action='drop'"
			case a == "s":
				u = "action='squash'"
			case a == "f":
				u = "action='fixup'"
			case strings.HasPrefix(a, "r"):
				u = "action='reword', commit_message=" + sqlStr(unhexS(a[1:]))
			}
			ur := im.q(fmt.Sprintf("update dolt_rebase set %s where rebase_order = %d", u, i+1))
			if ur.Err != nil {
				im.q("call dolt_rebase('--abort')")
				return outcome{false, "plan-edit-failed", ur.Err.Error()}
			}
		}
		r = im.q("call dolt_rebase('--continue')")
		if r.Err != nil {
			a := im.q("call dolt_rebase('--abort')")
			if a.Err != nil && !strings.Contains(a.Err.Error(), "no rebase in progress") {
				return outcome{false, "abort-failed", a.Err.Error()}
			}
			return oc(r)
		}
		return oc(r)
	case "resethard":
		if len(w) > 1 {
			return call("dolt_reset", "--hard", ref(w[1]))
		}
		return call("dolt_reset", "--hard")
	case "resetsoft":
		if len(w) > 1 {
			return call("dolt_reset", "--soft", ref(w[1]))
		}
		return call("dolt_reset", "--soft")
	case "resetmixed":
		return call("dolt_reset", ref(w[1]))
	case "resettables":
		return call("dolt_reset")
	case "resettable":
		return call("dolt_reset", w[1])
	case "stashpush":
		return call("dolt_stash", "push", "st")
	case "stashpop":
		return call("dolt_stash", "pop", "st")
	case "stashdrop":
		return call("dolt_stash", "drop", "st")
	}
	return outcome{false, "bad-op", line}
}
