package main

// kernel stream: the executor kernels of C26 on the real code vs the Lean model, below SQL.
//
//   conv  — index.ProllyRangesForIndex (prollyRangesFromSqlRanges incl. pruning) on generated SQL
//           ranges (cuts BelowNull/AboveNull/Below/Above/AboveAll per index column) vs `toProlly`:
//           per field binding/inclusive/value/BoundsAreEqual, IsContiguous, SkipRangeMatchCallback;
//   scan  — prolly.Map.IterRange over the real secondary / primary index map vs `rangeScan`;
//           oracle (independent of both): the index entries whose cells lie between the cuts;
//   join  — `t join r on t.a = r.a` (merge join with indexes, lookup join hinted) and count(a)/count(*):
//           dolt vs reference engine (oracle) vs `mergeJoin` / `lookupJoin` / `countAgg`.

import (
	"context"
	"encoding/binary"
	"fmt"
	"io"
	"sort"
	"strings"

	"github.com/dolthub/go-mysql-server/sql"
	gmstypes "github.com/dolthub/go-mysql-server/sql/types"

	"github.com/dolthub/dolt/go/libraries/doltcore/doltdb"
	"github.com/dolthub/dolt/go/libraries/doltcore/doltdb/durable"
	"github.com/dolthub/dolt/go/libraries/doltcore/sqle/index"
	"github.com/dolthub/dolt/go/store/prolly"
	"github.com/dolthub/dolt/go/store/val"

	"verif/harness/internal/hx"
	"verif/harness/internal/qx"
	"verif/harness/internal/sqleng"
)

type cut struct {
	Kind string `json:"kind"` // bn an aa b a
	K    int    `json:"k"`
}

func (c cut) wire() string {
	if c.Kind == "b" || c.Kind == "a" {
		return fmt.Sprintf("%s%d", c.Kind, c.K)
	}
	return c.Kind
}

func (c cut) sql() sql.MySQLRangeCut {
	switch c.Kind {
	case "bn":
		return sql.BelowNull{}
	case "an":
		return sql.AboveNull{}
	case "aa":
		return sql.AboveAll{}
	case "b":
		return sql.Below{Key: int32(c.K), Typ: gmstypes.Int32}
	}
	return sql.Above{Key: int32(c.K), Typ: gmstypes.Int32}
}

// above: is the cell above the cut (the documented meaning of a range cut)
func (c cut) above(v *int) bool {
	switch c.Kind {
	case "bn":
		return true
	case "an":
		return v != nil
	case "aa":
		return false
	case "b":
		return v != nil && *v >= c.K
	}
	return v != nil && *v > c.K
}

type kcase struct {
	Stream string     `json:"stream"`
	Rows   [][3]*int  `json:"rows"` // pk, a, b  (pk never nil)
	Index  string     `json:"index"` // iab | PRIMARY
	Range  [][2]cut   `json:"range"`
}

func genCut(r *hx.Rng, lower bool) cut {
	switch r.Intn(8) {
	case 0:
		if lower {
			return cut{Kind: "bn"}
		}
		return cut{Kind: "aa"}
	case 1:
		return cut{Kind: "an"}
	case 2:
		return cut{Kind: hx.Pick(r, []string{"bn", "aa"})}
	}
	return cut{Kind: hx.Pick(r, []string{"b", "a"}), K: hx.Pick(r, []int{-3, 0, 1, 2, 2, 3, 5, 7, 2147483647, -2147483648})}
}

func genKernel(r *hx.Rng) kcase {
	k := kcase{Stream: "kernel"}
	n := r.Range(0, 30)
	np := hx.Pick(r, []int{0, 20, 50})
	iv := func() *int {
		if r.Intn(100) < np {
			return nil
		}
		v := hx.Pick(r, []int{-3, 0, 1, 2, 2, 2, 3, 5, 7, 7, 2147483647, -2147483648})
		return &v
	}
	used := map[int]bool{}
	for i := 0; i < n; i++ {
		pk := hx.Pick(r, []int{-3, 0, 1, 2, 3, 5, 7, 2147483647, -2147483648, 10 + i})
		if used[pk] {
			pk = 100 + i
		}
		used[pk] = true
		p := pk
		k.Rows = append(k.Rows, [3]*int{&p, iv(), iv()})
	}
	k.Index = hx.Pick(r, []string{"iab", "iab", "iab", "PRIMARY"})
	cols := 2
	if k.Index == "PRIMARY" {
		cols = 1
	}
	nc := r.Range(1, cols)
	if cols == 2 && r.Chance(1, 3) {
		// exact prefix + IS [NOT] NULL on the last index column
		v := hx.Pick(r, []int{0, 1, 2, 2, 3})
		k.Range = append(k.Range, [2]cut{{Kind: "b", K: v}, {Kind: "a", K: v}})
		if r.Bool() {
			k.Range = append(k.Range, [2]cut{{Kind: "bn"}, {Kind: "an"}})
		} else {
			k.Range = append(k.Range, [2]cut{{Kind: "an"}, {Kind: "aa"}})
		}
		return k
	}
	for i := 0; i < nc; i++ {
		var ce [2]cut
		switch r.Intn(6) {
		case 0, 1: // equality
			v := hx.Pick(r, []int{-3, 0, 1, 2, 2, 3, 5, 7, 2147483647, -2147483648})
			ce = [2]cut{{Kind: "b", K: v}, {Kind: "a", K: v}}
		case 2:
			ce = [2]cut{{Kind: "bn"}, {Kind: "an"}} // IS NULL
		default:
			ce = [2]cut{genCut(r, true), genCut(r, false)}
		}
		k.Range = append(k.Range, ce)
	}
	return k
}

func cellS(v *int) string {
	if v == nil {
		return "N"
	}
	return fmt.Sprint(*v)
}

func tupS(t []*int) string {
	p := make([]string, len(t))
	for i, v := range t {
		p[i] = cellS(v)
	}
	return strings.Join(p, ",")
}

func tupsS(ts [][]*int) string {
	if len(ts) == 0 {
		return "-"
	}
	p := make([]string, len(ts))
	for i, t := range ts {
		p[i] = tupS(t)
	}
	return strings.Join(p, ";")
}

func rangeWire(rg [][2]cut) string {
	p := make([]string, len(rg))
	for i, ce := range rg {
		p[i] = ce[0].wire() + "," + ce[1].wire()
	}
	return strings.Join(p, ";")
}

func decodeKey(d *val.TupleDesc, k val.Tuple) []*int {
	out := make([]*int, d.Count())
	for i := 0; i < d.Count(); i++ {
		if v, ok := d.GetInt32(i, k); ok {
			x := int(v)
			out[i] = &x
		}
	}
	return out
}

func renderBound(d *val.TupleDesc, i int, b prolly.Bound) string {
	v := "N"
	if b.Value != nil {
		v = fmt.Sprint(int32(binary.LittleEndian.Uint32(b.Value)))
	}
	return fmt.Sprintf("%s/%s/%s", v, b01(b.Binding), b01(b.Inclusive))
}

func b01(b bool) string {
	if b {
		return "1"
	}
	return "0"
}

var kseq int

func runKernel(e *hx.Env, m *hx.Model, k kcase) {
	kseq++
	out := hx.Recover(func() string {
		dir := fmt.Sprintf("%s/k%d", e.Scratch, kseq)
		eng, err := sqleng.New(dir, sqleng.Options{})
		if err != nil {
			return "engine: " + err.Error()
		}
		defer eng.Close()
		s, _ := eng.NewSession()
		s.MustExec("create table t (pk int primary key, a int, b int, key iab (a, b))")
		if len(k.Rows) > 0 {
			var vals []string
			for _, r := range k.Rows {
				vals = append(vals, fmt.Sprintf("(%s,%s,%s)", sqlv(r[0]), sqlv(r[1]), sqlv(r[2])))
			}
			s.MustExec("insert into t values " + strings.Join(vals, ","))
		}
		ctx, err := qx.SqlCtx(s)
		if err != nil {
			return err.Error()
		}
		roots, _ := s.Sess.GetRoots(ctx, s.E.DBName)
		tbl, ok, err := roots.Working.GetTable(ctx, doltdb.TableName{Name: "t"})
		if err != nil || !ok {
			return fmt.Sprint("table: ", err)
		}
		idxs, err := index.DoltIndexesFromTable(ctx, s.E.DBName, "t", tbl)
		if err != nil {
			return "indexes: " + err.Error()
		}
		var sqlIdx sql.Index
		for _, ix := range idxs {
			if strings.EqualFold(ix.ID(), k.Index) {
				sqlIdx = ix
			}
		}
		if sqlIdx == nil {
			return "index not found: " + k.Index
		}
		var pm prolly.Map
		if k.Index == "PRIMARY" {
			rd, err := tbl.GetRowData(ctx)
			if err != nil {
				return err.Error()
			}
			pm, err = durable.ProllyMapFromIndex(rd)
			if err != nil {
				return err.Error()
			}
		} else {
			rd, err := tbl.GetIndexRowData(ctx, k.Index)
			if err != nil {
				return err.Error()
			}
			pm, err = durable.ProllyMapFromIndex(rd)
			if err != nil {
				return err.Error()
			}
		}
		kd := pm.KeyDesc()
		// the whole index, in order
		var all [][]*int
		it, err := pm.IterAll(ctx)
		if err != nil {
			return err.Error()
		}
		for {
			key, _, err := it.Next(ctx)
			if err == io.EOF {
				break
			}
			if err != nil {
				return err.Error()
			}
			all = append(all, decodeKey(kd, key))
		}
		var nullable []int
		for _, t := range kd.Types {
			if t.Nullable {
				nullable = append(nullable, 1)
			} else {
				nullable = append(nullable, 0)
			}
		}
		// SQL range
		var rng sql.MySQLRange
		for _, ce := range k.Range {
			rng = append(rng, sql.MySQLRangeColumnExpr{LowerBound: ce[0].sql(), UpperBound: ce[1].sql(), Typ: gmstypes.Int32})
		}
		prs, err := index.ProllyRangesForIndex(ctx, sqlIdx, sql.MySQLRangeCollection{rng})
		if err != nil {
			return "ProllyRangesForIndex: " + err.Error()
		}
		rw := rangeWire(k.Range)
		// ---- conv
		implConv := "pruned"
		if len(prs) == 1 {
			var fs []string
			for i, f := range prs[0].Fields {
				fs = append(fs, fmt.Sprintf("%s %s %s", renderBound(kd, i, f.Lo), renderBound(kd, i, f.Hi), b01(f.BoundsAreEqual)))
			}
			implConv = strings.Join(fs, "|") + fmt.Sprintf(" contig=%s skip=%s", b01(prs[0].IsContiguous), b01(prs[0].SkipRangeMatchCallback))
		}
		modConv := m.Ask("conv " + rw)
		e.Rep.Count(fmt.Sprintf("kernel %s %s %s", k.Index, rw, tupsS(all)), true)
		if implConv != modConv {
			e.Rep.Disagree(k, implConv, modConv, "prollyRangesFromSqlRanges vs toProlly")
		}
		// ---- scan
		var got [][]*int
		for _, pr := range prs {
			rit, err := pm.IterRange(ctx, pr)
			if err != nil {
				return "IterRange: " + err.Error()
			}
			for {
				key, _, err := rit.Next(ctx)
				if err == io.EOF {
					break
				}
				if err != nil {
					return err.Error()
				}
				got = append(got, decodeKey(kd, key))
			}
		}
		// oracle: the cells between the cuts (and a non-empty range)
		var want [][]*int
		for _, t := range all {
			in := true
			for i, ce := range k.Range {
				if !(ce[0].above(t[i]) && !ce[1].above(t[i])) {
					in = false
				}
			}
			if in {
				want = append(want, t)
			}
		}
		gs, ws := tupsS(got), tupsS(want)
		e.Rep.Hit(fmt.Sprintf("kernel:%s/%s/rows=%s", k.Index, implConvKind(implConv), bucket(len(got))))
		if gs != ws {
			e.Rep.Violate("kernel/rangescan", fmt.Sprintf("index %s range %s over %s: IterRange returned %s, the cells between the cuts are %s", k.Index, rw, tupsS(all), gs, ws), k)
			return ""
		}
		mod := m.Ask(fmt.Sprintf("scan 2147483647 %s %s %s", hx.NatList(nullable), rw, tupsS(all)))
		if mod != gs {
			e.Rep.Disagree(k, gs, mod, "IterRange vs rangeScan ("+implConv+")")
		}
		if len(e.Rep.Samples) < 6 {
			e.Rep.Sample(map[string]string{"stream": "kernel", "index": k.Index, "range": rw, "prolly": implConv, "result": qx.Short(gs, 120)})
		}
		return ""
	})
	if out != "" {
		e.Rep.Violate("kernel/failure", out, k)
	}
}

func implConvKind(c string) string {
	switch {
	case c == "pruned":
		return "pruned"
	case strings.Contains(c, "contig=1"):
		return "contiguous"
	}
	return "filtered"
}

func bucket(n int) string {
	switch {
	case n == 0:
		return "0"
	case n < 4:
		return "1-3"
	}
	return "4+"
}

func sqlv(v *int) string {
	if v == nil {
		return "NULL"
	}
	return fmt.Sprint(*v)
}

// ---------------------------------------------------------------- join / count vs model

// modelJoin compares the SQL join result (already equal on dolt and the reference engine) with
// the model's merge join / lookup join over the key-sorted inputs.
func modelJoinCount(e *hx.Env, m *hx.Model, s *sqleng.Session, mem *qx.Mem, tag string, setup []string) {
	type kv struct {
		key *int
		id  int
	}
	load := func(q string) []kv {
		r := s.Exec(q)
		var out []kv
		for _, row := range r.Rows {
			var x kv
			if row[0] != "NULL" {
				var v int
				fmt.Sscan(row[0], &v)
				x.key = &v
			}
			fmt.Sscan(row[1], &x.id)
			out = append(out, x)
		}
		sort.SliceStable(out, func(i, j int) bool {
			a, b := out[i].key, out[j].key
			if a == nil || b == nil {
				return a == nil && b != nil
			}
			return *a < *b
		})
		return out
	}
	wire := func(xs []kv) string {
		if len(xs) == 0 {
			return "-"
		}
		p := make([]string, len(xs))
		for i, x := range xs {
			p[i] = cellS(x.key) + "," + fmt.Sprint(x.id)
		}
		return strings.Join(p, ";")
	}
	L, R := load("select a, pk from t"), load("select a, id from r")
	for _, q := range []string{
		"select t.pk, r.id from t join r on t.a = r.a",
		"select /*+ LOOKUP_JOIN(t,r) */ t.pk, r.id from t join r on t.a = r.a",
		"select /*+ MERGE_JOIN(t,r) */ t.pk, r.id from t join r on t.a = r.a",
	} {
		d, g := s.Exec(q), mem.Exec(q)
		if d.Err != nil || g.Err != nil {
			continue
		}
		ds := strings.Join(d.Sorted(), ";")
		if gs := strings.Join(g.Sorted(), ";"); ds != gs {
			e.Rep.Violate("query/join", fmt.Sprintf("dolt and the reference engine disagree on %q (%s): %s vs %s", q, tag, qx.Short(ds, 300), qx.Short(gs, 300)), qcase{Setup: setup, Queries: []string{q}})
			continue
		}
		plan := qx.JoinRows(s.Exec("explain plan " + q).Rows)
		canon := func(resp string) string {
			if resp == "-" {
				return ""
			}
			p := strings.Split(resp, ";")
			for i := range p {
				p[i] = strings.Replace(p[i], ":", "|", 1)
			}
			sort.Strings(p)
			return strings.Join(p, ";")
		}
		e.Rep.Count(tag+"|"+q+"|"+wire(L)+"|"+wire(R), true)
		switch {
		case strings.Contains(plan, "MergeJoin"):
			e.Rep.Hit("model:mergeJoin")
			if mod := canon(m.Ask("merge " + wire(L) + " " + wire(R))); mod != ds {
				e.Rep.Disagree(map[string]any{"query": q, "left": wire(L), "right": wire(R)}, ds, mod, "merge join vs mergeJoin model")
			}
		case strings.Contains(plan, "LookupJoin"):
			e.Rep.Hit("model:lookupJoin")
			// right index (a, id) in index order
			var idx []string
			for _, x := range R {
				idx = append(idx, cellS(x.key)+","+fmt.Sprint(x.id))
			}
			ix := "-"
			if len(idx) > 0 {
				ix = strings.Join(idx, ";")
			}
			resp := m.Ask("lookup 2147483647 [1,0] " + wire(L) + " " + ix)
			// resp pairs are leftid:key,rightid
			var p []string
			if resp != "-" {
				for _, x := range strings.Split(resp, ";") {
					a := strings.SplitN(x, ":", 2)
					b := strings.Split(a[1], ",")
					p = append(p, a[0]+"|"+b[len(b)-1])
				}
			}
			sort.Strings(p)
			if mod := strings.Join(p, ";"); mod != ds {
				e.Rep.Disagree(map[string]any{"query": q, "left": wire(L), "right": wire(R)}, ds, mod, "lookup join vs lookupJoin model")
			}
		default:
			e.Rep.Hit("model:other-join-plan")
		}
	}
	for _, q := range []string{"select count(a) from t", "select count(*) from t", "select count(pk) from t", "select count(1) from r"} {
		d, g := s.Exec(q), mem.Exec(q)
		if d.Err != nil || g.Err != nil || len(d.Rows) != 1 {
			continue
		}
		if d.Rows[0][0] != g.Rows[0][0] {
			e.Rep.Violate("query/count", fmt.Sprintf("%q (%s): dolt %s, reference %s", q, tag, d.Rows[0][0], g.Rows[0][0]), qcase{Setup: setup, Queries: []string{q}})
			continue
		}
		rows := L
		nullable := 0
		if strings.Contains(q, "count(a)") {
			nullable = 1
		}
		if strings.Contains(q, "from r") {
			rows = R
		}
		col := 0
		if !strings.Contains(q, "count(a)") {
			col = 1
		}
		e.Rep.Hit("model:count")
		if mod := m.Ask(fmt.Sprintf("count %d %d %s", nullable, col, wire(rows))); mod != d.Rows[0][0] {
			e.Rep.Disagree(map[string]any{"query": q, "rows": wire(rows)}, d.Rows[0][0], mod, "count vs countAgg model")
		}
	}
}

var _ = context.Background
