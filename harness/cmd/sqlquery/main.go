// sqlquery: correspondence + property oracle for C26.
//
// Stream "kernel" (kernel.go): the executor kernels below SQL vs the Lean model.
// Stream "sql" (this file):
// The property's own oracle: generated data (NULL-heavy, duplicate-heavy, ints + short strings) and
// generated read queries (range filters, IN lists, IS [NOT] NULL, AND/OR, joins on indexed and
// unindexed columns, count/sum/min/max with GROUP BY, ORDER BY + LIMIT) run on dolt (sqleng) and on
// go-mysql-server's in-memory engine holding the same data; same rows (in order when ORDER BY is
// total, else as multisets).  Every data set is run twice on dolt: without and with secondary
// indexes, so that table scans, index range scans, lookup joins and merge joins all execute;
// EXPLAIN output is sampled into the report.
package main

import (
	"encoding/json"
	"fmt"
	"os"
	"path/filepath"
	"sort"
	"strings"

	"verif/harness/internal/hx"
	"verif/harness/internal/qx"
	"verif/harness/internal/sqleng"
)

type qcase struct {
	Setup   []string `json:"setup"`
	Indexes []string `json:"indexes"`
	Queries []string `json:"queries"`
}

func ival(r *hx.Rng, nullPct int) string {
	if r.Intn(100) < nullPct {
		return "NULL"
	}
	return fmt.Sprint(hx.Pick(r, []int{-3, -1, 0, 0, 1, 1, 2, 2, 2, 3, 5, 7, 7, 10, 100, -2147483648, 2147483647}))
}

func sval(r *hx.Rng, nullPct int) string {
	if r.Intn(100) < nullPct {
		return "NULL"
	}
	return "'" + hx.Pick(r, []string{"", "a", "a", "A", "b", "ab", "abc", "B", "z", "é", " a", "a "}) + "'"
}

func gen(r *hx.Rng) qcase {
	var c qcase
	c.Setup = append(c.Setup,
		"create table t (pk int primary key, a int, b int, s varchar(10), u int)",
		"create table r (id int primary key, a int, k int, s varchar(10))",
		"create table m (pk int primary key, a int, b int, c int)")
	np := hx.Pick(r, []int{10, 30, 50})
	n := r.Range(5, 40)
	var rows []string
	for i := 0; i < n; i++ {
		rows = append(rows, fmt.Sprintf("(%d,%s,%s,%s,%d)", i*2-7, ival(r, np), ival(r, np), sval(r, np), i))
	}
	c.Setup = append(c.Setup, "insert into t values "+strings.Join(rows, ","))
	rows = nil
	m := r.Range(3, 25)
	for i := 0; i < m; i++ {
		rows = append(rows, fmt.Sprintf("(%d,%s,%s,%s)", i, ival(r, np), ival(r, np), sval(r, np)))
	}
	c.Setup = append(c.Setup, "insert into r values "+strings.Join(rows, ","))
	// m: all-integer columns, few distinct prefixes, NULL and non-NULL under every prefix
	rows = nil
	for i, mm := 0, r.Range(6, 30); i < mm; i++ {
		rows = append(rows, fmt.Sprintf("(%d,%s,%s,%s)", i, hx.Pick(r, []string{"0", "1", "1", "2", "NULL"}), hx.Pick(r, []string{"NULL", "NULL", "0", "1", "5"}), hx.Pick(r, []string{"NULL", "0", "7"})))
	}
	c.Setup = append(c.Setup, "insert into m values "+strings.Join(rows, ","))
	c.Indexes = []string{"create index ia on t (a)", "create index iab on t (a, b)", "create index isx on t (s)", "create unique index iu on t (u)",
		"create index ra on r (a)", "create index rk on r (k, a)", "create index rs on r (s)",
		"create index mab on m (a, b)", "create index mabc on m (b, a, c)"}

	atom := func(tbl string) string {
		col := hx.Pick(r, []string{"a", "b", "pk", "u"})
		if tbl == "r" {
			col = hx.Pick(r, []string{"a", "k", "id"})
		}
		col = tbl + "." + col
		switch r.Intn(9) {
		case 0:
			return fmt.Sprintf("%s is null", col)
		case 1:
			return fmt.Sprintf("%s is not null", col)
		case 2:
			return fmt.Sprintf("%s in (%s, %s, %s)", col, ival(r, 15), ival(r, 0), ival(r, 0))
		case 3:
			return fmt.Sprintf("%s between %s and %s", col, ival(r, 5), ival(r, 5))
		case 4:
			return fmt.Sprintf("%s.s %s %s", tbl, hx.Pick(r, []string{"=", "<", ">=", "<>"}), sval(r, 5))
		case 5:
			return fmt.Sprintf("%s not in (%s, %s)", col, ival(r, 10), ival(r, 0))
		case 6:
			return fmt.Sprintf("%s <=> %s", col, ival(r, 40))
		}
		return fmt.Sprintf("%s %s %s", col, hx.Pick(r, []string{"<", "<=", "=", ">=", ">", "<>"}), ival(r, 8))
	}
	var pred func(tbl string, d int) string
	pred = func(tbl string, d int) string {
		if d == 0 || r.Chance(1, 3) {
			return atom(tbl)
		}
		op := hx.Pick(r, []string{"and", "or"})
		p := "(" + pred(tbl, d-1) + " " + op + " " + pred(tbl, d-1) + ")"
		if r.Chance(1, 8) {
			p = "not " + p
		}
		return p
	}
	// exact prefix + IS [NOT] NULL on the last column of an all-integer index, also under count(*)
	for i := 0; i < 6; i++ {
		k := hx.Pick(r, []string{"0", "1", "2"})
		nn := hx.Pick(r, []string{"is null", "is not null"})
		switch i % 3 {
		case 0:
			c.Queries = append(c.Queries, fmt.Sprintf("select * from m where a = %s and b %s", k, nn))
		case 1:
			c.Queries = append(c.Queries, fmt.Sprintf("select count(*) from m where a = %s and b %s", k, nn))
		default:
			c.Queries = append(c.Queries, fmt.Sprintf("select pk from m where b = %s and a = %s and c %s", hx.Pick(r, []string{"0", "1", "5"}), k, nn))
		}
	}
	for i := 0; i < 24; i++ {
		var q string
		switch r.Intn(10) {
		case 0, 1, 2:
			q = fmt.Sprintf("select * from t where %s", pred("t", 2))
		case 3:
			q = fmt.Sprintf("select pk, a, b from t where %s order by %s limit %d", pred("t", 2), hx.Pick(r, []string{"pk", "a, pk", "b desc, pk", "a desc, b, pk desc", "s, pk"}), r.Range(1, 12))
		case 4:
			q = fmt.Sprintf("select count(*) from t where %s", pred("t", 1))
			if r.Chance(1, 3) {
				q = "select count(*) from " + hx.Pick(r, []string{"t", "r"})
			}
		case 5:
			q = fmt.Sprintf("select a, count(*), sum(b), min(b), max(s), count(b) from t where %s group by a", pred("t", 1))
		case 6:
			q = fmt.Sprintf("select t.pk, r.id from t join r on t.a = r.a where %s", pred(hx.Pick(r, []string{"t", "r"}), 1))
		case 7:
			q = fmt.Sprintf("select t.pk, r.id from t left join r on t.%s = r.%s and %s", hx.Pick(r, []string{"a", "b", "pk", "u"}), hx.Pick(r, []string{"a", "k", "id"}), atom("r"))
		case 8:
			q = fmt.Sprintf("select t.pk, r.id, r.s from t join r on t.a = r.k and t.b = r.a where %s", pred("t", 1))
		case 9:
			q = fmt.Sprintf("select t.pk from t where %s (select r.a from r where %s)", hx.Pick(r, []string{"t.a in", "t.a not in", "exists", "t.b >"}), atom("r"))
			if strings.Contains(q, "t.b >") {
				q = fmt.Sprintf("select t.pk from t where t.b > (select min(r.a) from r where %s)", atom("r"))
			}
		}
		c.Queries = append(c.Queries, q)
	}
	return c
}

func ordered(q string) bool {
	// total order only when the ORDER BY ends with the primary key
	i := strings.Index(q, " order by ")
	if i < 0 {
		return false
	}
	ob := q[i:]
	return strings.Contains(ob, "pk")
}

func render(res *sqleng.Result, ord bool) string {
	if res.Err != nil {
		return "ERR"
	}
	l := res.Lines()
	if !ord {
		sort.Strings(l)
	}
	return strings.Join(l, "\n")
}

var seq int

func run(e *hx.Env, m *hx.Model, c qcase) {
	seq++
	out := hx.Recover(func() string {
		dir := filepath.Join(e.Scratch, fmt.Sprintf("q%d", seq))
		defer os.RemoveAll(dir)
		eng, err := sqleng.New(dir, sqleng.Options{})
		if err != nil {
			return "engine: " + err.Error()
		}
		defer eng.Close()
		s, _ := eng.NewSession()
		mem := qx.NewMem()
		for _, q := range c.Setup {
			s.MustExec(q)
			mem.MustExec(q)
		}
		for pass := 0; pass < 2; pass++ {
			if pass == 1 {
				for _, q := range c.Indexes {
					s.MustExec(q)
					mem.MustExec(q)
				}
			}
			modelJoinCount(e, m, s, mem, fmt.Sprintf("indexes=%v", pass == 1), c.Setup)
			for _, q := range c.Queries {
				ord := ordered(q)
				d := s.Exec(q)
				g := mem.Exec(q)
				rd, rg := render(d, ord), render(g, ord)
				e.Rep.Count(fmt.Sprintf("%d|%s|%s", pass, strings.Join(c.Setup[2:], ";"), q), true)
				if d.Err != nil || g.Err != nil {
					e.Rep.Hit("error:" + fmt.Sprint(d.Err != nil) + "/" + fmt.Sprint(g.Err != nil))
					if d.Err != nil && g.Err == nil {
						// the reference engine answers, dolt does not: the property is violated on this input
						key := "query/dolt-error"
						if strings.Contains(d.Err.Error(), "cannot write NULL to non-NULL field") {
							key = nullKeyPanicKey // confirmed defect (CLI replay in design/C26.md)
						}
						e.Rep.Violate(key, fmt.Sprintf("dolt fails on %q (indexes=%v) where the reference engine returns %d rows: %v", q, pass == 1, len(g.Rows), d.Err),
							qcase{Setup: c.Setup, Indexes: pick(pass == 1, c.Indexes), Queries: []string{q}})
					} else if d.Err == nil && g.Err != nil {
						e.Rep.Disagree(map[string]any{"setup": c.Setup, "indexes": pass == 1, "query": q}, "ok", fmt.Sprint(g.Err), "the reference engine fails, dolt answers")
					}
					continue
				}
				if rd != rg {
					key := "query/rows"
					if pl := s.Exec("explain plan " + q); pl.Err == nil && strings.Contains(qx.JoinRows(pl.Rows), "LeftOuterMergeJoin") {
						// confirmed defect (CLI replay in design/C26.md): the left-outer merge join drops the
						// look-ahead right row after emitting a NULL-extended row for a left key whose successor is equal
						key = leftMergeKey
					}
					e.Rep.Violate(key, fmt.Sprintf("dolt and the reference engine disagree (indexes=%v) on %q:\ndolt: %s\nref:  %s", pass == 1, q, qx.Short(strings.ReplaceAll(rd, "\n", " ; "), 500), qx.Short(strings.ReplaceAll(rg, "\n", " ; "), 500)),
						qcase{Setup: c.Setup, Indexes: pick(pass == 1, c.Indexes), Queries: []string{q}})
					continue
				}
				// which executor ran
				ex := s.Exec("explain plan " + q)
				if ex.Err != nil && len(e.Rep.Notes) < 2 {
					e.Rep.Note("explain failed: " + qx.Short(ex.Err.Error(), 200))
				}
				if ex.Err == nil {
					plan := qx.JoinRows(ex.Rows)
					if len(e.Rep.Notes) < 1 {
						e.Rep.Note("first explain: " + qx.Short(plan, 300))
					}
					for _, k := range []string{"IndexedTableAccess", "LookupJoin", "MergeJoin", "HashJoin", "Table(", "InnerJoin", "LeftOuter", "static: [{", "SemiJoin", "AntiJoin", "TopN"} {
						if strings.Contains(plan, k) {
							e.Rep.Hit(fmt.Sprintf("plan[idx=%v]:%s", pass == 1, k))
						}
					}
					if pass == 1 && len(e.Rep.Samples) < 8 && (strings.Contains(plan, "LookupJoin") || strings.Contains(plan, "MergeJoin") || strings.Contains(plan, "IndexedTableAccess")) {
						e.Rep.Sample(map[string]string{"query": q, "explain": qx.Short(plan, 600), "rows": fmt.Sprint(len(d.Rows))})
					}
				}
			}
		}
		e.Rep.TracesValidated++
		return ""
	})
	if out != "" {
		e.Rep.Violate("query/failure", out, c)
	}
}

func pick(b bool, xs []string) []string {
	if b {
		return xs
	}
	return nil
}

func main() {
	e := hx.Init("sqlquery", "C26")
	defer e.Finish()
	e.Rep.Rule = "data: two tables, 5–40 / 3–25 rows, 10/30/50% NULLs, values from a 17-element pool (duplicates, INT extremes), short strings incl. case/space variants; queries: 24 per data set from the grammar (range/IN/NOT IN/BETWEEN/IS NULL/<=>/AND/OR/NOT, ORDER BY+LIMIT, count(*), GROUP BY aggregates, inner/left joins on indexed and unindexed columns, two-column join, IN/EXISTS/scalar subqueries), each run without and with secondary indexes; distinct by (pass, data, query)"
	m := e.MustModel()
	defer m.Close()
	if e.Replay != "" {
		rf, err := hx.LoadReplay(e.Replay)
		if err != nil {
			panic(err)
		}
		var probe struct {
			Stream string `json:"stream"`
		}
		json.Unmarshal(rf.Case, &probe)
		if probe.Stream == "kernel" {
			var k kcase
			json.Unmarshal(rf.Case, &k)
			runKernel(e, m, k)
			return
		}
		var c qcase
		json.Unmarshal(rf.Case, &c)
		c.Setup = append(c.Setup, c.Indexes...)
		c.Indexes = nil
		run(e, m, c)
		return
	}
	witnessModel = m
	leftMergeWitness(e)
	nullKeyPanicWitness(e)
	for _, raw := range e.CorpusCases() {
		var k kcase
		if json.Unmarshal(raw, &k) == nil && k.Stream == "kernel" {
			runKernel(e, m, k)
		}
	}
	for i, n := 0, e.N(40, 3000); i < n; i++ {
		runKernel(e, m, genKernel(e.Rng))
	}
	for i, n := 0, e.N(6, 300); i < n; i++ {
		run(e, m, gen(e.Rng))
	}
}

var witnessModel *hx.Model

const leftMergeKey = "mergejoin/left-outer-equal-left-keys-lose-lookahead"

// leftMergeWitness replays the minimal input of the confirmed left-outer merge join defect on every run.
func leftMergeWitness(e *hx.Env) {
	c := qcase{Setup: []string{"create table t (pk int primary key, a int, key ia (a))", "create table r (id int primary key)",
		"insert into t values (1,2),(47,2),(25,3)", "insert into r values (2),(3)"},
		Queries: []string{"select /*+ MERGE_JOIN(t,r) */ t.pk, r.id from t left join r on t.a = r.id and r.id = 3"}}
	out := hx.Recover(func() string {
		dir := filepath.Join(e.Scratch, "witness")
		defer os.RemoveAll(dir)
		eng, err := sqleng.New(dir, sqleng.Options{})
		if err != nil {
			return "engine: " + err.Error()
		}
		defer eng.Close()
		s, _ := eng.NewSession()
		mem := qx.NewMem()
		for _, q := range c.Setup {
			s.MustExec(q)
			mem.MustExec(q)
		}
		d, g := s.Exec(c.Queries[0]), mem.Exec(c.Queries[0])
		rd, rg := render(d, false), render(g, false)
		e.Rep.Hit("witness:left-merge-join:" + fmt.Sprint(rd == rg))
		// the left-outer state machine of the model (Model/QueryLeft.lean) must give dolt's answer, right or wrong
		if witnessModel != nil && d.Err == nil {
			var got []string
			for _, row := range d.Rows {
				x := row[1]
				if x == "NULL" {
					x = "N"
				}
				got = append(got, row[0]+":"+x)
			}
			sort.Strings(got)
			resp := witnessModel.Ask("lmerge 2,1;2,47;3,25 2,2;3,3 3")
			mod := strings.Split(resp, ";")
			sort.Strings(mod)
			if strings.Join(mod, ";") != strings.Join(got, ";") {
				e.Rep.Disagree(c, strings.Join(got, ";"), strings.Join(mod, ";"), "left outer merge join: dolt vs the model's state machine on the witness")
			}
		}
		if rd != rg {
			e.Rep.Violate(leftMergeKey, fmt.Sprintf("left outer merge join loses a match: %q returns %s, reference %s", c.Queries[0],
				strings.ReplaceAll(rd, "\n", " ; "), strings.ReplaceAll(rg, "\n", " ; ")), c)
		}
		return ""
	})
	if out != "" {
		e.Rep.Violate("query/failure", out, c)
	}
}

const nullKeyPanicKey = "lookupjoin/null-safe-equal-on-not-null-key-panics"

// nullKeyPanicWitness replays the minimal input of the confirmed lookup-join panic on every run.
func nullKeyPanicWitness(e *hx.Env) {
	c := qcase{Setup: []string{"create table t (pk int primary key, b int)", "create table r (id int primary key, a int)",
		"insert into t values (1,1),(2,NULL),(3,5)", "insert into r values (1,1),(2,2),(3,NULL)"},
		Queries: []string{"select /*+ LOOKUP_JOIN(t,r) */ t.pk, r.id from t left join r on t.b = r.a and r.id <=> NULL"}}
	out := hx.Recover(func() string {
		dir := filepath.Join(e.Scratch, "witness2")
		defer os.RemoveAll(dir)
		eng, err := sqleng.New(dir, sqleng.Options{})
		if err != nil {
			return "engine: " + err.Error()
		}
		defer eng.Close()
		s, _ := eng.NewSession()
		mem := qx.NewMem()
		for _, q := range c.Setup {
			s.MustExec(q)
			mem.MustExec(q)
		}
		d, g := s.Exec(c.Queries[0]), mem.Exec(c.Queries[0])
		e.Rep.Hit("witness:null-key-panic:" + fmt.Sprint(d.Err == nil))
		if d.Err != nil && g.Err == nil {
			e.Rep.Violate(nullKeyPanicKey, fmt.Sprintf("dolt fails on %q where the reference engine returns %d rows: %v", c.Queries[0], len(g.Rows), d.Err), c)
		} else if d.Err == nil && g.Err == nil && render(d, false) != render(g, false) {
			e.Rep.Violate("query/rows", "witness query answers differently: "+render(d, false)+" vs "+render(g, false), c)
		}
		return ""
	})
	if out != "" {
		e.Rep.Violate("query/failure", out, c)
	}
}
