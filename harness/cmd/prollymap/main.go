// prollymap: correspondence + property oracle for C11 (prolly maps behave as sorted dictionaries).
//
// Real code: prolly.Map / prolly.MutableMap through their public API (WithMaxPending n ∈ {0,1,3,64}),
// with the deterministic test splitter injected so that a few hundred keys give trees 3–5 levels
// deep.  Model: Driver/ProllyMap.lean answers from the model TREE algorithms (per-level binary
// search, stored subtree counts, edit log with checkpoint, flush = ApplyMutations model).
// Oracle: a plain Go map + sorted slice with snapshot-at-checkpoint semantics, written from the
// property statement, independent of both.
package main

import (
	"context"
	"encoding/json"
	"fmt"
	"io"
	"os"
	"sort"
	"strings"
	"time"

	"github.com/dolthub/dolt/go/store/prolly"
	"github.com/dolthub/dolt/go/store/val"

	"verif/harness/internal/hx"
	"verif/harness/internal/px"
)

type bound struct {
	Kind string `json:"kind"` // "-" unbound, "i" inclusive, "e" exclusive
	N    uint32 `json:"n,omitempty"`
	S    string `json:"s,omitempty"`
}

type rfield struct {
	Lo, Hi bound
	Eq     bool
}

type op struct {
	Op string   `json:"op"`
	K  *px.K    `json:"k,omitempty"`
	K2 *px.K    `json:"k2,omitempty"`
	V  *px.V    `json:"v,omitempty"`
	A  int      `json:"a,omitempty"`
	B  int      `json:"b,omitempty"`
	R  []rfield `json:"r,omitempty"`
}

type kase struct {
	P          px.Params `json:"p"`
	MaxPending int       `json:"maxPending"`
	Base       []px.KV   `json:"base"`
	Ops        []op      `json:"ops"`
}

// ---------------------------------------------------------------- the oracle: a sorted dictionary

type dict struct {
	cur map[px.K]px.V
	cp  map[px.K]px.V
}

func copyMap(m map[px.K]px.V) map[px.K]px.V {
	o := make(map[px.K]px.V, len(m))
	for k, v := range m {
		o[k] = v
	}
	return o
}

func (d *dict) sorted() []px.KV {
	out := make([]px.KV, 0, len(d.cur))
	for k, v := range d.cur {
		out = append(out, px.KV{K: k, V: v})
	}
	px.SortKVs(out)
	return out
}

func inField(lo, hi bound, cmpLo, cmpHi int) bool {
	if lo.Kind != "-" && (cmpLo < 0 || (cmpLo == 0 && lo.Kind == "e")) {
		return false
	}
	if hi.Kind != "-" && (cmpHi > 0 || (cmpHi == 0 && hi.Kind == "e")) {
		return false
	}
	return true
}

func cmpU32(a, b uint32) int {
	switch {
	case a < b:
		return -1
	case a > b:
		return 1
	}
	return 0
}

// contains: the documented meaning of a Range — every field within its own bounds.
func contains(r []rfield, k px.K) bool {
	for i, f := range r {
		var cl, ch int
		if i == 0 {
			cl, ch = cmpU32(k.N, f.Lo.N), cmpU32(k.N, f.Hi.N)
		} else {
			cl, ch = strings.Compare(k.S, f.Lo.S), strings.Compare(k.S, f.Hi.S)
		}
		if !inField(f.Lo, f.Hi, cl, ch) {
			return false
		}
	}
	return true
}

// ---------------------------------------------------------------- wire

func showKVs(kvs []px.KV) string {
	if len(kvs) == 0 {
		return "-"
	}
	var sb strings.Builder
	for i, kv := range kvs {
		if i > 0 {
			sb.WriteByte(',')
		}
		sb.WriteString(hx.Hex(px.KeyTuple(nsG, kv.K)))
		sb.WriteByte(':')
		sb.WriteString(px.WireVal(kv.V))
	}
	return sb.String()
}

var nsG = px.NewNS()

func fieldBytes(i int, b bound) []byte {
	t := px.KeyTuple(nsG, px.K{N: b.N, S: b.S})
	return px.KeyDesc.GetField(i, t)
}

func boundWire(i int, b bound) string {
	if b.Kind == "-" {
		return "-"
	}
	return b.Kind + hx.Hex(fieldBytes(i, b))
}

func rangeWire(r []rfield) string {
	if len(r) == 0 {
		return "-"
	}
	var parts []string
	for i, f := range r {
		eq := "0"
		if f.Eq {
			eq = "1"
		}
		parts = append(parts, boundWire(i, f.Lo)+";"+boundWire(i, f.Hi)+";"+eq)
	}
	return strings.Join(parts, "|")
}

func toBound(i int, b bound) prolly.Bound {
	if b.Kind == "-" {
		return prolly.Bound{}
	}
	return prolly.Bound{Binding: true, Inclusive: b.Kind == "i", Value: fieldBytes(i, b)}
}

func toRange(r []rfield) prolly.Range {
	rg := prolly.Range{Desc: px.KeyDesc}
	for i, f := range r {
		rg.Fields = append(rg.Fields, prolly.RangeField{Lo: toBound(i, f.Lo), Hi: toBound(i, f.Hi), BoundsAreEqual: f.Eq})
	}
	return rg
}

func optKeyWire(k *px.K) string {
	if k == nil {
		return "-"
	}
	return hx.Hex(px.KeyTuple(nsG, *k))
}

func optKeyTuple(k *px.K) val.Tuple {
	if k == nil {
		return nil
	}
	return px.KeyTuple(nsG, *k)
}

func drain(ctx context.Context, it prolly.MapIter, err error) string {
	if err != nil {
		return "err " + errClass(err)
	}
	var out []px.KV
	for {
		k, v, err := it.Next(ctx)
		if err == io.EOF {
			break
		}
		if err != nil {
			return "err " + errClass(err)
		}
		out = append(out, px.KV{K: px.DecodeKey(k), V: px.DecodeVal(v)})
	}
	return showKVs(out)
}

func errClass(err error) string {
	s := err.Error()
	switch {
	case strings.HasPrefix(s, "invalid ordinal bounds"):
		return "invalid-bounds"
	case strings.Contains(s, "out of bounds"):
		return "out-of-bounds"
	}
	return "other:" + s
}

func showOpt(k val.Tuple, v val.Tuple) string {
	if k == nil {
		return "none"
	}
	return "some " + hx.Hex(k) + ":" + px.WireVal(px.DecodeVal(v))
}

// ---------------------------------------------------------------- generator

type gen struct {
	r      *hx.Rng
	nextId uint64
	space  int
}

var strs = []string{"", "a", "b", "aa", "ab", "a\x00", "b\xff", "m", "zz"}

func (g *gen) key() px.K {
	s := hx.Pick(g.r, strs)
	if g.r.Chance(1, 15) {
		s += string(g.r.Bytes(g.r.Range(1, 4)))
	}
	return px.K{N: uint32(g.r.Intn(g.space)), S: s}
}

func (g *gen) val() px.V {
	g.nextId++
	l := g.r.Range(8, 30)
	if g.r.Chance(1, 25) {
		l = g.r.Range(100, 600)
	}
	return px.V{Len: l, Id: g.nextId}
}

// probe picks a key biased to the interesting spots relative to the live keys.
func (g *gen) probe(live []px.KV) px.K {
	r := g.r
	if len(live) == 0 || r.Chance(1, 5) {
		return g.key()
	}
	kv := live[r.Intn(len(live))]
	switch r.Intn(6) {
	case 0, 1:
		return kv.K // present
	case 2:
		return px.K{N: kv.K.N, S: kv.K.S + "\x00"} // immediate successor (mostly absent)
	case 3:
		if len(kv.K.S) > 0 {
			return px.K{N: kv.K.N, S: kv.K.S[:len(kv.K.S)-1]} // predecessor-ish
		}
		return px.K{N: kv.K.N + 1, S: ""}
	case 4:
		return px.K{N: live[len(live)-1].K.N + uint32(r.Intn(2)), S: "zzz"} // at / beyond the last key
	}
	return px.K{N: live[0].K.N, S: ""} // at / before the first key
}

func (g *gen) bnd(live []px.KV) bound {
	k := g.probe(live)
	return bound{Kind: hx.Pick(g.r, []string{"i", "i", "e", "-"}), N: k.N, S: k.S}
}

func (g *gen) rng(live []px.KV) []rfield {
	r := g.r
	switch r.Intn(6) {
	case 0:
		return nil // all
	case 1: // prefix on field 0, bounds on field 1
		k := g.probe(live)
		f0 := rfield{Lo: bound{"i", k.N, ""}, Hi: bound{"i", k.N, ""}, Eq: true}
		f1 := rfield{Lo: g.bnd(live), Hi: g.bnd(live)}
		f1.Lo.N, f1.Hi.N = 0, 0
		fix(&f1, 1)
		return []rfield{f0, f1}
	case 2: // only field 0
		f0 := rfield{Lo: g.bnd(live), Hi: g.bnd(live)}
		fix(&f0, 0)
		return []rfield{f0}
	case 3: // point
		k := g.probe(live)
		return []rfield{{Lo: bound{"i", k.N, ""}, Hi: bound{"i", k.N, ""}, Eq: true}, {Lo: bound{"i", 0, k.S}, Hi: bound{"i", 0, k.S}, Eq: true}}
	default: // both fields bounded independently (non-contiguous on disk)
		f0 := rfield{Lo: g.bnd(live), Hi: g.bnd(live)}
		f1 := rfield{Lo: g.bnd(live), Hi: g.bnd(live)}
		fix(&f0, 0)
		fix(&f1, 1)
		return []rfield{f0, f1}
	}
}

// fix makes BoundsAreEqual consistent the way closedRange computes it.
func fix(f *rfield, i int) {
	same := f.Lo.Kind == "i" && f.Hi.Kind == "i"
	if i == 0 {
		same = same && f.Lo.N == f.Hi.N
		f.Lo.S, f.Hi.S = "", ""
	} else {
		same = same && f.Lo.S == f.Hi.S
		f.Lo.N, f.Hi.N = 0, 0
	}
	f.Eq = same
}

func (g *gen) kase() kase {
	r := g.r
	k := kase{MaxPending: hx.Pick(r, []int{0, 1, 3, 64})}
	k.P = px.Params{MinSz: r.Range(8, 60), Mod: r.Range(2, 7), K: r.Range(0, 5)}
	k.P.MaxSz = k.P.MinSz + r.Range(20, 200)
	n := hx.Pick(r, []int{0, 1, 3, 20, 80, 200, 300})
	g.space = n/3 + 2
	m := map[px.K]px.V{}
	for len(m) < n {
		m[g.key()] = g.val()
	}
	for kk, v := range m {
		k.Base = append(k.Base, px.KV{K: kk, V: v})
	}
	px.SortKVs(k.Base)
	d := &dict{cur: copyMap(m), cp: copyMap(m)}
	nops := r.Range(10, 70)
	haveCp := false
	// the generator mirrors the flush rule (Put flushes when more than maxPending keys are
	// pending) only to keep the three known-finding triggers rare, so that most cases run to
	// their end: checkpoint with nothing pending, a second revert without a new checkpoint,
	// key range starting past the last key with an open stop.
	pending := map[px.K]bool{}
	rvSinceCp := 0
	for i := 0; i < nops; i++ {
		live := d.sorted()
		switch x := r.Intn(20); {
		case x < 7:
			kk, v := g.probe(live), g.val()
			if r.Chance(1, 6) && len(live) > 0 { // same value again (no-op edit)
				kv := live[r.Intn(len(live))]
				kk, v = kv.K, kv.V
			}
			k.Ops = append(k.Ops, op{Op: "put", K: &kk, V: &v})
			d.cur[kk] = v
			pending[kk] = true
			if len(pending) > k.MaxPending {
				pending = map[px.K]bool{}
			}
		case x < 10:
			kk := g.probe(live)
			k.Ops = append(k.Ops, op{Op: "del", K: &kk})
			delete(d.cur, kk)
			pending[kk] = true
		case x < 11:
			if len(pending) == 0 && !r.Chance(1, 12) {
				continue
			}
			k.Ops = append(k.Ops, op{Op: "cp"})
			haveCp = true
			rvSinceCp = 0
			d.cp = copyMap(d.cur)
		case x < 12:
			if !haveCp { // Revert is only defined relative to a Checkpoint (StatementBegin … DiscardChanges)
				continue
			}
			if rvSinceCp >= 1 && !r.Chance(1, 12) {
				continue
			}
			rvSinceCp++
			k.Ops = append(k.Ops, op{Op: "rv"})
			d.cur = copyMap(d.cp)
			pending = map[px.K]bool{{N: 0xFFFFFFFF}: true} // the edits of the checkpoint are pending again
		case x < 14:
			kk := g.probe(live)
			k.Ops = append(k.Ops, op{Op: "mget", K: &kk})
		case x < 15:
			k.Ops = append(k.Ops, op{Op: "mrange", R: g.rng(live)})
		default:
			k.Ops = append(k.Ops, op{Op: "snap"})
			for j := r.Range(3, 9); j > 0; j-- {
				switch r.Intn(9) {
				case 0, 1:
					kk := g.probe(live)
					k.Ops = append(k.Ops, op{Op: "get", K: &kk})
				case 2:
					kk := g.probe(live)
					k.Ops = append(k.Ops, op{Op: "ord", K: &kk})
				case 3:
					a, b := g.optProbe(live), g.optProbe(live)
					k.Ops = append(k.Ops, op{Op: "card", K: a, K2: b})
				case 4:
					a, b := g.optProbe(live), g.optProbe(live)
					if a != nil && b == nil && (len(live) == 0 || a.Cmp(live[len(live)-1].K) > 0) && !r.Chance(1, 12) {
						kk := g.probe(live)
						b = &kk
					}
					k.Ops = append(k.Ops, op{Op: "krange", K: a, K2: b})
				case 5:
					a, b := r.Intn(len(live)+3), r.Intn(len(live)+3)
					if r.Chance(2, 3) && a > b {
						a, b = b, a
					}
					k.Ops = append(k.Ops, op{Op: "orange", A: a, B: b})
				case 6:
					k.Ops = append(k.Ops, op{Op: "range", R: g.rng(live)})
				case 7:
					k.Ops = append(k.Ops, op{Op: hx.Pick(r, []string{"all", "rall", "count", "last"})})
				default:
					k.Ops = append(k.Ops, op{Op: "rrange", R: g.rng(live)})
				}
			}
		}
	}
	return k
}

func (g *gen) optProbe(live []px.KV) *px.K {
	if g.r.Chance(1, 6) {
		return nil
	}
	k := g.probe(live)
	return &k
}

// ---------------------------------------------------------------- run

func filterKVs(kvs []px.KV, f func(px.KV) bool) []px.KV {
	var out []px.KV
	for _, kv := range kvs {
		if f(kv) {
			out = append(out, kv)
		}
	}
	return out
}

func reverse(kvs []px.KV) []px.KV {
	out := make([]px.KV, len(kvs))
	for i, kv := range kvs {
		out[len(kvs)-1-i] = kv
	}
	return out
}

// runCase runs one case under a watchdog: a case normally takes milliseconds; one that does not
// come back (a livelock inside the implementation, e.g. a cursor that never reaches its stop)
// is reported as a violation with the case as replay instead of a harness timeout.
func runCase(e *hx.Env, m *hx.Model, k kase) {
	done := make(chan struct{})
	go func() {
		defer close(done)
		runCase0(e, m, k)
	}()
	select {
	case <-done:
	case <-time.After(180 * time.Second):
		e.Rep.Violate("prollymap/hang", "the case did not terminate within 180 s (the implementation loops)", k)
		e.Finish()
		os.Exit(0)
	}
}

func runCase0(e *hx.Env, m *hx.Model, k kase) {
	ctx := context.Background()
	restore := px.Install(k.P)
	defer restore()
	ns := nsG
	if r := m.Ask(k.P.Wire()); r != "ok" {
		e.Rep.Disagree(k, "ok", r, "cfg")
		return
	}
	base, err := px.Build(ctx, ns, k.Base)
	if err != nil {
		e.Rep.Disagree(k, "err "+err.Error(), "", "base build")
		return
	}
	if r := m.Ask(fmt.Sprintf("new %d %s", k.MaxPending, px.WireItems(ns, k.Base))); r != "ok" {
		e.Rep.Disagree(k, "ok", r, "new")
		return
	}
	mut := base.Mutate().WithMaxPending(k.MaxPending)
	d := &dict{cur: map[px.K]px.V{}, cp: nil}
	for _, kv := range k.Base {
		d.cur[kv.K] = kv.V
	}
	d.cp = copyMap(d.cur)
	var snap prolly.Map
	haveSnap := false
	var snapSorted []px.KV
	flushes, maxLevel, sawCpRv := 0, 0, false
	emptyCp, emptyCpRv, multiRv, rvSinceCp := false, false, false, 0
	pendingSinceFlush := 0
	for i, o := range k.Ops {
		var line, want string
		hasOracle := true
		got := hx.Recover(func() string {
			switch o.Op {
			case "put":
				line = fmt.Sprintf("put %s %s", hx.Hex(px.KeyTuple(ns, *o.K)), px.WireVal(*o.V))
				d.cur[*o.K] = *o.V
				want = "ok"
				if err := mut.Put(ctx, px.KeyTuple(ns, *o.K), px.ValTuple(ns, *o.V)); err != nil {
					return "err " + err.Error()
				}
				pendingSinceFlush++
				return "ok"
			case "del":
				line = "del " + hx.Hex(px.KeyTuple(ns, *o.K))
				delete(d.cur, *o.K)
				want = "ok"
				if err := mut.Delete(ctx, px.KeyTuple(ns, *o.K)); err != nil {
					return "err " + err.Error()
				}
				return "ok"
			case "cp":
				line, want = "cp", "ok"
				d.cp = copyMap(d.cur)
				sawCpRv = true
				// trigger of the known finding: a checkpoint taken while no edit is pending is not
				// recorded by skip.List (checkpoint == 1 == "none")
				emptyCp = !mut.HasEdits()
				rvSinceCp = 0
				mut.Checkpoint(ctx)
				return "ok"
			case "rv":
				line, want = "rv", "ok"
				d.cur = copyMap(d.cp)
				sawCpRv = true
				rvSinceCp++
				if rvSinceCp >= 2 {
					multiRv = true
				}
				if emptyCp {
					emptyCpRv = true // from here on the flushed edits of the unrecorded checkpoint stay
				}
				mut.Revert(ctx)
				return "ok"
			case "mget":
				line = "mget " + hx.Hex(px.KeyTuple(ns, *o.K))
				if v, ok := d.cur[*o.K]; ok {
					want = "some " + hx.Hex(px.KeyTuple(ns, *o.K)) + ":" + px.WireVal(v)
				} else {
					want = "none"
				}
				var res string
				err := mut.Get(ctx, px.KeyTuple(ns, *o.K), func(kk, vv val.Tuple) error { res = showOpt(kk, vv); return nil })
				if err != nil {
					return "err " + err.Error()
				}
				has, _ := mut.Has(ctx, px.KeyTuple(ns, *o.K))
				if has != (res != "none") {
					return res + " but Has=" + fmt.Sprint(has)
				}
				return res
			case "mrange":
				line = "mrange " + rangeWire(o.R)
				want = showKVs(filterKVs(d.sorted(), func(kv px.KV) bool { return contains(o.R, kv.K) }))
				it, err := mut.IterRange(ctx, toRange(o.R))
				return drain(ctx, it, err)
			case "snap":
				line = "snap"
				mp, err := mut.Map(ctx)
				if err != nil {
					return "err " + err.Error()
				}
				snap, haveSnap = mp, true
				snapSorted = d.sorted()
				c, _ := mp.Count()
				if l := mp.Node().Level(); l > maxLevel {
					maxLevel = l
				}
				want = fmt.Sprintf("ok %d %d", len(snapSorted), mp.Node().Level())
				hasOracle = false // the height is the model's business; the count is checked below
				if c != len(snapSorted) {
					hasOracle = true
				}
				return fmt.Sprintf("ok %d %d", c, mp.Node().Level())
			}
			if !haveSnap {
				return "err no-snap"
			}
			s := snapSorted
			switch o.Op {
			case "get":
				line = "get " + hx.Hex(px.KeyTuple(ns, *o.K))
				want = "none"
				for _, kv := range s {
					if kv.K == *o.K {
						want = "some " + hx.Hex(px.KeyTuple(ns, kv.K)) + ":" + px.WireVal(kv.V)
					}
				}
				var res string
				if err := snap.Get(ctx, px.KeyTuple(ns, *o.K), func(kk, vv val.Tuple) error { res = showOpt(kk, vv); return nil }); err != nil {
					return "err " + err.Error()
				}
				has, _ := snap.Has(ctx, px.KeyTuple(ns, *o.K))
				if has != (res != "none") {
					return res + " but Has=" + fmt.Sprint(has)
				}
				return res
			case "ord":
				line = "ord " + hx.Hex(px.KeyTuple(ns, *o.K))
				n := 0
				for _, kv := range s {
					if kv.K.Cmp(*o.K) < 0 {
						n++
					}
				}
				want = fmt.Sprintf("ok %d", n)
				x, err := snap.GetOrdinalForKey(ctx, px.KeyTuple(ns, *o.K))
				if err != nil {
					return "err " + err.Error()
				}
				return fmt.Sprintf("ok %d", x)
			case "card", "krange":
				in := filterKVs(s, func(kv px.KV) bool {
					return (o.K == nil || kv.K.Cmp(*o.K) >= 0) && (o.K2 == nil || kv.K.Cmp(*o.K2) < 0)
				})
				if o.Op == "card" {
					line = "card " + optKeyWire(o.K) + " " + optKeyWire(o.K2)
					want = fmt.Sprintf("ok %d", len(in))
					x, err := snap.GetKeyRangeCardinality(ctx, optKeyTuple(o.K), optKeyTuple(o.K2))
					if err != nil {
						return "err " + err.Error()
					}
					return fmt.Sprintf("ok %d", x)
				}
				line = "krange " + optKeyWire(o.K) + " " + optKeyWire(o.K2)
				want = showKVs(in)
				it, err := snap.IterKeyRange(ctx, optKeyTuple(o.K), optKeyTuple(o.K2))
				return drain(ctx, it, err)
			case "orange":
				line = fmt.Sprintf("orange %d %d", o.A, o.B)
				switch {
				case o.A == o.B:
					want = "-"
				case o.B < o.A:
					want = "err invalid-bounds"
				case o.B > len(s):
					want = "err out-of-bounds"
				default:
					want = showKVs(s[o.A:o.B])
				}
				it, err := snap.IterOrdinalRange(ctx, uint64(o.A), uint64(o.B))
				r1 := drain(ctx, it, err)
				it2, err2 := snap.FetchOrdinalRange(ctx, uint64(o.A), uint64(o.B))
				r2 := drain(ctx, it2, err2)
				if r1 != r2 {
					return r1 + " but FetchOrdinalRange=" + trunc(r2)
				}
				return r1
			case "range", "rrange":
				in := filterKVs(s, func(kv px.KV) bool { return contains(o.R, kv.K) })
				if o.Op == "range" {
					line = "range " + rangeWire(o.R)
					want = showKVs(in)
					it, err := snap.IterRange(ctx, toRange(o.R))
					return drain(ctx, it, err)
				}
				line = "" // implementation vs oracle only
				want = showKVs(reverse(in))
				it, err := snap.IterRangeReverse(ctx, toRange(o.R))
				return drain(ctx, it, err)
			case "all":
				line, want = "all", showKVs(s)
				it, err := snap.IterAll(ctx)
				return drain(ctx, it, err)
			case "rall":
				line, want = "rall", showKVs(reverse(s))
				it, err := snap.IterAllReverse(ctx)
				return drain(ctx, it, err)
			case "count":
				line, want = "count", fmt.Sprintf("ok %d", len(s))
				c, err := snap.Count()
				if err != nil {
					return "err " + err.Error()
				}
				return fmt.Sprintf("ok %d", c)
			case "last":
				line, want = "last", "none"
				if len(s) > 0 {
					want = "some " + hx.Hex(px.KeyTuple(ns, s[len(s)-1].K))
				}
				lk := snap.LastKey(ctx)
				if lk == nil {
					return "none"
				}
				return "some " + hx.Hex(lk)
			}
			return "bad-op"
		})
		e.Rep.Hit("op:" + o.Op)
		rawGot := got
		if strings.HasPrefix(got, "panic:") {
			got = "err panic"
			e.Rep.Hit("impl-panic:" + o.Op)
		}
		mod := ""
		if line != "" {
			mod = m.Ask(line)
		}
		if hasOracle && got != want {
			shape := o.Op
			if sawCpRv {
				shape += "/after-checkpoint-or-revert"
			}
			if emptyCp || emptyCpRv {
				shape = "revert-after-empty-checkpoint"
			} else if multiRv {
				shape = "repeated-revert"
			}
			if o.Op == "krange" && got == "err panic" && o.K != nil && o.K2 == nil &&
				(len(snapSorted) == 0 || o.K.Cmp(snapSorted[len(snapSorted)-1].K) > 0) {
				shape = "iter-key-range/start-past-last-key-open-stop"
			}
			e.Rep.Violate("prollymap/"+shape, fmt.Sprintf("op %d (%s, maxPending=%d): implementation answered %s, a sorted dictionary holding the same entries answers %s", i, o.Op, k.MaxPending, trunc(rawGot), trunc(want)), k)
			if line != "" && mod != got {
				e.Rep.Disagree(map[string]any{"case": k, "op": i}, trunc(got), trunc(mod), "model also differs from the implementation")
			}
			return
		}
		if line != "" && mod != got {
			e.Rep.Disagree(map[string]any{"case": k, "op": i}, trunc(got), trunc(mod), o.Op)
			return
		}
	}
	_ = flushes
	_ = pendingSinceFlush
	e.Rep.TracesValidated++
	e.Rep.Hit(fmt.Sprintf("maxPending:%d", k.MaxPending))
	e.Rep.Hit(fmt.Sprintf("rootlevel:%d", maxLevel))
	b, _ := json.Marshal(k)
	e.Rep.Count(string(b), maxLevel >= 1 && len(k.Ops) >= 10)
	if maxLevel >= 2 {
		e.Rep.Sample(map[string]any{"maxPending": k.MaxPending, "base": len(k.Base), "ops": len(k.Ops), "rootlevel": maxLevel, "p": k.P})
	}
}

func trunc(s string) string {
	if len(s) > 500 {
		return s[:500] + "…"
	}
	return s
}

func main() {
	e := hx.Init("prollymap", "C11")
	defer e.Finish()
	e.Rep.Rule = "a case = a bulk-built base map (0..300 keys, colliding first field, adjacent / prefix-related strings) + 10..70 operations on a MutableMap with maxPending in {0,1,3,64}: put (incl. re-put of the same value), delete (present/absent), checkpoint, revert, mutable get/has/range, and snapshots (Map()) each followed by get/has, ordinal, cardinality, key-range, ordinal-range (+FetchOrdinalRange), Range iteration forward/reverse (unbounded, inclusive, exclusive, point, prefix, non-contiguous, inverted), all/reverse/count/last; probes = present / successor / predecessor / before-first / after-last; nontrivial = tree of >= 2 levels and >= 10 ops; distinct by the case"
	m := e.MustModel()
	defer m.Close()
	if e.Replay != "" {
		rf, err := hx.LoadReplay(e.Replay)
		if err != nil {
			panic(err)
		}
		var k kase
		if err := json.Unmarshal(rf.Case, &k); err != nil || (len(k.Ops) == 0 && len(k.Base) == 0) {
			var w struct {
				Case kase `json:"case"`
			}
			json.Unmarshal(rf.Case, &w)
			k = w.Case
		}
		runCase(e, m, k)
		return
	}
	for _, raw := range e.CorpusCases() {
		var k kase
		if json.Unmarshal(raw, &k) == nil {
			runCase(e, m, k)
		}
	}
	g := &gen{r: e.Rng}
	n := e.N(700, 8000)
	if e.Search && !e.Thorough() {
		n = 4 * 700 // search after a broken proof/tie: a few times the quick budget per seed
	}
	for i := 0; i < n; i++ {
		runCase(e, m, g.kase())
	}
	_ = sort.Ints
}
