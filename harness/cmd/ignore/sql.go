package main

import (
	"context"
	"encoding/hex"
	"encoding/json"
	"fmt"
	"path/filepath"
	"sort"
	"strings"

	"github.com/dolthub/dolt/go/libraries/doltcore/doltdb"

	"verif/harness/internal/hx"
	"verif/harness/internal/sqleng"
)

const (
	keyTrackedFiltered = "C46/StageTables/ignore-filter-applied-to-tracked-tables"
	keyIgnoredStaged   = "C46/StageAllTables/ignored-table-staged"
	keyNotStaged       = "C46/StageAllTables/change-not-staged"
	keyCleanTracked    = "C46/CleanUntracked/removed-tracked-table"
	keyCleanWrong      = "C46/CleanUntracked/wrong-set-removed"
	keySpuriousErr     = "C46/StageAllTables/spurious-conflict"
	keyCommitHead      = "C46/dolt_commit/head-differs-from-staged"
	keyConflictSilent  = "C46/StageAllTables/conflict-not-reported"
)

// sqlOp: one abstract step of a generated program.
type sqlOp struct {
	Op   string `json:"op"` // create drop modify rename ignore unignore addall addforce add commitA commita clean cleanx cleandry cleant
	T    string `json:"t,omitempty"`
	U    string `json:"u,omitempty"`
	Flag bool   `json:"flag,omitempty"`
}

var tablePool = []string{"a", "b", "aa", "ab", "ba", "bb", "aab", "abb", "bab"}

func genSQLPat(r *hx.Rng) string {
	if r.Chance(1, 2) {
		return generalise(r, hx.Pick(r, tablePool))
	}
	n := r.Range(1, 3)
	b := make([]byte, n)
	for i := range b {
		b[i] = "ab?*%"[r.Intn(5)]
	}
	return string(b)
}

func genProgram(r *hx.Rng) []sqlOp {
	var p []sqlOp
	// phase 1: tracked tables
	nt := r.Range(1, 4)
	for i := 0; i < nt; i++ {
		p = append(p, sqlOp{Op: "create", T: hx.Pick(r, tablePool)})
	}
	if r.Chance(5, 6) {
		p = append(p, sqlOp{Op: "commitA"})
	}
	// phase 2: ignore rows
	for i, n := 0, r.Range(1, 4); i < n; i++ {
		p = append(p, sqlOp{Op: "ignore", T: genSQLPat(r), Flag: r.Chance(2, 3)})
	}
	// phase 3: mixture
	for i, n := 0, r.Range(4, 14); i < n; i++ {
		switch r.Intn(20) {
		case 0, 1, 2, 3:
			p = append(p, sqlOp{Op: "create", T: hx.Pick(r, tablePool)})
		case 4, 5:
			p = append(p, sqlOp{Op: "drop", T: hx.Pick(r, tablePool)})
		case 6, 7, 8:
			p = append(p, sqlOp{Op: "modify", T: hx.Pick(r, tablePool)})
		case 9:
			p = append(p, sqlOp{Op: "rename", T: hx.Pick(r, tablePool), U: hx.Pick(r, tablePool)})
		case 10:
			p = append(p, sqlOp{Op: "ignore", T: genSQLPat(r), Flag: r.Bool()})
		case 11:
			p = append(p, sqlOp{Op: "unignore"})
		case 12, 13:
			p = append(p, sqlOp{Op: "addall"})
		case 14:
			p = append(p, sqlOp{Op: hx.Pick(r, []string{"addforce", "add", "cleant", "commita"}), T: hx.Pick(r, tablePool)})
		case 15, 16:
			p = append(p, sqlOp{Op: "commitA"})
		case 17:
			p = append(p, sqlOp{Op: "clean"})
		case 18:
			p = append(p, sqlOp{Op: "cleanx"})
		case 19:
			p = append(p, sqlOp{Op: hx.Pick(r, []string{"cleandry", "clean", "addall"})})
		}
	}
	p = append(p, sqlOp{Op: hx.Pick(r, []string{"addall", "commitA", "clean", "cleanx"})})
	return p
}

// ---------------------------------------------------------------- engine

type sqlState struct {
	eng  *sqleng.Engine
	sess *sqleng.Session
	ndb  int
	ids  map[string]int // table hash -> small content id
}

var sqlst *sqlState

func (r *runner) engine() *sqlState {
	if sqlst != nil {
		return sqlst
	}
	eng, err := sqleng.New(filepath.Join(r.e.Scratch, "ignore-sql"), sqleng.Options{})
	if err != nil {
		panic(err)
	}
	s, err := eng.NewSession()
	if err != nil {
		panic(err)
	}
	sqlst = &sqlState{eng: eng, sess: s, ids: map[string]int{}}
	return sqlst
}

func (r *runner) closeSQL() {
	if sqlst != nil {
		sqlst.eng.Close()
		sqlst = nil
	}
}

type root map[string]int

type roots struct {
	head, staged, working root
	tid                   map[string]map[string]int // root kind -> table name -> identity (first column tag)
}

// readTids: identity of every table of a root = its first column tag (kept by RENAME TABLE, which
// is what dolt's delta matching looks at), mapped to a small number.
func (st *sqlState) readTids(ctx context.Context, rv doltdb.RootValue) map[string]int {
	out := map[string]int{}
	names, err := rv.GetTableNames(ctx, doltdb.DefaultSchemaName, true)
	if err != nil {
		panic(err)
	}
	for _, n := range names {
		tbl, ok, err := rv.GetTable(ctx, doltdb.TableName{Name: n})
		if err != nil || !ok {
			panic(fmt.Sprint("GetTable ", n, " ", ok, " ", err))
		}
		sch, err := tbl.GetSchema(ctx)
		if err != nil {
			panic(err)
		}
		tags := sch.GetAllCols().Tags
		key := "notags:" + n
		if len(tags) > 0 {
			key = fmt.Sprint("tag:", tags[0])
		}
		id, seen := st.ids[key]
		if !seen {
			id = len(st.ids) + 1
			st.ids[key] = id
		}
		out[n] = id
	}
	return out
}

func (st *sqlState) readRoot(ctx context.Context, rv doltdb.RootValue) root {
	out := root{}
	names, err := rv.GetTableNames(ctx, doltdb.DefaultSchemaName, true)
	if err != nil {
		panic(err)
	}
	for _, n := range names {
		h, ok, err := rv.GetTableHash(ctx, doltdb.TableName{Name: n})
		if err != nil || !ok {
			panic(fmt.Sprint("GetTableHash ", n, " ", ok, " ", err))
		}
		id, seen := st.ids[h.String()]
		if !seen {
			id = len(st.ids) + 1
			st.ids[h.String()] = id
		}
		out[n] = id
	}
	return out
}

func (st *sqlState) readRoots(db string) roots {
	ctx, err := st.eng.SE.NewContext(context.Background(), st.sess.Sess)
	if err != nil {
		panic(err)
	}
	rs, ok := st.sess.Sess.GetRoots(ctx, db)
	if !ok {
		panic("GetRoots: no roots for " + db)
	}
	return roots{head: st.readRoot(ctx, rs.Head), staged: st.readRoot(ctx, rs.Staged), working: st.readRoot(ctx, rs.Working),
		tid: map[string]map[string]int{"head": st.readTids(ctx, rs.Head), "staged": st.readTids(ctx, rs.Staged), "working": st.readTids(ctx, rs.Working)}}
}

func (st *sqlState) readPats() []pat {
	res := st.sess.Exec("select pattern, ignored from dolt_ignore order by pattern")
	if res.Err != nil {
		panic(res.Err)
	}
	var ps []pat
	for _, row := range res.Rows {
		var p string
		fmt.Sscanf(row[0], "%q", &p)
		ps = append(ps, pat{p, row[1] == "1"})
	}
	return ps
}

func xroot(r root) string {
	if len(r) == 0 {
		return "-"
	}
	var ns []string
	for n := range r {
		ns = append(ns, xs(n))
	}
	sort.Strings(ns)
	o := make([]string, len(ns))
	for i, n := range ns {
		b, _ := hex.DecodeString(n[1:])
		o[i] = fmt.Sprintf("%s=%d", n, r[string(b)])
	}
	return strings.Join(o, ",")
}

// xrootT: a root with identities for the rename-aware model commands
func xrootT(r root, tid map[string]int) string {
	if len(r) == 0 {
		return "-"
	}
	var ns []string
	for n := range r {
		ns = append(ns, xs(n))
	}
	sort.Strings(ns)
	o := make([]string, len(ns))
	for i, n := range ns {
		b, _ := hex.DecodeString(n[1:])
		o[i] = fmt.Sprintf("%s=%d:%d", n, tid[string(b)], r[string(b)])
	}
	return strings.Join(o, ",")
}

func uniqueTids(tid map[string]int) bool {
	seen := map[int]bool{}
	for _, t := range tid {
		if seen[t] {
			return false
		}
		seen[t] = true
	}
	return true
}

func rootEq(a, b root) bool { return xroot(a) == xroot(b) }

func errClassIgnore(err error) string {
	if err == nil {
		return "ok"
	}
	msg := err.Error()
	switch {
	case strings.Contains(msg, "conflicting patterns in dolt_ignore"):
		i := strings.Index(msg, "the table ")
		j := strings.Index(msg, " matches conflicting")
		if i >= 0 && j > i {
			return "err conflict " + xs(msg[i+len("the table "):j])
		}
		return "err conflict ?"
	case strings.Contains(msg, "nothing to commit"):
		return "err nothing-to-commit"
	case strings.Contains(strings.ToLower(msg), "table not found"), strings.Contains(msg, "does not exist"), strings.Contains(msg, "do not exist"), strings.Contains(msg, "tables do not exist"), strings.Contains(msg, "no such table"):
		return "err notfound"
	}
	return "err other: " + msg
}

// certain: the property's own reading of whether table n is ignored ("ignore"/"dontignore"/
// "conflict"), or "" when it leaves it open.
func certain(ps []pat, n string) string {
	w, _ := requiredDecision(ps, n)
	return w
}

func keyFor(base string, ps []pat, n string) string { return base }

func q(n string) string { return "`" + n + "`" }

func (r *runner) runSQL(k kase) {
	e := r.e
	st := r.engine()
	st.ndb++
	db := fmt.Sprintf("s%d", st.ndb)
	s := st.sess
	s.MustExec("create database " + db)
	s.MustExec("use " + db)
	defer func() {
		s.Exec("use db")
		s.Exec("drop database " + db)
		s.Exec("call dolt_purge_dropped_databases()")
	}()
	canon, _ := json.Marshal(k.Prog)
	interesting := false
	renamed := false // model comparison off after a rename (renames are not modelled)
	renamedAway := map[string]bool{}
	modCounter := 0
	defer func() {
		if p := recover(); p != nil {
			e.Rep.Disagree(k, fmt.Sprint("panic: ", p), "", "harness panic while running the program")
		}
		e.Rep.Count(string(canon), interesting)
		if interesting {
			e.Rep.TracesValidated++
		}
	}()
	for idx, op := range k.Prog {
		switch op.Op {
		case "create":
			res := s.Exec("create table " + q(op.T) + " (pk int primary key, c int)")
			e.Rep.Hit("sql:create:" + res.Class())
			continue
		case "drop":
			res := s.Exec("drop table " + q(op.T))
			e.Rep.Hit("sql:drop:" + res.Class())
			continue
		case "modify":
			modCounter++
			res := s.Exec(fmt.Sprintf("insert into %s values (%d, %d)", q(op.T), 1000*idx+modCounter, idx))
			e.Rep.Hit("sql:modify:" + res.Class())
			continue
		case "rename":
			res := s.Exec("rename table " + q(op.T) + " to " + q(op.U))
			e.Rep.Hit("sql:rename:" + res.Class())
			if res.Err == nil {
				renamed = true
				renamedAway[op.T] = true
			}
			continue
		case "ignore":
			v := "false"
			if op.Flag {
				v = "true"
			}
			res := s.Exec(fmt.Sprintf("replace into dolt_ignore values ('%s', %s)", op.T, v))
			e.Rep.Hit("sql:ignore:" + res.Class())
			continue
		case "unignore":
			res := s.Exec("delete from dolt_ignore order by pattern limit 1")
			e.Rep.Hit("sql:unignore:" + res.Class())
			continue
		}
		// a staging / clean step: observe before, run, observe after
		before := st.readRoots(db)
		ps := st.readPats()
		var stmt, ask string
		switch op.Op {
		case "addall":
			stmt = "call dolt_add('-A')"
			ask = fmt.Sprintf("stageall 0 %s %s %s", xpats(ps), xroot(before.staged), xroot(before.working))
		case "addforce":
			stmt = "call dolt_add('-A','--force')"
			ask = fmt.Sprintf("stageall 1 %s %s %s", xpats(ps), xroot(before.staged), xroot(before.working))
		case "add":
			stmt = "call dolt_add(" + sqlStr(op.T) + ")"
			ask = fmt.Sprintf("add 0 %s %s %s %s", xpats(ps), xs(op.T), xroot(before.staged), xroot(before.working))
		case "commitA":
			stmt = "call dolt_commit('-A','-m','c')"
			ask = fmt.Sprintf("commitall %s %s %s %s", xpats(ps), xroot(before.head), xroot(before.staged), xroot(before.working))
		case "commita":
			stmt = "call dolt_commit('-a','-m','c')"
		case "clean":
			stmt = "call dolt_clean()"
			ask = fmt.Sprintf("clean 1 %s - - %s %s", xpats(ps), xroot(before.staged), xroot(before.working))
		case "cleanx":
			stmt = "call dolt_clean('-x')"
			ask = fmt.Sprintf("clean 0 %s - - %s %s", xpats(ps), xroot(before.staged), xroot(before.working))
		case "cleandry":
			stmt = "call dolt_clean('--dry-run')"
		case "cleant":
			stmt = "call dolt_clean(" + sqlStr(op.T) + ")"
			ask = fmt.Sprintf("clean 1 %s - %s %s %s", xpats(ps), xs(op.T), xroot(before.staged), xroot(before.working))
		default:
			continue
		}
		useR := false
		if renamed && ask != "" {
			// rename-aware model commands (identities = column tags); only when identities are unique in
			// each root, which the model assumes
			if uniqueTids(before.tid["staged"]) && uniqueTids(before.tid["working"]) && uniqueTids(before.tid["head"]) {
				useR = true
				stT, wT, hT := xrootT(before.staged, before.tid["staged"]), xrootT(before.working, before.tid["working"]), xrootT(before.head, before.tid["head"])
				switch op.Op {
				case "addall":
					ask = fmt.Sprintf("stageallr 0 %s %s %s", xpats(ps), stT, wT)
				case "addforce":
					ask = fmt.Sprintf("stageallr 1 %s %s %s", xpats(ps), stT, wT)
				case "add":
					ask = fmt.Sprintf("addr 0 %s %s %s %s", xpats(ps), xs(op.T), stT, wT)
				case "commitA":
					ask = fmt.Sprintf("commitallr %s %s %s %s", xpats(ps), hT, stT, wT)
				case "clean":
					ask = fmt.Sprintf("cleanr 1 %s - - %s %s", xpats(ps), stT, wT)
				case "cleanx":
					ask = fmt.Sprintf("cleanr 0 %s - - %s %s", xpats(ps), stT, wT)
				case "cleant":
					ask = fmt.Sprintf("cleanr 1 %s - %s %s %s", xpats(ps), xs(op.T), stT, wT)
				}
				e.Rep.Hit("sql:rename-aware-compare")
			} else {
				e.Rep.Hit("sql:rename-identity-collision-skip")
			}
		}
		res := s.Exec(stmt)
		after := st.readRoots(db)
		cls := errClassIgnore(res.Err)
		e.Rep.Hit("sql:" + op.Op + ":" + strings.SplitN(cls, " ", 3)[0] + strings.TrimPrefix(strings.SplitN(cls+" ", " ", 3)[1], "other:"))
		replay := kase{Kind: "sql", Prog: k.Prog[:idx+1]}
		desc := func(what string) string {
			return fmt.Sprintf("%s after step %d (%s) with dolt_ignore=%v staged=%v working=%v -> staged=%v working=%v head=%v (%s)", what, idx, stmt, ps, before.staged, before.working, after.staged, after.working, after.head, cls)
		}

		// ---------------- property oracle on the implementation's behaviour
		union := map[string]bool{}
		for n := range before.staged {
			union[n] = true
		}
		for n := range before.working {
			union[n] = true
		}
		switch op.Op {
		case "addall", "commitA":
			if strings.HasPrefix(cls, "err conflict") {
				contested := false
				for n := range union {
					if c := certain(ps, n); c == "conflict" || c == "" {
						contested = true
					} else {
						// winner exists semantically; a conflict here is the conservative incompleteness
						nT, nF := 0, 0
						for _, p := range ps {
							if omatch(p.P, n) {
								if p.Ign {
									nT++
								} else {
									nF++
								}
							}
						}
						if nT > 0 && nF > 0 {
							contested = true
						}
					}
				}
				interesting = true
				if !contested {
					e.Rep.Violate(keySpuriousErr, desc("conflict reported although no table matches both an ignored and a not-ignored pattern"), replay)
				}
				if !rootEq(before.staged, after.staged) || !rootEq(before.head, after.head) || !rootEq(before.working, after.working) {
					e.Rep.Violate(keySpuriousErr, desc("failed step changed the roots"), replay)
				}
				break
			}
			if res.Err != nil && cls != "err nothing-to-commit" {
				break
			}
			stagedAfter := after.staged
			for n := range union {
				if certain(ps, n) == "conflict" && implDecide(ps, n) == "conflict" {
					// equally specific contradicting patterns on a table of the working set: must be reported
					e.Rep.Violate(keyConflictSilent, desc(fmt.Sprintf("table %q matches equally specific contradicting patterns but the step did not report a conflict", n)), replay)
				}
			}
			if cls == "err nothing-to-commit" {
				// roots unchanged; judge the staging that would have happened: nothing observable
				break
			}
			for n := range union {
				_, inSt := before.staged[n]
				_, inW := before.working[n]
				dec := certain(ps, n)
				isNew := !inSt && inW
				isDrop := inSt && !inW
				isMod := inSt && inW && before.staged[n] != before.working[n]
				if dec == "ignore" || dec == "conflict" || dec == "" {
					interesting = true
				}
				switch {
				case (isNew || isDrop) && dec == "ignore":
					if isDrop && renamedAway[n] {
						continue
					}
					if stagedAfter[n] != before.staged[n] {
						e.Rep.Violate(keyFor(keyIgnoredStaged, ps, n), desc(fmt.Sprintf("ignored %s table %q was staged", map[bool]string{true: "new", false: "dropped"}[isNew], n)), replay)
					}
				case (isNew || isDrop) && dec == "dontignore":
					if renamed {
						continue
					}
					if stagedAfter[n] != before.working[n] {
						e.Rep.Violate(keyFor(keyNotStaged, ps, n), desc(fmt.Sprintf("change to non-ignored table %q was not staged", n)), replay)
					}
				case isMod:
					if stagedAfter[n] != before.working[n] {
						key := keyNotStaged
						if dec != "dontignore" {
							key = keyTrackedFiltered
						}
						e.Rep.Violate(key, desc(fmt.Sprintf("modification of tracked table %q was not staged (its name is decided %q)", n, dec)), replay)
					}
				}
			}
			if op.Op == "commitA" && res.Err == nil && !rootEq(after.head, after.staged) {
				e.Rep.Violate(keyCommitHead, desc("HEAD differs from staged after a successful commit"), replay)
			}
		case "clean", "cleanx":
			if res.Err != nil {
				if !rootEq(before.working, after.working) {
					e.Rep.Violate(keyCleanWrong, desc("failed clean changed the working set"), replay)
				}
				break
			}
			if !rootEq(before.staged, after.staged) || !rootEq(before.head, after.head) {
				e.Rep.Violate(keyCleanWrong, desc("clean changed staged/head"), replay)
			}
			for n, c := range before.working {
				_, tracked := before.staged[n]
				ac, still := after.working[n]
				if tracked {
					if !still || ac != c {
						e.Rep.Violate(keyCleanTracked, desc(fmt.Sprintf("tracked table %q removed or changed by clean", n)), replay)
					}
					continue
				}
				dec := certain(ps, n)
				if dec != "dontignore" {
					interesting = true
				}
				switch {
				case op.Op == "cleanx" || dec == "dontignore":
					if still {
						e.Rep.Violate(keyFor(keyCleanWrong, ps, n), desc(fmt.Sprintf("untracked table %q (decided %q) survived clean", n, dec)), replay)
					}
				case dec == "ignore":
					if !still || ac != c {
						e.Rep.Violate(keyFor(keyCleanWrong, ps, n), desc(fmt.Sprintf("ignored untracked table %q removed by clean without -x", n)), replay)
					}
				}
			}
			for n := range after.working {
				if _, ok := before.working[n]; !ok {
					e.Rep.Violate(keyCleanWrong, desc(fmt.Sprintf("clean created table %q", n)), replay)
				}
			}
		case "cleandry":
			if !rootEq(before.working, after.working) || !rootEq(before.staged, after.staged) {
				e.Rep.Violate(keyCleanWrong, desc("dry-run clean changed the roots"), replay)
			}
		case "cleant":
			for n, c := range before.working {
				if _, tracked := before.staged[n]; tracked && after.working[n] != c {
					e.Rep.Violate(keyCleanTracked, desc(fmt.Sprintf("tracked table %q removed or changed by clean <table>", n)), replay)
				}
			}
		}

		// ---------------- correspondence with the model
		if ask == "" || (renamed && !useR) {
			continue
		}
		xr := func(r root, kind string) string {
			if useR {
				return xrootT(r, after.tid[kind])
			}
			return xroot(r)
		}
		var impl string
		switch op.Op {
		case "addall", "addforce", "add":
			if res.Err == nil {
				impl = "ok " + xr(after.staged, "staged")
			} else {
				impl = cls
			}
		case "commitA":
			if res.Err == nil {
				impl = "ok " + xr(after.head, "head")
			} else {
				impl = cls
			}
		case "clean", "cleanx", "cleant":
			if res.Err == nil {
				impl = "ok " + xr(after.working, "working")
			} else {
				impl = cls
			}
		}
		mod := r.m.Ask(ask)
		if strings.HasPrefix(impl, "err notfound") && strings.HasPrefix(mod, "err notfound") {
			continue
		}
		if impl != mod {
			e.Rep.Disagree(replay, impl, mod, desc("model and dolt disagree")+" request: "+ask)
			return
		}
	}
	e.Rep.Sample(map[string]any{"sql_program": k.Prog})
}

func sqlStr(s string) string { return "'" + strings.ReplaceAll(s, "'", "''") + "'" }

var _ = hx.Hex
