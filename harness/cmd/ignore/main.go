// ignore: correspondence + property oracle for C46 (dolt_ignore patterns, add -A / commit -A, clean).
//
// Part A (API level): MatchTablePattern, getMoreSpecificPatterns, normalizePattern,
// resolveConflictingPatterns and IsTableNameIgnored against the Lean model on every pattern over
// {a,b,?,*,%} and every name over {a,b} of bounded length (plus names/patterns with '.', newline,
// the rebase table, duplicates), with an oracle that does not share anything with the model: an
// independent matcher and brute-force language inclusion over all strings of length <= 6 over
// {a,b,c}.
// Part B (SQL level, sql.go): generated working sets (new/dropped/modified/renamed tables,
// dolt_ignore rows) through CALL dolt_add / dolt_commit / dolt_clean on a real engine.
package main

import (
	"encoding/hex"
	"encoding/json"
	"fmt"
	"sort"
	"strings"

	"github.com/dolthub/dolt/go/libraries/doltcore/doltdb"

	"verif/harness/internal/hx"
)

const (
	keyWrongWinner  = "C46/IsTableNameIgnored/wrong-winner"
	keyBasic        = "C46/IsTableNameIgnored/basic-rule"
	keyMatch        = "C46/MatchTablePattern/language"
	keyNormalize    = "C46/normalizePattern/changes-language"
	keyMoreSpecific = "C46/getMoreSpecificPatterns/unsound"
	// equally specific (same language) contradicting patterns whose normal forms differ (`?%` vs
	// `*?%`): one is silently preferred instead of a conflict being reported
	keyEquivNorm = "C46/normalizePattern/equivalent-patterns-different-normal-form"
)

type pat struct {
	P   string `json:"p"`
	Ign bool   `json:"ign"`
}

type kase struct {
	Kind string   `json:"kind"` // match | more | norm | decide | resolve | sql
	A    string   `json:"a,omitempty"`
	B    string   `json:"b,omitempty"`
	Pats []pat    `json:"pats,omitempty"`
	Ts   []string `json:"ts,omitempty"`
	Fs   []string `json:"fs,omitempty"`
	Prog []sqlOp  `json:"prog,omitempty"`
}

// ---------------------------------------------------------------- wire

func xs(s string) string { return "x" + hex.EncodeToString([]byte(s)) }

func xlist(ss []string) string {
	if len(ss) == 0 {
		return "-"
	}
	o := make([]string, len(ss))
	for i, s := range ss {
		o[i] = xs(s)
	}
	return strings.Join(o, ",")
}

func xpats(ps []pat) string {
	if len(ps) == 0 {
		return "-"
	}
	o := make([]string, len(ps))
	for i, p := range ps {
		f := "F"
		if p.Ign {
			f = "T"
		}
		o[i] = f + hex.EncodeToString([]byte(p.P))
	}
	return strings.Join(o, ",")
}

// ---------------------------------------------------------------- independent oracle

// omatch: wildcard matcher written from the documentation (`?` one character, `*`/`%` any run),
// dynamic programming over runes, no regexp.  Characters never include newline in the oracle's
// universe.
func omatch(p, s string) bool {
	pr, sr := []rune(p), []rune(s)
	// dp[j] = pattern prefix i matches string prefix j
	dp := make([]bool, len(sr)+1)
	dp[0] = true
	for i := 0; i < len(pr); i++ {
		nd := make([]bool, len(sr)+1)
		c := pr[i]
		if c == '*' || c == '%' {
			acc := false
			for j := 0; j <= len(sr); j++ {
				acc = acc || dp[j]
				nd[j] = acc
			}
		} else {
			for j := 1; j <= len(sr); j++ {
				nd[j] = dp[j-1] && (c == '?' || c == sr[j-1])
			}
		}
		dp = nd
	}
	return dp[len(sr)]
}

// universe: all strings over {a,b,c} of length <= 6 (c plays the fresh letter)
var universe []string

func init() {
	cur := []string{""}
	universe = append(universe, "")
	for l := 1; l <= 6; l++ {
		var nx []string
		for _, s := range cur {
			for _, c := range "abc" {
				nx = append(nx, s+string(c))
			}
		}
		universe = append(universe, nx...)
		cur = nx
	}
}

type lang []uint64

var langCache = map[string]lang{}

func langOf(p string) lang {
	if l, ok := langCache[p]; ok {
		return l
	}
	l := make(lang, (len(universe)+63)/64)
	for i, s := range universe {
		if omatch(p, s) {
			l[i/64] |= 1 << (i % 64)
		}
	}
	langCache[p] = l
	return l
}

func subset(a, b lang) bool {
	for i := range a {
		if a[i]&^b[i] != 0 {
			return false
		}
	}
	return true
}

func langEq(a, b lang) bool { return subset(a, b) && subset(b, a) }

// inUniverse: the oracle only judges patterns whose literals are a/b (so that c is fresh)
func oraclePattern(p string) bool {
	for _, c := range p {
		if !strings.ContainsRune("ab?*%", c) {
			return false
		}
	}
	return true
}

// required decision by the property's own reading ("the most specific matching pattern wins,
// equally specific contradicting patterns are a conflict"); "" = the property does not determine it.
func requiredDecision(ps []pat, name string) (want string, why string) {
	var ts, fs []string
	for _, p := range ps {
		if omatch(p.P, name) {
			if p.Ign {
				ts = append(ts, p.P)
			} else {
				fs = append(fs, p.P)
			}
		}
	}
	if len(ts) == 0 {
		return "dontignore", "no matching pattern with ignored = true"
	}
	if len(fs) == 0 {
		return "ignore", "only patterns with ignored = true match"
	}
	// a pattern strictly more specific than every matching pattern of the other kind wins ...
	strict := func(a, b string) bool { return subset(langOf(a), langOf(b)) && !langEq(langOf(a), langOf(b)) }
	for _, t := range ts {
		all := true
		for _, f := range fs {
			if !strict(t, f) {
				all = false
			}
		}
		if all {
			return "ignore", fmt.Sprintf("%q (ignored) is strictly more specific than every matching not-ignored pattern", t)
		}
	}
	for _, f := range fs {
		all := true
		for _, t := range ts {
			if !strict(f, t) {
				all = false
			}
		}
		if all {
			return "dontignore", fmt.Sprintf("%q (not ignored) is strictly more specific than every matching ignored pattern", f)
		}
	}
	// ... otherwise equally specific contradicting patterns are a conflict
	for _, t := range ts {
		for _, f := range fs {
			if langEq(langOf(t), langOf(f)) {
				return "conflict", fmt.Sprintf("patterns %q (ignored) and %q (not ignored) match the same names and no pattern is more specific than all others", t, f)
			}
		}
	}
	return "", ""
}

// ---------------------------------------------------------------- implementation side

func decName(r doltdb.IgnoreResult, err error) string {
	switch r {
	case doltdb.Ignore:
		if err == nil {
			return "ignore"
		}
	case doltdb.DontIgnore:
		if err == nil {
			return "dontignore"
		}
	case doltdb.IgnorePatternConflict:
		if doltdb.AsDoltIgnoreInConflict(err) != nil {
			return "conflict"
		}
	}
	return fmt.Sprintf("other(%d,%v)", r, err)
}

func implDecide(ps []pat, name string) string {
	return hx.Recover(func() string {
		ip := make(doltdb.IgnorePatterns, len(ps))
		for i, p := range ps {
			ip[i] = doltdb.NewIgnorePattern(p.P, p.Ign)
		}
		return decName(ip.IsTableNameIgnored(doltdb.TableName{Name: name}))
	})
}

func boolStr(b bool, err error) string {
	if err != nil {
		return "err:" + err.Error()
	}
	return fmt.Sprint(b)
}

type runner struct {
	e *hx.Env
	m *hx.Model
}

func (r *runner) runCase(k kase) {
	e, m := r.e, r.m
	switch k.Kind {
	case "match":
		got := hx.Recover(func() string { return boolStr(doltdb.MatchTablePattern(k.A, k.B)) })
		mod := m.Ask("match " + xs(k.A) + " " + xs(k.B))
		e.Rep.Count("match "+k.A+" "+k.B, strings.ContainsAny(k.A, "?*%"))
		e.Rep.Hit("match:" + got)
		if oraclePattern(k.A) && !strings.Contains(k.B, "\n") {
			if want := fmt.Sprint(omatch(k.A, k.B)); got != want {
				e.Rep.Violate(keyMatch, fmt.Sprintf("MatchTablePattern(%q,%q) = %s, documented wildcard semantics say %s", k.A, k.B, got, want), k)
				return
			}
		}
		if got != mod {
			e.Rep.Disagree(k, got, mod, "")
		}
	case "more":
		got := hx.Recover(func() string { return boolStr(doltdb.VerifMoreSpecific(k.A, k.B)) })
		mod := m.Ask("more " + xs(k.A) + " " + xs(k.B))
		e.Rep.Count("more "+k.A+" "+k.B, strings.ContainsAny(k.A, "?*%") && strings.ContainsAny(k.B, "?*%"))
		e.Rep.Hit("more:" + got)
		if got == "true" && oraclePattern(k.A) && oraclePattern(k.B) && !subset(langOf(k.B), langOf(k.A)) {
			// "more specific" claimed although some name matches B and not A
			key := keyMoreSpecific
			e.Rep.Hit("more:unsound")
			e.Rep.Violate(key, fmt.Sprintf("getMoreSpecificPatterns(%q) accepts %q as more specific, but some name matches %q and not %q", k.A, k.B, k.B, k.A), k)
			if got != mod {
				e.Rep.Disagree(k, got, mod, "")
			}
			return
		}
		if got != mod {
			e.Rep.Disagree(k, got, mod, "")
		}
	case "norm":
		got := hx.Recover(func() string { return xs(doltdb.VerifNormalizePattern(k.A)) })
		mod := m.Ask("norm " + xs(k.A))
		e.Rep.Count("norm "+k.A, strings.Contains(k.A, "**") || strings.Contains(k.A, "%%") || strings.Contains(k.A, "*%") || strings.Contains(k.A, "%*"))
		if oraclePattern(k.A) {
			n := doltdb.VerifNormalizePattern(k.A)
			if !langEq(langOf(n), langOf(k.A)) {
				e.Rep.Violate(keyNormalize, fmt.Sprintf("normalizePattern(%q) = %q matches different names", k.A, n), k)
				return
			}
		}
		if got != mod {
			e.Rep.Disagree(k, got, mod, "")
		}
	case "resolve":
		got := hx.Recover(func() string {
			return decName(doltdb.VerifResolveConflictingPatterns(k.Ts, k.Fs, doltdb.TableName{Name: "t"}))
		})
		mod := m.Ask("resolve " + xlist(k.Ts) + " " + xlist(k.Fs))
		e.Rep.Count("resolve "+strings.Join(k.Ts, ",")+" | "+strings.Join(k.Fs, ","), true)
		e.Rep.Hit("resolve:" + got)
		if got != mod {
			e.Rep.Disagree(k, got, mod, "")
		}
	case "decide":
		name := k.A
		got := implDecide(k.Pats, name)
		mod := m.Ask("decide " + xpats(k.Pats) + " " + xs(name))
		nT, nF := 0, 0
		judged := !strings.ContainsAny(name, "\n.") && !strings.EqualFold(name, "dolt_rebase")
		for _, p := range k.Pats {
			if !oraclePattern(p.P) {
				judged = false
			}
			if omatch(p.P, name) {
				if p.Ign {
					nT++
				} else {
					nF++
				}
			}
		}
		canon, _ := json.Marshal(k)
		e.Rep.Count(string(canon), nT > 0 && nF > 0)
		e.Rep.Hit("decide:" + got)
		if nT > 0 && nF > 0 {
			e.Rep.Hit("decide-contested:" + got)
		}
		e.Rep.Sample(map[string]any{"pats": k.Pats, "name": name, "impl": got, "model": mod})
		if judged {
			want, why := requiredDecision(k.Pats, name)
			if want != "" && got != want {
				if got == "conflict" && (want == "ignore" || want == "dontignore") {
					// the syntactic "more specific" test is incomplete: a conflict is reported although
					// one pattern is semantically the most specific.  Conservative (the user is asked),
					// not a wrong winner: counted, not a violation.
					e.Rep.Hit("decide:conservative-conflict")
				} else {
					key := keyWrongWinner
					if nT == 0 || nF == 0 {
						key = keyBasic
					} else if want == "conflict" && equivDifferentNormalForm(k.Pats, name) {
						key = keyEquivNorm
					}
					e.Rep.Hit("decide:wrong")
					e.Rep.Violate(key, fmt.Sprintf("IsTableNameIgnored(%v, %q) = %s but %s, so it must be %s", k.Pats, name, got, why, want), k)
					if got != mod {
						e.Rep.Disagree(k, got, mod, "")
					}
					return
				}
			}
		}
		if got != mod {
			e.Rep.Disagree(k, got, mod, "")
		}
	case "sql":
		r.runSQL(k)
	}
}

// ---------------------------------------------------------------- generators

func allStrings(alpha string, maxLen int) []string {
	out := []string{""}
	cur := []string{""}
	for l := 1; l <= maxLen; l++ {
		var nx []string
		for _, s := range cur {
			for _, c := range alpha {
				nx = append(nx, s+string(c))
			}
		}
		out = append(out, nx...)
		cur = nx
	}
	return out
}

var oddStrings = []string{"a.", ".", "a\n", "\n", "a?", "a%", "a*", "é", "aé", "dolt_rebase", "DOLT_REBASE", "dolt_rebaſe", "dolt_rebase1", "a\\", "\\?", "a+b", "(a)", "[a]", "^a$", "a|b"}

func genPat(r *hx.Rng, maxLen int) string {
	n := r.Range(1, maxLen)
	b := make([]byte, n)
	for i := range b {
		b[i] = "ab?*%ab?*%ab?*%."[r.Intn(16)]
	}
	return string(b)
}

func main() {
	e := hx.Init("ignore", "C46")
	defer e.Finish()
	e.Rep.Rule = "API: every pattern over {a,b,?,*,%} x every name over {a,b} up to the tier's length bound for match/norm, all (quick: sampled) pattern pairs for the more-specific test, all ordered (ignored,not-ignored) pattern pairs up to the bound x every name, plus random sets of 2-5 patterns incl. duplicates, '.', newline, regexp metacharacters and the rebase table; nontrivial = wildcard present (match/more), both an ignored and a not-ignored pattern match the name (decide). SQL: generated programs over a pool of short table names (create/drop/modify/rename, dolt_ignore rows, add -A, add --force, add <t>, commit -A, commit -a, clean, clean -x, clean <t>); nontrivial = program in which some staging/clean step met an ignored or contested table; distinct by canonical case text"
	m := e.MustModel()
	defer m.Close()
	r := &runner{e: e, m: m}
	if e.Replay != "" {
		rf, err := hx.LoadReplay(e.Replay)
		if err != nil {
			panic(err)
		}
		var k kase
		if err := json.Unmarshal(rf.Case, &k); err != nil {
			panic(err)
		}
		r.runCase(k)
		r.closeSQL()
		return
	}
	for _, raw := range e.CorpusCases() {
		var k kase
		if json.Unmarshal(raw, &k) == nil {
			r.runCase(k)
		}
	}
	// fixed witnesses of the known findings (replayed on every run)
	r.witnesses()

	rng := e.Rng
	plen := 3
	nlen := 3
	if e.Thorough() {
		plen, nlen = 4, 4
	}
	pats := allStrings("ab?*%", plen)
	names := allStrings("ab", nlen)
	// match + norm: exhaustive
	for _, p := range pats {
		r.runCase(kase{Kind: "norm", A: p})
		for _, n := range names {
			r.runCase(kase{Kind: "match", A: p, B: n})
		}
	}
	for _, p := range append(oddStrings, pats[:40]...) {
		for _, n := range oddStrings {
			r.runCase(kase{Kind: "match", A: p, B: n})
			r.runCase(kase{Kind: "more", A: p, B: n})
		}
		r.runCase(kase{Kind: "norm", A: p})
	}
	// more-specific: all pairs up to length 3 (thorough: 4 sampled 1/4), quick: length <= 2 + sample
	mp := allStrings("ab?*%", 2)
	if e.Thorough() {
		mp = allStrings("ab?*%", 3)
	}
	for _, a := range mp {
		for _, b := range mp {
			r.runCase(kase{Kind: "more", A: a, B: b})
		}
	}
	for i := 0; i < e.N(20000, 200000); i++ {
		r.runCase(kase{Kind: "more", A: hx.Pick(rng, pats), B: hx.Pick(rng, pats)})
	}
	// decide: all ordered pairs (t ignored, f not ignored) up to length 2 (thorough 3) x names that both match
	dp := allStrings("ab?*%", 2)
	if e.Thorough() {
		dp = allStrings("ab?*%", 3)
	}
	for _, t := range dp {
		for _, f := range dp {
			for _, n := range names {
				if omatch(t, n) && omatch(f, n) {
					r.runCase(kase{Kind: "decide", A: n, Pats: []pat{{t, true}, {f, false}}})
					r.runCase(kase{Kind: "resolve", Ts: []string{t}, Fs: []string{f}})
				}
			}
		}
	}
	// decide: random sets
	for i := 0; i < e.N(15000, 200000); i++ {
		n := hx.Pick(rng, names)
		if rng.Chance(1, 20) {
			n = hx.Pick(rng, oddStrings)
		}
		np := rng.Range(2, 5)
		var ps []pat
		for j := 0; j < np; j++ {
			var p string
			switch {
			case rng.Chance(1, 30):
				p = hx.Pick(rng, oddStrings)
			case rng.Chance(1, 2):
				// derive a pattern that matches n: generalise some positions
				p = generalise(rng, n)
			default:
				p = genPat(rng, 4)
			}
			ps = append(ps, pat{p, rng.Bool()})
			if rng.Chance(1, 25) {
				ps = append(ps, pat{p, rng.Bool()}) // duplicate pattern (API only; dolt_ignore has a PK)
			}
		}
		r.runCase(kase{Kind: "decide", A: n, Pats: ps})
		if rng.Chance(1, 4) {
			var ts, fs []string
			for _, p := range ps {
				if p.Ign {
					ts = append(ts, p.P)
				} else {
					fs = append(fs, p.P)
				}
			}
			r.runCase(kase{Kind: "resolve", Ts: ts, Fs: fs})
		}
	}
	// SQL level
	nprog := e.N(60, 500)
	for i := 0; i < nprog; i++ {
		r.runCase(kase{Kind: "sql", Prog: genProgram(rng.Fork())})
	}
	r.closeSQL()
	var ks []string
	for k := range e.Rep.Histogram {
		ks = append(ks, k)
	}
	sort.Strings(ks)
}

// generalise turns a name into a pattern that matches it by replacing random positions with
// wildcards.
func generalise(r *hx.Rng, n string) string {
	var sb strings.Builder
	for _, c := range n {
		switch r.Intn(6) {
		case 0:
			sb.WriteByte('?')
		case 1:
			sb.WriteString(hx.Pick(r, []string{"*", "%"}))
			if r.Bool() {
				sb.WriteRune(c)
			}
		case 2:
			sb.WriteRune(c)
			sb.WriteString(hx.Pick(r, []string{"*", "%"}))
		default:
			sb.WriteRune(c)
		}
	}
	if r.Chance(1, 4) {
		return hx.Pick(r, []string{"*", "%"}) + sb.String()
	}
	return sb.String()
}

// equivDifferentNormalForm: some matching ignored / not-ignored pair has the same language but
// different normalizePattern results.
func equivDifferentNormalForm(ps []pat, name string) bool {
	for _, t := range ps {
		for _, f := range ps {
			if t.Ign && !f.Ign && omatch(t.P, name) && omatch(f.P, name) && langEq(langOf(t.P), langOf(f.P)) &&
				doltdb.VerifNormalizePattern(t.P) != doltdb.VerifNormalizePattern(f.P) {
				return true
			}
		}
	}
	return false
}

func (r *runner) witnesses() {
	// D4 (finding): b?% (ignored) and b*?% (not ignored) match exactly the same names, yet no
	// conflict is reported: the syntactically "more specific" one wins.
	d4 := []pat{{"b?%", true}, {"b*?%", false}}
	if got := implDecide(d4, "bba"); got != "conflict" {
		r.e.Rep.Known(keyEquivNorm, fmt.Sprintf("IsTableNameIgnored([b?%% ignored, b*?%% not ignored], \"bba\") = %s although both patterns match exactly the same names (normal forms %q / %q differ)", got, doltdb.VerifNormalizePattern("b?%"), doltdb.VerifNormalizePattern("b*?%")), kase{Kind: "decide", A: "bba", Pats: d4})
	}
	// D2 (known finding): a tracked table with an ignored name is modified, commit -A skips it.
	// (The former D1 witness -- a? ignored, a% not ignored, table ab -- is a corpus case now.)
	r.runCase(kase{Kind: "sql", Prog: []sqlOp{{Op: "create", T: "ab"}, {Op: "commitA"}, {Op: "ignore", T: "ab", Flag: true}, {Op: "modify", T: "ab"}, {Op: "commitA"}}})
	// fixed RENAME programs for the rename-aware part of the model (old/new name ignored or not,
	// add -A, commit -A, clean, clean -x after a rename of a tracked table)
	base := []sqlOp{{Op: "create", T: "aa"}, {Op: "create", T: "ab"}, {Op: "commitA"}}
	for _, tail := range [][]sqlOp{
		{{Op: "rename", T: "aa", U: "bb"}, {Op: "addall"}, {Op: "commitA"}},
		{{Op: "ignore", T: "bb", Flag: true}, {Op: "rename", T: "aa", U: "bb"}, {Op: "addall"}, {Op: "commitA"}, {Op: "clean"}, {Op: "cleanx"}},
		{{Op: "ignore", T: "aa", Flag: true}, {Op: "rename", T: "aa", U: "bb"}, {Op: "addall"}, {Op: "commitA"}},
		{{Op: "ignore", T: "a?", Flag: true}, {Op: "ignore", T: "b?", Flag: true}, {Op: "rename", T: "aa", U: "bb"}, {Op: "commitA"}, {Op: "addforce"}},
		{{Op: "rename", T: "aa", U: "bb"}, {Op: "clean"}, {Op: "commitA"}},
		{{Op: "rename", T: "aa", U: "bb"}, {Op: "modify", T: "bb"}, {Op: "add", T: "aa"}, {Op: "add", T: "bb"}, {Op: "commitA"}},
		{{Op: "rename", T: "aa", U: "bb"}, {Op: "modify", T: "ab"}, {Op: "cleant", T: "bb"}, {Op: "addall"}},
		{{Op: "rename", T: "aa", U: "bb"}, {Op: "rename", T: "ab", U: "aa"}, {Op: "addall"}, {Op: "cleanx"}, {Op: "commitA"}},
		{{Op: "rename", T: "aa", U: "bb"}, {Op: "create", T: "aa"}, {Op: "addall"}},
	} {
		r.runCase(kase{Kind: "sql", Prog: append(append([]sqlOp{}, base...), tail...)})
	}
}
