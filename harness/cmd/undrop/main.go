// undrop: correspondence + property oracles for C47 (a dropped database can be restored intact
// until it is purged).
//
// A dolt SQL engine serves a scratch data directory; sequences of CREATE DATABASE / DROP DATABASE /
// CALL dolt_undrop / CALL dolt_purge_dropped_databases over names that differ only by case (and
// over the names that appear in the holding directory, ".backup." copies included) are executed
// on it and on the Lean model driver (dv_undrop).  Every created database ("incarnation") gets
// several tables, two branches, a tag, staged and unstaged working-set changes, and a marker file
// in its .dolt directory.  Oracles independent of the model: the logical fingerprint of a restored
// database equals the one recorded before its drop; a live database is never overwritten; every
// incarnation exists exactly once (live or held) until a purge; held copies never change a byte;
// purge touches nothing outside the holding directory.
package main

import (
	"crypto/sha256"
	"encoding/json"
	"fmt"
	"os"
	"path/filepath"
	"sort"
	"strconv"
	"strings"
	"time"

	"verif/harness/internal/hx"
	"verif/harness/internal/sqleng"
)

const holding = ".dolt_dropped_databases"

type op struct {
	Kind string `json:"kind"` // create | drop | undrop | purge
	Name string `json:"name,omitempty"`
}

type kase struct {
	Ops []op `json:"ops"`
}

type world struct {
	e      *hx.Env
	m      *hx.Model
	dir    string
	eng    *sqleng.Engine
	s      *sqleng.Session
	parent string         // name of the database dolt derives from the data directory itself
	nextID int            // incarnation ids
	finger map[int]string // incarnation -> logical fingerprint when last seen live
	held   map[int]string // incarnation -> physical hash when it entered the holding directory
	purged map[int]bool
	made   map[int]bool
}

func ls(dir string) []string {
	es, _ := os.ReadDir(dir)
	var out []string
	for _, e := range es {
		out = append(out, e.Name())
	}
	sort.Strings(out)
	return out
}

func markerOf(dbdir string) string {
	b, err := os.ReadFile(filepath.Join(dbdir, ".dolt", "verif_marker"))
	if err != nil {
		return "-"
	}
	return strings.TrimSpace(string(b))
}

func physHash(dir string) string {
	h := sha256.New()
	filepath.Walk(dir, func(p string, info os.FileInfo, err error) error {
		if err != nil {
			return nil
		}
		rel, _ := filepath.Rel(dir, p)
		if info.IsDir() {
			fmt.Fprintf(h, "D %s\n", rel)
			return nil
		}
		b, _ := os.ReadFile(p)
		fmt.Fprintf(h, "F %s %d %x\n", rel, len(b), sha256.Sum256(b))
		return nil
	})
	return fmt.Sprintf("%x", h.Sum(nil))[:24]
}

func (w *world) skipRoot(n string) bool { return n == holding }

// implTree renders the same canonical view as the model driver's `tree`.
func (w *world) implTree() string {
	var root, held []string
	for _, n := range ls(w.dir) {
		if w.skipRoot(n) {
			continue
		}
		root = append(root, n+"="+markerOf(filepath.Join(w.dir, n)))
	}
	for _, n := range ls(filepath.Join(w.dir, holding)) {
		held = append(held, n+"="+markerOf(filepath.Join(w.dir, holding, n)))
	}
	var live []string
	for _, r := range w.s.Exec("show databases").Rows {
		n := strings.Trim(r[0], "\"")
		if n == "information_schema" || n == "mysql" || n == "db" || n == w.parent {
			continue
		}
		live = append(live, n)
	}
	sort.Strings(live)
	return "root:" + strings.Join(root, ",") + ";held:" + strings.Join(held, ",") + ";live:" + strings.Join(live, ",")
}

func q(n string) string { return "`" + n + "`" }

// fingerprint: every branch -> head commit, log, every table -> rows; tags; working-set status and
// working-set rows of the default branch.
func (w *world) fingerprint(db string) string {
	var sb strings.Builder
	ex := func(label, query string) {
		r := w.s.Exec(query)
		fmt.Fprintf(&sb, "%s:%s:%v\n", label, r.Class(), r.Lines())
	}
	br := w.s.Exec("select name from " + q(db) + ".dolt_branches order by name")
	fmt.Fprintf(&sb, "branches:%s:%v\n", br.Class(), br.Lines())
	for _, row := range br.Rows {
		b := strings.Trim(row[0], "\"")
		rev := q(db + "/" + b)
		ex("log "+b, "select commit_hash, message from "+rev+".dolt_log order by commit_order desc, commit_hash")
		tb := w.s.Exec("show tables from " + rev)
		fmt.Fprintf(&sb, "tables %s:%v\n", b, tb.Sorted())
		for _, t := range tb.Sorted() {
			tn := strings.Trim(t, "\"")
			ex("rows "+b+"."+tn, "select * from "+rev+"."+q(tn)+" order by 1")
			ex("schema "+b+"."+tn, "show create table "+rev+"."+q(tn))
		}
	}
	ex("tags", "select tag_name, tag_hash, message from "+q(db)+".dolt_tags order by tag_name")
	ex("status", "select table_name, staged, status from "+q(db)+".dolt_status order by 1,2,3")
	ex("staged-diff", "select count(*) from "+q(db)+".dolt_diff where commit_hash = 'STAGED'")
	return fmt.Sprintf("%x", sha256.Sum256([]byte(sb.String())))[:24] + fmt.Sprintf("/%d", strings.Count(sb.String(), "\n"))
}

func (w *world) populate(db string, id int) {
	s := w.s
	d := q(db)
	s.MustExec("create table " + d + ".t1 (pk int primary key, c varchar(20), n int)")
	s.MustExec("create table " + d + ".t2 (a int, b int, primary key (a, b))")
	s.MustExec(fmt.Sprintf("insert into %s.t1 values (1,'inc%d',%d),(2,NULL,NULL),(3,'x',%d)", d, id, id, id*7))
	s.MustExec(fmt.Sprintf("insert into %s.t2 values (%d,1),(%d,2)", d, id, id))
	s.MustExec("use " + d)
	s.MustExec(fmt.Sprintf("call dolt_commit('-Am','first %d')", id))
	s.MustExec("call dolt_tag('v1')")
	s.MustExec("call dolt_branch('feature')")
	s.MustExec(fmt.Sprintf("insert into %s.t1 values (10,'main-only',%d)", d, id))
	s.MustExec("call dolt_commit('-am','second on main')")
	s.MustExec("call dolt_checkout('feature')")
	s.MustExec(fmt.Sprintf("create table t3 (k int primary key, v text)"))
	s.MustExec(fmt.Sprintf("insert into t3 values (%d,'feature table')", id))
	s.MustExec("call dolt_commit('-Am','feature work')")
	s.MustExec("call dolt_checkout('main')")
	// uncommitted: one staged change, one unstaged change, one new untracked table
	s.MustExec(fmt.Sprintf("update %s.t2 set b = b + 10 where b = 1", d))
	s.MustExec("call dolt_add('t2')")
	s.MustExec(fmt.Sprintf("delete from %s.t1 where pk = 2", d))
	s.MustExec(fmt.Sprintf("create table %s.scratch (i int primary key)", d))
	s.MustExec(fmt.Sprintf("insert into %s.scratch values (%d)", d, id))
	s.MustExec("use db")
}

func errClass(r *sqleng.Result) string {
	if r.Err == nil {
		return "ok"
	}
	m := strings.ToLower(r.Err.Error())
	switch {
	case strings.Contains(m, "database exists"):
		return "err db-exists"
	case strings.Contains(m, "database not found"):
		return "err db-not-found"
	case strings.Contains(m, "found to undrop"):
		return "err not-undroppable"
	case strings.Contains(m, "same case-insensitive name"):
		return "err name-taken"
	case strings.Contains(m, "out of the way"):
		return "err backup-collision"
	}
	return "err other:" + r.Err.Error()
}

// where finds every incarnation marker: "live:<dir>" or "held:<entry>"
func (w *world) where() map[int][]string {
	out := map[int][]string{}
	add := func(loc, dir string) {
		if id, err := strconv.Atoi(markerOf(dir)); err == nil {
			out[id] = append(out[id], loc)
		}
	}
	for _, n := range ls(w.dir) {
		if n != holding {
			add("live:"+n, filepath.Join(w.dir, n))
		}
	}
	for _, n := range ls(filepath.Join(w.dir, holding)) {
		add("held:"+n, filepath.Join(w.dir, holding, n))
	}
	return out
}

func (w *world) runOp(c kase, i int, o op) {
	rep := w.e.Rep
	beforeRoot, beforeHeld := ls(w.dir), ls(filepath.Join(w.dir, holding))
	beforeWhere := w.where()
	liveFold := map[string]string{} // fold name -> dir of live databases before the op
	for _, n := range beforeRoot {
		if n != holding && n != ".home" {
			liveFold[strings.ToLower(n)] = n
		}
	}
	// refresh fingerprints of everything live (the last state before a possible drop)
	for id, locs := range beforeWhere {
		for _, l := range locs {
			if strings.HasPrefix(l, "live:") {
				w.finger[id] = w.fingerprint(strings.TrimPrefix(l, "live:"))
			}
		}
	}
	var r *sqleng.Result
	var line string
	if strings.HasPrefix(o.Name, "@") { // the k-th entry of the holding directory, whatever it is called now
		k, _ := strconv.Atoi(o.Name[1:])
		if k < len(beforeHeld) {
			o.Name = beforeHeld[k]
		} else {
			o.Name = "nothing-held"
		}
	}
	switch o.Kind {
	case "create":
		r = w.s.Exec("create database " + q(o.Name))
		id := 0
		if r.Err == nil {
			w.nextID++
			id = w.nextID
			w.made[id] = true
			os.WriteFile(filepath.Join(w.dir, o.Name, ".dolt", "verif_marker"), []byte(fmt.Sprint(id)), 0o644)
			w.populate(o.Name, id)
			w.finger[id] = w.fingerprint(o.Name)
		} else {
			id = w.nextID + 1
		}
		line = fmt.Sprintf("create %s %d", o.Name, id)
	case "drop":
		r = w.s.Exec("drop database " + q(o.Name))
		ms := "0"
		for _, n := range ls(filepath.Join(w.dir, holding)) {
			if j := strings.LastIndex(n, ".backup."); j >= 0 && !contains(beforeHeld, n) {
				ms = n[j+len(".backup."):]
			}
		}
		line = fmt.Sprintf("drop %s %s", o.Name, ms)
	case "undrop":
		r = w.s.Exec("call dolt_undrop('" + o.Name + "')")
		line = "undrop " + o.Name
	case "purge":
		r = w.s.Exec("call dolt_purge_dropped_databases()")
		line = "purge"
	}
	got := errClass(r)
	rep.Evaluations++
	rep.Hit(o.Kind + ":" + strings.SplitN(got, ":", 2)[0])
	afterRoot, afterHeld := ls(w.dir), ls(filepath.Join(w.dir, holding))
	afterWhere := w.where()

	// ---------------- model
	mod := w.m.Ask(line)
	if mod != got {
		rep.Disagree(c, got, mod, fmt.Sprintf("op %d: %s", i, line))
	}
	if it, mt := w.implTree(), w.m.Ask("tree"); it != mt {
		rep.Disagree(c, it, mt, fmt.Sprintf("directory tree after op %d: %s", i, line))
	}

	// ---------------- oracles (independent of the model)
	// every incarnation exists exactly once until purged
	if o.Kind == "purge" && r.Err == nil {
		for id, locs := range beforeWhere {
			for _, l := range locs {
				if strings.HasPrefix(l, "held:") {
					w.purged[id] = true
					delete(w.held, id)
				}
			}
		}
	}
	for id := range w.made {
		n := len(afterWhere[id])
		switch {
		case w.purged[id] && n == 0:
		case w.purged[id] && n > 0 && o.Kind == "purge":
			rep.Violate("purge-incomplete", fmt.Sprintf("incarnation %d still at %v after purge", id, afterWhere[id]), c)
		case n == 0:
			rep.Violate("data-destroyed:"+o.Kind, fmt.Sprintf("op %d (%s): the files of database incarnation %d (was at %v) no longer exist anywhere, without a purge", i, line, id, beforeWhere[id]), c)
		case n > 1:
			rep.Violate("duplicated:"+o.Kind, fmt.Sprintf("incarnation %d found at %v", id, afterWhere[id]), c)
		}
	}
	// held copies never change a byte; record new ones
	for id, locs := range afterWhere {
		for _, l := range locs {
			if !strings.HasPrefix(l, "held:") {
				delete(w.held, id)
				continue
			}
			ph := physHash(filepath.Join(w.dir, holding, strings.TrimPrefix(l, "held:")))
			if old, ok := w.held[id]; ok && old != ph {
				rep.Violate("held-copy-changed:"+o.Kind, fmt.Sprintf("op %d (%s) modified the dropped copy of incarnation %d at %s", i, line, id, l), c)
			}
			w.held[id] = ph
		}
	}
	// live databases: fingerprints unchanged by this op (unless it is the one created/dropped)
	for id, locs := range afterWhere {
		for _, l := range locs {
			if !strings.HasPrefix(l, "live:") {
				continue
			}
			name := strings.TrimPrefix(l, "live:")
			wasLive := false
			for _, bl := range beforeWhere[id] {
				wasLive = wasLive || strings.HasPrefix(bl, "live:")
			}
			registered := w.s.Exec("select 1 from " + q(name) + ".dolt_branches limit 1").Err == nil
			if !registered {
				rep.Hit("live-dir-not-registered")
				continue
			}
			fp := w.fingerprint(name)
			switch {
			case wasLive && fp != w.finger[id]:
				rep.Violate("live-db-changed:"+o.Kind, fmt.Sprintf("op %d (%s) changed the live database %s (incarnation %d)", i, line, name, id), c)
			case !wasLive && o.Kind == "undrop":
				if fp != w.finger[id] {
					rep.Violate("undrop-not-intact", fmt.Sprintf("op %d (%s): database %s (incarnation %d) came back with a different content fingerprint: before drop %s, after undrop %s", i, line, name, id, w.finger[id], fp), c)
				} else {
					rep.Hit("undrop:restored-intact")
				}
				if name != o.Name && contains(beforeHeld, o.Name) {
					rep.Violate("undrop-wrong-case-copy", fmt.Sprintf("dolt_undrop('%s') restored the dropped database '%s' although a dropped database named exactly '%s' was available (held: %v)", o.Name, name, o.Name, beforeHeld), c)
					rep.Hit("undrop:restored-other-case-copy")
				}
			}
		}
	}
	// a restore never overwrites a live database
	if o.Kind == "undrop" {
		if prev, clash := liveFold[strings.ToLower(o.Name)]; clash {
			if r.Err == nil {
				rep.Violate("undrop-over-live", fmt.Sprintf("dolt_undrop('%s') succeeded although database directory %s was live", o.Name, prev), c)
			}
			if fmt.Sprint(afterRoot) != fmt.Sprint(beforeRoot) || fmt.Sprint(afterHeld) != fmt.Sprint(beforeHeld) {
				rep.Violate("undrop-refused-but-changed", fmt.Sprintf("refused dolt_undrop('%s') changed the directory tree", o.Name), c)
			}
			rep.Hit("undrop:blocked-by-live-db")
		}
	}
	// purge is confined to the holding directory
	if o.Kind == "purge" {
		if fmt.Sprint(afterRoot) != fmt.Sprint(beforeRoot) && !(len(beforeHeld) == 0 && !contains(beforeRoot, holding)) {
			rep.Violate("purge-not-confined", fmt.Sprintf("purge changed the data directory: %v -> %v", beforeRoot, afterRoot), c)
		}
		if r.Err == nil && len(afterHeld) != 0 {
			rep.Violate("purge-incomplete", fmt.Sprintf("holding directory still has %v", afterHeld), c)
		}
	}
	// failed create/undrop/purge change nothing
	if r.Err != nil && o.Kind != "drop" {
		if fmt.Sprint(afterRoot) != fmt.Sprint(beforeRoot) && !(o.Kind == "undrop" && len(afterRoot) == len(beforeRoot)+1 && contains(afterRoot, holding)) {
			rep.Violate("failed-op-changed-tree:"+o.Kind, fmt.Sprintf("failed %s changed the data directory: %v -> %v", line, beforeRoot, afterRoot), c)
		}
	}
	if o.Kind == "drop" && r.Err == nil && len(afterHeld) != len(beforeHeld)+1 {
		rep.Violate("drop-holding-count", fmt.Sprintf("%s: holding directory went %v -> %v", line, beforeHeld, afterHeld), c)
	}
	if o.Kind == "drop" && strings.HasPrefix(line, "drop ") && !strings.HasSuffix(line, " 0") {
		rep.Hit("drop:earlier-copy-renamed-to-backup")
	}
}

func contains(l []string, s string) bool {
	for _, x := range l {
		if x == s {
			return true
		}
	}
	return false
}

func (w *world) open() {
	d, err := os.MkdirTemp(w.e.Scratch, "dd-")
	if err != nil {
		panic(err)
	}
	w.dir = d
	w.eng, err = sqleng.New(d, sqleng.Options{})
	if err != nil {
		panic(err)
	}
	w.s, err = w.eng.NewSession()
	if err != nil {
		panic(err)
	}
	w.parent = filepath.Base(d)
}

func (w *world) closeEng() {
	if w.eng != nil {
		w.eng.Close()
		os.RemoveAll(w.dir)
		w.eng = nil
	}
}

func runCase(e *hx.Env, m *hx.Model, w *world, c kase) {
	defer func() {
		if p := recover(); p != nil {
			e.Rep.Violate("panic", fmt.Sprintf("panic: %v", p), c)
			w.closeEng()
		}
	}()
	if w.eng == nil {
		w.open()
	}
	// a clean data directory: only db, .home (and an empty holding directory)
	clean := true
	for _, n := range ls(w.dir) {
		if n != "db" && n != ".home" && n != holding {
			clean = false
		}
	}
	if len(ls(filepath.Join(w.dir, holding))) != 0 {
		clean = false
	}
	if !clean {
		w.closeEng()
		w.open()
	}
	w.finger, w.held, w.purged, w.made = map[int]string{}, map[int]string{}, map[int]bool{}, map[int]bool{}
	m.Ask("reset")
	for _, n := range ls(w.dir) {
		if n != holding {
			m.Ask("extern " + n)
		}
	}
	if contains(ls(w.dir), holding) {
		m.Ask("extern " + holding)
	}
	for i, o := range c.Ops {
		w.runOp(c, i, o)
	}
	// leave the directory clean for the next case
	for _, n := range ls(w.dir) {
		if n != "db" && n != ".home" && n != holding {
			if r := w.s.Exec("drop database " + q(n)); r.Err != nil {
				w.closeEng()
				break
			}
		}
	}
	if w.eng != nil {
		w.s.Exec("call dolt_purge_dropped_databases()")
	}
	sig, _ := json.Marshal(c.Ops)
	nontrivial := false
	for _, o := range c.Ops {
		nontrivial = nontrivial || o.Kind == "undrop"
	}
	e.Rep.Count(string(sig), nontrivial)
	e.Rep.TracesValidated++
	e.Rep.Sample(c)
}

var variants = []string{"dbx", "DBX", "Dbx"}

func genCase(r *hx.Rng, w *world) kase {
	n := r.Range(3, 6)
	var ops []op
	// a rough picture of what exists, so that most operations are meaningful
	live := map[string]string{} // fold -> exact
	heldN := 0
	anyName := func() string {
		if r.Chance(1, 12) {
			return "other"
		}
		return hx.Pick(r, variants)
	}
	for len(ops) < n {
		switch k := r.Intn(10); {
		case k < 3 || (len(live) == 0 && heldN == 0):
			name := anyName()
			ops = append(ops, op{"create", name})
			if _, ok := live[strings.ToLower(name)]; !ok {
				live[strings.ToLower(name)] = name
			}
		case k < 6:
			name := anyName()
			if len(live) > 0 && r.Chance(4, 5) {
				for f := range live {
					name = f
					break
				}
				if name != "other" {
					name = hx.Pick(r, variants) // any spelling drops it
				}
			}
			ops = append(ops, op{"drop", name})
			if _, ok := live[strings.ToLower(name)]; ok {
				heldN++
				delete(live, strings.ToLower(name))
			}
		case k < 9:
			name := anyName()
			if heldN > 0 && r.Chance(1, 3) {
				name = fmt.Sprintf("@%d", r.Intn(heldN+1))
			}
			ops = append(ops, op{"undrop", name})
			if heldN > 0 {
				if _, ok := live[strings.ToLower(name)]; !ok && name[0] != '@' {
					heldN--
					live[strings.ToLower(name)] = name
				}
			}
		default:
			if heldN > 0 || r.Chance(1, 3) {
				ops = append(ops, op{"purge", ""})
				heldN = 0
			}
		}
	}
	return kase{ops}
}

func main() {
	e := hx.Init("undrop", "C47")
	defer e.Finish()
	m := e.MustModel()
	defer m.Close()
	e.Rep.Rule = "sequences of 2-6 CREATE DATABASE / DROP DATABASE / CALL dolt_undrop / CALL dolt_purge_dropped_databases over the names dbx, DBX, Dbx (case variants), 'other', and fixed scenarios (re-drop of the same name, undrop of a .backup copy, undrop blocked by a live database, purge in between); every database has 3-4 tables, 2 branches, a tag, staged + unstaged + untracked working-set changes; one evaluation = one statement; non-trivial = contains an undrop; distinct by op sequence"
	w := &world{e: e, m: m}
	defer w.closeEng()
	if e.Replay != "" {
		rf, err := hx.LoadReplay(e.Replay)
		if err != nil {
			panic(err)
		}
		var c kase
		if err := json.Unmarshal(rf.Case, &c); err != nil {
			panic(err)
		}
		runCase(e, m, w, c)
		return
	}
	for _, raw := range e.CorpusCases() {
		var c kase
		if json.Unmarshal(raw, &c) == nil && len(c.Ops) > 0 {
			runCase(e, m, w, c)
		}
	}
	fixed := []kase{
		// the former counterexample of undrop_exact_name (also corpus/C47/wrong-case-copy.json)
		{[]op{{"create", "dbx"}, {"drop", "dbx"}, {"create", "DBX"}, {"drop", "DBX"}, {"undrop", "dbx"}}},
		// re-drop of the same name: the first copy is renamed, both can be restored
		{[]op{{"create", "dbx"}, {"drop", "dbx"}, {"create", "dbx"}, {"drop", "dbx"}, {"undrop", "dbx"}, {"undrop", "@0"}}},
		{[]op{{"create", "dbx"}, {"drop", "DBX"}, {"undrop", "Dbx"}, {"drop", "dbx"}, {"purge", ""}, {"undrop", "dbx"}}},
		{[]op{{"create", "dbx"}, {"drop", "dbx"}, {"create", "Dbx"}, {"undrop", "dbx"}, {"drop", "Dbx"}, {"undrop", "dbx"}}},
		{[]op{{"undrop", "dbx"}, {"purge", ""}, {"drop", "dbx"}, {"create", "dbx"}, {"create", "DBX"}}},
		// fold-only request with two candidates: the first in byte order (DBX) comes back, then the exact one
		{[]op{{"create", "Dbx"}, {"drop", "Dbx"}, {"create", "DBX"}, {"drop", "DBX"}, {"undrop", "dbx"}, {"undrop", "Dbx"}}},
	}
	for _, c := range fixed {
		runCase(e, m, w, c)
	}
	n := e.N(40, 600)
	deadline := time.Now().Add(time.Duration(e.N(50, 420)) * time.Second)
	for i := 0; i < n && time.Now().Before(deadline); i++ {
		runCase(e, m, w, genCase(e.Rng, w))
	}
}
