// prollyshape: correspondence + property oracle for C12 (tree shape and root hash depend only on
// content).
//
//   - test-splitter mode: a deterministic boundary oracle is injected through
//     tree.defaultSplitterFactory; the Lean model (Driver/ProllyShape.lean) runs the same build /
//     ApplyMutations histories on its abstract chunker and predicts the complete node structure
//     (item counts per node per level, stored subtree counts, stored last keys); compared after
//     every step.
//   - both modes (test splitter and the production keySplitter): the property's own predicate on
//     the implementation, independent of the model: all histories of a case that end in the same
//     content must end in the same root hash (and every tree must hold the content it should).
package main

import (
	"context"
	"encoding/json"
	"fmt"
	"os"
	"sort"
	"time"

	"github.com/dolthub/dolt/go/store/prolly"

	"verif/harness/internal/hx"
	"verif/harness/internal/px"
)

type step struct {
	Op    string    `json:"op"` // build | mut
	Src   int       `json:"src,omitempty"`
	Dst   int       `json:"dst"`
	Items []px.KV   `json:"items,omitempty"`
	Edits []px.Edit `json:"edits,omitempty"`
}

type kase struct {
	Real  bool      `json:"real"` // production splitter (hash oracle only)
	P     px.Params `json:"p"`
	Steps []step    `json:"steps"`
}

// ---------------------------------------------------------------- generator

type gen struct {
	r      *hx.Rng
	nextId uint64
	real   bool
	giant  bool
}

func (g *gen) val() px.V {
	g.nextId++
	r := g.r
	l := r.Range(8, 40)
	switch {
	case r.Chance(1, 20):
		l = r.Range(200, 3000)
	case g.giant && r.Chance(1, 25):
		if g.real {
			l = r.Range(45000, 65400)
		} else {
			l = r.Range(65250, 65480)
		}
	}
	if g.real && !r.Chance(1, 6) {
		l += r.Range(60, 400) // a few KB per chunk: several leaves with a few hundred keys
	}
	return px.V{Len: l, Id: g.nextId}
}

var alphabet = []string{"", "a", "b", "aa", "ab", "a\x00", "b\xff", "zz", "m", "ma"}

func (g *gen) key(space int) px.K {
	r := g.r
	s := hx.Pick(r, alphabet)
	if r.Chance(1, 12) {
		s += string(r.Bytes(r.Range(1, 6)))
	}
	if r.Chance(1, 40) {
		s += string(make([]byte, r.Range(100, 900))) // long key: size-driven boundaries at internal levels too
	}
	return px.K{N: uint32(r.Intn(space)), S: s}
}

func (g *gen) content(n int) []px.KV {
	m := map[px.K]px.V{}
	space := n/3 + 2
	for len(m) < n {
		m[g.key(space)] = g.val()
	}
	out := make([]px.KV, 0, n)
	for k, v := range m {
		out = append(out, px.KV{K: k, V: v})
	}
	px.SortKVs(out)
	return out
}

// diff returns the edits turning a into b.
func diff(a, b []px.KV) []px.Edit {
	am := map[px.K]px.V{}
	for _, kv := range a {
		am[kv.K] = kv.V
	}
	bm := map[px.K]px.V{}
	var es []px.Edit
	for _, kv := range b {
		bm[kv.K] = kv.V
		if v, ok := am[kv.K]; !ok || v != kv.V {
			es = append(es, px.Edit{K: kv.K, V: kv.V})
		}
	}
	for _, kv := range a {
		if _, ok := bm[kv.K]; !ok {
			es = append(es, px.Edit{K: kv.K, Del: true})
		}
	}
	px.SortEdits(es)
	return es
}

// perturb makes a different content sharing most of f.
func (g *gen) perturb(f []px.KV) []px.KV {
	r := g.r
	var es []px.Edit
	n := len(f)
	switch r.Intn(6) {
	case 5: // grow hard: the ancestor is much larger (and taller); the edits shrink the tree's height
		for i := 3*n + 10; i > 0; i-- {
			es = append(es, px.Edit{K: g.key(n + 5), V: g.val()})
		}
	case 0: // delete a contiguous run (whole chunks disappear)
		if n > 0 {
			a := r.Intn(n)
			b := a + r.Range(1, n/3+1)
			for i := a; i < b && i < n; i++ {
				es = append(es, px.Edit{K: f[i].K, Del: true})
			}
		}
	case 1: // insert a run of new keys
		for i := r.Range(1, n/4+2); i > 0; i-- {
			es = append(es, px.Edit{K: g.key(n/3 + 2), V: g.val()})
		}
	case 2: // shrink hard (height changes)
		for i := range f {
			if !r.Chance(1, 8) {
				es = append(es, px.Edit{K: f[i].K, Del: true})
			}
		}
	default:
		for i := r.Range(1, n/5+2); i > 0; i-- {
			switch r.Intn(3) {
			case 0:
				if n > 0 {
					es = append(es, px.Edit{K: f[r.Intn(n)].K, Del: true})
				}
			case 1:
				if n > 0 {
					es = append(es, px.Edit{K: f[r.Intn(n)].K, V: g.val()})
				}
			default:
				es = append(es, px.Edit{K: g.key(n/3 + 2), V: g.val()})
			}
		}
	}
	return px.Apply(f, es)
}

// batches splits edits (one per key) into sorted batches; with no-ops sprinkled in.
func (g *gen) batches(es []px.Edit, cur []px.KV, maxBatches int) [][]px.Edit {
	r := g.r
	es = append([]px.Edit(nil), es...)
	for i := len(es) - 1; i > 0; i-- { // shuffle
		j := r.Intn(i + 1)
		es[i], es[j] = es[j], es[i]
	}
	nb := 1
	if maxBatches > 1 && len(es) > 1 {
		nb = r.Range(1, maxBatches)
		if r.Chance(1, 6) {
			nb = len(es) // batch size 1
		}
	}
	out := make([][]px.Edit, nb)
	for i, e := range es {
		b := i % nb
		if nb > 1 && r.Chance(1, 3) {
			b = r.Intn(nb)
		}
		out[b] = append(out[b], e)
	}
	var res [][]px.Edit
	for _, b := range out {
		if len(b) == 0 {
			continue
		}
		px.SortEdits(b)
		res = append(res, b)
	}
	return res
}

func (g *gen) kase(real bool) kase {
	r := g.r
	g.real = real
	g.giant = r.Chance(1, 6)
	k := kase{Real: real}
	k.P = px.Params{MinSz: r.Range(8, 70), MaxSz: 0, Mod: r.Range(2, 9), K: r.Range(0, 7)}
	k.P.MaxSz = k.P.MinSz + r.Range(20, 400)
	n := hx.Pick(r, []int{0, 1, 2, 5, 12, 30, 60, 120, 200, 300})
	if real {
		n = hx.Pick(r, []int{3, 40, 150, 400, 800})
	}
	f := g.content(n)
	slot := 0
	newSlot := func() int { slot++; return slot }
	k.Steps = append(k.Steps, step{Op: "build", Dst: 0, Items: f})
	nh := r.Range(2, 5)
	for h := 0; h < nh; h++ {
		switch r.Intn(5) {
		case 0, 1: // different ancestor, then edits in one or several batches
			b := g.perturb(f)
			s := newSlot()
			k.Steps = append(k.Steps, step{Op: "build", Dst: s, Items: b})
			cur := b
			for _, batch := range g.batches(diff(b, f), cur, hx.Pick(r, []int{1, 1, 3, 8})) {
				if r.Chance(1, 3) { // no-op edits mixed in
					if len(cur) > 0 {
						kv := cur[r.Intn(len(cur))]
						batch = addIfAbsent(batch, px.Edit{K: kv.K, V: kv.V}, cur, false)
					}
					batch = addIfAbsent(batch, px.Edit{K: g.key(n/3 + 2), Del: true}, cur, true)
				}
				d := newSlot()
				k.Steps = append(k.Steps, step{Op: "mut", Src: s, Dst: d, Edits: batch})
				cur = px.Apply(cur, batch)
				s = d
			}
		case 2: // from empty, random insertion order
			s := newSlot()
			k.Steps = append(k.Steps, step{Op: "build", Dst: s})
			for _, batch := range g.batches(diff(nil, f), nil, hx.Pick(r, []int{2, 5, 12})) {
				d := newSlot()
				k.Steps = append(k.Steps, step{Op: "mut", Src: s, Dst: d, Edits: batch})
				s = d
			}
		case 3: // delete then re-insert, starting from an existing tree of content f
			b := g.perturb(f)
			s := 0
			d := newSlot()
			k.Steps = append(k.Steps, step{Op: "mut", Src: s, Dst: d, Edits: diff(f, b)})
			s = d
			for _, batch := range g.batches(diff(b, f), b, 3) {
				d := newSlot()
				k.Steps = append(k.Steps, step{Op: "mut", Src: s, Dst: d, Edits: batch})
				s = d
			}
		default: // two detours chained
			b1 := g.perturb(f)
			b2 := g.perturb(b1)
			s := newSlot()
			k.Steps = append(k.Steps, step{Op: "build", Dst: s, Items: b2})
			d := newSlot()
			k.Steps = append(k.Steps, step{Op: "mut", Src: s, Dst: d, Edits: diff(b2, b1)})
			d2 := newSlot()
			k.Steps = append(k.Steps, step{Op: "mut", Src: d, Dst: d2, Edits: diff(b1, f)})
		}
	}
	return k
}

// addIfAbsent adds a no-op edit unless the batch already edits that key (wantAbsent: the key
// must not be present in cur).
func addIfAbsent(batch []px.Edit, e px.Edit, cur []px.KV, wantAbsent bool) []px.Edit {
	for _, b := range batch {
		if b.K == e.K {
			return batch
		}
	}
	present := false
	for _, kv := range cur {
		if kv.K == e.K {
			present = true
		}
	}
	if present == wantAbsent {
		return batch
	}
	batch = append(batch, e)
	px.SortEdits(batch)
	return batch
}

// ---------------------------------------------------------------- run

func contentKey(kvs []px.KV) string {
	b, _ := json.Marshal(kvs)
	return string(b)
}

// runCase runs one case under a watchdog: a case normally takes milliseconds; one that does not
// come back (a livelock inside the implementation, e.g. a cursor that never reaches its stop)
// is reported as a violation with the case as replay instead of a harness timeout.
func runCase(e *hx.Env, m *hx.Model, k kase) {
	done := make(chan struct{})
	go func() {
		defer close(done)
		runCase0(e, m, k)
	}()
	select {
	case <-done:
	case <-time.After(180 * time.Second):
		e.Rep.Violate("prollyshape/hang", "the case did not terminate within 180 s (the implementation loops)", k)
		e.Finish()
		os.Exit(0)
	}
}

func runCase0(e *hx.Env, m *hx.Model, k kase) {
	ctx := context.Background()
	restore := func() {}
	if !k.Real {
		restore = px.Install(k.P)
	}
	defer restore()
	ns := px.NewNS()
	if !k.Real {
		if r := m.Ask(k.P.Wire()); r != "ok" {
			e.Rep.Disagree(k, "ok", r, "cfg")
			return
		}
	}
	maps := map[int]prolly.Map{}
	truth := map[int][]px.KV{}
	maxLevel, muts := 0, 0
	for si, st := range k.Steps {
		var line string
		var want []px.KV
		implShape := hx.Recover(func() string {
			var mp prolly.Map
			var err error
			switch st.Op {
			case "build":
				want = st.Items
				line = fmt.Sprintf("build %d %s", st.Dst, px.WireItems(ns, st.Items))
				mp, err = px.Build(ctx, ns, st.Items)
			case "mut":
				muts++
				src, ok := maps[st.Src]
				if !ok {
					return "err no-slot"
				}
				want = px.Apply(truth[st.Src], st.Edits)
				line = fmt.Sprintf("mut %d %d %s", st.Src, st.Dst, px.WireEdits(ns, st.Edits))
				mp, err = px.Mutate(ctx, src, st.Edits)
			default:
				return "bad-op"
			}
			if err != nil {
				return "err other: " + err.Error()
			}
			maps[st.Dst] = mp
			truth[st.Dst] = want
			if l := mp.Node().Level(); l > maxLevel {
				maxLevel = l
			}
			sh, err := px.Shape(ctx, ns, mp.Node())
			if err != nil {
				return "err shape: " + err.Error()
			}
			return sh
		})
		panicMsg := ""
		if len(implShape) >= 5 && implShape[:5] == "panic" {
			panicMsg = trunc(implShape)
			implShape = "err panic"
			e.Rep.Hit("impl-panic")
		}
		if mp, ok := maps[st.Dst]; ok && implShape[:2] == "ok" {
			// the tree must hold the content it should (sanity part of the oracle)
			got, _ := px.Content(ctx, mp)
			if !px.EqualContent(got, want) {
				e.Rep.Violate("prollyshape/content/"+st.Op, fmt.Sprintf("step %d (%s): tree content differs from the edits applied to a sorted map (%d vs %d entries)", si, st.Op, len(got), len(want)), k)
				return
			}
			if c, _ := mp.Count(); c != len(want) {
				e.Rep.Violate("prollyshape/count/"+st.Op, fmt.Sprintf("step %d: Count()=%d, content has %d", si, c, len(want)), k)
				return
			}
		}
		if !k.Real {
			mod := m.Ask(line)
			if mod != implShape {
				e.Rep.Disagree(map[string]any{"case": k, "step": si}, trunc(implShape), trunc(mod), "node structure after step "+panicMsg)
				// keep going: the hash oracle below decides whether the implementation is at fault
				if mod[:2] != "ok" || implShape[:2] != "ok" {
					return
				}
			}
		}
		if implShape[:2] != "ok" {
			return
		}
	}
	// ---- property oracle on the implementation: equal content => equal root hash
	type grp struct {
		slot int
		hash string
	}
	groups := map[string]grp{}
	slots := make([]int, 0, len(maps))
	for s := range maps {
		slots = append(slots, s)
	}
	sort.Ints(slots)
	for _, s := range slots {
		ck := contentKey(truth[s])
		h := maps[s].HashOf().String()
		if g, ok := groups[ck]; ok {
			if g.hash != h {
				e.Rep.Violate("prollyshape/history-dependent/"+shapeKey(k), fmt.Sprintf("slots %d and %d hold the same %d entries but root hashes differ: %s vs %s", g.slot, s, len(truth[s]), g.hash, h), k)
				return
			}
		} else {
			groups[ck] = grp{s, h}
		}
	}
	e.Rep.TracesValidated++
	e.Rep.Hit("mode:" + mode(k))
	e.Rep.Hit(fmt.Sprintf("rootlevel:%d", maxLevel))
	b, _ := json.Marshal(k)
	e.Rep.Count(string(b), muts >= 2 && maxLevel >= 1)
	if maxLevel >= 2 {
		e.Rep.Sample(map[string]any{"mode": mode(k), "steps": len(k.Steps), "p": k.P, "rootlevel": maxLevel})
	}
}

// shapeKey is the input-shape part of the violation key: a case that contains a pair heavy
// enough to be cut off by the node capacity rule (known finding, see design/C12.md) is keyed
// apart from every other history dependence.
func shapeKey(k kase) string {
	for _, st := range k.Steps {
		for _, kv := range st.Items {
			if kv.V.Len >= 40000 {
				return "giant-item"
			}
		}
		for _, ed := range st.Edits {
			if !ed.Del && ed.V.Len >= 40000 {
				return "giant-item"
			}
		}
	}
	return mode(k)
}

func mode(k kase) string {
	if k.Real {
		return "real-splitter"
	}
	return "test-splitter"
}

func trunc(s string) string {
	if len(s) > 600 {
		return s[:600] + "…"
	}
	return s
}

func main() {
	e := hx.Init("prollyshape", "C12")
	defer e.Finish()
	e.Rep.Rule = "a case = one final content + 2..5 construction histories ending in it (bulk build; other ancestor + one/many sorted batches incl. batch size 1 and no-op edits; from empty in random order; delete-then-reinsert; chained detours), keys colliding in the first field / adjacent strings / long keys, values small, KB-sized or near the 64 KiB node capacity; nontrivial = >= 2 ApplyMutations steps and a tree of >= 2 levels; distinct by the case"
	m := e.MustModel()
	defer m.Close()
	if e.Replay != "" {
		rf, err := hx.LoadReplay(e.Replay)
		if err != nil {
			panic(err)
		}
		var k kase
		if err := json.Unmarshal(rf.Case, &k); err != nil || len(k.Steps) == 0 {
			var w struct {
				Case kase `json:"case"`
			}
			json.Unmarshal(rf.Case, &w)
			k = w.Case
		}
		runCase(e, m, k)
		return
	}
	for _, raw := range e.CorpusCases() {
		var k kase
		if json.Unmarshal(raw, &k) == nil {
			runCase(e, m, k)
		}
	}
	g := &gen{r: e.Rng}
	n := e.N(260, 2000)
	if e.Search && !e.Thorough() {
		n = 4 * 260 // search after a broken proof/tie: a few times the quick budget per seed
	}
	for i := 0; i < n; i++ {
		runCase(e, m, g.kase(i%5 == 4))
	}
}
