// lockprocs: correspondence + property oracle for C41 (only one process can write a database
// directory).  The harness re-executes itself as 3 real worker processes over one database
// directory and drives them through seeded schedules of open (fail-fast or not) / write / close;
// the oracle counts Exclusive holders at every point, checks what a second opener gets while the
// lock is held, and hashes every file of the directory around read-only sessions — over journals
// with torn tails and stale / corrupt indexes prepared with the C03/C04 machinery.
package main

import (
	"bufio"
	"crypto/sha256"
	"encoding/json"
	"errors"
	"flag"
	"fmt"
	"io"
	"os"
	"os/exec"
	"path/filepath"
	"sort"
	"strings"
	"time"

	"github.com/dolthub/dolt/go/store/chunks"
	"github.com/dolthub/dolt/go/store/nbs"

	"verif/harness/internal/hx"
	"verif/harness/internal/jrnkit"
)

// ---------------------------------------------------------------- worker process

func workerMain(dir string) {
	in := bufio.NewReader(os.Stdin)
	var st *nbs.NomsBlockStore
	var release func()
	n := 0
	reply := func(s string) { fmt.Println(s) }
	for {
		line, err := in.ReadString('\n')
		if err != nil {
			if st != nil {
				st.Close()
			}
			return
		}
		f := strings.Fields(line)
		if len(f) == 0 {
			continue
		}
		switch f[0] {
		case "dir": // switch to another database directory (no session may be open)
			if st != nil {
				st.Close()
				st = nil
			}
			if release != nil {
				release()
				release = nil
			}
			dir = f[1]
			reply("ok")
		case "open":
			if st != nil {
				reply("already")
				continue
			}
			s, err := jrnkit.Open(dir, jrnkit.StoreOpts{FailFast: f[1] == "1"})
			if err != nil {
				switch {
				case errors.Is(err, nbs.ErrDatabaseLocked):
					reply("locked")
				case errors.Is(err, nbs.ErrJournalDataLoss):
					reply("dataloss")
				default:
					reply("err:" + strings.ReplaceAll(err.Error(), "\n", " "))
				}
				continue
			}
			st = s
			if st.AccessMode() == chunks.ExclusiveAccessMode_Exclusive {
				reply("exclusive")
			} else {
				reply("readonly")
			}
		case "commit":
			if st == nil {
				reply("no-session")
				continue
			}
			n++
			reply(doWrite(st, fmt.Sprintf("w%d-%d-%s", os.Getpid(), n, f[1])))
		case "read":
			if st == nil {
				reply("no-session")
				continue
			}
			if err := st.Rebase(jrnkit.Ctx); err != nil {
				reply("err:" + err.Error())
				continue
			}
			r, err := st.Root(jrnkit.Ctx)
			if err != nil {
				reply("err:" + err.Error())
				continue
			}
			ok := "root-readable"
			if !r.IsEmpty() {
				c, gerr := st.Get(jrnkit.Ctx, r)
				if gerr != nil || c.IsEmpty() {
					ok = "root-unreadable"
				}
			}
			reply("ok " + r.String() + " " + ok)
		case "close":
			if st == nil {
				reply("no-session")
				continue
			}
			err := st.Close()
			st = nil
			if err != nil {
				reply("err:" + strings.ReplaceAll(err.Error(), "\n", " "))
			} else {
				reply("closed")
			}
		case "lockonly": // hold the directory lock without opening the store
			mode, rel, err := nbs.VerifJrnLock(dir, 0, false)
			if err != nil || mode != chunks.ExclusiveAccessMode_Exclusive {
				reply(fmt.Sprintf("nolock %v", err))
				continue
			}
			release = rel
			reply("locked-by-me")
		case "unlock":
			if release != nil {
				release()
				release = nil
			}
			reply("unlocked")
		case "quit":
			if st != nil {
				st.Close()
			}
			reply("bye")
			return
		}
	}
}

func doWrite(st *nbs.NomsBlockStore, tag string) string {
	last, err := st.Root(jrnkit.Ctx)
	if err != nil {
		return "err:" + err.Error()
	}
	c := chunks.NewChunk([]byte("root written by " + tag + " over " + last.String()))
	if err := st.Put(jrnkit.Ctx, c, jrnkit.NoRefs); err != nil {
		if strings.Contains(err.Error(), "read only") || strings.Contains(err.Error(), "read-only") || strings.Contains(err.Error(), "readonly") {
			return "readonly-err"
		}
		return "err:" + strings.ReplaceAll(err.Error(), "\n", " ")
	}
	ok, err := st.Commit(jrnkit.Ctx, c.Hash(), last)
	if err != nil {
		s := strings.ToLower(err.Error())
		if strings.Contains(s, "read only") || strings.Contains(s, "read-only") || strings.Contains(s, "readonly") {
			return "readonly-err"
		}
		return "err:" + strings.ReplaceAll(err.Error(), "\n", " ")
	}
	if !ok {
		return "commit-lost"
	}
	return "wrote " + c.Hash().String()
}

// ---------------------------------------------------------------- parent

type proc struct {
	cmd  *exec.Cmd
	in   io.WriteCloser
	out  *bufio.Reader
	mode string // "" | exclusive | readonly
	dead bool
}

func (p *proc) ask(s string) string {
	if p.dead {
		return "worker-dead"
	}
	fmt.Fprintln(p.in, s)
	ch := make(chan string, 1)
	go func() {
		l, err := p.out.ReadString('\n')
		if err != nil {
			ch <- "worker-dead"
			return
		}
		ch <- strings.TrimSpace(l)
	}()
	select {
	case r := <-ch:
		if r == "worker-dead" {
			p.dead = true
		}
		return r
	case <-time.After(30 * time.Second):
		p.dead = true
		p.cmd.Process.Kill()
		return "worker-timeout"
	}
}

func startProc(dir string) *proc {
	exe, _ := os.Executable()
	c := exec.Command(exe, "-worker", "-workdir", dir)
	c.Stderr = os.Stderr
	in, _ := c.StdinPipe()
	out, _ := c.StdoutPipe()
	if err := c.Start(); err != nil {
		panic(err)
	}
	return &proc{cmd: c, in: in, out: bufio.NewReader(out)}
}

func (p *proc) stop() {
	p.ask("quit")
	p.in.Close()
	p.cmd.Wait()
}

type act struct {
	P  int    `json:"p"`
	Op string `json:"op"` // open0 open1 commit close read
}

type kase struct {
	Kind  string `json:"kind"` // schedule | readonly
	Sched []act  `json:"sched,omitempty"`
	Prep  string `json:"prep,omitempty"` // readonly scenario: how the directory was prepared
	Seed  uint64 `json:"seed,omitempty"`
}

var e *hx.Env
var m *hx.Model
var fastDir string

func hashDir(dir string) map[string]string {
	out := map[string]string{}
	filepath.Walk(dir, func(p string, info os.FileInfo, err error) error {
		if err != nil || info.IsDir() {
			return nil
		}
		b, _ := os.ReadFile(p)
		s := sha256.Sum256(b)
		rel, _ := filepath.Rel(dir, p)
		out[rel] = fmt.Sprintf("%x", s[:])
		return nil
	})
	return out
}

func diffHashes(a, b map[string]string) string {
	var d []string
	for k, v := range a {
		if k == "LOCK" {
			continue
		}
		if w, ok := b[k]; !ok {
			d = append(d, k+" removed")
		} else if w != v {
			d = append(d, k+" modified")
		}
	}
	for k := range b {
		if _, ok := a[k]; !ok && k != "LOCK" {
			d = append(d, k+" created")
		}
	}
	sort.Strings(d)
	return strings.Join(d, ", ")
}

var pool []*proc

func workers(dir string) []*proc {
	for i := range pool {
		if pool[i].dead {
			pool[i].cmd.Process.Kill()
			pool[i] = startProc(dir)
		}
	}
	for len(pool) < 3 {
		pool = append(pool, startProc(dir))
	}
	for _, p := range pool {
		p.mode = ""
		if r := p.ask("dir " + dir); r != "ok" {
			p.dead = true
		}
	}
	return pool
}

func runSchedule(sched []act, n int) {
	kc := kase{Kind: "schedule", Sched: sched}
	dir := filepath.Join(fastDir, fmt.Sprintf("s%d", n))
	os.RemoveAll(dir)
	os.MkdirAll(dir, 0o755)
	defer os.RemoveAll(dir)
	// a database must exist before a read-only opener can do anything useful
	if _, err := jrnkit.Build(dir, jrnkit.History{B: 0, Commits: []jrnkit.CommitSpec{{Chunks: []jrnkit.ChunkSpec{{Kind: "rand", Size: 50, Id: uint64(n) + 1}}}}}); err != nil {
		panic(err)
	}
	procs := workers(dir)
	defer func() {
		for _, p := range procs {
			p.ask("dir /nonexistent")
		}
	}()
	m.Ask("lk reset")
	canon, _ := json.Marshal(kc)
	contended := false
	for i, a := range sched {
		p := procs[a.P]
		var impl, model string
		holder := -1
		for j, q := range procs {
			if q.mode == "exclusive" {
				holder = j
			}
		}
		switch a.Op {
		case "open0", "open1":
			ff := a.Op[4:]
			fresh := p.mode == ""
			impl = p.ask("open " + ff)
			if impl == "already" {
				impl = p.mode
			}
			model = m.Ask(fmt.Sprintf("lk open %d %s", a.P, ff))
			if impl == "exclusive" || impl == "readonly" {
				if p.mode == "" {
					p.mode = impl
				}
			}
			// property: while another process holds the directory for writing, an opener either fails
			// fast (when asked to) or gets read-only
			if holder >= 0 && holder != a.P && fresh {
				contended = true
				e.Rep.Hit("open-while-held:" + impl)
				want := "readonly"
				if ff == "1" {
					want = "locked"
				}
				if impl != want {
					e.Rep.Violate("lock-second-opener/"+a.Op, fmt.Sprintf("step %d: process %d opened while process %d holds the database for writing and got %q (want %q)", i, a.P, holder, impl, want), kc)
				}
			}
		case "commit":
			impl = p.ask("commit x")
			if strings.HasPrefix(impl, "wrote") {
				impl = "wrote"
			}
			model = m.Ask(fmt.Sprintf("lk write %d", a.P))
			if impl == "wrote" && p.mode != "exclusive" {
				e.Rep.Violate("lock-write-without-exclusive", fmt.Sprintf("step %d: process %d (mode %q) committed", i, a.P, p.mode), kc)
			}
			if p.mode == "readonly" {
				e.Rep.Hit("readonly-commit:" + strings.SplitN(impl, ":", 2)[0])
			}
		case "close":
			impl = p.ask("close")
			model = m.Ask(fmt.Sprintf("lk close %d", a.P))
			if impl == "closed" {
				p.mode = ""
			}
		case "read":
			impl = p.ask("read")
			if strings.Contains(impl, "root-unreadable") {
				e.Rep.Violate("lock-reader-root-unreadable", fmt.Sprintf("step %d: process %d sees a root whose chunk it cannot read: %s", i, a.P, impl), kc)
			}
			continue
		}
		e.Rep.Hit("answer:" + strings.SplitN(impl, ":", 2)[0])
		// property: at every point at most one process is in Exclusive mode
		ex := 0
		for _, q := range procs {
			if q.mode == "exclusive" {
				ex++
			}
		}
		if ex > 1 {
			e.Rep.Violate("lock-two-writers", fmt.Sprintf("step %d: %d processes hold the directory in Exclusive mode", i, ex), kc)
		}
		if impl != model {
			e.Rep.Disagree(kc, fmt.Sprintf("step %d %+v: %s", i, a, impl), model, "lock protocol")
		}
	}
	e.Rep.Count(string(canon), contended)
	if len(e.Rep.Samples) < 3 {
		e.Rep.Sample(kc)
	}
}

// read-only session over a prepared directory: hashes of every file before/after
func runReadOnly(prep string, seed uint64, n int) {
	kc := kase{Kind: "readonly", Prep: prep, Seed: seed}
	r := hx.NewRng(seed)
	root := filepath.Join(fastDir, fmt.Sprintf("r%d", n))
	os.RemoveAll(root)
	defer os.RemoveAll(root)
	h := jrnkit.History{B: 0, MaxNovel: 2}
	id := seed % 1000000 * 1000
	for c := 0; c < 4; c++ {
		cs := jrnkit.CommitSpec{}
		for i := 0; i < r.Range(1, 4); i++ {
			id++
			cs.Chunks = append(cs.Chunks, jrnkit.ChunkSpec{Kind: hx.Pick(r, []string{"rand", "rep"}), Size: r.Range(10, 300), Id: id})
		}
		h.Commits = append(h.Commits, cs)
	}
	bt, err := jrnkit.Build(filepath.Join(root, "w"), h)
	if err != nil {
		panic(err)
	}
	journal, index := bt.FileClosed, bt.Index
	switch prep {
	case "clean":
	case "torn-tail":
		last := bt.Recs[len(bt.Recs)-1]
		cut := int(last.Off) + 1 + r.Intn(int(last.Len)-1)
		journal = append([]byte{}, journal[:cut]...)
		if r.Bool() {
			journal = append(journal, make([]byte, r.Intn(300))...)
		}
	case "garbage-tail":
		journal = append(append([]byte{}, journal...), r.Bytes(r.Range(1, 500))...)
	case "stale-index":
		_ = index
		// index of an earlier moment: cut at a batch boundary-ish random point
		index = index[:r.Intn(len(index)+1)]
	case "corrupt-index":
		// flip one bit in a field the index validation protects (tag, addr16, any meta field); the
		// unprotected lookup offset/length fields are C04's finding journal-index-offset-unprotected
		index = append([]byte{}, index...)
		var prot []int
		for off := 0; off < len(index); {
			if index[off] == 0 && off+29 <= len(index) {
				for i := 0; i < 17; i++ {
					prot = append(prot, off+i)
				}
				off += 29
			} else if index[off] == 1 && off+41 <= len(index) {
				for i := 0; i < 41; i++ {
					prot = append(prot, off+i)
				}
				off += 41
			} else {
				break
			}
		}
		if len(prot) > 0 {
			index[prot[r.Intn(len(prot))]] ^= 1 << uint(r.Intn(8))
		}
	case "no-index":
		index = nil
	case "torn-tail+corrupt-index":
		last := bt.Recs[len(bt.Recs)-1]
		journal = append([]byte{}, journal[:int(last.Off)+r.Intn(int(last.Len))]...)
		index = r.Bytes(r.Range(1, 100))
	}
	dir := filepath.Join(root, "d")
	if err := jrnkit.WriteImage(dir, journal, bt.ManifestClose, index); err != nil {
		panic(err)
	}
	canon, _ := json.Marshal(kc)
	e.Rep.Count(string(canon), prep != "clean")
	e.Rep.Hit("readonly-prep:" + prep)
	ws := workers(dir)
	a, b := ws[0], ws[1]
	defer func() {
		a.ask("dir /nonexistent")
		b.ask("dir /nonexistent")
	}()
	if r := a.ask("lockonly"); r != "locked-by-me" {
		e.Rep.Disagree(kc, r, "locked-by-me", "lock holder")
		return
	}
	before := hashDir(dir)
	ff := r.Chance(1, 4)
	if ff {
		if got := b.ask("open 1"); got != "locked" {
			e.Rep.Violate("lock-second-opener/open1", "fail-fast open while the lock is held returned "+got, kc)
		}
	}
	got := b.ask("open 0")
	if got != "readonly" {
		if got == "dataloss" {
			e.Rep.Hit("readonly-open:dataloss")
		} else {
			e.Rep.Violate("lock-second-opener/open0", "open while the lock is held returned "+got, kc)
		}
	} else {
		rd := b.ask("read")
		if strings.Contains(rd, "root-unreadable") || strings.HasPrefix(rd, "err") {
			e.Rep.Violate("lock-reader-root-unreadable", "read-only session: "+rd, kc)
		}
		if w := b.ask("commit x"); strings.HasPrefix(w, "wrote") || w == "commit-lost" {
			e.Rep.Violate("lock-write-without-exclusive", "a read-only session committed: "+w, kc)
		} else {
			e.Rep.Hit("readonly-commit:" + strings.SplitN(w, ":", 2)[0])
		}
		b.ask("read")
		b.ask("close")
	}
	after := hashDir(dir)
	if d := diffHashes(before, after); d != "" {
		e.Rep.Violate("readonly-session-modifies-files/"+prep, "a read-only session changed the directory: "+d, kc)
	}
	a.ask("unlock")
}

func genSchedule(r *hx.Rng) []act {
	n := r.Range(4, 12)
	var s []act
	for i := 0; i < n; i++ {
		s = append(s, act{P: r.Intn(3), Op: hx.Pick(r, []string{"open0", "open0", "open1", "commit", "commit", "close", "read"})})
	}
	return s
}

func main() {
	worker := flag.Bool("worker", false, "internal: worker process")
	workdir := flag.String("workdir", "", "internal: worker directory")
	for _, a := range os.Args[1:] {
		if a == "-worker" {
			flag.Parse()
			_ = worker
			workerMain(*workdir)
			return
		}
	}
	e = hx.Init("lockprocs", "C41")
	defer e.Finish()
	fastDir = e.Scratch
	if d, err := os.MkdirTemp("/dev/shm", "verif-lockprocs-"); err == nil && os.Getenv("VERIF_NO_SHM") == "" {
		fastDir = d
		defer os.RemoveAll(d)
	}
	m = e.MustModel()
	defer m.Close()
	defer func() {
		for _, p := range pool {
			if !p.dead {
				p.stop()
			}
		}
	}()
	e.Rep.Rule = "a case = a schedule of open(fail-fast|not)/commit/close/read over 3 real processes sharing one directory (non-trivial when some open happens while another process holds the directory for writing), or a read-only session over a prepared directory (non-trivial unless the journal and index are clean); distinct by SHA-256 of the canonical case"
	run := func(raw json.RawMessage, n int) {
		var kc kase
		if err := json.Unmarshal(raw, &kc); err != nil {
			panic(err)
		}
		if kc.Kind == "readonly" {
			runReadOnly(kc.Prep, kc.Seed, n)
		} else {
			runSchedule(kc.Sched, n)
		}
	}
	if e.Replay != "" {
		rf, err := hx.LoadReplay(e.Replay)
		if err != nil {
			panic(err)
		}
		run(rf.Case, 0)
		return
	}
	for i, c := range e.CorpusCases() {
		run(c, 1000+i)
	}
	// fixed orders: every order of {A open, B open(ff?), A commit, B commit, A close, B open} kernels
	fixed := [][]act{
		{{0, "open0"}, {1, "open0"}, {1, "commit"}, {0, "commit"}, {0, "close"}, {1, "close"}, {1, "open0"}, {1, "commit"}},
		{{0, "open0"}, {1, "open1"}, {2, "open0"}, {2, "commit"}, {0, "close"}, {1, "open1"}, {1, "commit"}, {2, "read"}},
		{{1, "open1"}, {0, "open1"}, {1, "close"}, {0, "open1"}, {1, "open0"}, {0, "commit"}, {1, "read"}},
	}
	for i, s := range fixed {
		runSchedule(s, i)
	}
	r := e.Rng.Fork()
	for i := 0; i < e.N(40, 400); i++ {
		runSchedule(genSchedule(r), 100+i)
	}
	preps := []string{"clean", "torn-tail", "garbage-tail", "stale-index", "corrupt-index", "no-index", "torn-tail+corrupt-index"}
	for i := 0; i < e.N(42, 420); i++ {
		runReadOnly(preps[i%len(preps)], r.U64(), i)
	}
}
