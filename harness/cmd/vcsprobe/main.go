// vcsprobe: scratch REPL (not a registered check): reads SQL statements (one per line) from stdin,
// runs them on a fresh in-process dolt database and prints canonical results.  Used while building
// the VcsOps model to observe the real behaviour.
package main

import (
	"bufio"
	"fmt"
	"os"
	"strings"

	"verif/harness/internal/sqleng"
)

func main() {
	dir, _ := os.MkdirTemp("/var/tmp", "verif-vcsprobe-")
	defer os.RemoveAll(dir)
	e, err := sqleng.New(dir, sqleng.Options{})
	if err != nil {
		panic(err)
	}
	defer e.Close()
	s, _ := e.NewSession()
	sc := bufio.NewScanner(os.Stdin)
	sc.Buffer(make([]byte, 1<<20), 1<<20)
	for sc.Scan() {
		q := strings.TrimSpace(sc.Text())
		if q == "" || strings.HasPrefix(q, "--") {
			if q != "" {
				fmt.Println(q)
			}
			continue
		}
		r := s.Exec(q)
		fmt.Printf("> %s\n", q)
		if r.Err != nil {
			fmt.Printf("  ERR[%s] %v\n", r.Class(), r.Err)
			continue
		}
		fmt.Printf("  cols=%v\n", r.Cols)
		for _, l := range r.Lines() {
			fmt.Printf("  %s\n", l)
		}
	}
}
