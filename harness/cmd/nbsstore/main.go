// nbsstore: C01 at the chunks.ChunkStore level.  Operation histories (put, commit, get, getmany,
// getmanycompressed, has, hasmany, iterate, count, reopen) over local table-file stores, journal
// stores and generational (old gen + new gen) stores, with real content-addressed chunks, against
// the specification map Addr -> Bytes.  Oracle (no model involved): every read returns nothing or
// bytes whose content hash is the address; present iff written; all read paths agree.
package main

import (
	"bytes"
	"context"
	"encoding/json"
	"fmt"
	"os"
	"path/filepath"

	"github.com/dolthub/dolt/go/store/chunks"
	"github.com/dolthub/dolt/go/store/constants"
	"github.com/dolthub/dolt/go/store/hash"
	"github.com/dolthub/dolt/go/store/nbs"

	"verif/harness/internal/hx"
	"verif/harness/internal/nbsx"
)

type kase struct {
	Kind string `json:"kind"` // file | journal | gen | journal-flatten | bigchunk
	Seed uint64 `json:"seed"`
	Ops  int    `json:"ops"`
	// Ghost = "nil" forces a generational store without ghost generation (store/spec), "ghost" forces one
	Ghost string `json:"ghost,omitempty"`
}

const (
	keyAlias   = "journal-addr16-alias"
	keyIterate = "journal-addr16-iterate"
	keyBigIter = "table-iterate-record-over-4mib"
	keyBigTol  = "table-tolerant-iterate-record-over-4mib"
)

var ctx = context.Background()

func noRefs(c chunks.Chunk) chunks.InsertAddrsCb {
	return func(ctx context.Context, addrs hash.HashSet, _ chunks.PendingRefExists) error { return nil }
}

type store struct {
	cs     chunks.ChunkStore
	closer func()
	reopen func() (chunks.ChunkStore, func(), error)
}

func openFile(dir string, mem uint64) (*nbs.NomsBlockStore, error) {
	return nbs.NewLocalStore(ctx, constants.FormatDoltString, dir, mem, nbs.NewUnlimitedMemQuotaProvider(), false)
}
func openJournal(dir string) (*nbs.NomsBlockStore, error) {
	return nbs.NewLocalJournalingStore(ctx, constants.FormatDoltString, dir, nbs.NewUnlimitedMemQuotaProvider(), false, nil)
}

type run struct {
	e        *hx.Env
	k        kase
	written  map[hash.Hash][]byte // acknowledged puts
	order    []hash.Hash
	dirty    bool // puts since the last commit (memtable not flushed)
	root     hash.Hash
	kind     string
	nilGhost bool
}

func (x *run) violate(key, what string) { x.e.Rep.Violate(key, what, x.k) }

// tolerantBig: TolerantIterateAllChunks (fsck) shares the iteration loop; its >4 MiB panic was repaired
// in dolt together with iterateAllChunks, so a recurrence is a plain violation.
func (x *run) tolerantBig(what string) { x.violate(keyBigTol, what) }

// readCheck: all read paths on a probe set
func (x *run) readCheck(cs chunks.ChunkStore, probes []hash.Hash, flattened bool) {
	aliasOf := func(h hash.Hash) bool {
		if !flattened {
			return false
		}
		for w := range x.written {
			if w != h && bytes.Equal(w[:16], h[:16]) {
				return true
			}
		}
		return false
	}
	bad := func(path string, h hash.Hash, what string) {
		if _, ok := x.written[h]; !ok && aliasOf(h) {
			x.e.Rep.Known(keyAlias, fmt.Sprintf("journal store %s(%s): %s — the address was never written; it shares its first 16 bytes with a stored chunk (rangeIndex.cached is keyed by addr16 after flatten)", path, nbsx.AddrHex(h), what), x.k)
			x.e.Rep.Hit("known:" + keyAlias)
			return
		}
		x.violate(x.kind+"-"+path, fmt.Sprintf("%s %s(%s): %s", x.kind, path, nbsx.AddrHex(h), what))
	}
	set := hash.HashSet{}
	for _, h := range probes {
		set.Insert(h)
		want, present := x.written[h]
		c, err := cs.Get(ctx, h)
		switch {
		case err != nil:
			bad("Get", h, "error "+err.Error())
		case c.IsEmpty() && present:
			bad("Get", h, "written chunk not returned")
		case !c.IsEmpty() && (!present || !bytes.Equal(c.Data(), want) || nbsx.ContentAddr(c.Data()) != h || c.Hash() != h):
			bad("Get", h, fmt.Sprintf("returned %d bytes whose content hash is %s (written=%v)", len(c.Data()), nbsx.AddrHex(nbsx.ContentAddr(c.Data())), present))
		}
		ok, err := cs.Has(ctx, h)
		if err != nil || ok != present {
			bad("Has", h, fmt.Sprintf("= %v, %v; written=%v", ok, err, present))
		}
	}
	absent, err := cs.HasMany(ctx, set)
	if err != nil {
		x.violate(x.kind+"-HasMany", err.Error())
	} else {
		for _, h := range probes {
			_, present := x.written[h]
			if absent.Has(h) == present {
				bad("HasMany", h, fmt.Sprintf("reported absent=%v, written=%v", absent.Has(h), present))
			}
		}
	}
	for _, compressed := range []bool{false, true} {
		got := map[hash.Hash][]byte{}
		var err error
		name := "GetMany"
		if compressed {
			name = "GetManyCompressed"
			if cc, ok := cs.(interface {
				GetManyCompressed(context.Context, hash.HashSet, func(context.Context, nbs.ToChunker)) error
			}); ok {
				mu := make(chan struct{}, 1)
				mu <- struct{}{}
				err = cc.GetManyCompressed(ctx, set.Copy(), func(_ context.Context, tc nbs.ToChunker) {
					c, e := tc.ToChunk()
					<-mu
					if e == nil {
						got[tc.Hash()] = append([]byte{}, c.Data()...)
					} else {
						got[tc.Hash()] = nil
					}
					mu <- struct{}{}
				})
			} else {
				continue
			}
		} else {
			mu := make(chan struct{}, 1)
			mu <- struct{}{}
			err = cs.GetMany(ctx, set.Copy(), func(_ context.Context, c *chunks.Chunk) {
				<-mu
				got[c.Hash()] = append([]byte{}, c.Data()...)
				mu <- struct{}{}
			})
		}
		if err != nil {
			x.violate(x.kind+"-"+name, err.Error())
			continue
		}
		for _, h := range probes {
			want, present := x.written[h]
			d, ok := got[h]
			if ok != present || (present && !bytes.Equal(d, want)) {
				bad(name, h, fmt.Sprintf("delivered=%v (%d bytes), written=%v", ok, len(d), present))
			}
		}
		for h := range got {
			if !set.Has(h) {
				x.violate(x.kind+"-"+name, "delivered an address that was not requested: "+nbsx.AddrHex(h))
			}
		}
	}
}

func (x *run) iterateCheck(cs chunks.ChunkStore, flattened bool) {
	it, ok := cs.(interface {
		IterateAllChunks(context.Context, func(chunks.Chunk)) error
	})
	if !ok || x.dirty {
		return
	}
	seen := map[hash.Hash]bool{}
	truncated := 0
	err := it.IterateAllChunks(ctx, func(c chunks.Chunk) {
		h := c.Hash()
		seen[h] = true
		want, present := x.written[h]
		if !present || !bytes.Equal(want, c.Data()) {
			ca := nbsx.ContentAddr(c.Data())
			if _, w := x.written[ca]; w && flattened && bytes.Equal(ca[:16], h[:16]) && bytes.Equal(h[16:], []byte{0, 0, 0, 0}) {
				truncated++
				seen[ca] = true
				return
			}
			x.violate(x.kind+"-iterate", fmt.Sprintf("IterateAllChunks yielded %s with %d bytes whose content hash is %s", nbsx.AddrHex(h), len(c.Data()), nbsx.AddrHex(ca)))
		}
	})
	if err != nil {
		x.violate(x.kind+"-iterate", "IterateAllChunks: "+err.Error())
		return
	}
	if truncated > 0 {
		x.e.Rep.Known(keyIterate, fmt.Sprintf("journal store IterateAllChunks reports %d chunks under addresses whose last 4 bytes are zeroed (cached ranges only keep 16 address bytes), so the reported address is not the content hash", truncated), x.k)
		x.e.Rep.Hit("known:" + keyIterate)
	}
	for h := range x.written {
		if !seen[h] {
			x.violate(x.kind+"-iterate", "IterateAllChunks skipped the committed chunk "+nbsx.AddrHex(h))
		}
	}
	if n, err := cs.(interface {
		Count(context.Context) (uint32, error)
	}).Count(ctx); err != nil || int(n) < len(x.written) {
		x.violate(x.kind+"-count", fmt.Sprintf("Count = %d, %v with %d distinct chunks committed", n, err, len(x.written)))
	}
}

func (x *run) put(cs chunks.ChunkStore, data []byte) bool {
	c := chunks.NewChunk(data)
	if err := cs.Put(ctx, c, noRefs); err != nil {
		x.violate(x.kind+"-put", "Put failed: "+err.Error())
		return false
	}
	if _, ok := x.written[c.Hash()]; !ok {
		x.order = append(x.order, c.Hash())
	}
	x.written[c.Hash()] = data
	x.dirty = true
	return true
}

func (x *run) commit(cs chunks.ChunkStore) {
	if len(x.order) == 0 {
		return
	}
	newRoot := x.order[x.e.Rng.Intn(len(x.order))]
	ok, err := cs.Commit(ctx, newRoot, x.root)
	if err != nil || !ok {
		x.violate(x.kind+"-commit", fmt.Sprintf("Commit(%s,%s) = %v, %v", newRoot, x.root, ok, err))
		return
	}
	x.root = newRoot
	x.dirty = false
}

func (x *run) probes() []hash.Hash { return nbsx.Probes(x.e.Rng, x.order, 10+len(x.order)/4) }

func (x *run) history() {
	r := x.e.Rng
	dir := filepath.Join(x.e.Scratch, fmt.Sprintf("st-%d", x.k.Seed))
	os.MkdirAll(filepath.Join(dir, "old"), 0o755)
	os.MkdirAll(filepath.Join(dir, "new"), 0o755)
	defer os.RemoveAll(dir)
	mem := uint64(hx.Pick(r, []int{8 << 10, 32 << 10, 1 << 20})) // always larger than the largest generated chunk
	x.kind = x.k.Kind
	var open func() (chunks.ChunkStore, func(), error)
	switch x.k.Kind {
	case "file":
		open = func() (chunks.ChunkStore, func(), error) {
			s, err := openFile(filepath.Join(dir, "new"), mem)
			if err != nil {
				return nil, nil, err
			}
			return s, func() { s.Close() }, nil
		}
	case "journal":
		open = func() (chunks.ChunkStore, func(), error) {
			s, err := openJournal(filepath.Join(dir, "new"))
			if err != nil {
				return nil, nil, err
			}
			return s, func() { s.Close() }, nil
		}
	case "gen":
		// old generation populated first through its own store
		og, err := openFile(filepath.Join(dir, "old"), mem)
		if err != nil {
			x.violate("open", err.Error())
			return
		}
		n := r.Range(1, 12)
		for i := 0; i < n; i++ {
			x.put(og, nbsx.GenData(r, 1000+i, 200))
		}
		x.commit(og)
		oldRoot := x.root
		og.Close()
		x.root = hash.Hash{}
		journalNew := r.Bool()
		x.nilGhost = r.Chance(1, 4) // store/spec opens generational stores without a ghost generation
		switch x.k.Ghost {
		case "nil":
			x.nilGhost = true
		case "ghost":
			x.nilGhost = false
		}
		if x.nilGhost {
			x.e.Rep.Hit("gen:nil-ghostgen")
		}
		open = func() (chunks.ChunkStore, func(), error) {
			o, err := openFile(filepath.Join(dir, "old"), mem)
			if err != nil {
				return nil, nil, err
			}
			var nw *nbs.NomsBlockStore
			if journalNew {
				nw, err = openJournal(filepath.Join(dir, "new"))
			} else {
				nw, err = openFile(filepath.Join(dir, "new"), mem)
			}
			if err != nil {
				o.Close()
				return nil, nil, err
			}
			var ghost *nbs.GhostBlockStore
			if !x.nilGhost {
				if ghost, err = nbs.NewGhostBlockStore(dir); err != nil {
					o.Close()
					nw.Close()
					return nil, nil, err
				}
			}
			g := nbs.NewGenerationalCS(o, nw, ghost)
			return g, func() { g.Close() }, nil
		}
		_ = oldRoot
	}
	cs, closer, err := open()
	if err != nil {
		x.violate("open", err.Error())
		return
	}
	defer func() { closer() }()
	if rt, err := cs.Root(ctx); err == nil {
		x.root = rt
	}
	for i := 0; i < x.k.Ops; i++ {
		switch op := r.Intn(12); {
		case op < 5:
			x.put(cs, nbsx.GenData(r, i, hx.Pick(r, []int{8, 64, 700, 5000})))
			x.e.Rep.Hit("op:put")
		case op == 5 && len(x.order) > 0: // duplicate put
			x.put(cs, x.written[x.order[r.Intn(len(x.order))]])
			x.e.Rep.Hit("op:put-duplicate")
		case op == 6:
			x.commit(cs)
			x.e.Rep.Hit("op:commit")
		case op == 7 && !x.dirty:
			closer()
			cs, closer, err = open()
			if err != nil {
				x.violate("reopen", err.Error())
				closer = func() {}
				return
			}
			if rt, err := cs.Root(ctx); err != nil || rt != x.root {
				x.violate(x.kind+"-reopen-root", fmt.Sprintf("root after reopen %s, committed %s (%v)", rt, x.root, err))
			}
			x.e.Rep.Hit("op:reopen")
		case op == 8:
			x.iterateCheck(cs, false)
			x.e.Rep.Hit("op:iterate+count")
		default:
			x.readCheck(cs, x.probes(), false)
			x.e.Rep.Hit("op:reads")
		}
	}
	x.commit(cs)
	x.readCheck(cs, x.probes(), false)
	x.iterateCheck(cs, false)
}

// journalFlatten: enough chunks in one commit to exceed journalIndexDefaultMaxNovel (16384), so that
// commitRootHash flattens the range index; then probe absent addresses that differ from stored ones
// only in bytes 17..20.
func (x *run) journalFlatten() {
	r := x.e.Rng
	x.kind = "journal"
	dir := filepath.Join(x.e.Scratch, fmt.Sprintf("jf-%d", x.k.Seed))
	os.MkdirAll(dir, 0o755)
	defer os.RemoveAll(dir)
	s, err := openJournal(dir)
	if err != nil {
		x.violate("open", err.Error())
		return
	}
	defer func() { s.Close() }()
	n := 16384 + 1 + r.Intn(50)
	for i := 0; i < n; i++ {
		x.put(s, []byte(fmt.Sprintf("flatten-%d-%d", x.k.Seed, i)))
	}
	x.commit(s)
	// present chunks still read back exactly
	var probes []hash.Hash
	for i := 0; i < 40; i++ {
		h := x.order[r.Intn(len(x.order))]
		probes = append(probes, h)
		a := h
		a[16+r.Intn(4)] ^= byte(1 + r.Intn(255)) // absent, same first 16 bytes
		probes = append(probes, a)
		b := h
		b[8+r.Intn(8)] ^= byte(1 << r.Intn(8)) // absent, differs inside the 16 bytes
		probes = append(probes, b)
	}
	x.readCheck(s, probes, true)
	x.iterateCheck(s, true)
	x.e.Rep.Hit("journal-flatten:ran")
}

// bigChunk: one incompressible chunk whose table record exceeds 4 MiB (iterateAllChunks reads into a
// fixed 4 MiB buffer).
func (x *run) bigChunk() {
	r := x.e.Rng
	x.kind = "file"
	dir := filepath.Join(x.e.Scratch, fmt.Sprintf("big-%d", x.k.Seed))
	os.MkdirAll(dir, 0o755)
	defer os.RemoveAll(dir)
	s, err := openFile(dir, 64<<20)
	if err != nil {
		x.violate("open", err.Error())
		return
	}
	defer s.Close()
	x.put(s, r.Bytes(4<<20+r.Intn(4096)+16))
	x.put(s, []byte("small"))
	x.commit(s)
	x.readCheck(s, x.probes(), false)
	res := hx.Recover(func() string { x.iterateCheck(s, false); return "" })
	if res != "" {
		// repaired in dolt (fix: iterateAllChunks grows its buffer); a plain violation if it comes back
		x.violate(keyBigIter, "IterateAllChunks on a table file holding a record larger than 4 MiB panics ("+res+")")
	}
	// the fsck iterator shares the loop
	seen := 0
	res = hx.Recover(func() string {
		return fmt.Sprint(s.TolerantIterateAllChunks(ctx, func(c chunks.Chunk) {
			if want, ok := x.written[c.Hash()]; ok && bytes.Equal(want, c.Data()) {
				seen++
			}
		}, func(f string, err error) { seen = -1000 }))
	})
	if res != "<nil>" || seen != len(x.written) {
		x.tolerantBig(fmt.Sprintf("TolerantIterateAllChunks on a table file holding a record larger than 4 MiB: %s, %d of %d chunks delivered intact", res, seen, len(x.written)))
	}
	x.e.Rep.Hit("bigchunk:ran")
}

func runOne(e *hx.Env, k kase) {
	x := &run{e: e, k: k, written: map[hash.Hash][]byte{}}
	e.Rng = hx.NewRng(k.Seed)
	e.Rep.Count(fmt.Sprintf("%s %d %d", k.Kind, k.Seed, k.Ops), true)
	e.Rep.Hit("kind:" + k.Kind)
	if s := hx.Recover(func() string {
		switch k.Kind {
		case "journal-flatten":
			x.journalFlatten()
		case "bigchunk":
			x.bigChunk()
		default:
			x.history()
		}
		return ""
	}); s != "" {
		e.Rep.Violate("panic-"+k.Kind, "real code panicked: "+s, k)
	}
	e.Rep.TracesValidated++
}

func main() {
	e := hx.Init("nbsstore", "C01")
	defer e.Finish()
	e.Rep.Rule = "operation histories (put / duplicate put / commit / reopen / get+has+hasmany+getmany+getmanycompressed on present addresses and absent one-bit/last-4-byte/prefix±1 neighbours / iterate+count) over file, journal and generational stores with memtable sizes 1 KiB..1 MiB; one journal history per run large enough to flatten the range index; one >4 MiB record; every history counts as nontrivial (≥1 flush or read of an absent neighbour); distinct by (kind, seed, ops)"
	master := e.Rng
	if e.Replay != "" {
		rf, err := hx.LoadReplay(e.Replay)
		if err != nil {
			panic(err)
		}
		var k kase
		json.Unmarshal(rf.Case, &k)
		runOne(e, k)
		return
	}
	for _, raw := range e.CorpusCases() {
		var k kase
		if json.Unmarshal(raw, &k) == nil && (k.Kind == "file" || k.Kind == "journal" || k.Kind == "gen" || k.Kind == "journal-flatten" || k.Kind == "bigchunk") {
			runOne(e, k)
		}
	}
	runOne(e, kase{Kind: "journal-flatten", Seed: master.U64()})
	runOne(e, kase{Kind: "bigchunk", Seed: master.U64()})
	n := e.N(60, 2500)
	for i := 0; i < n; i++ {
		runOne(e, kase{Kind: hx.Pick(master, []string{"file", "file", "journal", "journal", "gen"}), Seed: master.U64(), Ops: hx.Pick(master, []int{5, 15, 40})})
	}
	e.Rng = master
}
