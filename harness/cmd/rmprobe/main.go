// rmprobe: scratch SQL script runner over sqleng (not a registered check).
// stdin: one statement per line; lines starting with '#' are echoed.
package main

import (
	"bufio"
	"fmt"
	"os"
	"strings"

	"verif/harness/internal/sqleng"
)

func main() {
	dir, _ := os.MkdirTemp("/var/tmp", "verif-rmprobe-")
	defer os.RemoveAll(dir)
	e, err := sqleng.New(dir, sqleng.Options{})
	if err != nil {
		panic(err)
	}
	defer e.Close()
	s, _ := e.NewSession()
	sc := bufio.NewScanner(os.Stdin)
	sc.Buffer(make([]byte, 1<<20), 1<<20)
	for sc.Scan() {
		q := strings.TrimSpace(sc.Text())
		if q == "" {
			continue
		}
		if strings.HasPrefix(q, "#") {
			fmt.Println(q)
			continue
		}
		r := s.Exec(q)
		if r.Err != nil {
			fmt.Printf("> %s\n  ERR[%s] %v\n", q, r.Class(), firstLine(r.Err.Error()))
			continue
		}
		fmt.Printf("> %s\n", q)
		if len(r.Rows) > 0 {
			fmt.Printf("  %v\n", r.Cols)
			for _, row := range r.Rows {
				fmt.Printf("  %s\n", strings.Join(row, " | "))
			}
		}
	}
}

func firstLine(s string) string {
	if i := strings.Index(s, "\n"); i >= 0 {
		return s[:i]
	}
	if len(s) > 300 {
		return s[:300]
	}
	return s
}
