// walkaddrs: correspondence + property oracle for C09 (the reference walker reports every address
// an object can dereference).
//
// Per seeded case:
//  1. build a real repository through SQL / version-control procedures (wg.History) plus one
//     working set written by the real writers in which every optional field is populated with a
//     distinct object that nothing else references (wg.CraftedWorkingSet);
//  2. ORACLE 1 (graph level, on the implementation): open a second DoltDB view over a recording
//     chunk store, load *everything* through the public API (wg.Fingerprint → doltdb.newWorkingSet,
//     commit / tag / stash / root value / table / index / artifact / tuple loaders) and require
//     reads ⊆ closure of the store root under the real walker (types.WalkAddrsForNBF);
//  3. ORACLE 2 (object level, on the implementation): decode every reachable chunk with the
//     generated flatbuffer accessors, enumerate its address-typed fields (harness' own list,
//     written from the schema comments) and require each non-empty address ∈ walker(chunk);
//  4. CORRESPONDENCE: send the same field→address assignment to the Lean driver (generated tables)
//     and compare its `walk` with what the real walker reported for that chunk;
//  5. leaf tuples: build leaves with every reference encoding through the real serializers and
//     check walker vs. the address the real field reader dereferences.
//
// Omissions carry stable keys `walk-missing:<Table>.<field>`; the one still listed as a known
// finding (ExtendedAddrEnc) goes to Rep.Known, any other omission is a Violate.
package main

import (
	"context"
	"encoding/json"
	"fmt"
	"sort"
	"strings"

	flatbuffers "github.com/dolthub/flatbuffers/v23/go"
	"github.com/dolthub/go-mysql-server/sql"

	"github.com/dolthub/dolt/go/gen/fb/serial"
	"github.com/dolthub/dolt/go/libraries/doltcore/doltdb"
	"github.com/dolthub/dolt/go/store/chunks"
	"github.com/dolthub/dolt/go/store/hash"
	"github.com/dolthub/dolt/go/store/pool"
	"github.com/dolthub/dolt/go/store/prolly/message"
	"github.com/dolthub/dolt/go/store/prolly/tree"
	"github.com/dolthub/dolt/go/store/val"

	"verif/harness/internal/hx"
	"verif/harness/internal/wg"
)

// omissions that are still known findings.  (The four working-set fields of DESIGN.md §11 d were
// repaired in /repo bf9bc24: if one of them returns it is a plain violation; corpus/C09 holds the
// regression input.)
var knownMissing = map[string]bool{
	"ProllyTreeNode.value_items[ExtendedAddrEnc]": true,
}

type kase struct {
	Kind string `json:"kind"` // repo | leaf
	Seed uint64 `json:"seed"`
	Rows int    `json:"rows"`
}

type lf struct {
	Table, Field string
	Addrs        []hash.Hash
}

func split20(b []byte) []hash.Hash {
	var out []hash.Hash
	for i := 0; i+hash.ByteLen <= len(b); i += hash.ByteLen {
		out = append(out, hash.New(b[i:i+hash.ByteLen]))
	}
	return out
}

func one(b []byte) []hash.Hash {
	if len(b) != hash.ByteLen {
		return nil
	}
	return []hash.Hash{hash.New(b)}
}

// fieldsOf: the harness' own enumeration of the address-typed fields of a message (written from the
// .fbs comments: "20-byte hashes", "address of …", "Embedded AddressMap" …), independent of the walker.
func fieldsOf(msg []byte, out *[]lf) (kind string, err error) {
	defer func() {
		if p := recover(); p != nil {
			err = fmt.Errorf("decode panic: %v", p)
		}
	}()
	id := serial.GetFileID(msg)
	add := func(t, f string, a []hash.Hash) {
		if len(a) > 0 {
			*out = append(*out, lf{t, f, a})
		}
	}
	off := flatbuffers.UOffsetT(serial.MessagePrefixSz)
	switch id {
	case serial.StoreRootFileID:
		var m serial.StoreRoot
		if err = serial.InitStoreRootRoot(&m, msg, serial.MessagePrefixSz); err != nil {
			return
		}
		if m.AddressMapLength() > 0 {
			_, err = fieldsOf(m.AddressMapBytes(), out)
		}
		return "StoreRoot", err
	case serial.StashListFileID:
		var m serial.StashList
		if err = serial.InitStashListRoot(&m, msg, serial.MessagePrefixSz); err != nil {
			return
		}
		if m.AddressMapLength() > 0 {
			_, err = fieldsOf(m.AddressMapBytes(), out)
		}
		return "StashList", err
	case serial.StatisticFileID:
		var m serial.Statistic
		if err = serial.InitStatisticRoot(&m, msg, serial.MessagePrefixSz); err != nil {
			return
		}
		add("Statistic", "root", one(m.RootBytes()))
		return "Statistic", nil
	case serial.StashFileID:
		var m serial.Stash
		if err = serial.InitStashRoot(&m, msg, serial.MessagePrefixSz); err != nil {
			return
		}
		add("Stash", "stash_root_addr", one(m.StashRootAddrBytes()))
		add("Stash", "head_commit_addr", one(m.HeadCommitAddrBytes()))
		return "Stash", nil
	case serial.TagFileID:
		var m serial.Tag
		if err = serial.InitTagRoot(&m, msg, serial.MessagePrefixSz); err != nil {
			return
		}
		add("Tag", "commit_addr", one(m.CommitAddrBytes()))
		return "Tag", nil
	case serial.WorkingSetFileID:
		var m serial.WorkingSet
		if err = serial.InitWorkingSetRoot(&m, msg, serial.MessagePrefixSz); err != nil {
			return
		}
		add("WorkingSet", "working_root_addr", one(m.WorkingRootAddrBytes()))
		add("WorkingSet", "staged_root_addr", one(m.StagedRootAddrBytes()))
		ms, e := m.TryMergeState(nil)
		if e != nil {
			return "", e
		}
		if ms != nil {
			add("MergeState", "pre_working_root_addr", one(ms.PreWorkingRootAddrBytes()))
			add("MergeState", "from_commit_addr", one(ms.FromCommitAddrBytes()))
			add("MergeState", "pre_merge_head_commit_addr", one(ms.PreMergeHeadCommitAddrBytes()))
			var ps []hash.Hash
			for i := 0; i < ms.PendingCommitHashesLength(); i++ {
				if h, ok := hash.MaybeParse(string(ms.PendingCommitHashes(i))); ok {
					ps = append(ps, h)
				}
			}
			add("MergeState", "pending_commit_hashes", ps)
		}
		rs, e := m.TryRebaseState(nil)
		if e != nil {
			return "", e
		}
		if rs != nil {
			add("RebaseState", "pre_working_root_addr", one(rs.PreWorkingRootAddrBytes()))
			add("RebaseState", "onto_commit_addr", one(rs.OntoCommitAddrBytes()))
		}
		return "WorkingSet", nil
	case serial.RootValueFileID:
		var m serial.RootValue
		if err = serial.InitRootValueRoot(&m, msg, serial.MessagePrefixSz); err != nil {
			return
		}
		add("RootValue", "foreign_key_addr", one(m.ForeignKeyAddrBytes()))
		if m.TablesLength() > 0 {
			_, err = fieldsOf(m.TablesBytes(), out)
		}
		return "RootValue", err
	case serial.TableFileID:
		var m serial.Table
		if err = serial.InitTableRoot(&m, msg, serial.MessagePrefixSz); err != nil {
			return
		}
		add("Table", "schema", one(m.SchemaBytes()))
		add("Table", "violations", one(m.ViolationsBytes()))
		add("Table", "artifacts", one(m.ArtifactsBytes()))
		c, e := m.TryConflicts(nil)
		if e != nil {
			return "", e
		}
		if c != nil {
			add("Conflicts", "data", one(c.DataBytes()))
			add("Conflicts", "our_schema", one(c.OurSchemaBytes()))
			add("Conflicts", "their_schema", one(c.TheirSchemaBytes()))
			add("Conflicts", "ancestor_schema", one(c.AncestorSchemaBytes()))
		}
		if m.SecondaryIndexesLength() > 0 {
			if _, err = fieldsOf(m.SecondaryIndexesBytes(), out); err != nil {
				return
			}
		}
		if m.PrimaryIndexLength() > 0 {
			_, err = fieldsOf(m.PrimaryIndexBytes(), out)
		}
		return "Table", err
	case serial.CommitFileID:
		var m serial.Commit
		if err = serial.InitCommitRoot(&m, msg, serial.MessagePrefixSz); err != nil {
			return
		}
		add("Commit", "root", one(m.RootBytes()))
		add("Commit", "parent_addrs", split20(m.ParentAddrsBytes()))
		add("Commit", "parent_closure", one(m.ParentClosureBytes()))
		return "Commit", nil
	case serial.AddressMapFileID:
		m, e := serial.TryGetRootAsAddressMap(msg, off)
		if e != nil {
			return "", e
		}
		add("AddressMap", "address_array", split20(m.AddressArrayBytes()))
		return "AddressMap", nil
	case serial.ProllyTreeNodeFileID:
		m, e := serial.TryGetRootAsProllyTreeNode(msg, off)
		if e != nil {
			return "", e
		}
		add("ProllyTreeNode", "address_array", split20(m.AddressArrayBytes()))
		vi := m.ValueItemsBytes()
		var as []hash.Hash
		for i := 0; i < m.ValueAddressOffsetsLength(); i++ {
			o := int(m.ValueAddressOffsets(i))
			as = append(as, hash.New(vi[o:o+hash.ByteLen]))
		}
		add("ProllyTreeNode", "value_items", as)
		return "ProllyTreeNode", nil
	case serial.BlobFileID:
		m, e := serial.TryGetRootAsBlob(msg, off)
		if e != nil {
			return "", e
		}
		add("Blob", "address_array", split20(m.AddressArrayBytes()))
		return "Blob", nil
	case serial.CommitClosureFileID:
		m, e := serial.TryGetRootAsCommitClosure(msg, off)
		if e != nil {
			return "", e
		}
		add("CommitClosure", "address_array", split20(m.AddressArrayBytes()))
		if m.TreeLevel() == 0 {
			kb := m.KeyItemsBytes()
			var as []hash.Hash
			for i := 8; i+hash.ByteLen <= len(kb); i += 8 + hash.ByteLen {
				as = append(as, hash.New(kb[i:i+hash.ByteLen]))
			}
			add("CommitClosure", "key_items", as)
		}
		return "CommitClosure", nil
	case serial.MergeArtifactsFileID:
		m, e := serial.TryGetRootAsMergeArtifacts(msg, off)
		if e != nil {
			return "", e
		}
		add("MergeArtifacts", "address_array", split20(m.AddressArrayBytes()))
		ki := m.KeyItemsBytes()
		var as []hash.Hash
		for i := 0; i < m.KeyAddressOffsetsLength(); i++ {
			o := int(m.KeyAddressOffsets(i))
			as = append(as, hash.New(ki[o:o+hash.ByteLen]))
		}
		add("MergeArtifacts", "key_items", as)
		return "MergeArtifacts", nil
	case serial.VectorIndexNodeFileID:
		m, e := serial.TryGetRootAsVectorIndexNode(msg, off)
		if e != nil {
			return "", e
		}
		add("VectorIndexNode", "address_array", split20(m.AddressArrayBytes()))
		return "VectorIndexNode", nil
	case serial.TableSchemaFileID:
		return "TableSchema", nil
	case serial.ForeignKeyCollectionFileID:
		return "ForeignKeyCollection", nil
	case serial.TupleFileID:
		return "Tuple", nil
	}
	return "", fmt.Errorf("unknown file id %q", id)
}

type env struct {
	e     *hx.Env
	m     *hx.Model
	ctx   context.Context
	kinds map[string]int
}

func (v *env) missing(label, what string, k kase) {
	key := "walk-missing:" + label
	if knownMissing[label] {
		v.e.Rep.Known(key, what, k)
		v.e.Rep.Hit("known:" + key)
	} else {
		v.e.Rep.Violate(key, what, k)
	}
}

// chunkCheck: oracle 2 + correspondence for one chunk.
func (v *env) chunkCheck(cs chunks.ChunkStore, h hash.Hash, k kase) {
	c, err := cs.Get(v.ctx, h)
	if err != nil || c.IsEmpty() {
		return
	}
	data := c.Data()
	if len(data) == 0 || int(data[0]) != serial.MessageTypesKind {
		v.e.Rep.Hit("chunk:non-serial-message")
		return
	}
	var fs []lf
	kind, err := fieldsOf(data, &fs)
	if err != nil {
		v.e.Rep.Violate("decode:"+serial.GetFileID(data), fmt.Sprintf("chunk %s: %v", h, err), k)
		return
	}
	v.kinds[kind]++
	walked, err := wg.WalkOne(v.ctx, cs, h)
	if err != nil {
		v.e.Rep.Violate("walker-error:"+kind, fmt.Sprintf("walker failed on %s chunk %s: %v", kind, h, err), k)
		return
	}
	// numbering for the wire
	num := map[hash.Hash]int{}
	id := func(a hash.Hash) int {
		if a.IsEmpty() {
			return 0
		}
		if n, ok := num[a]; ok {
			return n
		}
		num[a] = len(num) + 1
		return num[a]
	}
	var toks []string
	labelled := hash.HashSet{}
	nontrivial := false
	for _, f := range fs {
		var ns []string
		for _, a := range f.Addrs {
			ns = append(ns, fmt.Sprint(id(a)))
			if a.IsEmpty() {
				continue
			}
			labelled.Insert(a)
			// ORACLE 2: every non-empty address stored in an address-typed field is reported
			if !walked.Has(a) {
				v.missing(f.Table+"."+f.Field, fmt.Sprintf("%s chunk %s holds address %s in %s.%s; SerialMessage.WalkAddrs does not report it", kind, h, a, f.Table, f.Field), k)
			}
		}
		if f.Table != kind {
			nontrivial = true // sub-table or embedded message populated
		}
		toks = append(toks, fmt.Sprintf("%s.%s:%s", f.Table, f.Field, strings.Join(ns, ",")))
	}
	if len(toks) > 0 {
		// one evaluated case per decoded chunk (oracle 2 ran on it, with or without a model)
		v.e.Rep.Count(kind+"|"+strings.Join(fieldNames(fs), ","), nontrivial || len(fs) > 1)
	}
	// CORRESPONDENCE with the generated model
	if v.m != nil && len(toks) > 0 {
		sort.Strings(toks)
		line := "obj " + strings.Join(toks, " ")
		resp := v.m.Ask(line)
		var impl []int
		for a := range walked {
			if labelled.Has(a) {
				impl = append(impl, num[a])
			}
		}
		sort.Ints(impl)
		want := "w=" + hx.NatList(impl)
		got := strings.SplitN(resp, " ", 2)[0]
		if len(v.e.Rep.Samples) < 6 && nontrivial {
			v.e.Rep.Sample(line + " -> " + resp)
		}
		if got != want {
			v.e.Rep.Disagree(map[string]any{"case": k, "chunk": h.String(), "line": line}, want, got, "walker result on labelled addresses vs generated model")
		}
		// addresses the walker reports that the harness did not label (must be none for non-leaf kinds)
		if kind != "ProllyTreeNode" && kind != "MergeArtifacts" && kind != "VectorIndexNode" {
			for a := range walked {
				if !labelled.Has(a) {
					v.e.Rep.Disagree(map[string]any{"case": k, "chunk": h.String()}, "walker reports "+a.String(), "not an address field known to the harness", "unlabelled address in "+kind)
				}
			}
		}
	}
}

func fieldNames(fs []lf) []string {
	var out []string
	for _, f := range fs {
		out = append(out, f.Table+"."+f.Field+fmt.Sprintf("#%d", min(len(f.Addrs), 3)))
	}
	sort.Strings(out)
	return out
}

func (v *env) repoCase(k kase) {
	e := v.e
	ctx := v.ctx
	rng := hx.NewRng(k.Seed)
	r, err := wg.NewRepo(ctx, "")
	if err != nil {
		e.Rep.Violate("harness:new-repo", err.Error(), k)
		return
	}
	h := &wg.History{R: r, Rng: rng, Rows: k.Rows}
	if err := h.Build(ctx); err != nil {
		e.Rep.Disagree(k, "history build failed: "+err.Error(), "", "generator")
		return
	}
	for _, d := range h.Done {
		e.Rep.Hit("scenario:" + d)
	}
	for s, why := range h.Skipped {
		e.Rep.Hit("scenario-skipped:" + s)
		e.Rep.Note(fmt.Sprintf("seed %d: scenario %s skipped: %.200s", k.Seed, s, why))
	}
	labels, wsAddr, err := wg.CraftedWorkingSet(ctx, r, "crafted", rng)
	if err != nil {
		e.Rep.Disagree(k, "crafted working set failed: "+err.Error(), "", "generator")
		return
	}
	byAddr := map[hash.Hash]string{}
	for l, a := range labels {
		byAddr[a] = l
	}
	cs := wg.ChunkStoreOf(r.DDB)
	root, err := cs.Root(ctx)
	if err != nil {
		e.Rep.Violate("harness:root", err.Error(), k)
		return
	}
	reach, absent, err := wg.WalkClosure(ctx, cs, []hash.Hash{root})
	if err != nil {
		e.Rep.Violate("walker-error:closure", err.Error(), k)
		return
	}
	for _, a := range absent {
		e.Rep.Violate("dangling:"+a.String()[:6], fmt.Sprintf("address %s is reported by the walker but no such chunk exists", a), k)
	}
	// label closures (to attribute deeper unreachable reads to the omitted field above them)
	labelReach := map[string]hash.HashSet{}
	for l, a := range labels {
		lr, _, err := wg.WalkClosure(ctx, cs, []hash.Hash{a})
		if err == nil {
			labelReach[l] = lr
		}
	}

	// ORACLE 1: load everything through a recording view
	rec := wg.NewRecorder(cs)
	ddb2, err := doltdb.DoltDBFromCS(rec, "dolt")
	if err != nil {
		e.Rep.Violate("harness:ddb2", err.Error(), k)
		return
	}
	ddb2.NodeStore().PurgeCaches()
	rec.Start()
	fp, ferr := wg.Fingerprint(ctx, ddb2)
	reads := rec.Stop()
	if ferr != nil {
		e.Rep.Violate("load-error", "deep load through the public API failed: "+ferr.Error(), k)
		return
	}
	for c, n := range fp.Counts {
		e.Rep.Histogram["loaded:"+c] += n
	}
	e.Rep.Histogram["chunks-read"] += reads.Size()
	e.Rep.Histogram["chunks-reachable"] += reach.Size()
	if !reads.Has(wsAddr) {
		e.Rep.Disagree(k, "crafted working set chunk was not read by the deep load", "", "generator")
	}
	seenMissing := map[string]bool{}
	for a := range reads {
		if reach.Has(a) {
			continue
		}
		c, _ := cs.Get(ctx, a)
		if c.IsEmpty() {
			continue // a probe for an absent chunk is not a dereference of stored data
		}
		label := byAddr[a]
		if label == "" {
			var cands []string
			for l, lr := range labelReach {
				if lr.Has(a) {
					cands = append(cands, l)
				}
			}
			sort.Strings(cands)
			if len(cands) > 0 {
				label = cands[0]
			}
		}
		if label == "" {
			label = "unlabelled:" + serial.GetFileID(c.Data())
		}
		if !seenMissing[label] {
			seenMissing[label] = true
			v.missing(label, fmt.Sprintf("loading the database reads chunk %s (%s) which is not reachable from the store root through the reference walker; it is referenced from %s", a, serial.GetFileID(c.Data()), label), k)
		}
	}
	e.Rep.TracesValidated++

	// ORACLE 2 + correspondence over every reachable chunk and the crafted objects
	all := hash.HashSet{}
	for a := range reach {
		all.Insert(a)
	}
	for a := range reads {
		all.Insert(a)
	}
	budget := e.N(6000, 60000)
	for a := range all {
		if budget == 0 {
			break
		}
		budget--
		v.chunkCheck(cs, a, k)
	}
}

// leafCase: tuples with every reference encoding, through the real node serializers.
func (v *env) leafCase(k kase) {
	e := v.e
	ctx := v.ctx
	ts := &chunks.TestStorage{}
	rec := wg.NewRecorder(ts.NewViewWithDefaultFormat())
	var cs chunks.ChunkStore = rec
	ns := tree.NewNodeStore(cs)
	rng := hx.NewRng(k.Seed)
	encs := []val.Encoding{val.BytesAddrEnc, val.StringAddrEnc, val.JSONAddrEnc, val.CommitAddrEnc, val.GeomAddrEnc, val.ExtendedAddrEnc,
		val.BytesAdaptiveEnc, val.StringAdaptiveEnc}
	for _, enc := range encs {
		name := encName(enc)
		if v.m != nil {
			e.Rep.Hit("model-enc:" + name + "=" + v.m.Ask("enc "+name))
		}
		// one out-of-band payload, written as a real blob tree
		payload := rng.Bytes(3000 + rng.Intn(9000))
		_, addr, err := tree.SerializeBytesToAddr(ctx, ns, strings.NewReader(string(payload)), len(payload))
		if err != nil {
			e.Rep.Disagree(k, "SerializeBytesToAddr: "+err.Error(), "", "generator")
			return
		}
		var vd *val.TupleDesc
		if enc == val.ExtendedAddrEnc {
			// the real handler dolt installs for ExtendedAddrEnc columns (schema_impl.go), over an identity child
			vd = val.NewTupleDescriptorWithArgs(val.TupleDescriptorArgs{Handlers: []val.TupleTypeHandler{nil, val.NewExtendedAddressTypeHandler(ns, idHandler{})}},
				val.Type{Enc: val.Int64Enc, Nullable: false}, val.Type{Enc: enc, Nullable: true})
		} else {
			vd = val.NewTupleDescriptor(val.Type{Enc: val.Int64Enc, Nullable: false}, val.Type{Enc: enc, Nullable: true})
		}
		kd := val.NewTupleDescriptor(val.Type{Enc: val.Int64Enc, Nullable: false})
		kb := val.NewTupleBuilder(kd, ns)
		vb := val.NewTupleBuilder(vd, ns)
		kb.PutInt64(0, int64(rng.Intn(1000)))
		key, _ := kb.Build(ctx, pool.NewBuffPool())
		vb.PutInt64(0, 7)
		switch enc {
		case val.BytesAddrEnc:
			vb.PutBytesAddr(1, addr)
		case val.StringAddrEnc:
			vb.PutStringAddr(1, addr)
		case val.JSONAddrEnc:
			vb.PutJSONAddr(1, addr)
		case val.CommitAddrEnc:
			vb.PutCommitAddr(1, addr)
		case val.GeomAddrEnc:
			vb.PutGeometryAddr(1, addr)
		case val.ExtendedAddrEnc:
			vb.PutExtendedAddr(1, addr)
		case val.BytesAdaptiveEnc:
			vb.PutAdaptiveFromOutline(1, int64(len(payload)), addr)
		case val.StringAdaptiveEnc:
			vb.PutAdaptiveFromOutline(1, int64(len(payload)), addr)
		}
		value, err := vb.Build(ctx, pool.NewBuffPool())
		if err != nil {
			e.Rep.Disagree(k, "tuple build: "+err.Error(), "", "generator")
			continue
		}
		ser := message.NewProllyMapSerializer(vd, ns.Pool())
		msg := ser.Serialize([][]byte{key}, [][]byte{value}, []uint64{1}, 0)
		reported := hash.HashSet{}
		werr := message.WalkAddresses(ctx, msg, func(_ context.Context, a hash.Hash) error { reported.Insert(a); return nil })
		if werr != nil {
			e.Rep.Violate("walker-error:leaf:"+name, werr.Error(), k)
			continue
		}
		// what does the real field reader hold for this field?  (the address it would dereference)
		got := vd.GetField(1, val.Tuple(value))
		holds := len(got) >= hash.ByteLen && hash.New(got[len(got)-hash.ByteLen:]) == addr
		e.Rep.Count("leaf|"+name, true)
		e.Rep.Hit("leaf-enc:" + name)
		if !holds {
			e.Rep.Disagree(k, "field does not hold the address", name, "generator")
			continue
		}
		// the real field loader: does reading the field dereference the address?
		ns.PurgeCaches()
		rec.Start()
		fv, lerr := tree.GetField(ctx, vd, 1, val.Tuple(value), ns)
		if lerr == nil {
			switch x := fv.(type) {
			case sql.JSONWrapper:
				_, lerr = x.ToInterface(ctx)
			case sql.AnyWrapper:
				_, lerr = x.UnwrapAny(ctx)
			}
		}
		rd := rec.Stop()
		if lerr != nil {
			e.Rep.Hit("leaf-load-error:" + name)
		}
		if rd.Has(addr) {
			e.Rep.Hit("leaf-deref:" + name)
		} else {
			e.Rep.Hit("leaf-no-deref:" + name)
		}
		if !reported.Has(addr) {
			v.missing("ProllyTreeNode.value_items["+name+"]", fmt.Sprintf("a leaf tuple field with encoding %s holds chunk address %s; writeAddressOffsets does not record it, so walkProllyMapAddresses does not report it (val.IsAddrEncoding(%s) = %v)", name, addr, name, val.IsAddrEncoding(enc)), k)
		}
		// model: does the generated table expect this encoding in value_address_offsets?
		if v.m != nil {
			m := v.m.Ask("enc " + name)
			impl := "offsets"
			if !reported.Has(addr) {
				impl = "address-not-in-offsets"
			}
			if m != impl {
				e.Rep.Disagree(k, impl, m, "encoding "+name)
			}
		}
	}
}

// putAddr stores an out-of-band address in field i of the tuple under construction.
func putAddr(vb *val.TupleBuilder, i int, enc val.Encoding, addr hash.Hash, n int) {
	switch enc {
	case val.BytesAddrEnc:
		vb.PutBytesAddr(i, addr)
	case val.StringAddrEnc:
		vb.PutStringAddr(i, addr)
	case val.JSONAddrEnc:
		vb.PutJSONAddr(i, addr)
	case val.CommitAddrEnc:
		vb.PutCommitAddr(i, addr)
	case val.GeomAddrEnc:
		vb.PutGeometryAddr(i, addr)
	case val.BytesAdaptiveEnc, val.StringAdaptiveEnc:
		vb.PutAdaptiveFromOutline(i, int64(n), addr)
	}
}

// leafNullCase: rows in which one address-capable field is NULL and another holds an out-of-band
// address, in both column orders, for every pair of encodings, with a second all-populated row
// next to it — through the real ProllyMapSerializer.  Every address put into a field must be
// reported by the real leaf walker.
func (v *env) leafNullCase(k kase) {
	e := v.e
	ctx := v.ctx
	ts := &chunks.TestStorage{}
	var cs chunks.ChunkStore = ts.NewViewWithDefaultFormat()
	ns := tree.NewNodeStore(cs)
	rng := hx.NewRng(k.Seed ^ 0x5eed)
	encs := []val.Encoding{val.BytesAddrEnc, val.StringAddrEnc, val.JSONAddrEnc, val.BytesAdaptiveEnc, val.StringAdaptiveEnc}
	mk := func() (hash.Hash, int) {
		payload := rng.Bytes(2100 + rng.Intn(6000))
		_, addr, err := tree.SerializeBytesToAddr(ctx, ns, strings.NewReader(string(payload)), len(payload))
		if err != nil {
			panic(err)
		}
		return addr, len(payload)
	}
	bp := pool.NewBuffPool()
	for _, e1 := range encs {
		for _, e2 := range encs {
			for _, nullFirst := range []bool{true, false} {
				vd := val.NewTupleDescriptor(val.Type{Enc: val.Int64Enc}, val.Type{Enc: e1, Nullable: true}, val.Type{Enc: e2, Nullable: true}, val.Type{Enc: val.Int64Enc, Nullable: true})
				kd := val.NewTupleDescriptor(val.Type{Enc: val.Int64Enc})
				var keys, vals [][]byte
				var want []hash.Hash
				// row 0: one field NULL, the other out-of-band; row 1: both out-of-band
				for row := 0; row < 2; row++ {
					kb := val.NewTupleBuilder(kd, ns)
					kb.PutInt64(0, int64(row))
					key, _ := kb.Build(ctx, bp)
					vb := val.NewTupleBuilder(vd, ns)
					vb.PutInt64(0, int64(100+row))
					for f, enc := range []val.Encoding{e1, e2} {
						isNull := row == 0 && ((f == 0) == nullFirst)
						if isNull {
							continue
						}
						a, n := mk()
						putAddr(vb, f+1, enc, a, n)
						want = append(want, a)
					}
					vb.PutInt64(3, 7)
					value, err := vb.Build(ctx, bp)
					if err != nil {
						e.Rep.Disagree(k, "tuple build: "+err.Error(), "", "generator")
						return
					}
					keys, vals = append(keys, key), append(vals, value)
				}
				msg := message.NewProllyMapSerializer(vd, ns.Pool()).Serialize(keys, vals, []uint64{1, 1}, 0)
				reported := hash.HashSet{}
				if werr := message.WalkAddresses(ctx, msg, func(_ context.Context, a hash.Hash) error { reported.Insert(a); return nil }); werr != nil {
					e.Rep.Violate("walker-error:leaf-null", werr.Error(), k)
					continue
				}
				pos := "second"
				if nullFirst {
					pos = "first"
				}
				shape := fmt.Sprintf("%s,%s,null-%s", encName(e1), encName(e2), pos)
				e.Rep.Count("leaf-null|"+shape, true)
				e.Rep.Hit("leaf-null-rows")
				for _, a := range want {
					if !reported.Has(a) {
						v.missing("ProllyTreeNode.value_items[NULL field next to out-of-band field]",
							fmt.Sprintf("leaf with value fields (%s): a row with one NULL address-capable field holds chunk address %s in the other field; the serializer records %d of %d addresses in value_address_offsets, walkProllyMapAddresses does not report it", shape, a, reported.Size(), len(want)), k)
					}
				}
			}
		}
	}
}

// idHandler: identity child handler (values are byte strings)
type idHandler struct{}

func (idHandler) SerializedCompare(_ context.Context, a, b []byte) (int, error) {
	return strings.Compare(string(a), string(b)), nil
}
func (idHandler) SerializeValue(_ context.Context, v any) ([]byte, error)   { return v.([]byte), nil }
func (idHandler) DeserializeValue(_ context.Context, b []byte) (any, error) { return b, nil }
func (idHandler) FormatValue(v any) (string, error)                         { return fmt.Sprint(v), nil }
func (idHandler) SerializationCompatible(val.TupleTypeHandler) bool         { return true }
func (idHandler) ConvertSerialized(_ context.Context, _ val.TupleTypeHandler, b []byte) ([]byte, error) {
	return b, nil
}

func encName(e val.Encoding) string {
	switch e {
	case val.BytesAddrEnc:
		return "BytesAddrEnc"
	case val.StringAddrEnc:
		return "StringAddrEnc"
	case val.JSONAddrEnc:
		return "JSONAddrEnc"
	case val.CommitAddrEnc:
		return "CommitAddrEnc"
	case val.GeomAddrEnc:
		return "GeomAddrEnc"
	case val.ExtendedAddrEnc:
		return "ExtendedAddrEnc"
	case val.BytesAdaptiveEnc:
		return "BytesAdaptiveEnc"
	case val.StringAdaptiveEnc:
		return "StringAdaptiveEnc"
	}
	return fmt.Sprint(int(e))
}

func (v *env) run(k kase) {
	out := hx.Recover(func() string {
		switch k.Kind {
		case "repo":
			v.repoCase(k)
		case "leaf":
			v.leafCase(k)
			v.leafNullCase(k)
		}
		return ""
	})
	if out != "" {
		v.e.Rep.Violate("panic:"+k.Kind, out, k)
	}
}

func main() {
	e := hx.Init("walkaddrs", "C09")
	defer e.Finish()
	v := &env{e: e, ctx: context.Background(), kinds: map[string]int{}}
	if e.ModelBin != "" && !e.NoModel {
		v.m = e.MustModel()
		defer v.m.Close()
	} else {
		// -nomodel (the Lean driver could not be built) or no driver given: the two oracles on the
		// implementation still run; every model comparison is skipped (v.m == nil)
		e.Rep.Note("walkaddrs: oracle-only run, model comparisons skipped")
	}
	e.Rep.Rule = "a chunk counts as non-trivial when its object populates more than one address field or a sub-table / embedded message; distinct by (kind, populated fields, multiplicity class)"
	if e.Replay != "" {
		rf, err := hx.LoadReplay(e.Replay)
		if err != nil {
			panic(err)
		}
		var k kase
		if err := json.Unmarshal(rf.Case, &k); err != nil {
			// disagreement cases wrap the kase
			var w struct {
				Case kase `json:"case"`
			}
			if json.Unmarshal(rf.Case, &w) == nil {
				k = w.Case
			}
		}
		v.run(k)
		return
	}
	for _, raw := range e.CorpusCases() {
		var k kase
		if json.Unmarshal(raw, &k) == nil && k.Kind != "" {
			v.run(k)
		}
	}
	v.run(kase{Kind: "leaf", Seed: e.Seed})
	n := e.N(2, 8)
	for i := 0; i < n; i++ {
		v.run(kase{Kind: "repo", Seed: e.Seed*1000 + uint64(i), Rows: e.N(300, 2500)})
	}
	for kd, c := range v.kinds {
		e.Rep.Histogram["chunk-kind:"+kd] = c
	}
}
