package main

import (
	"bufio"
	"encoding/json"
	"fmt"
	"io"
	"os"
	"os/exec"
	"regexp"
	"strconv"
	"strings"
	"sync"
	"time"

	"verif/harness/internal/hx"
)

// tailBuf keeps the last bytes of the worker's stderr (panic / fatal traces, @op markers).
type tailBuf struct {
	mu sync.Mutex
	b  []byte
}

func (t *tailBuf) Write(p []byte) (int, error) {
	t.mu.Lock()
	t.b = append(t.b, p...)
	if len(t.b) > 1<<17 {
		t.b = t.b[len(t.b)-1<<16:]
	}
	t.mu.Unlock()
	return len(p), nil
}
func (t *tailBuf) String() string { t.mu.Lock(); defer t.mu.Unlock(); return string(t.b) }
func (t *tailBuf) Reset()         { t.mu.Lock(); t.b = t.b[:0]; t.mu.Unlock() }

type worker struct {
	cmd   *exec.Cmd
	in    *bufio.Writer
	inC   io.Closer
	out   *bufio.Reader
	errb  *tailBuf
	dir    string
	known  map[string]bool
	served int
}

type pool struct {
	e        *hx.Env
	ws       []*worker
	restarts int
	mu       sync.Mutex
	shm      string
}

func newPool(e *hx.Env, n int) *pool {
	p := &pool{e: e}
	// the workers rewrite and reopen small files thousands of times, and the journal open path
	// fsyncs: a memory-backed directory (when there is one) makes that ~10x faster; fall back to
	// the scratch directory otherwise.  Removed in close().
	root := e.Scratch
	if d, err := os.MkdirTemp("/dev/shm", "verif-corrupt-"); err == nil {
		root, p.shm = d, d
	}
	for i := 0; i < n; i++ {
		p.ws = append(p.ws, &worker{dir: fmt.Sprintf("%s/w%d", root, i)})
	}
	return p
}

func (w *worker) start() error {
	exe, err := os.Executable()
	if err != nil {
		return err
	}
	w.cmd = exec.Command(exe, "-worker", "-wdir", w.dir, "-cap", fmt.Sprint(*flagCap))
	w.cmd.Env = append(os.Environ(), "GOTRACEBACK=all", "GOMAXPROCS=2", "GOGC=800")
	stdin, err := w.cmd.StdinPipe()
	if err != nil {
		return err
	}
	stdout, err := w.cmd.StdoutPipe()
	if err != nil {
		return err
	}
	w.errb = &tailBuf{}
	w.cmd.Stderr = w.errb
	w.in, w.inC, w.out = bufio.NewWriterSize(stdin, 1<<16), stdin, bufio.NewReaderSize(stdout, 1<<20)
	w.known = map[string]bool{}
	w.served = 0
	return w.cmd.Start()
}

func (w *worker) stop() {
	if w.cmd == nil {
		return
	}
	w.inC.Close()
	done := make(chan struct{})
	go func() { w.cmd.Wait(); close(done) }()
	select {
	case <-done:
	case <-time.After(3 * time.Second):
		w.cmd.Process.Kill()
		<-done
	}
	w.cmd = nil
}

// lastOpArg: the numeric argument of the last @op marker seen by classifyDeath (set under p.mu by its only caller)
var lastOpArg int

var opMark = regexp.MustCompile(`@op (\w+) (-?\d+)`)

// classifyDeath reads the dead worker's stderr.
func classifyDeath(stderr string, timedOut bool) (died, op string) {
	ms := opMark.FindAllStringSubmatch(stderr, -1)
	if len(ms) > 0 {
		op = ms[len(ms)-1][1]
		lastOpArg, _ = strconv.Atoi(ms[len(ms)-1][2])
	}
	if timedOut {
		return "timeout", op
	}
	low := strings.ToLower(stderr)
	switch {
	case strings.Contains(low, "out of memory") || strings.Contains(low, "cannot allocate memory") || strings.Contains(low, "makeslice: len out of range") && false:
		return "oom", op
	case strings.Contains(stderr, "panic:") || strings.Contains(stderr, "fatal error:") || strings.Contains(stderr, "SIGSEGV") || strings.Contains(stderr, "SIGBUS"):
		i := strings.Index(stderr, "panic:")
		if i < 0 {
			i = strings.Index(stderr, "fatal error:")
		}
		if i < 0 {
			i = 0
		}
		return "crash:" + panicSite(stderr[i:]), op
	}
	return "crash:unknown", op
}

// run executes one job on this worker (restarting it when needed).
// recycleAfter: a worker is replaced after this many cases so that its virtual size (counted by
// RLIMIT_AS: arenas reserved by the Go heap, cgo/zstd allocations, 4 MiB iteration buffers kept
// alive by GOGC=800) cannot creep up to the cap over a long run.
const recycleAfter = 300

func (w *worker) run(p *pool, j *job, limit time.Duration) {
	j.died, j.diedOp, j.res = "", "", Result{}
	if w.cmd != nil && w.served >= recycleAfter {
		w.stop()
	}
	w.served++
	if w.cmd == nil {
		if err := w.start(); err != nil {
			j.died = "crash:cannot-start-worker " + err.Error()
			return
		}
	}
	if !w.known[j.b.ID] {
		b, _ := json.Marshal(j.b.Base)
		w.in.WriteString("base ")
		w.in.Write(b)
		w.in.WriteByte('\n')
		w.known[j.b.ID] = true
	}
	rq, _ := json.Marshal(map[string]any{"id": j.b.ID, "mut": j.mut, "extra": j.extra, "subsets": j.subsets, "subset_only": j.subsetOnly})
	w.errb.Reset()
	w.in.WriteString("case ")
	w.in.Write(rq)
	w.in.WriteByte('\n')
	w.in.Flush()
	type rd struct {
		line []byte
		err  error
	}
	ch := make(chan rd, 1)
	go func() {
		l, err := w.out.ReadBytes('\n')
		ch <- rd{l, err}
	}()
	timedOut := false
	var got rd
	select {
	case got = <-ch:
	case <-time.After(limit):
		timedOut = true
		w.cmd.Process.Kill()
		got = <-ch
	}
	if got.err == nil && len(got.line) > 0 {
		if err := json.Unmarshal(got.line, &j.res); err == nil {
			return
		}
	}
	// the worker died (or was killed)
	w.cmd.Wait()
	time.Sleep(20 * time.Millisecond)
	p.mu.Lock()
	j.died, j.diedOp = classifyDeath(w.errb.String(), timedOut)
	j.diedA = lastOpArg
	p.mu.Unlock()
	if j.died == "crash:unknown" {
		s := w.errb.String()
		if len(s) > 600 {
			s = s[len(s)-600:]
		}
		j.died = "crash:unknown"
		j.res.Ops = append(j.res.Ops, OpRes{Op: "stderr", Class: "err", Msg: s})
	}
	w.cmd = nil
	p.mu.Lock()
	p.restarts++
	p.mu.Unlock()
}

func (p *pool) runAll(jobs []*job) {
	ch := make(chan *job)
	var wg sync.WaitGroup
	for _, w := range p.ws {
		wg.Add(1)
		go func(w *worker) {
			defer wg.Done()
			for j := range ch {
				w.run(p, j, caseTimeout)
			}
		}(w)
	}
	for _, j := range jobs {
		ch <- j
	}
	close(ch)
	wg.Wait()
	// a timeout under a loaded machine is not a hang: re-run those cases alone with a long limit
	for _, j := range jobs {
		if j.died == "timeout" || j.died == "crash:unknown" || j.died == "oom" {
			// (a worker that vanished without a panic / fatal trace -- e.g. killed from outside -- is
			// re-run as well, and so is a memory-exhaustion death: a worker that has served thousands
			// of cases can run into its address-space cap on an ordinary 4 MiB allocation.  Only a
			// death that reproduces in a FRESH worker, alone, is an outcome; a size field that really
			// drives a multi-GiB allocation reproduces every time.)
			p.ws[0].stop()
			p.ws[0].run(p, j, hangRecheck)
			p.ws[0].stop()
		}
	}
}

const caseTimeout = 10 * time.Second
const hangRecheck = 40 * time.Second

func (p *pool) close() {
	for _, w := range p.ws {
		w.stop()
	}
	if p.shm != "" {
		os.RemoveAll(p.shm)
	}
}
