package main

import (
	"crypto/sha256"
	"encoding/json"
	"fmt"
	"sort"
	"strings"

	"github.com/dolthub/gozstd"
	"github.com/golang/snappy"

	"verif/harness/internal/hx"
)

type checker struct {
	e         *hx.Env
	m         *hx.Model
	baseKnown map[string]bool
}

// ---------------------------------------------------------------- violation keys
//
// A key is (file kind, corrupted region class, outcome class).  The individual panic site / size
// field / operation goes into the description, not into the key: the format weaknesses (regions
// without a checksum) produce many sites for one cause, and a key per site made the check alarm
// on every new seed.  Things that are NOT explained by an unchecksummed region keep their own
// region class (e.g. a panic on damage confined to the CRC-protected data region of a table file,
// wrong bytes for a stored address with an intact index, a panic on the unmodified file).

func kindName(b *baseInfo) string {
	switch {
	case b.Split:
		return "table-split"
	case b.Kind == "arc" || b.Kind == "arcm":
		return "archive"
	case b.Kind == "jrn":
		return "journal"
	case b.Kind == "jidx":
		return "journal-index"
	case b.Kind == "man":
		return "manifest"
	}
	return b.Kind
}

// regionClassOf maps a layout region to its class.
func regionClassOf(b *baseInfo, name string) string {
	switch b.Kind {
	case "table":
		if strings.HasPrefix(name, "data.") {
			return "data-region" // chunk records: payload + CRC-32C
		}
		return "index-region" // prefix tuples, lengths, suffixes, footer: no checksum
	case "arc", "arcm":
		if name == "data" {
			return "data-region" // byte spans (zstd frames, dictionaries, snappy records)
		}
		return "index-region" // span index, prefixes, chunk refs, suffixes, metadata, footer: no checksum
	case "jrn":
		if strings.HasPrefix(name, "rec.") {
			return "record"
		}
		return "tail"
	case "jidx":
		switch name {
		case "lk.off", "lk.len":
			return "lookup-range" // not covered by the batch CRC
		case "lk.addr":
			return "lookup-addr"
		}
		return "framing"
	case "man":
		if name == "sep" || name == "outside" {
			return "separator"
		}
		return name + "-field"
	}
	return name
}

// classify: the region class of a whole corruption.
func classify(j *job) string {
	if j.shape == "intact" {
		return "none"
	}
	if j.shape == "crafted" {
		return "record"
	}
	if j.mut.Trunc >= 0 && len(j.mut.Subs) == 0 {
		return "truncation"
	}
	seen := map[string]bool{}
	var first string
	for _, sb := range j.mut.Subs {
		c := regionClassOf(j.b, j.b.lay.at(sb[0]).name)
		if first == "" {
			first = c
		}
		seen[c] = true
	}
	if j.shape == "crcfix" {
		return first // the damaged field; the other substitutions are the recomputed checksum
	}
	if len(seen) == 1 {
		return first
	}
	for _, weak := range []string{"index-region", "lookup-range", "record"} {
		if seen[weak] {
			return weak
		}
	}
	return "mixed"
}

// regionOverride: set by the oracle for one violation whose region class is finer than classify(j)
var regionOverride string

func (ck *checker) violate(j *job, outcome, what string) {
	rc := classify(j)
	if regionOverride != "" {
		rc = regionOverride
	}
	key := kindName(j.b) + ":" + rc + ":" + outcome
	if j.shape == "crcfix" && outcome != "panic" && outcome != "misread" {
		// the damage was given a recomputed CRC-32C: reads verify the CRC, never H(data) = address, so
		// the damaged record is accepted and processed -- wrong bytes / a changed address or root come
		// back, or the (now arbitrary) snappy length header drives a huge allocation
		key = kindName(j.b) + ":" + rc + ":crc-repaired-accepted"
	}
	ck.e.Rep.Violate(key, fmt.Sprintf("%s [file kind %s, corruption %s in %s (%s)]", what, j.b.Kind, j.mut.String(), j.region, j.shape), caseOf(j))
	ck.e.Rep.Hit("key:" + key)
}

// oracle: the property's own predicate on the implementation's behaviour.  Returns a summary class.
func (ck *checker) oracle(j *job) string {
	b := j.b
	if j.died != "" {
		cls := strings.SplitN(j.died, ":", 2)[0]
		switch cls {
		case "oom":
			ck.violate(j, "oom", fmt.Sprintf("the process died of memory exhaustion under a %d MiB address-space cap during %s, again when re-run alone in a fresh worker: a size field of the corrupted file is used for an allocation without being checked against the file size", *flagCap>>20, j.diedOp))
		case "timeout":
			cls = "hang"
			ck.violate(j, "hang", fmt.Sprintf("the read did not finish within %d s, also when re-run alone (op %s)", int(hangRecheck.Seconds()), j.diedOp))
		default:
			cls = "panic"
			if j.diedOp == "getmanysub" && spansInBounds(j, j.diedA) {
				// every span this batched read needs is non-empty and inside the data region: no size
				// field is out of range for it, so the crash is NOT explained by the unchecked span table
				regionOverride = "span-index-inbounds"
				defer func() { regionOverride = "" }()
			}
			msg := ""
			for _, o := range j.res.Ops {
				if o.Op == "stderr" {
					msg = " stderr tail: " + o.Msg
				}
			}
			ck.violate(j, "panic", "the process crashed (unrecoverable: panic on a reader goroutine or fatal runtime error) during "+j.diedOp+" at "+strings.TrimPrefix(j.died, "crash:")+msg)
		}
		return cls
	}
	query := append(append([]string{}, b.Addrs...), j.extra...)
	summary := "correct"
	worse := func(s string) {
		rank := map[string]int{"correct": 0, "error": 1, "wrong-address-answered": 2, "wrong-data": 3, "panic": 4}
		if rank[s] > rank[summary] {
			summary = s
		}
	}
	checkItem := func(op, addr, data string) {
		addr = strings.TrimSuffix(addr, "#dup")
		want, isStored := b.stored[addr]
		switch {
		case !isStored:
			ck.violate(j, "wrong-address-answered", fmt.Sprintf("%s answered for address %s which was never stored", op, addr))
			worse("wrong-address-answered")
		case data != "-" && data != want && op != "hasmany":
			ck.violate(j, "wrong-data", fmt.Sprintf("%s returned wrong bytes for stored address %s: got %s want %s", op, addr, data, want))
			worse("wrong-data")
		}
	}
	for _, o := range j.res.Ops {
		switch o.Class {
		case "panic":
			if o.Op == "getmanysub" && spansInBounds(j, o.A) {
				regionOverride = "span-index-inbounds"
			}
			ck.violate(j, "panic", fmt.Sprintf("%s panicked at %s: %s", o.Op, o.Site, o.Msg))
			regionOverride = ""
			worse("panic")
			continue
		case "err":
			worse("error")
		}
		switch o.Op {
		case "open":
			if o.Class == "ok" && (b.Kind == "jrn" || b.Kind == "jidx") {
				okRoot := o.Data == strings.Repeat("00", 20) // nothing committed yet (the journal was cut before its first root record)
				for _, r := range b.Roots {
					okRoot = okRoot || r == o.Data
				}
				if !okRoot {
					ck.violate(j, "root-invented", "journal bootstrap returned root "+o.Data+" which was never committed")
					worse("wrong-data")
				}
			}
		case "has":
			if o.Class == "ok" && o.A >= len(b.Addrs) {
				ck.violate(j, "wrong-address-answered", "has answered true for address "+query[o.A]+" which was never stored")
				worse("wrong-address-answered")
			}
		case "get":
			if o.Class == "ok" {
				checkItem("get", query[o.A], o.Data)
			}
		case "hasmany", "getmany", "getmanysub", "iter":
			keys := make([]string, 0, len(o.Items))
			for k := range o.Items {
				keys = append(keys, k)
			}
			sort.Strings(keys)
			for _, k := range keys {
				checkItem(o.Op, k, o.Items[k])
			}
			if o.Op == "iter" && o.Class == "ok" && len(o.Items) < len(b.stored) {
				ck.violate(j, "short-iteration", fmt.Sprintf("iterateAllChunks returned nil error but only %d of %d stored chunks", len(o.Items), len(b.stored)))
				worse("wrong-data")
			}
		}
	}
	if j.shape == "intact" {
		// everything stored must be present and right
		if summary != "correct" {
			ck.violate(j, "misread", "the unmodified valid file did not read back exactly: "+summary)
		}
		for _, o := range j.res.Ops {
			if (o.Op == "has" || o.Op == "get") && o.A < len(b.Addrs) && o.Class != "ok" {
				ck.violate(j, "misread", fmt.Sprintf("unmodified file: %s of stored address #%d = %s %s", o.Op, o.A, o.Class, o.Msg))
			}
			if (o.Op == "getmany" || o.Op == "iter") && len(o.Items) != len(b.stored) {
				ck.violate(j, "misread", fmt.Sprintf("unmodified file: %s returned %d of %d chunks (%s %s)", o.Op, len(o.Items), len(b.stored), o.Class, o.Msg))
			}
			if o.Op == "open" && len(b.Roots) > 0 && o.Data != b.Roots[len(b.Roots)-1] {
				ck.violate(j, "misread", "unmodified journal: root "+o.Data)
			}
		}
	}
	return summary
}

func (ck *checker) check(j *job) {
	e := ck.e
	summary := ck.oracle(j)
	canon := j.b.Kind + " " + j.b.ID + " " + j.mut.String()
	openErrOnly := len(j.res.Ops) > 0 && j.res.Ops[len(j.res.Ops)-1].Op == "open" && j.res.Ops[len(j.res.Ops)-1].Class == "err"
	e.Rep.Count(canon, j.shape != "intact" && (!openErrOnly || summary != "error"))
	rg := j.region
	if i := strings.Index(rg, "@"); i >= 0 && j.shape == "multi" {
		rg = "burst"
	}
	e.Rep.Hit(j.b.Kind + ":" + j.shape + ":" + summary)
	if j.shape == "single" {
		e.Rep.Hit("region:" + j.b.Kind + ":" + rg + ":" + summary)
	}
	if summary != "correct" && summary != "error" {
		e.Rep.Sample(map[string]any{"kind": j.b.Kind, "mut": j.mut.String(), "region": j.region, "outcome": summary, "died": j.died})
	}
	if ck.m != nil {
		ck.compare(j)
	}
}

// ---------------------------------------------------------------- model comparison

func (ck *checker) ensureBase(b *baseInfo) {
	if ck.baseKnown == nil {
		ck.baseKnown = map[string]bool{}
	}
	if ck.baseKnown[b.ID] {
		return
	}
	ck.baseKnown[b.ID] = true
	if r := ck.m.Ask("base " + b.ID + " " + b.File); r != "ok" {
		ck.e.Rep.Disagree(b.ID, "", r, "model refused a base file")
	}
}

func opOf(res Result, op string, a int) *OpRes {
	for i := range res.Ops {
		if res.Ops[i].Op == op && res.Ops[i].A == a {
			return &res.Ops[i]
		}
	}
	return nil
}

// decodeEntry turns a model get entry (a | e | p | k<payload hex>) into the implementation's terms.
func decodeEntry(s string) string {
	switch {
	case s == "a":
		return "absent"
	case s == "e":
		return "err"
	case s == "p":
		return "panic"
	case strings.HasPrefix(s, "k"):
		d, err := snappy.Decode(nil, hx.Unhex(s[1:]))
		if err != nil {
			return "err"
		}
		return "ok:" + hx.Hex(d)
	}
	return "?" + s
}

func implEntry(o *OpRes) string {
	if o == nil {
		return "missing"
	}
	if o.Class == "ok" && o.Op == "get" {
		return "ok:" + o.Data
	}
	return o.Class
}

func (ck *checker) compare(j *job) {
	b := j.b
	if j.died != "" && !strings.HasPrefix(j.died, "crash") {
		return // oom / timeout: no model of the allocator
	}
	ck.ensureBase(b)
	query := append(append([]string{}, b.Addrs...), j.extra...)
	dis := func(impl, model, note string) {
		ck.e.Rep.Disagree(caseOf(j), impl, model, note+" ["+b.Kind+" "+j.mut.String()+" "+j.region+"]")
	}
	switch b.Kind {
	case "table":
		cmd := "tbl"
		if b.Split {
			cmd = "tbls"
		}
		resp := ck.m.Ask(fmt.Sprintf("%s %s %s %d %s", cmd, b.ID, j.mut.String(), b.Count, strings.Join(query, ",")))
		f := map[string]string{}
		for _, kv := range strings.Fields(resp) {
			if i := strings.Index(kv, "="); i > 0 {
				f[kv[:i]] = kv[i+1:]
			}
		}
		op := opOf(j.res, "open", -1)
		if op == nil {
			if j.died != "" {
				return
			}
			dis("no open result", resp, "open")
			return
		}
		if f["open"] != op.Class {
			dis("open="+op.Class+" "+op.Msg, resp, "open outcome")
			return
		}
		if op.Class != "ok" {
			return
		}
		has := f["has"]
		for i := range query {
			o := opOf(j.res, "has", i)
			want := "?"
			if i < len(has) {
				want = map[byte]string{'1': "ok", '0': "absent", 'p': "panic", 'e': "err"}[has[i]]
			}
			if o != nil && o.Class != want {
				dis(fmt.Sprintf("has[%d]=%s", i, o.Class), fmt.Sprintf("has[%d]=%s", i, want), "has")
				return
			}
		}
		gets := strings.Split(f["get"], ";")
		for i := range query {
			o := opOf(j.res, "get", i)
			want := "?"
			if i < len(gets) {
				want = decodeEntry(gets[i])
			}
			if o != nil && implEntry(o) != want {
				dis(fmt.Sprintf("get[%d]=%s %s", i, implEntry(o), o.Msg), fmt.Sprintf("get[%d]=%s", i, want), "get")
				return
			}
		}
		if it := opOf(j.res, "iter", -1); it != nil {
			// model: p | e<n>:<items> | k:<items>, items = addr:payload,...
			mi := f["iter"]
			cls, rest := "?", ""
			switch {
			case mi == "p":
				cls = "panic"
			case strings.HasPrefix(mi, "e"):
				cls, rest = "err", strings.TrimPrefix(mi, "e:")
			case strings.HasPrefix(mi, "k"):
				cls, rest = "ok", strings.TrimPrefix(mi, "k:")
			}
			want := map[string]string{}
			for _, it := range strings.Split(rest, ",") {
				if kv := strings.SplitN(it, ":", 2); len(kv) == 2 {
					d, err := snappy.Decode(nil, hx.Unhex(kv[1]))
					if err != nil {
						cls = "err" // the implementation stops at the first undecodable chunk
						break
					}
					k := kv[0]
					if old, dup := want[k]; dup && old != hx.Hex(d) {
						k += "#dup"
					}
					want[k] = hx.Hex(d)
				}
			}
			if it.Class != cls {
				dis("iter="+it.Class+" "+it.Msg, "iter="+cls+" ("+mi+")", "iterateAllChunks outcome")
				return
			}
			if cls != "panic" {
				wi, _ := json.Marshal(want)
				items := it.Items
				if items == nil {
					items = map[string]string{}
				}
				gi, _ := json.Marshal(items)
				if string(wi) != string(gi) {
					dis("iter items "+string(gi), "iter items "+string(wi), "iterateAllChunks items")
				}
			}
		}
	case "man":
		resp := ck.m.Ask(fmt.Sprintf("man %s %s", b.ID, j.mut.String()))
		o := opOf(j.res, "parse", -1)
		impl := "missing"
		if o != nil {
			impl = o.Class
			if o.Class == "ok" {
				impl = "ok " + o.Info
			}
		}
		if impl != resp {
			msg := ""
			if o != nil {
				msg = " " + o.Msg
			}
			dis(impl+msg, resp, "parseManifest")
		}
		// the file path (parseIfExists) must agree in class with the reader path
		if o2 := opOf(j.res, "parsefile", -1); o != nil && o2 != nil && o2.Class != o.Class {
			dis("parsefile="+o2.Class, "parse="+o.Class, "parseIfExists vs parseManifest")
		}
	case "jrn":
		resp := ck.m.Ask(fmt.Sprintf("jscan %s %s %d", b.ID, j.mut.String(), jrnBuffSize))
		o := opOf(j.res, "scan", -1)
		if o == nil {
			return
		}
		impl := o.Class
		if o.Class != "panic" {
			impl = strings.SplitN(o.Info, "|", 2)[0]
		}
		model := resp
		if resp != "panic" {
			model = strings.SplitN(resp, "|", 2)[0]
		}
		if impl != model {
			dis(impl+" "+o.Msg, model, "journal record scan")
		}
	case "jidx":
		resp := ck.m.Ask(fmt.Sprintf("jidx %s %s", b.ID, j.mut.String()))
		o := opOf(j.res, "pidx", -1)
		if o == nil {
			return
		}
		impl := o.Info
		if o.Class == "panic" {
			impl = "panic"
		}
		if impl != resp {
			dis(impl+" "+o.Msg, resp, "processIndexRecords")
		}
	case "arc", "arcm":
		resp := ck.m.Ask(fmt.Sprintf("afoot %s %s", b.ID, j.mut.String()))
		o := opOf(j.res, "footer", -1)
		if o == nil {
			return
		}
		impl := o.Class
		if o.Class == "ok" {
			impl = "ok " + o.Info
		}
		model := resp
		if strings.HasPrefix(resp, "err") {
			model = "err"
		}
		if impl != model {
			dis(impl+" "+o.Msg, resp, "buildArchiveFooter")
		}
		if b.Kind == "arc" {
			ck.compareArchiveIndex(j, query, dis)
		}
		// a footer the model rejects can never be opened
		if op := opOf(j.res, "open", -1); op != nil && strings.HasPrefix(resp, "err") && op.Class == "ok" {
			dis("open=ok", resp, "archive opened although the model rejects its footer")
		}
	}
}

// decodeArcEntry: model get entry of the archive index path → the implementation's terms.
// a | e | p | k<snappy payload> | z<dict span>:<p|e|d<data span>>
func decodeArcEntry(s string) string {
	if strings.HasPrefix(s, "z") {
		parts := strings.SplitN(s[1:], ":", 2)
		if len(parts) != 2 {
			return "?" + s
		}
		// loadDict: NewDecompBundle(dictBytes) comes before the data span is read
		raw, err := gozstd.Decompress(nil, hx.Unhex(parts[0]))
		if err != nil {
			return "err"
		}
		dd, err := gozstd.NewDDict(raw)
		if err != nil {
			return "err"
		}
		if _, err := gozstd.NewCDict(raw); err != nil {
			return "err"
		}
		switch {
		case parts[1] == "p":
			return "panic"
		case parts[1] == "e":
			return "err"
		}
		d, err := gozstd.DecompressDict(nil, hx.Unhex(parts[1][1:]), dd)
		if err != nil {
			return "err"
		}
		if d == nil {
			return "absent" // archiveChunkSource.get: a nil result reads as "not here"
		}
		return "ok:" + hx.Hex(d)
	}
	return decodeEntry(s)
}

// compareArchiveIndex: the in-memory archive index path (open, has, get) against the model.
func (ck *checker) compareArchiveIndex(j *job, query []string, dis func(impl, model, note string)) {
	resp := ck.m.Ask(fmt.Sprintf("arc %s %s %s", j.b.ID, j.mut.String(), strings.Join(query, ",")))
	f := map[string]string{}
	for _, kv := range strings.Fields(resp) {
		if i := strings.Index(kv, "="); i > 0 {
			f[kv[:i]] = kv[i+1:]
		}
	}
	op := opOf(j.res, "open", -1)
	if op == nil {
		return
	}
	if f["open"] != op.Class {
		dis("open="+op.Class+" "+op.Msg, resp, "archive index load")
		return
	}
	if op.Class != "ok" {
		return
	}
	has := f["has"]
	for i := range query {
		o := opOf(j.res, "has", i)
		want := "?"
		if i < len(has) {
			want = map[byte]string{'1': "ok", '0': "absent", 'p': "panic", 'e': "err"}[has[i]]
		}
		if o != nil && o.Class != want {
			dis(fmt.Sprintf("has[%d]=%s %s", i, o.Class, o.Msg), fmt.Sprintf("has[%d]=%s", i, want), "archive has")
			return
		}
	}
	gets := strings.Split(f["get"], ";")
	for i := range query {
		o := opOf(j.res, "get", i)
		want := "?"
		if i < len(gets) {
			want = decodeArcEntry(gets[i])
		}
		if o != nil && implEntry(o) != want {
			dis(fmt.Sprintf("get[%d]=%s %s", i, implEntry(o), o.Msg), fmt.Sprintf("get[%d]=%s", i, want), "archive get")
			return
		}
	}
}

var jrnBuffSize = journalBuff

func layoutFor(b *baseInfo) layout {
	file := hx.Unhex(b.File)
	defer func() { recover() }()
	switch b.Kind {
	case "table":
		return tableLayout(file, int(b.Count))
	case "arc", "arcm":
		si := make([]int, len(b.Addrs))
		for i := range si {
			si[i] = i
		}
		return archiveLayout(file, si)
	case "jrn":
		return journalLayout(file)
	case "jidx":
		return jidxLayout(file)
	case "man":
		return manifestLayout(file)
	}
	return nil
}

func (ck *checker) replay(p *pool, raw json.RawMessage) {
	var c Case
	if err := json.Unmarshal(raw, &c); err != nil {
		ck.e.Rep.Note("bad replay case: " + err.Error())
		return
	}
	b := &baseInfo{Base: c.Base, stored: map[string]string{}}
	// workers and the model cache base files by id: a replayed base must not share the id of a generated one
	b.ID = fmt.Sprintf("replay-%x", sha256.Sum256([]byte(c.Base.File+c.Base.Aux)))[:20]
	for i := range c.Base.Addrs {
		b.stored[c.Base.Addrs[i]] = c.Base.Datas[i]
	}
	b.lay = layoutFor(b)
	j := &job{b: b, mut: c.Mut, extra: c.Extra, region: "replay", shape: c.Shape, subsets: c.Subsets, subsetOnly: c.SubsetOnly}
	if j.shape == "" {
		j.shape = "multi"
		if len(c.Mut.Subs) == 1 && c.Mut.Trunc < 0 {
			j.shape = "single"
		}
		if len(c.Mut.Subs) == 0 && c.Mut.Trunc >= 0 {
			j.shape = "trunc"
		}
		if len(c.Mut.Subs) == 0 && c.Mut.Trunc < 0 {
			j.shape = "intact"
		}
	}
	if len(c.Mut.Subs) > 0 {
		j.region = b.lay.at(c.Mut.Subs[0][0]).name
	}
	p.runAll([]*job{j})
	ck.check(j)
	ck.e.Rep.Sample(map[string]any{"replayed": j.mut.String(), "died": j.died, "ops": j.res.Ops})
}
