package main

import (
	"encoding/json"
	"fmt"
	"sort"
	"strings"

	"github.com/dolthub/dolt/go/store/nbs"
	"github.com/golang/snappy"

	"verif/harness/internal/hx"
)

type checker struct {
	e         *hx.Env
	m         *hx.Model
	baseKnown map[string]bool
}

// knownShapeKey: the one shape DESIGN.md §11(e) predicts and C10_full_false proves on the model:
// the address a read answers for is taken from an index / record that carries no checksum binding
// it to the content, so a damaged address makes an address that was never stored answer with a
// stored chunk's bytes.
func knownShapeKey(kind string) string {
	switch kind {
	case "table":
		return "tablefile-index-unchecksummed"
	case "arc", "arcm":
		return "archive-index-unchecksummed"
	}
	return "journal-address-not-verified"
}

func inIndexRegion(j *job) bool {
	switch j.b.Kind {
	case "table", "arc", "arcm":
		return strings.Contains(j.region, "idx.") || j.shape == "multi"
	case "jrn":
		return j.shape == "crcfix" || j.shape == "multi"
	case "jidx":
		return true
	}
	return false
}

// keyKind: the file kind as it appears in violation keys (the split scenario is its own kind).
func keyKind(b *baseInfo) string {
	switch {
	case b.Split:
		return b.Kind + "-split"
	case b.Kind == "arc" || b.Kind == "arcm":
		return "archive"
	}
	return b.Kind
}

func (ck *checker) violate(j *job, key, what string) {
	ck.e.Rep.Violate(key, fmt.Sprintf("%s [file kind %s, corruption %s in %s (%s)]", what, j.b.Kind, j.mut.String(), j.region, j.shape), caseOf(j))
}

func (ck *checker) unstored(j *job, op, addr string) {
	what := fmt.Sprintf("%s answered for address %s which was never stored (the stored chunk's bytes are returned under the damaged address)", op, addr)
	if inIndexRegion(j) {
		ck.e.Rep.Known(knownShapeKey(j.b.Kind), fmt.Sprintf("%s [file kind %s, corruption %s in %s]", what, j.b.Kind, j.mut.String(), j.region), caseOf(j))
		ck.e.Rep.Hit("known-shape:" + knownShapeKey(j.b.Kind))
		return
	}
	ck.violate(j, "unstored-answered:"+j.b.Kind+":"+op, what)
}

// oracle: the property's own predicate on the implementation's behaviour.  Returns a summary class.
func (ck *checker) oracle(j *job) string {
	b := j.b
	if j.died != "" {
		cls := strings.SplitN(j.died, ":", 2)[0]
		key := j.died
		switch cls {
		case "oom":
			key = "runaway-alloc:" + keyKind(b)
			ck.violate(j, key, fmt.Sprintf("the process died of memory exhaustion under a %d MiB address-space cap during %s: a size field of the corrupted file is used for an allocation without being checked against the file size", *flagCap>>20, j.diedOp))
		case "timeout":
			key = "timeout:" + keyKind(b)
			ck.violate(j, key, "the read did not finish within 10 s (op "+j.diedOp+")")
		default:
			key = "panic:" + keyKind(b) + ":" + strings.TrimPrefix(j.died, "crash:")
			msg := ""
			for _, o := range j.res.Ops {
				if o.Op == "stderr" {
					msg = " stderr tail: " + o.Msg
				}
			}
			ck.violate(j, key, "the process crashed (unrecoverable: panic on a reader goroutine or fatal runtime error) during "+j.diedOp+" at "+strings.TrimPrefix(j.died, "crash:")+msg)
		}
		return cls
	}
	query := append(append([]string{}, b.Addrs...), j.extra...)
	summary := "correct"
	worse := func(s string) {
		rank := map[string]int{"correct": 0, "error": 1, "known-shape": 2, "wrongdata": 3, "panic": 4}
		if rank[s] > rank[summary] {
			summary = s
		}
	}
	checkItem := func(op, addr, data string) {
		addr = strings.TrimSuffix(addr, "#dup")
		want, isStored := b.stored[addr]
		switch {
		case !isStored:
			ck.unstored(j, op, addr)
			worse("known-shape")
		case data != "-" && data != want && op != "hasmany" && j.shape == "crcfix":
			// the damaged payload carries a recomputed CRC-32C: reads verify the CRC of the payload,
			// not H(data) = address (C10_full is refuted on the model for exactly this reason)
			ck.e.Rep.Known("chunk-payload-crc-only", fmt.Sprintf("%s returned bytes that do not hash to the requested address %s after the chunk record was damaged and its CRC-32C recomputed [file kind %s, corruption %s]", op, addr, b.Kind, j.mut.String()), caseOf(j))
			ck.e.Rep.Hit("known-shape:chunk-payload-crc-only")
			worse("known-shape")
		case data != "-" && data != want && op != "hasmany":
			ck.violate(j, "wrongdata:"+keyKind(b), fmt.Sprintf("%s returned wrong bytes for stored address %s: got %s want %s", op, addr, data, want))
			worse("wrongdata")
		}
	}
	for _, o := range j.res.Ops {
		switch o.Class {
		case "panic":
			ck.violate(j, "panic:"+keyKind(b)+":"+o.Site, fmt.Sprintf("%s panicked: %s", o.Op, o.Msg))
			worse("panic")
			continue
		case "err":
			worse("error")
		}
		switch o.Op {
		case "open":
			if o.Class == "ok" && (b.Kind == "jrn" || b.Kind == "jidx") {
				okRoot := o.Data == strings.Repeat("00", 20) // nothing committed yet (the journal was cut before its first root record)
				for _, r := range b.Roots {
					okRoot = okRoot || r == o.Data
				}
				if !okRoot && (j.shape == "crcfix" || j.shape == "multi") {
					ck.e.Rep.Known(knownShapeKey(b.Kind), "journal bootstrap returned root "+o.Data+" which was never committed, after a root record was damaged and its CRC-32C recomputed [corruption "+j.mut.String()+"]", caseOf(j))
					worse("known-shape")
				} else if !okRoot {
					ck.violate(j, "journal-root-invented:"+b.Kind, "journal bootstrap returned root "+o.Data+" which was never committed")
					worse("wrongdata")
				}
			}
		case "has":
			if o.Class == "ok" && o.A >= len(b.Addrs) {
				ck.unstored(j, "has", query[o.A])
				worse("known-shape")
			}
		case "get":
			if o.Class == "ok" {
				checkItem("get", query[o.A], o.Data)
			}
		case "hasmany", "getmany", "iter":
			keys := make([]string, 0, len(o.Items))
			for k := range o.Items {
				keys = append(keys, k)
			}
			sort.Strings(keys)
			for _, k := range keys {
				checkItem(o.Op, k, o.Items[k])
			}
			if o.Op == "iter" && o.Class == "ok" && len(o.Items) < len(b.stored) {
				missing := 0
				for a := range b.stored {
					if _, ok := o.Items[a]; !ok {
						missing++
					}
				}
				if missing > len(b.stored)-len(o.Items)-0 && false {
					_ = missing
				}
				ck.violate(j, "silent-short:"+keyKind(b)+":iter", fmt.Sprintf("iterateAllChunks returned nil error but only %d of %d stored chunks", len(o.Items), len(b.stored)))
				worse("wrongdata")
			}
		}
	}
	if j.shape == "intact" && summary != "correct" {
		ck.violate(j, "intact-misread:"+b.Kind, "the unmodified valid file did not read back exactly: "+summary)
	}
	if j.shape == "intact" {
		// everything stored must be present and right
		for _, o := range j.res.Ops {
			if (o.Op == "has" || o.Op == "get") && o.A < len(b.Addrs) && o.Class != "ok" {
				ck.violate(j, "intact-misread:"+b.Kind, fmt.Sprintf("unmodified file: %s of stored address #%d = %s %s", o.Op, o.A, o.Class, o.Msg))
			}
			if (o.Op == "getmany" || o.Op == "iter") && len(o.Items) != len(b.stored) {
				ck.violate(j, "intact-misread:"+b.Kind, fmt.Sprintf("unmodified file: %s returned %d of %d chunks (%s %s)", o.Op, len(o.Items), len(b.stored), o.Class, o.Msg))
			}
			if o.Op == "open" && len(b.Roots) > 0 && o.Data != b.Roots[len(b.Roots)-1] {
				ck.violate(j, "intact-misread:"+b.Kind, "unmodified journal: root "+o.Data)
			}
		}
	}
	return summary
}

func (ck *checker) check(j *job) {
	e := ck.e
	summary := ck.oracle(j)
	canon := j.b.Kind + " " + j.b.ID + " " + j.mut.String()
	openErrOnly := len(j.res.Ops) > 0 && j.res.Ops[len(j.res.Ops)-1].Op == "open" && j.res.Ops[len(j.res.Ops)-1].Class == "err"
	e.Rep.Count(canon, j.shape != "intact" && (!openErrOnly || summary != "error"))
	rg := j.region
	if i := strings.Index(rg, "@"); i >= 0 && j.shape == "multi" {
		rg = "burst"
	}
	e.Rep.Hit(j.b.Kind + ":" + j.shape + ":" + summary)
	if j.shape == "single" {
		e.Rep.Hit("region:" + j.b.Kind + ":" + rg + ":" + summary)
	}
	if summary != "correct" && summary != "error" {
		e.Rep.Sample(map[string]any{"kind": j.b.Kind, "mut": j.mut.String(), "region": j.region, "outcome": summary, "died": j.died})
	}
	if ck.m != nil {
		ck.compare(j)
	}
}

// ---------------------------------------------------------------- model comparison

func (ck *checker) ensureBase(b *baseInfo) {
	if ck.baseKnown == nil {
		ck.baseKnown = map[string]bool{}
	}
	if ck.baseKnown[b.ID] {
		return
	}
	ck.baseKnown[b.ID] = true
	if r := ck.m.Ask("base " + b.ID + " " + b.File); r != "ok" {
		ck.e.Rep.Disagree(b.ID, "", r, "model refused a base file")
	}
}

func opOf(res Result, op string, a int) *OpRes {
	for i := range res.Ops {
		if res.Ops[i].Op == op && res.Ops[i].A == a {
			return &res.Ops[i]
		}
	}
	return nil
}

// decodeEntry turns a model get entry (a | e | p | k<payload hex>) into the implementation's terms.
func decodeEntry(s string) string {
	switch {
	case s == "a":
		return "absent"
	case s == "e":
		return "err"
	case s == "p":
		return "panic"
	case strings.HasPrefix(s, "k"):
		d, err := snappy.Decode(nil, hx.Unhex(s[1:]))
		if err != nil {
			return "err"
		}
		return "ok:" + hx.Hex(d)
	}
	return "?" + s
}

func implEntry(o *OpRes) string {
	if o == nil {
		return "missing"
	}
	if o.Class == "ok" && o.Op == "get" {
		return "ok:" + o.Data
	}
	return o.Class
}

func (ck *checker) compare(j *job) {
	b := j.b
	if j.died != "" && !strings.HasPrefix(j.died, "crash") {
		return // oom / timeout: no model of the allocator
	}
	ck.ensureBase(b)
	query := append(append([]string{}, b.Addrs...), j.extra...)
	dis := func(impl, model, note string) {
		ck.e.Rep.Disagree(caseOf(j), impl, model, note+" ["+b.Kind+" "+j.mut.String()+" "+j.region+"]")
	}
	switch b.Kind {
	case "table":
		cmd := "tbl"
		if b.Split {
			cmd = "tbls"
		}
		resp := ck.m.Ask(fmt.Sprintf("%s %s %s %d %s", cmd, b.ID, j.mut.String(), b.Count, strings.Join(query, ",")))
		f := map[string]string{}
		for _, kv := range strings.Fields(resp) {
			if i := strings.Index(kv, "="); i > 0 {
				f[kv[:i]] = kv[i+1:]
			}
		}
		op := opOf(j.res, "open", -1)
		if op == nil {
			if j.died != "" {
				return
			}
			dis("no open result", resp, "open")
			return
		}
		if f["open"] != op.Class {
			dis("open="+op.Class+" "+op.Msg, resp, "open outcome")
			return
		}
		if op.Class != "ok" {
			return
		}
		has := f["has"]
		for i := range query {
			o := opOf(j.res, "has", i)
			want := "?"
			if i < len(has) {
				want = map[byte]string{'1': "ok", '0': "absent", 'p': "panic", 'e': "err"}[has[i]]
			}
			if o != nil && o.Class != want {
				dis(fmt.Sprintf("has[%d]=%s", i, o.Class), fmt.Sprintf("has[%d]=%s", i, want), "has")
				return
			}
		}
		gets := strings.Split(f["get"], ";")
		for i := range query {
			o := opOf(j.res, "get", i)
			want := "?"
			if i < len(gets) {
				want = decodeEntry(gets[i])
			}
			if o != nil && implEntry(o) != want {
				dis(fmt.Sprintf("get[%d]=%s %s", i, implEntry(o), o.Msg), fmt.Sprintf("get[%d]=%s", i, want), "get")
				return
			}
		}
		if it := opOf(j.res, "iter", -1); it != nil {
			// model: p | e<n>:<items> | k:<items>, items = addr:payload,...
			mi := f["iter"]
			cls, rest := "?", ""
			switch {
			case mi == "p":
				cls = "panic"
			case strings.HasPrefix(mi, "e"):
				cls, rest = "err", strings.TrimPrefix(mi, "e:")
			case strings.HasPrefix(mi, "k"):
				cls, rest = "ok", strings.TrimPrefix(mi, "k:")
			}
			want := map[string]string{}
			for _, it := range strings.Split(rest, ",") {
				if kv := strings.SplitN(it, ":", 2); len(kv) == 2 {
					d, err := snappy.Decode(nil, hx.Unhex(kv[1]))
					if err != nil {
						cls = "err" // the implementation stops at the first undecodable chunk
						break
					}
					k := kv[0]
					if old, dup := want[k]; dup && old != hx.Hex(d) {
						k += "#dup"
					}
					want[k] = hx.Hex(d)
				}
			}
			if it.Class != cls {
				dis("iter="+it.Class+" "+it.Msg, "iter="+cls+" ("+mi+")", "iterateAllChunks outcome")
				return
			}
			if cls != "panic" {
				wi, _ := json.Marshal(want)
				items := it.Items
				if items == nil {
					items = map[string]string{}
				}
				gi, _ := json.Marshal(items)
				if string(wi) != string(gi) {
					dis("iter items "+string(gi), "iter items "+string(wi), "iterateAllChunks items")
				}
			}
		}
	case "man":
		resp := ck.m.Ask(fmt.Sprintf("man %s %s", b.ID, j.mut.String()))
		o := opOf(j.res, "parse", -1)
		impl := "missing"
		if o != nil {
			impl = o.Class
			if o.Class == "ok" {
				impl = "ok " + o.Info
			}
		}
		if impl != resp {
			msg := ""
			if o != nil {
				msg = " " + o.Msg
			}
			dis(impl+msg, resp, "parseManifest")
		}
		// the file path (parseIfExists) must agree in class with the reader path
		if o2 := opOf(j.res, "parsefile", -1); o != nil && o2 != nil && o2.Class != o.Class {
			dis("parsefile="+o2.Class, "parse="+o.Class, "parseIfExists vs parseManifest")
		}
	case "jrn":
		resp := ck.m.Ask(fmt.Sprintf("jscan %s %s %d", b.ID, j.mut.String(), jrnBuffSize))
		o := opOf(j.res, "scan", -1)
		if o == nil {
			return
		}
		impl := o.Class
		if o.Class != "panic" {
			impl = strings.SplitN(o.Info, "|", 2)[0]
		}
		model := resp
		if resp != "panic" {
			model = strings.SplitN(resp, "|", 2)[0]
		}
		if impl != model {
			dis(impl+" "+o.Msg, model, "journal record scan")
		}
	case "jidx":
		resp := ck.m.Ask(fmt.Sprintf("jidx %s %s", b.ID, j.mut.String()))
		o := opOf(j.res, "pidx", -1)
		if o == nil {
			return
		}
		impl := o.Info
		if o.Class == "panic" {
			impl = "panic"
		}
		if impl != resp {
			dis(impl+" "+o.Msg, resp, "processIndexRecords")
		}
	case "arc", "arcm":
		resp := ck.m.Ask(fmt.Sprintf("afoot %s %s", b.ID, j.mut.String()))
		o := opOf(j.res, "footer", -1)
		if o == nil {
			return
		}
		impl := o.Class
		if o.Class == "ok" {
			impl = "ok " + o.Info
		}
		model := resp
		if strings.HasPrefix(resp, "err") {
			model = "err"
		}
		if impl != model {
			dis(impl+" "+o.Msg, resp, "buildArchiveFooter")
		}
		// a footer the model rejects can never be opened
		if op := opOf(j.res, "open", -1); op != nil && strings.HasPrefix(resp, "err") && op.Class == "ok" {
			dis("open=ok", resp, "archive opened although the model rejects its footer")
		}
	}
}

var jrnBuffSize = int(nbs.VerifCorJournalBuffSize())

func (ck *checker) replay(p *pool, raw json.RawMessage) {
	var c Case
	if err := json.Unmarshal(raw, &c); err != nil {
		ck.e.Rep.Note("bad replay case: " + err.Error())
		return
	}
	b := &baseInfo{Base: c.Base, stored: map[string]string{}}
	for i := range c.Base.Addrs {
		b.stored[c.Base.Addrs[i]] = c.Base.Datas[i]
	}
	j := &job{b: b, mut: c.Mut, extra: c.Extra, region: "replay", shape: "multi"}
	if len(c.Mut.Subs) == 1 && c.Mut.Trunc < 0 {
		j.shape = "single"
		// recover the region for the known-shape classification
		file := hx.Unhex(b.File)
		switch b.Kind {
		case "table":
			j.region = tableLayout(file, int(b.Count)).at(c.Mut.Subs[0][0]).name
		case "arc", "arcm":
			j.region = "idx."
		}
	}
	if len(c.Mut.Subs) == 0 && c.Mut.Trunc < 0 {
		j.shape = "intact"
	}
	p.runAll([]*job{j})
	ck.check(j)
	ck.e.Rep.Sample(map[string]any{"replayed": j.mut.String(), "died": j.died, "ops": j.res.Ops})
}
