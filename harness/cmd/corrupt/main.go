// corrupt: correspondence + property oracle for C10 (corrupted storage files are reported, never
// misread).  Small VALID files are built with the real writers (table file, archive, journal +
// journal index, manifest); every single-byte substitution / truncation (plus CRC-repaired and
// random multi-byte corruption) is opened and read with the real code in a capped child process;
// the property's own oracle (no panic, no crash, no runaway allocation, no wrong bytes for an
// address, no silently short iteration) is evaluated on the implementation, and the outcome is
// compared with the panic-faithful Lean model (driver dv_corrupt).
package main

import (
	"encoding/binary"
	"encoding/json"
	"flag"
	"fmt"
	"os"
	"sort"
	"strings"

	"github.com/dolthub/dolt/go/store/hash"
	"github.com/dolthub/dolt/go/store/nbs"

	"verif/harness/internal/hx"
)

// ---------------------------------------------------------------- regions (layout of the valid file)

type region struct {
	lo, hi int // [lo,hi)
	name   string
	owner  int // index of the stored address this byte belongs to (-1 = none)
	sub    int // byte position inside the field
}

type layout []region

func (l layout) at(off int) region {
	for _, r := range l {
		if off >= r.lo && off < r.hi {
			r.sub = off - r.lo
			return r
		}
	}
	return region{name: "outside", owner: -1}
}

func (l *layout) add(lo, n int, name string, owner int) int {
	*l = append(*l, region{lo: lo, hi: lo + n, name: name, owner: owner})
	return lo + n
}

func tableLayout(file []byte, n int) layout {
	var l layout
	idx := len(file) - 28*n - 20
	// lengths
	lens := make([]int, n)
	for i := 0; i < n; i++ {
		lens[i] = int(binary.BigEndian.Uint32(file[idx+12*n+4*i:]))
	}
	off := 0
	for i := 0; i < n; i++ {
		off = l.add(off, lens[i]-4, "data.payload", i)
		off = l.add(off, 4, "data.crc", i)
	}
	for i := 0; i < n; i++ {
		ord := int(binary.BigEndian.Uint32(file[idx+12*i+8:]))
		off = l.add(off, 8, "idx.prefix", ord)
		off = l.add(off, 4, "idx.ordinal", ord)
	}
	for i := 0; i < n; i++ {
		off = l.add(off, 4, "idx.length", i)
	}
	for i := 0; i < n; i++ {
		off = l.add(off, 12, "idx.suffix", i)
	}
	off = l.add(off, 4, "ftr.count", -1)
	off = l.add(off, 8, "ftr.total", -1)
	l.add(off, 8, "ftr.magic", -1)
	return l
}

const arcFooter = 220

// archiveLayout; sortedIdx[i] = index (into the stored address list) of the i-th address in index order.
func archiveLayout(file []byte, sortedIdx []int) layout {
	var l layout
	f := file[len(file)-arcFooter:]
	indexLen := int(binary.BigEndian.Uint64(f[0:]))
	nSpans := int(binary.BigEndian.Uint32(f[8:]))
	m := int(binary.BigEndian.Uint32(f[12:]))
	metaLen := int(binary.BigEndian.Uint32(f[16:]))
	ftr := arcFooter
	if file[len(file)-8] < 3 {
		// format versions 1 and 2: 216-byte footer with a uint32 index length (the reader loads 220
		// bytes and ignores the first 4, which belong to the index)
		ftr = arcFooter - 4
		indexLen = int(binary.BigEndian.Uint32(f[4:]))
	}
	dataLen := len(file) - ftr - metaLen - indexLen
	off := l.add(0, dataLen, "data", -1)
	off = l.add(off, 8*nSpans, "idx.span", -1)
	for i := 0; i < m; i++ {
		off = l.add(off, 8, "idx.prefix", sortedIdx[i])
	}
	for i := 0; i < m; i++ {
		off = l.add(off, 4, "idx.ref.dict", sortedIdx[i])
		off = l.add(off, 4, "idx.ref.data", sortedIdx[i])
	}
	for i := 0; i < m; i++ {
		off = l.add(off, 12, "idx.suffix", sortedIdx[i])
	}
	off = l.add(off, metaLen, "meta", -1)
	off = l.add(off, 8-(arcFooter-ftr), "ftr.indexlen", -1)
	off = l.add(off, 4, "ftr.spancount", -1)
	off = l.add(off, 4, "ftr.chunkcount", -1)
	off = l.add(off, 4, "ftr.metalen", -1)
	off = l.add(off, 192, "ftr.checksums", -1)
	off = l.add(off, 1, "ftr.version", -1)
	l.add(off, 7, "ftr.sig", -1)
	return l
}

func journalLayout(file []byte) layout {
	var l layout
	off := 0
	for off+4 <= len(file) {
		n := int(binary.BigEndian.Uint32(file[off:]))
		if n < 8 || off+n > len(file) {
			break
		}
		end := off + n
		p := l.add(off, 4, "rec.len", -1)
		for p < end-4 {
			tag := file[p]
			p = l.add(p, 1, "rec.tag", -1)
			switch tag {
			case 1:
				p = l.add(p, 1, "rec.kind", -1)
			case 2:
				p = l.add(p, 20, "rec.addr", -1)
			case 4:
				p = l.add(p, 8, "rec.ts", -1)
			case 3:
				p = l.add(p, end-4-p, "rec.payload", -1)
			default:
				p = end - 4
			}
		}
		l.add(end-4, 4, "rec.crc", -1)
		off = end
	}
	if off < len(file) {
		l.add(off, len(file)-off, "tail", -1)
	}
	return l
}

func jidxLayout(file []byte) layout {
	var l layout
	off := 0
	for off < len(file) {
		switch file[off] {
		case 0:
			if off+29 > len(file) {
				return l
			}
			off = l.add(off, 1, "lk.tag", -1)
			off = l.add(off, 16, "lk.addr", -1)
			off = l.add(off, 8, "lk.off", -1)
			off = l.add(off, 4, "lk.len", -1)
		case 1:
			if off+41 > len(file) {
				return l
			}
			off = l.add(off, 1, "meta.tag", -1)
			off = l.add(off, 8, "meta.start", -1)
			off = l.add(off, 8, "meta.end", -1)
			off = l.add(off, 4, "meta.crc", -1)
			off = l.add(off, 20, "meta.root", -1)
		default:
			return l
		}
	}
	return l
}

func manifestLayout(file []byte) layout {
	var l layout
	names := []string{"vers", "nbf", "lock", "root", "gcgen"}
	off, field := 0, 0
	for off <= len(file) {
		end := off
		for end < len(file) && file[end] != ':' {
			end++
		}
		nm := "tcount"
		if field < len(names) {
			nm = names[field]
		} else if (field-len(names))%2 == 0 {
			nm = "tname"
		}
		l.add(off, end-off, nm, -1)
		if end < len(file) {
			l.add(end, 1, "sep", -1)
		}
		off = end + 1
		field++
	}
	return l
}

// ---------------------------------------------------------------- bases

type baseInfo struct {
	Base
	lay    layout
	stored map[string]string // addr hex -> data hex
}

func mkChunks(r *hx.Rng, n int) (datas [][]byte) {
	for i := 0; i < n; i++ {
		var d []byte
		switch {
		case i%4 == 1: // compressible
			d = []byte(strings.Repeat(fmt.Sprintf("row-%d;", i), r.Range(3, 9)))
		case i%4 == 2 || i%4 == 3: // two records of equal length (stale-buffer shape)
			d = r.Bytes(24)
		default:
			d = r.Bytes(r.Range(1, 48))
		}
		datas = append(datas, d)
	}
	return
}

func hashOf(d []byte) hash.Hash { return hash.Of(d) }

func buildTable(r *hx.Rng, id string, n int, collide bool, split bool) (*baseInfo, error) {
	datas := mkChunks(r, n)
	addrs := make([]hash.Hash, n)
	for i := range datas {
		addrs[i] = hashOf(datas[i])
	}
	if collide && n >= 3 {
		// an address sharing the 8-byte prefix of another stored address (the equal-prefix walk)
		addrs[2] = addrs[0]
		addrs[2][19] ^= 0x5a
		addrs[2][9] ^= 0x01
	}
	name, file, err := nbs.VerifCorWriteTable(addrs, datas)
	if err != nil {
		return nil, err
	}
	b := &baseInfo{Base: Base{ID: id, Kind: "table", File: hx.Hex(file), Name: hx.Hex(name[:]), Count: uint32(n), Split: split}, stored: map[string]string{}}
	for i := range addrs {
		b.Addrs = append(b.Addrs, hx.Hex(addrs[i][:]))
		b.Datas = append(b.Datas, hx.Hex(datas[i]))
		b.stored[b.Addrs[i]] = b.Datas[i]
	}
	b.lay = tableLayout(file, n)
	return b, nil
}

func buildArchive(r *hx.Rng, scratch, id string, n int, mmap bool, withZstd bool) (*baseInfo, error) {
	datas := mkChunks(r, n)
	addrs := make([]hash.Hash, n)
	zs := make([]bool, n)
	for i := range datas {
		addrs[i] = hashOf(datas[i])
		zs[i] = withZstd && i%2 == 0
	}
	dir := scratch + "/mk-" + id
	os.MkdirAll(dir, 0o755)
	defer os.RemoveAll(dir)
	rawDict := []byte(strings.Repeat("row-0;row-1;row-2;row-3;dictionary content for zstd raw dict ", 4))
	name, err := nbs.VerifCorWriteArchive(dir, addrs, datas, zs, rawDict)
	if err != nil {
		return nil, err
	}
	file, err := os.ReadFile(dir + "/" + name.String() + nbs.VerifCorArchiveSuffix)
	if err != nil {
		return nil, err
	}
	kind := "arc"
	if mmap {
		kind = "arcm"
	}
	b := &baseInfo{Base: Base{ID: id, Kind: kind, File: hx.Hex(file), Name: hx.Hex(name[:]), Count: uint32(n)}, stored: map[string]string{}}
	for i := range addrs {
		b.Addrs = append(b.Addrs, hx.Hex(addrs[i][:]))
		b.Datas = append(b.Datas, hx.Hex(datas[i]))
		b.stored[b.Addrs[i]] = b.Datas[i]
	}
	si := make([]int, n)
	for i := range si {
		si[i] = i
	}
	sort.Slice(si, func(x, y int) bool { return addrs[si[x]].Compare(addrs[si[y]]) < 0 })
	b.lay = archiveLayout(file, si)
	return b, nil
}

func buildJournal(r *hx.Rng, scratch, id string, onIndex bool) (*baseInfo, error) {
	dir := scratch + "/mk-" + id
	os.MkdirAll(dir, 0o755)
	defer os.RemoveAll(dir)
	batches := [][][]byte{mkChunks(r, 3), mkChunks(r, 2), mkChunks(r, 2)}
	addrs, roots, err := nbs.VerifCorMakeJournal(dir, batches, 1)
	if err != nil {
		return nil, err
	}
	jr, err := os.ReadFile(dir + "/" + nbs.VerifCorJournalFileName)
	if err != nil {
		return nil, err
	}
	ix, err := os.ReadFile(dir + "/" + nbs.VerifCorJournalIndexFileName)
	if err != nil {
		return nil, err
	}
	b := &baseInfo{Base: Base{ID: id, Kind: "jrn", File: hx.Hex(jr), Aux: hx.Hex(ix)}, stored: map[string]string{}}
	b.lay = journalLayout(jr)
	if onIndex {
		b.Kind, b.File, b.Aux = "jidx", hx.Hex(ix), hx.Hex(jr)
		b.lay = jidxLayout(ix)
	}
	for bi := range batches {
		for i := range batches[bi] {
			a := hx.Hex(addrs[bi][i][:])
			b.Addrs = append(b.Addrs, a)
			b.Datas = append(b.Datas, hx.Hex(batches[bi][i]))
			b.stored[a] = hx.Hex(batches[bi][i])
		}
	}
	for _, rt := range roots {
		b.Roots = append(b.Roots, hx.Hex(rt[:]))
	}
	return b, nil
}

func buildManifest(r *hx.Rng, id string, v4 bool, nspecs int) (*baseInfo, error) {
	var names []hash.Hash
	var counts []uint32
	for i := 0; i < nspecs; i++ {
		names = append(names, hashOf(r.Bytes(8)))
		counts = append(counts, uint32(r.Range(1, 70000)))
	}
	file, err := nbs.VerifCorWriteManifest("__DOLT__", hashOf(r.Bytes(8)), hashOf(r.Bytes(8)), hashOf(r.Bytes(8)), names, counts)
	if err != nil {
		return nil, err
	}
	if v4 {
		// the v4 form of the same contents: no gc generation field, version "4"
		parts := strings.Split(string(file), ":")
		parts = append(append([]string{"4"}, parts[1:4]...), parts[5:]...)
		file = []byte(strings.Join(parts, ":"))
	}
	b := &baseInfo{Base: Base{ID: id, Kind: "man", File: hx.Hex(file)}, stored: map[string]string{}}
	b.lay = manifestLayout(file)
	if v4 {
		for i := range b.lay {
			if b.lay[i].name == "gcgen" {
				b.lay[i].name = "tname"
			} else if b.lay[i].name == "tname" {
				b.lay[i].name = "tcount"
			} else if b.lay[i].name == "tcount" {
				b.lay[i].name = "tname"
			}
		}
	}
	return b, nil
}

// ---------------------------------------------------------------- case generation

type job struct {
	b      *baseInfo
	mut    Mut
	extra  []string
	region string
	shape  string // single | trunc | multi | crcfix
	res    Result
	died   string // "" | crash:<site> | oom | timeout
	diedOp string
	diedA  int
	subsets [][]int
	subsetOnly bool
}

func subValues(old byte) []int {
	vals := []int{0x00, 0xff, int(old ^ 1), int(old + 1)}
	var out []int
	seen := map[int]bool{int(old): true}
	for _, v := range vals {
		if !seen[v] {
			seen[v] = true
			out = append(out, v)
		}
	}
	return out
}

// mutatedAddr: the address that a corrupted index byte makes the index claim.
func mutatedAddr(b *baseInfo, rg region, val int) []string {
	if rg.owner < 0 || rg.owner >= len(b.Addrs) {
		return nil
	}
	a := hx.Unhex(b.Addrs[rg.owner])
	switch rg.name {
	case "idx.prefix":
		a[rg.sub] = byte(val)
	case "idx.suffix":
		a[8+rg.sub] = byte(val)
	default:
		return nil
	}
	return []string{hx.Hex(a)}
}

func crc32c(b []byte) uint32 { return nbs.VerifCorCrc(b) }

func genJobs(e *hx.Env, b *baseInfo, absent string) []*job {
	file := hx.Unhex(b.File)
	var jobs []*job
	step := 3
	if e.Thorough() || e.Search {
		step = 1
	}
	start := e.Rng.Intn(step)
	// every single-byte substitution
	for off := start; off < len(file); off += step {
		rg := b.lay.at(off)
		if b.Split && !strings.HasPrefix(rg.name, "data.") {
			break // split base: the index is held intact, only the data region is damaged
		}
		for _, v := range subValues(file[off]) {
			j := &job{b: b, mut: Mut{Subs: [][2]int{{off, v}}, Trunc: -1}, region: rg.name, shape: "single"}
			j.extra = append(mutatedAddr(b, rg, v), absent)
			jobs = append(jobs, j)
		}
	}
	if b.Kind == "arc" || b.Kind == "arcm" {
		jobs = append(jobs, archiveSpanJobs(e, b, absent, jobs)...)
	}
	// every truncation length
	if !b.Split || true {
		for n := start; n < len(file); n += step {
			jobs = append(jobs, &job{b: b, mut: Mut{Trunc: n}, region: "trunc@" + b.lay.at(n).name, shape: "trunc", extra: []string{absent}})
		}
	}
	// CRC-repaired corruption (the checksum is recomputed after the damage: "arbitrary bytes",
	// not only random ones): journal records and table-file chunk records
	if b.Kind == "jrn" || b.Kind == "table" {
		for off := start; off < len(file); off += step {
			rg := b.lay.at(off)
			lo, hi := -1, -1
			switch {
			case b.Kind == "jrn" && strings.HasPrefix(rg.name, "rec.") && rg.name != "rec.crc":
				// find the record bounds
				p := 0
				for p+4 <= len(file) {
					n := int(binary.BigEndian.Uint32(file[p:]))
					if n < 8 || p+n > len(file) {
						break
					}
					if off >= p && off < p+n {
						lo, hi = p, p+n-4
						break
					}
					p += n
				}
			case b.Kind == "table" && rg.name == "data.payload":
				for _, r2 := range b.lay {
					if r2.name == "data.payload" && off >= r2.lo && off < r2.hi {
						lo, hi = r2.lo, r2.hi
					}
				}
			}
			if lo < 0 {
				continue
			}
			vals := subValues(file[off])[:2]
			if rg.name == "rec.tag" {
				vals = []int{0, 1, 2, 3, 4, 5} // every field tag in every position (short addr / timestamp fields)
			}
			for _, v := range vals {
				if v == int(file[off]) {
					continue
				}
				cp := append([]byte(nil), file[lo:hi]...)
				cp[off-lo] = byte(v)
				c := crc32c(cp)
				subs := [][2]int{{off, v}, {hi, int(c >> 24)}, {hi + 1, int(c >> 16 & 255)}, {hi + 2, int(c >> 8 & 255)}, {hi + 3, int(c & 255)}}
				jobs = append(jobs, &job{b: b, mut: Mut{Subs: subs, Trunc: -1}, region: rg.name, shape: "crcfix", extra: []string{absent}})
			}
		}
	}
	// random multi-byte corruption
	nm := e.N(24, 600)
	if b.Split {
		nm = 0
	}
	for i := 0; i < nm; i++ {
		k := e.Rng.Range(2, 6)
		var subs [][2]int
		rgn := "multi"
		if e.Rng.Chance(1, 2) { // burst
			o := e.Rng.Intn(len(file))
			rgn = "burst@" + b.lay.at(o).name
			for x := 0; x < k && o+x < len(file); x++ {
				subs = append(subs, [2]int{o + x, e.Rng.Intn(256)})
			}
		} else {
			for x := 0; x < k; x++ {
				subs = append(subs, [2]int{e.Rng.Intn(len(file)), e.Rng.Intn(256)})
			}
		}
		tr := -1
		if e.Rng.Chance(1, 5) {
			tr = e.Rng.Intn(len(file))
		}
		jobs = append(jobs, &job{b: b, mut: Mut{Subs: subs, Trunc: tr}, region: rgn, shape: "multi", extra: []string{absent}})
	}
	return jobs
}

// ---------------------------------------------------------------- main

var (
	flagWorker  = flag.Bool("worker", false, "internal: run as the real-code worker process")
	flagWDir    = flag.String("wdir", "", "internal: worker scratch directory")
	flagCap     = flag.Uint64("cap", 3<<30, "worker address-space cap in bytes (RLIMIT_AS)")
	flagNoModel = flag.Bool("skipmodel", false, "exploration: skip the model comparison")
	flagPar     = flag.Int("par", 6, "number of worker processes")
	flagOnly    = flag.String("only", "", "comma-separated base kinds to run (default all)")
)

// journalBuff: the journal code sizes its bufio reader, its writer buffer and the 2x window of
// possibleDataLossCheck by the package variable journalWriterBuffSize (5 MiB by default; dolt's
// own tests lower it).  The harness lowers it in the workers and in the parent (which passes it to
// the model) so that a journal open does not clear ~15 MiB per case; the files are < 1 KiB.
const journalBuff = 1 << 16

func main() {
	nbs.VerifCorSetJournalBuffSize(journalBuff)
	// the worker must not go through hx.Init (which creates report state); parse flags by hand
	for _, a := range os.Args[1:] {
		if a == "-worker" || a == "--worker" {
			flag.Parse()
			workerMain(*flagWDir, *flagCap)
			return
		}
	}
	e := hx.Init("corrupt", "C10")
	defer e.Finish()
	run(e)
}

func mustBase(e *hx.Env, b *baseInfo, err error) *baseInfo {
	if err != nil {
		e.Rep.Note("cannot build base: " + err.Error())
		fmt.Fprintln(os.Stderr, "corrupt: cannot build base:", err)
		os.Exit(2)
	}
	return b
}

func caseOf(j *job) Case {
	return Case{Base: j.b.Base, Mut: j.mut, Extra: j.extra, Shape: j.shape, Subsets: j.subsets, SubsetOnly: j.subsetOnly}
}

func run(e *hx.Env) {
	only := map[string]bool{}
	for _, k := range strings.Split(*flagOnly, ",") {
		if k != "" {
			only[k] = true
		}
	}
	pool := newPool(e, *flagPar)
	defer pool.close()
	var m *hx.Model
	if !*flagNoModel {
		m = e.MustModel()
		defer m.Close()
	}
	ck := &checker{e: e, m: m}

	// corpus + replay first
	if e.Replay != "" {
		rf, err := hx.LoadReplay(e.Replay)
		if err != nil {
			fmt.Fprintln(os.Stderr, "corrupt: cannot load replay:", err)
			os.Exit(2)
		}
		ck.replay(pool, rf.Case)
		return
	}
	for _, raw := range e.CorpusCases() {
		ck.replay(pool, raw)
	}

	r := e.Rng.Fork()
	absentH := hashOf([]byte("an address that was never stored"))
	absent := hx.Hex(absentH[:])
	var bases []*baseInfo
	addB := func(b *baseInfo, err error) {
		b = mustBase(e, b, err)
		if len(only) == 0 || only[b.Kind] {
			bases = append(bases, b)
		}
	}
	{
		b, err := buildTable(r, "t1", 5, true, false)
		addB(b, err)
		if e.Thorough() || e.Search {
			b, err = buildTable(r, "t2", 4, false, false)
			addB(b, err)
		}
		b, err = buildTable(r, "ts", 4, false, true)
		if b != nil {
			b.Kind = "table"
		}
		addB(b, err)
		if e.Thorough() || e.Search {
			b, err = buildArchive(r, e.Scratch, "a1", 4, false, false)
			addB(b, err)
			b, err = buildArchive(r, e.Scratch, "a2", 4, true, false)
			addB(b, err)
		}
		b, err = buildArchive(r, e.Scratch, "a3", 4, false, true)
		addB(b, err)
		b, err = buildArchive(r, e.Scratch, "a4", 4, true, true)
		addB(b, err)
		b, err = buildJournal(r, e.Scratch, "j1", false)
		addB(b, err)
		b, err = buildJournal(r, e.Scratch, "x1", true)
		addB(b, err)
		b, err = buildManifest(r, "m5", false, 2)
		addB(b, err)
		b, err = buildManifest(r, "m4", true, 2)
		addB(b, err)
		b, err = buildManifest(r, "m0", false, 0)
		addB(b, err)
	}
	if len(only) == 0 || only["jrn"] {
		// the refuting witness of Props/C10 `journal_scan_no_panic_full_false`, replayed on the real code:
		// a 9-byte journal `len=9 | tag=addr | crc32c` (valid checksum, address field missing)
		body := []byte{0, 0, 0, 9, 2}
		cr := crc32c(body)
		rec := append(body, byte(cr>>24), byte(cr>>16), byte(cr>>8), byte(cr))
		wb := &baseInfo{Base: Base{ID: "jw", Kind: "jrn", File: hx.Hex(rec), Aux: "-"}, stored: map[string]string{}}
		wb.lay = journalLayout(rec)
		j := &job{b: wb, mut: Mut{Trunc: -1}, region: "witness", shape: "crafted", extra: []string{absent}}
		pool.runAll([]*job{j})
		ck.check(j)
	}
	if m != nil && (len(only) == 0 || only["arc"]) {
		// the hand-assembled archive of the Lean witnesses (Model/CorruptWitness.lean), handed over by
		// the driver: the real reader must read the valid file back, and the one-byte corruption of its
		// span index that `archive_get_no_panic_full_false` proves to panic must crash the real reader
		w := strings.Fields(m.Ask("witness arc"))
		if len(w) == 3 {
			var off int
			fmt.Sscan(w[2], &off)
			nm := hashOf([]byte("witness archive"))
			wb := &baseInfo{Base: Base{ID: "aw", Kind: "arc", File: w[0], Name: hx.Hex(nm[:]), Count: 1, Addrs: []string{w[1]}, Datas: []string{"41"}},
				stored: map[string]string{w[1]: "41"}}
			wb.lay = archiveLayout(hx.Unhex(w[0]), []int{0})
			j0 := &job{b: wb, mut: Mut{Trunc: -1}, region: "none", shape: "intact", extra: []string{absent}}
			j1 := &job{b: wb, mut: Mut{Subs: [][2]int{{off, 255}}, Trunc: -1}, region: wb.lay.at(off).name, shape: "single", extra: []string{absent}}
			pool.runAll([]*job{j0, j1})
			ck.check(j0)
			ck.check(j1)
			if o := opOf(j1.res, "get", 0); j1.died == "" && (o == nil || o.Class != "panic") {
				e.Rep.Disagree(caseOf(j1), fmt.Sprint(j1.res.Ops), "panic", "the Lean witness archive_get_no_panic_full_false does not crash the real archive reader")
			}
		} else {
			e.Rep.Disagree("witness arc", "", strings.Join(w, " "), "driver did not return the witness archive")
		}
	}
	for _, b := range bases {
		// the unmodified file must read back exactly (sanity of the harness itself)
		j0 := &job{b: b, mut: Mut{Trunc: -1}, region: "none", shape: "intact", extra: []string{absent}}
		jobs := append([]*job{j0}, genJobs(e, b, absent)...)
		pool.runAll(jobs)
		for _, j := range jobs {
			ck.check(j)
		}
	}
	e.Rep.Rule = "a case is one (valid file, corruption) pair; distinct = distinct (file kind, mutation); non-trivial = the corrupted file differs from the valid one and the outcome is not a plain open error, or it is any panic/crash/wrong-data outcome"
	e.Rep.Note(fmt.Sprintf("bases=%d worker cap=%d MiB, restarts=%d", len(bases), *flagCap>>20, pool.restarts))
}

func init() { _ = json.Marshal }


// ---------------------------------------------------------------- archive span-index cases

// arcInfo: where the span index of a valid archive sits.
type arcInfo struct {
	indexStart, nSpans, nChunks, dataLen int
}

func arcInfoOf(file []byte) (a arcInfo, ok bool) {
	if len(file) < arcFooter {
		return a, false
	}
	f := file[len(file)-arcFooter:]
	indexLen := int(binary.BigEndian.Uint64(f[0:]))
	ftr := arcFooter
	if file[len(file)-8] < 3 {
		ftr = arcFooter - 4
		indexLen = int(binary.BigEndian.Uint32(f[4:]))
	}
	a.nSpans = int(binary.BigEndian.Uint32(f[8:]))
	a.nChunks = int(binary.BigEndian.Uint32(f[12:]))
	metaLen := int(binary.BigEndian.Uint32(f[16:]))
	a.indexStart = len(file) - ftr - metaLen - indexLen
	a.dataLen = a.indexStart
	if a.indexStart < 0 || a.indexStart+8*a.nSpans+28*a.nChunks > len(file) {
		return a, false
	}
	return a, true
}

// allSubsets: the batched reads issued after a span-index corruption: every pair (which includes the
// pairs with a gap and "every second chunk"), every triple, for up to 6 chunks; random subsets beyond.
func allSubsets(e *hx.Env, n int) [][]int {
	var out [][]int
	for i := 0; i < n; i++ {
		for j := i + 1; j < n; j++ {
			out = append(out, []int{i, j})
		}
	}
	if n <= 6 {
		for i := 0; i < n; i++ {
			for j := i + 1; j < n; j++ {
				for k := j + 1; k < n; k++ {
					out = append(out, []int{i, j, k})
				}
			}
		}
	}
	for x := 0; x < 4 && n > 3; x++ {
		var sub []int
		for i := 0; i < n; i++ {
			if e.Rng.Bool() {
				sub = append(sub, i)
			}
		}
		if len(sub) >= 2 {
			out = append(out, sub)
		}
	}
	return out
}

// archiveSpanJobs: (1) every already generated single-byte span-index case gets the subset reads;
// (2) structured single-byte corruptions that move the END of span s strictly INSIDE another span t
// (nested / overlapping spans that all stay inside the file) -- the shapes a read planner that
// merges adjacent spans has to survive.
func archiveSpanJobs(e *hx.Env, b *baseInfo, absent string, existing []*job) []*job {
	file := hx.Unhex(b.File)
	ai, ok := arcInfoOf(file)
	if !ok {
		return nil
	}
	subs := allSubsets(e, len(b.Addrs))
	var out []*job
	// one job per (corruption, subset): a batched read that crashes the worker must not hide the others,
	// and the full-set reads of the ordinary case usually crash first
	perSubset := func(m Mut, ss [][]int) {
		for _, sub := range ss {
			out = append(out, &job{b: b, mut: m, region: "idx.span", shape: "single", extra: []string{absent},
				subsets: [][]int{sub}, subsetOnly: true})
		}
	}
	for _, j := range existing {
		if j.shape == "single" && j.region == "idx.span" {
			var pairs [][]int
			for _, sub := range subs {
				if len(sub) == 2 {
					pairs = append(pairs, sub)
				}
			}
			perSubset(j.mut, pairs)
		}
	}
	ends := make([]uint64, ai.nSpans+1)
	for s := 1; s <= ai.nSpans; s++ {
		ends[s] = binary.BigEndian.Uint64(file[ai.indexStart+8*(s-1):])
	}
	for s := 1; s <= ai.nSpans; s++ {
		for t := 1; t <= ai.nSpans; t++ {
			if t == s || ends[t]-ends[t-1] < 2 {
				continue
			}
			lo, hi := ends[t-1], ends[t] // want lo < newEnd < hi
			entryOff := ai.indexStart + 8*(s-1)
			found := false
			for p := 7; p >= 0 && !found; p-- {
				for v := 0; v < 256 && !found; v++ {
					if byte(v) == file[entryOff+p] {
						continue
					}
					var mod [8]byte
					copy(mod[:], file[entryOff:entryOff+8])
					mod[p] = byte(v)
					ne := binary.BigEndian.Uint64(mod[:])
					if ne > lo && ne < hi && ne == lo+(hi-lo)/2 {
						m := Mut{Subs: [][2]int{{entryOff + p, v}}, Trunc: -1}
						out = append(out, &job{b: b, mut: m, region: "idx.span", shape: "single", extra: []string{absent}})
						perSubset(m, subs)
						found = true
					}
				}
			}
		}
	}
	return out
}

// spansInBounds: after the corruption of job j, do all byte spans that the chunks of subset |si|
// need (data span and dictionary span of each chunk) have 0 < length and lie inside the data
// region?  (Then no size field is out of range for that read, and a panic is not explained by one.)
func spansInBounds(j *job, si int) bool {
	if si < 0 || si >= len(j.subsets) {
		return false
	}
	base := hx.Unhex(j.b.File)
	ai, ok := arcInfoOf(base)
	if !ok {
		return false
	}
	for _, sb := range j.mut.Subs { // only span-index bytes may be damaged
		if sb[0] < ai.indexStart || sb[0] >= ai.indexStart+8*ai.nSpans {
			return false
		}
	}
	if j.mut.Trunc >= 0 {
		return false
	}
	file := j.mut.apply(base)
	ends := make([]uint64, ai.nSpans+1)
	for s := 1; s <= ai.nSpans; s++ {
		ends[s] = binary.BigEndian.Uint64(file[ai.indexStart+8*(s-1):])
	}
	// index position of each stored address: the archive index is sorted by address
	order := make([]int, len(j.b.Addrs))
	for i := range order {
		order[i] = i
	}
	sort.Slice(order, func(x, y int) bool { return j.b.Addrs[order[x]] < j.b.Addrs[order[y]] })
	pos := map[int]int{}
	for p, a := range order {
		pos[a] = p
	}
	refs := ai.indexStart + 8*ai.nSpans + 8*ai.nChunks
	okSpan := func(id uint32) bool {
		if id == 0 {
			return true
		}
		if int(id) > ai.nSpans {
			return false
		}
		st, en := ends[id-1], ends[id]
		return en > st && en <= uint64(ai.dataLen)
	}
	for _, a := range j.subsets[si] {
		p, ok := pos[a]
		if !ok || p >= ai.nChunks {
			return false
		}
		dict := binary.BigEndian.Uint32(file[refs+8*p:])
		data := binary.BigEndian.Uint32(file[refs+8*p+4:])
		if !okSpan(dict) || !okSpan(data) {
			return false
		}
	}
	return true
}
