package main

// Worker side of the `corrupt` harness: a child process of the same binary that runs the REAL dolt
// code on one corrupted file at a time.  It is a separate process because (a) getMany reads run on
// errgroup goroutines, where a panic cannot be recovered by the caller, (b) corrupted size fields
// can make the real code allocate without bound: the worker lives under an address-space cap and a
// per-case timeout, and its death is an observed outcome ("crash"/"oom"/"timeout").

import (
	"bufio"
	"bytes"
	"encoding/json"
	"fmt"
	"os"
	"path/filepath"
	"regexp"
	"runtime/debug"
	"runtime/pprof"
	"sort"
	"strings"
	"syscall"
	"time"

	"github.com/dolthub/dolt/go/store/hash"
	"github.com/dolthub/dolt/go/store/nbs"

	"verif/harness/internal/hx"
)

// Base is one valid file (or file pair) built with the real writers plus what was stored in it.
type Base struct {
	ID    string   `json:"id"`
	Kind  string   `json:"kind"` // table | arc | arcm | jrn | jidx | man
	File  string   `json:"file"` // hex of the file that gets corrupted
	Aux   string   `json:"aux,omitempty"`   // hex of the companion file (journal for jidx, index for jrn)
	Name  string   `json:"name,omitempty"`  // table/archive name (hash string)
	Count uint32   `json:"count,omitempty"` // chunk count recorded in the manifest
	Addrs []string `json:"addrs"`           // stored addresses (hex, 20 bytes)
	Datas []string `json:"datas"`           // their chunk bytes (hex)
	Roots []string `json:"roots,omitempty"` // journal: committed roots
	Split bool     `json:"split,omitempty"` // table: index from File, reads served from the mutated copy
}

// Mut is a corruption: byte substitutions then an optional truncation.
type Mut struct {
	Subs  [][2]int `json:"subs,omitempty"` // [offset, value]
	Trunc int      `json:"trunc"`          // -1 = none
}

func (m Mut) apply(b []byte) []byte {
	out := append([]byte(nil), b...)
	for _, s := range m.Subs {
		if s[0] >= 0 && s[0] < len(out) {
			out[s[0]] = byte(s[1])
		}
	}
	if m.Trunc >= 0 && m.Trunc < len(out) {
		out = out[:m.Trunc]
	}
	return out
}

func (m Mut) String() string {
	var sb strings.Builder
	sb.WriteString("s")
	for i, s := range m.Subs {
		if i > 0 {
			sb.WriteByte(',')
		}
		fmt.Fprintf(&sb, "%d:%d", s[0], s[1])
	}
	fmt.Fprintf(&sb, "/t%d", m.Trunc)
	return sb.String()
}

// Case is what a replay file holds: self-contained.
type Case struct {
	Base  Base     `json:"base"`
	Mut   Mut      `json:"mut"`
	Extra []string `json:"extra,omitempty"` // additional (unstored) addresses to query, hex
	Shape string   `json:"shape,omitempty"` // single | trunc | crcfix | multi | crafted | intact
	// Subsets: additional batched reads (getMany) over subsets of the stored addresses (indices into
	// Base.Addrs): pairs with a gap, every second chunk, random subsets
	Subsets [][]int `json:"subsets,omitempty"`
	// SubsetOnly: run only open + the subset reads (a crash of an earlier operation must not hide them)
	SubsetOnly bool `json:"subset_only,omitempty"`
}

// OpRes is the observed outcome of one operation.
type OpRes struct {
	Op    string            `json:"op"`
	A     int               `json:"a"`               // index into the query list; -1 = bulk op
	Class string            `json:"class"`           // ok | absent | err | panic
	Data  string            `json:"data,omitempty"`  // hex (ok)
	Site  string            `json:"site,omitempty"`  // panic site
	Msg   string            `json:"msg,omitempty"`   // error / panic text (not compared)
	Items map[string]string `json:"items,omitempty"` // bulk ops: addr hex -> data hex
	Info  string            `json:"info,omitempty"`  // open: canonical parse result
}

type Result struct {
	Ops []OpRes `json:"ops"`
}

var timing = os.Getenv("CORRUPT_TIMING") != ""

var frameRe = regexp.MustCompile(`(?m)^(github\.com/dolthub/[^\s]+)\(`)

// panicSite names the innermost dolt frame below the panic in a stack trace.
func panicSite(stack string) string {
	i := strings.Index(stack, "panic(")
	if i >= 0 {
		stack = stack[i:]
	}
	for _, m := range frameRe.FindAllStringSubmatch(stack, -1) {
		f := m[1]
		if strings.Contains(f, "VerifCor") || strings.Contains(f, "verif") || strings.Contains(f, "/store/d.") || strings.Contains(f, "/store/hash.") || strings.Contains(f, "/store/metrics.") {
			continue
		}
		f = strings.TrimPrefix(f, "github.com/dolthub/dolt/go/")
		f = strings.TrimPrefix(f, "github.com/dolthub/")
		f = regexp.MustCompile(`\.func\d+(\.\d+)*$`).ReplaceAllString(f, "")
		f = regexp.MustCompile(`\[[^\]]*\]`).ReplaceAllString(f, "")
		f = strings.NewReplacer("(*", "", ")", "", "store/nbs.", "nbs.", "store/hash.", "hash.", "store/d.", "d.").Replace(f)
		return f
	}
	return "unknown"
}

func guard(op string, a int, f func(r *OpRes)) (r OpRes) {
	r = OpRes{Op: op, A: a}
	fmt.Fprintf(os.Stderr, "@op %s %d\n", op, a)
	if timing {
		t0 := time.Now()
		defer func() { fmt.Fprintf(os.Stderr, "@t %s %v\n", op, time.Since(t0)) }()
	}
	defer func() {
		if p := recover(); p != nil {
			r.Class = "panic"
			r.Msg = fmt.Sprint(p)
			r.Site = panicSite(string(debug.Stack()))
		}
	}()
	f(&r)
	return
}

func errRes(r *OpRes, err error) {
	r.Class = "err"
	r.Msg = err.Error()
	if len(r.Msg) > 200 {
		r.Msg = r.Msg[:200]
	}
}

func parseAddrs(xs []string) []hash.Hash {
	out := make([]hash.Hash, len(xs))
	for i, x := range xs {
		copy(out[i][:], hx.Unhex(x))
	}
	return out
}

func sortedByPrefix(as []hash.Hash) []hash.Hash {
	out := append([]hash.Hash(nil), as...)
	sort.SliceStable(out, func(i, j int) bool { return out[i].Prefix() < out[j].Prefix() })
	return out
}

func itemsOf(cs []nbs.VerifCorChunk) map[string]string {
	m := map[string]string{}
	for _, c := range cs {
		k := hx.Hex(c.H[:])
		if old, dup := m[k]; dup && old != hx.Hex(c.Data) {
			k = k + "#dup"
		}
		m[k] = hx.Hex(c.Data)
	}
	return m
}

// runCase executes one case against the real code.  dir is a private scratch directory.
func runCase(dir string, c Case) Result {
	os.RemoveAll(dir)
	os.MkdirAll(dir, 0o755)
	var res Result
	add := func(r OpRes) bool { res.Ops = append(res.Ops, r); return r.Class == "ok" }
	file := c.Mut.apply(hx.Unhex(c.Base.File))
	query := parseAddrs(append(append([]string{}, c.Base.Addrs...), c.Extra...))

	switch c.Base.Kind {
	case "table", "arc", "arcm":
		var name hash.Hash
		copy(name[:], hx.Unhex(c.Base.Name))
		var src *nbs.VerifCorSource
		if c.Base.Kind != "table" {
			add(guard("footer", -1, func(r *OpRes) {
				if len(file) < int(nbs.VerifCorArchiveFooterSize) {
					r.Class = "err"
					r.Msg = "short"
					return
				}
				f, err := nbs.VerifCorBuildArchiveFooter(file[len(file)-int(nbs.VerifCorArchiveFooterSize):], uint64(len(file)))
				if err != nil {
					errRes(r, err)
					return
				}
				r.Class = "ok"
				r.Info = fmt.Sprintf("%d %d %d %d %d", f.IndexSize, f.ByteSpanCount, f.ChunkCount, f.MetadataSize, f.FormatVersion)
			}))
		}
		opened := add(guard("open", -1, func(r *OpRes) {
			var err error
			if c.Base.Split {
				src, err = nbs.VerifCorOpenSplit(hx.Unhex(c.Base.File), file, name)
			} else {
				fn := name.String()
				if c.Base.Kind != "table" {
					fn += nbs.VerifCorArchiveSuffix
				}
				if err = os.WriteFile(filepath.Join(dir, fn), file, 0o644); err == nil {
					src, err = nbs.VerifCorOpen(dir, name, c.Base.Count, c.Base.Kind == "arcm")
				}
			}
			if err != nil {
				errRes(r, err)
				return
			}
			r.Class = "ok"
			r.Info = fmt.Sprint(src.Count())
		}))
		if !opened {
			return res
		}
		if c.SubsetOnly {
			for si, sub := range c.Subsets {
				var hs []hash.Hash
				for _, ix := range sub {
					if ix >= 0 && ix < len(c.Base.Addrs) {
						hs = append(hs, query[ix])
					}
				}
				hs = sortedByPrefix(hs)
				add(guard("getmanysub", si, func(r *OpRes) {
					got, _, _, err := src.GetMany(hs)
					r.Items = itemsOf(got)
					if err != nil {
						errRes(r, err)
						return
					}
					r.Class = "ok"
				}))
			}
			guard("close", -1, func(r *OpRes) { src.Close() })
			return res
		}
		for i, h := range query {
			add(guard("has", i, func(r *OpRes) {
				ok, err := src.Has(h)
				if err != nil {
					errRes(r, err)
				} else if ok {
					r.Class = "ok"
				} else {
					r.Class = "absent"
				}
			}))
		}
		for i, h := range query {
			add(guard("get", i, func(r *OpRes) {
				d, err := src.Get(h)
				if err != nil {
					errRes(r, err)
				} else if d == nil {
					r.Class = "absent"
				} else {
					r.Class = "ok"
					r.Data = hx.Hex(d)
				}
			}))
		}
		sorted := sortedByPrefix(query)
		add(guard("hasmany", -1, func(r *OpRes) {
			has, _, err := src.HasMany(sorted)
			if err != nil {
				errRes(r, err)
				return
			}
			r.Class = "ok"
			r.Items = map[string]string{}
			for i, h := range sorted {
				if has[i] {
					r.Items[hx.Hex(h[:])] = "-"
				}
			}
		}))
		add(guard("getmany", -1, func(r *OpRes) {
			got, _, _, err := src.GetMany(sorted)
			if err != nil {
				errRes(r, err)
				return
			}
			r.Class = "ok"
			r.Items = itemsOf(got)
		}))
		for si, sub := range c.Subsets {
			var hs []hash.Hash
			for _, ix := range sub {
				if ix >= 0 && ix < len(c.Base.Addrs) {
					hs = append(hs, query[ix])
				}
			}
			hs = sortedByPrefix(hs)
			add(guard("getmanysub", si, func(r *OpRes) {
				got, _, _, err := src.GetMany(hs)
				r.Items = itemsOf(got)
				if err != nil {
					errRes(r, err)
					return
				}
				r.Class = "ok"
			}))
		}
		add(guard("iter", -1, func(r *OpRes) {
			got, err := src.IterateAll()
			r.Items = itemsOf(got)
			r.Info = fmt.Sprint(len(got))
			if err != nil {
				errRes(r, err)
				return
			}
			r.Class = "ok"
		}))
		guard("close", -1, func(r *OpRes) { src.Close() })

	case "jrn", "jidx":
		jr, ix := file, hx.Unhex(c.Base.Aux)
		if c.Base.Kind == "jidx" {
			jr, ix = hx.Unhex(c.Base.Aux), file
		}
		// standalone parsers first (compared with the model)
		if c.Base.Kind == "jrn" {
			add(guard("scan", -1, func(r *OpRes) {
				recs, offs, end, _, err := nbs.VerifCorScanJournal(jr)
				var sb strings.Builder
				for i, rc := range recs {
					fmt.Fprintf(&sb, "%d:%d:%d:%s:%d,", offs[i], rc.Length, rc.Kind, hx.Hex(rc.Addr[:]), len(rc.Payload))
				}
				r.Info = sb.String()
				if err != nil {
					errRes(r, err)
					r.Info += "|err"
					return
				}
				r.Class = "ok"
				r.Info += fmt.Sprintf("|%d", end)
			}))
		} else {
			add(guard("pidx", -1, func(r *OpRes) {
				bs, off, err := nbs.VerifCorProcessIndex(ix)
				var sb strings.Builder
				for _, b := range bs {
					fmt.Fprintf(&sb, "%d:%d:%d:%d:%s:%d;", b.Start, b.End, b.CheckSum, b.Computed, hx.Hex(b.Latest[:]), len(b.Lookups))
					for _, l := range b.Lookups {
						fmt.Fprintf(&sb, "%s:%d:%d,", hx.Hex(l.Addr16[:]), l.Offset, l.Length)
					}
				}
				fmt.Fprintf(&sb, "|%d", off)
				r.Info = sb.String()
				if err != nil {
					errRes(r, err)
					if nbs.VerifCorIsMalformedIndex(err) {
						r.Info += "|malformed"
					}
					return
				}
				r.Class = "ok"
			}))
		}
		var j *nbs.VerifCorJournal
		opened := add(guard("open", -1, func(r *OpRes) {
			err := os.WriteFile(filepath.Join(dir, nbs.VerifCorJournalFileName), jr, 0o644)
			if err == nil {
				err = os.WriteFile(filepath.Join(dir, nbs.VerifCorJournalIndexFileName), ix, 0o644)
			}
			if err == nil {
				j, err = nbs.VerifCorOpenJournal(dir, true)
			}
			if err != nil {
				errRes(r, err)
				return
			}
			r.Class = "ok"
			r.Data = hx.Hex(j.Root[:])
			r.Info = fmt.Sprintf("off=%d indexed=%d", j.Off, j.Indexed)
		}))
		if !opened {
			return res
		}
		for i, h := range query {
			add(guard("has", i, func(r *OpRes) {
				if j.Has(h) {
					r.Class = "ok"
				} else {
					r.Class = "absent"
				}
			}))
		}
		for i, h := range query {
			add(guard("get", i, func(r *OpRes) {
				d, found, err := j.Get(h)
				if err != nil {
					errRes(r, err)
				} else if !found {
					r.Class = "absent"
				} else {
					r.Class = "ok"
					r.Data = hx.Hex(d)
				}
			}))
		}
		guard("close", -1, func(r *OpRes) { j.Close() })

	case "man":
		add(guard("parse", -1, func(r *OpRes) {
			m, err := nbs.VerifCorParseManifest(file)
			if err != nil {
				errRes(r, err)
				return
			}
			r.Class = "ok"
			var sb strings.Builder
			fmt.Fprintf(&sb, "%s %s %s %s %s", m.Vers, hx.Hex([]byte(m.NbfVers)), hx.Hex(m.Lock[:]), hx.Hex(m.Root[:]), hx.Hex(m.GcGen[:]))
			for i := range m.Names {
				fmt.Fprintf(&sb, " %s:%d", hx.Hex(m.Names[i][:]), m.Counts[i])
			}
			r.Info = sb.String()
		}))
		add(guard("parsefile", -1, func(r *OpRes) {
			if err := os.WriteFile(filepath.Join(dir, "manifest"), file, 0o644); err != nil {
				errRes(r, err)
				return
			}
			_, _, err := nbs.VerifCorParseManifestFile(dir)
			if err != nil {
				errRes(r, err)
				return
			}
			r.Class = "ok"
		}))
	}
	return res
}

// workerMain: line protocol on stdin/stdout.  `base <json>` registers a base file; `case <json>`
// ({id, mut, extra}) runs it.  One response line per `case`.
func workerMain(dir string, capBytes uint64) {
	if capBytes > 0 {
		lim := syscall.Rlimit{Cur: capBytes, Max: capBytes}
		if err := syscall.Setrlimit(syscall.RLIMIT_AS, &lim); err != nil {
			fmt.Fprintln(os.Stderr, "worker: setrlimit:", err)
		}
	}
	debug.SetTraceback("all")
	if pf := os.Getenv("CORRUPT_PROF"); pf != "" {
		f, _ := os.Create(pf)
		pprof.StartCPUProfile(f)
		defer pprof.StopCPUProfile()
	}
	bases := map[string]Base{}
	in := bufio.NewReaderSize(os.Stdin, 1<<20)
	out := bufio.NewWriter(os.Stdout)
	for {
		line, err := in.ReadBytes('\n')
		if len(line) == 0 && err != nil {
			return
		}
		line = bytes.TrimSpace(line)
		switch {
		case bytes.HasPrefix(line, []byte("base ")):
			var b Base
			if e := json.Unmarshal(line[5:], &b); e != nil {
				fmt.Fprintln(os.Stderr, "worker: bad base:", e)
				os.Exit(3)
			}
			bases[b.ID] = b
		case bytes.HasPrefix(line, []byte("case ")):
			var rq struct {
				ID    string   `json:"id"`
				Mut   Mut      `json:"mut"`
				Extra []string `json:"extra"`
				Subs  [][]int  `json:"subsets"`
				Only  bool     `json:"subset_only"`
			}
			if e := json.Unmarshal(line[5:], &rq); e != nil {
				fmt.Fprintln(os.Stderr, "worker: bad case:", e)
				os.Exit(3)
			}
			res := runCase(dir, Case{Base: bases[rq.ID], Mut: rq.Mut, Extra: rq.Extra, Subsets: rq.Subs, SubsetOnly: rq.Only})
			b, _ := json.Marshal(res)
			out.Write(b)
			out.WriteByte('\n')
			out.Flush()
		}
		if err != nil {
			return
		}
	}
}
