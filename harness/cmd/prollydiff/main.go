// prollydiff: correspondence + property oracle for C13 (diffs report exactly the changed keys).
//
// Real code: prolly.DiffMaps / RangeDiffMaps / DiffMapsKeyRange on maps built through the public
// prolly API with a small deterministic splitter injected (trees 3–6 levels deep, a few hundred
// keys), pairs with shared ancestry / unrelated / different heights / empty sides.
// Model: the Lean cursor machine (dv_prollydiff) run on the SAME node structure (every node is
// shipped to the driver), so the model skips exactly the subtrees the real differ skips.
// Oracle: brute-force diff of the two materialised key-value lists, restricted to the range.
package main

import (
	"context"
	"encoding/json"
	"fmt"
	"io"
	"os"
	"sort"
	"strings"

	"github.com/dolthub/dolt/go/store/pool"
	"github.com/dolthub/dolt/go/store/prolly"
	"github.com/dolthub/dolt/go/store/prolly/tree"
	"github.com/dolthub/dolt/go/store/val"

	"verif/harness/internal/hx"
	pk "verif/harness/internal/prollykit"
)

type kvj struct {
	K string `json:"k"`
	V string `json:"v"`
}
type editj struct {
	K   string `json:"k"`
	V   string `json:"v,omitempty"`
	Del bool   `json:"del,omitempty"`
}

type Op struct {
	Op        string `json:"op"` // diff | rdiff | kdiff
	Cam       bool   `json:"cam,omitempty"`
	Alt       bool   `json:"alt,omitempty"` // `to` wrapped with a different value descriptor (callback filter off)
	Lo        string `json:"lo,omitempty"`  // u | i:<hex> | x:<hex>
	Hi        string `json:"hi,omitempty"`
	Eq        bool   `json:"eq,omitempty"`
	Start     string `json:"start,omitempty"` // hex | _
	Stop      string `json:"stop,omitempty"`
	Malformed bool   `json:"malformed,omitempty"`
	Place     string `json:"place,omitempty"`
}

type Case struct {
	M      int       `json:"m"`
	Kind   string    `json:"kind"`
	BaseA  []kvj     `json:"base_a"`
	EditsA [][]editj `json:"edits_a"`
	BaseB  []kvj     `json:"base_b,omitempty"` // only for unrelated / explicit B
	OwnB   bool      `json:"own_b,omitempty"`  // B is built from BaseB (else from BaseA or from A)
	BFromA bool      `json:"b_from_a,omitempty"`
	EditsB [][]editj `json:"edits_b"`
	Ops    []Op      `json:"ops"`
	Comp   *CompCase `json:"comp,omitempty"` // composite-key / prefix-range sub-case (RangeDiffMaps only)
}

var ctx = context.Background()

// ---------------------------------------------------------------- composite keys, prefix ranges
//
// RangeDiffMaps over maps with a two-field key (a, b) and a PrefixRange on |a| that carries the PREFIX
// descriptor (the way PrefixRange is called throughout dolt).  Oracle (from the property statement):
// the key-wise diff of the two materialised row lists on the FULL key, restricted to keys whose first
// field equals the prefix.  No Lean model is involved here (the model's keys are single byte strings).

type compRow struct {
	A uint32 `json:"a"`
	B uint32 `json:"b"`
	V uint32 `json:"v"`
}

type CompCase struct {
	HasVal bool      `json:"has_val"`
	From   []compRow `json:"from"`
	To     []compRow `json:"to"`
	Prefix uint32    `json:"prefix"`
}

var (
	compKD   = val.NewTupleDescriptor(val.Type{Enc: val.Uint32Enc}, val.Type{Enc: val.Uint32Enc})
	compVD   = val.NewTupleDescriptor(val.Type{Enc: val.Uint32Enc, Nullable: true})
	compVD0  = val.NewTupleDescriptor()
	compPool = pool.NewBuffPool()
)

func compLess(x, y compRow) bool { return x.A < y.A || (x.A == y.A && x.B < y.B) }

func compNorm(rows []compRow) []compRow {
	sort.SliceStable(rows, func(i, j int) bool { return compLess(rows[i], rows[j]) })
	out := rows[:0:0]
	for _, r := range rows {
		if len(out) > 0 && out[len(out)-1].A == r.A && out[len(out)-1].B == r.B {
			continue
		}
		out = append(out, r)
	}
	return out
}

func compBuild(ns tree.NodeStore, rows []compRow, hasVal bool) (prolly.Map, error) {
	vd := compVD0
	if hasVal {
		vd = compVD
	}
	kb := val.NewTupleBuilder(compKD, ns)
	vb := val.NewTupleBuilder(vd, ns)
	tups := make([]val.Tuple, 0, 2*len(rows))
	for _, r := range rows {
		kb.PutUint32(0, r.A)
		kb.PutUint32(1, r.B)
		k, err := kb.Build(ctx, compPool)
		if err != nil {
			return prolly.Map{}, err
		}
		if hasVal {
			vb.PutUint32(0, r.V)
		}
		v, err := vb.Build(ctx, compPool)
		if err != nil {
			return prolly.Map{}, err
		}
		tups = append(tups, k, v)
	}
	return prolly.NewMapFromTuples(ctx, ns, compKD, vd, tups...)
}

// key-wise diff on the full key, restricted to first field == prefix
func compExpected(from, to []compRow, prefix uint32, hasVal bool) []string {
	var out []string
	emit := func(t string, r compRow, f, v string) {
		if r.A == prefix {
			out = append(out, fmt.Sprintf("%s(%d,%d)%s>%s", t, r.A, r.B, f, v))
		}
	}
	vs := func(r compRow) string {
		if !hasVal {
			return "-"
		}
		return fmt.Sprint(r.V)
	}
	i, j := 0, 0
	for i < len(from) || j < len(to) {
		switch {
		case j >= len(to) || (i < len(from) && compLess(from[i], to[j])):
			emit("R", from[i], vs(from[i]), "_")
			i++
		case i >= len(from) || compLess(to[j], from[i]):
			emit("A", to[j], "_", vs(to[j]))
			j++
		default:
			if hasVal && from[i].V != to[j].V {
				emit("M", from[i], vs(from[i]), vs(to[j]))
			}
			i++
			j++
		}
	}
	return out
}

func compImpl(ns tree.NodeStore, c *CompCase) string {
	return hx.Recover(func() string {
		from, err := compBuild(ns, c.From, c.HasVal)
		if err != nil {
			return "err " + err.Error()
		}
		to, err := compBuild(ns, c.To, c.HasVal)
		if err != nil {
			return "err " + err.Error()
		}
		pd := compKD.PrefixDesc(1)
		pb := val.NewTupleBuilder(pd, ns)
		pb.PutUint32(0, c.Prefix)
		p, err := pb.Build(ctx, compPool)
		if err != nil {
			return "err " + err.Error()
		}
		rng, err := prolly.PrefixRange(ctx, p, pd)
		if err != nil {
			return "err " + err.Error()
		}
		var out []string
		vd := compVD0
		if c.HasVal {
			vd = compVD
		}
		vs := func(t []byte) string {
			if t == nil {
				return "_"
			}
			if !c.HasVal {
				return "-"
			}
			v, ok := vd.GetUint32(0, val.Tuple(t))
			if !ok {
				return "null"
			}
			return fmt.Sprint(v)
		}
		err = prolly.RangeDiffMaps(ctx, from, to, rng, func(_ context.Context, d tree.Diff) error {
			k := val.Tuple(d.Key)
			a, _ := compKD.GetUint32(0, k)
			b, _ := compKD.GetUint32(1, k)
			t := "?"
			switch d.Type {
			case tree.AddedDiff:
				t = "A"
			case tree.RemovedDiff:
				t = "R"
			case tree.ModifiedDiff:
				t = "M"
			}
			out = append(out, fmt.Sprintf("%s(%d,%d)%s>%s", t, a, b, vs(d.From), vs(d.To)))
			return nil
		})
		if err != nil && err != io.EOF {
			return "err " + err.Error()
		}
		return "ok [" + strings.Join(out, " ") + "]"
	})
}

func genComp(r *hx.Rng) *CompCase {
	c := &CompCase{HasVal: !r.Chance(1, 3)}
	numA := r.Range(2, 9)
	span := r.Range(4, 40)
	for a := 0; a < numA; a++ {
		n := r.Range(0, span)
		for i := 0; i < n; i++ {
			c.From = append(c.From, compRow{A: uint32(3 * a), B: uint32(r.Intn(2 * span)), V: uint32(r.Intn(1000))})
		}
	}
	c.From = compNorm(c.From)
	c.Prefix = uint32(3 * r.Intn(numA))
	if r.Chance(1, 12) {
		c.Prefix++ // a prefix no row has
	}
	to := append([]compRow{}, c.From...)
	// edits: mostly under the prefix, some elsewhere; deletes, inserts sharing the prefix, re-pointed suffixes, updates
	ne := r.Range(0, 8)
	for e := 0; e < ne; e++ {
		pa := c.Prefix
		if r.Chance(1, 4) {
			pa = uint32(3 * r.Intn(numA))
		}
		var idx []int
		for i, row := range to {
			if row.A == pa {
				idx = append(idx, i)
			}
		}
		switch k := r.Intn(5); {
		case k == 0 && len(idx) > 0: // delete
			i := idx[r.Intn(len(idx))]
			to = append(to[:i:i], to[i+1:]...)
		case k == 1: // insert
			to = append(to, compRow{A: pa, B: uint32(r.Intn(2 * span)), V: uint32(r.Intn(1000))})
		case k == 2 && len(idx) > 0: // re-point: delete + insert differing only in the key suffix
			i := idx[r.Intn(len(idx))]
			row := to[i]
			row.B = row.B + 1 + uint32(r.Intn(3))
			to = append(to[:i:i], to[i+1:]...)
			to = append(to, row)
		case k == 3 && len(idx) > 0: // update
			i := idx[r.Intn(len(idx))]
			to[i].V = uint32(1000 + r.Intn(1000))
		default:
			to = append(to, compRow{A: pa, B: uint32(2*span + r.Intn(5)), V: 7})
		}
		to = compNorm(to)
	}
	c.To = compNorm(to)
	if r.Chance(1, 2) {
		c.From, c.To = c.To, c.From
	}
	return c
}

func runComp(e *hx.Env, ns tree.NodeStore, c *Case) {
	cc := c.Comp
	want := "ok [" + strings.Join(compExpected(cc.From, cc.To, cc.Prefix, cc.HasVal), " ") + "]"
	got := compImpl(ns, cc)
	e.Rep.Hit("op:rdiff-prefix")
	if cc.HasVal {
		e.Rep.Hit("prefix:with-values")
	} else {
		e.Rep.Hit("prefix:empty-values")
	}
	under := 0
	for _, r := range cc.From {
		if r.A == cc.Prefix {
			under++
		}
	}
	nontrivial := want != "ok []" && under > 1
	e.Rep.Count(fmt.Sprintf("comp|%d|%v|%d|%v|%v", c.M, cc.HasVal, cc.Prefix, cc.From, cc.To), nontrivial)
	e.Rep.Sample(map[string]any{"kind": c.Kind, "m": c.M, "prefix": cc.Prefix, "rows": []int{len(cc.From), len(cc.To)}, "impl": trunc(got), "want": trunc(want)})
	if got != want {
		e.Rep.Violate("RangeDiffMaps/prefix-range-composite-key", fmt.Sprintf("RangeDiffMaps over PrefixRange(a=%d) with the prefix descriptor on a two-field key: real differ reports %s, the key-wise diff of the row lists restricted to that prefix says %s", cc.Prefix, firstDiff(got, want), ""), *c)
	}
}

func toKVJ(kvs []pk.KV) []kvj {
	out := make([]kvj, len(kvs))
	for i, kv := range kvs {
		out[i] = kvj{hx.Hex(kv.K), hx.Hex(kv.V)}
	}
	return out
}
func fromKVJ(js []kvj) []pk.KV {
	out := make([]pk.KV, len(js))
	for i, j := range js {
		out[i] = pk.KV{K: hx.Unhex(j.K), V: nz(hx.Unhex(j.V))}
	}
	return out
}
func nz(b []byte) []byte {
	if b == nil {
		return []byte{}
	}
	return b
}
func toEditJ(es []pk.Edit) []editj {
	out := make([]editj, len(es))
	for i, e := range es {
		if e.V == nil {
			out[i] = editj{K: hx.Hex(e.K), Del: true}
		} else {
			out[i] = editj{K: hx.Hex(e.K), V: hx.Hex(e.V)}
		}
	}
	return out
}
func fromEditJ(js []editj) []pk.Edit {
	out := make([]pk.Edit, len(js))
	for i, j := range js {
		if j.Del {
			out[i] = pk.Edit{K: hx.Unhex(j.K)}
		} else {
			out[i] = pk.Edit{K: hx.Unhex(j.K), V: nz(hx.Unhex(j.V))}
		}
	}
	return out
}

// ---------------------------------------------------------------- versions

type Version struct {
	Map     prolly.Map
	Content []pk.KV
	Shape   pk.Shape
}

func mkVersion(m prolly.Map) Version {
	c, err := pk.Materialise(ctx, m)
	if err != nil {
		panic(err)
	}
	sh, err := pk.ShapeOf(ctx, m.NodeStore(), m.Node())
	if err != nil {
		panic(err)
	}
	return Version{m, c, sh}
}

func buildVersion(ns tree.NodeStore, base []pk.KV) Version {
	m, err := pk.Build(ctx, ns, base)
	if err != nil {
		panic(err)
	}
	return mkVersion(m)
}

func applyVersion(v Version, es []pk.Edit) Version {
	m, err := pk.Apply(ctx, v.Map, es)
	if err != nil {
		panic(err)
	}
	return mkVersion(m)
}

// realise rebuilds both versions of a case from its recorded data only.
func realise(ns tree.NodeStore, c *Case) (a, b Version) {
	pk.Modulus = c.M
	a = buildVersion(ns, fromKVJ(c.BaseA))
	start := a
	for _, es := range c.EditsA {
		a = applyVersion(a, fromEditJ(es))
	}
	switch {
	case c.OwnB:
		b = buildVersion(ns, fromKVJ(c.BaseB))
	case c.BFromA:
		b = a
	default:
		b = start
	}
	for _, es := range c.EditsB {
		b = applyVersion(b, fromEditJ(es))
	}
	return
}

// ---------------------------------------------------------------- generators

const alphabet = "abcdABCDmz09_"

func genKey(r *hx.Rng) []byte {
	n := r.Range(2, 4)
	if r.Chance(1, 10) {
		n = r.Range(1, 5)
	}
	b := make([]byte, n)
	for i := range b {
		b[i] = alphabet[r.Intn(len(alphabet))]
	}
	return b
}

func genVal(r *hx.Rng) []byte {
	f := func() []byte {
		n := r.Range(1, 3)
		b := make([]byte, n)
		for i := range b {
			b[i] = "xyz01"[r.Intn(5)]
		}
		return append(b, 0) // ByteStringEnc fields carry a NUL terminator
	}
	switch r.Intn(10) {
	case 0:
		return pk.ValTuple()
	case 1:
		return pk.NonCanonical(f())
	case 2:
		return pk.ValTuple(nil, f())
	case 3, 4:
		return pk.ValTuple(f(), f())
	case 5:
		return []byte{0, 0, 2, 0} // two NULL fields, untrimmed
	}
	return pk.ValTuple(f())
}

// variant of a value that is equal as a tuple but different in bytes, if there is one
func aliasVal(v []byte) []byte {
	fs, ok := pk.TupleFields(v)
	if ok && len(fs) == 1 {
		return pk.NonCanonical(fs[0])
	}
	if ok && len(fs) == 2 && len(fs[1]) == 0 {
		return pk.ValTuple(fs[0])
	}
	return v
}

func genBase(r *hx.Rng, n int) []pk.KV {
	kvs := make([]pk.KV, 0, n)
	for i := 0; i < n; i++ {
		kvs = append(kvs, pk.KV{K: genKey(r), V: genVal(r)})
	}
	return pk.SortDedup(kvs)
}

func swapCase(k []byte) []byte {
	out := append([]byte{}, k...)
	for i, b := range out {
		switch {
		case b >= 'a' && b <= 'z':
			out[i] = b - 0x20
		case b >= 'A' && b <= 'Z':
			out[i] = b + 0x20
		}
	}
	return out
}

func genEdits(r *hx.Rng, v Version, kind string) []pk.Edit {
	var es []pk.Edit
	c := v.Content
	pickKey := func() []byte {
		if len(c) == 0 {
			return genKey(r)
		}
		return c[r.Intn(len(c))].K
	}
	valOf := func(k []byte) []byte {
		for _, kv := range c {
			if pk.CiCompare(kv.K, k) == 0 {
				return kv.V
			}
		}
		return nil
	}
	leaves := v.Shape.Leaves
	switch kind {
	case "point":
		for i, n := 0, r.Range(1, 6); i < n; i++ {
			switch r.Intn(5) {
			case 0:
				es = append(es, pk.Edit{K: pickKey()})
			case 1, 2:
				es = append(es, pk.Edit{K: pickKey(), V: genVal(r)})
			default:
				es = append(es, pk.Edit{K: genKey(r), V: genVal(r)})
			}
		}
	case "boundary":
		for i, n := 0, r.Range(1, 4); i < n && len(leaves) > 0; i++ {
			lf := leaves[r.Intn(len(leaves))]
			if len(lf.Keys) == 0 {
				continue
			}
			k := lf.Keys[len(lf.Keys)-1]
			if r.Bool() {
				k = lf.Keys[0]
			}
			switch r.Intn(4) {
			case 0:
				es = append(es, pk.Edit{K: k})
			case 1:
				es = append(es, pk.Edit{K: k, V: genVal(r)})
			case 2: // new key right after
				es = append(es, pk.Edit{K: append(append([]byte{}, k...), '!'), V: genVal(r)})
			default: // new key right before (shorter prefix sorts first)
				if len(k) > 1 {
					es = append(es, pk.Edit{K: append([]byte{}, k[:len(k)-1]...), V: genVal(r)})
				} else {
					es = append(es, pk.Edit{K: k, V: genVal(r)})
				}
			}
		}
	case "leafdel":
		if len(leaves) > 0 {
			lf := leaves[r.Intn(len(leaves))]
			for _, k := range lf.Keys {
				es = append(es, pk.Edit{K: k})
			}
			if r.Chance(1, 3) && len(leaves) > 1 { // and the neighbour
				for _, k := range leaves[r.Intn(len(leaves))].Keys {
					es = append(es, pk.Edit{K: k})
				}
			}
		}
	case "run":
		k := pickKey()
		for i, n := 0, r.Range(3, 25); i < n; i++ {
			nk := append(append([]byte{}, k...), '!', alphabet[r.Intn(len(alphabet))], alphabet[r.Intn(len(alphabet))])
			es = append(es, pk.Edit{K: nk, V: genVal(r)})
		}
	case "recase":
		for i, n := 0, r.Range(1, 4); i < n; i++ {
			k := pickKey()
			nk := swapCase(k)
			ov := valOf(k)
			switch r.Intn(3) {
			case 0: // same value, new key bytes
				if ov != nil {
					es = append(es, pk.Edit{K: nk, V: ov})
				}
			case 1:
				es = append(es, pk.Edit{K: nk, V: genVal(r)})
			default: // delete then re-insert re-cased
				es = append(es, pk.Edit{K: k}, pk.Edit{K: nk, V: genVal(r)})
			}
		}
	case "alias": // same tuple, different bytes (non-canonical NULL suffix)
		for i, n := 0, r.Range(1, 5); i < n; i++ {
			k := pickKey()
			if ov := valOf(k); ov != nil {
				es = append(es, pk.Edit{K: k, V: aliasVal(ov)})
			}
		}
	case "noop":
		for i, n := 0, r.Range(1, 4); i < n; i++ {
			k := pickKey()
			if ov := valOf(k); ov != nil {
				es = append(es, pk.Edit{K: k, V: ov})
			}
		}
	case "shrink":
		for _, kv := range c {
			if !r.Chance(1, 10) {
				es = append(es, pk.Edit{K: kv.K})
			}
		}
	case "grow":
		for i, n := 0, 2*len(c)+20; i < n; i++ {
			es = append(es, pk.Edit{K: genKey(r), V: genVal(r)})
		}
	}
	return es
}

var editKinds = []string{"point", "point", "boundary", "boundary", "leafdel", "run", "recase", "alias", "noop"}

func genCase(r *hx.Rng, ns tree.NodeStore) *Case {
	c := &Case{M: r.Range(2, 6)}
	pk.Modulus = c.M
	n := r.Range(60, 380)
	if r.Chance(1, 8) {
		n = r.Range(0, 12)
	}
	c.BaseA = toKVJ(genBase(r, n))
	a := buildVersion(ns, fromKVJ(c.BaseA))
	base := a
	addA := func(kind string) {
		es := genEdits(r, a, kind)
		c.EditsA = append(c.EditsA, toEditJ(es))
		a = applyVersion(a, es)
	}
	b := base
	addB := func(kind string) {
		es := genEdits(r, b, kind)
		c.EditsB = append(c.EditsB, toEditJ(es))
		b = applyVersion(b, es)
	}
	switch x := r.Intn(100); {
	case x < 50:
		c.Kind = "shared"
		for i, k := 0, r.Range(0, 2); i < k; i++ {
			addA(hx.Pick(r, editKinds))
		}
		for i, k := 0, r.Range(1, 2); i < k; i++ {
			addB(hx.Pick(r, editKinds))
		}
	case x < 62:
		c.Kind = "chain"
		addA(hx.Pick(r, editKinds))
		c.BFromA = true
		b = a
		for i, k := 0, r.Range(1, 2); i < k; i++ {
			addB(hx.Pick(r, editKinds))
		}
	case x < 66:
		c.Kind = "identical"
		addA("point")
		c.BFromA = true
		b = a
	case x < 70:
		c.Kind = "empty-from"
		c.OwnB = true
		c.BaseB = c.BaseA
		c.BaseA = nil
	case x < 74:
		c.Kind = "empty-to"
		c.OwnB = true
	case x < 75:
		c.Kind = "both-empty"
		c.BaseA = nil
		c.OwnB = true
	case x < 84:
		c.Kind = "unrelated"
		c.OwnB = true
		c.BaseB = toKVJ(genBase(r, r.Range(1, 300)))
	case x < 94:
		c.Kind = "heights"
		c.BFromA = r.Bool()
		if c.BFromA {
			addA("point")
			b = a
		}
		addB(hx.Pick(r, []string{"shrink", "grow"}))
		if r.Bool() {
			addB("boundary")
		}
	default:
		c.Kind = "recased"
		addB("recase")
		addB("recase")
	}
	return c
}

// bound / key placement
func pickPlace(r *hx.Rng, a, b Version) (key []byte, place string) {
	v := a
	if r.Bool() {
		v = b
	}
	other := a
	if &v == &a {
		other = b
	}
	_ = other
	leaves := v.Shape.Leaves
	switch r.Intn(9) {
	case 0:
		return []byte{0x01}, "before-first"
	case 1:
		return []byte("zzzzzz~"), "after-last"
	case 2, 3: // strictly inside a leaf shared by both versions
		var cands [][]byte
		for _, lf := range leaves {
			_, ina := a.Shape.Nodes[lf.Hash]
			_, inb := b.Shape.Nodes[lf.Hash]
			if ina && inb && len(lf.Keys) >= 3 {
				cands = append(cands, lf.Keys[1+r.Intn(len(lf.Keys)-2)])
			}
		}
		if len(cands) > 0 {
			return cands[r.Intn(len(cands))], "shared-inner"
		}
	case 4:
		if len(leaves) > 0 {
			lf := leaves[r.Intn(len(leaves))]
			if len(lf.Keys) > 0 {
				return lf.Keys[len(lf.Keys)-1], "leaf-last"
			}
		}
	case 5:
		if len(leaves) > 0 {
			lf := leaves[r.Intn(len(leaves))]
			if len(lf.Keys) > 0 {
				return lf.Keys[0], "leaf-first"
			}
		}
	case 6:
		if len(v.Content) > 0 {
			return swapCase(v.Content[r.Intn(len(v.Content))].K), "recased-existing"
		}
	case 7:
		if len(v.Content) > 0 {
			return v.Content[r.Intn(len(v.Content))].K, "existing"
		}
	}
	return genKey(r), "random"
}

func genOps(r *hx.Rng, a, b Version) []Op {
	ops := []Op{{Op: "diff"}}
	switch r.Intn(3) {
	case 0:
		ops = append(ops, Op{Op: "diff", Cam: true, Alt: true})
	case 1:
		ops = append(ops, Op{Op: "diff", Cam: true})
	default:
		ops = append(ops, Op{Op: "diff", Alt: true})
	}
	for i := 0; i < 3; i++ {
		lo, pl := pickPlace(r, a, b)
		hi, ph := pickPlace(r, a, b)
		if pk.CiCompare(lo, hi) > 0 && !r.Chance(1, 6) {
			lo, hi, pl, ph = hi, lo, ph, pl
		}
		op := Op{Op: "rdiff", Place: pl + "/" + ph}
		if pk.CiCompare(lo, hi) > 0 {
			op.Place = "inverted:" + op.Place
		}
		bnd := func(k []byte) string {
			switch r.Intn(7) {
			case 0:
				return "u"
			case 1, 2, 3:
				return "i:" + hx.Hex(k)
			}
			return "x:" + hx.Hex(k)
		}
		op.Lo, op.Hi = bnd(lo), bnd(hi)
		if r.Chance(1, 6) { // point range, BoundsAreEqual
			op.Lo, op.Hi, op.Eq = "i:"+hx.Hex(lo), "i:"+hx.Hex(lo), true
			op.Place = "point:" + pl
		} else if r.Chance(1, 20) {
			op.Eq, op.Malformed = true, true
		}
		if r.Chance(1, 4) {
			op.Alt = true
		}
		ops = append(ops, op)
	}
	for i := 0; i < 2; i++ {
		s, pl := pickPlace(r, a, b)
		e, ph := pickPlace(r, a, b)
		if pk.CiCompare(s, e) > 0 && !r.Chance(1, 6) {
			s, e, pl, ph = e, s, ph, pl
		}
		op := Op{Op: "kdiff", Start: hx.Hex(s), Stop: hx.Hex(e), Place: pl + "/" + ph}
		if pk.CiCompare(s, e) > 0 {
			op.Place = "inverted:" + op.Place
		}
		switch r.Intn(8) {
		case 0:
			op.Start = "_"
		case 1:
			op.Stop = "_"
		case 2:
			op.Start, op.Stop = "_", "_"
		}
		ops = append(ops, op)
	}
	return ops
}

// ---------------------------------------------------------------- running one op

func parseBound(s string) (binding, incl bool, v []byte) {
	if s == "u" {
		return false, false, nil
	}
	p := strings.SplitN(s, ":", 2)
	return true, p[0] == "i", hx.Unhex(p[1])
}

func implOp(a, b Version, op Op) string {
	return hx.Recover(func() string {
		from, to := a.Map, b.Map
		if op.Alt {
			to = prolly.NewMap(to.Node(), to.NodeStore(), pk.KeyDesc, pk.ValDescAlt)
		}
		var evs []pk.Event
		cb := func(_ context.Context, d tree.Diff) error { evs = append(evs, pk.FromDiff(d)); return nil }
		var err error
		switch op.Op {
		case "diff":
			err = prolly.DiffMaps(ctx, from, to, op.Cam, cb)
		case "rdiff":
			lb, li, lv := parseBound(op.Lo)
			hb, hi, hv := parseBound(op.Hi)
			rng := prolly.Range{Desc: pk.KeyDesc, Fields: []prolly.RangeField{{
				Lo: prolly.Bound{Binding: lb, Inclusive: li, Value: lv}, Hi: prolly.Bound{Binding: hb, Inclusive: hi, Value: hv}, BoundsAreEqual: op.Eq}}}
			err = prolly.RangeDiffMaps(ctx, from, to, rng, cb)
		case "kdiff":
			var s, e val.Tuple
			if op.Start != "_" {
				s = pk.KeyTuple(hx.Unhex(op.Start))
			}
			if op.Stop != "_" {
				e = pk.KeyTuple(hx.Unhex(op.Stop))
			}
			err = prolly.DiffMapsKeyRange(ctx, from, to, s, e, cb)
		}
		if err != nil && err != io.EOF {
			return "err " + err.Error()
		}
		return "ok " + pk.EventsString(evs)
	})
}

func expected(a, b Version, op Op) []pk.Event {
	same := !op.Alt
	switch op.Op {
	case "diff":
		return pk.BruteDiff(a.Content, b.Content, op.Cam, same, nil)
	case "rdiff":
		lb, li, lv := parseBound(op.Lo)
		hb, hi, hv := parseBound(op.Hi)
		return pk.BruteDiff(a.Content, b.Content, false, same, func(k []byte) bool {
			if lb {
				c := pk.CiCompare(k, lv)
				if c < 0 || (c == 0 && !li) {
					return false
				}
			}
			if hb {
				c := pk.CiCompare(k, hv)
				if c > 0 || (c == 0 && !hi) {
					return false
				}
			}
			return true
		})
	default:
		return pk.BruteDiff(a.Content, b.Content, false, same, func(k []byte) bool {
			if op.Start != "_" && pk.CiCompare(k, hx.Unhex(op.Start)) < 0 {
				return false
			}
			if op.Stop != "_" && pk.CiCompare(k, hx.Unhex(op.Stop)) >= 0 {
				return false
			}
			return true
		})
	}
}

func modelLine(ida, idb int, op Op) string {
	bit := func(b bool) string {
		if b {
			return "1"
		}
		return "0"
	}
	same := bit(!op.Alt)
	switch op.Op {
	case "diff":
		return fmt.Sprintf("diff %d %d %s %s", ida, idb, bit(op.Cam), same)
	case "rdiff":
		return fmt.Sprintf("rdiff %d %d %s %s %s %s", ida, idb, op.Lo, op.Hi, bit(op.Eq), same)
	}
	return fmt.Sprintf("kdiff %d %d %s %s %s", ida, idb, op.Start, op.Stop, same)
}

func runCase(e *hx.Env, sh *pk.Shipper, ns tree.NodeStore, c *Case) {
	if c.Comp != nil {
		if c.M > 0 {
			pk.Modulus = c.M
		}
		runComp(e, ns, c)
		return
	}
	a, b := realise(ns, c)
	if sh.Len() > 20000 {
		sh.Reset()
	}
	ida := sh.Ship(ctx, ns, a.Map.Node())
	idb := sh.Ship(ctx, ns, b.Map.Node())
	shared := pk.SharedFraction(a.Shape, b.Shape)
	e.Rep.Hit("pair:" + c.Kind)
	e.Rep.Hit(fmt.Sprintf("heights:%d/%d", a.Shape.Height, b.Shape.Height))
	switch {
	case shared == 0:
		e.Rep.Hit("shared-nodes:0")
	case shared < 0.5:
		e.Rep.Hit("shared-nodes:<50%")
	case shared < 0.9:
		e.Rep.Hit("shared-nodes:50-90%")
	default:
		e.Rep.Hit("shared-nodes:>=90%")
	}
	for _, op := range c.Ops {
		one := *c
		one.Ops = []Op{op}
		got := implOp(a, b, op)
		want := expected(a, b, op)
		mod := sh.M.Ask(modelLine(ida, idb, op))
		e.Rep.Hit("op:" + op.Op)
		if op.Place != "" {
			for _, p := range strings.Split(strings.TrimPrefix(strings.TrimPrefix(op.Place, "inverted:"), "point:"), "/") {
				e.Rep.Hit("end:" + p)
			}
			if strings.HasPrefix(op.Place, "inverted:") {
				e.Rep.Hit("range:inverted")
			}
		}
		switch {
		case len(want) == 0:
			e.Rep.Hit("events:0")
		case len(want) <= 5:
			e.Rep.Hit("events:1-5")
		default:
			e.Rep.Hit("events:>5")
		}
		nontrivial := (shared > 0 && len(want) > 0) || strings.Contains(op.Place, "shared-inner") || strings.Contains(op.Place, "leaf-") || a.Shape.Height != b.Shape.Height
		canon := fmt.Sprintf("%d|%s|%s|%+v", c.M, pk.EventsString(want), a.Map.HashOf().String()+b.Map.HashOf().String(), op)
		e.Rep.Count(canon, nontrivial)
		e.Rep.Sample(map[string]any{"kind": c.Kind, "m": c.M, "sizes": []int{len(a.Content), len(b.Content)}, "heights": []int{a.Shape.Height, b.Shape.Height}, "op": op, "impl": trunc(got), "model": trunc(mod)})
		if !op.Malformed {
			if exp := "ok " + pk.EventsString(want); got != exp {
				if os.Getenv("PD_DEBUG") != "" {
					fmt.Fprintf(os.Stderr, "IMPL %s\nWANT %s\nMODEL %s\n", got, exp, mod)
				}
				e.Rep.Violate(apiName(op)+"/"+c.Kind+"/"+placeClass(op), fmt.Sprintf("%s%s: real differ reports %s, brute-force diff of the materialised maps says %s", apiName(op), opArgs(op), firstDiff(got, exp), ""), one)
				continue
			}
		} else {
			e.Rep.Hit("malformed-range")
		}
		if strings.HasPrefix(mod, "fuel") {
			e.Rep.Hit("model:fuel")
		}
		if got != mod {
			e.Rep.Disagree(one, trunc(got), trunc(mod), "first difference: "+firstDiff(got, mod))
		}
	}
}

func apiName(op Op) string {
	switch op.Op {
	case "diff":
		return "DiffMaps"
	case "rdiff":
		return "RangeDiffMaps"
	}
	return "DiffMapsKeyRange"
}
func opArgs(op Op) string {
	switch op.Op {
	case "diff":
		return fmt.Sprintf("(cam=%v,alt=%v)", op.Cam, op.Alt)
	case "rdiff":
		return fmt.Sprintf("(lo=%s,hi=%s,eq=%v)", op.Lo, op.Hi, op.Eq)
	}
	return fmt.Sprintf("(start=%s,stop=%s)", op.Start, op.Stop)
}
func placeClass(op Op) string {
	switch {
	case op.Op == "diff":
		return "whole"
	case strings.HasPrefix(op.Place, "inverted:"):
		return "inverted"
	case strings.Contains(op.Place, "shared-inner"):
		return "end-in-shared-subtree"
	case strings.Contains(op.Place, "leaf-"):
		return "end-at-node-boundary"
	}
	return "other"
}

func trunc(s string) string {
	if len(s) > 600 {
		return s[:600] + "…"
	}
	return s
}

// firstDiff shows the first event at which two answers differ.
func firstDiff(x, y string) string {
	xs, ys := strings.Split(x, ","), strings.Split(y, ",")
	for i := 0; i < len(xs) || i < len(ys); i++ {
		var p, q string
		if i < len(xs) {
			p = xs[i]
		}
		if i < len(ys) {
			q = ys[i]
		}
		if p != q {
			return fmt.Sprintf("event #%d: %q vs %q (lengths %d vs %d)", i, p, q, len(xs), len(ys))
		}
	}
	return "none"
}

func main() {
	e := hx.Init("prollydiff", "C13")
	defer e.Finish()
	e.Rep.Rule = "pairs of prolly maps built through the public API under an injected deterministic splitter (modulus 2–6 ⇒ 3–7 levels for 60–380 keys), related by edit scripts biased to chunk boundaries / whole-leaf deletes / inserted runs / re-cased keys / NULL-suffix aliases / height changes, plus unrelated and empty sides; per pair: DiffMaps (cam on/off, value descriptor same/different), RangeDiffMaps and DiffMapsKeyRange with ends inside subtrees shared by both versions, at leaf boundaries, before first / after last, on existing / absent / re-cased keys, inverted, unbounded; every 6th case: RangeDiffMaps over maps with a two-field key (a, b) (default comparator, with or without values) and PrefixRange(a = p) carrying the PREFIX descriptor, edits that delete / insert / re-point keys sharing the prefix, checked against the key-wise diff on the full key restricted to that prefix (no model). nontrivial = the two versions share ≥1 node and differ in ≥1 key within the range, or a range end lies in a shared subtree / at a leaf boundary, or heights differ; distinct by (modulus, both root hashes, op, expected events)"
	pk.SelfCheck()
	restore := pk.InstallSplitter()
	defer restore()
	m := e.MustModel()
	defer m.Close()
	sh := pk.NewShipper(m)
	ns := pk.NewNodeStore()
	if e.Replay != "" {
		rf, err := hx.LoadReplay(e.Replay)
		if err != nil {
			panic(err)
		}
		var c Case
		if err := json.Unmarshal(rf.Case, &c); err != nil {
			panic(err)
		}
		runCase(e, sh, ns, &c)
		return
	}
	for _, raw := range e.CorpusCases() {
		var c Case
		if json.Unmarshal(raw, &c) == nil {
			runCase(e, sh, ns, &c)
		}
	}
	n := e.N(450, 9000)
	for i := 0; i < n; i++ {
		if i%200 == 199 {
			ns = pk.NewNodeStore() // keep the in-memory store small
		}
		r := e.Rng.Fork()
		if i%6 == 5 {
			m := r.Range(2, 6)
			pk.Modulus = m
			runCase(e, sh, ns, &Case{M: m, Kind: "composite-prefix", Comp: genComp(r)})
			continue
		}
		c := genCase(r, ns)
		a, b := realise(ns, c)
		c.Ops = genOps(r, a, b)
		runCase(e, sh, ns, c)
	}
}
