// journalindex: correspondence + property oracle for C04 (the journal index file never changes what
// the database contains).  Real journals with several index batches are written by the real store;
// the index is replaced by variants (every truncation point, single-byte flips per field, swapped
// batches, foreign index, random bytes, missing, empty); each (journal, index) pair is bootstrapped
// by the real code read-only and read-write, and by the Lean model; the oracle compares root and
// every readable chunk with the index-free bootstrap and hashes both files around read-only opens.
package main

import (
	"bytes"
	"context"
	"crypto/sha256"
	"encoding/json"
	"errors"
	"flag"
	"fmt"
	"os"
	"os/exec"
	"path/filepath"
	"runtime"
	"sort"
	"strings"
	"sync/atomic"
	"syscall"
	"time"

	"github.com/dolthub/dolt/go/store/hash"
	"github.com/dolthub/dolt/go/store/nbs"

	"verif/harness/internal/hx"
	"verif/harness/internal/jrnkit"
)

type variant struct {
	Kind  string `json:"kind"` // orig missing empty trunc flip swap foreign random
	At    int    `json:"at,omitempty"`
	Bit   int    `json:"bit,omitempty"`
	Field string `json:"field,omitempty"`
	Seed  uint64 `json:"seed,omitempty"`
	CW    bool   `json:"cw"`
}

type kase struct {
	Hist jrnkit.History `json:"hist"`
	V    *variant       `json:"v,omitempty"`
}

var e *hx.Env
var m *hx.Model
var fastDir string

func effB(h jrnkit.History) uint32 {
	if h.B == 0 {
		return 5 * 1024 * 1024
	}
	return h.B
}

func genHistory(r *hx.Rng, idBase uint64) jrnkit.History {
	h := jrnkit.History{B: hx.Pick(r, []uint32{4096, 2048}), MaxNovel: r.Range(1, 3)}
	nc := r.Range(3, 6)
	id := idBase
	for c := 0; c < nc; c++ {
		cs := jrnkit.CommitSpec{}
		n := r.Range(1, 5)
		for i := 0; i < n; i++ {
			id++
			cs.Chunks = append(cs.Chunks, jrnkit.ChunkSpec{Kind: hx.Pick(r, []string{"rand", "rep", "tiny"}), Size: r.Range(0, 200), Id: id})
		}
		if c > 1 && r.Chance(1, 4) {
			cs.Reopen = true
		}
		h.Commits = append(h.Commits, cs)
	}
	return h
}

// field layout of an index file (independent little parser)
type idxField struct {
	Off, Len int
	Name     string
}

func idxFields(idx []byte) (fs []idxField, batchEnds []int) {
	off := 0
	for off < len(idx) {
		switch idx[off] {
		case 0:
			if off+29 > len(idx) {
				return
			}
			fs = append(fs, idxField{off, 1, "tag"}, idxField{off + 1, 16, "lookup.addr16"}, idxField{off + 17, 8, "lookup.offset"}, idxField{off + 25, 4, "lookup.length"})
			off += 29
		case 1:
			if off+41 > len(idx) {
				return
			}
			fs = append(fs, idxField{off, 1, "tag"}, idxField{off + 1, 8, "meta.start"}, idxField{off + 9, 8, "meta.end"}, idxField{off + 17, 4, "meta.checksum"}, idxField{off + 21, 20, "meta.root"})
			off += 41
			batchEnds = append(batchEnds, off)
		default:
			return
		}
	}
	return
}

func mkVariant(bt, other *jrnkit.Built, v variant) []byte {
	idx := append([]byte{}, bt.Index...)
	switch v.Kind {
	case "orig":
		return idx
	case "missing":
		return nil
	case "empty":
		return []byte{}
	case "trunc":
		return idx[:min(v.At, len(idx))]
	case "flip", "fliphigh":
		if v.At < len(idx) {
			idx[v.At] ^= 1 << uint(v.Bit%8)
		}
		return idx
	case "swap":
		_, ends := idxFields(idx)
		if len(ends) < 2 {
			return idx
		}
		a, b := idx[:ends[0]], idx[ends[0]:ends[1]]
		return append(append(append([]byte{}, b...), a...), idx[ends[1]:]...)
	case "foreign":
		return append([]byte{}, other.Index...)
	case "random":
		r := hx.NewRng(v.Seed)
		g := r.Bytes(r.Range(1, 200))
		if r.Chance(1, 2) {
			g[0] = byte(r.Intn(2))
		}
		return g
	}
	panic("bad variant")
}

type view struct {
	Class string
	Root  hash.Hash
	Off   int64
	Idxd  int64
	Reads map[hash.Hash]string // sha of bytes | "absent" | "err:…"
	Boot  nbs.VerifJrnBoot
}

func bootView(dir string, bt *jrnkit.Built, canWrite bool, maxNovel int) (v view) {
	defer func() {
		if p := recover(); p != nil {
			v.Class = fmt.Sprintf("panic: %v", p)
		}
	}()
	v.Reads = map[hash.Hash]string{}
	b, err := nbs.VerifJrnBootstrap(jrnkit.Ctx, dir, canWrite, maxNovel, func(get func(h hash.Hash) ([]byte, bool, error)) {
		for h := range bt.Data {
			var d []byte
			var ok bool
			var err error
			func() {
				defer func() {
					if p := recover(); p != nil {
						err = fmt.Errorf("panic: %v", p)
					}
				}()
				d, ok, err = get(h)
			}()
			switch {
			case err != nil:
				v.Reads[h] = "err"
			case !ok:
				v.Reads[h] = "absent"
			default:
				s := sha256.Sum256(d)
				v.Reads[h] = fmt.Sprintf("%x", s[:8])
			}
		}
	})
	if err != nil {
		if errors.Is(err, nbs.ErrJournalDataLoss) {
			v.Class = "dataloss"
		} else {
			v.Class = "err:" + err.Error()
		}
		return
	}
	v.Class, v.Root, v.Off, v.Idxd, v.Boot = "ok", b.Root, b.Off, b.Indexed, b
	return
}

// ---------------------------------------------------------------- isolation
//
// Index damage that passes validation can make a read allocate gigabytes or (reported by the C10
// builder) hang.  Variants that touch the unprotected offset/length bytes with large values are
// therefore bootstrapped in a child process under an address-space limit and a deadline; every
// other variant runs in-process under a watchdog (deadline + heap ceiling) that turns a runaway
// open into a reported violation instead of taking the check down.

type isoReq struct {
	Dir      string   `json:"dir"`
	CW       bool     `json:"cw"`
	MaxNovel int      `json:"maxNovel"`
	B        uint32   `json:"B"`
	Addrs    []string `json:"addrs"`
}

type isoResp struct {
	Class string            `json:"class"`
	Root  string            `json:"root"`
	Reads map[string]string `json:"reads"`
}

func workerMain(reqJSON string) {
	var rq isoReq
	if err := json.Unmarshal([]byte(reqJSON), &rq); err != nil {
		os.Exit(3)
	}
	lim := syscall.Rlimit{Cur: 6 << 30, Max: 6 << 30}
	syscall.Setrlimit(syscall.RLIMIT_AS, &lim)
	nbs.VerifJrnSetBuffSize(rq.B)
	bt := &jrnkit.Built{Data: map[hash.Hash][]byte{}}
	for _, a := range rq.Addrs {
		bt.Data[hash.Parse(a)] = nil
	}
	v := bootView(rq.Dir, bt, rq.CW, rq.MaxNovel)
	out := isoResp{Class: v.Class, Root: v.Root.String(), Reads: map[string]string{}}
	for h, r := range v.Reads {
		out.Reads[h.String()] = r
	}
	b, _ := json.Marshal(out)
	os.Stdout.Write(b)
}

func isolatedView(dir string, bt *jrnkit.Built, cw bool, mx int) view {
	rq := isoReq{Dir: dir, CW: cw, MaxNovel: mx, B: effB(bt.Hist)}
	for h := range bt.Data {
		rq.Addrs = append(rq.Addrs, h.String())
	}
	rj, _ := json.Marshal(rq)
	exe, _ := os.Executable()
	ctx, cancel := context.WithTimeout(context.Background(), time.Duration(e.N(6, 10))*time.Second)
	defer cancel()
	cmd := exec.CommandContext(ctx, exe, "-worker", "-req", string(rj))
	out, err := cmd.Output()
	v := view{Reads: map[hash.Hash]string{}}
	if ctx.Err() != nil {
		v.Class = "child-timeout"
		return v
	}
	if err != nil {
		v.Class = "child-died"
		return v
	}
	var rs isoResp
	if json.Unmarshal(out, &rs) != nil {
		v.Class = "child-died"
		return v
	}
	v.Class = rs.Class
	v.Root = hash.Parse(rs.Root)
	for a, r := range rs.Reads {
		v.Reads[hash.Parse(a)] = r
	}
	return v
}

var wdVariant atomic.Value // string: the variant being evaluated
var wdStart atomic.Int64

func startWatchdog() {
	go func() {
		for {
			time.Sleep(200 * time.Millisecond)
			st := wdStart.Load()
			if st == 0 {
				continue
			}
			var ms runtime.MemStats
			runtime.ReadMemStats(&ms)
			tooLong := time.Since(time.Unix(0, st)) > 90*time.Second
			tooBig := ms.HeapAlloc > 6<<30
			if tooLong || tooBig {
				what := fmt.Sprintf("bootstrapping this index did not finish within 90 s (heap %d MiB)", ms.HeapAlloc>>20)
				if tooBig {
					what = fmt.Sprintf("bootstrapping this index drove the heap to %d MiB", ms.HeapAlloc>>20)
				}
				cs, _ := wdVariant.Load().(string)
				if cs == "" {
					cs = "null"
				}
				e.Rep.Violate("journal-index-runaway-open", what, json.RawMessage(cs))
				e.Finish()
				os.Exit(0)
			}
		}
	}()
}

func implGet(b nbs.VerifJrnBoot, h hash.Hash) string {
	for _, r := range b.Novel {
		if bytes.Equal(r.Addr, h[:]) {
			return fmt.Sprintf("some %d %d", r.Offset, r.Length)
		}
	}
	for _, r := range b.Cached {
		if bytes.Equal(r.Addr, h[:16]) {
			return fmt.Sprintf("some %d %d", r.Offset, r.Length)
		}
	}
	return "none"
}

func sha(path string) string {
	b, err := os.ReadFile(path)
	if err != nil {
		return "missing"
	}
	s := sha256.Sum256(b)
	return fmt.Sprintf("%x", s[:])
}

func diffViews(a, b view) string {
	if a.Class != b.Class {
		return fmt.Sprintf("outcome %s vs %s", a.Class, b.Class)
	}
	if a.Root != b.Root {
		return fmt.Sprintf("root %s vs %s", a.Root, b.Root)
	}
	var hs []string
	for h := range b.Reads {
		if a.Reads[h] != b.Reads[h] {
			hs = append(hs, fmt.Sprintf("%s: %s vs %s", h, a.Reads[h], b.Reads[h]))
		}
	}
	sort.Strings(hs)
	if len(hs) > 0 {
		return "readable chunks differ: " + strings.Join(hs[:min(3, len(hs))], "; ")
	}
	return ""
}

func evalVariant(bt, other *jrnkit.Built, v variant, dir string, base map[bool]view) {
	kc := kase{Hist: bt.Hist, V: &v}
	idx := mkVariant(bt, other, v)
	canon, _ := json.Marshal(kc)
	e.Rep.Count(string(canon), v.Kind != "orig" && v.Kind != "missing")
	e.Rep.Hit("variant:" + v.Kind)
	if v.Field != "" {
		e.Rep.Hit("flip:" + v.Field)
	}
	if err := jrnkit.WriteImage(dir, bt.FileClosed, bt.ManifestClose, idx); err != nil {
		panic(err)
	}
	jp, ip := filepath.Join(dir, nbs.VerifJrnFileName), filepath.Join(dir, nbs.VerifJrnIndexFileName)
	j0, i0 := sha(jp), sha(ip)
	mx := bt.Hist.MaxNovel
	wdVariant.Store(string(canon))
	wdStart.Store(time.Now().UnixNano())
	defer wdStart.Store(0)
	var got view
	if v.Kind == "fliphigh" {
		got = isolatedView(dir, bt, v.CW, mx)
		e.Rep.Hit("isolated:" + v.Field + ":" + got.Class)
		if d := diffViews(got, base[v.CW]); d != "" {
			e.Rep.Known("journal-index-offset-unprotected", "the journal index batch checksum covers only the addr16 of each lookup: a flipped bit in a lookup's offset/length passes validation and changes which chunks are readable", kc)
			e.Rep.Hit("isolated-differs:" + strings.SplitN(d, " ", 2)[0])
		}
		if !v.CW {
			if j1, i1 := sha(jp), sha(ip); j1 != j0 || i1 != i0 {
				e.Rep.Violate("journal-readonly-modifies-files/"+v.Kind, "read-only bootstrap changed files", kc)
			}
		}
		return
	}
	got = bootView(dir, bt, v.CW, mx)
	e.Rep.Hit("boot:" + strings.SplitN(got.Class, ":", 2)[0])
	if got.Class == "ok" && got.Idxd > 0 {
		e.Rep.Hit("index-accepted")
	} else if got.Class == "ok" {
		e.Rep.Hit("index-ignored-or-rejected")
	}
	// oracle 1: same root and same readable chunks as with no index at all
	if d := diffViews(got, base[v.CW]); d != "" {
		if v.Kind == "flip" && (v.Field == "lookup.offset" || v.Field == "lookup.length") {
			e.Rep.Known("journal-index-offset-unprotected", "the journal index batch checksum covers only the addr16 of each lookup: a flipped bit in a lookup's offset/length passes validation and changes which chunks are readable", kc)
		} else {
			e.Rep.Violate("journal-index-changes-view/"+v.Kind+"/"+v.Field, "bootstrapping with this index differs from bootstrapping without an index: "+d, kc)
		}
	}
	// oracle 2: a read-only open never modifies either file
	if !v.CW {
		if j1, i1 := sha(jp), sha(ip); j1 != j0 || i1 != i0 {
			e.Rep.Violate("journal-readonly-modifies-files/"+v.Kind, fmt.Sprintf("read-only bootstrap changed files: journal %v index %v", j1 != j0, i1 != i0), kc)
		}
	}
	// model
	is := "none"
	if idx != nil {
		is = hx.Hex(idx)
		if len(idx) == 0 {
			is = "-"
		}
	}
	cw := "0"
	if v.CW {
		cw = "1"
	}
	mo := m.Ask(fmt.Sprintf("iboot %d %d %s %s", effB(bt.Hist), mx, is, cw))
	var io string
	switch got.Class {
	case "ok":
		root := "-"
		if !got.Root.IsEmpty() {
			root = hx.Hex(got.Root[:])
		}
		io = fmt.Sprintf("ok %s %d %d", root, got.Off, got.Idxd)
	case "dataloss":
		io = "dataloss"
	default:
		io = got.Class
	}
	mw := strings.Fields(mo)
	mcmp := mo
	if len(mw) >= 4 && mw[0] == "ok" {
		mcmp = strings.Join(mw[:4], " ")
	} else if len(mw) > 0 && mw[0] == "dataloss" {
		mcmp = "dataloss"
	}
	if io != mcmp {
		e.Rep.Disagree(kc, io, mo, "bootstrap outcome")
		return
	}
	if got.Class == "ok" {
		// read-only model bootstrap performs no file operation
		if !v.CW && len(mw) >= 6 && mw[5] != "[]" {
			e.Rep.Disagree(kc, "read-only", mo, "model performs file operations in read-only mode")
		}
		for h := range bt.Data {
			ig := implGet(got.Boot, h)
			mg := m.Ask("iget " + hx.Hex(h[:]))
			if ig != mg {
				e.Rep.Disagree(kc, ig, mg, "range of "+h.String())
				break
			}
		}
	}
	if len(e.Rep.Samples) < 4 && v.Kind != "orig" {
		e.Rep.Sample(map[string]any{"journal_len": len(bt.FileClosed), "index_len": len(bt.Index), "variant": v, "impl": io})
	}
}

func runHistory(h, h2 jrnkit.History, only *variant, r *hx.Rng, n int) {
	root := filepath.Join(fastDir, fmt.Sprintf("h%d", n))
	defer os.RemoveAll(root)
	kc := kase{Hist: h}
	bt, err := jrnkit.Build(filepath.Join(root, "a"), h)
	if err != nil {
		e.Rep.Disagree(kc, "build failed: "+err.Error(), "-", "history")
		return
	}
	other, err := jrnkit.Build(filepath.Join(root, "b"), h2)
	if err != nil {
		e.Rep.Disagree(kc, "build failed: "+err.Error(), "-", "history")
		return
	}
	old := nbs.VerifJrnSetBuffSize(effB(h))
	defer nbs.VerifJrnSetBuffSize(old)
	fs, ends := idxFields(bt.Index)
	e.Rep.Hit(fmt.Sprintf("batches:%d", min(len(ends), 4)))
	e.Rep.TracesValidated++
	if r := m.Ask("load " + hx.Hex(bt.FileClosed)); !strings.HasPrefix(r, "ok") {
		panic("model load: " + r)
	}
	dir := filepath.Join(root, "v")
	// baseline: no index at all
	base := map[bool]view{}
	for _, cw := range []bool{false, true} {
		jrnkit.WriteImage(dir, bt.FileClosed, bt.ManifestClose, nil)
		base[cw] = bootView(dir, bt, cw, h.MaxNovel)
		if base[cw].Class != "ok" {
			e.Rep.Disagree(kc, base[cw].Class, "ok", "index-free bootstrap of a clean journal")
			return
		}
	}
	if only != nil {
		evalVariant(bt, other, *only, dir, base)
		return
	}
	var vs []variant
	for _, cw := range []bool{false, true} {
		vs = append(vs, variant{Kind: "orig", CW: cw}, variant{Kind: "missing", CW: cw}, variant{Kind: "empty", CW: cw},
			variant{Kind: "swap", CW: cw}, variant{Kind: "foreign", CW: cw})
	}
	for i := 0; i < 4; i++ {
		vs = append(vs, variant{Kind: "random", Seed: r.U64(), CW: r.Bool()})
	}
	// truncation: every point (thorough) / all record boundaries ±1 and a sample (quick)
	if e.Thorough() {
		for k := 0; k <= len(bt.Index); k++ {
			vs = append(vs, variant{Kind: "trunc", At: k, CW: k%2 == 0})
		}
	} else {
		set := map[int]bool{}
		for _, f := range fs {
			if f.Name == "tag" || r.Chance(1, 3) {
				set[f.Off], set[f.Off+1] = true, true
			}
		}
		for i := 0; i < 10; i++ {
			set[r.Intn(len(bt.Index)+1)] = true
		}
		for k := range set {
			vs = append(vs, variant{Kind: "trunc", At: k, CW: r.Bool()})
		}
	}
	// flips: one bit of one byte of every field of every record (quick); every byte (thorough)
	for _, f := range fs {
		if e.Thorough() {
			for b := 0; b < f.Len; b++ {
				if f.Name == "lookup.length" && b < 2 {
					continue
				}
				vs = append(vs, variant{Kind: "flip", At: f.Off + b, Bit: r.Intn(8), Field: f.Name, CW: r.Bool()})
			}
		} else {
			at := f.Off + r.Intn(f.Len)
			if f.Name == "lookup.length" {
				at = f.Off + 2 + r.Intn(2) // a flip in the two high bytes makes every read allocate up to 4 GiB
			}
			vs = append(vs, variant{Kind: "flip", At: at, Bit: r.Intn(8), Field: f.Name, CW: r.Bool()})
		}
	}
	// high-order bytes of the unprotected length (multi-GiB allocation) and offset: isolated child
	nhigh := map[string]int{}
	for _, f := range fs {
		if (f.Name == "lookup.length" || f.Name == "lookup.offset") && nhigh[f.Name] < e.N(1, 2) && r.Chance(1, 3) {
			nhigh[f.Name]++
			vs = append(vs, variant{Kind: "fliphigh", At: f.Off + r.Intn(2), Bit: 4 + r.Intn(4), Field: f.Name, CW: false})
		}
	}
	sort.SliceStable(vs, func(i, j int) bool { return vs[i].Kind < vs[j].Kind })
	for _, v := range vs {
		t1 := time.Now()
		evalVariant(bt, other, v, dir, base)
		if os.Getenv("VERIF_DEBUG") == "2" {
			fmt.Fprintf(os.Stderr, "variant %+v %.3fs (of %d)\n", v, time.Since(t1).Seconds(), len(vs))
		}
	}
}

func main() {
	worker := flag.Bool("worker", false, "internal: isolated bootstrap")
	req := flag.String("req", "", "internal: isolated bootstrap request")
	for _, a := range os.Args[1:] {
		if a == "-worker" {
			flag.Parse()
			_ = worker
			workerMain(*req)
			return
		}
	}
	e = hx.Init("journalindex", "C04")
	defer e.Finish()
	startWatchdog()
	fastDir = e.Scratch
	if d, err := os.MkdirTemp("/dev/shm", "verif-journalindex-"); err == nil && os.Getenv("VERIF_NO_SHM") == "" {
		fastDir = d
		defer os.RemoveAll(d)
	}
	m = e.MustModel()
	defer m.Close()
	e.Rep.Rule = "a case = (journal with several index batches written by the real store, index variant, read-only|read-write); non-trivial when the index is neither the original nor missing; distinct by SHA-256 of the canonical case"
	run := func(raw json.RawMessage, n int) {
		var kc kase
		if err := json.Unmarshal(raw, &kc); err != nil {
			panic(err)
		}
		r := hx.NewRng(uint64(n) + 7)
		runHistory(kc.Hist, genHistory(r, 990000), kc.V, r, n)
	}
	if e.Replay != "" {
		rf, err := hx.LoadReplay(e.Replay)
		if err != nil {
			panic(err)
		}
		run(rf.Case, 0)
		return
	}
	for i, c := range e.CorpusCases() {
		run(c, 1000+i)
	}
	hr := e.Rng.Fork()
	t0 := time.Now()
	for i := 0; i < e.N(4, 30); i++ {
		r := hr.Fork()
		h := genHistory(r, uint64(i+1)*100000+e.Seed*1000000007)
		h2 := genHistory(r, uint64(i+1)*100000+50000+e.Seed*1000000007)
		ev0 := e.Rep.Evaluations
		runHistory(h, h2, nil, r, i)
		if os.Getenv("VERIF_DEBUG") != "" {
			fmt.Fprintf(os.Stderr, "history %d: %d variants, %.1fs total\n", i, e.Rep.Evaluations-ev0, time.Since(t0).Seconds())
		}
	}
}
