package main

import (
	"context"
	"fmt"
	"strings"

	"github.com/dolthub/dolt/go/libraries/doltcore/doltdb"
	"github.com/dolthub/dolt/go/libraries/utils/filesys"
	"github.com/dolthub/dolt/go/store/hash"
	"github.com/dolthub/dolt/go/store/types"
)

// remoteBranchHeads reads refs/heads/* of the file remote at path directly from its store.
func remoteBranchHeads(path string) map[string]string {
	ctx := context.Background()
	ddb, err := doltdb.LoadDoltDB(ctx, types.Format_DOLT, "file://"+path, filesys.LocalFS)
	if err != nil {
		panic(fmt.Sprintf("open remote: %v", err))
	}
	out := map[string]string{}
	dm, err := doltdb.ExposeDatabaseFromDoltDB(ddb).Datasets(ctx)
	if err != nil {
		panic(err)
	}
	err = dm.IterAll(ctx, func(id string, addr hash.Hash) error {
		if strings.HasPrefix(id, "refs/heads/") {
			out[strings.TrimPrefix(id, "refs/heads/")] = addr.String()
		}
		return nil
	})
	if err != nil {
		panic(err)
	}
	return out
}
