// replication: correspondence + property oracle for C45 (push-on-write replication to a remote and
// read-replica pulls; the cluster commit hook is covered by the Lean model and the translator
// facts only — see design/C45.md).
//
// One case = one seeded world: a primary engine whose commits are replicated by the real
// push-on-write commit hook (dolt_replicate_to_remote) to a file remote served through the
// fault-injecting scheme faulty://, and a replica engine opened with dolt_read_replica_remote /
// dolt_replicate_all_heads on a clone of that remote.  Ops: commits on several branches with the
// remote up or made unavailable (push fails), reads on the replica (every transaction start
// pulls), and two commits on one branch whose hook executions overlap (the first hook's ref update
// held back until the second completed).  Oracle on the implementation:
//   * every (branch, head) the remote or the replica shows is a head the primary had earlier;
//   * a commit that returned left the remote's branch at that commit, or a warning was logged;
//   * after quiescence plus one successful replication per branch the replica equals the primary.
// Every op is mirrored on the Lean model (Model/Replication.lean, machine B) and the remote's and
// the replica's heads are compared.
package main

import (
	"bytes"
	"encoding/json"
	"fmt"
	"os"
	"path/filepath"
	"sort"
	"strings"
	"sync"
	"time"

	"github.com/dolthub/dolt/go/cmd/dolt/cli"

	"verif/harness/internal/hx"
	"verif/harness/internal/replfault"
	"verif/harness/internal/sqleng"
)

type kase struct {
	Seed uint64 `json:"seed"`
	Ops  int    `json:"ops"`
	Race bool   `json:"race"`
}

type safeBuf struct {
	mu sync.Mutex
	b  bytes.Buffer
}

func (s *safeBuf) Write(p []byte) (int, error) {
	s.mu.Lock()
	defer s.mu.Unlock()
	return s.b.Write(p)
}

func (s *safeBuf) take() string {
	s.mu.Lock()
	defer s.mu.Unlock()
	out := s.b.String()
	s.b.Reset()
	return out
}

var hookLog = &safeBuf{}

type world struct {
	e      *hx.Env
	k      kase
	r      *hx.Rng
	m      *hx.Model
	p, q   *sqleng.Engine
	ps, qs *sqleng.Session
	rem    string
	// commit number (model's `fresh`) of every primary commit made after replication was enabled
	num   map[string]int
	next  int
	bid   map[string]int
	hist  map[string]map[string]bool // branch -> every head the primary's branch ever had
	trace []string
	nrow  int
}

func (w *world) logf(f string, a ...any) { w.trace = append(w.trace, fmt.Sprintf(f, a...)) }

func (w *world) tr() string {
	t := w.trace
	if len(t) > 40 {
		t = t[len(t)-40:]
	}
	return strings.Join(t, " ; ")
}

func (w *world) violate(key, what string) { w.e.Rep.Violate(key, what+" | trace: "+w.tr(), w.k) }

func (w *world) ask(line string) string {
	resp := w.m.Ask(line)
	if strings.HasPrefix(resp, "model-dead") || resp == "bad-op" {
		panic("model: " + line + " -> " + resp)
	}
	return resp
}

func must(s *sqleng.Session, q string) *sqleng.Result {
	r := s.Exec(q)
	if r.Err != nil {
		panic(fmt.Sprintf("setup: %q: %v", q, r.Err))
	}
	return r
}

func branchHeads(s *sqleng.Session, table, prefix string) map[string]string {
	r := s.Exec("select name, hash from " + table)
	out := map[string]string{}
	if r.Err != nil {
		return out
	}
	for _, row := range r.Rows {
		n := strings.Trim(row[0], `"`)
		if prefix != "" {
			if !strings.HasPrefix(n, prefix) {
				continue
			}
			n = strings.TrimPrefix(n, prefix)
		}
		out[n] = strings.Trim(row[1], `"`)
	}
	return out
}

// remoteHeads reads the remote through a throw-away clone-free path: the primary's view of the
// remote after an explicit fetch would go through the code under test, so read the remote store
// directly with a plain file:// DoltDB (same singleton store).
func (w *world) remoteHeads() map[string]string { return remoteBranchHeads(w.rem) }

func (w *world) record() {
	for b, h := range branchHeads(w.ps, "dolt_branches", "") {
		if w.hist[b] == nil {
			w.hist[b] = map[string]bool{}
		}
		w.hist[b][h] = true
	}
}

// canon renders heads as the model does: [branch ids][commit numbers], sorted by branch id;
// heads that predate replication (no number) are shown as 0 and dropped (the model never saw them).
func (w *world) canon(heads map[string]string) string {
	type pr struct{ b, c int }
	var ps []pr
	for b, h := range heads {
		id, ok := w.bid[b]
		if !ok {
			continue
		}
		c, ok := w.num[h]
		if !ok {
			c = -1
		}
		ps = append(ps, pr{id, c})
	}
	sort.Slice(ps, func(i, j int) bool { return ps[i].b < ps[j].b })
	var bs, cs []string
	for _, p := range ps {
		bs = append(bs, fmt.Sprint(p.b))
		cs = append(cs, fmt.Sprint(p.c))
	}
	return "[" + strings.Join(bs, ",") + "][" + strings.Join(cs, ",") + "]"
}

func field(line, key string) string {
	for _, f := range strings.Fields(line) {
		if strings.HasPrefix(f, key+"=") {
			return strings.TrimPrefix(f, key+"=")
		}
	}
	return ""
}

func (w *world) compareRemote(resp, after string) {
	impl := w.canon(w.remoteHeads())
	model := field(resp, "remote")
	if impl != model {
		w.e.Rep.Disagree(w.k, "remote="+impl, "remote="+model, after+" | trace: "+w.tr())
	}
	w.e.Rep.TracesValidated++
}

// the remote never shows a head the primary's branch did not have
func (w *world) checkRemoteSubset(after string) {
	for b, h := range w.remoteHeads() {
		if !w.hist[b][h] {
			w.violate("remote-invented-head", fmt.Sprintf("after %s: remote branch %s = %s was never the primary's head of that branch", after, b, h))
		}
	}
}

func (w *world) commitOn(s *sqleng.Session, b string) (string, error) {
	must(s, fmt.Sprintf("call dolt_checkout('%s')", b))
	w.nrow++
	must(s, fmt.Sprintf("insert into t values (%d, '%s-%d')", w.nrow, b, w.nrow))
	r := s.Exec(fmt.Sprintf("call dolt_commit('-Am','%s %d')", b, w.nrow))
	if r.Err != nil {
		return "", r.Err
	}
	return strings.Trim(r.Rows[0][0], `"`), nil
}

func (w *world) opCommit(b string, up bool) {
	kind := ""
	if !up {
		kind = hx.Pick(w.r, []string{"A", "C", "W"})
	}
	hookLog.take()
	replfault.Plan.Set(kind, 0, false)
	h, err := w.commitOn(w.ps, b)
	_, fired, _ := replfault.Plan.Clear()
	logged := hookLog.take()
	desc := fmt.Sprintf("commit %s up=%v", b, up)
	if err != nil {
		w.logf("%s -> error %v", desc, err)
		w.e.Rep.Disagree(w.k, "commit failed: "+err.Error(), "ok", desc)
		return
	}
	w.next++
	w.num[h] = w.next
	w.record()
	w.logf("%s -> #%d fired=%v warned=%v", desc, w.next, fired, logged != "")
	w.e.Rep.Hit(fmt.Sprintf("op:commit up=%v", up))
	// the property's own predicate: the commit returned ⇒ remote has it ∨ a warning was raised
	rh := w.remoteHeads()[b]
	if rh != h && !strings.Contains(logged, "error pushing") {
		w.violate("pow-commit-not-on-remote-no-warning", fmt.Sprintf("%s returned (commit %s) but remote %s = %s and no replication warning was logged", desc, h, b, rh))
	}
	if !up && fired && rh == h {
		w.violate("pow-failed-push-moved-ref", fmt.Sprintf("%s: the push was made to fail but remote %s moved to %s", desc, b, h))
	}
	w.checkRemoteSubset(desc)
	ok := "1"
	if !up && fired {
		ok = "0"
	}
	w.ask(fmt.Sprintf("p commit %d", w.bid[b]))
	resp := w.ask(fmt.Sprintf("p hook %d %s", w.bid[b], ok))
	w.compareRemote(resp, desc)
	w.e.Rep.Count(desc+fmt.Sprint(len(w.hist)), !up || len(w.hist) > 1)
}

func (w *world) opRead() {
	// a fresh transaction on the replica pulls from the remote
	r := w.qs.Exec("select count(*) from t")
	shown := branchHeads(w.qs, "dolt_branches", "")
	desc := "replica read"
	w.logf("%s -> %d branches (err=%v)", desc, len(shown), r.Err)
	w.e.Rep.Hit("op:read")
	for b, h := range shown {
		if !w.hist[b][h] {
			w.violate("replica-invented-head", fmt.Sprintf("replica shows branch %s = %s which was never the primary's head of that branch", b, h))
		}
	}
	resp := w.ask("p pull")
	impl := w.canon(shown)
	model := field(resp, "replica")
	if impl != model {
		w.e.Rep.Disagree(w.k, "replica="+impl, "replica="+model, desc+" | trace: "+w.tr())
	}
	w.e.Rep.TracesValidated++
	w.e.Rep.Count("read "+impl, len(shown) > 1)
}

// opRace: two sessions commit on the same branch at the same time.  dsess.doCommit holds the
// branch's TxLock across commit + hooks, so the two hook executions must not overlap and the
// remote must end at the later commit (the model: commit; hook; commit; hook).
func (w *world) opRace(b string) {
	s2, err := w.p.NewSession()
	if err != nil {
		panic(err)
	}
	must(s2, "use p")
	hookLog.take()
	replfault.Plan.Set("", 0, false)
	var h1, h2 string
	var e1, e2 error
	var wg sync.WaitGroup
	wg.Add(2)
	go func() { defer wg.Done(); h1, e1 = w.commitOn(w.ps, b) }()
	go func() {
		defer wg.Done()
		time.Sleep(time.Duration(w.r.Intn(3)) * time.Millisecond)
		must(s2, fmt.Sprintf("call dolt_checkout('%s')", b))
		r := s2.Exec(fmt.Sprintf("insert into t values (%d, 'race')", 1000000+w.nrow))
		if r.Err != nil {
			e2 = r.Err
			return
		}
		r = s2.Exec("call dolt_commit('-Am','race')")
		if r.Err != nil {
			e2 = r.Err
			return
		}
		h2 = strings.Trim(r.Rows[0][0], `"`)
	}()
	wg.Wait()
	replfault.Plan.Clear()
	logged := hookLog.take()
	desc := fmt.Sprintf("race %s", b)
	// order the two commits by ancestry: the primary's head is the later one
	ph := branchHeads(w.ps, "dolt_branches", "")[b]
	first, second := h1, h2
	if ph == h1 {
		first, second = h2, h1
	}
	for _, h := range []string{first, second} {
		if h != "" {
			w.next++
			w.num[h] = w.next
			if w.hist[b] == nil {
				w.hist[b] = map[string]bool{}
			}
			w.hist[b][h] = true
			w.ask(fmt.Sprintf("p commit %d", w.bid[b]))
			w.ask(fmt.Sprintf("p hook %d 1", w.bid[b]))
		}
	}
	w.record()
	rh := w.remoteHeads()[b]
	w.logf("%s -> e1=%v e2=%v primary=#%d remote=#%d", desc, e1, e2, w.num[ph], w.num[rh])
	w.e.Rep.Hit("op:race")
	w.checkRemoteSubset(desc)
	w.compareRemote(w.ask(fmt.Sprintf("p hook %d 1", w.bid[b])), desc) // no hook pending: "rejected <state>"
	if rh != ph && !strings.Contains(logged, "error pushing") {
		w.violate("pow-remote-behind-after-concurrent-commits",
			fmt.Sprintf("two concurrent commits on branch %s both returned, nothing pending, no warning, but the remote is at %s and the primary at %s", b, rh, ph))
	}
	w.e.Rep.Count(desc+fmt.Sprint(e1 == nil, e2 == nil), true)
}

func runWorld(e *hx.Env, m *hx.Model, k kase) {
	w := &world{e: e, k: k, r: hx.NewRng(k.Seed), m: m, num: map[string]int{}, bid: map[string]int{}, hist: map[string]map[string]bool{}}
	dir := filepath.Join(e.Scratch, fmt.Sprintf("w%d", k.Seed))
	os.RemoveAll(dir)
	w.rem = filepath.Join(dir, "remote")
	os.MkdirAll(w.rem, 0o755)
	defer os.RemoveAll(dir)
	cli.CliOut = hookLog
	p, err := sqleng.New(filepath.Join(dir, "P"), sqleng.Options{DBName: "p"})
	if err != nil {
		panic(err)
	}
	w.p = p
	defer p.Close()
	w.ps, _ = p.NewSession()
	must(w.ps, "set @@GLOBAL.dolt_read_replica_remote = ''")
	must(w.ps, "set @@GLOBAL.dolt_replicate_to_remote = ''")
	must(w.ps, "create table t (pk int primary key, v varchar(40))")
	must(w.ps, "call dolt_commit('-Am','init')")
	branches := []string{"main", "b1", "b2"}
	for i, b := range branches {
		w.bid[b] = i + 1
		if b != "main" {
			must(w.ps, fmt.Sprintf("call dolt_branch('%s')", b))
		}
	}
	must(w.ps, fmt.Sprintf("call dolt_remote('add','pushrem','faulty://%s')", w.rem))
	w.record()
	must(w.ps, "set @@GLOBAL.dolt_replicate_to_remote = 'pushrem'")
	w.ask("pnew")
	// first replicated commit on main, then the replica is cloned from the remote
	w.opCommit("main", true)
	q0, err := sqleng.New(filepath.Join(dir, "Q"), sqleng.Options{DBName: "x"})
	if err != nil {
		panic(err)
	}
	s0, _ := q0.NewSession()
	replfault.Plan.Clear()
	must(s0, fmt.Sprintf("call dolt_clone('file://%s','rep')", w.rem))
	q0.Close()
	must(w.ps, "set @@GLOBAL.dolt_read_replica_remote = 'origin'")
	must(w.ps, "set @@GLOBAL.dolt_replicate_all_heads = 1")
	q, err := sqleng.New(filepath.Join(dir, "Q"), sqleng.Options{DBName: "rep", Existing: true})
	// the primary must not become a read replica of anything: its databases were loaded before
	if err != nil {
		panic(err)
	}
	w.q = q
	defer q.Close()
	defer func() {
		w.ps.Exec("set @@GLOBAL.dolt_read_replica_remote = ''")
		w.ps.Exec("set @@GLOBAL.dolt_replicate_to_remote = ''")
		w.ps.Exec("set @@GLOBAL.dolt_replicate_all_heads = 0")
	}()
	w.qs, _ = q.NewSession()
	w.opRead()
	for i := 0; i < k.Ops; i++ {
		switch x := w.r.Intn(10); {
		case x < 5:
			w.opCommit(hx.Pick(w.r, branches), !w.r.Chance(1, 4))
		case x < 8:
			w.opRead()
		default:
			if k.Race {
				w.opRace(hx.Pick(w.r, branches))
			} else {
				w.opCommit(hx.Pick(w.r, branches), true)
			}
		}
	}
	// quiescence + one successful replication per branch ⇒ replica equals primary
	for _, b := range branches {
		w.opCommit(b, true)
	}
	w.opRead()
	ph := branchHeads(w.ps, "dolt_branches", "")
	qh := branchHeads(w.qs, "dolt_branches", "")
	for _, b := range branches {
		if ph[b] != qh[b] {
			w.violate("replica-not-converged", fmt.Sprintf("after quiescence and one successful replication of %s the replica shows %s, primary %s", b, qh[b], ph[b]))
		}
		rows1 := w.ps.Exec(fmt.Sprintf("select * from t as of '%s' order by pk", b)).Rows
		rows2 := w.qs.Exec(fmt.Sprintf("select * from t as of '%s' order by pk", b)).Rows
		if fmt.Sprint(rows1) != fmt.Sprint(rows2) {
			w.violate("replica-content-differs", fmt.Sprintf("branch %s: table content differs between primary and replica after convergence", b))
		}
	}
	e.Rep.Count("converged", true)
}

func main() {
	e := hx.Init("replication", "C45")
	defer e.Finish()
	e.Rep.Rule = "a case is one operation (replicated commit with the remote up or down, replica read, overlapping-hook race, convergence check); non-trivial = failing push, several branches, race"
	m := e.MustModel()
	defer m.Close()
	run := func(k kase) {
		out := hx.Recover(func() string { runWorld(e, m, k); return "" })
		if out != "" {
			e.Rep.Disagree(k, out, "(no panic)", "panic while running the case")
		}
	}
	if e.Replay != "" {
		rf, err := hx.LoadReplay(e.Replay)
		if err != nil {
			panic(err)
		}
		var k kase
		if err := json.Unmarshal(rf.Case, &k); err != nil {
			panic(err)
		}
		run(k)
		return
	}
	for _, raw := range e.CorpusCases() {
		var k kase
		if json.Unmarshal(raw, &k) == nil {
			run(k)
		}
	}
	n := e.N(3, 10)
	for i := 0; i < n; i++ {
		run(kase{Seed: e.Rng.U64() % 1000000, Ops: e.N(14, 30), Race: true})
	}
}
