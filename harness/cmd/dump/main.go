// dump: correspondence + property oracle for C36 (dump and re-import reproduce the database).
//
// Streams:
//
//	lit   — byte strings (every byte 0x00–0xff, quotes, backslashes, NUL, \Z, %, _, UTF-8) written
//	        by the row formatter dolt dump uses (sqlfmt.SqlRowAsTupleString → quoteAndEscapeString /
//	        hexEncodeBytes) and identifiers by sqlfmt.QuoteIdentifier, read back by the real
//	        tokenizer; oracle: the token value is the original byte string; correspondence: the
//	        written text and the read value against the Lean model.
//	lex   — adversarial literal text (unknown escapes, doubled quotes, adjacent literals,
//	        unterminated) through the real tokenizer vs the model's reader.
//	table — tables over the supported column types with boundary values → the dump text produced by
//	        the code path of `dolt dump` (mvdata.NewSqlEngineReader → sqlexport writers, batched and
//	        not) → loaded statement by statement (commands.StreamScanner) into an EMPTY database →
//	        oracle: SHOW CREATE TABLE and all rows equal.
package main

import (
	"bytes"
	"encoding/hex"
	"encoding/json"
	"fmt"
	"io"
	"os"
	"path/filepath"
	"strings"
	"unicode"

	"github.com/dolthub/go-mysql-server/sql"
	gmstypes "github.com/dolthub/go-mysql-server/sql/types"
	"github.com/dolthub/vitess/go/sqltypes"
	"github.com/dolthub/vitess/go/vt/sqlparser"

	"github.com/dolthub/dolt/go/cmd/dolt/commands"
	"github.com/dolthub/dolt/go/libraries/doltcore/mvdata"
	"github.com/dolthub/dolt/go/libraries/doltcore/schema"
	"github.com/dolthub/dolt/go/libraries/doltcore/schema/typeinfo"
	"github.com/dolthub/dolt/go/libraries/doltcore/sqle/sqlfmt"
	"github.com/dolthub/dolt/go/libraries/doltcore/table/editor"
	"github.com/dolthub/dolt/go/libraries/doltcore/table/untyped/sqlexport"

	"verif/harness/internal/hx"
	"verif/harness/internal/qx"
	"verif/harness/internal/sqleng"
)

type litCase struct {
	Stream string `json:"stream"`
	S      string `json:"s"` // hex
}

var litSch schema.Schema

func init() {
	vc, _ := typeinfo.FromSqlType(gmstypes.MustCreateStringWithDefaults(sqltypes.VarChar, 16383))
	tx, _ := typeinfo.FromSqlType(gmstypes.Text)
	vb, _ := typeinfo.FromSqlType(gmstypes.MustCreateBinary(sqltypes.VarBinary, 60000))
	it, _ := typeinfo.FromSqlType(gmstypes.Int64)
	c0, _ := schema.NewColumnWithTypeInfo("i", 1, it, true, "", false, "")
	c1, _ := schema.NewColumnWithTypeInfo("s", 2, vc, false, "", false, "")
	c2, _ := schema.NewColumnWithTypeInfo("t", 3, tx, false, "", false, "")
	c3, _ := schema.NewColumnWithTypeInfo("b", 4, vb, false, "", false, "")
	c4, _ := schema.NewColumnWithTypeInfo("n", 5, vc, false, "", false, "")
	litSch, _ = schema.SchemaFromCols(schema.NewColCollection(c0, c1, c2, c3, c4))
}

func litSch2() schema.Schema {
	vc, _ := typeinfo.FromSqlType(gmstypes.MustCreateStringWithDefaults(sqltypes.VarChar, 16383))
	c0, _ := schema.NewColumnWithTypeInfo("k", 1, vc, true, "", false, "")
	c1, _ := schema.NewColumnWithTypeInfo("v", 2, vc, false, "", false, "")
	c2, _ := schema.NewColumnWithTypeInfo("z", 3, vc, false, "", false, "")
	sch, _ := schema.SchemaFromCols(schema.NewColCollection(c0, c1, c2))
	return sch
}

var hardBytes = []byte{0, 39, 34, 8, 10, 13, 9, 26, 92, '%', '_', '0', 'Z', 'n', 'b', 'r', 't', 0xff, 0xc3, 0xa9, 0x80, ' ', ',', ')', '(', ';', '`', 'x', 'X', '-'}

func genBytes(r *hx.Rng) []byte {
	switch r.Intn(10) {
	case 0:
		return nil
	case 1: // every byte once, shuffled start
		off := r.Intn(256)
		b := make([]byte, 256)
		for i := range b {
			b[i] = byte(i + off)
		}
		return b
	case 2:
		return r.Bytes(r.Intn(40))
	case 3:
		return []byte(hx.Pick(r, []string{"it's", "\\", "\\\\", "'", "''", "\\'", "a\\Zb", "\\%", "100\\%_", "日本語", "é", "\x00", "a\x00b", "\\0", "'; drop table t; --", "\"", "\\\"", "\r\n", "\x1a"}))
	}
	n := r.Range(1, 24)
	b := make([]byte, n)
	for i := range b {
		if r.Chance(2, 3) {
			b[i] = hx.Pick(r, hardBytes)
		} else {
			b[i] = byte('a' + r.Intn(26))
		}
	}
	return b
}

type tok struct {
	typ int
	val []byte
}

func scanAll(text string) []tok {
	t := sqlparser.NewStringTokenizer(text)
	var out []tok
	for i := 0; i < 64; i++ {
		typ, val := t.Scan()
		if typ == 0 {
			break
		}
		out = append(out, tok{typ, val})
		if typ == sqlparser.LEX_ERROR {
			break
		}
	}
	return out
}

func hexNumValue(v []byte) ([]byte, bool) {
	s := strings.ToLower(string(v))
	if !strings.HasPrefix(s, "0x") {
		return nil, false
	}
	s = s[2:]
	if len(s)%2 == 1 {
		s = "0" + s
	}
	b, err := hex.DecodeString(s)
	return b, err == nil
}

func runLit(e *hx.Env, m *hx.Model, k litCase) {
	b := hx.Unhex(k.S)
	ctx := sql.NewEmptyContext()
	out := hx.Recover(func() string {
		row := sql.Row{int64(-42), string(b), string(b), b, nil}
		text, err := sqlfmt.SqlRowAsTupleString(ctx, row, litSch)
		if err != nil {
			return "format-error: " + err.Error()
		}
		// model of the written text
		q := m.Ask("quote " + hx.Hex(b))
		hq := m.Ask("hexenc " + hx.Hex(b))
		want := "(-42," + string(hx.Unhex(q)) + "," + string(hx.Unhex(q)) + "," + string(hx.Unhex(hq)) + ",NULL)"
		nontrivial := bytes.ContainsAny(b, "\x00'\"\b\n\r\t\x1a\\%_") || len(b) == 0
		e.Rep.Count("lit "+k.S, nontrivial)
		if want != text {
			e.Rep.Disagree(k, text, want, "tuple text written by SqlRowAsTupleString")
		}
		// oracle: the real tokenizer reads the original values back
		toks := scanAll(text)
		// expected shape: ( - 42 , STR , STR , HEXNUM , NULL )
		var strs [][]byte
		var hexv []byte
		hexok := false
		for _, t := range toks {
			switch t.typ {
			case sqlparser.STRING:
				strs = append(strs, t.val)
			case sqlparser.HEXNUM:
				hexv, hexok = hexNumValue(t.val)
			case sqlparser.LEX_ERROR:
				e.Rep.Violate("lit/lex-error", fmt.Sprintf("the tokenizer rejects the dump text of %q: %q", b, text), k)
				return ""
			}
		}
		if len(strs) != 2 || !bytes.Equal(strs[0], b) || !bytes.Equal(strs[1], b) {
			e.Rep.Violate("lit/string", fmt.Sprintf("string %q is written as %q and read back as %q", b, text, strs), k)
			return ""
		}
		if !hexok || !bytes.Equal(hexv, b) {
			e.Rep.Violate("lit/hex", fmt.Sprintf("binary %x is written as %q and read back as %x", b, text, hexv), k)
			return ""
		}
		// model reader on the written literal followed by what the dump puts after it
		if got := m.Ask("lex " + hx.Hex(append(hx.Unhex(q), ','))); got != "ok "+hx.Hex(b)+" "+hx.Hex([]byte{','}) {
			e.Rep.Disagree(k, "ok "+hx.Hex(b), got, "model reader on the written literal")
		}
		if got := m.Ask("hexread " + hx.Hex(append(hx.Unhex(hq), ','))); got != "ok "+hx.Hex(b)+" "+hx.Hex([]byte{','}) {
			e.Rep.Disagree(k, "ok "+hx.Hex(b), got, "model hex reader on the written literal")
		}
		// identifiers (any bytes except NUL; the tokenizer works on bytes)
		if len(b) > 0 && !bytes.Contains(b, []byte{0}) {
			qi := sqlfmt.QuoteIdentifier(ctx, string(b))
			if mq := string(hx.Unhex(m.Ask("qident " + hx.Hex(b)))); mq != qi {
				e.Rep.Disagree(k, qi, mq, "QuoteIdentifier")
			}
			it := scanAll(qi + " ")
			if len(it) < 1 || it[0].typ != sqlparser.ID || !bytes.Equal(it[0].val, b) {
				e.Rep.Violate("lit/ident", fmt.Sprintf("identifier %q is quoted as %q and read back as %v", b, qi, it), k)
			}
		}
		e.Rep.Hit("lit:ok")
		e.Rep.Sample(map[string]string{"stream": "lit", "value": fmt.Sprintf("%q", qx.Short(string(b), 40)), "text": qx.Short(text, 120)})
		return ""
	})
	if out != "" {
		e.Rep.Violate("lit/failure", out, k)
	}
}

// lex: adversarial reader input
func genLexText(r *hx.Rng) []byte {
	var b []byte
	q := hx.Pick(r, []byte{'\'', '\'', '\'', '"'})
	b = append(b, q)
	for i := r.Intn(12); i > 0; i-- {
		switch r.Intn(8) {
		case 0:
			b = append(b, '\\', hx.Pick(r, []byte{'0', 'n', 'Z', '%', '_', 'x', '\\', '\'', '"', 'b', 'q', 0xff}))
		case 1:
			b = append(b, q, q)
		case 2:
			b = append(b, hx.Pick(r, []byte{'\'', '"'}))
		case 3:
			b = append(b, q, hx.Pick(r, []byte{' ', '\n', '\t'}), hx.Pick(r, []byte{'\'', '"'}))
		default:
			b = append(b, hx.Pick(r, hardBytes))
		}
	}
	if r.Chance(5, 6) {
		b = append(b, q)
	}
	if r.Chance(1, 2) {
		b = append(b, hx.Pick(r, []string{",", ")", " ,", " 'x'", "'y'", " \"z\"", "\\"})...)
	}
	return b
}

func runLex(e *hx.Env, m *hx.Model, k litCase) {
	b := hx.Unhex(k.S)
	if len(b) == 0 {
		return
	}
	got := hx.Recover(func() string {
		t := sqlparser.NewStringTokenizer(string(b))
		typ, val := t.Scan()
		if typ == sqlparser.STRING {
			return "ok " + hx.Hex(val)
		}
		return "err"
	})
	mod := m.Ask("lex " + k.S)
	if strings.HasPrefix(mod, "ok ") {
		mod = strings.Join(strings.Fields(mod)[:2], " ")
	}
	e.Rep.Count("lex "+k.S, true)
	e.Rep.Hit("lex:" + strings.Fields(got)[0])
	if got != mod {
		e.Rep.Disagree(k, got, mod, fmt.Sprintf("tokenizer on %q", b))
	}
}

// ---------------------------------------------------------------- table stream

type tableCase struct {
	Stream  string   `json:"stream"`
	Setup   []string `json:"setup"`
	Tables  []string `json:"tables"`
	Batched bool     `json:"batched"`
}

type nopCloser struct{ *bytes.Buffer }

func (nopCloser) Close() error { return nil }

// dumpText produces what `dolt dump` writes for the given tables: dumpTable's code path.
func dumpText(s *sqleng.Session, tables []string, batched bool) (string, error) {
	var all bytes.Buffer
	for _, t := range tables {
		ctx, err := qx.SqlCtx(s)
		if err != nil {
			return "", err
		}
		roots, ok := s.Sess.GetRoots(ctx, s.E.DBName)
		if !ok {
			return "", fmt.Errorf("no roots")
		}
		root := roots.Working
		rd, err := mvdata.NewSqlEngineReader(ctx, s.E.SE.GetUnderlyingEngine(), root, t)
		if err != nil {
			return "", fmt.Errorf("reader %s: %w", t, err)
		}
		buf := nopCloser{&bytes.Buffer{}}
		var wr interface {
			WriteSqlRow(ctx *sql.Context, r sql.Row) error
		}
		_ = wr
		if batched {
			w, err := sqlexport.OpenBatchedSQLExportWriter(ctx, buf, root, t, false, rd.GetSchema(), editor.Options{})
			if err != nil {
				return "", err
			}
			if err := mvdata.NewDataMoverPipeline(ctx, rd, w).Execute(); err != nil {
				return "", fmt.Errorf("pipeline %s: %w", t, err)
			}
		} else {
			w, err := sqlexport.OpenSQLExportWriter(ctx, buf, root, t, false, rd.GetSchema(), editor.Options{})
			if err != nil {
				return "", err
			}
			if err := mvdata.NewDataMoverPipeline(ctx, rd, w).Execute(); err != nil {
				return "", fmt.Errorf("pipeline %s: %w", t, err)
			}
		}
		all.Write(buf.Bytes())
		all.WriteString("\n")
	}
	return all.String(), nil
}

func loadDump(s *sqleng.Session, text string) error {
	sc := commands.NewStreamScanner(strings.NewReader(text))
	for sc.Scan() {
		q := strings.TrimSpace(sc.Text())
		if q == "" {
			continue
		}
		if r := s.Exec(q); r.Err != nil {
			return fmt.Errorf("statement %q: %v", qx.Short(q, 300), r.Err)
		}
	}
	if err := sc.Err(); err != nil && err != io.EOF {
		return err
	}
	return nil
}

func hexlit(b []byte) string { return "0x" + hex.EncodeToString(b) }
func strlit(s string) string {
	// insert strings through a hex literal so that the *source* database does not depend on the
	// layer under test
	if s == "" {
		return "''"
	}
	return "convert(" + hexlit([]byte(s)) + " using utf8mb4)"
}

func genTable(r *hx.Rng, idx int) tableCase {
	tc := tableCase{Stream: "table", Batched: r.Bool()}
	name := hx.Pick(r, []string{"t", "data", "my table", "select", "Weird`name", "T_1"}) + fmt.Sprint(idx)
	qn := "`" + strings.ReplaceAll(name, "`", "``") + "`"
	allBytes := make([]byte, 256)
	for i := range allBytes {
		allBytes[i] = byte(i)
	}
	ascii := string(allBytes[:128])
	strs := []string{"", "a", "it's", "\\", "\\\\", "'", "\"", "a\x00b", "\x1a", "\r\n\t\b", "100%_\\%", "日本語 é ß 😀", ascii, "'; drop table x; --", "\\'", "NULL", "0x41"}
	bins := [][]byte{nil, {0}, {0xff}, allBytes, []byte("it's\\"), {0x27, 0x27}, {0x5c}, {0x1a, 0x00, 0x0a}, r.Bytes(r.Intn(64))}
	switch r.Intn(6) {
	case 5: // BIT columns (known finding: written as raw bytes)
		tc.Setup = append(tc.Setup, fmt.Sprintf("create table %s (pk int primary key, b8 bit(8), b64 bit(64), b1 bit(1))", qn))
		tc.Setup = append(tc.Setup, fmt.Sprintf("insert into %s values (1, 0, 0, 0), (2, 65, 0x4142434445464748, 1), (3, 39, 18446744073709551615, b'1'), (4, NULL, NULL, NULL)", qn))
	case 0: // strings
		tc.Setup = append(tc.Setup, fmt.Sprintf("create table %s (pk int primary key, `c``1` varchar(300), t text, c char(10) collate utf8mb4_0900_ai_ci, lt longtext, e enum('a','it''s','b'), st set('x','y','z') )", qn))
		for i := 0; i < len(strs)+4; i++ {
			s := hx.Pick(r, strs)
			if i < len(strs) {
				s = strs[i]
			}
			c := hx.Pick(r, []string{"", "a", "it's", "\\", "é"})
			vals := []string{fmt.Sprint(i), strlit(s), strlit(hx.Pick(r, strs)), strlit(c), strlit(s + s), hx.Pick(r, []string{"'a'", "'it''s'", "NULL", "2", "3"}), hx.Pick(r, []string{"'x'", "'x,z'", "''", "NULL"})}
			if r.Chance(1, 6) {
				vals[1+r.Intn(4)] = "NULL"
			}
			tc.Setup = append(tc.Setup, fmt.Sprintf("insert into %s values (%s)", qn, strings.Join(vals, ",")))
		}
	case 1: // binaries
		tc.Setup = append(tc.Setup, fmt.Sprintf("create table %s (pk int primary key, vb varbinary(400), b binary(4), bl blob, lb longblob, tb tinyblob)", qn))
		for i, b := range bins {
			fixed := "NULL"
			if len(b) <= 4 {
				fixed = hexlit(b)
				if len(b) == 0 {
					fixed = "0x"
				}
			}
			small := b
			if len(small) > 200 {
				small = small[:200]
			}
			h := hexlit(b)
			tc.Setup = append(tc.Setup, fmt.Sprintf("insert into %s values (%d, %s, %s, %s, %s, %s)", qn, i, h, fixed, h, hexlit(append(append([]byte{}, b...), b...)), hexlit(small)))
		}
		tc.Setup = append(tc.Setup, fmt.Sprintf("insert into %s values (100, NULL, NULL, NULL, NULL, NULL)", qn))
	case 2: // numbers
		tc.Setup = append(tc.Setup, fmt.Sprintf("create table %s (pk bigint primary key, ti tinyint, tu tinyint unsigned, si smallint, mi mediumint, i int, iu int unsigned, bu bigint unsigned, d decimal(65,30), d2 decimal(10,2), f float, db double, bo boolean, y year)", qn))
		rows := []string{
			"-9223372036854775808, -128, 0, -32768, -8388608, -2147483648, 0, 0, -99999999999999999999999999999999999.999999999999999999999999999999, -99999999.99, -3.4e38, -1.7976931348623157e308, 0, 1901",
			"9223372036854775807, 127, 255, 32767, 8388607, 2147483647, 4294967295, 18446744073709551615, 99999999999999999999999999999999999.999999999999999999999999999999, 99999999.99, 3.4e38, 1.7976931348623157e308, 1, 2155",
			"0, 0, 0, 0, 0, 0, 0, 0, 0, 0, 0, 0, 0, 0",
			"1, NULL, NULL, NULL, NULL, NULL, NULL, NULL, NULL, NULL, NULL, NULL, NULL, NULL",
			"2, 1, 1, 1, 1, 1, 1, 1, 0.000000000000000000000000000001, 0.01, 1.17549435e-38, 2.2250738585072014e-308, true, 2000",
			"3, -1, 200, -1, -1, -1, 3000000000, 9223372036854775808, -0.5, -0.5, 0.1, 0.1, false, 1999",
			"4, 5, 5, 5, 5, 5, 5, 5, 123456789.123456789, 1234.5, 1e10, 1e-10, 1, 2024",
		}
		for _, row := range rows {
			tc.Setup = append(tc.Setup, fmt.Sprintf("insert into %s values (%s)", qn, row))
		}
	case 3: // temporal + json
		tc.Setup = append(tc.Setup, fmt.Sprintf("create table %s (pk int primary key, d date, dt datetime, dt6 datetime(6), ts timestamp, ts3 timestamp(3), tm time, tm6 time(6), j json)", qn))
		rows := []string{
			"1, '1000-01-01', '1000-01-01 00:00:00', '1000-01-01 00:00:00.000000', '1970-01-01 00:00:01', '1970-01-01 00:00:01.000', '-838:59:59', '-838:59:59.000000', 'null'",
			"2, '9999-12-31', '9999-12-31 23:59:59', '9999-12-31 23:59:59.999999', '2038-01-19 03:14:07', '2038-01-19 03:14:07.999', '838:59:59', '838:59:59.000000', '{\"a\": \"it''s\", \"b\": [1, 2.5, true, null], \"c\": {\"d\": \"\\\\\\\\ \\\\\" \\\\n\"}}'",
			"3, '2024-02-29', '2024-02-29 12:00:00', '2024-02-29 12:00:00.000001', '2024-02-29 12:00:00', '2024-02-29 12:00:00.001', '00:00:00', '00:00:00.000001', '\"日本語 😀\"'",
			"4, NULL, NULL, NULL, NULL, NULL, NULL, NULL, NULL",
			"5, '2000-01-01', '2000-01-01 00:00:00', '2000-01-01 00:00:00.5', '2000-01-01 00:00:00', '2000-01-01 00:00:00.5', '12:34:56', '12:34:56.789', '[]'",
			"6, '2000-01-01', '2000-01-01 00:00:00', '2000-01-01 00:00:00', '2000-01-01 00:00:00', '2000-01-01 00:00:00', '-00:00:01', '00:00:00', '{\"k\": 12345678901234567890, \"f\": 1.0e100, \"s\": \"\", \"q\": \"\\\\u0000\"}'",
		}
		for _, row := range rows {
			tc.Setup = append(tc.Setup, fmt.Sprintf("insert into %s values (%s)", qn, row))
		}
	case 4: // keyless, defaults, generated, indexes, checks
		tc.Setup = append(tc.Setup, fmt.Sprintf("create table %s (a int, `b c` varchar(20) default 'it''s', g int generated always as (a + 1) stored, v varchar(10) as (concat(`b c`, 'x')) virtual, u int not null default 7 comment 'c''q', key ia (a), unique key ub (u, a), constraint ck check (a > -100))", qn))
		for i := 0; i < 6; i++ {
			tc.Setup = append(tc.Setup, fmt.Sprintf("insert into %s (a, `b c`, u) values (%d, %s, %d)", qn, i%3, strlit(hx.Pick(r, strs[:12])), i))
		}
		tc.Setup = append(tc.Setup, fmt.Sprintf("insert into %s (a, u) values (1, 100), (1, 101), (NULL, 102)", qn))
	}
	tc.Tables = []string{name}
	return tc
}

var tblSeq int

func tableState(s *sqleng.Session, name string) (string, []string, error) {
	qn := "`" + strings.ReplaceAll(name, "`", "``") + "`"
	sc := s.Exec("show create table " + qn)
	if sc.Err != nil || len(sc.Rows) != 1 {
		return "", nil, fmt.Errorf("show create table: %v", sc.Err)
	}
	rows := s.Exec("select * from " + qn)
	if rows.Err != nil {
		return "", nil, rows.Err
	}
	return sc.Rows[0][1], rows.Sorted(), nil
}

func runTable(e *hx.Env, tc tableCase) {
	tblSeq++
	out := hx.Recover(func() string {
		dirA := filepath.Join(e.Scratch, fmt.Sprintf("a%d", tblSeq))
		dirB := filepath.Join(e.Scratch, fmt.Sprintf("b%d", tblSeq))
		defer os.RemoveAll(dirA)
		defer os.RemoveAll(dirB)
		ea, err := sqleng.New(dirA, sqleng.Options{})
		if err != nil {
			return "engine: " + err.Error()
		}
		defer ea.Close()
		sa, _ := ea.NewSession()
		for _, q := range tc.Setup {
			if r := sa.Exec(q); r.Err != nil {
				e.Rep.Hit("table:setup-rejected")
				e.Rep.Note("setup statement rejected: " + qx.Short(q, 120) + ": " + qx.Short(r.Err.Error(), 120))
				if strings.HasPrefix(strings.ToLower(q), "create") {
					return ""
				}
			}
		}
		text, err := dumpText(sa, tc.Tables, tc.Batched)
		if err != nil {
			if strings.Contains(tc.Tables[0], "`") && strings.Contains(err.Error(), "reader") {
				// NewSqlEngineReader builds "SELECT * FROM `%s`" without doubling backticks (confirmed on the CLI)
				e.Rep.Violate("dump/backtick-table-name", "dolt dump cannot read a table whose name contains a backtick: "+err.Error(), tc)
				return ""
			}
			return "dump failed: " + err.Error()
		}
		eb, err := sqleng.New(dirB, sqleng.Options{})
		if err != nil {
			return "engine: " + err.Error()
		}
		defer eb.Close()
		sb, _ := eb.NewSession()
		if err := loadDump(sb, text); err != nil {
			key := "table/load"
			if strings.Contains(tc.Setup[0], " bit(") {
				key = "dump/bit-column-raw-bytes"
			}
			e.Rep.Violate(key, "the dump does not load into an empty database: "+err.Error(), tc)
			return ""
		}
		for _, t := range tc.Tables {
			ca, ra, err := tableState(sa, t)
			if err != nil {
				return "state A: " + err.Error()
			}
			cb, rb, err := tableState(sb, t)
			if err != nil {
				e.Rep.Violate("table/missing", fmt.Sprintf("table %s missing after re-import: %v", t, err), tc)
				return ""
			}
			if ca != cb {
				e.Rep.Violate("table/schema", fmt.Sprintf("SHOW CREATE TABLE differs after dump+import:\n%s\n---\n%s", ca, cb), tc)
				return ""
			}
			if len(ra) != len(rb) {
				e.Rep.Violate("table/rowcount", fmt.Sprintf("table %s: %d rows before, %d after", t, len(ra), len(rb)), tc)
				return ""
			}
			for i := range ra {
				if ra[i] != rb[i] {
					key := "table/row"
					// YEAR 0 is written as the string '0', which re-imports as 2000 (confirmed on the CLI)
					if strings.Contains(tc.Setup[0], " y year") && strings.HasSuffix(ra[i], "|0") && strings.HasSuffix(rb[i], "|2000") &&
						strings.TrimSuffix(ra[i], "|0") == strings.TrimSuffix(rb[i], "|2000") {
						key = "dump/year-zero-becomes-2000"
					}
					e.Rep.Violate(key, fmt.Sprintf("table %s: row differs after dump+import:\n%s\n---\n%s", t, qx.Short(ra[i], 700), qx.Short(rb[i], 700)), tc)
					if key == "table/row" {
						return ""
					}
				}
			}
			e.Rep.Hit(fmt.Sprintf("table:rows=%d", len(ra)))
		}
		e.Rep.Count("table "+strings.Join(tc.Setup, ";")+fmt.Sprint(tc.Batched), true)
		e.Rep.Hit("table:family=" + family(tc.Setup[0]) + "/batched=" + fmt.Sprint(tc.Batched))
		e.Rep.TracesValidated++
		e.Rep.Sample(map[string]string{"stream": "table", "create": qx.Short(tc.Setup[0], 200), "dump": qx.Short(text, 400)})
		return ""
	})
	if out != "" {
		e.Rep.Violate("table/failure", out, tc)
	}
}

func runRaw(e *hx.Env, m *hx.Model, raw json.RawMessage) {
	var probe struct {
		Stream string `json:"stream"`
	}
	json.Unmarshal(raw, &probe)
	switch probe.Stream {
	case "lit":
		var k litCase
		if json.Unmarshal(raw, &k) == nil {
			runLit(e, m, k)
		}
	case "lex":
		var k litCase
		if json.Unmarshal(raw, &k) == nil {
			runLex(e, m, k)
		}
	case "table":
		var t tableCase
		if json.Unmarshal(raw, &t) == nil {
			runTable(e, t)
		}
	case "csv":
		var c csvCase
		if json.Unmarshal(raw, &c) == nil {
			runCsv(e, m, c)
		}
	case "csvfield":
		var k litCase
		if json.Unmarshal(raw, &k) == nil {
			if k.S == "N" {
				// unicode.IsSpace (Go's table) vs the model's isSpace over the BMP prefix that contains every White_Space rune
				for rn := 0; rn < 0x3100; rn++ {
					want := "0"
					if unicode.IsSpace(rune(rn)) {
						want = "1"
					}
					if got := m.Ask(fmt.Sprintf("isspace %d", rn)); got != want {
						e.Rep.Disagree(map[string]int{"rune": rn}, want, got, "unicode.IsSpace vs model isSpace")
					}
				}
				e.Rep.Count("isspace-table", true)
				runCsvField(e, m, nil)
			} else if strings.HasPrefix(k.S, "S") {
				v := string(hx.Unhex(k.S[1:]))
				runCsvField(e, m, &v)
			}
		}
	}
}

func main() {
	e := hx.Init("dump", "C36")
	defer e.Finish()
	e.Rep.Rule = "lit: byte strings biased to the escaped bytes (NUL ' \" BS LF CR TAB ^Z \\), % _, all 256 bytes, invalid UTF-8, SQL-injection shapes; non-trivial = contains such a byte or is empty; lex: adversarial literal text (unknown escapes, doubled/mixed quotes, adjacent literals, unterminated); table: 5 table families (strings/collations/enum/set, binary+blob, numeric extremes incl. decimal(65,30)/bit/float limits, temporal extremes+JSON, keyless+defaults+generated+indexes+checks) × batched/non-batched dump, distinct by full case text"
	m := e.MustModel()
	defer m.Close()
	if e.Replay != "" {
		rf, err := hx.LoadReplay(e.Replay)
		if err != nil {
			panic(err)
		}
		runRaw(e, m, rf.Case)
		return
	}
	for _, raw := range e.CorpusCases() {
		runRaw(e, m, raw)
	}
	r := e.Rng
	for i, n := 0, e.N(4000, 150000); i < n; i++ {
		runLit(e, m, litCase{"lit", hx.Hex(genBytes(r))})
	}
	for i, n := 0, e.N(4000, 150000); i < n; i++ {
		runLex(e, m, litCase{"lex", hx.Hex(genLexText(r))})
	}
	// unicode.IsSpace (Go's table) vs the model's isSpace over the BMP prefix that contains every White_Space rune
	for rn := 0; rn < 0x3100; rn++ {
		want := "0"
		if unicode.IsSpace(rune(rn)) {
			want = "1"
		}
		if got := m.Ask(fmt.Sprintf("isspace %d", rn)); got != want {
			e.Rep.Disagree(map[string]int{"rune": rn}, want, got, "unicode.IsSpace vs model isSpace")
		}
	}
	e.Rep.Count("isspace-table", true)
	runCsvField(e, m, nil)
	for i, n := 0, e.N(1500, 60000); i < n; i++ {
		v := genCsvString(r)
		runCsvField(e, m, &v)
	}
	for i, n := 0, e.N(6, 80); i < n; i++ {
		runCsv(e, m, genCsv(r, i))
	}
	for i, n := 0, e.N(12, 120); i < n; i++ {
		tc := genTable(r, i)
		if i < 6 {
			// every family at least once per run
			for tries := 0; tries < 50 && !strings.Contains(tc.Setup[0], familyMark[i]); tries++ {
				tc = genTable(r, i)
			}
		}
		runTable(e, tc)
	}
}

func family(create string) string {
	for i, m := range familyMark {
		if strings.Contains(create, m) {
			return []string{"strings", "binary", "numeric", "temporal-json", "keyless-generated", "bit"}[i]
		}
	}
	return "?"
}

var familyMark = []string{"lt longtext", "vb varbinary", "bu bigint unsigned", "dt6 datetime(6)", "generated always", "b64 bit(64)"}
