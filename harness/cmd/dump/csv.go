package main

// csv stream of C36: `dolt dump -r csv` + `dolt table import -u` on generated tables.
//
// export = the body of dumpTable for a CSV destination: mvdata.NewSqlEngineReader → csv.NewCSVWriter
// (what FileDataLocation{CsvFile}.NewCreatingWriter returns) → DataMoverPipeline;
// import = the body of tblcmds' import mover: csv.NewCSVReader → tblcmds.NameAndTypeTransform →
// mvdata.SqlEngineTableWriter (UpdateOp) → Commit, into an EMPTY database that holds only the
// table definition.  Oracle: all rows equal (strings byte for byte, NULL ≠ '').
// The field layer (writer quoting rule, reader trimming) is compared with the Lean model.

import (
	"bytes"
	"context"
	"fmt"
	"io"
	"os"
	"path/filepath"
	"strings"

	"github.com/dolthub/go-mysql-server/sql"

	"github.com/dolthub/dolt/go/cmd/dolt/commands/tblcmds"
	"github.com/dolthub/dolt/go/libraries/doltcore/mvdata"
	"github.com/dolthub/dolt/go/libraries/doltcore/rowconv"
	"github.com/dolthub/dolt/go/libraries/doltcore/schema"
	"github.com/dolthub/dolt/go/libraries/doltcore/sqle/sqlutil"
	"github.com/dolthub/dolt/go/libraries/doltcore/table/untyped/csv"
	"github.com/dolthub/dolt/go/store/types"

	"verif/harness/internal/hx"
	"verif/harness/internal/qx"
	"verif/harness/internal/sqleng"
)

type csvCase struct {
	Stream string   `json:"stream"`
	Create string   `json:"create"`
	Table  string   `json:"table"`
	Rows   []string `json:"rows"` // insert statements
}

var uniSpaces = []string{"\u00a0", "\u0085", "\u1680", "\u2000", "\u2003", "\u3000", "\u2028", "\u2029", "\u202f", "\u205f", "\u200a", "\ufeff", "\u200b"}
var asciiSpaces = []string{" ", "\t", "\v", "\f"}

func genCsvString(r *hx.Rng) string {
	body := hx.Pick(r, []string{"", "a", "abc", "x y", "\"", "\"\"", "a\"b", ",", "a,b", "\\.", "\\N", "\\", "NULL", "null", "é", "日本", "a\nb", "\n", "a\rb", "a\r\nb", "\r\n", "'", "1", "|"})
	switch r.Intn(10) {
	case 0:
		return hx.Pick(r, uniSpaces) + body
	case 1:
		return body + hx.Pick(r, uniSpaces)
	case 2:
		return hx.Pick(r, asciiSpaces) + body
	case 3:
		return body + hx.Pick(r, asciiSpaces)
	case 4:
		return hx.Pick(r, uniSpaces) + hx.Pick(r, uniSpaces)
	case 5:
		return hx.Pick(r, uniSpaces)
	case 6:
		return body + hx.Pick(r, []string{"\n", "\r", "\""}) + body
	}
	return body
}

func genCsv(r *hx.Rng, idx int) csvCase {
	c := csvCase{Stream: "csv", Table: fmt.Sprintf("c%d", idx)}
	c.Create = fmt.Sprintf("create table `%s` (pk int primary key, s varchar(200), t text, n int, s2 varchar(50) not null default '')", c.Table)
	n := r.Range(8, 24)
	for i := 0; i < n; i++ {
		v := func() string {
			if r.Chance(1, 7) {
				return "NULL"
			}
			return strlit(genCsvString(r))
		}
		nn := strlit(genCsvString(r))
		iv := hx.Pick(r, []string{"NULL", "0", "-1", "2147483647", "42"})
		c.Rows = append(c.Rows, fmt.Sprintf("insert into `%s` values (%d, %s, %s, %s, %s)", c.Table, i, v(), v(), iv, nn))
	}
	return c
}

func exportCSV(s *sqleng.Session, table string) ([]byte, error) {
	ctx, err := qx.SqlCtx(s)
	if err != nil {
		return nil, err
	}
	roots, ok := s.Sess.GetRoots(ctx, s.E.DBName)
	if !ok {
		return nil, fmt.Errorf("no roots")
	}
	rd, err := mvdata.NewSqlEngineReader(ctx, s.E.SE.GetUnderlyingEngine(), roots.Working, table)
	if err != nil {
		return nil, err
	}
	buf := nopCloser{&bytes.Buffer{}}
	wr, err := csv.NewCSVWriter(buf, rd.GetSchema(), csv.NewCSVInfo())
	if err != nil {
		return nil, err
	}
	if err := mvdata.NewDataMoverPipeline(ctx, rd, wr).Execute(); err != nil {
		return nil, err
	}
	return buf.Bytes(), nil
}

func importCSV(s *sqleng.Session, table string, text []byte) error {
	ctx, err := qx.SqlCtx(s)
	if err != nil {
		return err
	}
	schs, err := qx.WorkingSchemas(s)
	if err != nil {
		return err
	}
	tableSchema, ok := schs[table]
	if !ok {
		return fmt.Errorf("table %s not found", table)
	}
	rd, err := csv.NewCSVReader(types.Format_DOLT, io.NopCloser(bytes.NewReader(text)), csv.NewCSVInfo())
	if err != nil {
		return err
	}
	coll := schema.NewColCollection()
	rd.GetSchema().GetAllCols().Iter(func(tag uint64, col schema.Column) (bool, error) {
		if wc, ok := tableSchema.GetAllCols().GetByName(col.Name); ok {
			coll = coll.Append(wc)
		}
		return false, nil
	})
	rowOpSch, err := schema.SchemaFromCols(coll)
	if err != nil {
		return err
	}
	wr, err := mvdata.NewSqlEngineTableWriter(ctx, s.E.SE.GetUnderlyingEngine(), tableSchema, rowOpSch,
		&mvdata.MoverOptions{TableToWriteTo: table, Operation: mvdata.UpdateOp}, func(mvdata.AppliedEditStats) {})
	if err != nil {
		return err
	}
	rdSqlSch, err := sqlutil.FromDoltSchema(ctx, "", table, rd.GetSchema())
	if err != nil {
		return err
	}
	ch := make(chan sql.Row)
	var rerr error
	go func() {
		defer close(ch)
		for {
			row, err := rd.ReadSqlRow(context.Background())
			if err == io.EOF {
				return
			}
			if err != nil {
				rerr = err
				return
			}
			row, err = tblcmds.NameAndTypeTransform(row, wr.RowOperationSchema(), rdSqlSch, rowconv.NameMapper{})
			if err != nil {
				rerr = err
				return
			}
			ch <- row
		}
	}()
	var bad error
	werr := wr.WriteRows(ctx, ch, func(row sql.Row, _ sql.PrimaryKeySchema, _ string, _ int, err error) bool {
		bad = fmt.Errorf("bad row %v: %v", row, err)
		return true
	})
	for range ch {
	}
	if rerr != nil {
		return rerr
	}
	if bad != nil {
		return bad
	}
	if werr != nil && werr != io.EOF {
		return werr
	}
	return wr.Commit(ctx)
}

var csvSeq int

func runCsv(e *hx.Env, m *hx.Model, c csvCase) {
	csvSeq++
	out := hx.Recover(func() string {
		dirA := filepath.Join(e.Scratch, fmt.Sprintf("ca%d", csvSeq))
		dirB := filepath.Join(e.Scratch, fmt.Sprintf("cb%d", csvSeq))
		defer os.RemoveAll(dirA)
		defer os.RemoveAll(dirB)
		ea, err := sqleng.New(dirA, sqleng.Options{})
		if err != nil {
			return "engine: " + err.Error()
		}
		defer ea.Close()
		sa, _ := ea.NewSession()
		sa.MustExec(c.Create)
		for _, q := range c.Rows {
			if r := sa.Exec(q); r.Err != nil {
				e.Rep.Hit("csv:setup-rejected")
			}
		}
		text, err := exportCSV(sa, c.Table)
		if err != nil {
			return "csv export failed: " + err.Error()
		}
		eb, err := sqleng.New(dirB, sqleng.Options{})
		if err != nil {
			return "engine: " + err.Error()
		}
		defer eb.Close()
		sb, _ := eb.NewSession()
		sb.MustExec(c.Create)
		if err := importCSV(sb, c.Table, text); err != nil {
			e.Rep.Violate("csv/import", "the CSV dump does not import into an empty database: "+err.Error()+" :: "+qx.Short(string(text), 300), c)
			return ""
		}
		q := fmt.Sprintf("select pk, s, s is null, t, t is null, n, s2 from `%s` order by pk", c.Table)
		ra, rb := sa.Exec(q), sb.Exec(q)
		if ra.Err != nil || rb.Err != nil {
			return fmt.Sprint("select: ", ra.Err, rb.Err)
		}
		la, lb := ra.Lines(), rb.Lines()
		e.Rep.Count("csv "+strings.Join(c.Rows, ";"), true)
		e.Rep.TracesValidated++
		if len(la) != len(lb) {
			e.Rep.Violate("csv/rowcount", fmt.Sprintf("%d rows before, %d after CSV dump+import", len(la), len(lb)), c)
			return ""
		}
		for i := range la {
			if la[i] != lb[i] {
				key := "csv/row"
				if strings.Contains(la[i], `\r\n`) && strings.ReplaceAll(la[i], `\r\n`, `\n`) == lb[i] {
					key = "csv/crlf-normalised"
				}
				e.Rep.Violate(key, fmt.Sprintf("row differs after CSV dump+import:\n%s\n---\n%s", qx.Short(la[i], 400), qx.Short(lb[i], 400)), c)
				if key == "csv/row" {
					return ""
				}
			}
		}
		e.Rep.Hit("csv:ok")
		if csvSeq <= 2 {
			e.Rep.Sample(map[string]string{"stream": "csv", "csv": qx.Short(string(text), 300)})
		}
		return ""
	})
	if out != "" {
		e.Rep.Violate("csv/failure", out, c)
	}
}

// ---- field layer vs the Lean model (valid UTF-8 strings)

func runCsvField(e *hx.Env, m *hx.Model, s *string) {
	out := hx.Recover(func() string {
		sch := litSch2()
		buf := nopCloser{&bytes.Buffer{}}
		wr, err := csv.NewCSVWriter(buf, sch, csv.NewCSVInfo())
		if err != nil {
			return err.Error()
		}
		ctx := sql.NewEmptyContext()
		var v interface{}
		if s != nil {
			v = *s
		}
		if err := wr.WriteSqlRow(ctx, sql.Row{"k", v, "z"}); err != nil {
			return err.Error()
		}
		wr.Close(ctx)
		lines := strings.SplitN(buf.String(), "\n", 2)
		if len(lines) < 2 {
			return "no data line"
		}
		data := lines[1]
		// strip the key field and the trailing ",z\n"
		field := strings.TrimSuffix(strings.TrimPrefix(data, "k,"), ",z\n")
		arg := "N"
		if s != nil {
			arg = "S" + hx.Hex([]byte(*s))
		}
		mw := m.Ask("csvw " + arg)
		e.Rep.Count("csvf "+arg, true)
		if mw != hx.Hex([]byte(field)) {
			e.Rep.Disagree(map[string]string{"stream": "csvfield", "value": arg}, hx.Hex([]byte(field)), mw, "CSV field writer")
		}
		rd, err := csv.NewCSVReader(types.Format_DOLT, io.NopCloser(strings.NewReader(buf.String())), csv.NewCSVInfo())
		if err != nil {
			return err.Error()
		}
		row, err := rd.ReadSqlRow(context.Background())
		got := "err"
		if err == nil && len(row) == 3 {
			if row[1] == nil {
				got = "N"
			} else {
				got = "S" + hx.Hex([]byte(fmt.Sprint(row[1])))
			}
		}
		if got != arg && !(s != nil && strings.Contains(*s, "\r\n")) {
			e.Rep.Violate("csv/field", fmt.Sprintf("CSV field %q is written as %q and read back as %s", arg, field, got), litCase{"csvfield", arg})
			return ""
		}
		if mr := m.Ask("csvr " + hx.Hex([]byte(field+",z"))); mr != got && !(s != nil && strings.ContainsAny(*s, "\r\n")) {
			e.Rep.Disagree(map[string]string{"stream": "csvfield", "value": arg}, got, mr, "CSV field reader")
		}
		return ""
	})
	if out != "" {
		e.Rep.Violate("csv/failure", out, litCase{"csvfield", ""})
	}
}
