// manifestfs: property oracle for C05 (the manifest is replaced atomically and never names a missing
// table file) on the real code: writers (put+commit), conjoin, grace prune and raw manifest updates on one
// directory, other actors' steps nested at the yield points the code offers (the write hook inside
// manifest.Update under the LOCK, the prune hooks after the snapshot and under the lock); after every
// step — and inside every hook — the on-disk manifest must parse completely and every spec it names must
// exist; at every write-hook yield the directory is copied ("kill -9 here") and the copy must open with
// the old root and all its files.  No Lean model is driven by this harness (see design/C05.md).
package main

import (
	"context"
	"encoding/json"
	"errors"
	"fmt"
	"io"
	"os"
	"path/filepath"
	"strings"
	"time"

	"github.com/dolthub/dolt/go/store/chunks"
	"github.com/dolthub/dolt/go/store/constants"
	"github.com/dolthub/dolt/go/store/hash"
	"github.com/dolthub/dolt/go/store/nbs"

	"verif/harness/internal/hx"
)

type step struct {
	Kind string `json:"k"` // open write conjoin prune rawupdate legacyprune
	H    int    `json:"h"`
	N    int    `json:"n,omitempty"`    // write: number of chunks
	Hook string `json:"hook,omitempty"` // write: "lock" = nest inside manifest.Update; prune: "snap" | "lock"
	In   []step `json:"in,omitempty"`
	Bad  bool   `json:"bad,omitempty"` // rawupdate: name a table file that does not exist
	Res  string `json:"res,omitempty"`
}

type kase struct {
	MaxTables int    `json:"maxTables"`
	Steps     []step `json:"steps"`
}

type world struct {
	e      *hx.Env
	ctx    context.Context
	dir    string
	hs     [3]*nbs.NomsBlockStore
	next   int
	c      *kase
	depth  int
	roots  map[hash.Hash]bool
	crashN int
}

func (w *world) violate(key, what string) { w.e.Rep.Violate(key, what, w.c) }

// checkDir: the C05 predicate on a directory as it is right now.
// A background conjoin (its own goroutine in the store) may replace the manifest and unlink the conjoinees
// between our read of the manifest and our stat of a file: the predicate is about one instant, so a miss is
// only reported if the manifest is still the one that was read (otherwise the check is repeated).
func (w *world) checkDir(dir, when string) (root hash.Hash, ok bool) {
	for try := 0; ; try++ {
		root, ok, raced := w.checkDirOnce(dir, when, try < 4)
		if !raced {
			return root, ok
		}
		w.e.Rep.Hit("check:raced-with-manifest-change")
	}
}

func (w *world) checkDirOnce(dir, when string, mayRetry bool) (root hash.Hash, ok bool, raced bool) {
	r, o := w.checkDir1(dir, when, mayRetry, &raced)
	return r, o, raced
}

func (w *world) checkDir1(dir, when string, mayRetry bool, raced *bool) (root hash.Hash, ok bool) {
	b, err := os.ReadFile(filepath.Join(dir, "manifest"))
	if errors.Is(err, os.ErrNotExist) {
		return hash.Hash{}, true
	}
	if err != nil {
		w.violate("C05/manifest-unreadable", when+": "+err.Error())
		return hash.Hash{}, false
	}
	mc, err := nbs.VerifManParse(b)
	if err != nil {
		w.violate("C05/manifest-partial", fmt.Sprintf("%s: the manifest file does not parse (%v): %q", when, err, string(b)))
		return hash.Hash{}, false
	}
	// a complete manifest re-serialises to the same bytes
	if wb, err := nbs.VerifManWrite(mc); err != nil || string(wb) != string(b) {
		w.violate("C05/manifest-not-canonical", fmt.Sprintf("%s: parse∘write is not the identity on the on-disk manifest (%v)", when, err))
	}
	for _, s := range append(append([]nbs.VerifManSpec{}, mc.Specs...), mc.Appendix...) {
		ex, err := nbs.VerifManTableFileOrArchiveExists(dir, s.Name)
		if (err != nil || !ex) && mayRetry {
			if nb, _ := os.ReadFile(filepath.Join(dir, "manifest")); string(nb) != string(b) {
				*raced = true
				return mc.Root, false
			}
		}
		if err != nil || !ex {
			w.violate("C05/manifest-names-missing-file", fmt.Sprintf("%s: the manifest names table file %s which is not in the directory", when, s.Name.String()))
			return mc.Root, false
		}
	}
	w.e.Rep.Hit("checked:" + strings.SplitN(when, " ", 2)[0])
	return mc.Root, true
}

// crashCopy emulates a crash at this instant: copy the directory, open the copy.
func (w *world) crashCopy(when string, allowed ...hash.Hash) {
	w.crashN++
	dst := filepath.Join(w.e.Scratch, fmt.Sprintf("crash-%d", w.crashN))
	os.RemoveAll(dst)
	os.MkdirAll(dst, 0o755)
	// the manifest first: everything it names exists at that instant (that is the property), and table files
	// are immutable, so copying them afterwards yields a state the directory could have crashed in — unless a
	// background conjoin unlinks conjoinees meanwhile; then the manifest has changed and the image is discarded
	mb, _ := os.ReadFile(filepath.Join(w.dir, "manifest"))
	if mb != nil {
		os.WriteFile(filepath.Join(dst, "manifest"), mb, 0o644)
	}
	ents, _ := os.ReadDir(w.dir)
	for _, en := range ents {
		if en.IsDir() || en.Name() == "LOCK" || en.Name() == "manifest" {
			continue
		}
		src, err := os.Open(filepath.Join(w.dir, en.Name()))
		if err != nil {
			continue
		}
		d, _ := os.Create(filepath.Join(dst, en.Name()))
		io.Copy(d, src)
		d.Close()
		src.Close()
	}
	if nb, _ := os.ReadFile(filepath.Join(w.dir, "manifest")); string(nb) != string(mb) {
		w.e.Rep.Hit("crash-image:discarded-manifest-changed-during-copy")
		os.RemoveAll(dst)
		return
	}
	root, ok := w.checkDir(dst, "crash-image "+when)
	if ok {
		good := false
		for _, a := range allowed {
			if a == root {
				good = true
			}
		}
		if !good {
			w.violate("C05/crash-image-neither-old-nor-new", fmt.Sprintf("crash image %s has root %s, expected one of %v", when, root.String(), allowed))
		}
		st, err := nbs.NewLocalStore(w.ctx, constants.FormatDoltString, dst, 1<<16, nbs.NewUnlimitedMemQuotaProvider(), false)
		if err != nil {
			w.violate("C05/crash-image-does-not-open", when+": "+err.Error())
		} else {
			st.Close()
		}
	}
	os.RemoveAll(dst)
	w.e.Rep.Hit("crash-image")
}

func (w *world) age() {
	// make every file look an hour old so that a grace prune (grace 10 min) considers the directory quiescent
	old := time.Now().Add(-time.Hour)
	ents, _ := os.ReadDir(w.dir)
	for _, en := range ents {
		if !en.IsDir() {
			os.Chtimes(filepath.Join(w.dir, en.Name()), old, old)
		}
	}
}

func (w *world) mkChunk() chunks.Chunk {
	w.next++
	return chunks.NewChunk([]byte(fmt.Sprintf("c05-chunk-%d-%s", w.next, strings.Repeat("x", w.next%17))))
}

func noRefs(chunks.Chunk) chunks.InsertAddrsCb {
	return func(context.Context, hash.HashSet, chunks.PendingRefExists) error { return nil }
}

func (w *world) currentRoot() hash.Hash {
	b, err := os.ReadFile(filepath.Join(w.dir, "manifest"))
	if err != nil {
		return hash.Hash{}
	}
	mc, err := nbs.VerifManParse(b)
	if err != nil {
		return hash.Hash{}
	}
	return mc.Root
}

func (w *world) nested(in []step, when string) {
	w.depth++
	for i := range in {
		w.do(&in[i])
		w.checkDir(w.dir, "nested-in-"+when+" "+in[i].Kind)
	}
	w.depth--
}

func (w *world) do(s *step) {
	s.Res = hx.Recover(func() string { return w.do1(s) })
	if strings.HasPrefix(s.Res, "panic:") {
		w.violate("C05/panic", s.Kind+": "+s.Res)
	}
}

func (w *world) do1(s *step) string {
	st := w.hs[s.H%3]
	switch s.Kind {
	case "open":
		if st != nil {
			st.Close()
		}
		n, err := nbs.VerifManNewLocalStore(w.ctx, constants.FormatDoltString, w.dir, 1<<12, w.c.MaxTables, nbs.NewUnlimitedMemQuotaProvider())
		if err != nil {
			w.hs[s.H%3] = nil
			return "err " + err.Error()
		}
		w.hs[s.H%3] = n
		return "ok"
	case "write":
		if st == nil {
			return "closed"
		}
		if err := st.Rebase(w.ctx); err != nil {
			return "err rebase " + err.Error()
		}
		last, _ := st.Root(w.ctx)
		var c chunks.Chunk
		for i := 0; i <= s.N; i++ {
			c = w.mkChunk()
			if err := st.Put(w.ctx, c, noRefs); err != nil {
				return "err put " + err.Error()
			}
		}
		if s.Hook == "lock" && w.depth == 0 {
			fired := false
			nbs.VerifManSetHooks(st, nil, func() error {
				if !fired {
					fired = true
					old := w.currentRoot()
					w.checkDir(w.dir, "inside-update before-rename")
					w.crashCopy("inside manifest.Update (temp written, not renamed)", old)
					w.nested(s.In, "update")
				}
				return nil
			})
			defer nbs.VerifManSetHooks(st, nil, nil)
		}
		before := w.currentRoot()
		ok, err := st.Commit(w.ctx, c.Hash(), last)
		if err != nil {
			return "err commit " + err.Error()
		}
		if ok {
			w.crashCopy("right after an acknowledged commit", c.Hash())
		} else {
			w.crashCopy("after a refused commit", before, w.currentRoot())
		}
		return fmt.Sprint(ok)
	case "orphan":
		// a complete table file that no manifest names (what an interrupted sync leaves behind)
		if st == nil {
			return "closed"
		}
		c := w.mkChunk()
		name, data, _, err := nbs.WriteChunks([]chunks.Chunk{c})
		if err != nil {
			return "err " + err.Error()
		}
		cl, err := st.WriteTableFile(w.ctx, name, 0, 1, nil, func() (io.ReadCloser, uint64, error) {
			return io.NopCloser(strings.NewReader(string(data))), uint64(len(data)), nil
		})
		if err != nil {
			return "err " + firstLine(err)
		}
		cl.Close()
		return "ok"
	case "conjoin":
		if st == nil {
			return "closed"
		}
		if err := st.Rebase(w.ctx); err != nil {
			return "err rebase " + err.Error()
		}
		_, err := st.ConjoinTableFiles(w.ctx, nil)
		if err != nil {
			return "err " + firstLine(err)
		}
		return "ok"
	case "prune":
		if st == nil {
			return "closed"
		}
		w.age()
		if w.depth == 0 && s.Hook != "" {
			fired := false
			f := func() {
				if !fired {
					fired = true
					w.nested(s.In, "prune-"+s.Hook)
				}
			}
			if s.Hook == "snap" {
				nbs.VerifManSetPruneHooks(f, nil)
			} else {
				nbs.VerifManSetPruneHooks(nil, f)
			}
			defer nbs.VerifManSetPruneHooks(nil, nil)
		}
		stats, err := st.PruneUnreferencedWithGrace(w.ctx, 10*time.Minute)
		if err != nil {
			return "err " + firstLine(err)
		}
		w.e.Rep.Hit(fmt.Sprintf("prune:deleted>0=%v skipped=%v", stats.FilesDeleted > 0, len(stats.Skipped) > 0))
		for _, sk := range stats.Skipped {
			if i := strings.Index(sk, ": "); i >= 0 {
				sk = sk[i+2:]
			}
			if len(sk) > 40 {
				sk = sk[:40]
			}
			w.e.Rep.Hit("prune-skip:" + sk)
		}
		return fmt.Sprintf("deleted=%d skipped=%d", stats.FilesDeleted, len(stats.Skipped))
	case "rawupdate":
		fm, err := nbs.VerifManOpenFileManifest(w.ctx, w.dir)
		if err != nil {
			return "err " + err.Error()
		}
		defer fm.Close()
		ok, cur, err := fm.ParseIfExists(w.ctx, nil)
		if err != nil || !ok {
			return "no-manifest"
		}
		nc := cur
		nc.Specs = append([]nbs.VerifManSpec{}, cur.Specs...)
		if s.Bad {
			nc.Specs = append(nc.Specs, nbs.VerifManSpec{Name: w.mkChunk().Hash(), Count: 1})
		}
		nc.Lock = nbs.VerifManLockHash(nc.Root, nc.Specs, nil, []byte(fmt.Sprint(w.next)))
		got, err := fm.Update(w.ctx, cur.Lock, nc, nil)
		if err != nil {
			if s.Bad && errors.Is(err, nbs.ErrManifestSpecMissingTableFile) {
				return "rejected-missing-file"
			}
			return "err " + firstLine(err)
		}
		if s.Bad && got.Lock == nc.Lock {
			w.violate("C05/update-accepted-missing-file", "fileManifest.Update published a spec whose table file does not exist")
		}
		return "ok"
	}
	return "bad-step"
}

func firstLine(err error) string {
	s := err.Error()
	if i := strings.IndexByte(s, '\n'); i >= 0 {
		s = s[:i]
	}
	if len(s) > 120 {
		s = s[:120]
	}
	return s
}

func genNested(r *hx.Rng, outer int) []step {
	var in []step
	for i, n := 0, r.Range(1, 2); i < n; i++ {
		h := (outer + 1 + r.Intn(2)) % 3
		switch r.Intn(4) {
		case 0:
			in = append(in, step{Kind: "open", H: h})
		case 1, 2:
			in = append(in, step{Kind: "write", H: h, N: r.Intn(3)})
		default:
			in = append(in, step{Kind: "prune", H: h})
		}
	}
	return in
}

func gen(r *hx.Rng) *kase {
	c := &kase{MaxTables: hx.Pick(r, []int{3, 4, 6, 256})}
	c.Steps = append(c.Steps, step{Kind: "open", H: 0}, step{Kind: "open", H: 1})
	n := r.Range(6, 22)
	for i := 0; i < n; i++ {
		h := r.Intn(3)
		switch x := r.Intn(100); {
		case x < 8:
			c.Steps = append(c.Steps, step{Kind: "open", H: h})
		case x < 55:
			s := step{Kind: "write", H: h, N: r.Intn(4)}
			if r.Chance(1, 3) {
				s.Hook = "lock"
				s.In = genNested(r, h)
			}
			c.Steps = append(c.Steps, s)
		case x < 62:
			c.Steps = append(c.Steps, step{Kind: "conjoin", H: h})
		case x < 70:
			c.Steps = append(c.Steps, step{Kind: "orphan", H: h})
		case x < 88:
			s := step{Kind: "prune", H: h}
			if r.Chance(1, 2) {
				s.Hook = hx.Pick(r, []string{"snap", "lock"})
				s.In = genNested(r, h)
			}
			c.Steps = append(c.Steps, s)
		default:
			c.Steps = append(c.Steps, step{Kind: "rawupdate", H: h, Bad: r.Chance(2, 3)})
		}
	}
	return c
}

func run(e *hx.Env, c *kase, n int) {
	dir := filepath.Join(e.Scratch, fmt.Sprintf("c05-%d", n))
	os.RemoveAll(dir)
	os.MkdirAll(dir, 0o755)
	w := &world{e: e, ctx: context.Background(), dir: dir, c: c, roots: map[hash.Hash]bool{}}
	nt := false
	var sb strings.Builder
	for i := range c.Steps {
		s := &c.Steps[i]
		w.do(s)
		w.checkDir(dir, "after "+s.Kind)
		e.Rep.Hit("step:" + s.Kind + ":" + strings.SplitN(s.Res, " ", 2)[0])
		fmt.Fprintf(&sb, "%s%d%s:%s;", s.Kind, s.H, s.Hook, strings.SplitN(s.Res, " ", 2)[0])
		for _, in := range s.In {
			if in.Res != "" {
				nt = true
				e.Rep.Hit("nested:" + s.Kind + "/" + s.Hook + ":" + in.Kind)
				fmt.Fprintf(&sb, "(%s%d:%s)", in.Kind, in.H, strings.SplitN(in.Res, " ", 2)[0])
			}
		}
	}
	for i, st := range w.hs {
		if st != nil {
			st.Close()
			w.hs[i] = nil
		}
	}
	os.RemoveAll(dir)
	e.Rep.Count(sb.String(), nt)
	if n < 2 {
		e.Rep.Sample(c)
	}
	e.Rep.TracesValidated++
}

func main() {
	e := hx.Init("manifestfs", "C05")
	defer e.Finish()
	e.Rep.Rule = "seeded step sequences of writers (put+commit), conjoin, grace prune, raw manifest updates (2/3 naming a missing file) over 3 real handles on one directory; other actors' steps nested inside manifest.Update (under the LOCK) and at both prune hooks; crash images copied at every write-hook yield and after every commit; distinct = different (step, handle, hook, result) sequence; non-trivial = at least one step executed inside a hook"
	n := 0
	for _, raw := range e.CorpusCases() {
		var c kase
		if json.Unmarshal(raw, &c) == nil {
			run(e, &c, n)
			n++
		}
	}
	if e.Replay != "" {
		rf, err := hx.LoadReplay(e.Replay)
		if err != nil {
			panic(err)
		}
		var c kase
		if err := json.Unmarshal(rf.Case, &c); err != nil {
			panic(err)
		}
		run(e, &c, n)
		return
	}
	total := e.N(60, 2000)
	for i := 0; i < total; i++ {
		run(e, gen(e.Rng.Fork()), n)
		n++
	}
}
