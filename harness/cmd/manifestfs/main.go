// manifestfs: property oracle for C05 (the manifest is replaced atomically and never names a missing
// table file) on the real code: writers (put+commit), conjoin, grace prune and raw manifest updates on one
// directory, other actors' steps nested at the yield points the code offers (the write hook inside
// manifest.Update under the LOCK, the prune hooks after the snapshot and under the lock); after every
// step — and inside every hook — the on-disk manifest must parse completely and every spec it names must
// exist; at every write-hook yield the directory is copied ("kill -9 here") and the copy must open with
// the old root and all its files.  No Lean model is driven by this harness (see design/C05.md).
package main

import (
	"context"
	"encoding/json"
	"errors"
	"flag"
	"fmt"
	"io"
	"os"
	"os/exec"
	"path/filepath"
	"sort"
	"strings"
	"time"

	"github.com/dolthub/dolt/go/store/chunks"
	"github.com/dolthub/dolt/go/store/constants"
	"github.com/dolthub/dolt/go/store/hash"
	"github.com/dolthub/dolt/go/store/nbs"

	"verif/harness/internal/hx"
)

type step struct {
	Kind  string `json:"k"` // open write conjoin prune rawupdate legacyprune
	H     int    `json:"h"`
	N     int    `json:"n,omitempty"`    // write: number of chunks
	Hook  string `json:"hook,omitempty"` // write: "lock" = nest inside manifest.Update; prune: "snap" | "lock"
	In    []step `json:"in,omitempty"`
	Bad   bool   `json:"bad,omitempty"`   // rawupdate: name a table file that does not exist
	Stale bool   `json:"stale,omitempty"` // write: do not Rebase first (the handle's lock may be stale)
	Res   string `json:"res,omitempty"`
}

type kase struct {
	Journal   bool   `json:"journal,omitempty"`
	MaxTables int    `json:"maxTables"`
	Steps     []step `json:"steps"`
}

type world struct {
	e      *hx.Env
	ctx    context.Context
	dir    string
	hs     [3]*nbs.NomsBlockStore
	next   int
	c      *kase
	depth  int
	roots  map[hash.Hash]bool
	crashN int

	// trace conformance with the Lean ManFs model (nil when the case uses the store's background conjoin)
	m       *hx.Model
	ids     map[hash.Hash]int // table names, lock hashes, roots, gc generations → small ids (0 = empty hash)
	tables  map[string]bool   // table files the model knows about (by file name)
	bad     bool              // a disagreement was already reported for this case
	inHook  bool
	journal bool // journaling store (single exclusive handle; oracle only)
}

func (w *world) id(h hash.Hash) int {
	if h.IsEmpty() {
		return 0
	}
	if v, ok := w.ids[h]; ok {
		return v
	}
	v := len(w.ids) + 1
	w.ids[h] = v
	return v
}

func (w *world) disagree(impl, model, note string) {
	if w.bad {
		return
	}
	w.bad = true
	w.e.Rep.Disagree(w.c, impl, model, note)
}

func (w *world) ask(line, want, note string) string {
	if w.m == nil || w.bad {
		return want
	}
	got := w.m.Ask(line)
	if want != "" && got != want {
		w.disagree(want, got, note+" ["+line+"]")
	}
	return got
}

func specIDs(w *world, specs []nbs.VerifManSpec) []int {
	out := make([]int, len(specs))
	for i, sp := range specs {
		out[i] = w.id(sp.Name)
	}
	return out
}

// tableFiles lists the table files (and archives) in the directory by address
func (w *world) tableFiles() map[string]hash.Hash {
	out := map[string]hash.Hash{}
	ents, _ := os.ReadDir(w.dir)
	for _, en := range ents {
		n := en.Name()
		n = strings.TrimSuffix(n, nbs.ArchiveFileSuffix)
		if len(n) == 32 {
			if h, ok := hash.MaybeParse(n); ok {
				out[en.Name()] = h
			}
		}
	}
	return out
}

// syncLandings tells the model about table files that appeared (any process may land a table file at any
// time: `land`); disappearances are never explained here — they must be a pruner's or a cleaner's unlink.
func (w *world) syncLandings() {
	if w.m == nil {
		return
	}
	for name, h := range w.tableFiles() {
		if !w.tables[name] {
			w.tables[name] = true
			w.ask(fmt.Sprintf("land %d", w.id(h)), "ok", "table file landed")
		}
	}
}

// removed reports (and forgets) the table files the model knows that are gone from the directory
func (w *world) removed() []int {
	var out []int
	now := w.tableFiles()
	for name := range w.tables {
		if _, ok := now[name]; !ok {
			delete(w.tables, name)
			h, _ := hash.MaybeParse(strings.TrimSuffix(name, nbs.ArchiveFileSuffix))
			out = append(out, w.id(h))
		}
	}
	sort.Ints(out)
	return out
}

// realDir renders the real directory the way the model driver renders its visible directory
func (w *world) realDir() string {
	m := "none"
	if b, err := os.ReadFile(filepath.Join(w.dir, "manifest")); err == nil {
		if mc, err := nbs.VerifManParse(b); err != nil {
			m = "partial"
		} else {
			m = fmt.Sprintf("%d:%d:%d:%s", w.id(mc.Lock), w.id(mc.Root), w.id(mc.GCGen), hx.NatList(specIDs(w, mc.Specs)))
		}
	}
	var ts []int
	for _, h := range w.tableFiles() {
		ts = append(ts, w.id(h))
	}
	sort.Ints(ts)
	return fmt.Sprintf("m=%s t=%s", m, hx.NatList(ts))
}

func (w *world) conform(when string) {
	if w.m == nil || w.bad {
		return
	}
	w.syncLandings()
	w.ask("dir", w.realDir(), "visible directory after "+when)
	w.e.Rep.Hit("conform:dir-compared")
}

// tempManifest parses the newest temp manifest file in the directory (the one the Update in progress wrote)
func (w *world) tempManifest() (nbs.VerifManContents, bool) {
	ents, _ := os.ReadDir(w.dir)
	var best string
	var bestT time.Time
	for _, en := range ents {
		if strings.HasPrefix(en.Name(), "nbs_manifest_") {
			if info, err := en.Info(); err == nil && (best == "" || info.ModTime().After(bestT)) {
				best, bestT = en.Name(), info.ModTime()
			}
		}
	}
	if best == "" {
		return nbs.VerifManContents{}, false
	}
	b, err := os.ReadFile(filepath.Join(w.dir, best))
	if err != nil {
		return nbs.VerifManContents{}, false
	}
	mc, err := nbs.VerifManParse(b)
	return mc, err == nil
}

func (w *world) diskLock() hash.Hash {
	b, err := os.ReadFile(filepath.Join(w.dir, "manifest"))
	if err != nil {
		return hash.Hash{}
	}
	mc, err := nbs.VerifManParse(b)
	if err != nil {
		return hash.Hash{}
	}
	return mc.Lock
}

// updTrace follows one caller of manifest.Update (commit, conjoin, raw update) through its write-hook firings:
// at each firing the model's writer actor is spawned with what the temp file says and advanced to `synced`; when
// the Update is over (next firing or return) it is run to its end and must leave the way the real one did.
type updTrace struct {
	w        *world
	actor    int
	firstLL  hash.Hash
	fired    int
	pending  bool
	gc       bool
	lastNew  nbs.VerifManContents
	outcomes []string
}

func (u *updTrace) hook() {
	w := u.w
	if w.m == nil {
		return
	}
	u.finish() // a previous Update of the same call (retry loop) is over
	w.syncLandings()
	nc, ok := w.tempManifest()
	if !ok {
		w.disagree("temp manifest complete", "unreadable", "at the write hook the temp manifest must be completely written")
		return
	}
	ll := u.firstLL
	if u.fired > 0 {
		ll = w.diskLock()
	}
	u.fired++
	u.lastNew = nc
	flag := "upd"
	if u.gc {
		flag = "gc"
	}
	w.ask(fmt.Sprintf("wspawn %d %d %d %d %d %s %s", u.actor, w.id(ll), w.id(nc.Lock), w.id(nc.Root), w.id(nc.GCGen), hx.NatList(specIDs(w, nc.Specs)), flag), "ok", "spawn writer")
	w.ask(fmt.Sprintf("wbegin %d", u.actor), "synced", "the real Update is at its write hook: LOCK held, temp written and synced")
	w.ask("dir", w.realDir(), "visible directory at the write hook")
	u.pending = true
	w.e.Rep.Hit("conform:update-at-hook")
}

func (u *updTrace) finish() string {
	w := u.w
	if w.m == nil || !u.pending {
		return ""
	}
	u.pending = false
	got := w.ask(fmt.Sprintf("wfinish %d", u.actor), "", "")
	u.outcomes = append(u.outcomes, got)
	// what the real Update did is visible on disk: it wrote iff the manifest now carries the new lock
	real := "nochange"
	if w.diskLock() == u.lastNew.Lock {
		real = "wrote"
	}
	model := got
	if model != "wrote" {
		model = "nochange"
	}
	if real != model {
		w.disagree(real, got, "outcome of one manifest.Update")
	}
	w.e.Rep.Hit("conform:update-" + got)
	// only the manifest is compared here: the caller may already have gone on (conjoin unlinks its conjoinees
	// before it returns); the whole directory is compared after the step
	if !w.bad {
		md := strings.SplitN(w.m.Ask("dir"), " t=", 2)[0]
		rd := strings.SplitN(w.realDir(), " t=", 2)[0]
		if md != rd {
			w.disagree(rd, md, "manifest after the Update")
		}
	}
	return got
}

func (w *world) violate(key, what string) { w.e.Rep.Violate(key, what, w.c) }

// checkDir: the C05 predicate on a directory as it is right now.
// A background conjoin (its own goroutine in the store) may replace the manifest and unlink the conjoinees
// between our read of the manifest and our stat of a file: the predicate is about one instant, so a miss is
// only reported if the manifest is still the one that was read (otherwise the check is repeated).
func (w *world) checkDir(dir, when string) (root hash.Hash, ok bool) {
	for try := 0; ; try++ {
		root, ok, raced := w.checkDirOnce(dir, when, try < 4)
		if !raced {
			return root, ok
		}
		w.e.Rep.Hit("check:raced-with-manifest-change")
	}
}

func (w *world) checkDirOnce(dir, when string, mayRetry bool) (root hash.Hash, ok bool, raced bool) {
	r, o := w.checkDir1(dir, when, mayRetry, &raced)
	return r, o, raced
}

func (w *world) checkDir1(dir, when string, mayRetry bool, raced *bool) (root hash.Hash, ok bool) {
	b, err := os.ReadFile(filepath.Join(dir, "manifest"))
	if errors.Is(err, os.ErrNotExist) {
		return hash.Hash{}, true
	}
	if err != nil {
		w.violate("C05/manifest-unreadable", when+": "+err.Error())
		return hash.Hash{}, false
	}
	mc, err := nbs.VerifManParse(b)
	if err != nil {
		w.violate("C05/manifest-partial", fmt.Sprintf("%s: the manifest file does not parse (%v): %q", when, err, string(b)))
		return hash.Hash{}, false
	}
	// a complete manifest re-serialises to the same bytes
	if wb, err := nbs.VerifManWrite(mc); err != nil || string(wb) != string(b) {
		w.violate("C05/manifest-not-canonical", fmt.Sprintf("%s: parse∘write is not the identity on the on-disk manifest (%v)", when, err))
	}
	for _, s := range append(append([]nbs.VerifManSpec{}, mc.Specs...), mc.Appendix...) {
		ex, err := nbs.VerifManTableFileOrArchiveExists(dir, s.Name)
		if (err != nil || !ex) && mayRetry {
			if nb, _ := os.ReadFile(filepath.Join(dir, "manifest")); string(nb) != string(b) {
				*raced = true
				return mc.Root, false
			}
		}
		if err != nil || !ex {
			w.violate("C05/manifest-names-missing-file", fmt.Sprintf("%s: the manifest names table file %s which is not in the directory", when, s.Name.String()))
			return mc.Root, false
		}
	}
	w.e.Rep.Hit("checked:" + strings.SplitN(when, " ", 2)[0])
	return mc.Root, true
}

// crashCopy emulates a crash at this instant: copy the directory, open the copy.
func (w *world) crashCopy(when string, allowed ...hash.Hash) {
	w.crashN++
	dst := filepath.Join(w.e.Scratch, fmt.Sprintf("crash-%d", w.crashN))
	os.RemoveAll(dst)
	os.MkdirAll(dst, 0o755)
	// the manifest first: everything it names exists at that instant (that is the property), and table files
	// are immutable, so copying them afterwards yields a state the directory could have crashed in — unless a
	// background conjoin unlinks conjoinees meanwhile; then the manifest has changed and the image is discarded
	mb, _ := os.ReadFile(filepath.Join(w.dir, "manifest"))
	if mb != nil {
		os.WriteFile(filepath.Join(dst, "manifest"), mb, 0o644)
	}
	ents, _ := os.ReadDir(w.dir)
	for _, en := range ents {
		if en.IsDir() || en.Name() == "LOCK" || en.Name() == "manifest" {
			continue
		}
		src, err := os.Open(filepath.Join(w.dir, en.Name()))
		if err != nil {
			continue
		}
		d, _ := os.Create(filepath.Join(dst, en.Name()))
		io.Copy(d, src)
		d.Close()
		src.Close()
	}
	if nb, _ := os.ReadFile(filepath.Join(w.dir, "manifest")); string(nb) != string(mb) {
		w.e.Rep.Hit("crash-image:discarded-manifest-changed-during-copy")
		os.RemoveAll(dst)
		return
	}
	root, ok := w.checkDir(dst, "crash-image "+when)
	if ok && w.journal {
		// the root of a journaling store lives in the journal, not in the manifest file: only the manifest predicate applies
		os.RemoveAll(dst)
		w.e.Rep.Hit("crash-image")
		return
	}
	if ok {
		good := false
		for _, a := range allowed {
			if a == root {
				good = true
			}
		}
		if !good {
			w.violate("C05/crash-image-neither-old-nor-new", fmt.Sprintf("crash image %s has root %s, expected one of %v", when, root.String(), allowed))
		}
		st, err := nbs.NewLocalStore(w.ctx, constants.FormatDoltString, dst, 1<<16, nbs.NewUnlimitedMemQuotaProvider(), false)
		if err != nil {
			w.violate("C05/crash-image-does-not-open", when+": "+err.Error())
		} else {
			st.Close()
		}
	}
	os.RemoveAll(dst)
	w.e.Rep.Hit("crash-image")
}

func (w *world) age() {
	// make every file look an hour old so that a grace prune (grace 10 min) considers the directory quiescent
	old := time.Now().Add(-time.Hour)
	ents, _ := os.ReadDir(w.dir)
	for _, en := range ents {
		if !en.IsDir() {
			os.Chtimes(filepath.Join(w.dir, en.Name()), old, old)
		}
	}
}

func (w *world) mkChunk() chunks.Chunk {
	w.next++
	return chunks.NewChunk([]byte(fmt.Sprintf("c05-chunk-%d-%s", w.next, strings.Repeat("x", w.next%17))))
}

func noRefs(chunks.Chunk) chunks.InsertAddrsCb {
	return func(context.Context, hash.HashSet, chunks.PendingRefExists) error { return nil }
}

func (w *world) currentRoot() hash.Hash {
	b, err := os.ReadFile(filepath.Join(w.dir, "manifest"))
	if err != nil {
		return hash.Hash{}
	}
	mc, err := nbs.VerifManParse(b)
	if err != nil {
		return hash.Hash{}
	}
	return mc.Root
}

func (w *world) nested(in []step, when string) {
	w.depth++
	for i := range in {
		w.do(&in[i])
		w.checkDir(w.dir, "nested-in-"+when+" "+in[i].Kind)
	}
	w.depth--
}

func (w *world) do(s *step) {
	s.Res = hx.Recover(func() string { return w.do1(s) })
	if strings.HasPrefix(s.Res, "panic:") {
		w.violate("C05/panic", s.Kind+": "+s.Res)
	}
}

func (w *world) do1(s *step) string {
	st := w.hs[s.H%3]
	switch s.Kind {
	case "open":
		if st != nil {
			st.Close()
		}
		var n *nbs.NomsBlockStore
		var err error
		if w.journal {
			n, err = nbs.NewLocalJournalingStore(w.ctx, constants.FormatDoltString, w.dir, nbs.NewUnlimitedMemQuotaProvider(), false, nil)
			if err == nil {
				if _, rerr := n.Root(w.ctx); rerr != nil {
					n.Close()
					err = rerr
				}
			}
		} else {
			n, err = nbs.VerifManNewLocalStore(w.ctx, constants.FormatDoltString, w.dir, 1<<12, w.c.MaxTables, nbs.NewUnlimitedMemQuotaProvider())
		}
		if err != nil {
			w.hs[s.H%3] = nil
			return "err " + err.Error()
		}
		w.hs[s.H%3] = n
		return "ok"
	case "write":
		if st == nil {
			return "closed"
		}
		if !s.Stale {
			if err := st.Rebase(w.ctx); err != nil {
				return "err rebase " + err.Error()
			}
		}
		last, _ := st.Root(w.ctx)
		var c chunks.Chunk
		for i := 0; i <= s.N; i++ {
			c = w.mkChunk()
			if err := st.Put(w.ctx, c, noRefs); err != nil {
				return "err put " + err.Error()
			}
		}
		u := &updTrace{w: w, actor: s.H % 3, firstLL: nbs.VerifManUpstream(st).Lock}
		planned := s.Hook == "lock" && w.depth == 0
		fired := false
		nbs.VerifManSetHooks(st, nil, func() error {
			u.hook()
			if planned && !fired {
				fired = true
				old := w.currentRoot()
				w.checkDir(w.dir, "inside-update before-rename")
				w.crashCopy("inside manifest.Update (temp written, not renamed)", old)
				w.nested(s.In, "update")
			}
			return nil
		})
		defer nbs.VerifManSetHooks(st, nil, nil)
		before := w.currentRoot()
		ok, err := st.Commit(w.ctx, c.Hash(), last)
		u.finish()
		if err != nil {
			return "err commit " + err.Error()
		}
		if ok {
			w.crashCopy("right after an acknowledged commit", c.Hash())
		} else {
			w.crashCopy("after a refused commit", before, w.currentRoot())
		}
		return fmt.Sprint(ok)
	case "orphan":
		// a complete table file that no manifest names (what an interrupted sync leaves behind)
		if st == nil {
			return "closed"
		}
		c := w.mkChunk()
		name, data, _, err := nbs.WriteChunks([]chunks.Chunk{c})
		if err != nil {
			return "err " + err.Error()
		}
		cl, err := st.WriteTableFile(w.ctx, name, 0, 1, nil, func() (io.ReadCloser, uint64, error) {
			return io.NopCloser(strings.NewReader(string(data))), uint64(len(data)), nil
		})
		if err != nil {
			return "err " + firstLine(err)
		}
		cl.Close()
		return "ok"
	case "conjoin":
		if st == nil {
			return "closed"
		}
		if err := st.Rebase(w.ctx); err != nil {
			return "err rebase " + err.Error()
		}
		err := w.conjoinTraced(st, s.H, nil)
		if err != nil {
			return "err " + firstLine(err)
		}
		return "ok"
	case "upload":
		// a pushed table file: WriteTableFile, the pending handle closed (as remotesrv does), then AddTableFilesToManifest
		if st == nil {
			return "closed"
		}
		c := w.mkChunk()
		name, data, _, err := nbs.WriteChunks([]chunks.Chunk{c})
		if err != nil {
			return "err " + err.Error()
		}
		cl, err := st.WriteTableFile(w.ctx, name, 0, 1, nil, func() (io.ReadCloser, uint64, error) {
			return io.NopCloser(strings.NewReader(string(data))), uint64(len(data)), nil
		})
		if err != nil {
			return "err " + firstLine(err)
		}
		cl.Close()
		u := &updTrace{w: w, actor: s.H % 3, firstLL: w.diskLock()}
		nbs.VerifManSetHooks(st, nil, func() error { u.hook(); return nil })
		err = st.AddTableFilesToManifest(w.ctx, map[string]int{name: 1}, noRefs)
		nbs.VerifManSetHooks(st, nil, nil)
		u.finish()
		if err != nil {
			return "err " + firstLine(err)
		}
		return "ok"
	case "readd":
		// AddTableFilesToManifest of a table file the manifest already names, parked inside its reference check (the getAddrs
		// callback runs with no store lock held) while the same store conjoins that very file away: the conjoin's cleanup must
		// leave the file alone (the add holds it), and the add then publishes it again.
		if st == nil {
			return "closed"
		}
		if err := st.Rebase(w.ctx); err != nil {
			return "err rebase " + err.Error()
		}
		up := nbs.VerifManUpstream(st)
		tabs := tableSpecs(up.Specs)
		if up.Root.IsEmpty() || len(tabs) < 2 {
			return "skipped"
		}
		x := tabs[s.N%len(tabs)]
		u := &updTrace{w: w, actor: s.H % 3, firstLL: up.Lock}
		nested := false
		var cerr error
		cb := func(c chunks.Chunk) chunks.InsertAddrsCb {
			if !nested {
				nested = true
				nbs.VerifManSetHooks(st, nil, nil)
				cerr = w.conjoinTraced(st, s.H, nil)
				w.checkDir(w.dir, "inside-readd after-nested-conjoin")
				u.firstLL = w.diskLock()
				nbs.VerifManSetHooks(st, nil, func() error { u.hook(); return nil })
			}
			return noRefs(c)
		}
		nbs.VerifManSetHooks(st, nil, func() error { u.hook(); return nil })
		err := st.AddTableFilesToManifest(w.ctx, map[string]int{x.Name.String(): int(x.Count)}, cb)
		nbs.VerifManSetHooks(st, nil, nil)
		u.finish()
		w.e.Rep.Hit(fmt.Sprintf("readd:nested-conjoin=%v", nested && cerr == nil))
		if err != nil {
			return "err " + firstLine(err)
		}
		return "ok"
	case "prune":
		if st == nil {
			return "closed"
		}
		w.age()
		w.syncLandings()
		pa := 10 + s.H%3
		if w.m != nil {
			up := nbs.VerifManUpstream(st)
			w.ask(fmt.Sprintf("pspawn %d %s", pa, hx.NatList(specIDs(w, append(append([]nbs.VerifManSpec{}, up.Specs...), up.Appendix...)))), "ok", "spawn pruner")
		}
		planned := w.depth == 0 && s.Hook != ""
		fired := false
		snapFired, lockFired := false, false
		oldA, oldU := nbs.VerifManSetPruneHooks(func() {
			snapFired = true
			w.ask(fmt.Sprintf("padv %d", pa), "snapped", "prune: candidate snapshot taken")
			if planned && s.Hook == "snap" && !fired {
				fired = true
				w.nested(s.In, "prune-snap")
			}
		}, func() {
			lockFired = true
			w.ask(fmt.Sprintf("padv %d", pa), "locked", "prune: manifest LOCK taken")
			w.ask(fmt.Sprintf("padv %d", pa), "keeping", "prune: manifest read under the LOCK, keep set built")
			if planned && s.Hook == "lock" && !fired {
				fired = true
				w.nested(s.In, "prune-lock")
			}
		})
		stats, err := st.PruneUnreferencedWithGrace(w.ctx, 10*time.Minute)
		nbs.VerifManSetPruneHooks(oldA, oldU)
		if w.m != nil {
			gone := w.removed()
			for _, n := range gone {
				w.ask(fmt.Sprintf("punlink %d %d", pa, n), "ok", "the real pruner deleted this file: the model's pruner must be allowed to (in snapshot, outside keep, LOCK held)")
				w.e.Rep.Hit("conform:prune-unlink")
			}
			if lockFired {
				w.ask(fmt.Sprintf("padv %d", pa), "gone", "prune: unlock")
			} else {
				w.ask(fmt.Sprintf("pabort %d", pa), "ok", "")
				if len(gone) > 0 {
					w.disagree(fmt.Sprint(gone), "[]", "files disappeared during a prune that never took the LOCK")
				}
			}
			_ = snapFired
		}
		if err != nil {
			return "err " + firstLine(err)
		}
		w.e.Rep.Hit(fmt.Sprintf("prune:deleted>0=%v skipped=%v", stats.FilesDeleted > 0, len(stats.Skipped) > 0))
		for _, sk := range stats.Skipped {
			if i := strings.Index(sk, ": "); i >= 0 {
				sk = sk[i+2:]
			}
			if len(sk) > 40 {
				sk = sk[:40]
			}
			w.e.Rep.Hit("prune-skip:" + sk)
		}
		return fmt.Sprintf("deleted=%d skipped=%d", stats.FilesDeleted, len(stats.Skipped))
	case "rawupdate":
		fm, err := nbs.VerifManOpenFileManifest(w.ctx, w.dir)
		if err != nil {
			return "err " + err.Error()
		}
		defer fm.Close()
		ok, cur, err := fm.ParseIfExists(w.ctx, nil)
		if err != nil || !ok {
			return "no-manifest"
		}
		nc := cur
		nc.Specs = append([]nbs.VerifManSpec{}, cur.Specs...)
		if s.Bad {
			nc.Specs = append(nc.Specs, nbs.VerifManSpec{Name: w.mkChunk().Hash(), Count: 1})
		}
		nc.Lock = nbs.VerifManLockHash(nc.Root, nc.Specs, nil, []byte(fmt.Sprint(w.next)))
		u := &updTrace{w: w, actor: 30 + s.H%3, firstLL: cur.Lock}
		got, err := fm.Update(w.ctx, cur.Lock, nc, func() error { u.hook(); return nil })
		if mo := u.finish(); mo != "" {
			real := "wrote"
			if err != nil && errors.Is(err, nbs.ErrManifestSpecMissingTableFile) {
				real = "invalid"
			} else if err != nil || got.Lock != nc.Lock {
				real = "stale"
			}
			if mo != real {
				w.disagree(real, mo, "raw fileManifest.Update outcome")
			}
		}
		if err != nil {
			if s.Bad && errors.Is(err, nbs.ErrManifestSpecMissingTableFile) {
				return "rejected-missing-file"
			}
			return "err " + firstLine(err)
		}
		if s.Bad && got.Lock == nc.Lock {
			w.violate("C05/update-accepted-missing-file", "fileManifest.Update published a spec whose table file does not exist")
		}
		return "ok"
	}
	return "bad-step"
}

const journalName = "vvvvvvvvvvvvvvvvvvvvvvvvvvvvvvvv"

// tableSpecs drops the chunk journal's own spec
func tableSpecs(specs []nbs.VerifManSpec) []nbs.VerifManSpec {
	var out []nbs.VerifManSpec
	for _, sp := range specs {
		if sp.Name.String() != journalName {
			out = append(out, sp)
		}
	}
	return out
}

// conjoinTraced: ConjoinTableFiles on every table file of the handle's view (or ids), with the model's writer following
// its Update(s) and the model's cleaner its unlocked unlinks
func (w *world) conjoinTraced(st *nbs.NomsBlockStore, h int, ids []hash.Hash) error {
	up := nbs.VerifManUpstream(st)
	if ids == nil && w.journal {
		for _, sp := range tableSpecs(up.Specs) {
			ids = append(ids, sp.Name)
		}
		if len(ids) < 2 {
			return errors.New("fewer than two table files")
		}
	}
	u := &updTrace{w: w, actor: h % 3, firstLL: up.Lock}
	nbs.VerifManSetHooks(st, nil, func() error { u.hook(); return nil })
	_, err := st.ConjoinTableFiles(w.ctx, ids)
	nbs.VerifManSetHooks(st, nil, nil)
	u.finish()
	// the conjoin's cleanup unlinks the conjoinees without the manifest LOCK: the model's cleaner actor
	if gone := w.removed(); len(gone) > 0 && w.m != nil {
		a := 20 + h%3
		w.ask(fmt.Sprintf("cspawn %d %s", a, hx.NatList(gone)), "ok", "conjoin cleanup")
		for _, n := range gone {
			w.ask(fmt.Sprintf("cunlink %d %d", a, n), "ok safe", "conjoin cleanup unlinks a conjoinee (no LOCK): must be enabled and CSafe")
			w.e.Rep.Hit("conform:cleanup-unlink")
		}
		w.ask(fmt.Sprintf("retire %d", a), "ok", "")
	}
	return err
}

func firstLine(err error) string {
	s := err.Error()
	if i := strings.IndexByte(s, '\n'); i >= 0 {
		s = s[:i]
	}
	if len(s) > 120 {
		s = s[:120]
	}
	return s
}

func genNested(r *hx.Rng, outer int) []step {
	var in []step
	for i, n := 0, r.Range(1, 2); i < n; i++ {
		h := (outer + 1 + r.Intn(2)) % 3
		switch r.Intn(4) {
		case 0:
			in = append(in, step{Kind: "open", H: h})
		case 1, 2:
			in = append(in, step{Kind: "write", H: h, N: r.Intn(3)})
		default:
			in = append(in, step{Kind: "prune", H: h})
		}
	}
	return in
}

// genJournal: one journaling store (exclusive writer): commits go to the journal, table files arrive as uploads
func genJournal(r *hx.Rng) *kase {
	c := &kase{Journal: true, MaxTables: 256}
	c.Steps = append(c.Steps, step{Kind: "open", H: 0}, step{Kind: "write", H: 0, N: 1}, step{Kind: "upload", H: 0}, step{Kind: "upload", H: 0})
	n := r.Range(5, 14)
	for i := 0; i < n; i++ {
		switch x := r.Intn(100); {
		case x < 30:
			c.Steps = append(c.Steps, step{Kind: "upload", H: 0})
		case x < 45:
			c.Steps = append(c.Steps, step{Kind: "write", H: 0, N: r.Intn(3)})
		case x < 60:
			c.Steps = append(c.Steps, step{Kind: "conjoin", H: 0})
		case x < 90:
			c.Steps = append(c.Steps, step{Kind: "readd", H: 0, N: r.Intn(8)})
		default:
			c.Steps = append(c.Steps, step{Kind: "open", H: 0})
		}
	}
	return c
}

func gen(r *hx.Rng) *kase {
	if r.Chance(1, 4) {
		return genJournal(r)
	}
	c := &kase{MaxTables: hx.Pick(r, []int{4, 256, 256, 256})}
	c.Steps = append(c.Steps, step{Kind: "open", H: 0}, step{Kind: "open", H: 1})
	n := r.Range(6, 22)
	for i := 0; i < n; i++ {
		h := r.Intn(3)
		switch x := r.Intn(100); {
		case x < 8:
			c.Steps = append(c.Steps, step{Kind: "open", H: h})
		case x < 55:
			s := step{Kind: "write", H: h, N: r.Intn(4), Stale: r.Chance(1, 4)}
			if r.Chance(1, 3) {
				s.Hook = "lock"
				s.In = genNested(r, h)
			}
			c.Steps = append(c.Steps, s)
		case x < 58:
			c.Steps = append(c.Steps, step{Kind: "conjoin", H: h})
		case x < 62:
			c.Steps = append(c.Steps, step{Kind: "readd", H: h, N: r.Intn(8)})
		case x < 70:
			c.Steps = append(c.Steps, step{Kind: "orphan", H: h})
		case x < 88:
			s := step{Kind: "prune", H: h}
			if r.Chance(1, 2) {
				s.Hook = hx.Pick(r, []string{"snap", "lock"})
				s.In = genNested(r, h)
			}
			c.Steps = append(c.Steps, s)
		default:
			c.Steps = append(c.Steps, step{Kind: "rawupdate", H: h, Bad: r.Chance(2, 3)})
		}
	}
	return c
}

func run(e *hx.Env, c *kase, n int) {
	dir := filepath.Join(e.Scratch, fmt.Sprintf("c05-%d", n))
	os.RemoveAll(dir)
	os.MkdirAll(dir, 0o755)
	w := &world{e: e, ctx: context.Background(), dir: dir, c: c, roots: map[hash.Hash]bool{}, ids: map[hash.Hash]int{}, tables: map[string]bool{}}
	w.journal = c.Journal
	if c.Journal {
		e.Rep.Hit("case:journal-store(oracle only)")
	} else if theModel != nil && c.MaxTables >= 256 {
		// with the background conjoin goroutine off, the step trace of the run is deterministic: replay it on the model
		w.m = theModel
		w.m.Ask("reset")
		e.Rep.Hit("case:trace-conformance")
	} else if !c.Journal {
		e.Rep.Hit("case:oracle-only(background conjoin)")
	}
	nt := false
	var sb strings.Builder
	for i := range c.Steps {
		s := &c.Steps[i]
		w.do(s)
		w.checkDir(dir, "after "+s.Kind)
		w.conform(s.Kind)
		if w.m != nil && !w.bad {
			if imgs := w.m.Ask("crashimgs"); strings.Contains(imgs, "BAD") {
				w.disagree("every crash image good", imgs, "the model itself produced a bad crash image (contradicts durable_refs_present)")
			}
		}
		e.Rep.Hit("step:" + s.Kind + ":" + strings.SplitN(s.Res, " ", 2)[0])
		fmt.Fprintf(&sb, "%s%d%s:%s;", s.Kind, s.H, s.Hook, strings.SplitN(s.Res, " ", 2)[0])
		for _, in := range s.In {
			if in.Res != "" {
				nt = true
				e.Rep.Hit("nested:" + s.Kind + "/" + s.Hook + ":" + in.Kind)
				fmt.Fprintf(&sb, "(%s%d:%s)", in.Kind, in.H, strings.SplitN(in.Res, " ", 2)[0])
			}
		}
	}
	for i, st := range w.hs {
		if st != nil {
			st.Close()
			w.hs[i] = nil
		}
	}
	os.RemoveAll(dir)
	e.Rep.Count(sb.String(), nt)
	if n < 2 {
		e.Rep.Sample(c)
	}
	e.Rep.TracesValidated++
}

var theModel *hx.Model

// legacyPruneWitness replays on the real code the point `refs_present_inv` excludes (`StepSafe`): an unlink that
// does not take the manifest LOCK.  A handle that has not rebased runs the legacy PruneTableFiles after another
// handle's commit: it deletes the table file the manifest names.  Reported as a note + counter, not as a
// violation: the property's quantifier names the grace prune; the coordinator decides whether it is a finding.
func legacyPruneWitness(e *hx.Env) {
	dir := filepath.Join(e.Scratch, "legacy-prune")
	os.RemoveAll(dir)
	os.MkdirAll(dir, 0o755)
	defer os.RemoveAll(dir)
	ctx := context.Background()
	q := nbs.NewUnlimitedMemQuotaProvider()
	stale, err := nbs.NewLocalStore(ctx, constants.FormatDoltString, dir, 1<<12, q, false)
	if err != nil {
		return
	}
	defer stale.Close()
	wr, err := nbs.NewLocalStore(ctx, constants.FormatDoltString, dir, 1<<12, q, false)
	if err != nil {
		return
	}
	defer wr.Close()
	c := chunks.NewChunk([]byte("legacy-prune-witness-chunk"))
	wr.Put(ctx, c, noRefs)
	ok, err := wr.Commit(ctx, c.Hash(), hash.Hash{})
	if err != nil || !ok {
		return
	}
	w := &world{e: e, ctx: ctx, dir: dir, c: &kase{}, ids: map[hash.Hash]int{}, tables: map[string]bool{}}
	if theModel != nil {
		w.m = theModel
		w.m.Ask("reset")
		w.syncLandings()
		b, _ := os.ReadFile(filepath.Join(dir, "manifest"))
		mc, _ := nbs.VerifManParse(b)
		w.m.Ask(fmt.Sprintf("wspawn 0 0 %d %d %d %s upd", w.id(mc.Lock), w.id(mc.Root), w.id(mc.GCGen), hx.NatList(specIDs(w, mc.Specs))))
		w.m.Ask("wbegin 0")
		w.m.Ask("wfinish 0")
	}
	perr := stale.PruneTableFiles(ctx)
	b, _ := os.ReadFile(filepath.Join(dir, "manifest"))
	mc, _ := nbs.VerifManParse(b)
	missing := 0
	for _, sp := range mc.Specs {
		if ex, _ := nbs.VerifManTableFileOrArchiveExists(dir, sp.Name); !ex {
			missing++
		}
	}
	modelSays := ""
	if w.m != nil {
		gone := w.removed()
		w.m.Ask(fmt.Sprintf("cspawn 20 %s", hx.NatList(gone)))
		for _, n := range gone {
			modelSays = w.m.Ask(fmt.Sprintf("cunlink 20 %d", n))
		}
		if (missing > 0) != strings.Contains(modelSays, "UNSAFE") {
			e.Rep.Disagree("legacy-prune-witness", fmt.Sprint(missing > 0), modelSays, "the model's CSafe must fail exactly when the real unlocked unlink breaks the manifest")
		}
	}
	if missing > 0 {
		e.Rep.Hit("witness:legacy-PruneTableFiles-by-stale-handle-deletes-referenced-file")
		e.Rep.Note(fmt.Sprintf("WITNESS (excluded by StepSafe, reproduced on the implementation): handle A opens an empty dir; handle B Put+Commit (manifest names table T); A.PruneTableFiles() (err=%v) unlinks T without the manifest LOCK: the manifest now names %d missing file(s); model: cunlink -> %q", perr, missing, modelSays))
	} else {
		e.Rep.Note("legacy-prune witness did NOT reproduce on this tree")
	}
}

// unorderedCrashWitness: the point `durable_refs_present` (ordered-metadata crash model) excludes.  The real
// trace of one commit: the table file is renamed into place, the manifest is renamed over `manifest`, then the
// directory is fsynced once.  If the file system may persist the second rename without the first, the durable
// image is {directory entries of the last directory fsync} + {new manifest}: built here from the real files and
// opened with the real code.  Note + counter (file-system dependent), not a violation.  With strace available the
// absence of a directory fsync between the two renames is confirmed on the syscall trace of a child process.
func unorderedCrashWitness(e *hx.Env) {
	dir := filepath.Join(e.Scratch, "unordered-crash")
	os.RemoveAll(dir)
	os.MkdirAll(dir, 0o755)
	defer os.RemoveAll(dir)
	ctx := context.Background()
	st, err := nbs.NewLocalStore(ctx, constants.FormatDoltString, dir, 1<<12, nbs.NewUnlimitedMemQuotaProvider(), false)
	if err != nil {
		return
	}
	c1 := chunks.NewChunk([]byte("unordered-crash-1"))
	st.Put(ctx, c1, noRefs)
	st.Commit(ctx, c1.Hash(), hash.Hash{})
	durable := map[string]bool{} // directory entries as of the directory fsync that ended the first commit
	ents, _ := os.ReadDir(dir)
	for _, en := range ents {
		durable[en.Name()] = true
	}
	c2 := chunks.NewChunk([]byte("unordered-crash-2"))
	st.Put(ctx, c2, noRefs)
	ok, _ := st.Commit(ctx, c2.Hash(), c1.Hash())
	st.Close()
	if !ok {
		return
	}
	img := filepath.Join(e.Scratch, "unordered-crash-img")
	os.RemoveAll(img)
	os.MkdirAll(img, 0o755)
	defer os.RemoveAll(img)
	ents, _ = os.ReadDir(dir)
	for _, en := range ents {
		if en.Name() == "LOCK" || (!durable[en.Name()] && en.Name() != "manifest") {
			continue // a rename that was not followed by a directory fsync of its own: lost in this image
		}
		b, _ := os.ReadFile(filepath.Join(dir, en.Name()))
		os.WriteFile(filepath.Join(img, en.Name()), b, 0o644)
	}
	b, _ := os.ReadFile(filepath.Join(img, "manifest"))
	mc, _ := nbs.VerifManParse(b)
	missing := 0
	for _, sp := range mc.Specs {
		if ex, _ := nbs.VerifManTableFileOrArchiveExists(img, sp.Name); !ex {
			missing++
		}
	}
	_, oerr := nbs.NewLocalStore(ctx, constants.FormatDoltString, img, 1<<12, nbs.NewUnlimitedMemQuotaProvider(), false)
	if missing > 0 {
		e.Rep.Hit("witness:unordered-crash-image-names-missing-table-file")
		e.Rep.Note(fmt.Sprintf("WITNESS (excluded by the ordered-metadata assumption of durable_refs_present; Lean: durable_refs_present_subset_refuted): durable image = entries of the previous directory fsync + the renamed manifest: manifest names %d missing table file(s); opening it with NewLocalStore: %v", missing, oerr))
	}
}

// straceWitness: hook-free second witness for the order of the directory operations of one commit: runs this
// binary as a child (`-childcommit dir`) under strace and checks that between the rename that lands the table
// file and the rename over `manifest` the directory is never opened for an fsync, and that it is fsynced after.
func straceWitness(e *hx.Env) {
	path, err := exec.LookPath("strace")
	if err != nil {
		e.Rep.Note("strace not available: syscall-order witness skipped")
		return
	}
	dir := filepath.Join(e.Scratch, "strace-commit")
	os.RemoveAll(dir)
	os.MkdirAll(dir, 0o755)
	defer os.RemoveAll(dir)
	out := filepath.Join(e.Scratch, "strace.out")
	defer os.Remove(out)
	self, _ := os.Executable()
	cmd := exec.Command(path, "-f", "-o", out, "-e", "trace=openat,rename,renameat,renameat2,fsync", self, "-childcommit", dir)
	if err := cmd.Run(); err != nil {
		e.Rep.Note("strace run failed: " + err.Error())
		return
	}
	b, _ := os.ReadFile(out)
	var events []string // T = table rename, M = manifest rename, D = dir opened (for fsync), F = fsync
	for _, ln := range strings.Split(string(b), "\n") {
		switch {
		case strings.Contains(ln, "rename") && strings.Contains(ln, "/manifest\""):
			events = append(events, "M")
		case strings.Contains(ln, "rename") && strings.Contains(ln, "nbs_table_"):
			events = append(events, "T")
		case strings.Contains(ln, "openat(") && strings.Contains(ln, "\""+dir+"\""):
			events = append(events, "D")
		case strings.Contains(ln, "fsync("):
			events = append(events, "F")
		}
	}
	tr := strings.Join(events, "")
	ti, mi := strings.Index(tr, "T"), strings.LastIndex(tr, "M")
	switch {
	case ti < 0 || mi < 0 || mi < ti:
		e.Rep.Note("strace witness: unexpected trace shape " + tr)
	case strings.Contains(tr[ti:mi], "DF"):
		e.Rep.Disagree("strace-witness", tr, "no dir fsync between T and M", "the directory is fsynced between the table-file rename and the manifest rename: Tie.table_file_landing / the model's pending list no longer describe the code")
	case !strings.Contains(tr[mi:], "DF"):
		e.Rep.Disagree("strace-witness", tr, "dir fsync after M", "no directory fsync after the manifest rename")
	default:
		e.Rep.Hit("strace:table-rename..manifest-rename-without-dir-fsync,then-dir-fsync")
		e.Rep.Note("strace witness: syscall order of one commit (T table rename, M manifest rename, D open dir, F fsync): " + tr)
	}
}

func childCommit(dir string) {
	ctx := context.Background()
	st, err := nbs.NewLocalStore(ctx, constants.FormatDoltString, dir, 1<<12, nbs.NewUnlimitedMemQuotaProvider(), false)
	if err != nil {
		os.Exit(3)
	}
	c := chunks.NewChunk([]byte("strace-child-chunk"))
	st.Put(ctx, c, noRefs)
	if ok, err := st.Commit(ctx, c.Hash(), hash.Hash{}); err != nil || !ok {
		os.Exit(4)
	}
	st.Close()
}

func main() {
	child := flag.String("childcommit", "", "internal: perform one commit in this directory and exit (run under strace)")
	for i, a := range os.Args {
		if a == "-childcommit" && i+1 < len(os.Args) {
			childCommit(os.Args[i+1])
			return
		}
	}
	_ = child
	e := hx.Init("manifestfs", "C05")
	defer e.Finish()
	if e.ModelBin != "" {
		theModel = e.MustModel()
		defer theModel.Close()
	}
	e.Rep.Rule = "seeded step sequences of writers (put+commit), conjoin, grace prune, raw manifest updates (2/3 naming a missing file) over 3 real handles on one directory; other actors' steps nested inside manifest.Update (under the LOCK) and at both prune hooks; crash images copied at every write-hook yield and after every commit; distinct = different (step, handle, hook, result) sequence; non-trivial = at least one step executed inside a hook"
	n := 0
	for _, raw := range e.CorpusCases() {
		var c kase
		if json.Unmarshal(raw, &c) == nil {
			run(e, &c, n)
			n++
		}
	}
	if e.Replay != "" {
		rf, err := hx.LoadReplay(e.Replay)
		if err != nil {
			panic(err)
		}
		var c kase
		if err := json.Unmarshal(rf.Case, &c); err != nil {
			panic(err)
		}
		run(e, &c, n)
		return
	}
	legacyPruneWitness(e)
	unorderedCrashWitness(e)
	straceWitness(e)
	total := e.N(60, 1000)
	for i := 0; i < total; i++ {
		run(e, gen(e.Rng.Fork()), n)
		n++
	}
}
