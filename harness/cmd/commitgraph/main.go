// commitgraph: correspondence + property oracles for C18 (heights, closures, stable addresses)
// and C19 (merge bases, ancestor specs, fast-forward checks).
//
// Random commit DAG histories are created with the real `datas` code on an in-memory store; the
// same history is fed to the Lean model driver (dv_dag); the oracle is a brute-force BFS over the
// parent lists read back from the store, written from the property statements only.
package main

import (
	"context"
	"encoding/hex"
	"encoding/json"
	"errors"
	"flag"
	"fmt"
	"io"
	"os"
	"sort"
	"strings"
	"time"

	"github.com/dolthub/dolt/go/libraries/doltcore/doltdb"
	"github.com/dolthub/dolt/go/libraries/doltcore/ref"
	"github.com/dolthub/dolt/go/store/chunks"
	"github.com/dolthub/dolt/go/store/datas"
	"github.com/dolthub/dolt/go/store/hash"
	"github.com/dolthub/dolt/go/store/prolly/tree"
	"github.com/dolthub/dolt/go/store/types"

	"verif/harness/internal/hx"
)

// dagCase: commit i names the commits Parents[i] (indices < i, duplicates allowed).
type dagCase struct {
	Gen     string   `json:"gen"`
	Parents [][]int  `json:"parents"`
	Specs   []string `json:"specs,omitempty"` // C19: "<commit index><suffix>"
	Pairs   [][2]int `json:"pairs,omitempty"` // C19: only these ordered pairs (deep histories); empty = all
	Salt    int      `json:"salt"`
}

var ctx = context.Background()

// ------------------------------------------------------------------ generators

func genDag(r *hx.Rng, maxN int) dagCase {
	n := r.Range(2, maxN)
	salt := r.Intn(1 << 30)
	switch r.Intn(9) {
	case 0: // criss-cross ladders: two lines, every rung merges both ways
		ps := [][]int{{}}
		a, b := 0, 0
		if r.Chance(1, 3) { // two roots
			ps = append(ps, []int{})
			b = 1
		}
		for len(ps)+2 <= n {
			if r.Chance(1, 3) { // plain advance on both sides
				ps = append(ps, []int{a})
				a = len(ps) - 1
				ps = append(ps, []int{b})
				b = len(ps) - 1
				continue
			}
			ps = append(ps, []int{a, b}, []int{b, a})
			a, b = len(ps)-2, len(ps)-1
		}
		return dagCase{Gen: "crisscross", Parents: ps, Salt: salt}
	case 1: // layered: wide layers of equal height, each node merges several of the previous layer
		ps := [][]int{}
		var prev []int
		for len(ps) < n {
			w := r.Range(1, 5)
			var cur []int
			for j := 0; j < w && len(ps) < n; j++ {
				var p []int
				if len(prev) > 0 {
					k := r.Range(1, 4)
					for x := 0; x < k; x++ {
						p = append(p, hx.Pick(r, prev))
					}
				}
				ps = append(ps, p)
				cur = append(cur, len(ps)-1)
			}
			prev = cur
		}
		return dagCase{Gen: "layered", Parents: ps, Salt: salt}
	case 2: // octopus + duplicates
		ps := [][]int{{}}
		for len(ps) < n {
			k := r.Range(0, 4)
			var p []int
			for x := 0; x < k; x++ {
				p = append(p, r.Intn(len(ps)))
			}
			if len(p) > 0 && r.Chance(1, 2) {
				p = append(p, p[r.Intn(len(p))]) // duplicate parent
			}
			ps = append(ps, p)
		}
		return dagCase{Gen: "octopus-dup", Parents: ps, Salt: salt}
	case 3: // long line with side branches merged back much later (height skew)
		ps := [][]int{{}}
		tip := 0
		var side []int
		for len(ps) < n {
			switch {
			case r.Chance(1, 4):
				ps = append(ps, []int{r.Intn(len(ps))})
				side = append(side, len(ps)-1)
			case len(side) > 0 && r.Chance(1, 3):
				s := side[r.Intn(len(side))]
				ps = append(ps, []int{tip, s})
				tip = len(ps) - 1
			default:
				ps = append(ps, []int{tip})
				tip = len(ps) - 1
			}
		}
		return dagCase{Gen: "skew", Parents: ps, Salt: salt}
	case 4: // forest: several unrelated roots, few merges
		ps := [][]int{}
		for len(ps) < n {
			if len(ps) == 0 || r.Chance(1, 5) {
				ps = append(ps, []int{})
			} else if r.Chance(1, 4) {
				ps = append(ps, []int{r.Intn(len(ps)), r.Intn(len(ps))})
			} else {
				ps = append(ps, []int{r.Intn(len(ps))})
			}
		}
		return dagCase{Gen: "forest", Parents: ps, Salt: salt}
	}
	// general: 0-4 parents biased to recent commits
	ps := [][]int{{}}
	for len(ps) < n {
		k := hx.Pick(r, []int{0, 1, 1, 1, 1, 2, 2, 2, 3, 4})
		var p []int
		for x := 0; x < k; x++ {
			if r.Chance(2, 3) {
				lo := len(ps) - 6
				if lo < 0 {
					lo = 0
				}
				p = append(p, r.Range(lo, len(ps)-1))
			} else {
				p = append(p, r.Intn(len(ps)))
			}
		}
		ps = append(ps, p)
	}
	return dagCase{Gen: "general", Parents: ps, Salt: salt}
}

// genDeep: a history deeper than 256 (or 512) commits: a long first-parent chain with short side
// branches forked just below a multiple of 256, merges across the boundary, and the ordered pairs
// whose two closure cursors straddle it (closure keys carry the height as a little-endian prefix).
func genDeep(r *hx.Rng, boundaries []int, withPairs bool) dagCase {
	top := boundaries[len(boundaries)-1] + r.Range(6, 14)
	ps := [][]int{{}}
	height := []int{1}
	mainAt := map[int]int{1: 0} // height -> index on the main line
	tip := 0
	type fork struct{ at, n int }
	var forks []fork
	for _, b := range boundaries {
		for k := 0; k < r.Range(2, 4); k++ {
			forks = append(forks, fork{b - r.Range(1, 7), r.Range(1, 8)})
		}
	}
	var sideTips, interesting []int
	for height[tip] < top {
		ps = append(ps, []int{tip})
		height = append(height, height[tip]+1)
		tip = len(ps) - 1
		mainAt[height[tip]] = tip
		for _, f := range forks {
			if f.at == height[tip] {
				cur := tip
				for x := 0; x < f.n; x++ {
					ps = append(ps, []int{cur})
					height = append(height, height[cur]+1)
					cur = len(ps) - 1
					interesting = append(interesting, cur)
				}
				sideTips = append(sideTips, cur)
			}
		}
		// merge a finished side branch back once the main line is past the boundary
		for _, b := range boundaries {
			if height[tip] == b+3 && len(sideTips) > 0 && r.Chance(2, 3) {
				st := sideTips[r.Intn(len(sideTips))]
				ps = append(ps, []int{tip, st})
				h := height[tip]
				if height[st] > h {
					h = height[st]
				}
				height = append(height, h+1)
				tip = len(ps) - 1
				mainAt[height[tip]] = tip
			}
		}
	}
	c := dagCase{Gen: "deep", Parents: ps, Salt: r.Intn(1 << 30)}
	if !withPairs {
		return c
	}
	for _, b := range boundaries {
		for h := b - 6; h <= b+6; h++ {
			if m, ok := mainAt[h]; ok {
				interesting = append(interesting, m)
			}
		}
	}
	interesting = append(interesting, tip, 0, 1)
	seen := map[[2]int]bool{}
	add := func(i, j int) {
		if !seen[[2]int{i, j}] {
			seen[[2]int{i, j}] = true
			c.Pairs = append(c.Pairs, [2]int{i, j})
		}
	}
	for _, s := range sideTips {
		for _, x := range interesting {
			add(s, x)
			add(x, s)
		}
	}
	for k := 0; k < 60; k++ {
		i, j := hx.Pick(r, interesting), hx.Pick(r, interesting)
		add(i, j)
		add(j, i)
	}
	for k := 0; k < 20; k++ {
		add(r.Intn(len(ps)), r.Intn(len(ps)))
	}
	// specs that walk across the boundary
	c.Specs = append(c.Specs, fmt.Sprintf("%d~%d", tip, boundaries[0]+2), fmt.Sprintf("%d~%d", tip, height[tip]-1), fmt.Sprintf("%d~%d", tip, height[tip]))
	for _, s := range sideTips {
		c.Specs = append(c.Specs, fmt.Sprintf("%d~%d^", s, r.Range(1, 9)))
	}
	return c
}

func genSpecs(r *hx.Rng, c *dagCase, k int) {
	n := len(c.Parents)
	for i := 0; i < k; i++ {
		var sb strings.Builder
		fmt.Fprintf(&sb, "%d", r.Intn(n))
		if r.Chance(1, 6) {
			sb.Reset()
			sb.WriteString("HEAD")
		}
		m := r.Range(0, 6)
		for j := 0; j < m; j++ {
			switch r.Intn(6) {
			case 0:
				sb.WriteString("^")
			case 1:
				sb.WriteString("~")
			case 2:
				fmt.Fprintf(&sb, "^%d", hx.Pick(r, []int{1, 2, 2, 2, 3}))
			case 3:
				fmt.Fprintf(&sb, "~%d", r.Range(0, 5))
			case 4:
				fmt.Fprintf(&sb, "^%d", r.Range(1, 2))
			default:
				fmt.Fprintf(&sb, "~%d", r.Range(1, 2))
			}
		}
		c.Specs = append(c.Specs, sb.String())
	}
}

// ------------------------------------------------------------------ building the DAG with datas

type world struct {
	ddb   *doltdb.DoltDB
	db    datas.Database
	vr    types.ValueReadWriter
	ns    tree.NodeStore
	addrs []hash.Hash
	cms   []*datas.Commit
	idx   map[hash.Hash]int
}

func branchName(i int) string { return fmt.Sprintf("c%d", i) }

func newWorld() (*world, error) {
	st := &chunks.MemoryStorage{}
	ddb, err := doltdb.DoltDBFromCS(st.NewViewWithDefaultFormat(), "verifdb")
	if err != nil {
		return nil, err
	}
	db := doltdb.ExposeDatabaseFromDoltDB(ddb)
	return &world{ddb: ddb, db: db, vr: ddb.ValueReadWriter(), ns: ddb.NodeStore(), idx: map[hash.Hash]int{}}, nil
}

func (w *world) addCommit(i int, parents []int, salt int) error {
	ds, err := w.db.GetDataset(ctx, "refs/heads/"+branchName(i))
	if err != nil {
		return err
	}
	var ps []hash.Hash
	for _, p := range parents {
		ps = append(ps, w.addrs[p])
	}
	epoch := datas.CommitDateAt(time.UnixMilli(0))
	meta := &datas.CommitMeta{Author: datas.CommitIdent{Name: "v", Email: "v@v", Date: epoch}, Committer: datas.CommitIdent{Name: "v", Email: "v@v", Date: epoch},
		Description: fmt.Sprintf("commit %d salt %d", i, salt)}
	ds, err = w.db.Commit(ctx, ds, types.String(fmt.Sprintf("v%d", i)), datas.CommitOptions{Parents: ps, Meta: meta})
	if err != nil {
		return err
	}
	addr, ok := ds.MaybeHeadAddr()
	if !ok {
		return errors.New("no head after commit")
	}
	cm, err := datas.LoadCommitAddr(ctx, w.vr, addr)
	if err != nil {
		return err
	}
	if _, dup := w.idx[addr]; dup {
		return fmt.Errorf("harness: duplicate commit address %s", addr)
	}
	w.idx[addr] = len(w.addrs)
	w.addrs = append(w.addrs, addr)
	w.cms = append(w.cms, cm)
	return nil
}

func hx40(h hash.Hash) string { return fmt.Sprintf("%x", h[:]) }

func hxList(hs []hash.Hash) string {
	if len(hs) == 0 {
		return "-"
	}
	p := make([]string, len(hs))
	for i, h := range hs {
		p[i] = hx40(h)
	}
	return strings.Join(p, ",")
}

type key struct {
	h uint64
	a hash.Hash
}

// closureOf iterates the stored closure of commit cm in reverse (descending) order.
func (w *world) closureOf(cm *datas.Commit) ([]key, error) {
	cc, err := datas.NewParentsClosure(ctx, cm, cm.NomsValue().(types.SerialMessage), w.vr, w.ns)
	if err != nil {
		return nil, err
	}
	if cc.IsEmpty() {
		return nil, nil
	}
	it, err := cc.IterAllReverse(ctx)
	if err != nil {
		return nil, err
	}
	var out []key
	for {
		k, _, err := it.Next(ctx)
		if err == io.EOF {
			return out, nil
		}
		if err != nil {
			return nil, err
		}
		out = append(out, key{k.Height(), k.Addr()})
	}
}

func showKeys(ks []key) string {
	if len(ks) == 0 {
		return "-"
	}
	p := make([]string, len(ks))
	for i, k := range ks {
		p[i] = fmt.Sprintf("%d:%s", k.h, hx40(k.a))
	}
	return strings.Join(p, ",")
}

// ------------------------------------------------------------------ brute-force oracle (from parent lists read back)

type brute struct {
	parents [][]int        // as read back from the store
	height  []uint64       // longest path to a root, in commits
	anc     []map[int]bool // proper ancestors
}

func (w *world) bruteForce() (*brute, error) {
	n := len(w.addrs)
	b := &brute{parents: make([][]int, n), height: make([]uint64, n), anc: make([]map[int]bool, n)}
	for i := 0; i < n; i++ {
		ps, err := datas.GetCommitParents(ctx, w.vr, w.cms[i].NomsValue())
		if err != nil {
			return nil, err
		}
		for _, p := range ps {
			j, ok := w.idx[p.Addr()]
			if !ok {
				return nil, fmt.Errorf("parent %s of commit %d unknown", p.Addr(), i)
			}
			b.parents[i] = append(b.parents[i], j)
		}
	}
	// BFS per commit (deliberately not the incremental union the implementation uses)
	for i := 0; i < n; i++ {
		seen := map[int]bool{}
		queue := append([]int{}, b.parents[i]...)
		for len(queue) > 0 {
			x := queue[0]
			queue = queue[1:]
			if seen[x] {
				continue
			}
			seen[x] = true
			queue = append(queue, b.parents[x]...)
		}
		b.anc[i] = seen
	}
	var ht func(i int) uint64
	memo := map[int]uint64{}
	ht = func(i int) uint64 {
		if v, ok := memo[i]; ok {
			return v
		}
		m := uint64(0)
		for _, p := range b.parents[i] {
			if h := ht(p); h > m {
				m = h
			}
		}
		memo[i] = m + 1
		return m + 1
	}
	for i := 0; i < n; i++ {
		b.height[i] = ht(i)
	}
	return b, nil
}

func (b *brute) ancStar(i int) map[int]bool {
	m := map[int]bool{i: true}
	for k := range b.anc[i] {
		m[k] = true
	}
	return m
}

func lessKey(w *world, b *brute, x, y int) bool { // (height, addr) order
	if b.height[x] != b.height[y] {
		return b.height[x] < b.height[y]
	}
	return w.addrs[x].Less(w.addrs[y])
}

// ------------------------------------------------------------------ C18

func runGraph(e *hx.Env, m *hx.Model, c dagCase) {
	defer func() {
		if p := recover(); p != nil {
			e.Rep.Violate("panic", fmt.Sprintf("building a commit DAG panicked: %v", p), c)
		}
	}()
	w, err := newWorld()
	if err != nil {
		panic(err)
	}
	if r := m.Ask("reset"); r != "ok" {
		e.Rep.Disagree(c, "-", r, "reset")
		return
	}
	multi, dup := 0, 0
	for i, ps := range c.Parents {
		if err := w.addCommit(i, ps, c.Salt); err != nil {
			e.Rep.Violate("commit-error", fmt.Sprintf("creating commit %d with parents %v failed: %v", i, ps, err), c)
			return
		}
		cl, err := w.closureOf(w.cms[i])
		if err != nil {
			e.Rep.Violate("closure-read-error", fmt.Sprintf("reading closure of commit %d: %v", i, err), c)
			return
		}
		var pa []hash.Hash
		for _, p := range ps {
			pa = append(pa, w.addrs[p])
		}
		impl := fmt.Sprintf("ok %d %s", w.cms[i].Height(), showKeys(cl))
		mod := m.Ask(fmt.Sprintf("commit %s %s", hx40(w.addrs[i]), hxList(pa)))
		if impl != mod {
			e.Rep.Disagree(c, impl, mod, fmt.Sprintf("commit %d", i))
		}
		if len(ps) > 1 {
			multi++
		}
		seen := map[int]bool{}
		for _, p := range ps {
			if seen[p] {
				dup++
			}
			seen[p] = true
		}
	}
	b, err := w.bruteForce()
	if err != nil {
		e.Rep.Violate("parents-read-error", err.Error(), c)
		return
	}
	n := len(c.Parents)
	for i := 0; i < n; i++ {
		// parent list describes the graph exactly (order and duplicates preserved)
		if fmt.Sprint(b.parents[i]) != fmt.Sprint(append([]int{}, c.Parents[i]...)) && !(len(b.parents[i]) == 0 && len(c.Parents[i]) == 0) {
			e.Rep.Violate("parents", fmt.Sprintf("commit %d stored parents %v, created with %v", i, b.parents[i], c.Parents[i]), c)
		}
		if w.cms[i].Height() != b.height[i] {
			e.Rep.Violate("height", fmt.Sprintf("commit %d has height %d, longest path says %d", i, w.cms[i].Height(), b.height[i]), c)
		}
		cl, err := w.closureOf(w.cms[i])
		if err != nil {
			e.Rep.Violate("closure-read-error", err.Error(), c)
			continue
		}
		var want []int
		for a := range b.anc[i] {
			want = append(want, a)
		}
		sort.Slice(want, func(x, y int) bool { return lessKey(w, b, want[y], want[x]) }) // descending
		wk := make([]key, len(want))
		for j, a := range want {
			wk[j] = key{b.height[a], w.addrs[a]}
		}
		if showKeys(cl) != showKeys(wk) {
			e.Rep.Violate("closure", fmt.Sprintf("closure of commit %d (parents %v) lists %d keys, brute-force proper ancestors are %d: got %s want %s", i, c.Parents[i], len(cl), len(wk), showKeys(cl), showKeys(wk)), c)
		}
		// address stability: re-read, re-hash
		cm, err := datas.LoadCommitAddr(ctx, w.vr, w.addrs[i])
		if err != nil {
			e.Rep.Violate("reload", fmt.Sprintf("commit %d cannot be re-read by its address: %v", i, err), c)
			continue
		}
		h, err := cm.NomsValue().Hash(w.db.Format())
		if err != nil || h != w.addrs[i] || cm.Addr() != w.addrs[i] || cm.Height() != w.cms[i].Height() {
			e.Rep.Violate("addr-stable", fmt.Sprintf("commit %d re-read under address %s hashes to %s (height %d vs %d)", i, w.addrs[i], h, cm.Height(), w.cms[i].Height()), c)
		}
		if !cm.NomsValue().Equals(w.cms[i].NomsValue()) {
			e.Rep.Violate("addr-stable", fmt.Sprintf("commit %d value changed after later commits were written", i), c)
		}
		// the branch that was created for it still points at it
		ah, err := w.ddb.GetHashForRefStr(ctx, "refs/heads/"+branchName(i))
		if err != nil || *ah != w.addrs[i] {
			e.Rep.Violate("addr-stable", fmt.Sprintf("branch of commit %d no longer resolves to it", i), c)
		}
	}
	e.Rep.Hit("gen:" + c.Gen)
	if dup > 0 {
		e.Rep.Hit("dag-with-duplicate-parents")
	}
	if multi > 0 {
		e.Rep.Hit("dag-with-merges")
	}
	e.Rep.Count(fmt.Sprint(c.Parents), multi > 0)
	e.Rep.TracesValidated++
	e.Rep.Sample(map[string]any{"gen": c.Gen, "commits": n, "merges": multi, "dup_parents": dup})
}

// ------------------------------------------------------------------ C19

func showLca(h hash.Hash, ok bool, err error) string {
	if err != nil {
		return "err " + err.Error()
	}
	if !ok {
		return "none"
	}
	return "some " + hx40(h)
}

func runLca(e *hx.Env, m *hx.Model, c dagCase) {
	defer func() {
		if p := recover(); p != nil {
			e.Rep.Violate("panic", fmt.Sprintf("merge-base run panicked: %v", p), c)
		}
	}()
	w, err := newWorld()
	if err != nil {
		panic(err)
	}
	m.Ask("reset")
	early := map[[2]int]string{}
	for i, ps := range c.Parents {
		if err := w.addCommit(i, ps, c.Salt); err != nil {
			e.Rep.Violate("commit-error", fmt.Sprintf("creating commit %d failed: %v", i, err), c)
			return
		}
		var pa []hash.Hash
		for _, p := range ps {
			pa = append(pa, w.addrs[p])
		}
		if r := m.Ask(fmt.Sprintf("commit %s %s", hx40(w.addrs[i]), hxList(pa))); !strings.HasPrefix(r, "ok ") {
			e.Rep.Disagree(c, "ok", r, "commit")
			return
		}
		// stability (C19 lca_stable / ff_stable): merge bases computed while the graph is still growing
		// are compared with the same calls on the finished graph
		if i >= 1 {
			for _, pr := range [][2]int{{i, i - 1}, {i - 1, i / 2}, {i / 2, i}} {
				if _, seen := early[pr]; seen || pr[0] == pr[1] {
					continue
				}
				h, ok, err := datas.FindCommonAncestor(ctx, w.cms[pr[0]], w.cms[pr[1]], w.vr, w.vr, w.ns, w.ns)
				early[pr] = showLca(h, ok, err)
			}
		}
	}
	for pr, r0 := range early {
		h, ok, err := datas.FindCommonAncestor(ctx, w.cms[pr[0]], w.cms[pr[1]], w.vr, w.vr, w.ns, w.ns)
		e.Rep.Evaluations++
		if r1 := showLca(h, ok, err); r1 != r0 {
			e.Rep.Violate("lca-unstable", fmt.Sprintf("merge base of (%d,%d) was %s when commit %d was the newest, %s after %d commits", pr[0], pr[1], r0, max(pr[0], pr[1]), r1, len(c.Parents)), c)
		}
	}
	e.Rep.Hit("lca-stability-pairs")
	b, err := w.bruteForce()
	if err != nil {
		e.Rep.Violate("parents-read-error", err.Error(), c)
		return
	}
	n := len(c.Parents)
	dcs := make([]*doltdb.Commit, n)
	for i := 0; i < n; i++ {
		dcs[i], err = doltdb.NewCommit(ctx, w.ddb.ValueReadWriter(), w.ns, w.cms[i])
		if err != nil {
			panic(err)
		}
	}
	res := map[[2]int]string{}
	ties, nones := 0, 0
	pairs := c.Pairs
	if len(pairs) == 0 {
		for i := 0; i < n; i++ {
			for j := 0; j < n; j++ {
				pairs = append(pairs, [2]int{i, j})
			}
		}
	}
	for _, pr := range pairs {
		i, j := pr[0], pr[1]
		if i < 0 || j < 0 || i >= n || j >= n {
			continue
		}
		{
			h, ok, err := datas.FindCommonAncestor(ctx, w.cms[i], w.cms[j], w.vr, w.vr, w.ns, w.ns)
			got := showLca(h, ok, err)
			res[[2]int{i, j}] = got
			h2, ok2, err2 := datas.VerifFindCommonAncestorUsingParentsList(ctx, w.cms[i], w.cms[j], w.vr, w.vr, w.ns, w.ns)
			gotP := showLca(h2, ok2, err2)
			a, bb := hx40(w.addrs[i]), hx40(w.addrs[j])
			if mod := m.Ask("lca " + a + " " + bb); mod != got {
				e.Rep.Disagree(c, got, mod, fmt.Sprintf("FindCommonAncestor(%d,%d)", i, j))
			}
			if mod := m.Ask("lcap " + a + " " + bb); mod != gotP {
				e.Rep.Disagree(c, gotP, mod, fmt.Sprintf("findCommonAncestorUsingParentsList(%d,%d)", i, j))
			}
			e.Rep.Evaluations += 2
			// ---- oracle: brute-force common ancestors
			ai, aj := b.ancStar(i), b.ancStar(j)
			var common []int
			for x := range ai {
				if aj[x] {
					common = append(common, x)
				}
			}
			var maxh uint64
			for _, x := range common {
				if b.height[x] > maxh {
					maxh = b.height[x]
				}
			}
			top := 0
			for _, x := range common {
				if b.height[x] == maxh {
					top++
				}
			}
			for name, r := range map[string]string{"closure": got, "parents-list": gotP} {
				switch {
				case strings.HasPrefix(r, "err"):
					e.Rep.Violate("lca-error:"+name, fmt.Sprintf("%s merge base of (%d,%d) failed: %s", name, i, j, r), c)
				case len(common) == 0 && r != "none":
					e.Rep.Violate("lca-invented:"+name, fmt.Sprintf("%s merge base of (%d,%d) = %s but the commits share no ancestor", name, i, j, r), c)
				case len(common) > 0 && r == "none":
					e.Rep.Violate("lca-missed:"+name, fmt.Sprintf("%s merge base of (%d,%d) not found although %d common ancestors exist", name, i, j, len(common)), c)
				case len(common) > 0:
					var hh hash.Hash
					if raw, err := hex.DecodeString(strings.TrimPrefix(r, "some ")); err == nil {
						copy(hh[:], raw)
					}
					x, known := w.idx[hh]
					if !known || !ai[x] || !aj[x] {
						e.Rep.Violate("lca-not-common:"+name, fmt.Sprintf("%s merge base of (%d,%d) = %s is not a common ancestor", name, i, j, r), c)
					} else if b.height[x] != maxh {
						e.Rep.Violate("lca-not-highest:"+name, fmt.Sprintf("%s merge base of (%d,%d) = commit %d of height %d, but a common ancestor of height %d exists", name, i, j, x, b.height[x], maxh), c)
					}
				}
			}
			if top > 1 {
				ties++
				if got != gotP {
					e.Rep.Hit("tie:algorithms-pick-different-candidates")
				} else {
					e.Rep.Hit("tie:algorithms-agree")
				}
				// determinism: the same call again gives the same answer
				h3, ok3, err3 := datas.FindCommonAncestor(ctx, w.cms[i], w.cms[j], w.vr, w.vr, w.ns, w.ns)
				h4, ok4, err4 := datas.VerifFindCommonAncestorUsingParentsList(ctx, w.cms[i], w.cms[j], w.vr, w.vr, w.ns, w.ns)
				if showLca(h3, ok3, err3) != got || showLca(h4, ok4, err4) != gotP {
					e.Rep.Violate("lca-nondeterministic", fmt.Sprintf("merge base of (%d,%d) changes between identical calls", i, j), c)
				}
			} else if len(common) > 0 && got != gotP {
				e.Rep.Violate("lca-algorithms-differ-without-tie", fmt.Sprintf("merge base of (%d,%d): closure walk %s, parents walk %s, unique highest candidate", i, j, got, gotP), c)
			}
			if len(common) == 0 {
				nones++
			}
			// doltdb layer
			oc, err := doltdb.GetCommitAncestor(ctx, dcs[i], dcs[j])
			var gd string
			switch {
			case err == doltdb.ErrNoCommonAncestor:
				gd = "none"
			case err != nil:
				gd = "err " + err.Error()
			default:
				gd = "some " + hx40(oc.Addr)
			}
			if gd != got {
				e.Rep.Violate("doltdb-ancestor", fmt.Sprintf("doltdb.GetCommitAncestor(%d,%d) = %s, datas.FindCommonAncestor = %s", i, j, gd, got), c)
			}
			// fast-forward
			okff, errff := dcs[i].CanFastForwardTo(ctx, dcs[j])
			var gf string
			switch {
			case errff == nil && okff:
				gf = "ff"
			case errff == doltdb.ErrUpToDate && okff:
				gf = "uptodate"
			case errff == doltdb.ErrIsAhead && !okff:
				gf = "ahead"
			case errff == nil && !okff:
				gf = "no"
			case errff == doltdb.ErrNoCommonAncestor:
				gf = "nocommon"
			default:
				gf = fmt.Sprintf("err %v %v", okff, errff)
			}
			if mod := m.Ask("ff " + a + " " + bb); mod != gf {
				e.Rep.Disagree(c, gf, mod, fmt.Sprintf("CanFastForwardTo(%d,%d)", i, j))
			}
			if okff != aj[i] {
				e.Rep.Violate("ff", fmt.Sprintf("CanFastForwardTo(%d -> %d) = %v but head-is-ancestor-of-target = %v", i, j, okff, aj[i]), c)
			}
			// through the branch ref
			if (i+j)%7 == 0 {
				ok5, err5 := w.ddb.CanFastForward(ctx, ref.NewBranchRef(branchName(i)), dcs[j])
				if ok5 != aj[i] || (err5 != nil && err5 != doltdb.ErrUpToDate && err5 != doltdb.ErrIsAhead && err5 != doltdb.ErrNoCommonAncestor) {
					e.Rep.Violate("ff-ref", fmt.Sprintf("DoltDB.CanFastForward(branch %d -> %d) = %v,%v but head-is-ancestor-of-target = %v", i, j, ok5, err5, aj[i]), c)
				}
			}
			e.Rep.Hit("ff:" + strings.SplitN(gf, " ", 2)[0])
		}
	}
	// symmetry
	for pr, r1 := range res {
		if r2, ok := res[[2]int{pr[1], pr[0]}]; ok && pr[0] < pr[1] && r1 != r2 {
			e.Rep.Violate("lca-asymmetric", fmt.Sprintf("merge base (%d,%d) = %s but (%d,%d) = %s", pr[0], pr[1], r1, pr[1], pr[0], r2), c)
		}
	}
	// ancestor specs
	for _, s := range c.Specs {
		runSpec(e, m, w, b, c, s)
	}
	e.Rep.Hit("gen:" + c.Gen)
	if ties > 0 {
		e.Rep.Hit("dag-with-ties")
	}
	if nones > 0 {
		e.Rep.Hit("dag-with-unrelated-pairs")
	}
	e.Rep.Count(fmt.Sprint(c.Parents), ties > 0 || nones > 0)
	e.Rep.TracesValidated++
	e.Rep.Sample(map[string]any{"gen": c.Gen, "commits": n, "pairs": len(pairs), "tie_pairs": ties, "unrelated_pairs": nones, "specs": len(c.Specs)})
}

// runSpec resolves "<index or HEAD><suffix>" through doltdb and compares with (a) the model's walk
// over the instructions the real parser produced and (b) an independent reading of the suffix:
// ~n = n first-parent steps, ^k = k-th parent (1-based), ^ = ^1, ~ = ~1.
func runSpec(e *hx.Env, m *hx.Model, w *world, b *brute, c dagCase, s string) {
	i := 0
	for i < len(s) && s[i] != '^' && s[i] != '~' {
		i++
	}
	base, suf := s[:i], s[i:]
	start := 0
	cwbIdx := len(w.addrs) - 1
	specStr := s
	if base == "HEAD" {
		start = cwbIdx
	} else {
		fmt.Sscan(base, &start)
		specStr = branchName(start) + suf
		if start%3 == 1 {
			specStr = hashStr(w.addrs[start]) + suf // hash form
		}
	}
	cs, err := doltdb.NewCommitSpec(specStr)
	if err != nil {
		e.Rep.Hit("spec:parse-error")
		e.Rep.Sample(map[string]string{"parse-error": specStr, "err": err.Error()})
		return // parse errors are C44's subject
	}
	oc, err := w.ddb.Resolve(ctx, cs, ref.NewBranchRef(branchName(cwbIdx)))
	var got string
	switch {
	case err == doltdb.ErrInvalidAncestorSpec:
		got = "err invalid-ancestor"
	case err != nil:
		got = "err " + err.Error()
	default:
		got = "ok " + hx40(oc.Addr)
	}
	_, _, ins := doltdb.VerifCommitSpecParts(cs)
	mod := m.Ask(fmt.Sprintf("walk %s %s", hx40(w.addrs[start]), hx.NatList(ins)))
	if mod != got {
		e.Rep.Disagree(c, got, mod, "Resolve "+specStr)
	}
	e.Rep.Evaluations++
	// independent walk
	cur, bad := start, false
	for j := 0; j < len(suf) && !bad; {
		op := suf[j]
		j++
		st := j
		for j < len(suf) && suf[j] >= '0' && suf[j] <= '9' {
			j++
		}
		k := 1
		if j > st {
			fmt.Sscan(suf[st:j], &k)
		}
		if op == '~' {
			for x := 0; x < k && !bad; x++ {
				if len(b.parents[cur]) == 0 {
					bad = true
				} else {
					cur = b.parents[cur][0]
				}
			}
		} else {
			if k < 1 || k > len(b.parents[cur]) {
				bad = true
			} else {
				cur = b.parents[cur][k-1]
			}
		}
	}
	want := "err invalid-ancestor"
	if !bad {
		want = "ok " + hx40(w.addrs[cur])
	}
	if got != want {
		e.Rep.Violate("spec-walk", fmt.Sprintf("Resolve(%q) = %s, the parent walk gives %s", specStr, got, want), c)
	}
	e.Rep.Hit("spec:" + strings.SplitN(got, " ", 2)[0])
}

func hashStr(h hash.Hash) string { return h.String() }

// ------------------------------------------------------------------ main

func main() {
	mode := flag.String("mode", "graph", "graph (C18) | lca (C19)")
	e0 := func() *hx.Env {
		// property id depends on mode; peek at os.Args before hx.Init parses flags
		for i, a := range flagArgs() {
			if (a == "-mode" || a == "--mode") && i+1 < len(flagArgs()) && flagArgs()[i+1] == "lca" {
				return hx.Init("commitgraph", "C19")
			}
			if a == "-mode=lca" || a == "--mode=lca" {
				return hx.Init("commitgraph", "C19")
			}
		}
		return hx.Init("commitgraph", "C18")
	}
	e := e0()
	defer e.Finish()
	m := e.MustModel()
	defer m.Close()
	run := runGraph
	maxN := e.N(40, 60)
	cases := e.N(260, 4000)
	if *mode == "lca" {
		run = runLca
		maxN = e.N(18, 34)
		cases = e.N(110, 1500)
		e.Rep.Rule = "random commit DAG histories (generators: criss-cross ladders, equal-height layers, octopus with duplicate parents, skewed heights, forests, general 0-4 parents; plus deep histories of 260-530 commits whose heights cross 256/512, evaluated on the pairs straddling the boundary) created with datas on an in-memory store; every ordered pair through FindCommonAncestor and the parents-list walk, doltdb.GetCommitAncestor, CanFastForwardTo, plus ancestor specs of <= 6 steps; evaluations = pair x algorithm + specs; a DAG is non-trivial when it has a tie (several highest common ancestors) or unrelated pairs; distinct by parent lists"
	} else {
		e.Rep.Rule = "random commit DAG histories (<= 60 commits, 0-4 parents, duplicates, criss-cross/layered/octopus/skew/forest generators; plus one deep history of 260-530 commits per run) created with datas on an in-memory store; height, parent list, closure iteration and re-read address of every commit compared with a brute-force BFS and with the model; one evaluation = one DAG; non-trivial = contains a merge; distinct by parent lists"
	}
	if e.Replay != "" {
		rf, err := hx.LoadReplay(e.Replay)
		if err != nil {
			panic(err)
		}
		var c dagCase
		if err := json.Unmarshal(rf.Case, &c); err != nil {
			panic(err)
		}
		run(e, m, c)
		return
	}
	for _, raw := range e.CorpusCases() {
		var c dagCase
		if json.Unmarshal(raw, &c) == nil && len(c.Parents) > 0 {
			run(e, m, c)
		}
	}
	// the Lean witness of C19.lca_algorithms_disagree, replayed on the real code every run
	if *mode == "lca" {
		run(e, m, dagCase{Gen: "witness-crisscross", Parents: [][]int{{}, {0}, {0}, {1, 2}, {2, 1}}, Salt: 1})
	}
	// deep histories: heights cross 256 (and 512 in the thorough tier)
	run(e, m, genDeep(e.Rng, []int{256}, *mode == "lca"))
	if e.Thorough() || e.Search {
		run(e, m, genDeep(e.Rng, []int{256, 512}, *mode == "lca"))
		run(e, m, genDeep(e.Rng, []int{256}, *mode == "lca"))
	}
	deadline := time.Now().Add(time.Duration(e.N(45, 420)) * time.Second)
	for i := 0; i < cases && time.Now().Before(deadline); i++ {
		c := genDag(e.Rng, maxN)
		if *mode == "lca" {
			genSpecs(e.Rng, &c, 12)
		}
		run(e, m, c)
	}
}

func flagArgs() []string { return os.Args[1:] }
