// names: correspondence + property oracle for C44 (ref names, commit specs).
package main

import (
	"encoding/json"
	"fmt"
	"regexp"
	"strings"

	"github.com/dolthub/dolt/go/libraries/doltcore/doltdb"
	"github.com/dolthub/dolt/go/libraries/doltcore/ref"
	"github.com/dolthub/dolt/go/store/datas"

	"verif/harness/internal/hx"
)

type kase struct {
	Op string `json:"op"`
	S  string `json:"s"` // hex
}

var forbidden = []string{"..", "@{", "//", "/", ".", ".lock", "@", " ", "\t", ":", "?", "[", "\\", "^", "~", "*", "\x7f", "\x00", "\x1f", "HEAD", "-", "{", "}", "\xc3\xa9", "\xff", "\x80"}
var okAtoms = []string{"a", "main", "feature", "v1.0", "b-1", "x_y", "0", "9", "release", "A", "Z", "lock", "head", "Head"}

func genName(r *hx.Rng) string {
	switch r.Intn(12) {
	case 0: // hash-like
		const al = "0123456789abcdefghijklmnopqrstuv"
		n := 32
		if r.Chance(1, 3) {
			n = hx.Pick(r, []int{31, 33, 32, 32})
		}
		b := make([]byte, n)
		for i := range b {
			b[i] = al[r.Intn(len(al))]
		}
		if r.Chance(1, 4) {
			b[r.Intn(len(b))] = hx.Pick(r, []byte{'w', 'z', 'A', '/', '.'})
		}
		return string(b)
	case 1:
		return hx.Pick(r, forbidden)
	case 2:
		return ""
	}
	var sb strings.Builder
	parts := r.Range(1, 5)
	for i := 0; i < parts; i++ {
		if r.Chance(1, 3) {
			sb.WriteString(hx.Pick(r, forbidden))
		} else {
			sb.WriteString(hx.Pick(r, okAtoms))
		}
		if r.Chance(1, 3) {
			sb.WriteString("/")
		}
	}
	return sb.String()
}

func genSuffix(r *hx.Rng) string {
	var sb strings.Builder
	n := r.Intn(5)
	for i := 0; i < n; i++ {
		switch r.Intn(8) {
		case 0, 1:
			sb.WriteString("^")
		case 2:
			sb.WriteString("~")
		case 3:
			fmt.Fprintf(&sb, "^%d", r.Intn(4))
		case 4:
			fmt.Fprintf(&sb, "~%d", r.Intn(12))
		case 5:
			sb.WriteString(hx.Pick(r, []string{"^0", "^3", "~0", "~01", "^02", "^^", "~~", "^ ", "x", "~99999999999999999999"}))
		default:
			fmt.Fprintf(&sb, "%s%d", hx.Pick(r, []string{"^", "~"}), r.Range(1, 2))
		}
	}
	return sb.String()
}

func genSpec(r *hx.Rng) string {
	base := genName(r)
	if r.Chance(1, 4) {
		base = hx.Pick(r, []string{"HEAD", "head", "Head", "hEAD", "main", "refs/heads/main", "origin/main"})
	}
	s := base + genSuffix(r)
	if r.Chance(1, 5) {
		s = hx.Pick(r, []string{" ", "\t", "\n", "  "}) + s
	}
	if r.Chance(1, 5) {
		s = s + hx.Pick(r, []string{" ", "\t", "\n"})
	}
	return s
}

func errClass(err error) string {
	switch {
	case err == nil:
		return "ok"
	case err == doltdb.ErrInvalidAncestorSpec:
		return "err invalid-ancestor"
	case err == doltdb.ErrInvalidBranchOrHash:
		return "err invalid-branch-or-hash"
	case strings.HasPrefix(err.Error(), "Invalid HEAD spec"):
		return "err invalid-head"
	case strings.Contains(err.Error(), "strconv.Atoi"):
		return "err atoi"
	}
	return "err other:" + err.Error()
}

func impl(k kase) string {
	s := string(hx.Unhex(k.S))
	return hx.Recover(func() string {
		switch k.Op {
		case "vds":
			if datas.ValidateDatasetId(s) == nil {
				return "ok"
			}
			return "err"
		case "ivb":
			return fmt.Sprint(ref.IsValidBranchName(s))
		case "split":
			name, as, err := doltdb.SplitAncestorSpec(s)
			if err != nil {
				return errClass(err)
			}
			return fmt.Sprintf("ok %s %s", hx.Hex([]byte(name)), hx.NatList(as.Instructions))
		case "ncs":
			cs, err := doltdb.NewCommitSpec(s)
			if err != nil {
				return errClass(err)
			}
			base, kind, ins := doltdb.VerifCommitSpecParts(cs)
			return fmt.Sprintf("ok %s %s %s", kind, hx.Hex([]byte(base)), hx.NatList(ins))
		}
		return "bad-op"
	})
}

// ---- the property's own predicate, written from the documented rule list (independent of both
// the Go implementation and the Lean transliteration): used as oracle on the implementation.

var hashRe = regexp.MustCompile(`^[0-9a-v]{32}$`)

func documentedDatasetId(s string) bool {
	if s == "" || s == "@" || strings.HasSuffix(s, "/") || strings.HasSuffix(s, ".") {
		return false
	}
	for i := 0; i < len(s); i++ {
		c := s[i]
		if c >= 0x80 || c < 0x20 || c == 0x7f || strings.IndexByte(" :?[\\^~*", c) >= 0 {
			return false
		}
	}
	if strings.Contains(s, "..") || strings.Contains(s, "@{") {
		return false
	}
	for _, comp := range strings.Split(s, "/") {
		if strings.HasPrefix(comp, ".") || strings.HasSuffix(comp, ".lock") {
			return false
		}
	}
	return true
}

func documentedBranchName(s string) bool {
	if s == "" || s == "HEAD" || s == "-" || hashRe.MatchString(s) {
		return false
	}
	if strings.Contains(s, "//") || strings.HasPrefix(s, "/") || strings.HasSuffix(s, "/") {
		return false
	}
	return documentedDatasetId(s)
}

func oracle(k kase, got string) (ok bool, what string) {
	s := string(hx.Unhex(k.S))
	switch k.Op {
	case "vds":
		want := "err"
		if documentedDatasetId(s) {
			want = "ok"
		}
		return got == want, fmt.Sprintf("ValidateDatasetId(%q) = %s, documented rules say %s", s, got, want)
	case "ivb":
		want := fmt.Sprint(documentedBranchName(s))
		return got == want, fmt.Sprintf("IsValidBranchName(%q) = %s, documented rules say %s", s, got, want)
	case "ncs":
		// accepted spec == separately parsed base followed by its ancestor walk
		if !strings.HasPrefix(got, "ok ") {
			return !strings.HasPrefix(got, "panic"), "NewCommitSpec panicked: " + got
		}
		t := strings.TrimSpace(s)
		i := strings.IndexAny(t, "^~")
		base, suf := t, ""
		if i >= 0 {
			base, suf = t[:i], t[i:]
		}
		var kind string
		switch {
		case strings.EqualFold(base, "head"):
			kind, base = "head", "head"
		case hashRe.MatchString(base):
			kind = "hash"
		case documentedBranchName(base):
			kind = "ref"
		default:
			return false, fmt.Sprintf("NewCommitSpec(%q) accepted a base %q that is neither HEAD, a hash nor a valid ref name", s, base)
		}
		var ins []int
		for j := 0; j < len(suf); {
			c := suf[j]
			j++
			st := j
			for j < len(suf) && suf[j] >= '0' && suf[j] <= '9' {
				j++
			}
			n := 1
			if j > st {
				fmt.Sscan(suf[st:j], &n)
			}
			if c == '^' {
				if n != 1 && n != 2 {
					return false, fmt.Sprintf("NewCommitSpec(%q) accepted ^%d (only ^, ^1, ^2 are documented)", s, n)
				}
				ins = append(ins, n-1)
			} else if c != '~' {
				return false, fmt.Sprintf("NewCommitSpec(%q) accepted an ancestor suffix %q that is neither ^ nor ~", s, suf)
			} else {
				for x := 0; x < n; x++ {
					ins = append(ins, 0)
				}
			}
		}
		want := fmt.Sprintf("ok %s %s %s", kind, hx.Hex([]byte(base)), hx.NatList(ins))
		return got == want, fmt.Sprintf("NewCommitSpec(%q) = %s, base+walk says %s", s, got, want)
	}
	return true, ""
}

func runCase(e *hx.Env, m *hx.Model, k kase) {
	got := impl(k)
	mod := m.Ask(k.Op + " " + k.S)
	s := string(hx.Unhex(k.S))
	nontrivial := strings.ContainsAny(s, "./@{^~ \t") || strings.HasPrefix(got, "err") || len(s) == 32
	e.Rep.Count(k.Op+" "+k.S, nontrivial)
	e.Rep.Hit(k.Op + ":" + strings.SplitN(got, " ", 3)[0])
	if strings.HasPrefix(got, "err ") {
		e.Rep.Hit("class:" + got)
	}
	e.Rep.Sample(map[string]string{"op": k.Op, "s": s, "impl": got, "model": mod})
	ok, what := oracle(k, got)
	if !ok {
		e.Rep.Violate(k.Op, what, k)
		return
	}
	if got != mod {
		e.Rep.Disagree(k, got, mod, "")
	}
}

func main() {
	e := hx.Init("names", "C44")
	defer e.Finish()
	e.Rep.Rule = "strings from a grammar biased to forbidden constructs (.., @{, //, .lock, control/forbidden bytes, non-ASCII, hash-like, HEAD, -) and specs = name + ancestor suffix (^, ^n, ~n, malformed) with optional surrounding white space; nontrivial = contains a rule-relevant character, is 32 long, or is rejected; distinct by (op, bytes)"
	m := e.MustModel()
	defer m.Close()
	if e.Replay != "" {
		rf, err := hx.LoadReplay(e.Replay)
		if err != nil {
			panic(err)
		}
		var k kase
		json.Unmarshal(rf.Case, &k)
		runCase(e, m, k)
		return
	}
	for _, raw := range e.CorpusCases() {
		var k kase
		if json.Unmarshal(raw, &k) == nil {
			runCase(e, m, k)
		}
	}
	n := e.N(20000, 600000)
	// NB hx.NewRng(seed) puts all seeds on one splitmix orbit, offset by `seed` draws, so consecutive
	// seeds replay almost the same stream; Fork() jumps to an unrelated offset.
	rng := e.Rng.Fork()
	for i := 0; i < n; i++ {
		r := rng
		var k kase
		switch r.Intn(4) {
		case 0:
			k = kase{"vds", hx.Hex([]byte(genName(r)))}
		case 1:
			k = kase{"ivb", hx.Hex([]byte(genName(r)))}
		case 2:
			k = kase{"split", hx.Hex([]byte(genSpec(r)))}
		default:
			k = kase{"ncs", hx.Hex([]byte(genSpec(r)))}
		}
		runCase(e, m, k)
	}
}
