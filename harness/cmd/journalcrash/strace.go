package main

// Hook-free second witness for "acknowledged ⇒ flushed and fsynced": a worker process writes a
// history with the real store under `strace`; the syscall log must show, before every
// acknowledgement marker, journal pwrite64s reaching the acknowledged offset followed by an
// fsync of the journal descriptor.

import (
	"bufio"
	"encoding/json"
	"fmt"
	"os"
	"os/exec"
	"path/filepath"
	"regexp"
	"strconv"
	"strings"
	"syscall"

	"github.com/dolthub/dolt/go/store/hash"
	"github.com/dolthub/dolt/go/store/nbs"

	"verif/harness/internal/jrnkit"
)

func workerMain(dir, histJSON string) {
	var h jrnkit.History
	if err := json.Unmarshal([]byte(histJSON), &h); err != nil {
		fmt.Fprintln(os.Stderr, "worker: bad history:", err)
		os.Exit(3)
	}
	jrnkit.OnAck = func(i int, root hash.Hash, off int64) {
		syscall.Write(1, []byte(fmt.Sprintf("VERIF-ACK %d %d\n", i, off)))
	}
	if _, err := jrnkit.Build(dir, h); err != nil {
		fmt.Fprintln(os.Stderr, "worker: build:", err)
		os.Exit(4)
	}
}

var (
	reLine    = regexp.MustCompile(`^(\d+)\s+(\w+)\((.*)$`)
	reResumed = regexp.MustCompile(`^(\d+)\s+<\.\.\. (\w+) resumed>(.*)$`)
)

type sysEv struct {
	name string
	args string
	ret  string
}

func parseStrace(path string) ([]sysEv, error) {
	f, err := os.Open(path)
	if err != nil {
		return nil, err
	}
	defer f.Close()
	pending := map[string]string{}
	var out []sysEv
	sc := bufio.NewScanner(f)
	sc.Buffer(make([]byte, 1<<20), 1<<24)
	for sc.Scan() {
		line := sc.Text()
		if mm := reResumed.FindStringSubmatch(line); mm != nil {
			full := pending[mm[1]+":"+mm[2]] + mm[3]
			delete(pending, mm[1]+":"+mm[2])
			out = append(out, splitRet(mm[2], full))
			continue
		}
		mm := reLine.FindStringSubmatch(line)
		if mm == nil {
			continue
		}
		if strings.HasSuffix(mm[3], "<unfinished ...>") {
			pending[mm[1]+":"+mm[2]] = strings.TrimSuffix(mm[3], "<unfinished ...>")
			continue
		}
		out = append(out, splitRet(mm[2], mm[3]))
	}
	return out, sc.Err()
}

var reRet = regexp.MustCompile(`\)\s+= (.*)$`)

func splitRet(name, rest string) sysEv {
	loc := reRet.FindStringSubmatchIndex(rest)
	if loc == nil {
		return sysEv{name: name, args: rest}
	}
	return sysEv{name: name, args: rest[:loc[0]], ret: strings.TrimSpace(rest[loc[2]:loc[3]])}
}

// straceInfo: what the syscall log says about the first commit of a fresh store.
type straceInfo struct {
	OK bool
	// ManifestFirst: the manifest was renamed into place before the first acknowledgement
	ManifestFirst bool
	// DurableAtManifest: journal bytes written AND fsynced when that rename happened; crash images
	// "manifest already names the in-flight root" are possible exactly for journal prefixes >= it
	DurableAtManifest int64
	Excerpt           []string
}

func straceCheck(h jrnkit.History, idx int) (info straceInfo) {
	if _, err := exec.LookPath("strace"); err != nil {
		e.Rep.Note("strace not available: syscall-level ack/fsync witness skipped")
		return
	}
	defer func() {
		if info.OK && info.ManifestFirst {
			e.Rep.Hit(fmt.Sprintf("strace:journal-durable-at-first-manifest-rename=%v", info.DurableAtManifest > 0))
		}
	}()
	kc := kase{Hist: h, Op: "strace"}
	dir := filepath.Join(fastScratch(), fmt.Sprintf("strace%d", idx))
	os.RemoveAll(dir)
	os.MkdirAll(dir, 0o755)
	defer os.RemoveAll(dir)
	exe, _ := os.Executable()
	hj, _ := json.Marshal(h)
	log := filepath.Join(dir, "strace.log")
	cmd := exec.Command("strace", "-f", "-qq", "-s", "40", "-o", log,
		"-e", "trace=openat,pwrite64,fsync,fdatasync,rename,renameat,renameat2,write,ftruncate",
		exe, "-worker", "-workdir", filepath.Join(dir, "w"), "-hist", string(hj))
	cmd.Stdout = nil
	out, err := cmd.CombinedOutput()
	if err != nil {
		e.Rep.Note("strace worker failed (skipped): " + err.Error() + " " + trunc(string(out)))
		return info
	}
	evs, err := parseStrace(log)
	if err != nil {
		e.Rep.Note("strace log unreadable: " + err.Error())
		return info
	}
	jfd := ""
	lastWrite, lastSync := -1, -1
	var maxEnd, syncedEnd int64
	firstJournalWrite, manifestRename := -1, -1
	acks := 0
	for i, ev := range evs {
		switch ev.name {
		case "openat":
			if strings.Contains(ev.args, "/"+nbs.VerifJrnFileName+"\"") && strings.Contains(ev.args, "O_RDWR") && !strings.HasPrefix(ev.ret, "-1") {
				jfd = strings.Fields(ev.ret)[0]
				if strings.Contains(ev.args, "O_TRUNC") {
					maxEnd = 0
				}
			}
		case "pwrite64":
			a := strings.SplitN(ev.args, ",", 2)
			if a[0] == jfd && jfd != "" {
				parts := strings.Split(ev.args, ",")
				n, _ := strconv.ParseInt(strings.TrimSpace(parts[len(parts)-2]), 10, 64)
				off, _ := strconv.ParseInt(strings.TrimSpace(parts[len(parts)-1]), 10, 64)
				if off+n > maxEnd {
					maxEnd = off + n
				}
				lastWrite = i
				if firstJournalWrite < 0 {
					firstJournalWrite = i
				}
			}
		case "fsync", "fdatasync":
			if strings.TrimSpace(ev.args) == jfd && jfd != "" && strings.HasPrefix(ev.ret, "0") {
				lastSync = i
				syncedEnd = maxEnd
			}
		case "rename", "renameat", "renameat2":
			if strings.Contains(ev.args, "/manifest\"") && manifestRename < 0 {
				manifestRename = i
				if acks == 0 {
					info.ManifestFirst = true
					info.DurableAtManifest = syncedEnd
				}
			}
		case "write":
			if strings.Contains(ev.args, "\"VERIF-ACK ") {
				f := strings.Fields(ev.args[strings.Index(ev.args, "VERIF-ACK"):])
				off, _ := strconv.ParseInt(strings.TrimRight(f[2], "\\n\","), 10, 64)
				acks++
				e.Rep.Count(fmt.Sprintf("strace-ack %d %d %d", idx, acks, off), true)
				if maxEnd != off {
					e.Rep.Violate("journal-ack-before-write", fmt.Sprintf("commit acknowledged at journal offset %d but pwrite64s reach %d", off, maxEnd), kc)
				}
				if lastSync < lastWrite {
					e.Rep.Violate("journal-ack-before-fsync", fmt.Sprintf("commit acknowledged at journal offset %d with no fsync of the journal after its last pwrite64", off), kc)
				}
			}
		}
	}
	if acks != len(h.Commits) {
		e.Rep.Disagree(kc, fmt.Sprintf("%d ack markers in the strace log", acks), fmt.Sprint(len(h.Commits)), "strace worker")
		return
	}
	info.OK = true
	for _, ev := range evs {
		if ev.name == "write" && strings.Contains(ev.args, "VERIF-ACK 0 ") {
			break
		}
		if (ev.name == "pwrite64" || ev.name == "fsync" || strings.HasPrefix(ev.name, "rename") || ev.name == "openat") &&
			(strings.Contains(ev.args, "manifest") || strings.Contains(ev.args, nbs.VerifJrnFileName) || ev.name == "pwrite64" || ev.name == "fsync") {
			info.Excerpt = append(info.Excerpt, ev.name+"("+trunc(ev.args)+") = "+ev.ret)
		}
	}
	e.Rep.TracesValidated++
	e.Rep.Hit("strace:histories")
	if manifestRename >= 0 && (firstJournalWrite < 0 || manifestRename < firstJournalWrite) {
		e.Rep.Hit("strace:manifest-renamed-before-first-journal-write")
	}
	return info
}
