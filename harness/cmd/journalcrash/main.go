// journalcrash: correspondence + property oracle for C03 (crash at any point recovers the last
// acknowledged state without loss).  Real journals are written by the real store; crash images are
// materialised for offsets between acknowledged (synced) offsets with dropped / zero-filled /
// garbage / garbage+valid-records tails; each image is recovered by the real recovery code
// (in-memory scan and a full store reopen) and by the Lean model; the property's predicate is
// evaluated on the implementation's answers.
package main

import (
	"bytes"
	"encoding/binary"
	"encoding/json"
	"errors"
	"flag"
	"fmt"
	"hash/crc32"
	"os"
	"path/filepath"
	"sort"
	"strings"
	"time"

	"github.com/dolthub/dolt/go/store/hash"
	"github.com/dolthub/dolt/go/store/nbs"

	"verif/harness/internal/hx"
	"verif/harness/internal/jrnkit"
)

type imgSpec struct {
	K       int    `json:"k"`
	Tail    string `json:"tail"` // drop zero garbage gvalid gtiny gchunks grootlast
	TailLen int    `json:"tailLen"`
	Seed    uint64 `json:"seed"`
	First   bool   `json:"first,omitempty"` // first-commit window: manifest already names the in-flight root
}

type kase struct {
	Hist jrnkit.History `json:"hist"`
	Img  *imgSpec       `json:"img,omitempty"`
	Rec  string         `json:"rec,omitempty"` // codec stream: hex record
	Op   string         `json:"op,omitempty"`
}

var e *hx.Env
var m *hx.Model

func effB(h jrnkit.History) uint32 {
	if h.B == 0 {
		return 5 * 1024 * 1024
	}
	return h.B
}

// ---------------------------------------------------------------- generators

func genHistory(r *hx.Rng, idBase uint64) jrnkit.History {
	h := jrnkit.History{}
	h.B = hx.Pick(r, []uint32{0, 4096, 4096, 2048, 1024, 1024, 700})
	B := int(effB(h))
	maxData := B - 96
	if maxData > 3000 {
		maxData = 3000
	}
	maxChildren := (B - 120) / 20
	if maxChildren > 12 {
		maxChildren = 12
	}
	if r.Chance(1, 3) {
		h.MaxNovel = r.Range(1, 6)
	}
	nc := r.Range(1, 5)
	id := idBase
	for c := 0; c < nc; c++ {
		cs := jrnkit.CommitSpec{}
		n := r.Range(0, maxChildren)
		if n > 6 && r.Chance(2, 3) {
			n = r.Range(0, 6)
		}
		for i := 0; i < n; i++ {
			id++
			kind := hx.Pick(r, []string{"rand", "rand", "rep", "tiny", "embed", "big"})
			sz := r.Range(0, 300)
			switch kind {
			case "big":
				sz = maxData - r.Intn(64)
			case "embed":
				sz = r.Range(0, 120)
				if 8+40+120+sz > maxData {
					kind = "rand"
				}
			case "rep":
				sz = r.Range(16, 2000)
			}
			if sz > maxData {
				sz = maxData
			}
			cs.Chunks = append(cs.Chunks, jrnkit.ChunkSpec{Kind: kind, Size: sz, Id: id})
		}
		if c > 0 && r.Chance(1, 2) && len(cs.Chunks) < maxChildren {
			cs.Reuse = []int{r.Intn(1000)}
		}
		if c > 0 && r.Chance(1, 5) {
			// reach the 64 MiB un-synced threshold cheaply (the real 64 MiB write is the thorough-only case)
			cs.Bump = uint64(nbs.VerifJrnMaybeSyncThreshold) - uint64(r.Intn(400))
		}
		if c > 0 && r.Chance(1, 5) {
			cs.Reopen = true
		}
		h.Commits = append(h.Commits, cs)
	}
	return h
}

// genIdxSyncHistory: the intermediate-sync + index-flush path of writeCompressedChunk.  A prior
// commit, then a commit whose chunk writes cross the un-synced threshold (reached by advancing the
// counter) at one of its LAST chunk records while more than maxNovel chunks are un-indexed, so the
// intermediate sync also writes an index meta record and no later flush re-covers the crossing
// chunk.  The store is then reopened WITH the index it wrote (checkReopenWithIndex).
func genIdxSyncHistory(r *hx.Rng, idBase uint64) jrnkit.History {
	h := jrnkit.History{B: hx.Pick(r, []uint32{4096, 2048, 0}), MaxNovel: r.Range(1, 4)}
	id := idBase
	mk := func(n int) []jrnkit.ChunkSpec {
		var cs []jrnkit.ChunkSpec
		for i := 0; i < n; i++ {
			id++
			cs = append(cs, jrnkit.ChunkSpec{Kind: hx.Pick(r, []string{"rand", "rep", "tiny"}), Size: r.Range(0, 250), Id: id})
		}
		return cs
	}
	for c := 0; c < r.Range(1, 2); c++ {
		h.Commits = append(h.Commits, jrnkit.CommitSpec{Chunks: mk(r.Range(0, 3))})
	}
	n := h.MaxNovel + r.Range(2, 6)
	big := jrnkit.CommitSpec{Chunks: mk(n)}
	// records written by that commit: the n leaf chunks, then the root chunk (size known only at
	// build time: crossing at the root chunk = "bytes of all leafs, plus one")
	var sizes []int
	for _, cs := range big.Chunks {
		_, cc := nbs.VerifJrnCompress(jrnkit.ChunkData(cs))
		sizes = append(sizes, 32+len(cc))
	}
	// crossing record index t: at most maxNovel records may follow it (else the commit's own index
	// flush would sweep its lookup into a complete batch)
	after := r.Intn(h.MaxNovel + 1) // records after the crossing one, root chunk included
	t := n - after                  // t == n: the root chunk's record crosses
	sum := 0
	for i := 0; i < t && i < n; i++ {
		sum += sizes[i]
	}
	slack := 0
	if t < n && sizes[t] > 1 {
		slack = r.Intn(sizes[t] - 1)
	}
	big.Bump = uint64(nbs.VerifJrnMaybeSyncThreshold) - uint64(sum) - uint64(slack)
	h.Commits = append(h.Commits, big)
	if r.Chance(1, 3) { // a small later commit that stays below maxNovel
		h.Commits = append(h.Commits, jrnkit.CommitSpec{})
	}
	return h
}

func mkTail(img imgSpec) []byte {
	r := hx.NewRng(img.Seed)
	validRoot := func() []byte {
		var h hash.Hash
		copy(h[:], r.Bytes(20))
		return nbs.VerifJrnEncodeRoot(h, 1800000000+uint64(r.Intn(1000)))
	}
	validChunk := func(n int) []byte {
		h, cc := nbs.VerifJrnCompress(r.Bytes(n))
		return nbs.VerifJrnEncodeChunk(h, cc)
	}
	garbage := func(n int) []byte {
		g := r.Bytes(n)
		if n >= 4 && r.Chance(1, 2) {
			// make the first length field small enough to be "in range" half of the time
			binary.BigEndian.PutUint32(g, uint32(r.Intn(3*n+64)))
		}
		return g
	}
	switch img.Tail {
	case "drop":
		return nil
	case "zero":
		return make([]byte, img.TailLen)
	case "garbage":
		return garbage(img.TailLen)
	case "gvalid":
		t := append(garbage(max(1, img.TailLen)), validRoot()...)
		t = append(t, validChunk(8+r.Intn(64))...)
		if r.Chance(1, 2) {
			t = append(t, garbage(r.Intn(64))...)
		}
		return t
	case "gtiny": // root then a 37-byte record at EOF: below the loop bound of possibleDataLossCheck
		t := append(garbage(max(1, img.TailLen)), validRoot()...)
		return append(t, validChunk(0)...)
	case "gchunks":
		t := append(garbage(max(1, img.TailLen)), validChunk(8+r.Intn(64))...)
		return append(t, validChunk(8+r.Intn(64))...)
	case "grootlast":
		t := append(garbage(max(1, img.TailLen)), validChunk(8+r.Intn(64))...)
		return append(t, validRoot()...)
	}
	panic("bad tail " + img.Tail)
}

// ---------------------------------------------------------------- implementation side

func showRecs(recs []nbs.VerifJrnRec) (string, string) {
	root := "-"
	parts := make([]string, 0, len(recs))
	for _, r := range recs {
		switch r.Kind {
		case 2:
			parts = append(parts, fmt.Sprintf("c:%s@%d+%d", hx.Hex(r.Addr[:]), r.Off+int64(r.PayloadOff), r.PayloadLen))
		case 1:
			parts = append(parts, fmt.Sprintf("r:%s@%d", hx.Hex(r.Addr[:]), r.Off))
			root = hx.Hex(r.Addr[:])
		default:
			parts = append(parts, fmt.Sprintf("k%d:%s@%d", r.Kind, hx.Hex(r.Addr[:]), r.Off))
		}
	}
	return root, "[" + strings.Join(parts, ",") + "]"
}

func errClass(err error) string {
	s := err.Error()
	switch {
	case strings.Contains(s, "unknown record field tag"):
		return "err unknown-tag"
	case strings.Contains(s, "unknown journal record kind"):
		return "err unknown-kind"
	}
	return "err other:" + s
}

func implScan(image []byte) string {
	return hx.Recover(func() string {
		recs, end, _, dl, _, err := nbs.VerifJrnScan(jrnkit.Ctx, image, 0, true)
		if err != nil {
			return errClass(err)
		}
		if dl {
			return fmt.Sprintf("dataloss %d", end)
		}
		root, list := showRecs(recs)
		return fmt.Sprintf("ok %d %s %s", end, root, list)
	})
}

type reopenRes struct {
	Class    string // ok | dataloss | err:<..>
	Root     hash.Hash
	Missing  []string // closure chunks unreadable or wrong
	JrnSize  int64
	ReadOnly bool
}

func reopen(dir string, bt *jrnkit.Built) (res reopenRes) {
	defer func() {
		if p := recover(); p != nil {
			res.Class = fmt.Sprintf("panic: %v", p)
		}
	}()
	st, err := jrnkit.Open(dir, jrnkit.StoreOpts{SkipWait: true})
	if err != nil {
		if errors.Is(err, nbs.ErrJournalDataLoss) {
			res.Class = "dataloss"
		} else {
			res.Class = "err:" + err.Error()
		}
		return
	}
	defer st.Close()
	res.Class = "ok"
	res.Root, _ = st.Root(jrnkit.Ctx)
	for _, h := range bt.Closure(res.Root) {
		c, gerr := st.Get(jrnkit.Ctx, h)
		if gerr != nil {
			res.Missing = append(res.Missing, h.String()+":"+gerr.Error())
		} else if c.IsEmpty() {
			res.Missing = append(res.Missing, h.String()+":absent")
		} else if !bytes.Equal(c.Data(), bt.Data[h]) {
			res.Missing = append(res.Missing, h.String()+":wrong-bytes")
		}
	}
	if fi, err := os.Stat(filepath.Join(dir, nbs.VerifJrnFileName)); err == nil {
		res.JrnSize = fi.Size()
	}
	return
}

// ---------------------------------------------------------------- one image

// tornEmbed reports whether offset k tears a chunk record whose payload carries complete
// well-formed embedded records before k (suspected defect (c), DESIGN.md §11).
func tornEmbed(bt *jrnkit.Built, k int) bool {
	for _, ri := range bt.Recs {
		if int64(k) > ri.Off && int64(k) < ri.Off+ri.Len && ri.Kind == 2 {
			for _, c := range bt.Hist.Commits {
				for _, cs := range c.Chunks {
					if cs.Kind != "embed" {
						continue
					}
					emb := jrnkit.EmbeddedRecords(cs)
					if i := bytes.Index(bt.File[ri.Off:k], emb); i >= 0 {
						return true
					}
				}
			}
		}
	}
	return false
}

var castagnoli = crc32.MakeTable(crc32.Castagnoli)

// cleanPrefixEnd: independent walk over length-prefixed, CRC-32C-checked records (Go standard
// library checksum): the offset where the image stops being a clean record sequence.
func cleanPrefixEnd(image []byte) int {
	off := 0
	for off+8 <= len(image) {
		l := int(binary.BigEndian.Uint32(image[off:]))
		if l < 8 || off+l > len(image) {
			break
		}
		if crc32.Checksum(image[off:off+l-4], castagnoli) != binary.BigEndian.Uint32(image[off+l-4:]) {
			break
		}
		off += l
	}
	return off
}

func evalImage(bt *jrnkit.Built, img imgSpec, imgDir string) {
	k := img.K
	if k > len(bt.File) {
		k = len(bt.File)
	}
	tail := mkTail(img)
	image := append(append([]byte{}, bt.File[:k]...), tail...)
	B := effB(bt.Hist)

	// who is acked / in flight at k
	nAck := 0
	for _, a := range bt.Acks {
		if a.Off <= int64(k) {
			nAck++
		}
	}
	var lastAcked, inflight hash.Hash
	if nAck > 0 {
		lastAcked = bt.Acks[nAck-1].Root
	}
	if nAck < len(bt.Acks) {
		inflight = bt.Acks[nAck].Root
	}
	inside := false
	for _, ri := range bt.Recs {
		if int64(k) > ri.Off && int64(k) < ri.Off+ri.Len {
			inside = true
		}
	}
	kc := kase{Hist: bt.Hist, Img: &img}
	canon, _ := json.Marshal(kc)
	e.Rep.Count(string(canon), inside || img.Tail != "drop")
	e.Rep.Hit("tail:" + img.Tail)
	if inside {
		e.Rep.Hit("offset:inside-record")
	} else {
		e.Rep.Hit("offset:boundary")
	}
	// a garbage byte can complete a record torn one byte short (1/256): then nothing is damaged and
	// the valid records of the tail are a legitimate continuation of the journal — no expectation
	completed := len(tail) > 0 && cleanPrefixEnd(image) > k
	if completed {
		e.Rep.Hit("tail-completed-the-torn-record")
	}
	embedTorn := tornEmbed(bt, k)
	if embedTorn {
		e.Rep.Hit("torn-record-with-embedded-records")
	}

	// (1) model vs real recovery scan
	implOut := implScan(image)
	modelOut := m.Ask(fmt.Sprintf("crash %d %d %s", B, k, hx.Hex(tail)))
	e.Rep.Hit("outcome:" + strings.SplitN(implOut, " ", 2)[0])
	if implOut != modelOut {
		e.Rep.Disagree(kc, trunc(implOut), trunc(modelOut), "recovery scan")
	}
	if len(e.Rep.Samples) < 3 {
		e.Rep.Sample(map[string]any{"B": B, "commits": len(bt.Hist.Commits), "journal_len": len(bt.File), "img": img, "impl": trunc(implOut)})
	}

	// (2) full store reopen + the property's predicate
	manifest := bt.ManifestOpen
	if len(bt.Acks) > 0 && int64(k) < bt.Acks[0].Off && !img.First {
		manifest = nil // before the first commit's manifest flush: a fresh directory holding only the journal
	}
	if err := jrnkit.WriteImage(imgDir, image, manifest, nil); err != nil {
		panic(err)
	}
	rr := reopen(imgDir, bt)
	e.Rep.Hit("reopen:" + strings.SplitN(rr.Class, ":", 2)[0])

	// drop / zero / garbage: nothing valid follows the damage => must be discarded silently.
	// gvalid: damage followed by a valid root record and a valid record => must be reported.
	// gtiny / gchunks / grootlast: valid records follow but not "root then record" => the
	// implementation's rule does not report them; compared with the model only.
	benign := img.Tail == "drop" || img.Tail == "zero" || img.Tail == "garbage"
	switch {
	case completed:
	case strings.HasPrefix(rr.Class, "panic") || strings.HasPrefix(rr.Class, "err:"):
		e.Rep.Violate("journal-reopen-fails/"+img.Tail, "reopening a crash image fails: "+rr.Class, kc)
	case rr.Class == "dataloss":
		if benign && embedTorn {
			e.Rep.Known("journal-torn-payload-resync", "a torn chunk record whose payload contains a well-formed root record followed by a well-formed record makes possibleDataLossCheck refuse to open a benign torn tail (possible data loss)", kc)
		} else if benign {
			e.Rep.Violate("journal-benign-tail-refused/"+img.Tail, "a torn/partial tail with nothing valid after it is reported as data loss", kc)
		}
	case rr.Class == "ok":
		if img.Tail == "gvalid" {
			e.Rep.Violate("journal-damage-not-reported", "damage followed by a valid root record and a valid record is silently truncated", kc)
		}
		if rr.Root != lastAcked && rr.Root != inflight {
			e.Rep.Violate("journal-recovered-root-not-acked", fmt.Sprintf("recovered root %s is neither the last acknowledged (%s) nor in flight (%s)", rr.Root, lastAcked, inflight), kc)
		}
		if len(rr.Missing) > 0 {
			if img.First && rr.Root == inflight {
				e.Rep.Known("journal-first-commit-manifest-ahead", "first commit of a new database: the manifest is flushed with the new root before the journal holds its chunks; a crash in between reopens on a root whose chunks are missing", kc)
			} else {
				e.Rep.Violate("journal-recovered-root-unreadable", fmt.Sprintf("root %s recovered but chunks unreadable: %v", rr.Root, rr.Missing), kc)
			}
		}
	}
	// model vs full reopen
	mw := strings.Fields(modelOut)
	switch {
	case len(mw) > 0 && mw[0] == "dataloss":
		if rr.Class != "dataloss" {
			e.Rep.Disagree(kc, rr.Class, trunc(modelOut), "store reopen vs model")
		}
	case len(mw) > 2 && mw[0] == "ok":
		if rr.Class != "ok" {
			e.Rep.Disagree(kc, rr.Class, trunc(modelOut), "store reopen vs model")
		} else if manifest == nil {
			// a directory without manifest opens as an empty store whatever the journal holds
		} else if mw[2] != "-" && mw[2] != hx.Hex(rr.Root[:]) {
			e.Rep.Disagree(kc, "root "+hx.Hex(rr.Root[:]), trunc(modelOut), "store reopen root vs model")
		} else if mw[2] != "-" && fmt.Sprint(rr.JrnSize) != mw[1] {
			e.Rep.Disagree(kc, fmt.Sprintf("journal size after read-write reopen %d", rr.JrnSize), trunc(modelOut), "truncation offset")
		}
	}
}

func trunc(s string) string {
	if len(s) > 600 {
		return s[:600] + "…"
	}
	return s
}

// ---------------------------------------------------------------- one history

func offsetsFor(bt *jrnkit.Built, r *hx.Rng, all bool, limit int) []int {
	set := map[int]bool{}
	n := len(bt.File)
	if all {
		for k := 0; k <= n; k++ {
			set[k] = true
		}
	} else {
		for _, ri := range bt.Recs {
			for d := -2; d <= 2; d++ {
				set[int(ri.Off)+d] = true
			}
			for _, d := range []int64{3, 4, 5, 6, 7, 27, 28, 29, ri.Len - 5, ri.Len - 4, ri.Len - 3, ri.Len - 1} {
				set[int(ri.Off+d)] = true
			}
			set[int(ri.Off)+r.Intn(int(ri.Len))] = true
		}
		set[n], set[n-1] = true, true
		for i := 0; i < 24; i++ {
			set[r.Intn(n+1)] = true
		}
	}
	var ks []int
	for k := range set {
		if k >= 0 && k <= n {
			ks = append(ks, k)
		}
	}
	sort.Ints(ks)
	if !all && len(ks) > limit {
		// keep a seeded sample (always the two ends)
		keep := map[int]bool{ks[0]: true, ks[len(ks)-1]: true}
		for len(keep) < limit {
			keep[ks[r.Intn(len(ks))]] = true
		}
		ks = ks[:0]
		for k := range keep {
			ks = append(ks, k)
		}
		sort.Ints(ks)
	}
	return ks
}

// runIdxSync: one history of the intermediate-sync family: build, ack/writer conformance, reopen with
// the written index.
func runIdxSync(h jrnkit.History, idx int) {
	dir := filepath.Join(fastScratch(), fmt.Sprintf("h%d", idx))
	defer os.RemoveAll(dir)
	kc := kase{Hist: h, Op: "idxsync"}
	bt, err := jrnkit.Build(filepath.Join(dir, "w"), h)
	if err != nil {
		e.Rep.Disagree(kc, "build failed: "+err.Error(), "-", "history could not be written by the real store")
		return
	}
	old := nbs.VerifJrnSetBuffSize(effB(h))
	defer nbs.VerifJrnSetBuffSize(old)
	e.Rep.TracesValidated++
	e.Rep.Hit("family:idxsync")
	nroots := 0
	for _, ri := range bt.Recs {
		if ri.Kind == 1 {
			nroots++
		}
	}
	if nroots > len(bt.Acks) {
		e.Rep.Hit("idxsync:intermediate-sync-fired")
	}
	checkAcks(bt, kc)
	checkWriter(bt, kc)
	checkReopenWithIndex(bt, filepath.Join(dir, "withidx"))
}

func checkAcks(bt *jrnkit.Built, kc kase) {
	// property part "acknowledged ⇒ durable", as far as it is observable in-process: when Commit
	// returns, nothing is left in the write buffer, the un-synced counter is zero, the file on disk
	// has exactly the acknowledged length, and the last record at that offset is the root just
	// acknowledged.
	for i, a := range bt.Acks {
		if a.State.BufLen != 0 || a.State.Unsyncd != 0 {
			e.Rep.Violate("journal-ack-not-flushed", fmt.Sprintf("commit %d acknowledged with buffered=%d unsynced=%d", i, a.State.BufLen, a.State.Unsyncd), kc)
		}
		if a.State.CurrentRoot != a.Root {
			e.Rep.Violate("journal-ack-wrong-root", fmt.Sprintf("commit %d: writer root %s != acknowledged %s", i, a.State.CurrentRoot, a.Root), kc)
		}
		found := false
		for _, ri := range bt.Recs {
			if ri.Off+ri.Len == a.Off && ri.Kind == 1 && ri.Addr == a.Root {
				found = true
			}
		}
		if !found {
			e.Rep.Violate("journal-ack-root-record-missing", fmt.Sprintf("commit %d: no root record for %s ending at the acknowledged offset %d", i, a.Root, a.Off), kc)
		}
	}
}

// checkWriter: conformance of the real journal writer with the model state machine, commit by
// commit: same writer operations from the same pre-state => same bytes written to the file, same
// observable state (off, buffered, un-synced, indexed, novel count, root, batch crc) afterwards.
func checkWriter(bt *jrnkit.Built, kc kase) {
	B := effB(bt.Hist)
	for i, a := range bt.Acks {
		pre := a.PreState
		root := "-"
		if !pre.CurrentRoot.IsEmpty() {
			root = hx.Hex(pre.CurrentRoot[:])
		}
		mx := a.State.MaxNovel
		if pre.BufLen != 0 {
			e.Rep.Disagree(kc, fmt.Sprintf("commit %d starts with %d buffered bytes", i, pre.BufLen), "0", "writer pre-state")
			continue
		}
		m.Ask(fmt.Sprintf("winit %d %d %d %d %d %d %s %d %d", B, mx, uint64(nbs.VerifJrnMaybeSyncThreshold), pre.Off, pre.Indexed, pre.Novel, root, a.Clock, pre.BatchCrc))
		var last string
		for _, op := range a.WOps {
			if op.Bump > 0 {
				m.Ask(fmt.Sprintf("wbump %d", op.Bump))
			}
			if op.Root {
				last = m.Ask("wcommit " + hx.Hex(op.Addr[:]))
			} else {
				last = m.Ask(fmt.Sprintf("wchunk %s %s", hx.Hex(op.Addr[:]), hx.Hex(op.Payload)))
			}
			if strings.Contains(last, "W") {
				e.Rep.Hit("writer:flush-events")
			}
			if strings.Contains(last, "|") && strings.Contains(strings.SplitN(last, "|", 2)[1], "M") {
				e.Rep.Hit("writer:index-meta")
			}
		}
		st := a.State
		r2 := "-"
		if !st.CurrentRoot.IsEmpty() {
			r2 = hx.Hex(st.CurrentRoot[:])
		}
		impl := fmt.Sprintf("st %d %d %d %d %d %s %d", st.Off, st.BufLen, st.Unsyncd, st.Indexed, st.Novel, r2, st.BatchCrc)
		model := strings.TrimSpace(strings.SplitN(last, "|", 2)[0])
		e.Rep.Count(fmt.Sprintf("writer %d %s", i, impl), true)
		if impl != model {
			e.Rep.Disagree(kc, impl, trunc(last), fmt.Sprintf("journal writer state after commit %d", i))
		}
		written := m.Ask("wwritten")
		if int(a.Off) <= len(bt.File) && written != hx.Hex(bt.File[pre.Off:a.Off]) {
			e.Rep.Disagree(kc, "bytes "+trunc(hx.Hex(bt.File[pre.Off:a.Off])), "bytes "+trunc(written), fmt.Sprintf("bytes written to the journal by commit %d", i))
		}
	}
}

// checkReopenWithIndex: reopen WITH the journal index the store itself wrote — the directory as a
// clean close left it, and crash copies (journal as acknowledged, index cut after each complete
// batch / as flushed) — and require the acknowledged root and EVERY chunk written before it to be
// readable with its exact bytes.
func checkReopenWithIndex(bt *jrnkit.Built, dir string) {
	if len(bt.Acks) == 0 {
		return
	}
	want := bt.Acks[len(bt.Acks)-1].Root
	type copyv struct {
		Name    string
		Journal []byte
		Index   []byte
	}
	copies := []copyv{{"clean-close", bt.FileClosed, bt.Index}, {"crash:index-as-flushed", bt.File, bt.Index}}
	for off := 0; off < len(bt.Index); { // batch ends
		if bt.Index[off] == 0 && off+29 <= len(bt.Index) {
			off += 29
		} else if bt.Index[off] == 1 && off+41 <= len(bt.Index) {
			off += 41
			copies = append(copies, copyv{fmt.Sprintf("crash:index-cut-at-batch-end-%d", off), bt.File, bt.Index[:off]})
		} else {
			break
		}
	}
	nmeta := len(copies) - 2
	for _, c := range copies {
		kc := kase{Hist: bt.Hist, Op: "reopen-with-index:" + c.Name}
		canon, _ := json.Marshal(kc)
		e.Rep.Count(string(canon), nmeta > 0)
		e.Rep.Hit("reopen-with-index:" + strings.SplitN(c.Name, "-at-", 2)[0])
		if err := jrnkit.WriteImage(dir, c.Journal, bt.ManifestClose, c.Index); err != nil {
			panic(err)
		}
		func() {
			st, err := jrnkit.Open(dir, jrnkit.StoreOpts{SkipWait: true})
			if err != nil {
				e.Rep.Violate("journal-reopen-with-index-fails", "reopening with the index the store wrote fails: "+err.Error(), kc)
				return
			}
			defer st.Close()
			root, _ := st.Root(jrnkit.Ctx)
			if root != want {
				e.Rep.Violate("journal-reopen-with-index-root", fmt.Sprintf("reopen with the written index shows root %s, acknowledged %s", root, want), kc)
				return
			}
			var bad []string
			for h, d := range bt.Data {
				ch, gerr := st.Get(jrnkit.Ctx, h)
				switch {
				case gerr != nil:
					bad = append(bad, h.String()+":"+gerr.Error())
				case ch.IsEmpty():
					bad = append(bad, h.String()+":absent")
				case !bytes.Equal(ch.Data(), d):
					bad = append(bad, h.String()+":wrong-bytes")
				}
			}
			if len(bad) > 0 {
				sort.Strings(bad)
				e.Rep.Violate("journal-chunk-unreadable-after-reopen-with-index", fmt.Sprintf("reopen (%s) succeeds and shows the acknowledged root, but %d chunk(s) written before it are unreadable although their journal records are intact: %v", c.Name, len(bad), bad[:min(3, len(bad))]), kc)
			}
		}()
	}
	if nmeta > 0 {
		e.Rep.Hit("history:index-meta-written")
	}
}

func runHistory(h jrnkit.History, only *imgSpec, hr *hx.Rng, idx int, si straceInfo) {
	dir := filepath.Join(fastScratch(), fmt.Sprintf("h%d", idx))
	kc := kase{Hist: h}
	bt, err := jrnkit.Build(filepath.Join(dir, "w"), h)
	if err != nil {
		e.Rep.Disagree(kc, "build failed: "+err.Error(), "-", "history could not be written by the real store")
		return
	}
	defer os.RemoveAll(dir)
	old := nbs.VerifJrnSetBuffSize(effB(h))
	defer nbs.VerifJrnSetBuffSize(old)
	e.Rep.TracesValidated++
	e.Rep.Hit(fmt.Sprintf("B:%d", effB(h)))
	for _, c := range h.Commits {
		if c.Bump > 0 {
			e.Rep.Hit("history:unsynced-threshold")
		}
		if c.Reopen {
			e.Rep.Hit("history:reopen")
		}
	}
	nroots := 0
	for _, ri := range bt.Recs {
		if ri.Kind == 1 {
			nroots++
		}
	}
	if nroots > len(bt.Acks) {
		e.Rep.Hit("history:self-commit-root-records")
	}
	checkAcks(bt, kc)
	checkWriter(bt, kc)
	checkReopenWithIndex(bt, filepath.Join(dir, "withidx"))
	if r := m.Ask("load " + hx.Hex(bt.File)); !strings.HasPrefix(r, "ok") {
		e.Rep.Disagree(kc, "load", r, "model load")
		return
	}
	// the clean journal must recover to exactly what was acknowledged
	clean := imgSpec{K: len(bt.File), Tail: "drop"}
	imgDir := filepath.Join(dir, "img")
	// the first-commit window (manifest already names the in-flight root): a crash image with journal
	// prefix k and that manifest is possible only if the syscall log shows the manifest renamed
	// before the first acknowledgement, and only for k >= the journal bytes fsynced by then
	firstWindow := func(k int) bool {
		return si.OK && si.ManifestFirst && len(bt.Acks) > 0 && int64(k) < bt.Acks[0].Off && int64(k) >= si.DurableAtManifest
	}
	if only != nil {
		o := *only
		if o.First && !firstWindow(o.K) {
			e.Rep.Hit("first-commit-window:closed")
			o.First = false
		}
		evalImage(bt, o, imgDir)
		return
	}
	evalImage(bt, clean, imgDir)
	tails := []string{"drop", "drop", "zero", "garbage", "gvalid", "gtiny", "gchunks", "grootlast"}
	B := int(effB(h))
	gl := 3*B + 100
	if gl > 9000 {
		gl = 9000
	}
	all := e.Thorough() && idx%4 == 0 && h.B != 0
	firstAck := int64(0)
	if len(bt.Acks) > 0 {
		firstAck = bt.Acks[0].Off
	}
	limit := e.N(110, 600)
	if h.B == 0 {
		limit = e.N(16, 60) // the default 5 MiB buffer costs 15 MiB of allocation per recovery
	}
	for _, k := range offsetsFor(bt, hr, all, limit) {
		nt := 2
		if all {
			nt = 1
		}
		for j := 0; j < nt; j++ {
			t := hx.Pick(hr, tails)
			if j == 0 {
				t = "drop"
			}
			img := imgSpec{K: k, Tail: t, Seed: hr.U64()}
			switch t {
			case "zero":
				img.TailLen = hx.Pick(hr, []int{1, 3, 4, 39, 40, 41, 4096 - k%4096, hr.Intn(gl)})
			case "drop":
			default:
				img.TailLen = hx.Pick(hr, []int{1, 2, 5, 40, hr.Intn(200), hr.Intn(gl)})
			}
			img.First = firstWindow(k)
			_ = firstAck
			evalImage(bt, img, imgDir)
		}
	}
}

// ---------------------------------------------------------------- codec stream (incl. malformed)

func crcRecord(body []byte) []byte {
	// body without length and crc; produce a CRC-valid record
	l := uint32(len(body) + 8)
	b := make([]byte, 4, l)
	binary.BigEndian.PutUint32(b, l)
	b = append(b, body...)
	var c [4]byte
	binary.BigEndian.PutUint32(c[:], nbs.VerifJrnCrc(b))
	return append(b, c[:]...)
}

func genRecord(r *hx.Rng) []byte {
	switch r.Intn(10) {
	case 0, 1, 2:
		h, cc := nbs.VerifJrnCompress(r.Bytes(r.Intn(200)))
		return nbs.VerifJrnEncodeChunk(h, cc)
	case 3, 4:
		var h hash.Hash
		copy(h[:], r.Bytes(20))
		return nbs.VerifJrnEncodeRoot(h, r.U64()>>uint(r.Intn(64)))
	case 5: // CRC-valid, oddly shaped
		var body []byte
		n := r.Intn(4)
		for i := 0; i < n; i++ {
			switch r.Intn(6) {
			case 0:
				body = append(body, 1, byte(r.Intn(4)))
			case 1:
				body = append(body, 2)
				body = append(body, r.Bytes(hx.Pick(r, []int{20, 20, 20, 3, 19, 0}))...)
			case 2:
				body = append(body, 4)
				body = append(body, r.Bytes(hx.Pick(r, []int{8, 8, 7, 2}))...)
			case 3:
				body = append(body, 3)
				body = append(body, r.Bytes(r.Intn(30))...)
			case 4:
				body = append(body, byte(r.Intn(256)))
			case 5:
			}
		}
		return crcRecord(body)
	case 6: // flipped byte
		h, cc := nbs.VerifJrnCompress(r.Bytes(r.Intn(60)))
		b := nbs.VerifJrnEncodeChunk(h, cc)
		b[r.Intn(len(b))] ^= byte(1 << uint(r.Intn(8)))
		return b
	case 7: // truncated
		h, cc := nbs.VerifJrnCompress(r.Bytes(r.Intn(60)))
		b := nbs.VerifJrnEncodeChunk(h, cc)
		return b[:r.Intn(len(b))]
	case 8:
		return r.Bytes(r.Intn(64))
	default:
		b := r.Bytes(8 + r.Intn(40))
		binary.BigEndian.PutUint32(b, uint32(r.Intn(len(b)+3)))
		return b
	}
}

func verrClass(err error) string {
	if err == nil {
		return "ok"
	}
	s := err.Error()
	switch {
	case strings.Contains(s, "buffer length too small"):
		return "err too-small"
	case strings.Contains(s, "offset is greater than length"):
		return "err len-exceeds"
	case strings.Contains(s, "CRC checksum does not match"):
		return "err crc"
	}
	return "err other:" + s
}

func codecCase(rec []byte) {
	kc := kase{Op: "codec", Rec: hx.Hex(rec)}
	iv := hx.Recover(func() string { return verrClass(nbs.VerifJrnValidate(rec)) })
	if strings.HasPrefix(iv, "panic") {
		iv = "err panic"
	}
	mv := m.Ask("validate " + hx.Hex(rec))
	e.Rep.Count("codec "+hx.Hex(rec), iv != "ok" || len(rec) != 40)
	e.Rep.Hit("codec-validate:" + iv)
	if iv != mv {
		e.Rep.Disagree(kc, iv, mv, "validateJournalRecord")
	}
	if iv == "ok" {
		ir := hx.Recover(func() string {
			// give the slice the spare capacity it has in the real callers
			buf := append(append(make([]byte, 0, len(rec)+8), rec...))
			r, err := nbs.VerifJrnReadRecord(buf)
			if err != nil {
				return errClass(err)
			}
			ts := "-"
			if r.HasTime {
				ts = fmt.Sprint(uint64(r.UnixTime))
			}
			return fmt.Sprintf("ok %d %d %s %s %d %d", r.Length, r.Kind, hx.Hex(r.Addr[:]), ts, r.PayloadOff, r.PayloadLen)
		})
		if strings.HasPrefix(ir, "panic") {
			ir = "err panic"
		}
		mr := m.Ask("read " + hx.Hex(rec))
		// the zero time.Time is indistinguishable from "no timestamp" on the Go side
		mr = strings.Replace(mr, " 0 ", " 0 ", 1)
		if strings.HasPrefix(ir, "ok") {
			e.Rep.Hit("codec-read:ok kind=" + strings.Fields(ir)[2])
		} else {
			e.Rep.Hit("codec-read:" + ir)
		}
		if ir != mr {
			e.Rep.Disagree(kc, ir, mr, "readJournalRecord")
		}
		// a CRC-valid record inside a journal: whole recovery
		img := append(append([]byte{}, rec...), make([]byte, 5)...)
		is := implScan(img)
		if strings.HasPrefix(is, "panic") {
			is = "err panic"
		}
		ms := m.Ask(fmt.Sprintf("recover %d %s", nbs.VerifJrnBuffSize(), hx.Hex(img)))
		if is != ms {
			e.Rep.Disagree(kc, is, ms, "recovery of a single-record journal")
		}
	}
}

// windowCase: the real possibleDataLossCheck (2x-buffer window, refills) against the model of the
// windowed loop and against the whole-suffix scan, on streams several windows long.
func windowCase(r *hx.Rng) {
	B := uint32(hx.Pick(r, []int{64, 96, 128, 256, 700}))
	old := nbs.VerifJrnSetBuffSize(B)
	defer nbs.VerifJrnSetBuffSize(old)
	var data []byte
	parts := r.Range(1, 8)
	for i := 0; i < parts; i++ {
		switch r.Intn(6) {
		case 0:
			data = append(data, make([]byte, r.Intn(int(3*B)))...)
		case 1:
			var h hash.Hash
			copy(h[:], r.Bytes(20))
			data = append(data, nbs.VerifJrnEncodeRoot(h, r.U64()>>20)...)
		case 2:
			h, cc := nbs.VerifJrnCompress(r.Bytes(r.Intn(int(B))))
			data = append(data, nbs.VerifJrnEncodeChunk(h, cc)...)
		case 3:
			g := r.Bytes(r.Intn(int(3 * B)))
			if len(g) >= 4 {
				binary.BigEndian.PutUint32(g, uint32(r.Intn(int(2*B))))
			}
			data = append(data, g...)
		case 4: // a length field that points just past the window edge
			g := make([]byte, 4)
			binary.BigEndian.PutUint32(g, B-uint32(r.Intn(8)))
			data = append(data, g...)
			data = append(data, r.Bytes(r.Intn(int(2*B)))...)
		default:
			data = append(data, r.Bytes(r.Intn(40))...)
		}
	}
	kc := kase{Op: "window", Rec: hx.Hex(data), Hist: jrnkit.History{B: B}}
	impl := hx.Recover(func() string {
		dl, err := nbs.VerifJrnDataLossCheck(data)
		if err != nil {
			return errClass(err)
		}
		return fmt.Sprint(dl)
	})
	mw := m.Ask(fmt.Sprintf("wdlc %d %s", B, hx.Hex(data)))
	ms := m.Ask(fmt.Sprintf("dlc %d %s", B, hx.Hex(data)))
	e.Rep.Count("window "+hx.Hex(data), len(data) > int(2*B))
	e.Rep.Hit("window:" + impl)
	if len(data) > int(4*B) {
		e.Rep.Hit("window:stream>2-windows")
	}
	if impl != mw {
		e.Rep.Disagree(kc, impl, mw, "possibleDataLossCheck vs windowed model")
	}
	if mw != ms {
		e.Rep.Disagree(kc, mw, ms, "windowed model vs whole-suffix model (contradicts theorem windowed_dataloss_check)")
	}
}

// ---------------------------------------------------------------- main

var fastDir string

// fastScratch: crash images are explicit post-crash states, so nothing here needs a durable
// medium; a tmpfs (when there is one) makes the many fsyncs of store open/close free.  Falls back
// to e.Scratch.  Removed at exit.
func fastScratch() string {
	if fastDir != "" {
		return fastDir
	}
	fastDir = e.Scratch
	if os.Getenv("VERIF_NO_SHM") == "" {
		if d, err := os.MkdirTemp("/dev/shm", "verif-journalcrash-"); err == nil {
			fastDir = d
		}
	}
	return fastDir
}

func main() {
	worker := flag.Bool("worker", false, "internal: write one history with the real store and exit (run under strace)")
	workdir := flag.String("workdir", "", "internal: worker directory")
	histJSON := flag.String("hist", "", "internal: worker history (JSON)")
	for _, a := range os.Args[1:] {
		if a == "-worker" {
			flag.Parse()
			_ = worker
			workerMain(*workdir, *histJSON)
			return
		}
	}
	e = hx.Init("journalcrash", "C03")
	defer e.Finish()
	defer func() {
		if strings.HasPrefix(fastDir, "/dev/shm/verif-") {
			os.RemoveAll(fastDir)
		}
	}()
	m = e.MustModel()
	defer m.Close()
	e.Rep.Rule = "a case = (history written by the real store, crash offset k, tail class); non-trivial when k is strictly inside a record or the tail is not simply dropped; codec cases non-trivial when the record is not a plain root record; distinct by SHA-256 of the canonical case"

	if e.Replay != "" {
		rf, err := hx.LoadReplay(e.Replay)
		if err != nil {
			panic(err)
		}
		runCase(rf.Case, 0)
		return
	}
	for i, c := range e.CorpusCases() {
		runCase(c, 1000+i)
	}
	// crc / codec stream
	cr := e.Rng.Fork()
	oldB := nbs.VerifJrnSetBuffSize(4096) // the default 5 MiB costs a 15 MiB allocation per recovery
	for i := 0; i < e.N(1500, 20000); i++ {
		codecCase(genRecord(cr))
	}
	nbs.VerifJrnSetBuffSize(oldB)
	wr := e.Rng.Fork()
	for i := 0; i < e.N(600, 20000); i++ {
		windowCase(wr)
	}
	irng := e.Rng.Fork()
	for i := 0; i < e.N(10, 150); i++ {
		hr := irng.Fork()
		h := genIdxSyncHistory(hr, uint64(i+1)*100000+50000+e.Seed*1000000007)
		runIdxSync(h, 5000+i)
	}
	hrng := e.Rng.Fork()
	nh := e.N(8, 80)
	for i := 0; i < nh; i++ {
		hr := hrng.Fork()
		h := genHistory(hr, uint64(i+1)*100000+e.Seed*1000000007)
		t0 := time.Now()
		ev0 := e.Rep.Evaluations
		var si straceInfo
		if i < e.N(3, 30) {
			si = straceCheck(h, i)
		}
		runHistory(h, nil, hr, i, si)
		if os.Getenv("VERIF_DEBUG") != "" {
			fmt.Fprintf(os.Stderr, "history %d: B=%d commits=%d images=%d %.1fs\n", i, effB(h), len(h.Commits), e.Rep.Evaluations-ev0, time.Since(t0).Seconds())
		}
	}
}

func runCase(raw json.RawMessage, idx int) {
	var kc kase
	if err := json.Unmarshal(raw, &kc); err != nil {
		panic(err)
	}
	if kc.Op == "codec" {
		codecCase(hx.Unhex(kc.Rec))
		return
	}
	if kc.Op == "idxsync" || strings.HasPrefix(kc.Op, "reopen-with-index") {
		runIdxSync(kc.Hist, idx)
		return
	}
	if kc.Op == "window" {
		windowCase(hx.NewRng(uint64(idx) + 5))
		return
	}
	var si straceInfo
	if kc.Img != nil && kc.Img.First {
		si = straceCheck(kc.Hist, idx)
	}
	runHistory(kc.Hist, kc.Img, hx.NewRng(uint64(idx)+99), idx, si)
}
