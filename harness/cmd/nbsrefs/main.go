// nbsrefs: correspondence + property oracle for C07 (committed state never contains dangling
// references).  Puts whose getAddrs callback reports generator-chosen children (present / pending in
// the memtable / never written / written later), tiny memtables so that flushes (and their ref checks)
// happen at arbitrary points, commits with right and stale `last`, retries after rejection,
// WriteTableFile + AddTableFilesToManifest of prepared files, several handles.  Oracle (independent of
// the model): after every step, from a fresh open of the directory, the full walk from Root() over the
// reference graph finds every address; a rejected write leaves the persisted root where it was.
package main

import (
	"encoding/json"
	"strings"

	"verif/harness/internal/hx"
	"verif/harness/internal/manst"
)

var prof = manst.Profile{Name: "nbsrefs", RefsRich: true, MaxK: 3, AddTables: true}

func runCase(e *hx.Env, m *hx.Model, n int, r *hx.Rng, replay *manst.Case) {
	dir := manst.ScratchDir(e, n)
	var defs []manst.ChunkDef
	never := map[int]bool{}
	if replay != nil {
		defs = replay.Chunks
	} else {
		defs, never = manst.GenDefs(r, prof)
	}
	w := manst.NewWorld(e, m, dir, "file", defs)
	w.RefsOracle = true
	w.NoCasOracle = true
	w.Case = &manst.Case{Mode: "file", Chunks: defs}
	if replay != nil {
		manst.Replay(w, replay)
	} else {
		g := &manst.Gen{W: w, R: r, P: prof, Never: never}
		steps := r.Range(8, 34)
		for i := 0; i < steps; i++ {
			g.Step()
		}
	}
	w.Finish()
	dang := false
	for _, o := range w.Case.Ops {
		e.Rep.Hit("op:" + o.Kind)
		if strings.HasPrefix(o.Res, "err dangling") {
			dang = true
			e.Rep.Hit(o.Kind + ":rejected-dangling")
		}
		if o.Kind == "commit" {
			e.Rep.Hit("commit:" + o.Res)
		}
		if o.Kind == "addtables" {
			e.Rep.Hit("addtables:" + o.Res)
		}
	}
	if dang {
		e.Rep.Hit("case:has-dangling-rejection")
	}
	if w.Flags["closure-walk"] {
		e.Rep.Hit("case:has-nontrivial-closure-walk")
	}
	e.Rep.Count(manst.Canon(w.Case), dang && w.Flags["closure-walk"])
	if n < 3 {
		e.Rep.Sample(map[string]any{"trace": w.Trace})
	}
	e.Rep.TracesValidated++
}

// knownWitness replays, on the real code, the witness of C07's refuted full statement: table files added to
// a store that has no root yet are not ref-checked, so a later commit can persist a root with a missing
// child.
func knownWitness(e *hx.Env, m *hx.Model, n int) {
	c := manst.Case{Mode: "file", Comment: "AddTableFilesToManifest into an uninitialised store skips refCheckAllSources",
		Chunks: []manst.ChunkDef{{ID: 1, Size: 20, Refs: []int{2}}, {ID: 3, Size: 20}},
		Ops: []manst.Op{{Kind: "open", H: 0, Mem: 100}, {Kind: "wtable", H: 0, Tables: [][]int{{1}}},
			{Kind: "addtables", H: 0, Tables: [][]int{{1}}}, {Kind: "commit", H: 0, Cur: 1, Last: 0}}}
	before := len(e.Rep.Violations)
	runCase(e, m, n, nil, &c)
	// move the expected violation (if it reproduced) to the known-witness list
	var rest []hx.Violation
	for i, v := range e.Rep.Violations {
		if i >= before && v.Key == "C07/addtablefiles-into-uninitialized-store-skips-refcheck" {
			e.Rep.Known(v.Key, v.What, v.Replay)
			e.Rep.ViolationsTotal--
			continue
		}
		rest = append(rest, v)
	}
	e.Rep.Violations = rest
	if e.Rep.Violations == nil {
		e.Rep.Violations = []hx.Violation{}
	}
}

// memtableRefWitness replays on the real code the second shape `persisted_closed` excludes (Lean:
// C07.addtables_memtable_ref_refuted): AddTableFilesToManifest accepts a reference that only the adding handle's
// unflushed memtable satisfies.  Reported as note + counter (known_findings.json is not ours to edit); if the
// random generator ever produces the shape it is raised as a violation under its own key.
func memtableRefWitness(e *hx.Env, m *hx.Model, n int) {
	c := manst.Case{Mode: "file", Comment: "AddTableFilesToManifest: reference satisfied only by the handle's unflushed memtable",
		Chunks: []manst.ChunkDef{{ID: 3, Size: 20}, {ID: 5, Size: 20}, {ID: 6, Size: 20, Refs: []int{5}}, {ID: 7, Size: 20, Refs: []int{6}}},
		Ops: []manst.Op{{Kind: "open", H: 0, Mem: 65536}, {Kind: "put", H: 0, A: 3}, {Kind: "commit", H: 0, Cur: 3, Last: 0},
			{Kind: "put", H: 0, A: 5}, {Kind: "wtable", H: 0, Tables: [][]int{{6}}}, {Kind: "addtables", H: 0, Tables: [][]int{{6}}},
			{Kind: "open", H: 1, Mem: 65536}, {Kind: "put", H: 1, A: 7}, {Kind: "commit", H: 1, Cur: 7, Last: 3}, {Kind: "close", H: 0}}}
	before := len(e.Rep.Violations)
	beforeTotal := e.Rep.ViolationsTotal
	runCase(e, m, n, nil, &c)
	var rest []hx.Violation
	hit := false
	for i, v := range e.Rep.Violations {
		if i >= before && v.Key == "C07/addtablefiles-ref-resolved-by-unpersisted-chunk" {
			hit = true
			e.Rep.Note("WITNESS (excluded by SafeAdds, reproduced on the implementation): " + v.What)
			continue
		}
		rest = append(rest, v)
	}
	if rest == nil {
		rest = []hx.Violation{}
	}
	e.Rep.Violations = rest
	if hit {
		e.Rep.ViolationsTotal = beforeTotal
		e.Rep.Hit("witness:addtablefiles-ref-resolved-by-unflushed-memtable")
	} else {
		e.Rep.Note("memtable-ref witness did NOT reproduce on this tree")
	}
}

func main() {
	e := hx.Init("nbsrefs", "C07")
	defer e.Finish()
	e.Rep.Rule = "lazy seeded op sequences (put with generator-chosen child refs, commit right/stale last, rebase, open/close, WriteTableFile, AddTableFilesToManifest) over K<=3 handles with memtables of 30..200 bytes; distinct = different (op, handle, result) sequence; non-trivial = at least one write rejected as dangling and at least one closure walk from a non-empty root visiting more than one chunk"
	m := e.MustModel()
	defer m.Close()
	n := 0
	for _, raw := range e.CorpusCases() {
		var c manst.Case
		if json.Unmarshal(raw, &c) == nil {
			runCase(e, m, n, nil, &c)
			n++
		}
	}
	if e.Replay != "" {
		rf, err := hx.LoadReplay(e.Replay)
		if err != nil {
			panic(err)
		}
		var c manst.Case
		json.Unmarshal(rf.Case, &c)
		if len(c.Ops) == 0 {
			var wrap struct {
				Case manst.Case `json:"case"`
			}
			json.Unmarshal(rf.Case, &wrap)
			c = wrap.Case
		}
		runCase(e, m, n, nil, &c)
		return
	}
	knownWitness(e, m, n)
	n++
	memtableRefWitness(e, m, n)
	n++
	total := e.N(150, 3000)
	for i := 0; i < total; i++ {
		runCase(e, m, n, e.Rng.Fork(), nil)
		n++
	}
}
