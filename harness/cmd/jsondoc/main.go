// jsondoc: correspondence + property oracle for C17 (stored JSON documents behave like in-memory JSON).
//
// Real code driven: tree.IndexedJsonDocument (built with tree.SerializeJsonToAddr on a node store, so
// large documents span several chunks) Lookup / Insert / Set / Replace / Remove / ArrayInsert /
// ArrayAppend; merge.MergeJSON; and, through harness/internal/sqleng, JSON_SET / JSON_INSERT /
// JSON_REPLACE / JSON_REMOVE / JSON_ARRAY_APPEND / JSON_EXTRACT on stored documents.
// Oracle on the implementation (the property's own predicate): the same operation on go-mysql-server's
// in-memory types.JSONDocument must give the same document, change flag and error-ness; the merge is
// compared with an independent three-way merge over decoded values (objects member-wise, arrays and
// scalars atomically).  Correspondence: the Lean model of both sides.
package main

import (
	"context"
	"encoding/json"
	"fmt"
	"os"
	"reflect"
	"regexp"
	"sort"
	"strings"

	"github.com/dolthub/go-mysql-server/sql"
	"github.com/dolthub/go-mysql-server/sql/types"

	"github.com/dolthub/dolt/go/libraries/doltcore/merge"
	"github.com/dolthub/dolt/go/store/prolly/tree"

	"verif/harness/internal/hx"
	"verif/harness/internal/sqleng"
)

// ---------------------------------------------------------------- legs and paths

type leg struct {
	K *string `json:"k,omitempty"` // object key (Go string)
	I *int    `json:"i,omitempty"` // array index
	L *int    `json:"l,omitempty"` // last-N (0 = last)
}

var wordRe = regexp.MustCompile(`^\w+$`)

func pathText(legs []leg) string {
	var sb strings.Builder
	sb.WriteString("$")
	for _, l := range legs {
		switch {
		case l.K != nil:
			if wordRe.MatchString(*l.K) {
				sb.WriteString("." + *l.K)
			} else {
				sb.WriteString(`."` + strings.ReplaceAll(*l.K, `"`, `\"`) + `"`)
			}
		case l.I != nil:
			fmt.Fprintf(&sb, "[%d]", *l.I)
		default:
			if *l.L == 0 {
				sb.WriteString("[last]")
			} else {
				fmt.Fprintf(&sb, "[last-%d]", *l.L)
			}
		}
	}
	return sb.String()
}

func legsWire(legs []leg) string {
	if len(legs) == 0 {
		return "$"
	}
	var p []string
	for _, l := range legs {
		switch {
		case l.K != nil:
			if *l.K == "" {
				p = append(p, "k-")
			} else {
				p = append(p, "k"+hx.Hex([]byte(*l.K)))
			}
		case l.I != nil:
			p = append(p, fmt.Sprintf("i%d", *l.I))
		case *l.L == 0:
			p = append(p, "l")
		default:
			p = append(p, fmt.Sprintf("m%d", *l.L))
		}
	}
	return strings.Join(p, "/")
}

func kLeg(k string) leg { return leg{K: &k} }
func iLeg(i int) leg    { return leg{I: &i} }
func lLeg(n int) leg    { return leg{L: &n} }

// ---------------------------------------------------------------- generator

var keyPool = []string{"a", "aa", "ab", "abc", "abd", "b", "ba", "key1", "key10", "key2", "k", "kk", "z", "0", "1", "A", "é", "日本", "a b", "a.b", "a[0]", `q"t`, "x_y"}
var oddKeys = []string{"k\\b", "n\nl", "t\tb", "", " ", "a\u0001", "*", "last"}

func genScalar(r *hx.Rng) any {
	switch r.Intn(12) {
	case 0:
		return nil
	case 1:
		return true
	case 2:
		return false
	case 3:
		return float64(r.Intn(1000))
	case 4:
		return -float64(r.Intn(50)) - 0.5
	case 5:
		return hx.Pick(r, []float64{0, 1e21, 1.5e-7, 123456789012, 0.1, -1})
	case 6:
		return hx.Pick(r, []string{"", "x", `q"uote`, "back\\slash", "new\nline", "é日本", "a,b", "}{][", `A`, "</script>"})
	case 7:
		return strings.Repeat(hx.Pick(r, []string{"pad", "x", "0123456789"}), r.Range(1, 40))
	}
	return "s" + fmt.Sprint(r.Intn(100))
}

func genKey(r *hx.Rng) string {
	if r.Chance(1, 70) {
		return hx.Pick(r, oddKeys)
	}
	return hx.Pick(r, keyPool)
}

func genVal(r *hx.Rng, depth int) any {
	if depth <= 0 || r.Chance(2, 5) {
		return genScalar(r)
	}
	if r.Bool() {
		n := r.Intn(5)
		arr := make([]any, 0, n)
		for i := 0; i < n; i++ {
			arr = append(arr, genVal(r, depth-1))
		}
		return arr
	}
	n := r.Intn(6)
	m := map[string]any{}
	for i := 0; i < n; i++ {
		m[genKey(r)] = genVal(r, depth-1)
	}
	return m
}

// genDoc: a fraction of the documents is padded to several KB so that it spans chunks
func genDoc(r *hx.Rng) any {
	switch r.Intn(10) {
	case 0:
		return genScalar(r)
	case 1, 2, 3, 4:
		v := genVal(r, 4)
		return v
	}
	// big: an object (or array) of many members with padding
	big := r.Range(800, 7000)
	if r.Chance(1, 4) {
		var arr []any
		for size := 0; size < big; {
			v := genVal(r, 3)
			b, _ := types.MarshallJsonValue(v)
			size += len(b) + 1
			arr = append(arr, v)
			if r.Chance(1, 3) {
				p := strings.Repeat("p", r.Range(20, 300))
				arr = append(arr, p)
				size += len(p)
			}
		}
		return arr
	}
	m := map[string]any{}
	for size := 0; size < big; {
		k := genKey(r)
		if r.Chance(1, 2) {
			k += fmt.Sprint(r.Intn(30))
		}
		v := genVal(r, 3)
		if r.Chance(1, 3) {
			v = strings.Repeat("p", r.Range(20, 400))
		}
		b, _ := types.MarshallJsonValue(v)
		size += len(b) + len(k) + 4
		m[k] = v
	}
	return m
}

// genPath: walk an existing path, then perturb the end
func genPath(r *hx.Rng, doc any) (legs []leg) {
	cur := doc
	for depth := 0; depth < 5; depth++ {
		if r.Chance(1, 4) {
			break
		}
		switch x := cur.(type) {
		case map[string]any:
			if len(x) == 0 {
				goto perturb
			}
			keys := make([]string, 0, len(x))
			for k := range x {
				keys = append(keys, k)
			}
			sort.Strings(keys)
			k := hx.Pick(r, keys)
			legs = append(legs, kLeg(k))
			cur = x[k]
		case []any:
			if len(x) == 0 {
				goto perturb
			}
			i := r.Intn(len(x))
			if r.Chance(1, 6) {
				i = len(x) - 1
			}
			legs = append(legs, iLeg(i))
			cur = x[i]
		default:
			goto perturb
		}
	}
perturb:
	defer func() {
		// go-mysql-server's path regexp does not match across a newline: keep newlines out of paths
		for i := range legs {
			if legs[i].K != nil && strings.Contains(*legs[i].K, "\n") {
				legs[i] = kLeg("nl")
			}
			if legs[i].K != nil && (*legs[i].K == "*" || *legs[i].K == "**") {
				legs[i] = kLeg("star")
			}
		}
	}()
	switch r.Intn(14) {
	case 0: // a key that does not exist (sorts somewhere inside)
		legs = append(legs, kLeg(genKey(r)+hx.Pick(r, []string{"", "0", "x", "~"})))
	case 1: // index at / beyond the end
		n := 0
		if a, ok := cur.([]any); ok {
			n = len(a)
		}
		legs = append(legs, iLeg(n+r.Intn(3)))
	case 2:
		legs = append(legs, lLeg(0))
	case 3:
		legs = append(legs, lLeg(r.Range(1, 3)))
	case 4: // 0 / 1 into whatever is there
		legs = append(legs, iLeg(r.Intn(2)))
	case 5: // non-existent parent
		legs = append(legs, kLeg("nope"), kLeg(genKey(r)))
	case 6:
		legs = append(legs, kLeg("nope"), iLeg(r.Intn(2)))
	case 7:
		if len(legs) > 0 {
			legs = legs[:len(legs)-1]
			legs = append(legs, kLeg(genKey(r)))
		}
	case 8:
		legs = append(legs, iLeg(0), kLeg(genKey(r)))
	}
	return legs
}

// ---------------------------------------------------------------- running one operation three ways

type opCase struct {
	Op   string `json:"op"` // lookup set insert replace remove aappend ainsert
	Legs []leg  `json:"legs"`
	Val  string `json:"val,omitempty"` // JSON text
}

type kase struct {
	Kind  string   `json:"kind"` // ops | merge | sql
	Doc   string   `json:"doc,omitempty"`
	Ops   []opCase `json:"ops,omitempty"`
	Base  string   `json:"base,omitempty"`
	Left  string   `json:"left,omitempty"`
	Right string   `json:"right,omitempty"`
	LeftIndexed bool `json:"left_indexed,omitempty"`
}

func decode(s string) any {
	var v any
	if err := json.Unmarshal([]byte(s), &v); err != nil {
		panic("bad JSON in case: " + err.Error())
	}
	return v
}

func canon(v any) string {
	b, err := types.MarshallJsonValue(v)
	if err != nil {
		return "marshal-error:" + err.Error()
	}
	return string(b)
}

func canonWrapper(ctx context.Context, w sql.JSONWrapper) string {
	if w == nil {
		return "NULL"
	}
	v, err := w.ToInterface(ctx)
	if err != nil {
		return "invalid-json"
	}
	return canon(v)
}

func canonText(s string) string {
	var v any
	if err := json.Unmarshal([]byte(s), &v); err != nil {
		return "invalid-json"
	}
	return canon(v)
}

type outcome struct {
	err     bool
	errMsg  string
	changed bool
	doc     string // canonical JSON, or NULL (lookup found nothing)
	raw     string // stored text when the result is an IndexedJsonDocument
}

func (o outcome) String() string {
	if o.err {
		return "err"
	}
	return fmt.Sprintf("ok %v %s", o.changed, o.doc)
}

func mutate(ctx context.Context, doc types.MutableJSON, op, path string, val sql.JSONWrapper) (res types.MutableJSON, changed bool, err error) {
	switch op {
	case "set":
		return doc.Set(ctx, path, val)
	case "insert":
		return doc.Insert(ctx, path, val)
	case "replace":
		return doc.Replace(ctx, path, val)
	case "remove":
		return doc.Remove(ctx, path)
	case "aappend":
		return doc.ArrayAppend(ctx, path, val)
	case "ainsert":
		return doc.ArrayInsert(ctx, path, val)
	}
	panic("op " + op)
}

type runner struct {
	e   *hx.Env
	m   *hx.Model
	ns  tree.NodeStore
	ctx context.Context
}

func (x *runner) indexed(v any) (tree.IndexedJsonDocument, int) {
	root, err := tree.SerializeJsonToAddr(x.ctx, x.ns, types.JSONDocument{Val: v})
	if err != nil {
		panic(err)
	}
	d := tree.NewIndexedJsonDocument(root, x.ns)
	return d, root.Count()
}

func (x *runner) runOne(docText string, oc opCase) (impl, gms outcome) {
	ctx := x.ctx
	path := pathText(oc.Legs)
	var val sql.JSONWrapper
	if oc.Op != "remove" && oc.Op != "lookup" {
		val = types.JSONDocument{Val: decode(oc.Val)}
	}
	run := func(isIndexed bool) (o outcome) {
		defer func() {
			if p := recover(); p != nil {
				o = outcome{err: true, errMsg: fmt.Sprintf("panic: %v", p)}
			}
		}()
		var doc sql.JSONWrapper
		if isIndexed {
			d, _ := x.indexed(decode(docText))
			doc = d
		} else {
			doc = types.JSONDocument{Val: decode(docText)}
		}
		if oc.Op == "lookup" {
			res, err := types.LookupJSONValue(ctx, doc, path)
			if err != nil {
				return outcome{err: true, errMsg: err.Error()}
			}
			if res == nil || reflect.ValueOf(res).Kind() == reflect.Ptr && reflect.ValueOf(res).IsNil() {
				return outcome{doc: "NULL"}
			}
			return outcome{doc: canonWrapper(ctx, res)}
		}
		res, changed, err := mutate(ctx, doc.(types.MutableJSON), oc.Op, path, val)
		if err != nil {
			return outcome{err: true, errMsg: err.Error()}
		}
		o = outcome{changed: changed, doc: canonWrapper(ctx, res)}
		if ij, ok := res.(tree.IndexedJsonDocument); ok {
			if b, err := ij.GetBytes(ctx); err == nil {
				o.raw = string(b)
			}
		}
		return o
	}
	return run(true), run(false)
}

func modelOutcome(resp string) outcome {
	f := strings.Fields(resp)
	switch {
	case len(f) >= 1 && f[0] == "err":
		return outcome{err: true, errMsg: resp}
	case len(f) == 3 && f[0] == "ok":
		raw := string(hx.Unhex(f[2]))
		return outcome{changed: f[1] == "1", doc: canonText(raw), raw: raw}
	case len(f) == 2 && f[0] == "some":
		raw := string(hx.Unhex(f[1]))
		return outcome{doc: canonText(raw), raw: raw}
	case len(f) == 1 && f[0] == "none":
		return outcome{doc: "NULL"}
	}
	return outcome{err: true, errMsg: "model: " + resp}
}

func hexOrDash(s string) string { return hx.Hex([]byte(s)) }

// shape of an operation for violation keys: op + kinds of the legs + what the last existing value is
func shape(oc opCase) string {
	var sb strings.Builder
	sb.WriteString(oc.Op + ":")
	for _, l := range oc.Legs {
		switch {
		case l.K != nil:
			k := "k"
			if !wordRe.MatchString(*l.K) {
				k = "q"
			}
			if strings.ContainsAny(*l.K, "\\\n\t \x01") || *l.K == "" {
				k = "e"
			}
			sb.WriteString(k)
		case l.I != nil:
			sb.WriteString("i")
		case *l.L == 0:
			sb.WriteString("l")
		default:
			sb.WriteString("m")
		}
	}
	return sb.String()
}

func (x *runner) runOps(k kase) {
	e := x.e
	doc := decode(k.Doc)
	stored := canon(doc)
	_, nchunks := x.indexed(doc)
	e.Rep.Hit(fmt.Sprintf("chunks:%d", min(nchunks, 5)))
	for _, oc := range k.Ops {
		impl, gms := x.runOne(k.Doc, oc)
		one := kase{Kind: "ops", Doc: k.Doc, Ops: []opCase{oc}}
		e.Rep.Count(fmt.Sprintf("%s|%s|%s|%s", stored, oc.Op, pathText(oc.Legs), oc.Val), impl.changed || impl.err || (oc.Op == "lookup" && impl.doc != "NULL"))
		e.Rep.Hit("op:" + oc.Op)
		if impl.err {
			e.Rep.Hit("impl:err")
		} else if impl.changed {
			e.Rep.Hit("impl:changed")
		}
		e.Rep.Sample(map[string]any{"doc_bytes": len(stored), "chunks": nchunks, "op": oc.Op, "path": pathText(oc.Legs), "val": oc.Val, "stored": impl.String()[:min(80, len(impl.String()))], "inmem": gms.String()[:min(80, len(gms.String()))]})
		// the property's own predicate on the implementation: stored == in-memory
		if impl.String() != gms.String() {
			what := fmt.Sprintf("%s(%s) on a stored document (%d bytes, %d chunks) = %.160s ; on the in-memory JSONDocument = %.160s", oc.Op, pathText(oc.Legs), len(stored), nchunks, impl.String()+" "+impl.errMsg, gms.String()+" "+gms.errMsg)
			if key := knownDeviation(doc, oc, impl, gms); key != "" {
				e.Rep.Hit("known:" + key)
				e.Rep.Known(key, what, one)
			} else {
				if f := os.Getenv("JD_DUMP"); f != "" {
					fh, _ := os.OpenFile(f, os.O_APPEND|os.O_CREATE|os.O_WRONLY, 0o644)
					b, _ := json.Marshal(map[string]any{"doc": k.Doc, "op": oc, "path": pathText(oc.Legs), "impl": impl.String() + " " + impl.errMsg, "gms": gms.String() + " " + gms.errMsg, "feat": features(doc, oc)})
					fh.Write(append(b, '\n'))
					fh.Close()
				}
				e.Rep.Violate("stored-vs-inmemory:"+shape(oc), what, one)
			}
		}
		// correspondence with the model, both sides
		valHex := "-"
		if oc.Val != "" {
			valHex = hexOrDash(canonText(oc.Val))
		}
		var mi, mr outcome
		if oc.Op == "lookup" {
			mi = modelOutcome(x.m.Ask(fmt.Sprintf("ilook %s %s", legsWire(oc.Legs), hexOrDash(stored))))
			mr = modelOutcome(x.m.Ask(fmt.Sprintf("look %s %s", legsWire(oc.Legs), hexOrDash(stored))))
		} else {
			mi = modelOutcome(x.m.Ask(fmt.Sprintf("iop %s %s %s %s", oc.Op, legsWire(oc.Legs), hexOrDash(stored), valHex)))
			mr = modelOutcome(x.m.Ask(fmt.Sprintf("op %s %s %s %s", oc.Op, legsWire(oc.Legs), hexOrDash(stored), valHex)))
		}
		// a panic of the stored implementation depends on where the chunk boundaries fall (the chunker
		// re-scans only until it re-synchronises): recorded by the oracle, not comparable with the model
		skipModel := hasOddKeys(doc) || (oc.Op == "lookup" && hasLast(oc.Legs)) || (impl.err && strings.HasPrefix(impl.errMsg, "panic:"))
		if skipModel {
			e.Rep.Hit("model-skipped")
		} else if impl.String() != mi.String() {
			e.Rep.Disagree(one, impl.String()+" "+impl.errMsg, mi.String()+" "+mi.errMsg, "IndexedJsonDocument vs model IndexedDoc")
		} else if impl.raw != "" && mi.raw != "" && impl.raw != mi.raw {
			e.Rep.Disagree(one, impl.raw, mi.raw, "stored text differs (same value)")
		}
		if oc.Op != "lookup" && gms.String() != mr.String() {
			e.Rep.Disagree(one, gms.String()+" "+gms.errMsg, mr.String()+" "+mr.errMsg, "JSONDocument vs model reference")
		}
	}
}

// oddKeys: does some object key need an escape other than \" in the stored text (control character,
// backslash, U+2028/9)?  Then the stored order of the members (by Go string) differs from the order
// of the location keys the scanner derives from the escaped text, the chunk index is not monotone and
// the linear-scan model no longer describes which chunk the cursor lands in.
func hasOddKeys(v any) bool {
	switch x := v.(type) {
	case map[string]any:
		for k, w := range x {
			if strings.ContainsAny(k, "\\\u2028\u2029") || strings.IndexFunc(k, func(r rune) bool { return r < 0x20 }) >= 0 {
				return true
			}
			if hasOddKeys(w) {
				return true
			}
		}
	case []any:
		for _, w := range x {
			if hasOddKeys(w) {
				return true
			}
		}
	}
	return false
}

// features of (document, path): what the walk along the path meets
func features(doc any, oc opCase) []string {
	var f []string
	add := func(s string) {
		for _, x := range f {
			if x == s {
				return
			}
		}
		f = append(f, s)
	}
	if hasOddKeys(doc) {
		add("odd-doc-key")
	}
	cur, alive := doc, true
	for i, l := range oc.Legs {
		rest := len(oc.Legs) - i - 1
		switch {
		case l.K != nil:
			if *l.K == "" {
				add("empty-path-key")
			}
			if strings.ContainsAny(*l.K, "\\") || strings.IndexFunc(*l.K, func(r rune) bool { return r < 0x20 }) >= 0 {
				add("odd-path-key")
			}
			if !alive {
				continue
			}
			m, ok := cur.(map[string]any)
			if !ok {
				add("key-on-non-object")
				alive = false
				continue
			}
			v, ok := m[*l.K]
			if !ok {
				if rest > 0 {
					add("missing-parent")
				}
				alive = false
				continue
			}
			cur = v
		default:
			if l.L != nil && *l.L > 0 {
				add("last-minus-n")
			}
			if l.L != nil && *l.L == 0 {
				add("last")
			}
			if !alive {
				continue
			}
			a, ok := cur.([]any)
			if !ok {
				add("index-on-non-array")
				if rest > 0 {
					add("index-on-non-array-then-more")
				}
				alive = false
				continue
			}
			if len(a) == 0 && l.I != nil && *l.I == 0 {
				add("index0-on-empty-array")
			}
			idx := -1
			if l.I != nil {
				idx = *l.I
			} else {
				idx = len(a) - 1 - *l.L
			}
			if idx < 0 || idx >= len(a) {
				if rest > 0 {
					add("index-out-of-range-then-more")
				}
				alive = false
				continue
			}
			cur = a[idx]
		}
	}
	return f
}

func hasLast(legs []leg) bool {
	for _, l := range legs {
		if l.L != nil {
			return true
		}
	}
	return false
}

// knownDeviation classifies a stored-vs-in-memory difference that is already recorded (see
// design/C17.md); "" = not known.
func knownDeviation(doc any, oc opCase, impl, gms outcome) string {
	return classify(doc, oc, impl, gms)
}

// ---------------------------------------------------------------- merge

func mergeOracle(b, l, r any, hasB, hasL, hasR bool) (res any, has bool, conflict bool) {
	eq := func(x, y any, hx, hy bool) bool { return hx == hy && (!hx || reflect.DeepEqual(x, y)) }
	if eq(l, r, hasL, hasR) {
		return l, hasL, false
	}
	if eq(l, b, hasL, hasB) {
		return r, hasR, false
	}
	if eq(r, b, hasR, hasB) {
		return l, hasL, false
	}
	bm, bo := b.(map[string]any)
	lm, lo := l.(map[string]any)
	rm, ro := r.(map[string]any)
	if hasB && hasL && hasR && bo && lo && ro {
		out := map[string]any{}
		keys := map[string]bool{}
		for k := range bm {
			keys[k] = true
		}
		for k := range lm {
			keys[k] = true
		}
		for k := range rm {
			keys[k] = true
		}
		for k := range keys {
			bv, hb := bm[k]
			lv, hl := lm[k]
			rv, hr := rm[k]
			v, h, c := mergeOracle(bv, lv, rv, hb, hl, hr)
			if c {
				return nil, false, true
			}
			if h {
				out[k] = v
			}
		}
		return out, true, false
	}
	return nil, false, true
}

func (x *runner) runMerge(k kase) {
	e := x.e
	ctx := x.ctx
	b, l, r := decode(k.Base), decode(k.Left), decode(k.Right)
	oddMerge := hasOddKeys(b) || hasOddKeys(l) || hasOddKeys(r)
	got := hx.Recover(func() string {
		var lw sql.JSONWrapper = types.JSONDocument{Val: decode(k.Left)}
		if k.LeftIndexed {
			d, _ := x.indexed(decode(k.Left))
			lw = d
		}
		res, conflict, err := merge.MergeJSON(ctx, x.ns, types.JSONDocument{Val: decode(k.Base)}, lw, types.JSONDocument{Val: decode(k.Right)})
		if err != nil {
			return "err " + err.Error()
		}
		if conflict {
			return "conflict"
		}
		return "merged " + canonWrapper(ctx, res)
	})
	want := "conflict"
	_, bo := b.(map[string]any)
	_, lo := l.(map[string]any)
	_, ro := r.(map[string]any)
	if !bo || !lo || !ro {
		// MergeJSON's contract for non-objects (its callers pass cells both sides changed): equal or conflict
		if reflect.DeepEqual(l, r) {
			want = "merged " + canon(l)
		}
	} else if v, _, c := mergeOracle(b, l, r, true, true, true); !c {
		want = "merged " + canon(v)
	}
	mod := x.m.Ask(fmt.Sprintf("merge %s %s %s", hexOrDash(canon(b)), hexOrDash(canon(l)), hexOrDash(canon(r))))
	if f := strings.Fields(mod); len(f) == 2 && f[0] == "merged" {
		mod = "merged " + canonText(string(hx.Unhex(f[1])))
	}
	e.Rep.Count("merge|"+k.Base+"|"+k.Left+"|"+k.Right, !reflect.DeepEqual(b, l) && !reflect.DeepEqual(b, r))
	e.Rep.Hit("merge:" + strings.Fields(got)[0])
	e.Rep.Sample(map[string]any{"kind": "merge", "impl": got[:min(100, len(got))], "oracle": want[:min(100, len(want))]})
	if got != want {
		what := fmt.Sprintf("MergeJSON(base %.80s, left %.80s, right %.80s) = %.160s ; three-way merge by non-overlapping edits says %.160s", k.Base, k.Left, k.Right, got, want)
		if key := classifyMerge(b, l, r, got, want); key != "" {
			e.Rep.Hit("known:" + key)
			e.Rep.Known(key, what, k)
		} else {
			e.Rep.Violate("merge", what, k)
		}
	}
	if oddMerge || (strings.HasPrefix(got, "err ") && strings.Contains(got, "invalid JSON")) {
		e.Rep.Hit("model-skipped")
	} else if got != mod && !strings.HasPrefix(got, "err") {
		e.Rep.Disagree(k, got, mod, "MergeJSON vs model merge3")
	} else if strings.HasPrefix(got, "err") != strings.HasPrefix(mod, "err") {
		e.Rep.Disagree(k, got, mod, "MergeJSON vs model merge3 (error-ness)")
	}
}

// genEdit: a copy of v with a few random edits
func genEdit(r *hx.Rng, v any, n int) any {
	cur := decode(canon(v))
	for i := 0; i < n; i++ {
		legs := genPath(r, cur)
		doc := types.JSONDocument{Val: cur}
		op := hx.Pick(r, []string{"set", "set", "insert", "remove", "replace"})
		if len(legs) == 0 {
			continue
		}
		res, _, err := mutate(context.Background(), doc, op, pathText(legs), types.JSONDocument{Val: genVal(r, 1)})
		if err == nil && res != nil {
			if nv, err := res.ToInterface(context.Background()); err == nil {
				cur = decode(canon(nv))
			}
		}
	}
	return cur
}

// ---------------------------------------------------------------- SQL level

func sqlQuote(s string) string {
	return "'" + strings.NewReplacer(`\`, `\\`, `'`, `''`).Replace(s) + "'"
}

func (x *runner) runSQL(n int) {
	e := x.e
	eng, err := sqleng.New(e.Scratch+"/sql", sqleng.Options{})
	if err != nil {
		e.Rep.Note("sqleng: " + err.Error())
		return
	}
	defer eng.Close()
	s, err := eng.NewSession()
	if err != nil {
		e.Rep.Note("sqleng session: " + err.Error())
		return
	}
	s.MustExec("CREATE TABLE t (pk int primary key, j json)")
	r := e.Rng.Fork()
	for i := 0; i < n; i++ {
		doc := genDoc(r)
		text := canon(doc)
		if res := s.Exec(fmt.Sprintf("INSERT INTO t VALUES (%d, %s)", i, sqlQuote(text))); res.Err != nil {
			e.Rep.Hit("sql:insert-error")
			continue
		}
		for j := 0; j < 4; j++ {
			legs := genPath(r, doc)
			val := canon(genVal(r, 2))
			fn := hx.Pick(r, []string{"JSON_SET", "JSON_INSERT", "JSON_REPLACE", "JSON_REMOVE", "JSON_ARRAY_APPEND", "JSON_EXTRACT"})
			args := sqlQuote(pathText(legs))
			if fn != "JSON_REMOVE" && fn != "JSON_EXTRACT" {
				args += ", CAST(" + sqlQuote(val) + " AS JSON)"
			}
			a := s.Exec(fmt.Sprintf("SELECT %s(j, %s) FROM t WHERE pk = %d", fn, args, i))
			b := s.Exec(fmt.Sprintf("SELECT %s(CAST(%s AS JSON), %s)", fn, sqlQuote(text), args))
			ra, rb := render(a), render(b)
			e.Rep.Count(fmt.Sprintf("sql|%s|%s|%s|%s", text, fn, pathText(legs), val), true)
			e.Rep.Hit("sql:" + fn)
			if ra != rb {
				kc := kase{Kind: "ops", Doc: text, Ops: []opCase{{Op: sqlOp(fn), Legs: legs, Val: val}}}
				what := fmt.Sprintf("%s(%s) on the stored column = %.160s ; on the literal = %.160s (document %d bytes)", fn, pathText(legs), ra, rb, len(text))
				oc := kc.Ops[0]
				if key := classifySQL(doc, oc, ra, rb); key != "" {
					e.Rep.Hit("known:" + key)
					e.Rep.Known(key, what, kc)
				} else {
					e.Rep.Violate("sql-stored-vs-literal:"+shape(oc), what, kc)
				}
			}
		}
	}
}

func sqlOp(fn string) string {
	switch fn {
	case "JSON_SET":
		return "set"
	case "JSON_INSERT":
		return "insert"
	case "JSON_REPLACE":
		return "replace"
	case "JSON_REMOVE":
		return "remove"
	case "JSON_ARRAY_APPEND":
		return "aappend"
	}
	return "lookup"
}

func render(r *sqleng.Result) string {
	if r.Err != nil {
		return "err"
	}
	if len(r.Rows) != 1 || len(r.Rows[0]) != 1 {
		return fmt.Sprintf("rows=%d", len(r.Rows))
	}
	v := r.Rows[0][0]
	if v == "NULL" {
		return v
	}
	return canonText(v)
}

// ---------------------------------------------------------------- main

func main() {
	e := hx.Init("jsondoc", "C17")
	defer e.Finish()
	e.Rep.Rule = "documents: nested objects/arrays over a key pool with shared prefixes, keys needing quotes/escapes, unicode, numbers of several forms; half of them padded to 0.8–7 KB (2+ chunks); paths walk an existing path and perturb the end (missing key, index at/after the end, last, last-N, index into non-array, missing parent); each (doc, op, path, value) is run on IndexedJsonDocument, on go-mysql-server JSONDocument and on both halves of the model; merge triples = base + two independently edited copies through merge.MergeJSON; SQL level = the JSON_* functions on a stored column vs on the literal. nontrivial = changed / error / found; distinct by full case text"
	m := e.MustModel()
	defer m.Close()
	x := &runner{e: e, m: m, ns: tree.NewTestNodeStore(), ctx: sql.NewEmptyContext()}
	run := func(k kase) {
		switch k.Kind {
		case "ops":
			x.runOps(k)
		case "merge":
			x.runMerge(k)
		}
	}
	if e.Replay != "" {
		rf, err := hx.LoadReplay(e.Replay)
		if err != nil {
			panic(err)
		}
		var k kase
		json.Unmarshal(rf.Case, &k)
		run(k)
		return
	}
	for _, raw := range e.CorpusCases() {
		var k kase
		if json.Unmarshal(raw, &k) == nil {
			run(k)
		}
	}
	for _, w := range witnesses {
		run(w)
	}
	r := e.Rng.Fork()
	nDocs := e.N(700, 12000)
	ops := []string{"lookup", "set", "insert", "replace", "remove", "aappend", "ainsert", "set", "insert", "remove"}
	for i := 0; i < nDocs; i++ {
		doc := genDoc(r)
		k := kase{Kind: "ops", Doc: canon(doc)}
		for j := 0; j < 6; j++ {
			oc := opCase{Op: hx.Pick(r, ops), Legs: genPath(r, doc)}
			if oc.Op != "lookup" && oc.Op != "remove" {
				oc.Val = canon(genVal(r, 2))
			}
			k.Ops = append(k.Ops, oc)
		}
		run(k)
	}
	nMerge := e.N(500, 8000)
	for i := 0; i < nMerge; i++ {
		var base any = map[string]any{}
		if r.Chance(9, 10) {
			m := map[string]any{}
			for j := r.Intn(7); j > 0; j-- {
				m[genKey(r)] = genVal(r, 3)
			}
			base = m
		} else {
			base = genDoc(r)
		}
		left := genEdit(r, base, r.Intn(4))
		right := genEdit(r, base, r.Intn(4))
		if r.Chance(1, 6) { // the same edit on both sides
			right = left
		}
		run(kase{Kind: "merge", Base: canon(base), Left: canon(left), Right: canon(right), LeftIndexed: r.Bool()})
	}
	x.runSQL(e.N(25, 300))
}
