package main

import "strings"

// Classification of stored-vs-in-memory differences that are recorded findings (design/C17.md).
// The class is decided from the *shape* of (document, path) only — what the walk along the path
// meets — never from the two outcomes; everything not classified here is reported as a violation.
// The exact correspondence with the Lean model stays in force inside every class except the
// escape-handling one.

const (
	kLastMinusN   = "path-last-minus-n"            // '$[last-N]' is an error on a stored document, evaluated in memory
	kKeyEscape    = "key-escape-handling"          // keys needing escapes other than \" (control chars, backslash, empty key)
	kLookupQuoted = "lookup-quoted-key-jsonpath"   // in-memory Lookup hands quoted keys to the jsonpath library
	kIdxNonArray  = "index-on-non-array"           // MySQL's "treat a non-array as a one-element array" rules
	kMissingPar   = "missing-parent-autovivify"    // in-memory creates "k":[null,v] below a missing key; stored does nothing / errors
	kIdxOorMore   = "index-out-of-range-then-more" // in-memory appends v and ignores the rest of the path
	kIdx0Empty    = "index0-on-empty-array"        // Set '$..x[0]' where x is [] : in-memory appends, stored does nothing (or panics / corrupts its re-scan)
	kKeyOnArray   = "key-leg-on-non-object"        // a key leg meets an array or scalar: location keys compare bytes only, '$.0' hits array cell 48
	kMergeErr     = "merge-internal-error"         // MergeJSON returns jsonParseError (SetWithKey/RemoveWithKey have no fallback)
	kArrShrink    = "merge-array-shrinks"          // a side removes two or more cells of an array: RemoveWithKey is applied by ascending index, the later indexes have shifted
	kDiffOrder    = "merge-diff-order-prefix-keys" // sibling keys where one is a prefix of the other: the differ emits in string order, the three-way loop compares encoded keys (0xFF terminator) — a left diff is dropped early and a later conflict in the same array is missed
	kPanic        = "stored-op-panics"             // IndexedJsonDocument panics (index out of range [-1] / "Reached the end of the JSON document")
)

func has(f []string, s string) bool {
	for _, x := range f {
		if x == s {
			return true
		}
	}
	return false
}

func quotedKeyInPath(legs []leg) bool {
	for _, l := range legs {
		if l.K != nil && !wordRe.MatchString(*l.K) {
			return true
		}
	}
	return false
}

func classifyFeatures(f []string, oc opCase) string {
	switch {
	case has(f, "last-minus-n"):
		return kLastMinusN
	case has(f, "odd-doc-key") || has(f, "odd-path-key") || has(f, "empty-path-key"):
		return kKeyEscape
	case oc.Op == "lookup" && quotedKeyInPath(oc.Legs):
		return kLookupQuoted
	case has(f, "index-on-non-array"):
		return kIdxNonArray
	case has(f, "index0-on-empty-array"):
		return kIdx0Empty
	case has(f, "key-on-non-object"):
		return kKeyOnArray
	case has(f, "missing-parent"):
		return kMissingPar
	case has(f, "index-out-of-range-then-more"):
		return kIdxOorMore
	}
	return ""
}

func classify(doc any, oc opCase, impl, gms outcome) string {
	if impl.err && strings.HasPrefix(impl.errMsg, "panic:") {
		return kPanic
	}
	f := features(doc, oc)
	k := classifyFeatures(f, oc)
	if k == kLastMinusN && !impl.err {
		return ""
	}
	return k
}

func classifyMerge(b, l, r any, got, want string) string {
	if strings.HasPrefix(got, "err ") && strings.Contains(got, "invalid JSON") {
		return kMergeErr
	}
	if emptyArrayGrows(b, r) || emptyArrayGrows(b, l) {
		return kIdx0Empty
	}
	if arrayShrinks(b, r) || arrayShrinks(b, l) {
		return kArrShrink
	}
	if prefixSiblings(b) || prefixSiblings(l) || prefixSiblings(r) {
		return kDiffOrder
	}
	if hasOddKeys(b) || hasOddKeys(l) || hasOddKeys(r) {
		return kKeyEscape
	}
	return ""
}

// emptyArrayGrows: somewhere an empty array of the base has elements on the other side
func emptyArrayGrows(b, x any) bool {
	switch bv := b.(type) {
	case []any:
		xv, ok := x.([]any)
		if !ok {
			return false
		}
		if len(bv) == 0 && len(xv) > 0 {
			return true
		}
		for i := range bv {
			if i < len(xv) && emptyArrayGrows(bv[i], xv[i]) {
				return true
			}
		}
	case map[string]any:
		xv, ok := x.(map[string]any)
		if !ok {
			return false
		}
		for k, v := range bv {
			if w, ok := xv[k]; ok && emptyArrayGrows(v, w) {
				return true
			}
		}
	}
	return false
}

// arrayShrinks: somewhere an array of the base is at least two cells shorter on the other side
func arrayShrinks(b, x any) bool {
	switch bv := b.(type) {
	case []any:
		xv, ok := x.([]any)
		if !ok {
			return false
		}
		if len(xv)+2 <= len(bv) {
			return true
		}
		for i := range bv {
			if i < len(xv) && arrayShrinks(bv[i], xv[i]) {
				return true
			}
		}
	case map[string]any:
		xv, ok := x.(map[string]any)
		if !ok {
			return false
		}
		for k, v := range bv {
			if w, ok := xv[k]; ok && arrayShrinks(v, w) {
				return true
			}
		}
	}
	return false
}

// prefixSiblings: some object has two keys one of which is a proper prefix of the other
func prefixSiblings(v any) bool {
	switch x := v.(type) {
	case map[string]any:
		for k := range x {
			for k2 := range x {
				if k != k2 && strings.HasPrefix(k2, k) {
					return true
				}
			}
		}
		for _, w := range x {
			if prefixSiblings(w) {
				return true
			}
		}
	case []any:
		for _, w := range x {
			if prefixSiblings(w) {
				return true
			}
		}
	}
	return false
}

func classifySQL(doc any, oc opCase, stored, literal string) string {
	k := classifyFeatures(features(doc, oc), oc)
	if k == kLastMinusN && !strings.HasPrefix(stored, "err") {
		return ""
	}
	return k
}

func s(x string) *string { return &x }
func n(x int) *int       { return &x }

// one witness per class, replayed through the public API on every run
var witnesses = []kase{
	{Kind: "ops", Doc: `[1,2,3]`, Ops: []opCase{{Op: "set", Legs: []leg{{L: n(1)}}, Val: `9`}}},
	{Kind: "ops", Doc: `{"a":1}`, Ops: []opCase{{Op: "insert", Legs: []leg{{K: s("n\nl")}}, Val: `1`}}},
	{Kind: "ops", Doc: `"x"`, Ops: []opCase{{Op: "set", Legs: []leg{{I: n(1)}}, Val: `9`}}},
	{Kind: "ops", Doc: `{"a":1}`, Ops: []opCase{{Op: "set", Legs: []leg{{K: s("nope")}, {I: n(1)}}, Val: `9`}}},
	{Kind: "ops", Doc: `{"a":[1]}`, Ops: []opCase{{Op: "set", Legs: []leg{{K: s("a")}, {I: n(5)}, {K: s("b")}}, Val: `9`}}},
	{Kind: "ops", Doc: `[]`, Ops: []opCase{{Op: "set", Legs: []leg{{I: n(0)}}, Val: `9`}}},
	{Kind: "ops", Doc: `{"x":[]}`, Ops: []opCase{{Op: "set", Legs: []leg{{K: s("x")}, {I: n(0)}}, Val: `9`}}},
	{Kind: "merge", Base: `{"a":[[],[]]}`, Left: `{"a":[[],[]]}`, Right: `{"a":[[],[1]]}`},
	{Kind: "merge", Base: `{"k":0,"key2":[{"x":0},"s",1]}`, Left: `{"k":0,"key2":[{"x":5},"s",1]}`, Right: `{"k":[1],"key2":[{"x":0},1]}`},
	{Kind: "merge", Base: `{"a":[1,2,3],"b":1}`, Left: `{"a":[1,2,3],"b":2}`, Right: `{"a":[1],"b":1}`},
}
