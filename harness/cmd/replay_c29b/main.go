// replay_c29b: stand-alone replay of known finding C29 `merge-reorder-rawbytes`:
// one-sided column reorder + byte-equal stored tuples => the other side's cell change is lost.
// exit 0 = merged row 1 is (a=2,b=2) or a conflict is recorded; exit 1 = theirs' change silently lost.
package main

import (
	"fmt"
	"os"

	"verif/harness/internal/sqleng"
)

func main() {
	dir, _ := os.MkdirTemp("/var/tmp", "verif-replayc29b-")
	defer os.RemoveAll(dir)
	e, err := sqleng.New(dir, sqleng.Options{})
	if err != nil {
		panic(err)
	}
	defer e.Close()
	s, _ := e.NewSession()
	s.MustExec("create table t (pk int primary key, a int, b int)")
	s.MustExec("insert into t values (1,1,1),(2,5,6)")
	s.MustExec("call dolt_commit('-Am','base')")
	s.MustExec("call dolt_branch('theirs')")
	s.MustExec("alter table t modify column a int after b")
	s.MustExec("update t set a = 2 where pk = 1")
	s.MustExec("call dolt_commit('-Am','ours: reorder, a=2')")
	s.MustExec("call dolt_checkout('theirs')")
	s.MustExec("update t set b = 2 where pk = 1")
	s.MustExec("call dolt_commit('-Am','theirs: b=2')")
	s.MustExec("call dolt_checkout('main')")
	s.MustExec("set @@dolt_allow_commit_conflicts = 1")
	r := s.Exec("call dolt_merge('theirs')")
	fmt.Println("merge:", r.Rows, r.Err)
	row := s.Exec("select pk, a, b from t where pk = 1")
	fmt.Println("row 1 (pk,a,b):", row.Rows, row.Err)
	c := s.Exec("select count(*) from dolt_conflicts_t")
	fmt.Println("conflicts:", c.Rows, c.Err)
	if len(row.Rows) == 1 && row.Rows[0][1] == "2" && row.Rows[0][2] == "2" {
		os.Exit(0)
	}
	if len(c.Rows) == 1 && c.Rows[0][0] != "0" {
		os.Exit(0)
	}
	os.Exit(1)
}
