// branchcontrol: correspondence + property oracle for C38 (branch permissions follow the rule
// table's documented matching).
//
// Real code driven (public API only): branch_control.FoldExpression / ParseExpression / Match,
// Access.Insert / Delete / Match, Namespace.CanCreate, and the only writer of the Namespace slices,
// dtables.BranchNamespaceControlTable.Insert / Delete.
//
// Oracle (independent of the Lean model and of the implementation's NFA/trie): a textbook recursive
// LIKE over runes compared through the column's collation, an own token-level folding, and a brute
// force "longest matching rule(s)" over the plain list of current rules.
package main

import (
	"context"
	"encoding/json"
	"fmt"
	"sort"
	"strings"
	"unicode"

	"github.com/dolthub/go-mysql-server/sql"

	"github.com/dolthub/dolt/go/libraries/doltcore/branch_control"
	"github.com/dolthub/dolt/go/libraries/doltcore/sqle/dtables"

	"verif/harness/internal/hx"
)

var (
	aiSort  = sql.Collation_utf8mb4_0900_ai_ci.Sorter()
	binSort = sql.Collation_utf8mb4_0900_bin.Sorter()
)

// ---------------------------------------------------------------- wire

func runes(s string) string {
	var p []string
	for _, r := range s {
		p = append(p, fmt.Sprint(int(r)))
	}
	return "[" + strings.Join(p, ",") + "]"
}

func fromRunes(s string) string {
	s = strings.Trim(s, "[]")
	if s == "" {
		return ""
	}
	var sb strings.Builder
	for _, t := range strings.Split(s, ",") {
		var n int
		fmt.Sscan(t, &n)
		sb.WriteRune(rune(n))
	}
	return sb.String()
}

func ints32(xs []int32) string {
	p := make([]string, len(xs))
	for i, x := range xs {
		p[i] = fmt.Sprint(x)
	}
	return "[" + strings.Join(p, ",") + "]"
}

func u32s(xs []uint32) string {
	p := make([]string, len(xs))
	for i, x := range xs {
		p[i] = fmt.Sprint(x)
	}
	return "[" + strings.Join(p, ",") + "]"
}

// ---------------------------------------------------------------- oracle: textbook LIKE

type tok struct {
	kind int // 0 literal, 1 single '_', 2 any '%'
	r    rune
}

// tokens of a LIKE pattern with '\' as escape (a trailing lone '\' denotes nothing)
func tokens(p string) []tok {
	var out []tok
	esc := false
	for _, r := range p {
		switch {
		case esc:
			esc = false
			out = append(out, tok{0, r})
		case r == '\\':
			esc = true
		case r == '_':
			out = append(out, tok{1, 0})
		case r == '%':
			out = append(out, tok{2, 0})
		default:
			out = append(out, tok{0, r})
		}
	}
	return out
}

func likeTok(p []tok, s []rune, so func(rune) int32) bool {
	if len(p) == 0 {
		return len(s) == 0
	}
	switch p[0].kind {
	case 2:
		for i := 0; i <= len(s); i++ {
			if likeTok(p[1:], s[i:], so) {
				return true
			}
		}
		return false
	case 1:
		return len(s) > 0 && likeTok(p[1:], s[1:], so)
	default:
		return len(s) > 0 && so(p[0].r) == so(s[0]) && likeTok(p[1:], s[1:], so)
	}
}

func like(p, s string, so func(rune) int32) bool { return likeTok(tokens(p), []rune(s), so) }

// canonical tokens: inside every maximal run of wildcards that contains a '%', all '_' first, then
// one '%' (the smallest pattern with the same meaning).
func canonTokens(p string) []tok {
	ts := tokens(p)
	var out []tok
	for i := 0; i < len(ts); {
		if ts[i].kind == 0 {
			out = append(out, ts[i])
			i++
			continue
		}
		j, nu, anyp := i, 0, false
		for j < len(ts) && ts[j].kind != 0 {
			if ts[j].kind == 1 {
				nu++
			} else {
				anyp = true
			}
			j++
		}
		if anyp {
			for k := 0; k < nu; k++ {
				out = append(out, tok{1, 0})
			}
			out = append(out, tok{2, 0})
		} else {
			out = append(out, ts[i:j]...)
		}
		i = j
	}
	return out
}

// key of a pattern under a collation (primary-key identity of the column)
func canonKey(p string, so func(rune) int32) string {
	var sb strings.Builder
	for _, t := range canonTokens(p) {
		switch t.kind {
		case 1:
			sb.WriteString("_,")
		case 2:
			sb.WriteString("%,")
		default:
			fmt.Fprintf(&sb, "%d,", so(t.r))
		}
	}
	return sb.String()
}

type rule struct {
	D, B, U, H string
	P          uint64
}

func (r rule) key() string {
	return canonKey(r.D, aiSort) + "|" + canonKey(r.B, aiSort) + "|" + canonKey(r.U, binSort) + "|" + canonKey(r.H, aiSort)
}

func (r rule) length() int {
	return 4 + len(canonTokens(r.D)) + len(canonTokens(r.B)) + len(canonTokens(r.U)) + len(canonTokens(r.H))
}

type req struct{ D, B, U, H string }

func closure(p uint64) uint64 {
	const A, W, M, R = 1, 2, 4, 8
	switch {
	case p&A != 0:
		return p | W | M | R
	case p&W != 0:
		return p | M | R
	case p&M != 0:
		return p | R
	}
	return p
}

// brute force over the plain rule list: the matching rules with the longest pattern, OR of their
// permissions, closed under Admin ⊃ Write ⊃ Merge ⊃ Read.
func oracleAccess(rules map[string]rule, q req) string {
	best, perms, any := -1, uint64(0), false
	for _, r := range rules {
		if like(r.D, q.D, aiSort) && like(r.B, q.B, aiSort) && like(r.U, q.U, binSort) && like(r.H, q.H, aiSort) {
			any = true
			l := r.length()
			if l > best {
				best, perms = l, r.P
			} else if l == best {
				perms |= r.P
			}
		}
	}
	return fmt.Sprintf("%v %d", any, closure(perms))
}

// explainedByTrailingAny: does the implementation's answer equal the brute-force answer once some
// non-empty set of "suspect" rules is ignored?  A rule is suspect for a request when its host
// expression ends in '%' and the request host matches the expression without that '%' (the final
// '%' matches the empty string, i.e. the request ends exactly before it) and the other columns match.
func explainedByTrailingAny(rules map[string]rule, q req, got string) bool {
	var suspects []string
	for k, r := range rules {
		ht := canonTokens(r.H)
		if len(ht) == 0 || ht[len(ht)-1].kind != 2 {
			continue
		}
		if like(r.D, q.D, aiSort) && like(r.B, q.B, aiSort) && like(r.U, q.U, binSort) && likeTok(ht[:len(ht)-1], []rune(q.H), aiSort) {
			suspects = append(suspects, k)
		}
	}
	if len(suspects) == 0 || len(suspects) > 10 {
		return false
	}
	sort.Strings(suspects)
	for mask := 1; mask < 1<<len(suspects); mask++ {
		sub := map[string]rule{}
		for k, r := range rules {
			sub[k] = r
		}
		for i, k := range suspects {
			if mask&(1<<i) != 0 {
				delete(sub, k)
			}
		}
		if oracleAccess(sub, q) == got {
			return true
		}
	}
	return false
}

func oracleNamespace(rows []rule, q req) bool {
	var m1 []rule
	for _, r := range rows {
		if like(r.D, q.D, aiSort) {
			m1 = append(m1, r)
		}
	}
	if len(m1) == 0 {
		return true
	}
	var m2 []rule
	longest := -1
	for _, r := range m1 {
		if like(r.B, q.B, aiSort) {
			m2 = append(m2, r)
			if len(r.B) > longest {
				longest = len(r.B)
			}
		}
	}
	if len(m2) == 0 {
		return true
	}
	for _, r := range m2 {
		if len(r.B) == longest && like(r.U, q.U, binSort) && like(r.H, q.H, aiSort) {
			return true
		}
	}
	return false
}

// ---------------------------------------------------------------- generators

var alphabet = []rune{'a', 'A', 'á', '_', '%', '\\', 'b'}
var plain = []rune{'a', 'A', 'á', 'b'}

func genStr(r *hx.Rng, al []rune, maxLen int) string {
	n := r.Intn(maxLen + 1)
	var sb strings.Builder
	for i := 0; i < n; i++ {
		sb.WriteRune(hx.Pick(r, al))
	}
	return sb.String()
}

func genPattern(r *hx.Rng) string {
	switch r.Intn(10) {
	case 0:
		return "%"
	case 1:
		return ""
	case 2:
		return hx.Pick(r, []string{"%_", "_%", "%%", "%_%", "%__", "a%", "%a", "a%a", "\\%", "\\_", "%\\_", "%\\", "a\\", "_", "__", "%a%", "a_b", "a\\_b", "%%_%%a"})
	}
	return genStr(r, alphabet, 4)
}

func genReqStr(r *hx.Rng) string {
	switch r.Intn(12) {
	case 0:
		return ""
	case 1:
		return genStr(r, alphabet, 3)
	}
	return genStr(r, plain, 3)
}

func hasPatternChar(s string) bool { return strings.ContainsAny(s, "_%\\") }

// ---------------------------------------------------------------- cases

type kase struct {
	Kind  string   `json:"kind"` // like | access | namespace
	Col   string   `json:"col,omitempty"`
	Pats  []string `json:"pats,omitempty"`
	Str   string   `json:"str,omitempty"`
	Ops   []op     `json:"ops,omitempty"`
	Reqs  []req    `json:"reqs,omitempty"`
	Final []op     `json:"final,omitempty"`
}

type op struct {
	Del bool   `json:"del,omitempty"`
	D   string `json:"d"`
	B   string `json:"b"`
	U   string `json:"u"`
	H   string `json:"h"`
	P   uint64 `json:"p,omitempty"`
}

type runner struct {
	e *hx.Env
	m *hx.Model
}

func (x *runner) ask(format string, a ...any) string { return x.m.Ask(fmt.Sprintf(format, a...)) }

const keyEmpty = "like-empty-input"
const keyReqPattern = "request-parsed-as-pattern"
const keyTrailingAny = "trailing-any-at-node-end"

// like: FoldExpression, ParseExpression and the flat Match against the textbook LIKE.
func (x *runner) runLike(k kase) {
	e := x.e
	so, coll := aiSort, sql.Collation_utf8mb4_0900_ai_ci
	if k.Col == "bin" {
		so, coll = binSort, sql.Collation_utf8mb4_0900_bin
	}
	var exprs []branch_control.MatchExpression
	var wire []string
	nontrivial := k.Str == ""
	for i, p := range k.Pats {
		folded := hx.Recover(func() string { return branch_control.FoldExpression(p) })
		if mf := fromRunes(x.ask("fold %s", runes(p))); mf != folded {
			e.Rep.Disagree(k, folded, mf, "FoldExpression "+p)
		}
		// oracle on fold: same LIKE meaning on a probe set, idempotent, no unescaped %_ / %% left
		if branch_control.FoldExpression(folded) != folded {
			e.Rep.Violate("fold-not-idempotent", fmt.Sprintf("FoldExpression(%q)=%q folds again to %q", p, folded, branch_control.FoldExpression(folded)), k)
		}
		ft := tokens(folded)
		for j := 0; j+1 < len(ft); j++ {
			if ft[j].kind == 2 && ft[j+1].kind != 0 {
				e.Rep.Violate("fold-leaves-pair", fmt.Sprintf("FoldExpression(%q)=%q still has a wildcard after %%", p, folded), k)
			}
		}
		for _, probe := range probes {
			if like(p, probe, so) != like(folded, probe, so) {
				e.Rep.Violate("fold-changes-meaning", fmt.Sprintf("FoldExpression(%q)=%q differs on %q", p, folded, probe), k)
				break
			}
		}
		if folded != p {
			nontrivial = true
			e.Rep.Hit("fold:changed")
		}
		so32 := branch_control.ParseExpression(folded, coll)
		if mp := x.ask("parse %s %s", k.Col, runes(folded)); mp != ints32(so32) {
			e.Rep.Disagree(k, ints32(so32), mp, "ParseExpression "+folded)
		}
		exprs = append(exprs, branch_control.MatchExpression{CollectionIndex: uint32(i), SortOrders: so32})
		wire = append(wire, runes(folded))
	}
	got := hx.Recover(func() string { return u32s(branch_control.Match(exprs, k.Str, coll)) })
	pw := "-"
	if len(wire) > 0 {
		pw = strings.Join(wire, ";")
	}
	mod := x.ask("mflat %s %s %s", k.Col, pw, runes(k.Str))
	var want, wantQuirk []uint32
	for i, p := range k.Pats {
		if like(p, k.Str, so) {
			want = append(want, uint32(i))
			nontrivial = true
		}
		if like(p, "�", so) {
			wantQuirk = append(wantQuirk, uint32(i))
		}
	}
	e.Rep.Count(fmt.Sprintf("like %s %q %q", k.Col, k.Pats, k.Str), nontrivial)
	e.Rep.Hit("like:" + k.Col)
	e.Rep.Sample(map[string]any{"kind": "like", "pats": k.Pats, "str": k.Str, "impl": got, "model": mod})
	if got != u32s(want) {
		what := fmt.Sprintf("Match(%q, %q, %s) = %s, textbook LIKE says %s", k.Pats, k.Str, k.Col, got, u32s(want))
		if k.Str == "" && got == u32s(wantQuirk) {
			e.Rep.Hit("known:" + keyEmpty)
			e.Rep.Known(keyEmpty, what+" (the empty input is matched as the single rune U+FFFD)", k)
		} else {
			e.Rep.Violate("like-match", what, k)
			return
		}
	}
	if got != mod {
		e.Rep.Disagree(k, got, mod, "Match")
	}
}

var probes = func() []string {
	var out []string
	al := []rune{'a', 'b', '_', '%', '\\'}
	var rec func(cur []rune, n int)
	rec = func(cur []rune, n int) {
		out = append(out, string(cur))
		if n == 0 {
			return
		}
		for _, c := range al {
			rec(append(append([]rune{}, cur...), c), n-1)
		}
	}
	rec(nil, 3)
	return out
}()

func (x *runner) runAccess(k kase) {
	e := x.e
	ctl := branch_control.CreateDefaultController(context.Background())
	acc := ctl.Access
	// start from an empty table (the default controller carries the '%','%','%','%' write row)
	acc.Delete("%", "%", "%", "%")
	x.ask("areset")
	rules := map[string]rule{}
	for _, o := range k.Ops {
		if o.Del {
			hx.Recover(func() string { acc.Delete(o.D, o.B, o.U, o.H); return "" })
			x.ask("adel %s %s %s %s", runes(o.D), runes(o.B), runes(o.U), runes(o.H))
			delete(rules, rule{D: o.D, B: o.B, U: o.U, H: o.H}.key())
		} else {
			hx.Recover(func() string { acc.Insert(o.D, o.B, o.U, o.H, branch_control.Permissions(o.P)); return "" })
			x.ask("ains %s %s %s %s %d", runes(o.D), runes(o.B), runes(o.U), runes(o.H), o.P)
			r := rule{o.D, o.B, o.U, o.H, o.P}
			rules[r.key()] = r
		}
	}
	for _, q := range k.Reqs {
		got := hx.Recover(func() string {
			ok, p := acc.Match(q.D, q.B, q.U, q.H)
			return fmt.Sprintf("%v %d", ok, uint64(p))
		})
		mod := x.ask("amatch %s %s %s %s", runes(q.D), runes(q.B), runes(q.U), runes(q.H))
		want := oracleAccess(rules, q)
		e.Rep.Count(fmt.Sprintf("access %v %v", k.Ops, q), len(rules) > 0 && strings.HasPrefix(want, "true"))
		e.Rep.Hit("access:" + strings.SplitN(got, " ", 2)[0])
		e.Rep.Sample(map[string]any{"kind": "access", "ops": len(k.Ops), "rules": len(rules), "req": q, "impl": got, "model": mod, "oracle": want})
		one := kase{Kind: "access", Ops: k.Ops, Reqs: []req{q}}
		if got != want {
			what := fmt.Sprintf("Access.Match(%q,%q,%q,%q) = %s after %d ops, longest-match over the rule list by LIKE says %s", q.D, q.B, q.U, q.H, got, len(k.Ops), want)
			if explainedByTrailingAny(rules, q, got) {
				e.Rep.Hit("known:" + keyTrailingAny)
				e.Rep.Known(keyTrailingAny, what+" (a rule whose host ends in '%' is not reported when the request ends exactly where the trie has a node boundary before that '%')", one)
			} else if hasPatternChar(q.D) || hasPatternChar(q.B) || hasPatternChar(q.U) || hasPatternChar(q.H) {
				e.Rep.Hit("known:" + keyReqPattern)
				e.Rep.Known(keyReqPattern, what+" (the request strings are parsed as patterns: '_' '%' '\\' in a name are not literal)", one)
			} else {
				e.Rep.Violate("access-match", what, one)
				continue
			}
		}
		if got != mod {
			e.Rep.Disagree(one, got, mod, "Access.Match")
		}
	}
}

func (x *runner) runNamespace(k kase) {
	e := x.e
	ctl := branch_control.CreateDefaultController(context.Background())
	ns := ctl.Namespace
	tbl := dtables.BranchNamespaceControlTable{Namespace: ns}
	ctx := sql.NewEmptyContext()
	x.ask("nreset")
	var rows []rule
	find := func(r rule) int {
		for i, o := range rows {
			if o.key() == r.key() {
				return i
			}
		}
		return -1
	}
	for _, o := range k.Ops {
		row := sql.Row{o.D, o.B, o.U, o.H}
		r := rule{D: o.D, B: o.B, U: o.U, H: o.H}
		if o.Del {
			got := hx.Recover(func() string {
				if err := tbl.Delete(ctx, row); err != nil {
					return "err " + err.Error()
				}
				return "ok"
			})
			mod := x.ask("ndel %s %s %s %s", runes(o.D), runes(o.B), runes(o.U), runes(o.H))
			if got != mod {
				e.Rep.Disagree(k, got, mod, "namespace delete")
			}
			// NB identity of a namespace row is the exact folded+lower-cased strings (GetIndex)
			if i := findExact(rows, r); i >= 0 {
				rows = append(rows[:i], rows[i+1:]...)
			}
		} else {
			got := hx.Recover(func() string {
				if err := tbl.Insert(ctx, row); err != nil {
					if sql.ErrUniqueKeyViolation.Is(err) || strings.Contains(err.Error(), "duplicate") {
						return "err dup"
					}
					return "err " + err.Error()
				}
				return "ok"
			})
			mod := x.ask("nins %s %s %s %s", runes(o.D), runes(o.B), runes(o.U), runes(o.H))
			if got != mod {
				e.Rep.Disagree(k, got, mod, "namespace insert")
			}
			if got == "ok" {
				rows = append(rows, normRule(r))
			}
		}
		_ = find
	}
	for _, q := range k.Reqs {
		got := hx.Recover(func() string { return fmt.Sprint(ns.CanCreate(q.D, q.B, q.U, q.H)) })
		mod := x.ask("ncan %s %s %s %s", runes(q.D), runes(q.B), runes(q.U), runes(q.H))
		want := fmt.Sprint(oracleNamespace(rows, q))
		e.Rep.Count(fmt.Sprintf("ns %v %v", k.Ops, q), len(rows) > 0)
		e.Rep.Hit("namespace:" + got)
		e.Rep.Sample(map[string]any{"kind": "namespace", "rows": len(rows), "req": q, "impl": got, "model": mod, "oracle": want})
		one := kase{Kind: "namespace", Ops: k.Ops, Reqs: []req{q}}
		if got != want {
			what := fmt.Sprintf("Namespace.CanCreate(%q,%q,%q,%q) = %s with %d rows, the documented decision by LIKE says %s", q.D, q.B, q.U, q.H, got, len(rows), want)
			q2 := q
			for _, f := range []*string{&q2.D, &q2.B, &q2.U, &q2.H} {
				if *f == "" {
					*f = "�"
				}
			}
			if q2 != q && got == fmt.Sprint(oracleNamespace(rows, q2)) {
				e.Rep.Hit("known:" + keyEmpty)
				e.Rep.Known(keyEmpty, what+" (an empty input is matched as the single rune U+FFFD)", one)
			} else {
				e.Rep.Violate("namespace-cancreate", what, one)
				continue
			}
		}
		if got != mod {
			e.Rep.Disagree(one, got, mod, "Namespace.CanCreate")
		}
	}
}

// the stored form of a namespace row: the expression text with every wildcard run that contains a
// '%' rewritten to "all its '_' then one '%'", escapes and a trailing lone '\\' kept as written,
// then lower-cased (own item-level implementation of the documented folding).
func renderCanon(p string, lower bool) string {
	type item struct {
		text string
		kind int // 0 other, 1 '_', 2 '%'
	}
	var items []item
	rs := []rune(p)
	for i := 0; i < len(rs); i++ {
		switch {
		case rs[i] == '\\' && i+1 < len(rs):
			items = append(items, item{string(rs[i : i+2]), 0})
			i++
		case rs[i] == '_':
			items = append(items, item{"_", 1})
		case rs[i] == '%':
			items = append(items, item{"%", 2})
		default:
			items = append(items, item{string(rs[i]), 0})
		}
	}
	var sb strings.Builder
	for i := 0; i < len(items); {
		if items[i].kind == 0 {
			sb.WriteString(items[i].text)
			i++
			continue
		}
		j, nu, anyp := i, 0, false
		for j < len(items) && items[j].kind != 0 {
			if items[j].kind == 1 {
				nu++
			} else {
				anyp = true
			}
			j++
		}
		sb.WriteString(strings.Repeat("_", nu))
		if anyp {
			sb.WriteString("%")
		}
		i = j
	}
	if lower {
		return strings.ToLower(sb.String())
	}
	return sb.String()
}

func normRule(r rule) rule {
	return rule{D: renderCanon(r.D, true), B: renderCanon(r.B, true), U: renderCanon(r.U, false), H: renderCanon(r.H, true), P: r.P}
}

func findExact(rows []rule, r rule) int {
	n := normRule(r)
	for i, o := range rows {
		if o.D == n.D && o.B == n.B && o.U == n.U && o.H == n.H {
			return i
		}
	}
	return -1
}

// ---------------------------------------------------------------- scenario generation

func genRule(r *hx.Rng, few bool) op {
	p := func() string {
		if few && r.Chance(2, 3) {
			return hx.Pick(r, []string{"%", "a", "a%", "_", "ab", "A", "á%", "a_", "%b", ""})
		}
		return genPattern(r)
	}
	return op{D: p(), B: p(), U: p(), H: p(), P: uint64(hx.Pick(r, []int{1, 2, 4, 8, 0, 3, 6}))}
}

// deriveRule: a sibling of an existing rule — one column extended, shortened or changed in its last
// character (prefix rules, rules diverging inside a column, trailing '%' next to a longer literal):
// the shapes that make the trie split, share and merge nodes.
func deriveRule(r *hx.Rng, o op) op {
	n := o
	col := hx.Pick(r, []*string{&n.D, &n.B, &n.U, &n.H, &n.H, &n.H})
	rs := []rune(*col)
	switch r.Intn(6) {
	case 0:
		rs = append(rs, '%')
	case 1:
		rs = append(rs, hx.Pick(r, plain))
	case 2:
		if len(rs) > 0 {
			rs = rs[:len(rs)-1]
		}
	case 3:
		if len(rs) > 0 {
			rs[len(rs)-1] = hx.Pick(r, alphabet)
		} else {
			rs = append(rs, '_')
		}
	case 4:
		rs = append(rs, '_')
	default:
		rs = append([]rune{hx.Pick(r, alphabet)}, rs...)
	}
	*col = string(rs)
	n.P = uint64(hx.Pick(r, []int{1, 2, 4, 8, 0, 3, 6}))
	return n
}

func permutations(n int) [][]int {
	if n == 0 {
		return [][]int{{}}
	}
	var out [][]int
	for _, p := range permutations(n - 1) {
		for i := 0; i <= len(p); i++ {
			q := append(append(append([]int{}, p[:i]...), n-1), p[i:]...)
			out = append(out, q)
		}
	}
	return out
}

func genReqs(r *hx.Rng, ops []op, n int) []req {
	var out []req
	for i := 0; i < n; i++ {
		q := req{genReqStr(r), genReqStr(r), genReqStr(r), genReqStr(r)}
		// bias: derive the request from a rule so that something matches
		if len(ops) > 0 && r.Chance(2, 3) {
			o := hx.Pick(r, ops)
			inst := func(p string) string {
				var sb strings.Builder
				for _, t := range tokens(p) {
					switch t.kind {
					case 0:
						c := t.r
						if r.Chance(1, 4) {
							c = hx.Pick(r, []rune{unicode.ToUpper(c), 'á', c})
						}
						sb.WriteRune(c)
					case 1:
						sb.WriteRune(hx.Pick(r, plain))
					default:
						sb.WriteString(genStr(r, plain, 2))
					}
				}
				return sb.String()
			}
			q = req{inst(o.D), inst(o.B), inst(o.U), inst(o.H)}
			if r.Chance(1, 6) {
				*hx.Pick(r, []*string{&q.D, &q.B, &q.U, &q.H}) = genReqStr(r)
			}
		}
		out = append(out, q)
	}
	return out
}

func main() {
	e := hx.Init("branchcontrol", "C38")
	defer e.Finish()
	e.Rep.Rule = "patterns/strings over {a,A,á,_,%,\\,b} incl. empty; like: ≤4 patterns × 1 string through FoldExpression/ParseExpression/Match (ai_ci and bin); access/namespace: ≤6 rules, every insert order (n≤4) or sampled orders, deletes in between, re-inserts, then ≤8 requests derived from the rules; nontrivial = some pattern folds/matches (like) or the table is non-empty and something matches (access) ; distinct by full case text"
	m := e.MustModel()
	defer m.Close()
	x := &runner{e, m}
	// the collation sort orders and unicode.ToLower of every rune used, passed on the wire
	for _, r := range append(append([]rune{}, alphabet...), 'Á', 0xFFFD, 'B') {
		if resp := x.ask("tbl %d %d %d %d", r, aiSort(r), binSort(r), unicode.ToLower(r)); resp != "ok" {
			panic("model tbl: " + resp)
		}
	}
	run := func(k kase) {
		switch k.Kind {
		case "like":
			x.runLike(k)
		case "access":
			x.runAccess(k)
		case "namespace":
			x.runNamespace(k)
		}
	}
	if e.Replay != "" {
		rf, err := hx.LoadReplay(e.Replay)
		if err != nil {
			panic(err)
		}
		var k kase
		json.Unmarshal(rf.Case, &k)
		run(k)
		return
	}
	for _, raw := range e.CorpusCases() {
		var k kase
		if json.Unmarshal(raw, &k) == nil {
			run(k)
		}
	}
	// witnesses of the two known deviations, replayed through the public API on every run
	run(kase{Kind: "like", Col: "bin", Pats: []string{"_", "", "�"}, Str: ""})
	run(kase{Kind: "namespace", Ops: []op{{D: "a", B: "a", U: "_", H: "a"}}, Reqs: []req{{"a", "a", "", "a"}}})
	run(kase{Kind: "access", Ops: []op{{D: "a", B: "a\\_b", U: "a", H: "a", P: 1}}, Reqs: []req{{"a", "a_b", "a", "a"}}})

	run(kase{Kind: "access", Ops: []op{{D: "%", B: "%", U: "%", H: "%", P: 2}, {D: "%", B: "%", U: "%", H: "ab", P: 1}}, Reqs: []req{{"a", "a", "a", ""}}})
	run(kase{Kind: "access", Ops: []op{{D: "a", B: "a", U: "a", H: "b%", P: 1}, {D: "a", B: "a", U: "a", H: "ba", P: 2}}, Reqs: []req{{"a", "a", "a", "b"}}})

	// NB hx.NewRng(seed) puts all seeds on one splitmix orbit, offset by `seed` draws, so consecutive
	// seeds replay almost the same stream; Fork() jumps to an unrelated offset.
	r := e.Rng.Fork()
	nLike := e.N(6000, 120000)
	for i := 0; i < nLike; i++ {
		k := kase{Kind: "like", Col: hx.Pick(r, []string{"ai", "ai", "bin"})}
		np := r.Range(1, 4)
		for j := 0; j < np; j++ {
			k.Pats = append(k.Pats, genPattern(r))
		}
		k.Str = genReqStr(r)
		if r.Chance(1, 2) && len(k.Pats) > 0 { // instantiate a pattern so that it (nearly) matches
			k.Str = genReqs(r, []op{{D: k.Pats[0]}}, 1)[0].D
		}
		run(k)
	}
	nScen := e.N(220, 3500)
	for i := 0; i < nScen; i++ {
		kind := hx.Pick(r, []string{"access", "access", "namespace"})
		n := r.Range(1, 6)
		var rs []op
		for j := 0; j < n; j++ {
			if j > 0 && r.Chance(3, 5) {
				rs = append(rs, deriveRule(r, hx.Pick(r, rs)))
			} else {
				rs = append(rs, genRule(r, true))
			}
		}
		var orders [][]int
		if n <= 3 {
			orders = permutations(n)
		} else {
			for j := 0; j < 6; j++ {
				p := make([]int, n)
				for a := range p {
					p[a] = a
				}
				for a := n - 1; a > 0; a-- {
					b := r.Intn(a + 1)
					p[a], p[b] = p[b], p[a]
				}
				orders = append(orders, p)
			}
		}
		// a fixed set of deletions / re-insertions, interleaved differently per order
		dels := map[int]bool{}
		for j := 0; j < n; j++ {
			if r.Chance(1, 3) {
				dels[j] = true
			}
		}
		reqs := genReqs(r, rs, r.Range(3, 8))
		for _, ord := range orders {
			var ops []op
			var pending []int
			for _, j := range ord {
				ops = append(ops, rs[j])
				if dels[j] {
					pending = append(pending, j)
				}
				if len(pending) > 0 && r.Chance(1, 2) {
					a := r.Intn(len(pending))
					d := rs[pending[a]]
					d.Del = true
					ops = append(ops, d)
					pending = append(pending[:a], pending[a+1:]...)
				}
				if r.Chance(1, 8) { // delete of something that is not there / re-insert with other perms
					g := genRule(r, true)
					g.Del = r.Bool()
					ops = append(ops, g)
				}
			}
			sort.Ints(pending)
			for _, j := range pending {
				d := rs[j]
				d.Del = true
				ops = append(ops, d)
			}
			run(kase{Kind: kind, Ops: ops, Reqs: reqs})
		}
	}
}
