// replay_c29: stand-alone replay of the C29 defect fixed by the "fix:" commit in /repo
// (processBaseColumn took the left column's type from the right schema).
// exit 0 = delete/modify conflict recorded (correct); exit 1 = merge failed internally (defect).
package main

import (
	"fmt"
	"os"

	"verif/harness/internal/sqleng"
)

func main() {
	dir, _ := os.MkdirTemp("/var/tmp", "verif-replayc29-")
	defer os.RemoveAll(dir)
	e, err := sqleng.New(dir, sqleng.Options{})
	if err != nil {
		panic(err)
	}
	defer e.Close()
	s, _ := e.NewSession()
	s.MustExec("create table t (pk int primary key, a int, b varchar(20))")
	s.MustExec("insert into t values (1, 10, 'x'), (2, 20, 'y')")
	s.MustExec("call dolt_commit('-Am','base')")
	s.MustExec("call dolt_branch('theirs')")
	s.MustExec("alter table t drop column a")
	s.MustExec("update t set b = 'ours' where pk = 1")
	s.MustExec("call dolt_commit('-Am','ours: drop a, update b')")
	s.MustExec("call dolt_checkout('theirs')")
	s.MustExec("delete from t where pk = 1")
	s.MustExec("call dolt_commit('-Am','theirs: delete row 1')")
	s.MustExec("call dolt_checkout('main')")
	s.MustExec("set @@dolt_allow_commit_conflicts = 1")
	r := s.Exec("call dolt_merge('theirs')")
	fmt.Println("merge:", r.Rows, r.Err)
	c := s.Exec("select count(*) from dolt_conflicts_t")
	fmt.Println("conflicts:", c.Rows, c.Err)
	if r.Err != nil {
		os.Exit(1)
	}
}
