package main

import (
	"encoding/json"
	"fmt"
	"sort"
	"strconv"
	"strings"

	"verif/harness/internal/hx"
	"verif/harness/internal/rmkit"
)

// ---------------------------------------------------------------- keyless tables (C27)

type kRow struct {
	Vals []rmkit.Val
	Card int
}

type kTable struct {
	Cols []rmkit.Col
	Rows []kRow // distinct Vals
}

func valLess(a, b rmkit.Val) bool { // mirrors Keyless.valLe (strict part)
	switch {
	case a.Null:
		return !b.Null
	case b.Null:
		return false
	case !a.Str && !b.Str:
		return a.I < b.I
	case !a.Str && b.Str:
		return true
	case a.Str && !b.Str:
		return false
	}
	return a.S < b.S
}

func rowLess(a, b []rmkit.Val) bool {
	for i := 0; i < len(a) && i < len(b); i++ {
		if a[i] != b[i] {
			return valLess(a[i], b[i])
		}
	}
	return len(a) < len(b)
}

func (t *kTable) sortRows() {
	sort.Slice(t.Rows, func(i, j int) bool { return rowLess(t.Rows[i].Vals, t.Rows[j].Vals) })
}

func (t *kTable) wire() string {
	if len(t.Rows) == 0 {
		return "-"
	}
	t.sortRows()
	p := make([]string, len(t.Rows))
	for i, r := range t.Rows {
		p[i] = fmt.Sprintf("%d*%s", r.Card, rmkit.WireVals(r.Vals))
	}
	return strings.Join(p, ";")
}

func (t *kTable) card(vs []rmkit.Val) int {
	k := rmkit.WireVals(vs)
	for _, r := range t.Rows {
		if rmkit.WireVals(r.Vals) == k {
			return r.Card
		}
	}
	return 0
}

func (t *kTable) total() int {
	n := 0
	for _, r := range t.Rows {
		n += r.Card
	}
	return n
}

func colNames(cols []rmkit.Col) string {
	p := make([]string, len(cols))
	for i, c := range cols {
		p[i] = c.Name()
	}
	return strings.Join(p, ", ")
}

func parseCell(s string, ty byte) rmkit.Val {
	if s == "NULL" {
		return rmkit.Null
	}
	if ty == 's' {
		u, _ := strconv.Unquote(s)
		return rmkit.StrV(u)
	}
	i, _ := strconv.ParseInt(s, 10, 64)
	return rmkit.IntV(i)
}

// readKeyless reads the multiset two ways: GROUP BY all columns with COUNT(*), and a plain scan;
// the property says both reflect the multiplicities, so they must agree (oracle).
func (r *runner) readKeyless(tbl string, cols []rmkit.Col, sc any) (*kTable, error) {
	s := r.s
	names := colNames(cols)
	g := s.Exec(fmt.Sprintf("select %s, count(*) from %s group by %s", names, tbl, names))
	if g.Err != nil {
		return nil, g.Err
	}
	t := &kTable{Cols: cols}
	for _, row := range g.Rows {
		vs := make([]rmkit.Val, len(cols))
		for i, c := range cols {
			vs[i] = parseCell(row[i], c.Ty)
		}
		n, _ := strconv.Atoi(row[len(cols)])
		t.Rows = append(t.Rows, kRow{vs, n})
	}
	t.sortRows()
	sc1 := s.Exec(fmt.Sprintf("select %s from %s", names, tbl))
	if sc1.Err != nil {
		return nil, sc1.Err
	}
	scan := map[string]int{}
	for _, row := range sc1.Rows {
		vs := make([]rmkit.Val, len(cols))
		for i, c := range cols {
			vs[i] = parseCell(row[i], c.Ty)
		}
		scan[rmkit.WireVals(vs)]++
	}
	cnt := s.Exec("select count(*) from " + tbl)
	total := -1
	if cnt.Err == nil && len(cnt.Rows) == 1 {
		total, _ = strconv.Atoi(cnt.Rows[0][0])
	}
	bad := total != t.total() || len(scan) != len(t.Rows)
	for _, kr := range t.Rows {
		if scan[rmkit.WireVals(kr.Vals)] != kr.Card {
			bad = true
		}
	}
	if bad {
		r.e.Rep.Violate("C27-scan-vs-count", fmt.Sprintf("scan %v, group-by %s, count(*) %d disagree", scan, t.wire(), total), sc)
	}
	return t, nil
}

type kOp struct {
	Kind string      `json:"k"` // ins del upd
	Row  []rmkit.Val `json:"row,omitempty"`
	Lim  int         `json:"lim,omitempty"`
	Col  int         `json:"col"` // index
	V    rmkit.Val   `json:"v"`
	SCol int         `json:"scol"`
	SV   rmkit.Val   `json:"sv"`
}

type kScenario struct {
	Cols    []rmkit.Col   `json:"cols"`
	Base    [][]rmkit.Val `json:"base"`
	Ours    []kOp         `json:"ours"`
	Theirs  []kOp         `json:"theirs"`
	Index   bool          `json:"index"`
	Resolve string        `json:"resolve"`
}

func (o kOp) sql(tbl string, cols []rmkit.Col) string {
	lim := ""
	if o.Lim > 0 {
		lim = fmt.Sprintf(" limit %d", o.Lim)
	}
	switch o.Kind {
	case "ins":
		vals := make([]string, len(o.Row))
		for i, v := range o.Row {
			vals[i] = v.SQL()
		}
		return fmt.Sprintf("insert into %s (%s) values (%s)", tbl, colNames(cols), strings.Join(vals, ", "))
	case "del":
		return fmt.Sprintf("delete from %s where %s <=> %s%s", tbl, cols[o.Col].Name(), o.V.SQL(), lim)
	case "upd":
		return fmt.Sprintf("update %s set %s = %s where %s <=> %s%s", tbl, cols[o.SCol].Name(), o.SV.SQL(), cols[o.Col].Name(), o.V.SQL(), lim)
	}
	panic("bad kop")
}

func (o kOp) wire() string {
	switch o.Kind {
	case "ins":
		return "I" + rmkit.WireVals(o.Row)
	case "del":
		return fmt.Sprintf("D%d@%d=%s", o.Lim, o.Col, o.V.Wire())
	}
	return fmt.Sprintf("U%d@%d=%s@%d=%s", o.Lim, o.Col, o.V.Wire(), o.SCol, o.SV.Wire())
}

var kInts = []int64{0, 1, 2}
var kStrs = []string{"x", "y"}

func kVal(r *hx.Rng, ty byte) rmkit.Val {
	if r.Chance(1, 8) {
		return rmkit.Null
	}
	if ty == 's' {
		return rmkit.StrV(hx.Pick(r, kStrs))
	}
	return rmkit.IntV(hx.Pick(r, kInts))
}

func kGenOps(r *hx.Rng, cols []rmkit.Col, n int) []kOp {
	var ops []kOp
	for i := 0; i < n; i++ {
		switch x := r.Intn(10); {
		case x < 4:
			row := make([]rmkit.Val, len(cols))
			for j, c := range cols {
				row[j] = kVal(r, c.Ty)
			}
			ops = append(ops, kOp{Kind: "ins", Row: row})
		case x < 7:
			c := r.Intn(len(cols))
			ops = append(ops, kOp{Kind: "del", Lim: hx.Pick(r, []int{0, 1, 1, 2, 3}), Col: c, V: kVal(r, cols[c].Ty)})
		default:
			c := r.Intn(len(cols))
			sc := r.Intn(len(cols))
			ops = append(ops, kOp{Kind: "upd", Lim: hx.Pick(r, []int{0, 1, 1, 2, 3}), Col: c, V: kVal(r, cols[c].Ty), SCol: sc, SV: kVal(r, cols[sc].Ty)})
		}
	}
	return ops
}

func kGen(r *hx.Rng) *kScenario {
	sc := &kScenario{Resolve: hx.Pick(r, []string{"none", "ours", "theirs"}), Index: r.Chance(1, 3)}
	nc := r.Range(1, 3)
	for i := 1; i <= nc; i++ {
		sc.Cols = append(sc.Cols, rmkit.Col{ID: i, Ty: hx.Pick(r, []byte{'i', 'i', 's'})})
	}
	nb := r.Range(0, 8)
	for i := 0; i < nb; i++ {
		row := make([]rmkit.Val, nc)
		for j, c := range sc.Cols {
			row[j] = kVal(r, c.Ty)
		}
		sc.Base = append(sc.Base, row)
	}
	sc.Ours = kGenOps(r, sc.Cols, r.Range(0, 5))
	sc.Theirs = kGenOps(r, sc.Cols, r.Range(0, 5))
	return sc
}

// applyDML runs one statement, compares with the model step and checks the multiset law.
func (r *runner) applyDML(tbl string, cols []rmkit.Col, before *kTable, op kOp, sc any) (*kTable, error) {
	q := op.sql(tbl, cols)
	res := r.s.Exec(q)
	if res.Err != nil {
		return nil, fmt.Errorf("%s: %v", q, res.Err)
	}
	affected := -1
	if len(res.Rows) == 1 && strings.HasPrefix(res.Rows[0][0], "OK(") {
		fmt.Sscanf(res.Rows[0][0], "OK(%d)", &affected)
	}
	after, err := r.readKeyless(tbl, cols, sc)
	if err != nil {
		return nil, err
	}
	// ---- oracle from the property text: exactly the matched copies are affected
	matchesW := func(vs []rmkit.Val) bool { return vs[op.Col] == op.V }
	switch op.Kind {
	case "ins":
		for _, kr := range append(append([]kRow{}, before.Rows...), kRow{op.Row, 0}) {
			want := before.card(kr.Vals)
			if rmkit.WireVals(kr.Vals) == rmkit.WireVals(op.Row) {
				want++
			}
			if after.card(kr.Vals) != want {
				r.e.Rep.Violate("C27-insert", fmt.Sprintf("%s: row %v has %d copies, want %d", q, kr.Vals, after.card(kr.Vals), want), sc)
			}
		}
		if after.total() != before.total()+1 {
			r.e.Rep.Violate("C27-insert", fmt.Sprintf("%s: total %d -> %d", q, before.total(), after.total()), sc)
		}
	case "del":
		matched := 0
		for _, kr := range before.Rows {
			if matchesW(kr.Vals) {
				matched += kr.Card
			}
		}
		want := matched
		if op.Lim > 0 && op.Lim < matched {
			want = op.Lim
		}
		removed := 0
		for _, kr := range before.Rows {
			d := kr.Card - after.card(kr.Vals)
			if d < 0 || (d > 0 && !matchesW(kr.Vals)) {
				r.e.Rep.Violate("C27-delete-touches-unmatched", fmt.Sprintf("%s: row %v went %d -> %d", q, kr.Vals, kr.Card, after.card(kr.Vals)), sc)
			}
			removed += d
		}
		if removed != want || after.total() != before.total()-want || len(after.Rows) > len(before.Rows) {
			r.e.Rep.Violate("C27-delete-limit", fmt.Sprintf("%s: removed %d copies, want exactly %d (matched %d)", q, removed, want, matched), sc)
		}
		if affected != want {
			r.e.Rep.Violate("C27-delete-affected", fmt.Sprintf("%s: reports %d rows affected, want %d", q, affected, want), sc)
		}
		r.e.Rep.Hit(fmt.Sprintf("del-cut:%v", op.Lim > 0 && op.Lim < matched))
	case "upd":
		newRow := func(vs []rmkit.Val) []rmkit.Val {
			n := append([]rmkit.Val{}, vs...)
			n[op.SCol] = op.SV
			return n
		}
		changing, unchanged := 0, 0
		for _, kr := range before.Rows {
			if matchesW(kr.Vals) {
				if rmkit.WireVals(newRow(kr.Vals)) != rmkit.WireVals(kr.Vals) {
					changing += kr.Card
				} else {
					unchanged += kr.Card
				}
			}
		}
		matched := changing + unchanged
		if after.total() != before.total() {
			r.e.Rep.Violate("C27-update-total", fmt.Sprintf("%s: total %d -> %d", q, before.total(), after.total()), sc)
		}
		// LIMIT counts matched rows (changed or not); exactly the chosen changing copies move to their image
		lo, hi := changing, changing
		if op.Lim > 0 && op.Lim < matched {
			hi = op.Lim
			if hi > changing {
				hi = changing
			}
			lo = op.Lim - unchanged
			if lo < 0 {
				lo = 0
			}
		}
		selfFeeding := false
		for _, kr := range before.Rows {
			if matchesW(kr.Vals) && matchesW(newRow(kr.Vals)) && rmkit.WireVals(newRow(kr.Vals)) != rmkit.WireVals(kr.Vals) {
				selfFeeding = true
			}
		}
		for _, kr := range before.Rows {
			if d := kr.Card - after.card(kr.Vals); d > 0 && !matchesW(kr.Vals) {
				r.e.Rep.Violate("C27-update-touches-unmatched", fmt.Sprintf("%s: row %v went %d -> %d", q, kr.Vals, kr.Card, after.card(kr.Vals)), sc)
			}
		}
		if !selfFeeding {
			moved := 0
			gain := map[string]int{}
			for _, kr := range before.Rows {
				if matchesW(kr.Vals) && rmkit.WireVals(newRow(kr.Vals)) != rmkit.WireVals(kr.Vals) {
					d := kr.Card - after.card(kr.Vals)
					moved += d
					gain[rmkit.WireVals(newRow(kr.Vals))] += d
				}
			}
			if moved < lo || moved > hi {
				r.e.Rep.Violate("C27-update-limit", fmt.Sprintf("%s: %d copies changed, want between %d and %d (matched %d of which %d unchanged by SET)", q, moved, lo, hi, matched, unchanged), sc)
			}
			for _, kr := range after.Rows {
				k := rmkit.WireVals(kr.Vals)
				if matchesW(kr.Vals) && rmkit.WireVals(newRow(kr.Vals)) != k {
					continue // a source row, accounted above
				}
				if kr.Card != before.card(kr.Vals)+gain[k] {
					r.e.Rep.Violate("C27-update-image", fmt.Sprintf("%s: row %v has %d copies, want %d", q, kr.Vals, kr.Card, before.card(kr.Vals)+gain[k]), sc)
				}
			}
			if affected != moved {
				r.e.Rep.Violate("C27-update-affected", fmt.Sprintf("%s: reports %d rows affected, %d copies changed", q, affected, moved), sc)
			}
		} else {
			r.e.Rep.Hit("upd-self-feeding")
		}
		r.e.Rep.Hit(fmt.Sprintf("upd-cut:%v", op.Lim > 0 && op.Lim < matched))
	}
	// ---- model step
	line := fmt.Sprintf("kops %s %s", before.wire(), op.wire())
	f := rmkit.Fields(r.m.Ask(line))
	aff := strings.Trim(f["affected"], "[]")
	parts := strings.Split(aff, ",")
	if f["_"] != "ok" || len(parts) != 2 {
		r.e.Rep.Disagree(sc, "ok", fmt.Sprint(f), line)
	} else {
		det := parts[1] == "1"
		selfFeed := op.Kind == "upd" && op.SCol == op.Col
		switch {
		case (op.Kind == "del" || (op.Kind == "upd" && det)) && parts[0] != strconv.Itoa(affected):
			r.e.Rep.Disagree(sc, fmt.Sprintf("affected=%d", affected), "affected="+parts[0], line)
		case det && !(selfFeed && op.Lim > 0) && f["rows"] != after.wire():
			r.e.Rep.Disagree(sc, "rows="+after.wire(), "rows="+f["rows"], line)
		default:
			r.e.Rep.TracesValidated++
		}
		r.e.Rep.Hit(fmt.Sprintf("dml-det:%v", det))
	}
	r.e.Rep.Count(line, len(before.Rows) > 0)
	r.e.Rep.Hit("kop:" + op.Kind)
	return after, nil
}

func (r *runner) runKeylessScenario(sc *kScenario) {
	r.n++
	if r.eng == nil || r.n%40 == 0 {
		r.reopen()
	}
	s := r.s
	n := r.n
	tbl := fmt.Sprintf("k%d", n)
	s.MustExec("call dolt_checkout('main')")
	s.MustExec(rmkit.CreateSQL(tbl, sc.Cols, true))
	if sc.Index {
		s.MustExec(fmt.Sprintf("create index i%d on %s (%s)", n, tbl, sc.Cols[0].Name()))
		r.e.Rep.Hit("with-index")
	}
	cur := &kTable{Cols: sc.Cols}
	var err error
	for _, row := range sc.Base {
		if cur, err = r.applyDML(tbl, sc.Cols, cur, kOp{Kind: "ins", Row: row}, sc); err != nil {
			r.e.Rep.Note("keyless setup: " + err.Error())
			r.reopen()
			return
		}
	}
	s.MustExec("call dolt_commit('--allow-empty', '-Am', 'base')")
	base := cur
	side := func(name string, ops []kOp) *kTable {
		s.MustExec(fmt.Sprintf("call dolt_checkout('-b', '%s%d', 'main')", name, n))
		t := base
		for _, op := range ops {
			nt, err := r.applyDML(tbl, sc.Cols, t, op, sc)
			if err != nil {
				r.e.Rep.Note("keyless dml: " + err.Error())
				return nil
			}
			t = nt
			if sc.Index {
				// index lookup reflects multiplicities
				v := op.V
				if op.Kind == "ins" {
					v = op.Row[0]
				}
				if !v.Null && op.Col == 0 || op.Kind == "ins" && !v.Null {
					q := fmt.Sprintf("select count(*) from %s where %s = %s", tbl, sc.Cols[0].Name(), v.SQL())
					res := s.Exec(q)
					want := 0
					for _, kr := range t.Rows {
						if kr.Vals[0] == v {
							want += kr.Card
						}
					}
					if res.Err == nil && len(res.Rows) == 1 && res.Rows[0][0] != strconv.Itoa(want) {
						r.e.Rep.Violate("C27-index-lookup", fmt.Sprintf("%s = %s, want %d", q, res.Rows[0][0], want), sc)
					}
					r.e.Rep.Hit("index-lookup")
				}
			}
		}
		s.MustExec("call dolt_commit('--allow-empty', '-Am', 'side')")
		return t
	}
	left := side("o", sc.Ours)
	right := side("h", sc.Theirs)
	if left == nil || right == nil {
		r.reopen()
		return
	}
	// merge ours <- theirs
	s.MustExec(fmt.Sprintf("call dolt_checkout('o%d')", n))
	res := s.Exec(fmt.Sprintf("call dolt_merge('h%d')", n))
	defer func() {
		s.Exec("call dolt_merge('--abort')")
		s.Exec("call dolt_reset('--hard')")
		s.Exec("call dolt_checkout('main')")
	}()
	line := fmt.Sprintf("kmerge %s %s %s %s %s", rmkit.WireSchema(sc.Cols), base.wire(), left.wire(), right.wire(), sc.Resolve)
	f := rmkit.Fields(r.m.Ask(line))
	if res.Err != nil {
		r.e.Rep.Violate("C27-merge-error", "keyless merge failed: "+res.Err.Error(), sc)
		return
	}
	merged, err := r.readKeyless(tbl, sc.Cols, sc)
	if err != nil {
		r.e.Rep.Note("keyless read: " + err.Error())
		return
	}
	// conflicts
	type kc struct {
		vals    []rmkit.Val
		b, o, t int
	}
	var confs []kc
	cr := s.Exec("select * from dolt_conflicts_" + tbl)
	if cr.Err != nil {
		r.e.Rep.Violate("C27-conflict-table", "cannot read conflicts: "+cr.Err.Error(), sc)
		return
	}
	idx := map[string]int{}
	for i, c := range cr.Cols {
		idx[c] = i
	}
	for _, row := range cr.Rows {
		c := kc{}
		c.b, _ = strconv.Atoi(row[idx["base_cardinality"]])
		c.o, _ = strconv.Atoi(row[idx["our_cardinality"]])
		c.t, _ = strconv.Atoi(row[idx["their_cardinality"]])
		for _, pre := range []string{"base_", "our_", "their_"} {
			vs := make([]rmkit.Val, len(sc.Cols))
			allNull := true
			for i, col := range sc.Cols {
				vs[i] = parseCell(row[idx[pre+col.Name()]], col.Ty)
				if !vs[i].Null {
					allNull = false
				}
			}
			card := map[string]int{"base_": c.b, "our_": c.o, "their_": c.t}[pre]
			if card > 0 && (c.vals == nil || !allNull) {
				if c.vals != nil && rmkit.WireVals(c.vals) != rmkit.WireVals(vs) {
					r.e.Rep.Violate("C27-conflict-row-values", fmt.Sprintf("conflict row shows different row values for its versions: %v vs %v", c.vals, vs), sc)
				}
				c.vals = vs
			}
		}
		confs = append(confs, c)
	}
	sort.Slice(confs, func(i, j int) bool { return rowLess(confs[i].vals, confs[j].vals) })
	var cw []string
	for _, c := range confs {
		cw = append(cw, fmt.Sprintf("%s=%d/%d/%d", rmkit.WireVals(c.vals), c.b, c.o, c.t))
	}
	confWire := "-"
	if len(cw) > 0 {
		confWire = strings.Join(cw, ";")
	}
	// ---- oracle from the property text
	ids := map[string][]rmkit.Val{}
	for _, t := range []*kTable{base, left, right, merged} {
		for _, kr := range t.Rows {
			ids[rmkit.WireVals(kr.Vals)] = kr.Vals
		}
	}
	confBy := map[string]kc{}
	for _, c := range confs {
		confBy[rmkit.WireVals(c.vals)] = c
	}
	for k, vs := range ids {
		b, l, rt := base.card(vs), left.card(vs), right.card(vs)
		got := merged.card(vs)
		c, inConf := confBy[k]
		switch {
		case l == b || rt == b:
			want := b + (l - b) + (rt - b)
			if got != want || inConf {
				r.e.Rep.Violate("C27-merge-card", fmt.Sprintf("row %v: base %d ours %d theirs %d merged %d (conflict=%v), want %d without conflict", vs, b, l, rt, got, inConf, want), sc)
			}
		case l != rt:
			if !inConf || c.b != b || c.o != l || c.t != rt || got != l {
				r.e.Rep.Violate("C27-merge-conflict", fmt.Sprintf("row %v: base %d ours %d theirs %d: want a conflict (%d,%d,%d) keeping ours; got merged %d conflict=%v %+v", vs, b, l, rt, b, l, rt, got, inConf, c), sc)
			}
			r.e.Rep.Hit("keyless-conflict-divergent")
		default:
			// both sides changed the multiplicity identically: the property text leaves this open;
			// dolt records a conflict (keyless convergent edits are conflicts) and keeps ours
			if inConf {
				r.e.Rep.Hit("keyless-conflict-convergent")
				if c.b != b || c.o != l || c.t != rt || got != l {
					r.e.Rep.Violate("C27-merge-conflict", fmt.Sprintf("row %v: convergent conflict shows (%d,%d,%d) merged %d, want (%d,%d,%d) keeping ours", vs, c.b, c.o, c.t, got, b, l, rt), sc)
				}
			} else if got != l && got != b+(l-b)+(rt-b) {
				r.e.Rep.Violate("C27-merge-card", fmt.Sprintf("row %v: both sides made the same change (%d -> %d), merged %d without conflict", vs, b, l, got), sc)
			}
		}
	}
	if len(confs) != len(confBy) {
		r.e.Rep.Violate("C27-conflict-table", "duplicate conflict rows", sc)
	}
	// resolve
	resWire := "-"
	if sc.Resolve != "none" {
		rr := s.Exec(fmt.Sprintf("call dolt_conflicts_resolve('--%s', '%s')", sc.Resolve, tbl))
		if rr.Err != nil {
			bothGone := false
			for _, c := range confs {
				if c.o == 0 && c.t == 0 {
					bothGone = true
				}
			}
			if sc.Index && sc.Resolve == "theirs" && bothGone && strings.Contains(rr.Err.Error(), "malformed tuple") {
				// the shape of the defect repaired in resolveProllyConflicts (replays in corpus/C27): a plain violation
				r.e.Rep.Violate("resolve-keyless-index-both-deleted", "dolt_conflicts_resolve --theirs panics ('malformed tuple') on a keyless table with a secondary index when a conflicted row is absent on both sides: "+rr.Err.Error(), sc)
			} else {
				r.e.Rep.Violate("C27-resolve-error", rr.Err.Error(), sc)
			}
			return
		}
		after, err := r.readKeyless(tbl, sc.Cols, sc)
		if err != nil {
			return
		}
		resWire = after.wire()
		for k, vs := range ids {
			want := merged.card(vs)
			if _, in := confBy[k]; in && sc.Resolve == "theirs" {
				want = right.card(vs)
			}
			if after.card(vs) != want {
				r.e.Rep.Violate("C27-resolve-row", fmt.Sprintf("row %v after resolve --%s: %d copies, want %d", vs, sc.Resolve, after.card(vs), want), sc)
			}
		}
		c := s.Exec("select count(*) from dolt_conflicts_" + tbl)
		if c.Err == nil && len(c.Rows) == 1 && c.Rows[0][0] != "0" {
			r.e.Rep.Violate("C27-resolve-leaves-conflicts", c.Rows[0][0]+" conflicts left", sc)
		}
	}
	// ---- model
	if f["_"] != "ok" || f["rows"] != merged.wire() || f["conf"] != confWire || f["res"] != resWire {
		r.e.Rep.Disagree(sc, fmt.Sprintf("rows=%s conf=%s res=%s", merged.wire(), confWire, resWire), fmt.Sprintf("rows=%s conf=%s res=%s", f["rows"], f["conf"], f["res"]), line)
	} else {
		r.e.Rep.TracesValidated++
	}
	r.e.Rep.Count(line, len(confs) > 0 || (left.wire() != base.wire() && right.wire() != base.wire()))
	r.e.Rep.Hit("kmerge")
	if len(confs) > 0 {
		r.e.Rep.Hit("kmerge-with-conflicts")
	}
	r.e.Rep.Sample(map[string]any{"base": base.wire(), "ours": left.wire(), "theirs": right.wire(), "merged": merged.wire(), "conf": confWire})
}

func runKeyless(r *runner) {
	e := r.e
	e.Rep.Rule = "a DML step counts when the table was non-empty; a merge counts when both sides changed the table or a conflict was recorded; distinct by (state, statement) / (base, ours, theirs)"
	runOne := func(sc *kScenario) {
		out := hx.Recover(func() string { r.runKeylessScenario(sc); return "" })
		if out != "" {
			e.Rep.Violate("C27-harness-panic", out, sc)
			r.reopen()
		}
	}
	if e.Replay != "" {
		rf, err := hx.LoadReplay(e.Replay)
		if err != nil {
			panic(err)
		}
		var sc kScenario
		if err := json.Unmarshal(rf.Case, &sc); err != nil {
			panic(err)
		}
		runOne(&sc)
		return
	}
	for _, raw := range e.CorpusCases() {
		var sc kScenario
		if json.Unmarshal(raw, &sc) == nil && len(sc.Cols) > 0 {
			runOne(&sc)
		}
	}
	n := e.N(40, 500)
	root := hx.NewRng(e.Seed*0xD6E8FEB86659FD93 ^ e.Rng.U64())
	for i := 0; i < n; i++ {
		runOne(kGen(root.Fork()))
	}
}
