// rowmerge: correspondence + property oracles for the RowMerge family through SQL
// (C29 row-level three-way merge, C43 conflict tables / resolution, C27 keyless multisets).
//
// Every scenario builds a base table, two branches with independent histories (optionally a
// one-sided column add/drop/move), runs CALL dolt_merge both ways round in an in-process dolt
// engine, reads back the table and dolt_conflicts_<t>, optionally resolves, and
//   - evaluates the property's own predicate (rmkit.SpecKey: a column-id based three-way merge
//     written from the property text) on what dolt did  -> Violate / Known,
//   - asks the Lean model (dv_rowmerge) the same question on the observed inputs -> Disagree.
package main

import (
	"encoding/json"
	"flag"
	"fmt"
	"os"
	"path/filepath"
	"sort"
	"strings"

	"verif/harness/internal/hx"
	"verif/harness/internal/rmkit"
	"verif/harness/internal/sqleng"
)

const (
	keyF = "merge-rightdelete-leftschema"
	keyB = "merge-reorder-rawbytes"
)

type runner struct {
	e       *hx.Env
	m       *hx.Model
	eng     *sqleng.Engine
	s       *sqleng.Session
	n       int
	engN    int
	profile string
	prop    string
}

func (r *runner) reopen() {
	if r.eng != nil {
		r.eng.Close()
	}
	r.engN++
	dir := filepath.Join(r.e.Scratch, fmt.Sprintf("eng%d", r.engN))
	if r.engN > 1 {
		os.RemoveAll(filepath.Join(r.e.Scratch, fmt.Sprintf("eng%d", r.engN-1)))
	}
	eng, err := sqleng.New(dir, sqleng.Options{})
	if err != nil {
		panic(err)
	}
	r.eng = eng
	s, err := eng.NewSession()
	if err != nil {
		panic(err)
	}
	r.s = s
	s.MustExec("set @@dolt_allow_commit_conflicts = 1")
	s.MustExec("set @@dolt_force_transaction_commit = 1")
}

type obs struct {
	Err      string // "ok" or class
	ErrText  string
	Merged   *rmkit.Table
	Conf     []rmkit.ConfRow
	ResErr   string
	Resolved *rmkit.Table
	ConfLeft int
}

func (r *runner) mergeAndObserve(tbl, from string, base, left, right *rmkit.Table, resolve string) *obs {
	s := r.s
	o := &obs{Err: "ok"}
	res := s.Exec(fmt.Sprintf("call dolt_merge('%s')", from))
	defer func() {
		s.Exec("call dolt_merge('--abort')")
		s.Exec("call dolt_reset('--hard')")
	}()
	if res.Err != nil {
		o.Err = rmkit.MergeErrClass(res.Err)
		o.ErrText = res.Err.Error()
		if len(o.ErrText) > 200 {
			o.ErrText = o.ErrText[:200]
		}
		return o
	}
	mt, err := rmkit.ReadTable(s, tbl)
	if err != nil {
		o.Err = "other:read-merged:" + err.Error()
		return o
	}
	o.Merged = mt
	conf, err := rmkit.ReadConflicts(s, tbl, base.Cols, mt.Cols, right.Cols)
	if err != nil {
		o.Err = "other:read-conflicts:" + err.Error()
		return o
	}
	o.Conf = conf
	if resolve != "none" {
		rr := s.Exec(fmt.Sprintf("call dolt_conflicts_resolve('--%s', '%s')", resolve, tbl))
		if rr.Err != nil {
			if strings.Contains(rr.Err.Error(), "schema") {
				o.ResErr = "conf-sch-incompatible"
			} else {
				o.ResErr = "other:" + rr.Err.Error()
			}
			return o
		}
		rt, err := rmkit.ReadTable(s, tbl)
		if err != nil {
			o.ResErr = "other:read:" + err.Error()
			return o
		}
		o.Resolved = rt
		c := s.Exec("select count(*) from dolt_conflicts_" + tbl)
		if c.Err == nil && len(c.Rows) == 1 {
			fmt.Sscan(c.Rows[0][0], &o.ConfLeft)
		}
	}
	return o
}

// implLine renders the observation in the model's response format (without path/stats).
func implLine(o *obs, resolve string) map[string]string {
	out := map[string]string{}
	if o.Err != "ok" {
		out["_"] = "err"
		out["_1"] = o.Err
		return out
	}
	out["_"] = "ok"
	out["sch"] = rmkit.WireSchema(o.Merged.Cols)
	out["rows"] = o.Merged.WireRows()
	out["conf"] = rmkit.WireConf(o.Conf)
	switch {
	case resolve == "none":
		out["res"] = "-"
	case len(o.Conf) == 0:
		// nothing to resolve: the procedure leaves the table alone
		out["res"] = o.Merged.WireRows()
		if o.Resolved != nil {
			out["res"] = o.Resolved.WireRows()
		}
	case o.ResErr != "":
		out["res"] = "err:" + o.ResErr
	default:
		out["res"] = o.Resolved.WireRows()
	}
	return out
}

// report: a failure whose input has the shape of a *known finding* is recorded as a known witness
// under that finding's key; the shape of the repaired defect §11(f) is a plain violation under its
// own stable key; everything else is a violation under the oracle's key.
func (r *runner) report(known bool, shapeKey, key, what string, sc any) {
	if known {
		// the known finding is registered for C29; under the other profiles it is only counted
		if r.prop == "C29" {
			r.e.Rep.Known(shapeKey, what, sc)
		}
		r.e.Rep.Hit("known:" + shapeKey)
		return
	}
	if shapeKey != "" {
		key = shapeKey
	}
	r.e.Rep.Violate(key, what, sc)
}

// classify decides whether a failure at key k (k < 0: the whole merge) has the input shape of a
// known finding.
func classify(base, left, right *rmkit.Table, k int64, errClass string) (bool, string) {
	if k < 0 {
		if (errClass == "truncated" || errClass == "panic") && rmkit.AnyShapeF(base, left, right) {
			return false, keyF
		}
		return false, ""
	}
	if rmkit.ShapeF(base, left, right, k) {
		return false, keyF
	}
	if rmkit.ShapeB(base, left, right, k) {
		return true, keyB
	}
	return false, ""
}

func restrict(m map[int]rmkit.Val, cols []rmkit.Col) map[int]rmkit.Val {
	out := map[int]rmkit.Val{}
	for _, c := range cols {
		if v, ok := m[c.ID]; ok {
			out[c.ID] = v
		} else {
			out[c.ID] = rmkit.Null
		}
	}
	return out
}

func eqMap(a, b map[int]rmkit.Val) bool {
	if len(a) != len(b) {
		return false
	}
	for k, v := range a {
		if w, ok := b[k]; !ok || w != v {
			return false
		}
	}
	return true
}

func eqVals(a, b []rmkit.Val) bool {
	if len(a) != len(b) {
		return false
	}
	for i := range a {
		if a[i] != b[i] {
			return false
		}
	}
	return true
}

// oracle evaluates the property text on one merge direction.  Returns the set of conflicted keys
// the property demands.
func (r *runner) oracle(dir string, base, left, right *rmkit.Table, o *obs, resolve string, sc any) map[int64]bool {
	want := map[int64]bool{}
	if o.Err != "ok" {
		known, kk := classify(base, left, right, -1, o.Err)
		r.report(known, kk, r.prop+"-merge-error:"+strings.SplitN(o.Err, ":", 2)[0],
			fmt.Sprintf("%s: dolt_merge failed internally (%s): %s", dir, o.Err, o.ErrText), sc)
		return nil
	}
	// expected surviving columns: every column of either side that the other side did not drop
	expCols := map[int]bool{}
	for _, c := range left.Cols {
		if rightHas := right.ColIdx(c.ID) >= 0; rightHas || base.ColIdx(c.ID) < 0 {
			expCols[c.ID] = true
		}
	}
	for _, c := range right.Cols {
		if leftHas := left.ColIdx(c.ID) >= 0; leftHas || base.ColIdx(c.ID) < 0 {
			expCols[c.ID] = true
		}
	}
	gotCols := map[int]bool{}
	for _, c := range o.Merged.Cols {
		gotCols[c.ID] = true
	}
	if len(gotCols) != len(expCols) {
		r.report(false, "", r.prop+"-merged-columns", fmt.Sprintf("%s: merged columns %v, expected %v", dir, o.Merged.Cols, expCols), sc)
		return nil
	}
	for id := range expCols {
		if !gotCols[id] {
			r.report(false, "", r.prop+"-merged-columns", fmt.Sprintf("%s: merged columns %v, expected %v", dir, o.Merged.Cols, expCols), sc)
			return nil
		}
	}
	confBy := map[int64]rmkit.ConfRow{}
	for _, c := range o.Conf {
		confBy[c.Key] = c
	}
	keys := map[int64]bool{}
	for _, t := range []*rmkit.Table{base, left, right, o.Merged} {
		for k := range t.Rows {
			keys[k] = true
		}
	}
	for k := range keys {
		exp := rmkit.SpecKey(base, left, right, k)
		got := o.Merged.Logical(k)
		_, inConf := confBy[k]
		bad := ""
		switch {
		case exp.Conflict:
			want[k] = true
			if !inConf {
				bad = "expected a conflict, none recorded"
			} else if l := left.Logical(k); l == nil {
				if got != nil {
					bad = "conflicted key must keep ours (absent)"
				}
			} else if got == nil || !eqMap(got, restrict(l, o.Merged.Cols)) {
				bad = "conflicted key must keep ours' row"
			}
		case inConf:
			bad = "conflict recorded where the property demands none"
		case exp.Deleted:
			if got != nil {
				bad = "row must be deleted"
			}
		default:
			if got == nil || !eqMap(got, restrict(exp.Row, o.Merged.Cols)) {
				bad = fmt.Sprintf("wrong merged row: got %v want %v", got, restrict(exp.Row, o.Merged.Cols))
			}
		}
		if bad != "" {
			known, kk := classify(base, left, right, k, "")
			r.report(known, kk, r.prop+"-row", fmt.Sprintf("%s key %d: %s", dir, k, bad), sc)
			continue
		}
		if inConf {
			// C43: the conflict row shows exactly base / ours / theirs
			c := confBy[k]
			br, bok := base.Rows[k]
			tr, tok := right.Rows[k]
			or, ook := o.Merged.Rows[k]
			if c.HasBase != bok || c.HasTheirs != tok || c.HasOurs != ook ||
				(bok && !eqVals(c.Base, br)) || (tok && !eqVals(c.Theirs, tr)) || (ook && !eqVals(c.Ours, or)) {
				r.report(false, "", "C43-conflict-row", fmt.Sprintf("%s key %d: dolt_conflicts row %+v does not show base %v ours %v theirs %v", dir, k, c, br, or, tr), sc)
			}
		}
	}
	// resolution (C43)
	if resolve != "none" && len(o.Conf) > 0 {
		switch {
		case o.ResErr == "conf-sch-incompatible" && resolve == "theirs" && rmkit.WireSchema(o.Merged.Cols) != rmkit.WireSchema(right.Cols):
			r.e.Rep.Hit("resolve-refused-schema")
		case o.ResErr != "":
			r.report(false, "", "C43-resolve-error", fmt.Sprintf("%s: dolt_conflicts_resolve --%s failed: %s", dir, resolve, o.ResErr), sc)
		default:
			if o.ConfLeft != 0 {
				r.report(false, "", "C43-resolve-leaves-conflicts", fmt.Sprintf("%s: %d conflicts left after resolve --%s", dir, o.ConfLeft, resolve), sc)
			}
			all := map[int64]bool{}
			for k := range o.Merged.Rows {
				all[k] = true
			}
			for k := range o.Resolved.Rows {
				all[k] = true
			}
			for k := range right.Rows {
				all[k] = true
			}
			for k := range all {
				_, conflicted := confBy[k]
				wantRow, wantOK := o.Merged.Rows[k]
				if conflicted && resolve == "theirs" {
					wantRow, wantOK = right.Rows[k]
				}
				gotRow, gotOK := o.Resolved.Rows[k]
				if wantOK != gotOK || (wantOK && !eqVals(wantRow, gotRow)) {
					r.report(false, "", "C43-resolve-row", fmt.Sprintf("%s key %d after resolve --%s: got %v want %v (conflicted=%v)", dir, k, resolve, gotRow, wantRow, conflicted), sc)
				}
			}
		}
	}
	return want
}

func (r *runner) askModel(base, left, right *rmkit.Table, resolve string) (string, map[string]string) {
	line := fmt.Sprintf("merge 0 %s %s %s %s %s %s %s", rmkit.WireSchema(base.Cols), rmkit.WireSchema(left.Cols), rmkit.WireSchema(right.Cols),
		base.WireRows(), left.WireRows(), right.WireRows(), resolve)
	return line, rmkit.Fields(r.m.Ask(line))
}

func (r *runner) compare(dir, line string, impl, model map[string]string, sc any) {
	for _, f := range []string{"_", "_1", "sch", "rows", "conf", "res"} {
		if impl[f] != model[f] {
			r.e.Rep.Disagree(sc, fmt.Sprintf("%s %s=%s", dir, f, impl[f]), fmt.Sprintf("%s=%s", f, model[f]), line)
			return
		}
	}
	r.e.Rep.TracesValidated++
}

func (r *runner) setupBranches(tbl string, sc *rmkit.Scenario) (base, left, right *rmkit.Table, err error) {
	s := r.s
	n := r.n
	s.MustExec("call dolt_checkout('main')")
	s.MustExec(rmkit.CreateSQL(tbl, sc.BaseCols, false))
	cols := append([]rmkit.Col{}, sc.BaseCols...)
	for i, row := range sc.BaseRows {
		s.MustExec(rmkit.Op{Kind: "ins", Key: int64(i + 1), Row: row}.SQL(tbl, &cols))
	}
	s.MustExec("call dolt_commit('-Am', 'base')")
	if base, err = rmkit.ReadTable(s, tbl); err != nil {
		return
	}
	side := func(name string, ops []rmkit.Op) (*rmkit.Table, error) {
		s.MustExec(fmt.Sprintf("call dolt_checkout('-b', '%s%d', 'main')", name, n))
		cols := append([]rmkit.Col{}, sc.BaseCols...)
		for _, op := range ops {
			q := op.SQL(tbl, &cols)
			if res := s.Exec(q); res.Err != nil {
				return nil, fmt.Errorf("%s: %v", q, res.Err)
			}
		}
		s.MustExec("call dolt_commit('--allow-empty', '-Am', 'side')")
		t, err := rmkit.ReadTable(s, tbl)
		if err != nil {
			return nil, err
		}
		s.MustExec(fmt.Sprintf("call dolt_branch('%sx%d')", name, n))
		return t, nil
	}
	if left, err = side("o", sc.Ours); err != nil {
		return
	}
	if right, err = side("h", sc.Theirs); err != nil {
		return
	}
	return
}

func (r *runner) runKeyed(sc *rmkit.Scenario) {
	r.n++
	if r.eng == nil || r.n%40 == 0 {
		r.reopen()
	}
	tbl := fmt.Sprintf("t%d", r.n)
	base, left, right, err := r.setupBranches(tbl, sc)
	if err != nil {
		r.e.Rep.Note("setup failed: " + err.Error())
		r.e.Rep.Hit("setup-failed")
		r.reopen()
		return
	}
	s := r.s
	resolve := sc.Resolve
	// direction 1: ours <- theirs
	s.MustExec(fmt.Sprintf("call dolt_checkout('o%d')", r.n))
	o1 := r.mergeAndObserve(tbl, fmt.Sprintf("h%d", r.n), base, left, right, resolve)
	// direction 2: theirs <- ours (on the copies)
	s.MustExec(fmt.Sprintf("call dolt_checkout('hx%d')", r.n))
	o2 := r.mergeAndObserve(tbl, fmt.Sprintf("ox%d", r.n), base, right, left, resolve)
	s.MustExec("call dolt_checkout('main')")

	schemaChanged := rmkit.WireSchema(base.Cols) != rmkit.WireSchema(left.Cols) || rmkit.WireSchema(base.Cols) != rmkit.WireSchema(right.Cols)
	for i, d := range []struct {
		dir   string
		l, rt *rmkit.Table
		o     *obs
	}{{"ours<-theirs", left, right, o1}, {"theirs<-ours", right, left, o2}} {
		line, model := r.askModel(base, d.l, d.rt, resolve)
		impl := implLine(d.o, resolve)
		want := r.oracle(d.dir, base, d.l, d.rt, d.o, resolve, sc)
		r.compare(d.dir, line, impl, model, sc)
		nontrivial := len(d.o.Conf) > 0 || schemaChanged || model["path"] != "short"
		r.e.Rep.Count(line, nontrivial)
		r.e.Rep.Hit("path:" + model["path"])
		r.e.Rep.Hit("result:" + strings.SplitN(d.o.Err, ":", 2)[0])
		if len(d.o.Conf) > 0 {
			r.e.Rep.Hit("with-conflicts")
		}
		if i == 0 {
			for _, op := range append(append([]rmkit.Op{}, sc.Ours...), sc.Theirs...) {
				r.e.Rep.Hit("op:" + op.Kind)
			}
		}
		_ = want
	}
	if schemaChanged {
		r.e.Rep.Hit("schema-changed")
	}
	// symmetry: same data on unconflicted keys, same conflicted keys, mirrored conflict rows
	if o1.Err == "ok" && o2.Err == "ok" {
		c1, c2 := map[int64]rmkit.ConfRow{}, map[int64]rmkit.ConfRow{}
		for _, c := range o1.Conf {
			c1[c.Key] = c
		}
		for _, c := range o2.Conf {
			c2[c.Key] = c
		}
		keys := map[int64]bool{}
		for k := range o1.Merged.Rows {
			keys[k] = true
		}
		for k := range o2.Merged.Rows {
			keys[k] = true
		}
		for k := range c1 {
			keys[k] = true
		}
		for k := range c2 {
			keys[k] = true
		}
		for k := range keys {
			_, in1 := c1[k]
			_, in2 := c2[k]
			bad := ""
			if in1 != in2 {
				bad = fmt.Sprintf("conflict recorded one way round only (ours<-theirs=%v theirs<-ours=%v)", in1, in2)
			} else if !in1 {
				a, b := o1.Merged.Logical(k), o2.Merged.Logical(k)
				if (a == nil) != (b == nil) || (a != nil && !eqMap(a, b)) {
					bad = fmt.Sprintf("merged rows differ between directions: %v vs %v", a, b)
				}
			}
			if bad != "" {
				k1, kk1 := classify(base, left, right, k, "")
				k2, kk2 := classify(base, right, left, k, "")
				if kk1 == "" || (k2 && !k1) {
					k1, kk1 = k2, kk2
				}
				r.report(k1, kk1, "C29-asymmetric", fmt.Sprintf("key %d: %s", k, bad), sc)
			}
		}
	} else if (o1.Err == "ok") != (o2.Err == "ok") {
		k1, kk1 := classify(base, left, right, -1, o1.Err)
		k2, kk2 := classify(base, right, left, -1, o2.Err)
		if kk1 == "" || (k2 && !k1) {
			k1, kk1 = k2, kk2
		}
		r.report(k1, kk1, "C29-asymmetric-error", fmt.Sprintf("merge fails one way round only: %s / %s", o1.Err, o2.Err), sc)
	}
	r.e.Rep.Sample(map[string]any{"base": base.WireRows(), "ours": rmkit.WireSchema(left.Cols) + " " + left.WireRows(), "theirs": rmkit.WireSchema(right.Cols) + " " + right.WireRows(),
		"merged": implLine(o1, resolve)})
}

// defectF is the CLI-confirmed replay of DESIGN §11(f), as a scenario (runs first, every run).
func defectF() *rmkit.Scenario {
	return &rmkit.Scenario{
		BaseCols: []rmkit.Col{{ID: 1, Ty: 'i'}, {ID: 2, Ty: 's'}},
		BaseRows: [][]rmkit.Val{{rmkit.IntV(10), rmkit.StrV("x")}, {rmkit.IntV(20), rmkit.StrV("y")}},
		Ours:     []rmkit.Op{{Kind: "drop", Col: 1}, {Kind: "upd", Key: 1, Col: 2, V: rmkit.StrV("x2")}},
		Theirs:   []rmkit.Op{{Kind: "del", Key: 1}},
		Resolve:  "none",
	}
}

// defectFSilent: same shape, base value '0' converts to the wrong type and compares equal to the
// unconvertible 'x' -> the row is deleted without a conflict (ours' update is lost).
func defectFSilent() *rmkit.Scenario {
	sc := defectF()
	sc.BaseRows[0][1] = rmkit.StrV("0")
	sc.Ours[1].V = rmkit.StrV("x")
	return sc
}

// defectB: ours moves a column; the stored tuples of ours' and theirs' rows are byte-equal although
// the rows differ -> the merge takes it for a convergent edit and drops theirs' change.
func defectB() *rmkit.Scenario {
	return &rmkit.Scenario{
		BaseCols: []rmkit.Col{{ID: 1, Ty: 'i'}, {ID: 2, Ty: 'i'}},
		BaseRows: [][]rmkit.Val{{rmkit.IntV(1), rmkit.IntV(1)}, {rmkit.IntV(5), rmkit.IntV(6)}},
		Ours:     []rmkit.Op{{Kind: "move", Col: 1, Ty: 'i', After: 2}, {Kind: "upd", Key: 1, Col: 1, V: rmkit.IntV(2)}},
		Theirs:   []rmkit.Op{{Kind: "upd", Key: 1, Col: 2, V: rmkit.IntV(2)}},
		Resolve:  "none",
	}
}

func main() {
	profile := flag.String("profile", "c29", "c29 | c43 | c27")
	e := hx.Init("rowmerge", "C29")
	defer e.Finish()
	prop := map[string]string{"c29": "C29", "c43": "C43", "c27": "C27"}[*profile]
	if prop == "" {
		fmt.Fprintln(os.Stderr, "bad -profile")
		os.Exit(2)
	}
	e.Rep.Property = prop
	r := &runner{e: e, m: e.MustModel(), profile: *profile, prop: prop}
	defer r.m.Close()
	defer func() {
		if r.eng != nil {
			r.eng.Close()
		}
	}()

	if *profile == "c27" {
		runKeyless(r)
		return
	}
	e.Rep.Rule = "a merge direction counts as non-trivial when it was not short-circuited (cell-wise merger / fast or row path ran), recorded a conflict, or involved a schema change; distinct by the observed (base, ours, theirs) tables"

	runOne := func(sc *rmkit.Scenario) {
		if *profile == "c43" && sc.Resolve == "none" {
			sc.Resolve = "theirs"
		}
		out := hx.Recover(func() string { r.runKeyed(sc); return "" })
		if out != "" {
			e.Rep.Violate(prop+"-harness-panic", out, sc)
			r.reopen()
		}
	}

	if e.Replay != "" {
		rf, err := hx.LoadReplay(e.Replay)
		if err != nil {
			panic(err)
		}
		var sc rmkit.Scenario
		if err := json.Unmarshal(rf.Case, &sc); err != nil {
			panic(err)
		}
		runOne(&sc)
		return
	}
	for _, raw := range e.CorpusCases() {
		var sc rmkit.Scenario
		if json.Unmarshal(raw, &sc) == nil && len(sc.BaseCols) > 0 {
			runOne(&sc)
			e.Rep.Hit("corpus")
		}
	}
	// the witness of known finding merge-reorder-rawbytes (reported as Known while it reproduces);
	// the replays of the repaired defect §11(f) live in corpus/C29 and ran above
	if *profile == "c29" {
		runOne(defectB())
	}
	if len(e.CorpusCases()) == 0 && *profile == "c29" {
		runOne(defectF())
		runOne(defectFSilent())
	}

	n := e.N(45, 500)
	opts := rmkit.GenOpts{SchemaChange: 5, Cellwise: 4}
	if *profile == "c43" {
		opts.SchemaChange = 2
	}
	root := hx.NewRng(e.Seed*0xD6E8FEB86659FD93 ^ e.Rng.U64()) // hx seeds s and s+1 share a stream shifted by one draw
	for i := 0; i < n; i++ {
		rng := root.Fork()
		sc := rmkit.GenScenario(rng, i, opts)
		if *profile == "c29" && rng.Chance(2, 3) {
			sc.Resolve = "none"
		}
		runOne(sc)
	}
	keys := make([]string, 0, len(e.Rep.Histogram))
	for k := range e.Rep.Histogram {
		keys = append(keys, k)
	}
	sort.Strings(keys)
}
