// valcodec: correspondence + property oracle for C15 (tuple encodings round-trip and sort like
// the SQL values they encode).
//
// The real code (val.TupleBuilder / val.NewTuple / val.TupleDesc accessors and Compare) is run on
// generated values; three things are checked on every case:
//
//  1. the property's own predicate on the implementation (independent of the Lean model):
//     decode(encode v) = v, sign(Compare(enc a, enc b)) = sign(compare of the Go values a b) with
//     NULL first, byte identity of tuples built from the same values by different routes
//     (Build / BuildPermissive / NewTuple / shuffled + overwritten puts / extra trailing NULL
//     columns), Count = length after dropping trailing NULLs  -> Violate;
//  2. implementation vs. the Lean model driver (bytes, decoded token, comparison sign, errors)
//     -> Disagree;
//  3. the distribution of what was generated -> Hit.
//
// Float order is compared on non-NaN values only (Go's `<` on the floats is the reference; the
// model defines the same order on bit patterns, so this is correspondence, not proof); NaN cases
// are run for correspondence only.  Collated string order lives in go-mysql-server and is not
// covered here (StringEnc compares bytewise in val).
package main

import (
	"bytes"
	"context"
	"encoding/json"
	"fmt"
	"math"
	"math/big"
	"strconv"
	"strings"
	"time"

	"github.com/cockroachdb/apd/v3"
	gmstypes "github.com/dolthub/go-mysql-server/sql/types"

	"github.com/dolthub/dolt/go/store/hash"
	"github.com/dolthub/dolt/go/store/pool"
	"github.com/dolthub/dolt/go/store/val"

	"verif/harness/internal/hx"
)

var ctx = context.Background()
var bp = pool.NewBuffPool()

// ---------------------------------------------------------------- values

type gv struct {
	enc  val.Encoding
	null bool
	i    int64
	u    uint64
	t    time.Time
	b    []byte
	d    *apd.Decimal
	zero bool // date: the zero date
	bad  bool // token not parseable for this encoding
}

const (
	kInt = iota
	kUint
	kF32
	kF64
	kYear
	kDate
	kDatetime
	kStr
	kRaw
	kDec
	kOther
)

func kindOf(e val.Encoding) int {
	switch e {
	case val.Int8Enc, val.Int16Enc, val.Int32Enc, val.Int64Enc, val.TimeEnc:
		return kInt
	case val.Uint8Enc, val.Uint16Enc, val.Uint32Enc, val.Uint64Enc, val.Bit64Enc, val.EnumEnc, val.SetEnc:
		return kUint
	case val.Float32Enc:
		return kF32
	case val.Float64Enc:
		return kF64
	case val.YearEnc:
		return kYear
	case val.DateEnc:
		return kDate
	case val.DatetimeEnc:
		return kDatetime
	case val.StringEnc, val.ByteStringEnc:
		return kStr
	case val.Hash128Enc, val.CellEnc, val.BytesAddrEnc, val.CommitAddrEnc, val.StringAddrEnc, val.JSONAddrEnc, val.GeomAddrEnc:
		return kRaw
	case val.DecimalEnc:
		return kDec
	}
	return kOther
}

func rawLen(e val.Encoding) int {
	switch e {
	case val.Hash128Enc:
		return 16
	case val.CellEnc:
		return 17
	}
	return 20
}

func parseVal(e val.Encoding, tok string) gv {
	v := gv{enc: e}
	if tok == "null" {
		v.null = true
		return v
	}
	switch kindOf(e) {
	case kInt, kYear, kDatetime:
		x, err := strconv.ParseInt(tok, 10, 64)
		v.i, v.bad = x, err != nil
		if kindOf(e) == kDatetime {
			v.t = time.UnixMicro(x).UTC()
		}
	case kUint, kF32, kF64:
		x, err := strconv.ParseUint(tok, 10, 64)
		v.u, v.bad = x, err != nil
	case kDate:
		if tok == "zero" {
			v.zero, v.t = true, gmstypes.ZeroTime
		} else {
			var y, m, d int
			if _, err := fmt.Sscanf(tok, "%d-%d-%d", &y, &m, &d); err != nil {
				v.bad = true
			}
			v.t = time.Date(y, time.Month(m), d, 0, 0, 0, 0, time.UTC)
		}
	case kStr, kRaw:
		v.b = hx.Unhex(tok)
		if v.b == nil {
			v.b = []byte{}
		}
	case kDec:
		switch tok {
		case "nan":
			v.d = &apd.Decimal{Form: apd.NaN}
		case "inf":
			v.d = &apd.Decimal{Form: apd.Infinite}
		case "-inf":
			v.d = &apd.Decimal{Form: apd.Infinite, Negative: true}
		default:
			p := strings.Split(tok, ":")
			if len(p) != 3 {
				v.bad = true
				break
			}
			c, ok := new(big.Int).SetString(p[1], 10)
			ex, err := strconv.ParseInt(p[2], 10, 32)
			if !ok || err != nil {
				v.bad = true
				break
			}
			d := new(apd.Decimal)
			d.Coeff.SetMathBigInt(c)
			d.Exponent = int32(ex)
			d.Negative = p[0] == "1"
			v.d = d
		}
	default:
		v.bad = true
	}
	return v
}

// tokOf renders a value read back from the implementation in the canonical token form
func decTok(d *apd.Decimal) string {
	switch d.Form {
	case apd.NaN:
		return "nan"
	case apd.Infinite:
		if d.Negative {
			return "-inf"
		}
		return "inf"
	}
	n := 0
	if d.Negative {
		n = 1
	}
	return fmt.Sprintf("%d:%s:%d", n, d.Coeff.MathBigInt().String(), d.Exponent)
}

func put(tb *val.TupleBuilder, i int, v gv) {
	if v.null {
		return
	}
	switch v.enc {
	case val.Int8Enc:
		tb.PutInt8(i, int8(v.i))
	case val.Uint8Enc:
		tb.PutUint8(i, uint8(v.u))
	case val.Int16Enc:
		tb.PutInt16(i, int16(v.i))
	case val.Uint16Enc:
		tb.PutUint16(i, uint16(v.u))
	case val.Int32Enc:
		tb.PutInt32(i, int32(v.i))
	case val.Uint32Enc:
		tb.PutUint32(i, uint32(v.u))
	case val.Int64Enc:
		tb.PutInt64(i, v.i)
	case val.Uint64Enc:
		tb.PutUint64(i, v.u)
	case val.Float32Enc:
		tb.PutFloat32(i, math.Float32frombits(uint32(v.u)))
	case val.Float64Enc:
		tb.PutFloat64(i, math.Float64frombits(v.u))
	case val.Bit64Enc:
		tb.PutBit(i, v.u)
	case val.DecimalEnc:
		tb.PutDecimal(i, v.d)
	case val.YearEnc:
		tb.PutYear(i, int16(v.i))
	case val.DateEnc:
		tb.PutDate(i, v.t)
	case val.TimeEnc:
		tb.PutSqlTime(i, v.i)
	case val.DatetimeEnc:
		tb.PutDatetime(i, v.t)
	case val.EnumEnc:
		tb.PutEnum(i, uint16(v.u))
	case val.SetEnc:
		tb.PutSet(i, v.u)
	case val.StringEnc:
		if err := tb.PutString(i, string(v.b)); err != nil {
			panic("PutString: " + err.Error())
		}
	case val.ByteStringEnc:
		tb.PutByteString(i, v.b)
	case val.Hash128Enc:
		tb.PutHash128(i, v.b)
	case val.CellEnc:
		var c val.Cell
		copy(c[:], v.b)
		tb.PutCell(i, c)
	case val.BytesAddrEnc:
		tb.PutBytesAddr(i, hash.New(v.b))
	case val.CommitAddrEnc:
		tb.PutCommitAddr(i, hash.New(v.b))
	case val.StringAddrEnc:
		tb.PutStringAddr(i, hash.New(v.b))
	case val.JSONAddrEnc:
		tb.PutJSONAddr(i, hash.New(v.b))
	case val.GeomAddrEnc:
		tb.PutGeometryAddr(i, hash.New(v.b))
	default:
		panic("harness: unsupported encoding")
	}
}

// safeGet: a panic while reading back a stored value is a failed round trip, not a harness crash
func safeGet(td *val.TupleDesc, i int, tup val.Tuple, orig gv) (tok string, same bool) {
	defer func() {
		if p := recover(); p != nil {
			tok, same = fmt.Sprintf("panic: %v", p), false
		}
	}()
	return get(td, i, tup, orig)
}

// get reads field i through the typed accessor and renders it as a canonical token;
// also reports value equality with the original (the round-trip predicate).
func get(td *val.TupleDesc, i int, tup val.Tuple, orig gv) (tok string, same bool) {
	e := td.Types[i].Enc
	switch e {
	case val.Int8Enc:
		x, ok := td.GetInt8(i, tup)
		if !ok {
			return "null", orig.null
		}
		return fmt.Sprint(x), !orig.null && int64(x) == orig.i
	case val.Uint8Enc:
		x, ok := td.GetUint8(i, tup)
		if !ok {
			return "null", orig.null
		}
		return fmt.Sprint(x), !orig.null && uint64(x) == orig.u
	case val.Int16Enc:
		x, ok := td.GetInt16(i, tup)
		if !ok {
			return "null", orig.null
		}
		return fmt.Sprint(x), !orig.null && int64(x) == orig.i
	case val.Uint16Enc:
		x, ok := td.GetUint16(i, tup)
		if !ok {
			return "null", orig.null
		}
		return fmt.Sprint(x), !orig.null && uint64(x) == orig.u
	case val.Int32Enc:
		x, ok := td.GetInt32(i, tup)
		if !ok {
			return "null", orig.null
		}
		return fmt.Sprint(x), !orig.null && int64(x) == orig.i
	case val.Uint32Enc:
		x, ok := td.GetUint32(i, tup)
		if !ok {
			return "null", orig.null
		}
		return fmt.Sprint(x), !orig.null && uint64(x) == orig.u
	case val.Int64Enc:
		x, ok := td.GetInt64(i, tup)
		if !ok {
			return "null", orig.null
		}
		return fmt.Sprint(x), !orig.null && x == orig.i
	case val.Uint64Enc:
		x, ok := td.GetUint64(i, tup)
		if !ok {
			return "null", orig.null
		}
		return fmt.Sprint(x), !orig.null && x == orig.u
	case val.Float32Enc:
		x, ok := td.GetFloat32(i, tup)
		if !ok {
			return "null", orig.null
		}
		return fmt.Sprint(math.Float32bits(x)), !orig.null && uint64(math.Float32bits(x)) == orig.u
	case val.Float64Enc:
		x, ok := td.GetFloat64(i, tup)
		if !ok {
			return "null", orig.null
		}
		return fmt.Sprint(math.Float64bits(x)), !orig.null && math.Float64bits(x) == orig.u
	case val.Bit64Enc:
		x, ok := td.GetBit(i, tup)
		if !ok {
			return "null", orig.null
		}
		return fmt.Sprint(x), !orig.null && x == orig.u
	case val.DecimalEnc:
		x, ok := td.GetDecimal(i, tup)
		if !ok {
			return "null", orig.null
		}
		same := !orig.null && x.Form == orig.d.Form
		if same && x.Form == apd.Finite {
			same = x.Exponent == orig.d.Exponent && x.Coeff.Cmp(&orig.d.Coeff) == 0 &&
				(x.Negative == orig.d.Negative || x.Coeff.Sign() == 0)
		} else if same && x.Form == apd.Infinite {
			same = x.Negative == orig.d.Negative
		}
		return decTok(x), same
	case val.YearEnc:
		x, ok := td.GetYear(i, tup)
		if !ok {
			return "null", orig.null
		}
		return fmt.Sprint(x), !orig.null && int64(x) == orig.i
	case val.DateEnc:
		x, ok := td.GetDate(i, tup)
		if !ok {
			return "null", orig.null
		}
		if x.Equal(gmstypes.ZeroTime) {
			return "zero", !orig.null && orig.t.Equal(x)
		}
		return fmt.Sprintf("%d-%d-%d", x.Year(), int(x.Month()), x.Day()), !orig.null && orig.t.Equal(x)
	case val.TimeEnc:
		x, ok := td.GetSqlTime(i, tup)
		if !ok {
			return "null", orig.null
		}
		return fmt.Sprint(x), !orig.null && x == orig.i
	case val.DatetimeEnc:
		x, ok := td.GetDatetime(i, tup)
		if !ok {
			return "null", orig.null
		}
		return fmt.Sprint(x.UnixMicro()), !orig.null && x.Equal(orig.t) && x.Location() == time.UTC
	case val.EnumEnc:
		x, ok := td.GetEnum(i, tup)
		if !ok {
			return "null", orig.null
		}
		return fmt.Sprint(x), !orig.null && uint64(x) == orig.u
	case val.SetEnc:
		x, ok := td.GetSet(i, tup)
		if !ok {
			return "null", orig.null
		}
		return fmt.Sprint(x), !orig.null && x == orig.u
	case val.StringEnc:
		x, ok := td.GetString(i, tup)
		if !ok {
			return "null", orig.null
		}
		return hx.Hex([]byte(x)), !orig.null && x == string(orig.b)
	case val.ByteStringEnc:
		x, ok := td.GetBytes(i, tup)
		if !ok {
			return "null", orig.null
		}
		return hx.Hex(x), !orig.null && bytes.Equal(x, orig.b)
	case val.Hash128Enc:
		x, ok := td.GetHash128(i, tup)
		if !ok {
			return "null", orig.null
		}
		return hx.Hex(x), !orig.null && bytes.Equal(x, orig.b)
	case val.CellEnc:
		x, ok := td.GetCell(i, tup)
		if !ok {
			return "null", orig.null
		}
		return hx.Hex(x[:]), !orig.null && bytes.Equal(x[:], orig.b)
	case val.BytesAddrEnc, val.CommitAddrEnc, val.StringAddrEnc, val.JSONAddrEnc, val.GeomAddrEnc:
		x, ok := td.GetAddr(i, tup)
		if !ok {
			return "null", orig.null
		}
		return hx.Hex(x[:]), !orig.null && bytes.Equal(x[:], orig.b)
	}
	panic("harness: unsupported encoding")
}

// ---- the SQL order of the values, written from the property statement (independent of val)

func sgn(x int) int {
	if x < 0 {
		return -1
	} else if x > 0 {
		return 1
	}
	return 0
}

func decRat(d *apd.Decimal) *big.Rat {
	r := new(big.Rat).SetInt(d.Coeff.MathBigInt())
	e := big.NewInt(int64(d.Exponent))
	p := new(big.Int).Exp(big.NewInt(10), new(big.Int).Abs(e), nil)
	if d.Exponent >= 0 {
		r.Mul(r, new(big.Rat).SetInt(p))
	} else {
		r.Quo(r, new(big.Rat).SetInt(p))
	}
	if d.Negative {
		r.Neg(r)
	}
	return r
}

// finiteDecCmp: exact order of two finite decimals.  Small exponents: exact rationals.  Huge
// exponents (|e| > 2000): sign, then position of the leading digit, then the coefficients aligned
// by the (then small) exponent difference -- no power of ten larger than the digit counts.
func finiteDecCmp(a, b *apd.Decimal) int {
	abs := func(x int32) int64 {
		if x < 0 {
			return -int64(x)
		}
		return int64(x)
	}
	if abs(a.Exponent) <= 2000 && abs(b.Exponent) <= 2000 {
		return decRat(a).Cmp(decRat(b))
	}
	sign := func(d *apd.Decimal) int {
		if d.Coeff.Sign() == 0 {
			return 0
		}
		if d.Negative {
			return -1
		}
		return 1
	}
	sa, sb := sign(a), sign(b)
	if sa != sb || sa == 0 {
		return sgn(sa - sb)
	}
	la := int64(len(a.Coeff.MathBigInt().String())) + int64(a.Exponent)
	lb := int64(len(b.Coeff.MathBigInt().String())) + int64(b.Exponent)
	if la != lb {
		return sa * sgn(int(la-lb))
	}
	ca, cb := new(big.Int).Set(a.Coeff.MathBigInt()), new(big.Int).Set(b.Coeff.MathBigInt())
	diff := int64(a.Exponent) - int64(b.Exponent)
	if diff > 0 {
		ca.Mul(ca, new(big.Int).Exp(big.NewInt(10), big.NewInt(diff), nil))
	} else {
		cb.Mul(cb, new(big.Int).Exp(big.NewInt(10), big.NewInt(-diff), nil))
	}
	return sa * ca.Cmp(cb)
}

// sqlCmp: order of two non-NULL values of one encoding; ok=false when the order is not defined
// by the property (NaN floats).
func sqlCmp(a, b gv) (c int, ok bool) {
	switch kindOf(a.enc) {
	case kInt, kYear:
		return sgn(big.NewInt(a.i).Cmp(big.NewInt(b.i))), true
	case kUint:
		return sgn(new(big.Int).SetUint64(a.u).Cmp(new(big.Int).SetUint64(b.u))), true
	case kF32:
		x, y := math.Float32frombits(uint32(a.u)), math.Float32frombits(uint32(b.u))
		if x != x || y != y {
			return 0, false
		}
		if x < y {
			return -1, true
		} else if x > y {
			return 1, true
		}
		return 0, true
	case kF64:
		x, y := math.Float64frombits(a.u), math.Float64frombits(b.u)
		if x != x || y != y {
			return 0, false
		}
		if x < y {
			return -1, true
		} else if x > y {
			return 1, true
		}
		return 0, true
	case kDate, kDatetime:
		return a.t.Compare(b.t), true
	case kStr, kRaw:
		n := len(a.b)
		if len(b.b) < n {
			n = len(b.b)
		}
		for i := 0; i < n; i++ {
			if a.b[i] != b.b[i] {
				return sgn(int(a.b[i]) - int(b.b[i])), true
			}
		}
		return sgn(len(a.b) - len(b.b)), true
	case kDec:
		// NaN sorts last and equals itself; infinities by sign; finite by exact value
		rank := func(d *apd.Decimal) int {
			switch {
			case d.Form == apd.NaN:
				return 2
			case d.Form == apd.Infinite && d.Negative:
				return -1
			case d.Form == apd.Infinite:
				return 1
			}
			return 0
		}
		ra, rb := rank(a.d), rank(b.d)
		if ra != rb || ra != 0 {
			return sgn(ra - rb), true
		}
		return finiteDecCmp(a.d, b.d), true
	}
	return 0, false
}

// rowCmp: field by field, NULL first
func rowCmp(a, b []gv) (int, bool) {
	for i := range a {
		switch {
		case a[i].null && b[i].null:
			continue
		case a[i].null:
			return -1, true
		case b[i].null:
			return 1, true
		}
		c, ok := sqlCmp(a[i], b[i])
		if !ok {
			return 0, false
		}
		if c != 0 {
			return c, true
		}
	}
	return 0, true
}

// ---------------------------------------------------------------- cases

type col struct {
	Code     int  `json:"c"`
	Nullable bool `json:"n"`
}

type kase struct {
	Kind string     `json:"kind"` // rt | ord | pair | rawcmp | bool
	Desc []col      `json:"desc"`
	Rows [][]string `json:"rows"`
	Seed uint64     `json:"seed,omitempty"` // put-order shuffling
}

func (k kase) canon() string { b, _ := json.Marshal(k); return string(b) }

func descStr(cs []col) string {
	if len(cs) == 0 {
		return "-"
	}
	p := make([]string, len(cs))
	for i, c := range cs {
		n := 0
		if c.Nullable {
			n = 1
		}
		p[i] = fmt.Sprintf("%d:%d", c.Code, n)
	}
	return strings.Join(p, ",")
}

func mkDesc(cs []col) *val.TupleDesc {
	ts := make([]val.Type, len(cs))
	for i, c := range cs {
		ts[i] = val.Type{Enc: val.Encoding(c.Code), Nullable: c.Nullable}
	}
	return val.NewTupleDescriptor(ts...)
}

func errClass(msg string) string {
	switch {
	case strings.Contains(msg, "year is outside"):
		return "err year-range"
	case strings.Contains(msg, "cannot write NULL"):
		return "err null-in-nonnull"
	case strings.Contains(msg, "not of expected size"):
		return "err size"
	case strings.Contains(msg, "tuple data size exceeds"), strings.Contains(msg, "slice bounds"), strings.Contains(msg, "index out of range"):
		return "err slice"
	case strings.Contains(msg, "maxIdx exceeds"):
		return "err too-many-fields"
	case strings.Contains(msg, "unknown encoding"):
		return "err unknown-enc"
	case strings.Contains(msg, "unable to read decimal"):
		return "err decimal-special"
	case strings.Contains(msg, "malformed tuple"):
		return "err malformed"
	case strings.Contains(msg, "tuple field out of range"):
		return "err field-range"
	case strings.Contains(msg, "PutString:"):
		return "err slice"
	}
	return "err other:" + msg
}

func canonErr(s string) string {
	if s == "err data-too-large" {
		return "err slice" // explicit size panic and wrapped-uint16 slice panic are one class
	}
	return s
}

func rec(f func() string) string {
	s := hx.Recover(f)
	if strings.HasPrefix(s, "panic: ") {
		return errClass(s[len("panic: "):])
	}
	return s
}

type runner struct {
	e *hx.Env
	m *hx.Model
	// askEvery: ask the model for 1 of every n exhaustive cases (1 = all)
}

func (r *runner) ask(line string) string { return canonErr(r.m.Ask(line)) }

func fieldTok(b []byte) string {
	if b == nil {
		return "null"
	}
	return hx.Hex(b)
}

// buildRow builds a tuple from values through TupleBuilder (Build when allowed, else
// BuildPermissive) and returns it; panics propagate.
func buildRow(td *val.TupleDesc, row []gv, permissive bool, order []int, overwrite bool) val.Tuple {
	tb := val.NewTupleBuilder(td, nil)
	if order == nil {
		order = make([]int, len(row))
		for i := range order {
			order[i] = i
		}
	}
	for _, i := range order {
		if overwrite && !row[i].null && kindOf(row[i].enc) != kDec {
			// write something else first, then the real value: the last put wins
			other := row[i]
			switch kindOf(other.enc) {
			case kInt, kYear:
				if other.enc == val.YearEnc {
					other.i = 2000
				} else {
					other.i = 1
				}
			case kUint, kF32, kF64:
				other.u = 7
			case kDate, kDatetime:
				other.t = time.Date(2001, 2, 3, 0, 0, 0, 0, time.UTC)
			case kStr:
				other.b = []byte("overwritten-value")
			case kRaw:
				other.b = bytes.Repeat([]byte{0xee}, len(other.b))
			}
			put(tb, i, other)
		}
		put(tb, i, row[i])
	}
	var t val.Tuple
	var err error
	if permissive {
		t, err = tb.BuildPermissive(ctx, bp)
	} else {
		t, err = tb.Build(ctx, bp)
	}
	if err != nil {
		panic("build: " + err.Error())
	}
	return t
}

func parseRow(cs []col, toks []string) ([]gv, bool) {
	row := make([]gv, len(cs))
	for i, c := range cs {
		row[i] = parseVal(val.Encoding(c.Code), toks[i])
		if row[i].bad {
			return nil, false
		}
	}
	return row, true
}

func needsPermissive(cs []col, row []gv) bool {
	for i, c := range cs {
		if !c.Nullable && row[i].null {
			return true
		}
	}
	return false
}

func trimmedLen(row []gv) int {
	n := len(row)
	for n > 0 && row[n-1].null {
		n--
	}
	return n
}

// inDomain: the value is one the SQL type behind the encoding can hold (so writing it must work)
func inDomain(v gv) bool {
	switch kindOf(v.enc) {
	case kYear:
		return v.i == 0 || (v.i >= 1901 && v.i <= 2155)
	case kDec:
		return v.d.Exponent > -100000 && v.d.Exponent < 100000
	case kStr:
		return len(v.b) < 60000
	}
	return true
}

// rt: one value of one encoding: round trip + bytes + decoded token vs model
func (r *runner) runRT(k kase, askModel bool) {
	e := r.e
	enc := val.Encoding(k.Desc[0].Code)
	tok := k.Rows[0][0]
	v := parseVal(enc, tok)
	if v.bad {
		return
	}
	td := mkDesc(k.Desc)
	var tup val.Tuple
	impl := rec(func() string {
		tup = buildRow(td, []gv{v}, false, nil, false)
		return "ok " + fieldTok(td.GetField(0, tup))
	})
	e.Rep.Hit("rt:" + strconv.Itoa(int(enc)) + ":" + strings.SplitN(impl, " ", 2)[0])
	if strings.HasPrefix(impl, "ok ") {
		got, same := safeGet(td, 0, tup, v)
		if !same {
			e.Rep.Violate(fmt.Sprintf("roundtrip/enc%d", enc), fmt.Sprintf("encoding %d: wrote %s, read back %s (field bytes %s)", enc, tok, got, impl[3:]), k)
			return
		}
		if td.IsNull(0, tup) || tup.FieldIsNull(0) {
			e.Rep.Violate(fmt.Sprintf("empty-vs-null/enc%d", enc), fmt.Sprintf("encoding %d: non-NULL value %s reads back as NULL", enc, tok), k)
			return
		}
		if askModel {
			if dm := r.ask(fmt.Sprintf("dec %d %s", enc, impl[3:])); dm != "ok "+got {
				e.Rep.Disagree(k, "ok "+got, dm, "decode of the implementation's field bytes")
			}
		}
	}
	if !strings.HasPrefix(impl, "ok ") && inDomain(v) {
		e.Rep.Violate(fmt.Sprintf("domain/enc%d", enc), fmt.Sprintf("encoding %d rejects the valid value %s: %s", enc, tok, impl), k)
		return
	}
	if askModel {
		if mm := r.ask(fmt.Sprintf("enc %d %s", enc, tok)); mm != impl {
			e.Rep.Disagree(k, impl, mm, "encode")
		}
	}
}

// ord: two values of one encoding; NOT NULL descriptor (fixed-access path for fixed-width
// encodings) and nullable descriptor (GetField path) must both give the SQL order.
func (r *runner) runOrd(k kase, askModel bool) {
	e := r.e
	enc := val.Encoding(k.Desc[0].Code)
	a, b := parseVal(enc, k.Rows[0][0]), parseVal(enc, k.Rows[1][0])
	if a.bad || b.bad || a.null || b.null {
		return
	}
	var fa, fb []byte
	res := make([]string, 2)
	for j, nullable := range []bool{false, true} {
		td := mkDesc([]col{{int(enc), nullable}})
		res[j] = rec(func() string {
			ta := buildRow(td, []gv{a}, false, nil, false)
			tb := buildRow(td, []gv{b}, false, nil, false)
			fa, fb = td.GetField(0, ta), td.GetField(0, tb)
			c, err := td.Compare(ctx, ta, tb)
			if err != nil {
				return "err other:" + err.Error()
			}
			c2, _ := td.Compare(ctx, tb, ta)
			c3, _ := td.Compare(ctx, ta, ta)
			if _, defined := sqlCmp(a, b); defined && (sgn(c2) != -sgn(c) || c3 != 0) {
				return fmt.Sprintf("asym %d %d %d", c, c2, c3)
			}
			return fmt.Sprintf("ok %d", sgn(c))
		})
	}
	e.Rep.Hit("ord:" + strconv.Itoa(int(enc)) + ":" + res[0])
	want, defined := sqlCmp(a, b)
	if defined {
		for j, s := range res {
			if s != fmt.Sprintf("ok %d", want) {
				path := []string{"fixed-access", "getfield"}[j]
				e.Rep.Violate(fmt.Sprintf("order/enc%d", enc), fmt.Sprintf("encoding %d (%s path): Compare(%s, %s) = %s, the values compare %d", enc, path, k.Rows[0][0], k.Rows[1][0], s, want), k)
				return
			}
		}
	} else {
		e.Rep.Hit("ord:order-not-defined(NaN)")
	}
	if res[0] != res[1] {
		e.Rep.Violate(fmt.Sprintf("order-paths/enc%d", enc), fmt.Sprintf("encoding %d: fixed-access path says %s, GetField path says %s", enc, res[0], res[1]), k)
		return
	}
	if askModel && fa != nil && fb != nil {
		if mm := r.ask(fmt.Sprintf("cmp %d %s %s", enc, hx.Hex(fa), hx.Hex(fb))); mm != res[0] {
			e.Rep.Disagree(k, res[0], mm, "compare")
		}
	}
}

// pair: two rows of a multi-field descriptor: all build routes, round trip, order, model.
func (r *runner) runPair(k kase) {
	e := r.e
	td := mkDesc(k.Desc)
	ds := descStr(k.Desc)
	rng := hx.NewRng(k.Seed)
	tups := make([]val.Tuple, len(k.Rows))
	rows := make([][]gv, len(k.Rows))
	for ri, toks := range k.Rows {
		row, ok := parseRow(k.Desc, toks)
		if !ok {
			return
		}
		rows[ri] = row
		perm := needsPermissive(k.Desc, row)
		var t val.Tuple
		impl := rec(func() string {
			t = buildRow(td, row, perm, nil, false)
			return "ok " + hx.Hex(t)
		})
		// Build (strict) on a NULL in a NOT NULL column must panic
		if perm {
			strict := rec(func() string { buildRow(td, row, false, nil, false); return "ok" })
			if strict != "err null-in-nonnull" {
				e.Rep.Violate("build-nullcheck", "Build accepted NULL in a NOT NULL field: "+strict, k)
				return
			}
			e.Rep.Hit("pair:null-in-nonnull")
		}
		// model: the field vector the builder holds = the encodings of the values
		fields := make([]string, len(row))
		for i, v := range row {
			if v.null {
				fields[i] = "null"
			} else {
				fields[i] = strings.TrimPrefix(r.ask(fmt.Sprintf("enc %d %s", v.enc, toks[i])), "ok ")
			}
		}
		pm := "0"
		if perm {
			pm = "1"
		}
		if mm := r.ask(fmt.Sprintf("tb %s %s %s", ds, pm, strings.Join(fields, " "))); mm != impl {
			e.Rep.Disagree(k, impl, mm, fmt.Sprintf("row %d: tuple bytes", ri))
			// no return: the property's own predicate below is evaluated on the implementation regardless
		}
		if !strings.HasPrefix(impl, "ok ") {
			e.Rep.Hit("pair:build-" + impl)
			return
		}
		tups[ri] = t
		// a NULL in a NOT NULL column (BuildPermissive) is outside the precondition of the
		// fixed-access reads: such rows are read through the descriptor without fixed access
		tdr := td
		if perm {
			tdr = td.WithoutFixedAccess()
		}
		// ---- property: canonical bytes however built
		order := make([]int, len(row))
		for i := range order {
			order[i] = i
		}
		for i := len(order) - 1; i > 0; i-- {
			j := rng.Intn(i + 1)
			order[i], order[j] = order[j], order[i]
		}
		alt := map[string]val.Tuple{}
		if s := rec(func() string {
			alt["BuildPermissive"] = buildRow(td, row, true, nil, false)
			alt["shuffled+overwritten puts"] = buildRow(td, row, true, order, true)
			raw := make([][]byte, len(row))
			for i := range row {
				raw[i] = tdr.GetField(i, t)
			}
			alt["NewTuple(fields)"] = val.NewTuple(bp, raw...)
			// same values under a descriptor with extra trailing nullable columns left NULL
			ext := append(append([]col{}, k.Desc...), col{int(val.Int32Enc), true}, col{int(val.StringEnc), true})
			alt["extra trailing NULL columns"] = buildRow(mkDesc(ext), append(append([]gv{}, row...), gv{enc: val.Int32Enc, null: true}, gv{enc: val.StringEnc, null: true}), true, nil, false)
			alt["NewTuple(fields, nil, nil)"] = val.NewTuple(bp, append(raw, nil, nil)...)
			return "ok"
		}); s != "ok" {
			e.Rep.Violate("canonical/alt-build-failed", "alternative build route failed: "+s, k)
			return
		}
		for name, a := range alt {
			if !bytes.Equal(a, t) {
				e.Rep.Violate("canonical/"+name, fmt.Sprintf("same values, different bytes: Build=%s %s=%s", hx.Hex(t), name, hx.Hex(a)), k)
				return
			}
		}
		// ---- property: round trip, NULLs, count
		if t.Count() != trimmedLen(row) {
			e.Rep.Violate("count", fmt.Sprintf("Count=%d, values without trailing NULLs=%d", t.Count(), trimmedLen(row)), k)
			return
		}
		if trimmedLen(row) < len(row) {
			e.Rep.Hit("pair:trailing-null-trimmed")
		}
		for i, v := range row {
			got, same := safeGet(tdr, i, t, v)
			if !same || tdr.IsNull(i, t) != v.null {
				e.Rep.Violate(fmt.Sprintf("roundtrip/enc%d", v.enc), fmt.Sprintf("field %d: wrote %s, read back %s (null=%v)", i, toks[i], got, tdr.IsNull(i, t)), k)
				return
			}
			fb := rec(func() string { return "ok " + fieldTok(td.GetField(i, t)) })
			if mm := r.ask(fmt.Sprintf("dget %s %s %d", ds, hx.Hex(t), i)); mm != fb {
				e.Rep.Disagree(k, fb, mm, fmt.Sprintf("row %d TupleDesc.GetField(%d)", ri, i))
			}
			if mm := r.ask(fmt.Sprintf("get %s %d", hx.Hex(t), i)); mm != "ok "+fieldTok(t.GetField(i)) {
				e.Rep.Disagree(k, "ok "+fieldTok(t.GetField(i)), mm, fmt.Sprintf("row %d Tuple.GetField(%d)", ri, i))
			}
		}
	}
	if len(tups) < 2 || tups[0] == nil || tups[1] == nil {
		return
	}
	// ---- property: order.  Compare's fixed-access loop assumes NOT NULL columns are not NULL.
	if needsPermissive(k.Desc, rows[0]) || needsPermissive(k.Desc, rows[1]) {
		return
	}
	impl := rec(func() string {
		c, err := td.Compare(ctx, tups[0], tups[1])
		if err != nil {
			return "err other:" + err.Error()
		}
		return fmt.Sprintf("ok %d", sgn(c))
	})
	want, defined := rowCmp(rows[0], rows[1])
	if defined {
		if impl != fmt.Sprintf("ok %d", want) {
			e.Rep.Violate("tuple-order", fmt.Sprintf("Compare = %s, rows compare %d field by field with NULL first", impl, want), k)
			return
		}
		back := rec(func() string {
			c, _ := td.Compare(ctx, tups[1], tups[0])
			return fmt.Sprintf("ok %d", sgn(c))
		})
		if back != fmt.Sprintf("ok %d", -want) {
			e.Rep.Violate("tuple-order-antisym", fmt.Sprintf("Compare(a,b) = %s but Compare(b,a) = %s", impl, back), k)
			return
		}
		if want == 0 && !bytes.Equal(tups[0], tups[1]) {
			allExact := true
			for _, c := range k.Desc {
				switch kindOf(val.Encoding(c.Code)) {
				case kF32, kF64, kDec: // -0/+0 and 1.0/1.00 are equal values with different bytes
					allExact = false
				}
			}
			if allExact {
				e.Rep.Violate("equal-not-identical", fmt.Sprintf("rows compare equal but bytes differ: %s vs %s", hx.Hex(tups[0]), hx.Hex(tups[1])), k)
				return
			}
		}
	}
	e.Rep.Hit("pair:cmp:" + impl)
	if mm := r.ask(fmt.Sprintf("tcmp %s %s %s", ds, hx.Hex(tups[0]), hx.Hex(tups[1]))); mm != impl {
		e.Rep.Disagree(k, impl, mm, "TupleDesc.Compare")
	}
}

// rawcmp: arbitrary field bytes of the right size (e.g. packed dates with month 13 / day 0,
// decimal encodings with odd padding): correspondence only.
func (r *runner) runRawCmp(k kase) {
	enc := val.Encoding(k.Desc[0].Code)
	td := mkDesc(k.Desc)
	fa, fb := hx.Unhex(k.Rows[0][0]), hx.Unhex(k.Rows[1][0])
	impl := rec(func() string {
		ta, tb := val.NewTuple(bp, fa), val.NewTuple(bp, fb)
		c, err := td.Compare(ctx, ta, tb)
		if err != nil {
			return "err other:" + err.Error()
		}
		return fmt.Sprintf("ok %d", sgn(c))
	})
	r.e.Rep.Hit("rawcmp:" + strconv.Itoa(int(enc)) + ":" + strings.SplitN(impl, " ", 2)[0])
	if mm := r.ask(fmt.Sprintf("cmp %d %s %s", enc, hx.Hex(fa), hx.Hex(fb))); mm != impl {
		r.e.Rep.Disagree(k, impl, mm, "compare of raw field bytes")
	}
}

func (r *runner) runBool(k kase) {
	td := mkDesc([]col{{int(val.Int8Enc), false}})
	for _, b := range []bool{false, true} {
		tb := val.NewTupleBuilder(td, nil)
		tb.PutBool(0, b)
		t, _ := tb.Build(ctx, bp)
		got, ok := td.GetBool(0, t)
		if !ok || got != b {
			r.e.Rep.Violate("roundtrip/bool", fmt.Sprintf("PutBool(%v) read back %v ok=%v", b, got, ok), k)
		}
	}
}

func (r *runner) run(k kase, askModel bool) {
	switch k.Kind {
	case "rt":
		r.runRT(k, askModel)
	case "ord":
		r.runOrd(k, askModel)
	case "pair":
		r.runPair(k)
	case "rawcmp":
		r.runRawCmp(k)
	case "bool":
		r.runBool(k)
	}
}

// ---------------------------------------------------------------- generators

func one(enc val.Encoding, kind string, toks ...string) kase {
	k := kase{Kind: kind, Desc: []col{{int(enc), false}}}
	for _, t := range toks {
		k.Rows = append(k.Rows, []string{t})
	}
	return k
}

var intEdges64 = func() []int64 {
	out := []int64{0, 1, -1, 2, -2, math.MaxInt64, math.MinInt64, math.MaxInt64 - 1, math.MinInt64 + 1}
	for s := uint(1); s < 63; s++ {
		out = append(out, 1<<s, 1<<s-1, -(1 << s), -(1 << s) - 1, -(1 << s) + 1, 1<<s+1)
	}
	// byte-boundary pairs: numeric order differs from little-endian byte order
	for s := uint(8); s < 63; s += 8 {
		out = append(out, 0xff<<(s-8), 1<<s, 1<<s|0xff, 0x0100<<(s-8), 0x00ff<<(s-8))
	}
	return out
}()

func clampI(x int64, bits uint) int64 {
	if bits == 64 {
		return x
	}
	lo, hi := -(int64(1) << (bits - 1)), int64(1)<<(bits-1)-1
	if x < lo || x > hi {
		m := int64(1) << bits
		x = ((x-lo)%m+m)%m + lo
	}
	return x
}

func genInt(r *hx.Rng, bits uint) int64 {
	switch r.Intn(4) {
	case 0:
		return clampI(hx.Pick(r, intEdges64), bits)
	case 1:
		return clampI(hx.Pick(r, intEdges64)+int64(r.Range(-2, 2)), bits)
	case 2: // small magnitude, random sign
		return clampI(int64(r.Intn(70000))-35000, bits)
	}
	return clampI(int64(r.U64()), bits)
}

func genUint(r *hx.Rng, bits uint) uint64 {
	var x uint64
	switch r.Intn(4) {
	case 0:
		x = uint64(hx.Pick(r, intEdges64))
	case 1:
		x = uint64(hx.Pick(r, intEdges64)) + uint64(r.Range(0, 4)) - 2
	case 2:
		x = uint64(r.Intn(70000))
	default:
		x = r.U64()
	}
	if bits < 64 {
		x &= 1<<bits - 1
	}
	return x
}

var f64Edges = []float64{0, math.Copysign(0, -1), 1, -1, math.SmallestNonzeroFloat64, -math.SmallestNonzeroFloat64,
	math.MaxFloat64, -math.MaxFloat64, math.Inf(1), math.Inf(-1), 0.1, -0.1, 2.2250738585072014e-308, -2.2250738585072014e-308,
	1e300, -1e300, 123456.789, 4294967296, 9007199254740993}
var f32Edges = []float32{0, float32(math.Copysign(0, -1)), 1, -1, math.SmallestNonzeroFloat32, -math.SmallestNonzeroFloat32,
	math.MaxFloat32, -math.MaxFloat32, float32(math.Inf(1)), float32(math.Inf(-1)), 0.1, -0.1, 1.17549435e-38, 16777217}

func genF64(r *hx.Rng, allowNaN bool) uint64 {
	switch r.Intn(5) {
	case 0:
		return math.Float64bits(hx.Pick(r, f64Edges))
	case 1: // neighbour of an edge in bit space
		return math.Float64bits(hx.Pick(r, f64Edges)) + uint64(r.Range(0, 2)) - 1
	case 2:
		return math.Float64bits(float64(int64(r.U64()>>20)) / float64(int64(1)<<uint(r.Intn(40))) * float64(1-2*r.Intn(2)))
	case 3:
		if allowNaN {
			return 0x7ff0000000000000 | r.U64()&0x800fffffffffffff
		}
	}
	b := r.U64()
	if !allowNaN && b&0x7ff0000000000000 == 0x7ff0000000000000 {
		b &^= 0x0010000000000000
	}
	return b
}

func genF32(r *hx.Rng, allowNaN bool) uint64 {
	switch r.Intn(4) {
	case 0:
		return uint64(math.Float32bits(hx.Pick(r, f32Edges)))
	case 1:
		return uint64(math.Float32bits(hx.Pick(r, f32Edges)) + uint32(r.Range(0, 2)) - 1)
	case 2:
		if allowNaN {
			return uint64(0x7f800000 | uint32(r.U64())&0x807fffff)
		}
	}
	b := uint32(r.U64())
	if !allowNaN && b&0x7f800000 == 0x7f800000 {
		b &^= 0x00800000
	}
	return uint64(b)
}

var monthDays = []int{31, 28, 31, 30, 31, 30, 31, 31, 30, 31, 30, 31}

func leap(y int) bool { return y%4 == 0 && (y%100 != 0 || y%400 == 0) }

func genDate(r *hx.Rng) string {
	if r.Chance(1, 12) {
		return "zero"
	}
	y := hx.Pick(r, []int{0, 1, 4, 100, 400, 999, 1000, 1582, 1899, 1900, 1901, 1969, 1970, 1999, 2000, 2001, 2024, 2038, 2100, 2155, 9999, 255, 256, 257, 65535, 511})
	if r.Chance(1, 2) {
		y = r.Intn(10000)
	}
	m := r.Range(1, 12)
	dim := monthDays[m-1]
	if m == 2 && leap(y) {
		dim = 29
	}
	d := r.Range(1, dim)
	switch r.Intn(4) {
	case 0:
		d = dim
	case 1:
		d = 1
	}
	if r.Chance(1, 6) {
		m, d = hx.Pick(r, [][2]int{{1, 1}, {12, 31}, {2, 28}, {3, 1}})[0], 1
	}
	return fmt.Sprintf("%d-%d-%d", y, m, d)
}

var dtLo = time.Date(0, 1, 1, 0, 0, 0, 0, time.UTC).UnixMicro()
var dtHi = time.Date(9999, 12, 31, 23, 59, 59, 999999000, time.UTC).UnixMicro()

func genDatetime(r *hx.Rng) int64 {
	switch r.Intn(5) {
	case 0:
		return hx.Pick(r, []int64{0, 1, -1, dtLo, dtHi, gmstypes.ZeroTime.UnixMicro(), 999999, 1000000, -1000000, 86400000000, -86400000000, 1 << 32, 1<<32 - 1, -(1 << 32), 255, 256, 65535, 65536})
	case 1:
		return dtLo + int64(r.U64()%uint64(dtHi-dtLo))
	case 2: // around now
		return 1700000000000000 + int64(r.Intn(1000000000)) - 500000000
	case 3:
		return int64(r.Intn(200000)) - 100000
	}
	return clampI(hx.Pick(r, intEdges64), 64)/1024 + int64(r.Intn(3))
}

func genDecimal(r *hx.Rng) string {
	if r.Chance(1, 12) {
		return hx.Pick(r, []string{"nan", "inf", "-inf"})
	}
	var c *big.Int
	switch r.Intn(6) {
	case 0:
		c = big.NewInt(0)
	case 1:
		c = big.NewInt(int64(r.Intn(1000)))
	case 2: // around a word boundary
		c = new(big.Int).Lsh(big.NewInt(1), uint(hx.Pick(r, []int{63, 64, 65, 127, 128, 129, 8, 16, 56})))
		c.Add(c, big.NewInt(int64(r.Range(-2, 2))))
	case 3: // power of ten +-1 (NumDigits boundary)
		c = new(big.Int).Exp(big.NewInt(10), big.NewInt(int64(r.Intn(40))), nil)
		c.Add(c, big.NewInt(int64(r.Range(-1, 1))))
	default:
		c = new(big.Int).SetBytes(r.Bytes(r.Range(1, 20)))
	}
	c.Abs(c)
	neg := 0
	if r.Chance(2, 5) {
		neg = 1
	}
	ex := -r.Intn(31)
	switch r.Intn(8) {
	case 0:
		ex = r.Intn(10)
	case 1:
		ex = hx.Pick(r, []int{0, -1, 1, -65, 30, math.MaxInt32, math.MinInt32, 0xc000, 0xd000, 0xf000, -100000})
	}
	return fmt.Sprintf("%d:%s:%d", neg, c.String(), ex)
}

// a second decimal close to / equal in value to the first (scaled representations)
func decimalNear(r *hx.Rng, tok string) string {
	p := strings.Split(tok, ":")
	if len(p) != 3 {
		if r.Chance(2, 3) {
			return hx.Pick(r, []string{"nan", "inf", "-inf"})
		}
		return genDecimal(r)
	}
	c, _ := new(big.Int).SetString(p[1], 10)
	ex, _ := strconv.Atoi(p[2])
	if ex < -1000 || ex > 1000 {
		return genDecimal(r)
	}
	k := r.Intn(4)
	c = new(big.Int).Mul(c, new(big.Int).Exp(big.NewInt(10), big.NewInt(int64(k)), nil))
	ex -= k
	c.Add(c, big.NewInt(int64(r.Range(-1, 1))))
	c.Abs(c)
	neg := p[0]
	if r.Chance(1, 6) {
		neg = "1"
	}
	return fmt.Sprintf("%s:%s:%d", neg, c.String(), ex)
}

var strAtoms = [][]byte{{}, {0}, {0, 0}, {0xff}, {0xff, 0xff}, []byte("a"), []byte("A"), []byte("b"), []byte("ab"), []byte("a\x00"), []byte("a\x00b"),
	[]byte("abc"), []byte("\xc3\xa9"), []byte("e"), []byte("\x7f"), []byte("\x80"), []byte(" "), []byte("Z"), []byte("z")}

func genStr(r *hx.Rng) []byte {
	switch r.Intn(5) {
	case 0:
		return hx.Pick(r, strAtoms)
	case 1:
		return r.Bytes(r.Intn(12))
	case 2:
		n := hx.Pick(r, []int{127, 128, 129, 255, 256, 257, 1000})
		return bytes.Repeat(hx.Pick(r, strAtoms[3:]), n)[:n]
	}
	var b []byte
	for i := r.Range(1, 4); i > 0; i-- {
		b = append(b, hx.Pick(r, strAtoms)...)
	}
	return b
}

func strNear(r *hx.Rng, a []byte) []byte {
	b := append([]byte{}, a...)
	switch r.Intn(5) {
	case 0:
		return b
	case 1:
		return append(b, hx.Pick(r, []byte{0, 1, 0xff, 'a'}))
	case 2:
		if len(b) > 0 {
			return b[:len(b)-1]
		}
	case 3:
		if len(b) > 0 {
			i := r.Intn(len(b))
			b[i] += byte(r.Range(1, 2))*2 - 3
		}
	}
	return b
}

func genRaw(r *hx.Rng, n int) []byte {
	b := make([]byte, n)
	switch r.Intn(4) {
	case 0:
	case 1:
		for i := range b {
			b[i] = 0xff
		}
	default:
		copy(b, r.Bytes(n))
	}
	if r.Chance(1, 2) {
		b[r.Intn(n)] = byte(r.U64())
	}
	return b
}

var wideEncs = []val.Encoding{val.Int32Enc, val.Uint32Enc, val.Int64Enc, val.Uint64Enc, val.Float32Enc, val.Float64Enc, val.Bit64Enc,
	val.DecimalEnc, val.DateEnc, val.TimeEnc, val.DatetimeEnc, val.SetEnc, val.StringEnc, val.ByteStringEnc, val.Hash128Enc,
	val.CellEnc, val.BytesAddrEnc, val.CommitAddrEnc, val.StringAddrEnc, val.JSONAddrEnc, val.GeomAddrEnc}
var narrowEncs = []val.Encoding{val.Int8Enc, val.Uint8Enc, val.Int16Enc, val.Uint16Enc, val.YearEnc, val.EnumEnc}

func genTok(r *hx.Rng, e val.Encoding, nan bool) string {
	switch e {
	case val.Int8Enc:
		return fmt.Sprint(genInt(r, 8))
	case val.Int16Enc:
		return fmt.Sprint(genInt(r, 16))
	case val.Int32Enc:
		return fmt.Sprint(genInt(r, 32))
	case val.Int64Enc, val.TimeEnc:
		return fmt.Sprint(genInt(r, 64))
	case val.Uint8Enc:
		return fmt.Sprint(genUint(r, 8))
	case val.Uint16Enc, val.EnumEnc:
		return fmt.Sprint(genUint(r, 16))
	case val.Uint32Enc:
		return fmt.Sprint(genUint(r, 32))
	case val.Uint64Enc, val.Bit64Enc, val.SetEnc:
		return fmt.Sprint(genUint(r, 64))
	case val.Float32Enc:
		return fmt.Sprint(genF32(r, nan))
	case val.Float64Enc:
		return fmt.Sprint(genF64(r, nan))
	case val.YearEnc:
		if r.Chance(1, 8) {
			return "0"
		}
		return fmt.Sprint(hx.Pick(r, []int{1901, 1902, 2155, 2154, 2000, 1901 + r.Intn(255)}))
	case val.DateEnc:
		return genDate(r)
	case val.DatetimeEnc:
		return fmt.Sprint(genDatetime(r))
	case val.DecimalEnc:
		return genDecimal(r)
	case val.StringEnc, val.ByteStringEnc:
		return hx.Hex(genStr(r))
	}
	return hx.Hex(genRaw(r, rawLen(e)))
}

// a value near/equal to tok (so that comparisons are decided late or are ties)
func nearTok(r *hx.Rng, e val.Encoding, tok string) string {
	if r.Chance(1, 4) {
		return tok
	}
	switch kindOf(e) {
	case kInt, kDatetime:
		x, _ := strconv.ParseInt(tok, 10, 64)
		bits := map[val.Encoding]uint{val.Int8Enc: 8, val.Int16Enc: 16, val.Int32Enc: 32}[e]
		if bits == 0 {
			bits = 64
		}
		return fmt.Sprint(clampI(x+int64(hx.Pick(r, []int{-1, 1, 255, 256, -256, 65536})), bits))
	case kUint:
		x, _ := strconv.ParseUint(tok, 10, 64)
		bits := map[val.Encoding]uint{val.Uint8Enc: 8, val.Uint16Enc: 16, val.EnumEnc: 16, val.Uint32Enc: 32}[e]
		x += uint64(hx.Pick(r, []int{-1, 1, 255, 256, -256, 65536}))
		if bits != 0 {
			x &= 1<<bits - 1
		}
		return fmt.Sprint(x)
	case kStr:
		return hx.Hex(strNear(r, hx.Unhex(tok)))
	case kRaw:
		b := append([]byte{}, hx.Unhex(tok)...)
		i := hx.Pick(r, []int{0, len(b) - 1, r.Intn(len(b))})
		b[i] += byte(r.Range(0, 1))*2 - 1
		return hx.Hex(b)
	case kDec:
		return decimalNear(r, tok)
	}
	return genTok(r, e, false)
}

func main() {
	e := hx.Init("valcodec", "C15")
	defer e.Finish()
	e.Rep.Rule = "kinds rt (one value: encode/decode), ord (two values of one encoding, NOT NULL fixed-access path and nullable GetField path), pair (two rows of a 1..6-field descriptor, every build route), rawcmp (arbitrary field bytes, correspondence only); exhaustive over all int8/uint8/int16/uint16/enum/year values and all 8-bit pairs; wider encodings from boundary tables (+-2^k, byte-boundary pairs whose numeric and little-endian byte orders differ, float edges and bit-neighbours, calendar edges, decimal word/digit boundaries and rescaled equal values, strings that are prefixes/extensions/embedded-NUL variants of each other) and random values; nontrivial = the two values differ, or a NULL/trailing NULL is present, or the value is a boundary; distinct by the JSON of the case"
	m := e.MustModel()
	defer m.Close()
	r := &runner{e: e, m: m}
	if e.Replay != "" {
		rf, err := hx.LoadReplay(e.Replay)
		if err != nil {
			panic(err)
		}
		var k kase
		json.Unmarshal(rf.Case, &k)
		r.run(k, true)
		e.Rep.Count(k.canon(), true)
		return
	}
	for _, raw := range e.CorpusCases() {
		var k kase
		if json.Unmarshal(raw, &k) == nil {
			r.run(k, true)
			e.Rep.Count(k.canon(), true)
		}
	}
	rng := e.Rng
	do := func(k kase, ask bool) {
		r.run(k, ask)
		nontrivial := true
		if len(k.Rows) == 2 && len(k.Rows[0]) == 1 && k.Rows[0][0] == k.Rows[1][0] {
			nontrivial = false
		}
		e.Rep.Count(k.canon(), nontrivial)
		if e.Rep.Evaluations%5000 == 1 {
			e.Rep.Sample(k)
		}
	}
	r.run(kase{Kind: "bool"}, false)

	// ---- exhaustive: 8- and 16-bit encodings (the implementation's predicate on every value; the
	// model is asked for every value in the thorough tier, for a 1/every sample in the quick tier)
	every := e.N(8, 1)
	n := 0
	for v := -128; v <= 127; v++ {
		do(one(val.Int8Enc, "rt", fmt.Sprint(v)), true)
		do(one(val.Uint8Enc, "rt", fmt.Sprint(v+128)), true)
	}
	for v := -32768; v <= 32767; v++ {
		n++
		ask := n%every == 0 || v < -32700 || v > 32700 || (v > -300 && v < 300)
		do(one(val.Int16Enc, "rt", fmt.Sprint(v)), ask)
		do(one(val.Uint16Enc, "rt", fmt.Sprint(v+32768)), ask)
		do(one(val.EnumEnc, "rt", fmt.Sprint(v+32768)), ask)
		// year: every int16, valid or not (invalid ones must be rejected by both)
		if (v >= 1850 && v <= 2200) || (v >= -2 && v <= 2) || n%every == 0 {
			do(one(val.YearEnc, "rt", fmt.Sprint(v)), true)
		}
		// adjacent pairs + a byte-swapped partner (numeric vs little-endian order)
		if v < 32767 {
			do(one(val.Int16Enc, "ord", fmt.Sprint(v), fmt.Sprint(v+1)), ask)
			do(one(val.Uint16Enc, "ord", fmt.Sprint(v+32768), fmt.Sprint(v+32769)), ask)
		}
		u := uint16(v)
		sw := u<<8 | u>>8
		do(one(val.Uint16Enc, "ord", fmt.Sprint(u), fmt.Sprint(sw)), ask)
		do(one(val.Int16Enc, "ord", fmt.Sprint(int16(u)), fmt.Sprint(int16(sw))), ask)
		do(one(val.EnumEnc, "ord", fmt.Sprint(u), fmt.Sprint(sw)), ask)
	}
	for a := 0; a < 256; a++ {
		for b := 0; b < 256; b++ {
			n++
			ask := n%every == 0
			do(one(val.Int8Enc, "ord", fmt.Sprint(a-128), fmt.Sprint(b-128)), ask)
			do(one(val.Uint8Enc, "ord", fmt.Sprint(a), fmt.Sprint(b)), ask)
			if a != 255 && b != 255 { // year byte 255 is the zero token: covered through value 0
				ya, yb := 1901+a, 1901+b
				if a == 0 {
					ya = 0
				}
				do(one(val.YearEnc, "ord", fmt.Sprint(ya), fmt.Sprint(yb)), ask)
			}
		}
	}

	// ---- wide encodings: boundary + random
	nw := e.N(60000, 1000000)
	for i := 0; i < nw; i++ {
		enc := hx.Pick(rng, wideEncs)
		if rng.Chance(1, 12) {
			enc = hx.Pick(rng, narrowEncs)
		}
		a := genTok(rng, enc, rng.Chance(1, 20))
		switch rng.Intn(3) {
		case 0:
			do(one(enc, "rt", a), true)
		default:
			b := genTok(rng, enc, rng.Chance(1, 20))
			if rng.Chance(1, 2) {
				b = nearTok(rng, enc, a)
			}
			do(one(enc, "ord", a, b), true)
		}
	}

	// ---- raw field bytes (correspondence only): packed dates outside the calendar, years
	nr := e.N(6000, 150000)
	for i := 0; i < nr; i++ {
		switch rng.Intn(3) {
		case 0, 1:
			mk := func() string {
				y, mth, d := rng.Intn(10000), rng.Intn(16), rng.Intn(40)
				if rng.Chance(1, 5) {
					y, mth, d = int(rng.U64()&0xffff), int(rng.U64()&0xff), int(rng.U64()&0xff)
				}
				t := uint32(y)<<16 | uint32(mth)<<8 | uint32(d)
				return hx.Hex([]byte{byte(t), byte(t >> 8), byte(t >> 16), byte(t >> 24)})
			}
			do(one(val.DateEnc, "rawcmp", mk(), mk()), true)
		default:
			do(one(val.YearEnc, "rawcmp", hx.Hex([]byte{byte(rng.U64())}), hx.Hex([]byte{byte(rng.U64())})), true)
		}
	}

	// ---- tuples: 1..6 fields, every nullability pattern, all build routes
	all := append(append([]val.Encoding{}, wideEncs...), narrowEncs...)
	np := e.N(2500, 20000)
	for i := 0; i < np; i++ {
		nf := rng.Range(1, 6)
		desc := make([]col, nf)
		fixedPrefix := rng.Intn(nf + 1) // leading NOT NULL columns (fixed-access path when fixed-width)
		for j := range desc {
			enc := hx.Pick(rng, all)
			if j < fixedPrefix && rng.Chance(3, 4) {
				enc = hx.Pick(rng, []val.Encoding{val.Int32Enc, val.Uint8Enc, val.Int64Enc, val.YearEnc, val.DateEnc, val.Int16Enc, val.CommitAddrEnc, val.Float64Enc, val.DatetimeEnc, val.Hash128Enc})
			}
			desc[j] = col{int(enc), j >= fixedPrefix || rng.Chance(1, 10)}
		}
		base := make([]string, nf)
		for j := range base {
			base[j] = genTok(rng, val.Encoding(desc[j].Code), false)
		}
		// every nullability pattern of the nullable columns for row a; row b shares a prefix
		for mask := 0; mask < 1<<nf; mask++ {
			a := append([]string{}, base...)
			skip := false
			for j := 0; j < nf; j++ {
				if mask>>j&1 == 1 {
					if !desc[j].Nullable && !rng.Chance(1, 30) {
						skip = true
					}
					a[j] = "null"
				}
			}
			if skip {
				continue
			}
			b := append([]string{}, a...)
			split := rng.Intn(nf + 1)
			for j := split; j < nf; j++ {
				switch rng.Intn(4) {
				case 0:
					if desc[j].Nullable {
						b[j] = "null"
					}
				case 1:
					if b[j] != "null" {
						b[j] = nearTok(rng, val.Encoding(desc[j].Code), b[j])
					}
				case 2:
					b[j] = genTok(rng, val.Encoding(desc[j].Code), false)
				}
			}
			do(kase{Kind: "pair", Desc: desc, Rows: [][]string{a, b}, Seed: rng.U64()}, true)
		}
	}
	e.Rep.Note("float order: non-NaN values only, against Go's < on the decoded floats (correspondence; the Lean model orders bit patterns); NaN pairs are compared with the model only")
	e.Rep.Note("collated string order is outside val (go-mysql-server); StringEnc is compared bytewise")
}
