// clusterhook: the REAL cluster standby-replication commit hook (sqle/cluster.commithook, reached
// through the verif-tag export VerifCommitHook) driven step by step against a scripted destination
// (replfault.GateStore over a real NBS store): every replication attempt parks at its first
// destination call until the harness makes it succeed, fail, or succeed with a lost
// acknowledgement.  Steps: writes on the primary (SQL), hook.Execute, attempt outcomes, standby
// "restarts" (the running attempt fails), graceful transition (isCaughtUp, then setRole).
//
// After every step
//   * the implementation's (primary root, standby root, role, nextHead, lastPushedHead, attempt
//     parked?, #waiters, acknowledged commits) is compared with Model/Replication.lean machine A;
//   * the property's own predicates are evaluated on the implementation: the standby's root is a
//     root the primary had, never older than one it showed before, its closure is readable; an
//     acknowledged commit is contained in a root the standby showed; a completed graceful
//     transition leaves the standby at the root the last Execute recorded, containing every
//     acknowledged commit.
// The `recur` case replays the refutation witness of Props/C45 `graceful_exact_full_false` (root
// A → B → A with a lost acknowledgement for B).
package main

import (
	"context"
	"encoding/json"
	"fmt"
	"io"
	"os"
	"path/filepath"
	"sort"
	"strings"
	"sync/atomic"
	"time"

	"github.com/dolthub/go-mysql-server/sql"
	"github.com/sirupsen/logrus"

	"github.com/dolthub/dolt/go/libraries/doltcore/doltdb"
	"github.com/dolthub/dolt/go/libraries/doltcore/sqle/cluster"
	"github.com/dolthub/dolt/go/libraries/utils/filesys"
	"github.com/dolthub/dolt/go/store/chunks"
	"github.com/dolthub/dolt/go/store/datas"
	"github.com/dolthub/dolt/go/store/hash"
	"github.com/dolthub/dolt/go/store/types"

	"verif/harness/internal/hx"
	"verif/harness/internal/replfault"
	"verif/harness/internal/sqleng"
)

type kase struct {
	Kind  string `json:"kind"` // random | recur
	Seed  uint64 `json:"seed"`
	Steps int    `json:"steps"`
}

var ctx = context.Background()

type waiter struct {
	root int
	f    func(context.Context) error
	done bool
}

type world struct {
	e       *hx.Env
	k       kase
	r       *hx.Rng
	m       *hx.Model
	eng     *sqleng.Engine
	s       *sqleng.Session
	src     *doltdb.DoltDB
	gate    *replfault.GateStore
	hook    *cluster.VerifCommitHook
	parked  atomic.Int64
	num     map[hash.Hash]int // primary roots in order of appearance (1 = initial)
	fresh   int
	waiters []*waiter
	acked   map[int]bool
	maxS    int // largest standby root number shown so far
	ro      bool
	backoff bool
	nrow    int
	trace   []string
	dead    bool
	last    string // last model response
	recurred bool  // a primary root has recurred in this case (numbers are no longer ordered)
	hooked   bool  // Execute has run since the last write
	tmp      bool  // branch tmp exists
	lostAck  bool  // a lost acknowledgement happened in this case
	shown    hash.Hash
}

func (w *world) logf(f string, a ...any) { w.trace = append(w.trace, fmt.Sprintf(f, a...)) }
func (w *world) tr() string {
	t := w.trace
	if len(t) > 60 {
		t = t[len(t)-60:]
	}
	return strings.Join(t, " ; ")
}
func (w *world) violate(key, what string) { w.e.Rep.Violate(key, what+" | steps: "+w.tr(), w.k) }
func (w *world) disagree(impl, model, note string) {
	w.e.Rep.Disagree(w.k, impl, model, note+" | steps: "+w.tr())
	w.dead = true // the two sides have diverged; stop this case
}

func (w *world) ask(line string) string {
	resp := w.m.Ask(line)
	if strings.HasPrefix(resp, "model-dead") || resp == "bad-op" {
		panic("model: " + line + " -> " + resp)
	}
	return resp
}

func field(line, key string) string {
	for _, f := range strings.Fields(line) {
		if strings.HasPrefix(f, key+"=") {
			return strings.TrimPrefix(f, key+"=")
		}
	}
	return ""
}

func (w *world) primaryRoot() hash.Hash {
	h, err := w.src.NomsRoot(ctx)
	if err != nil {
		panic(err)
	}
	return h
}

func (w *world) standbyRoot() hash.Hash {
	cs := w.gate.Underlying()
	if err := cs.Rebase(ctx); err != nil {
		panic(err)
	}
	h, err := cs.Root(ctx)
	if err != nil {
		panic(err)
	}
	return h
}

func (w *world) n(h hash.Hash) int {
	if h.IsEmpty() {
		return 0
	}
	if v, ok := w.num[h]; ok {
		return v
	}
	return -1
}

// waitFor polls cond for up to d.
func waitFor(d time.Duration, cond func() bool) bool {
	end := time.Now().Add(d)
	for time.Now().Before(end) {
		if cond() {
			return true
		}
		time.Sleep(2 * time.Millisecond)
	}
	return cond()
}

// settle waits until the replicate thread is parked on its condition variable or at the gate.
func (w *world) settle(before int64, wantGate bool) {
	if wantGate {
		if !waitFor(60*time.Second, w.gate.Waiting) {
			w.disagree("replicate thread did not start an attempt within 5 s", "begin enabled", "settle")
		}
		return
	}
	// no attempt expected: give the thread a moment; it must not show up at the gate
	waitFor(300*time.Millisecond, func() bool { return w.parked.Load() > before })
	time.Sleep(5 * time.Millisecond)
}

func (w *world) pollAcks() {
	for _, wt := range w.waiters {
		if wt.done {
			continue
		}
		c, cancel := context.WithTimeout(ctx, 30*time.Millisecond)
		err := wt.f(c)
		cancel()
		if err == nil {
			wt.done = true
			w.acked[wt.root] = true
			// ack_implies_replicated on the implementation
			if w.maxS < wt.root && !w.recurred {
				w.violate("ack-before-replicated", fmt.Sprintf("the replication wait of the commit with root #%d returned nil but the standby has only ever shown roots up to #%d", wt.root, w.maxS))
			}
		}
	}
}

func (w *world) implLine() string {
	st := w.hook.State()
	out := 0
	for _, wt := range w.waiters {
		if !wt.done {
			out++
		}
	}
	var ak []int
	for r := range w.acked {
		ak = append(ak, r)
	}
	sort.Ints(ak)
	infl := "-"
	if w.gate.Waiting() {
		infl = "some"
	}
	role := "primary"
	if st.Role != cluster.RolePrimary {
		role = "standby"
	}
	return fmt.Sprintf("proot=%d sroot=%d role=%s next=%d last=%d inflight=%s waiters=%d acked=%v",
		w.n(w.primaryRoot()), w.n(w.standbyRoot()), role, w.n(st.NextHead), w.n(st.LastPushedHead), infl, out, ak)
}

func modelLine(resp string) string {
	infl := field(resp, "inflight")
	if infl != "-" {
		infl = "some"
	}
	var ak []int
	seen := map[int]bool{}
	for _, p := range strings.Split(strings.Trim(field(resp, "acked"), "[]"), ",") {
		var v int
		if _, err := fmt.Sscanf(p, "%d", &v); err == nil && !seen[v] {
			seen[v] = true
			ak = append(ak, v)
		}
	}
	sort.Ints(ak)
	return fmt.Sprintf("proot=%s sroot=%s role=%s next=%s last=%s inflight=%s waiters=%s acked=%v",
		field(resp, "proot"), field(resp, "sroot"), field(resp, "role"), field(resp, "next"), field(resp, "last"), infl, field(resp, "waiters"), ak)
}

var walk = types.WalkAddrsForNBF(types.Format_DOLT, nil)

// oracle: safety predicates on the implementation's standby
func (w *world) checkStandby(after string) {
	sr := w.standbyRoot()
	if sr.IsEmpty() {
		return
	}
	k, ok := w.num[sr]
	if !ok {
		w.violate("standby-invented-root", fmt.Sprintf("after %s the standby's root %s was never a root of the primary", after, sr))
		return
	}
	if k < w.maxS && !w.recurred {
		w.violate("standby-went-back", fmt.Sprintf("after %s the standby's root went from #%d back to #%d", after, w.maxS, k))
	}
	if k > w.maxS {
		w.maxS = k
	}
	if sr != w.shown {
		w.shown = sr
		// closure readable at the standby (first time this root is shown)
		cs := w.gate.Underlying()
		seen := map[hash.Hash]bool{}
		q := []hash.Hash{sr}
		for len(q) > 0 {
			h := q[len(q)-1]
			q = q[:len(q)-1]
			if seen[h] {
				continue
			}
			seen[h] = true
			c, err := cs.Get(ctx, h)
			if err != nil {
				panic(err)
			}
			if c.IsEmpty() {
				w.violate("standby-dangling", fmt.Sprintf("after %s the standby shows root #%d but chunk %s reachable from it is missing", after, k, h))
				return
			}
			walk(c, func(r hash.Hash, _ bool) error { q = append(q, r); return nil })
		}
	}
}

// checkCaughtUp — the lemma behind graceful_no_ack_loss, on the implementation: a primary hook that
// reports isCaughtUp (the condition a graceful transition waits for) and is not running an attempt
// has a standby at the root the last Execute recorded, and — when Execute has run since the last
// write — at the primary's root.  The one exception is the known finding: the MODEL OF THE UNCHANGED
// CODE predicts the same stale standby for this exact step sequence and the sequence contains a
// lost acknowledgement; then the witness is reported as Known.  Everything else is a violation.
func (w *world) checkCaughtUp(after, resp string) {
	st := w.hook.State()
	if st.Role != cluster.RolePrimary || !st.CaughtUp || w.gate.Waiting() {
		return
	}
	sr, pr := w.standbyRoot(), w.primaryRoot()
	if sr == st.NextHead && (!w.hooked || sr == pr) {
		return
	}
	mNext, mLast, mS, mP := field(resp, "next"), field(resp, "last"), field(resp, "sroot"), field(resp, "proot")
	modelStale := field(resp, "role") == "primary" && field(resp, "inflight") == "-" && mNext != "0" && mNext == mLast &&
		(mS != mNext || (w.hooked && mS != mP))
	what := fmt.Sprintf("after %s the hook reports isCaughtUp (nextHead = lastPushedHead = #%d, Execute ran since the last write: %v) but the standby's root is #%d and the primary's is #%d",
		after, w.n(st.NextHead), w.hooked, w.n(sr), w.n(pr))
	if modelStale && w.lostAck && w.recurred {
		if w.k.Kind == "recur" {
			return // runRecur reports the witness with its full description
		}
		w.e.Rep.Known("cluster-root-recurrence-lost-ack-standby-stale", what+" — root recurrence after a lost acknowledgement (see design/C45.md) | steps: "+w.tr(), w.k)
		w.e.Rep.Hit("known:root-recurrence-lost-ack")
		return
	}
	w.violate("caught-up-but-standby-differs", what)
}

// step performs one model step on both sides and compares.
func (w *world) step(name string) {
	if w.dead {
		return
	}
	before := w.parked.Load()
	implRes := "ok"
	mcmd := name
	switch name {
	case "init":
		// the replicate thread does this by itself when it comes up
	case "write", "writeBranch", "revert":
		// the caller has already checked that the model accepts the write
		var r *sqleng.Result
		switch name {
		case "write":
			w.nrow++
			r = w.s.Exec(fmt.Sprintf("insert into t values (%d, 'v%d')", w.nrow, w.nrow))
			if r.Err == nil && w.r.Chance(1, 4) {
				r = w.s.Exec(fmt.Sprintf("call dolt_commit('-Am','c%d')", w.nrow))
			}
		case "writeBranch":
			r = w.s.Exec("call dolt_branch('tmp')")
		case "revert":
			r = w.s.Exec("call dolt_branch('-D','tmp')")
		}
		if r.Err != nil {
			panic(fmt.Sprintf("write failed: %v", r.Err))
		}
		h := w.primaryRoot()
		w.hooked = false
		switch name {
		case "writeBranch":
			w.tmp = true
		case "revert":
			w.tmp = false
		}
		if k, ok := w.num[h]; ok {
			// the primary's root hash has returned to an earlier value (content addressing)
			w.recurred = true
			mcmd = fmt.Sprintf("revert %d", k)
			w.e.Rep.Hit("write:root-recurred")
		} else {
			if name == "revert" && w.k.Kind == "recur" {
				w.e.Rep.Hit("recur:root-did-not-recur")
				w.dead = true
				return
			}
			w.fresh++
			w.num[h] = w.fresh
			mcmd = "write"
		}
	case "exec":
		ds, err := doltdb.ExposeDatabaseFromDoltDB(w.src).GetDataset(ctx, "refs/heads/main")
		if err != nil {
			panic(err)
		}
		root := w.n(w.primaryRoot())
		w.hooked = true
		f, err := w.hook.Execute(ctx, ds, w.src)
		if err != nil {
			panic(err)
		}
		if f != nil {
			w.waiters = append(w.waiters, &waiter{root: root, f: f})
		}
	case "begin":
		if w.backoff {
			w.hook.Kick()
			w.backoff = false
		}
	case "finishOk":
		w.gate.Release(replfault.OutOK)
	case "finishFail", "standbyRestart":
		if w.gate.Waiting() {
			w.gate.Release(replfault.OutFail)
		}
	case "finishLostAck":
		w.lostAck = true
		w.gate.Release(replfault.OutLost)
	case "beginGraceful":
		w.ro = true
	case "completeGraceful":
		st := w.hook.State()
		if w.ro && st.Role == cluster.RolePrimary && st.CaughtUp {
			nh := st.NextHead
			w.hook.SetRole(cluster.RoleStandby)
			// graceful_no_ack_loss on the implementation
			sr := w.standbyRoot()
			if sr != nh {
				w.violate("graceful-standby-not-at-last-hooked-root", fmt.Sprintf("graceful transition completed (hook caught up) but the standby's root is #%d and the last root Execute recorded is #%d", w.n(sr), w.n(nh)))
			}
			for a := range w.acked {
				if a > w.n(sr) {
					w.violate("graceful-lost-acked-write", fmt.Sprintf("graceful transition completed; acknowledged commit #%d is not contained in the new primary's root #%d", a, w.n(sr)))
				}
			}
		} else {
			implRes = "rejected"
		}
	}

	mname := mcmd
	prev := w.last
	resp := w.ask("c " + mname)
	modelRes := strings.Fields(resp)[0]
	logName := name
	if modelRes == "ok" {
		switch name {
		case "finishFail", "finishLostAck", "standbyRestart":
			// attemptReplicate backs off for 1 s only when no newer head arrived during the attempt
			if field(prev, "inflight") != "-" {
				w.backoff = field(prev, "inflight") == field(resp, "next")
			}
		case "exec":
			// Execute resets nextPushAttempt when it records a head different from nextHead
			if field(prev, "next") != field(resp, "next") {
				w.backoff = false
			}
		case "begin":
			w.backoff = false
		case "completeGraceful":
			w.backoff = false
		}
	}
	// the real replicate thread starts an attempt as soon as it may (unless backing off): mirror it
	if name != "begin" && !w.backoff {
		if r2 := w.ask("c begin"); strings.HasPrefix(r2, "ok") {
			resp = r2
			logName = name + " ; begin"
			w.e.Rep.Hit("step:begin")
		}
	}
	w.last = resp

	// settle the implementation: parked at the gate, or parked on its condition variable
	if field(resp, "inflight") != "-" {
		if !waitFor(60*time.Second, func() bool { return w.gate.Waiting() }) {
			w.logf("%s", logName)
			w.checkStandby(name)
			w.pollAcks()
			w.checkCaughtUp(logName, resp)
			w.disagree("no attempt parked at the gate within 60 s: "+w.implLine(), modelRes+" "+modelLine(resp), "after step "+logName)
			return
		}
	} else {
		// the replicate thread will park again only if this step made it run
		ran := modelRes == "ok" && ((field(prev, "inflight") != "-" && name != "completeGraceful" && name != "begin") ||
			(name == "completeGraceful" && implRes == "ok"))
		switch {
		case ran:
			waitFor(60*time.Second, func() bool { return w.parked.Load() > before && !w.gate.Waiting() })
		default:
			waitFor(200*time.Millisecond, func() bool { return w.parked.Load() > before })
		}
		time.Sleep(3 * time.Millisecond)
	}
	w.logf("%s", logName)
	w.checkStandby(name)
	w.pollAcks()
	w.checkCaughtUp(logName, resp)
	impl := implRes + " " + w.implLine()
	model := modelRes + " " + modelLine(resp)
	if impl != model {
		w.disagree(impl, model, "after step "+logName+" (hook error: "+w.hook.State().CurrentError+"; gate: "+w.gate.Log()+")")
	}
	w.e.Rep.TracesValidated++
	w.e.Rep.Hit("step:" + name)
}

func setup(e *hx.Env, m *hx.Model, k kase) *world {
	w := &world{e: e, k: k, r: hx.NewRng(k.Seed), m: m, num: map[hash.Hash]int{}, acked: map[int]bool{}}
	dir := filepath.Join(e.Scratch, fmt.Sprintf("c%d-%s", k.Seed, k.Kind))
	os.RemoveAll(dir)
	sdir := filepath.Join(dir, "standby")
	os.MkdirAll(sdir, 0o755)
	eng, err := sqleng.New(filepath.Join(dir, "P"), sqleng.Options{DBName: "p"})
	if err != nil {
		panic(err)
	}
	w.eng = eng
	w.s, _ = eng.NewSession()
	r := w.s.Exec("create table t (pk int primary key, v varchar(40))")
	if r.Err != nil {
		panic(r.Err)
	}
	w.s.Exec("call dolt_commit('-Am','init')")
	sctx, err := eng.SE.NewContext(ctx, w.s.Sess)
	if err != nil {
		panic(err)
	}
	src, ok := w.s.Sess.GetDoltDB(sctx, "p")
	if !ok {
		panic("no doltdb")
	}
	w.src = src
	sdb, err := doltdb.LoadDoltDB(ctx, types.Format_DOLT, "file://"+sdir, filesys.LocalFS)
	if err != nil {
		panic(err)
	}
	w.gate = replfault.NewGateStore(datas.ChunkStoreFromDatabase(doltdb.ExposeDatabaseFromDoltDB(sdb)))
	dest, err := doltdb.DoltDBFromCS(chunks.ChunkStore(w.gate), "p")
	if err != nil {
		panic(err)
	}
	lgr := logrus.New()
	lgr.SetOutput(io.Discard)
	w.hook = cluster.VerifNewCommitHook(lgr, "standby", "gate://standby", "p", cluster.RolePrimary,
		func(context.Context) (*doltdb.DoltDB, error) { return dest, nil }, src, filepath.Join(dir, "tmp"))
	os.MkdirAll(filepath.Join(dir, "tmp"), 0o755)
	w.num[w.primaryRoot()] = 1
	w.fresh = 1
	w.ask("cnew")
	return w
}

func (w *world) start() {
	ctxF := func(c context.Context) (*sql.Context, error) {
		return sql.NewContext(c, sql.WithSession(sql.NewBaseSession())), nil
	}
	w.hook.StartReplicateThread(ctxF, func() { w.parked.Add(1) })
	// the thread initialises nextHead from the store and immediately starts the first attempt
	if !waitFor(60*time.Second, w.gate.Waiting) {
		w.disagree("replicate thread did not start", "init; begin", "start")
		return
	}
	resp := w.ask("c init")
	_ = resp
	resp = w.ask("c begin")
	w.last = resp
	w.logf("init ; begin")
	impl := "ok " + w.implLine()
	model := "ok " + modelLine(resp)
	if impl != model {
		w.disagree(impl, model, "after init; begin")
	}
}

func (w *world) stop() {
	w.gate.Release(replfault.OutFail)
	w.hook.Stop()
	w.eng.Close()
}

func runRandom(e *hx.Env, m *hx.Model, k kase) {
	w := setup(e, m, k)
	defer w.stop()
	w.start()
	pendingExec := 0
	for i := 0; i < k.Steps && !w.dead; i++ {
		st := w.hook.State()
		inflight := w.gate.Waiting()
		primary := st.Role == cluster.RolePrimary
		var opts []string
		if inflight {
			opts = append(opts, "finishOk", "finishOk", "finishFail", "finishLostAck", "standbyRestart")
		}
		if primary && !w.ro {
			opts = append(opts, "write", "write")
			// create / delete a branch: deleting it brings an earlier root hash back
			if !w.tmp && w.r.Chance(1, 2) {
				opts = append(opts, "writeBranch")
			}
			if w.tmp {
				opts = append(opts, "revert", "revert")
			}
		}
		if pendingExec > 0 || w.r.Chance(1, 6) {
			opts = append(opts, "exec", "exec")
		}
		if primary && !w.ro && w.r.Chance(1, 8) {
			opts = append(opts, "beginGraceful")
		}
		if w.ro && primary {
			opts = append(opts, "completeGraceful")
		}
		if primary && !inflight && w.backoff {
			opts = append(opts, "begin", "begin")
		}
		if len(opts) == 0 {
			break
		}
		op := hx.Pick(w.r, opts)
		switch op {
		case "write", "writeBranch", "revert":
			pendingExec++
		case "exec":
			if pendingExec > 0 {
				pendingExec--
			}
		}
		w.step(op)
		e.Rep.Count(fmt.Sprintf("%s %v %v %d", op, inflight, w.ro, len(w.waiters)), inflight || w.ro || len(w.waiters) > 0)
	}
}

// runRecur: the refutation witness of Props/C45 graceful_exact_full_false on the real hook.
func runRecur(e *hx.Env, m *hx.Model, k kase) {
	w := setup(e, m, k)
	defer w.stop()
	w.start()
	for _, s := range []string{"finishOk", "writeBranch", "exec", "finishLostAck"} {
		w.step(s)
	}
	w.step("revert")
	if w.dead {
		return
	}
	w.step("exec")
	w.step("beginGraceful")
	if w.dead {
		return
	}
	st := w.hook.State()
	sr, pr := w.standbyRoot(), w.primaryRoot()
	w.logf("state: caughtUp=%v next=#%d last=#%d standby=#%d primary=#%d", st.CaughtUp, w.n(st.NextHead), w.n(st.LastPushedHead), w.n(sr), w.n(pr))
	modelAgrees := field(w.last, "next") == field(w.last, "last") && field(w.last, "sroot") != field(w.last, "proot")
	if st.CaughtUp && sr != pr && st.NextHead == pr && modelAgrees && w.lostAck {
		branches := "?"
		if ddb, err := doltdb.DoltDBFromCS(w.gate.Underlying(), "p"); err == nil {
			if bs, err := ddb.GetBranches(ctx); err == nil {
				var ns []string
				for _, b := range bs {
					ns = append(ns, b.GetPath())
				}
				sort.Strings(ns)
				branches = strings.Join(ns, ",")
			}
		}
		e.Rep.Known("cluster-root-recurrence-lost-ack-standby-stale",
			fmt.Sprintf("cluster commit hook: after root A(#%d) was replicated, root B(#%d, `dolt_branch tmp`) reached the standby with a lost acknowledgement and the primary's root returned to A (`dolt_branch -D tmp`): Execute set nextHead = A = lastPushedHead, isCaughtUp() = true, no further attempt is made, the standby stays on B (branches: %s) and a graceful transition to standby is allowed with the standby differing from the primary | steps: %s",
				w.n(pr), w.n(sr), branches, w.tr()), k)
		e.Rep.Hit("recur:reproduced")
	} else {
		e.Rep.Hit("recur:not-reproduced")
	}
	// the model (with the revert extension) agrees that the transition is enabled
	resp := w.ask("c completeGraceful")
	if st.CaughtUp != strings.HasPrefix(resp, "ok") {
		w.disagree(fmt.Sprintf("caughtUp=%v", st.CaughtUp), resp, "recurrence: completeGraceful enabledness")
	}
	e.Rep.Count("recur", true)
}

// runRecurDelayed: the root recurs while the attempt for the intermediate root is still parked (no
// lost acknowledgement): A replicated; branch created (root B), Execute, attempt for B parked; branch
// deleted (root A again), Execute; the attempt for B completes; the hook must then notice that the
// primary is at A and push A again.  On the unchanged code the standby ends at A.
func runRecurDelayed(e *hx.Env, m *hx.Model, k kase) {
	w := setup(e, m, k)
	defer w.stop()
	w.start()
	seq := []string{"finishOk", "writeBranch", "exec", "revert", "exec"}
	if k.Seed%2 == 1 {
		// variant: the first attempt for B fails, the recurrence happens during the back-off
		seq = []string{"finishOk", "writeBranch", "exec", "finishFail", "revert", "exec"}
	}
	for i, st := range seq {
		w.step(st)
		if w.dead && i < len(seq)-1 {
			return // diverged from the model before the script was complete
		}
	}
	// (a divergence from the model at the LAST scripted step does not stop the case: the drain and
	// the convergence predicate below are about the implementation alone)
	// drain (implementation only): let every attempt the hook wants to make succeed, waking it the
	// way the ticker would, until it stays parked
	for i := 0; i < 6; i++ {
		before := w.parked.Load()
		if !w.gate.Waiting() {
			w.hook.Kick()
			if !waitFor(400*time.Millisecond, w.gate.Waiting) {
				break
			}
		}
		att := w.gate.AttemptCount()
		w.gate.Release(replfault.OutOK)
		waitFor(60*time.Second, func() bool { return w.parked.Load() > before || w.gate.AttemptCount() > att })
		time.Sleep(5 * time.Millisecond)
		w.logf("drain:attempt-ok")
	}
	w.hooked = true
	w.checkStandby("drain")
	if sr, pr := w.standbyRoot(), w.primaryRoot(); sr != pr {
		w.violate("recurrence-not-converged", fmt.Sprintf("root recurred while the intermediate root was being replicated; every attempt succeeded, nothing is parked, yet the standby's root is #%d and the primary's #%d", w.n(sr), w.n(pr)))
	}
	e.Rep.Sample(fmt.Sprintf("recur-delayed %d: %s | final %s", k.Seed%2, w.tr(), w.implLine()))
	e.Rep.Count(fmt.Sprintf("recur-delayed %d", k.Seed%2), true)
	e.Rep.Hit("recur-delayed")
}

func main() {
	e := hx.Init("clusterhook", "C45")
	defer e.Finish()
	e.Rep.Rule = "a case is one step of the commit-hook machine on the real hook (write, Execute, attempt outcome, restart, graceful transition); non-trivial = an attempt is parked, a transition is in progress, or waiters exist"
	m := e.MustModel()
	defer m.Close()
	run := func(k kase) {
		out := hx.Recover(func() string {
			if k.Kind == "recur" {
				runRecur(e, m, k)
			} else if k.Kind == "recur-delayed" {
				runRecurDelayed(e, m, k)
			} else {
				runRandom(e, m, k)
			}
			return ""
		})
		if out != "" {
			e.Rep.Disagree(k, out, "(no panic)", "panic while running the case")
		}
	}
	if e.Replay != "" {
		rf, err := hx.LoadReplay(e.Replay)
		if err != nil {
			panic(err)
		}
		var k kase
		if err := json.Unmarshal(rf.Case, &k); err != nil {
			panic(err)
		}
		run(k)
		return
	}
	for _, raw := range e.CorpusCases() {
		var k kase
		if json.Unmarshal(raw, &k) == nil {
			run(k)
		}
	}
	run(kase{Kind: "recur", Seed: 1})
	run(kase{Kind: "recur-delayed", Seed: 0})
	run(kase{Kind: "recur-delayed", Seed: 1})
	n := e.N(6, 20)
	for i := 0; i < n; i++ {
		run(kase{Kind: "random", Seed: e.Rng.U64() % 1000000, Steps: e.N(30, 60)})
	}
}
