// sqlsmoke: smoke test of the sqleng kit (not a registered check).
package main

import (
	"fmt"
	"os"

	"verif/harness/internal/sqleng"
)

func main() {
	dir, _ := os.MkdirTemp("/var/tmp", "verif-sqlsmoke-")
	defer os.RemoveAll(dir)
	e, err := sqleng.New(dir, sqleng.Options{})
	if err != nil {
		panic(err)
	}
	defer e.Close()
	a, _ := e.NewSession()
	b, _ := e.NewSession()
	a.MustExec("create table t (pk int primary key, c varchar(20), d blob, j json)")
	a.MustExec("insert into t values (1,'x',0x00ff,'{\"a\":1}'),(2,NULL,NULL,NULL)")
	r := a.Exec("select * from t order by pk")
	fmt.Println(r.Cols, r.Rows, r.Err)
	r = a.Exec("insert into t values (1,'y',NULL,NULL)")
	fmt.Println(r.Class(), r.Err)
	a.MustExec("call dolt_commit('-Am','first')")
	b.MustExec("set autocommit=0")
	b.MustExec("start transaction")
	a.MustExec("insert into t values (3,'z',NULL,NULL)")
	fmt.Println("b sees", b.Exec("select count(*) from t").Rows)
	b.MustExec("commit")
	fmt.Println("b sees after", b.Exec("select count(*) from t").Rows)
	fmt.Println(a.Exec("select * from dolt_status").Rows)
	fmt.Println(a.Exec("select message from dolt_log").Rows)
	fmt.Println(a.Exec("selec").Class())
}
