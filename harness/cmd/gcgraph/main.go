// gcgraph: correspondence + property oracle for C08 (garbage collection keeps everything that is
// still reachable).
//
// Per seeded case a repository is built on disk (real NBS store with journal) through SQL and
// version-control procedures (wg.History: branches, tags, annotated tags, conflicted merge,
// conflicted cherry-pick, conflicted revert, interactive rebase in progress, dirty working/staged
// roots, stashes, deleted branch, remote-tracking ref, tuple), then the REAL collector runs
// (`CALL dolt_gc()` / `CALL dolt_gc('--full')` with archive level 0/1, or DoltDB.GC directly) and
//
//	ORACLE (on the implementation): the logical fingerprint — every dataset → commits (whole
//	  history) → roots → tables → schema, every row incl. out-of-band values, every secondary index
//	  row, artifacts, foreign keys; working + staged + merge state + rebase state; stashes; tuples
//	  — loads without error and is identical before and after; and every address reachable through
//	  the real walker from the post-GC store root is present.
//	CORRESPONDENCE: the chunk graph (address → walker refs) and the dataset heads are sent to the
//	  Lean model, the model runs the phase steps, and its kept set must be ⊆ the post-GC store.
//
// A second case kind adds the API-crafted working set of C09 (addresses that only the working set's
// merge / rebase state references): before the walker repair (/repo bf9bc24) the collector dropped
// data the working set still needs (`gc-loses:crafted-working-set`); now it must survive.
package main

import (
	"context"
	"encoding/json"
	"fmt"
	"os"
	"path/filepath"
	"sort"
	"strings"

	"github.com/dolthub/dolt/go/libraries/doltcore/dbfactory"
	"github.com/dolthub/dolt/go/store/chunks"
	"github.com/dolthub/dolt/go/store/hash"
	"github.com/dolthub/dolt/go/store/prolly"
	"github.com/dolthub/dolt/go/store/types"
	"github.com/dolthub/dolt/go/store/val"

	"verif/harness/internal/hx"
	"verif/harness/internal/wg"
)

type kase struct {
	Kind    string `json:"kind"` // history | crafted | rewrite
	Seed    uint64 `json:"seed"`
	Rows    int    `json:"rows"`
	Full    bool   `json:"full"`
	Archive int    `json:"archive"`
	Via     string `json:"via"` // sql | api
	Two     bool   `json:"two"` // a default collection and more history first, then the collection under test
	Writer  string `json:"writer"` // "" | old | new | both: a session writes and commits at the yield point(s) of ValueStore.GC
}

type env struct {
	e   *hx.Env
	ctx context.Context
	n   int
}

func (v *env) gc(r *wg.Repo, k kase) error {
	if k.Via == "api" {
		mode := chunks.GCMode_Default
		if k.Full {
			mode = chunks.GCMode_Full
		}
		return r.DDB.GC(v.ctx, chunks.NewGCConfig(mode, chunks.GCArchiveLevel(k.Archive), chunks.IncrementalGCTablesDisabled), nil)
	}
	args := []string{}
	if k.Full {
		args = append(args, "'--full'")
	}
	args = append(args, fmt.Sprintf("'--archive-level=%d'", k.Archive))
	return r.Exec("CALL dolt_gc(" + strings.Join(args, ", ") + ")")
}

// model correspondence: chunk graph → Lean model → kept set ⊆ post-GC store
func (v *env) modelKept(m *hx.Model, cs chunks.ChunkStore, reach hash.HashSet, root hash.Hash, heads map[string]hash.Hash, garbage []hash.Hash) (kept []hash.Hash, num map[hash.Hash]int, err error) {
	num = map[hash.Hash]int{}
	var order []hash.Hash
	id := func(h hash.Hash) int {
		if n, ok := num[h]; ok {
			return n
		}
		num[h] = len(num) + 1
		order = append(order, h)
		return num[h]
	}
	all := make([]hash.Hash, 0, reach.Size())
	for h := range reach {
		all = append(all, h)
	}
	all = append(all, garbage...)
	sort.Slice(all, func(i, j int) bool { return all[i].Less(all[j]) })
	var ids []int
	for _, h := range all {
		ids = append(ids, id(h))
	}
	if resp := m.Ask(fmt.Sprintf("init %s %d", hx.NatList(ids), id(root))); resp != "ok" {
		return nil, nil, fmt.Errorf("model init: %s", resp)
	}
	for _, h := range all {
		refs, err := wg.WalkOne(v.ctx, cs, h)
		if err != nil {
			return nil, nil, err
		}
		if refs.Size() == 0 {
			continue
		}
		var rs []int
		for a := range refs {
			rs = append(rs, id(a))
		}
		sort.Ints(rs)
		if resp := m.Ask(fmt.Sprintf("edge %d %s", id(h), hx.NatList(rs))); resp != "ok" {
			return nil, nil, fmt.Errorf("model edge: %s", resp)
		}
	}
	var old, nw []int
	for name, h := range heads {
		if strings.HasPrefix(name, "refs/heads/") || strings.HasPrefix(name, "refs/remotes/") || strings.HasPrefix(name, "refs/internal/") {
			old = append(old, id(h))
		} else {
			nw = append(nw, id(h))
		}
	}
	sort.Ints(old)
	sort.Ints(nw)
	last := ""
	for _, op := range []string{fmt.Sprintf("begin %s %s", hx.NatList(old), hx.NatList(nw)), "markold", "tonewgen", "marknew", "drain", "finalize", "swap []"} {
		last = m.Ask(op)
		if !strings.HasPrefix(last, "ok") {
			return nil, nil, fmt.Errorf("model refused %q: %s", op, last)
		}
	}
	i := strings.Index(last, "chunks=[")
	if i < 0 {
		return nil, nil, fmt.Errorf("model answer: %s", last)
	}
	body := strings.TrimSuffix(last[i+len("chunks=["):], "]")
	if body != "" {
		for _, t := range strings.Split(body, ",") {
			var n int
			fmt.Sscan(t, &n)
			if n >= 1 && n <= len(order) {
				kept = append(kept, order[n-1])
			}
		}
	}
	return kept, num, nil
}

func (v *env) run(k kase) {
	out := hx.Recover(func() string {
		if k.Kind == "rewrite" {
			v.rewriteCase(k)
		} else {
			v.one(k)
		}
		return ""
	})
	if out != "" {
		v.e.Rep.Violate("panic:"+k.Kind, out, k)
	}
}

func (v *env) one(k kase) {
	e := v.e
	ctx := v.ctx
	v.n++
	dir := filepath.Join(e.Scratch, fmt.Sprintf("repo%d", v.n))
	os.MkdirAll(dir, 0o755)
	defer os.RemoveAll(dir)
	defer dbfactory.CloseAllLocalDatabases()
	r, err := wg.NewRepo(ctx, dir)
	if err != nil {
		e.Rep.Disagree(k, "new repo: "+err.Error(), "", "generator")
		return
	}
	rng := hx.NewRng(k.Seed)
	h := &wg.History{R: r, Rng: rng, Rows: k.Rows}
	if err := h.Build(ctx); err != nil {
		e.Rep.Disagree(k, "history build failed: "+err.Error(), "", "generator")
		return
	}
	for _, d := range h.Done {
		e.Rep.Hit("scenario:" + d)
	}
	for s, why := range h.Skipped {
		e.Rep.Hit("scenario-skipped:" + s)
		e.Rep.Note(fmt.Sprintf("seed %d: scenario %s skipped: %.200s", k.Seed, s, why))
	}
	var labels map[string]hash.Hash
	if k.Kind == "crafted" {
		labels, _, err = wg.CraftedWorkingSet(ctx, r, "crafted", rng)
		if err != nil {
			e.Rep.Disagree(k, "crafted working set failed: "+err.Error(), "", "generator")
			return
		}
	}
	if k.Two {
		// first collection (default mode) moves the history so far into the old generation; then
		// more history whose new-gen roots (tag, working sets) reference old-gen chunks
		k1 := k
		k1.Full, k1.Archive = false, 0
		if gerr := v.gc(r, k1); gerr != nil {
			e.Rep.Violate("gc-error", "first garbage collection failed: "+gerr.Error(), k)
			return
		}
		nd := len(h.Done)
		h.OrphanToNewGen()
		for _, d := range h.Done[nd:] {
			e.Rep.Hit("scenario:" + d)
		}
		for sc, why := range h.Skipped {
			if strings.HasPrefix(sc, "orphan:") {
				e.Rep.Hit("scenario-skipped:" + sc)
				e.Rep.Note(fmt.Sprintf("seed %d: scenario %s skipped: %.200s", k.Seed, sc, why))
			}
		}
		for _, q := range []string{
			"UPDATE t1 SET v = 'round2' WHERE id % 5 = 1",
			"CALL dolt_commit('-am', 'round 2')",
			"CALL dolt_tag('r2tag', 'HEAD~1')",
			"CALL dolt_branch('r2branch', 'v1')",
			"INSERT INTO kl VALUES (77, 'uncommitted after first gc')",
		} {
			if err := r.Exec(q); err != nil {
				e.Rep.Note(fmt.Sprintf("seed %d: round-2 statement %q refused: %.150s", k.Seed, q, err))
			}
		}
		e.Rep.Hit("two-collections")
	}
	cs := wg.ChunkStoreOf(r.DDB)
	before, err := wg.Fingerprint(ctx, r.DDB)
	if err != nil {
		e.Rep.Disagree(k, "fingerprint before GC failed: "+err.Error(), "", "generator")
		return
	}
	root0, _ := cs.Root(ctx)
	reach0, absent0, err := wg.WalkClosure(ctx, cs, []hash.Hash{root0})
	if err != nil || len(absent0) > 0 {
		e.Rep.Violate("pre-gc-dangling", fmt.Sprintf("before GC: walker closure error=%v absent=%v", err, absent0), k)
		return
	}
	heads, _ := wg.DatasetHeads(ctx, r.DDB)
	var kept []hash.Hash
	if e.ModelBin != "" && k.Kind == "history" {
		m := e.MustModel()
		kept, _, err = v.modelKept(m, cs, reach0, root0, heads, nil)
		m.Close()
		if err != nil {
			e.Rep.Disagree(k, "", err.Error(), "model run")
		}
	}

	// concurrent writer: at the yield points of ValueStore.GC (keeper installed, old-generation mark
	// not started / new-generation mark not started) a session inserts, updates, commits, tags,
	// branches and leaves an uncommitted working-set change.  What it wrote must survive.
	var mid *wg.FP
	var writerErr error
	writerRuns := 0
	if k.Writer != "" {
		types.VerifSetGCYield(func(point string) {
			if !(k.Writer == "both" || (k.Writer == "old" && point == "oldgen") || (k.Writer == "new" && point == "newgen")) {
				return
			}
			writerRuns++
			n := writerRuns
			for _, q := range []string{
				fmt.Sprintf("INSERT INTO t2 VALUES (%d, 1, %s)", 9000+n, h.Big("writer", 12000)),
				fmt.Sprintf("UPDATE t1 SET v = 'w%d', s = %s WHERE id %% 11 = %d", n, h.Big("wu", 5000), n),
				fmt.Sprintf("CALL dolt_commit('-am', 'writer at %s')", point),
				fmt.Sprintf("CALL dolt_tag('wtag%d')", n),
				fmt.Sprintf("CALL dolt_branch('wbranch%d')", n),
				fmt.Sprintf("INSERT INTO kl VALUES (%d, %s)", 500+n, h.Big("wk", 6000)),
			} {
				if err := r.Exec(q); err != nil && writerErr == nil {
					writerErr = fmt.Errorf("%s: %w", q, err)
				}
			}
			e.Rep.Hit("writer-at:" + point)
			var ferr error
			if mid, ferr = wg.Fingerprint(ctx, r.DDB); ferr != nil && writerErr == nil {
				writerErr = fmt.Errorf("fingerprint after writer: %w", ferr)
			}
		})
		defer types.VerifSetGCYield(nil)
	}
	if gerr := v.gc(r, k); gerr != nil {
		e.Rep.Violate("gc-error", "garbage collection failed: "+gerr.Error(), k)
		return
	}
	types.VerifSetGCYield(nil)
	if k.Writer != "" {
		if writerErr != nil {
			e.Rep.Violate("writer-refused", "a session statement failed while a collection was in a non-finalizing phase: "+writerErr.Error(), k)
			return
		}
		if writerRuns == 0 || mid == nil {
			e.Rep.Disagree(k, "yield point not reached", "", "writer case")
			return
		}
		before = mid // the expected logical state is the one the writer left
	}
	mode := "default"
	if k.Full {
		mode = "full"
	}
	e.Rep.Hit(fmt.Sprintf("gc:%s:%s:archive%d", k.Via, mode, k.Archive))

	// everything after the collection is observed through a freshly opened database (no cache of
	// the collecting process can stand in for a chunk that was dropped)
	ddb2, rerr := r.Reopen(ctx)
	if rerr != nil {
		e.Rep.Violate("reopen-error", "database does not open after GC: "+rerr.Error(), k)
		return
	}
	cs = wg.ChunkStoreOf(ddb2)
	after, ferr := wg.Fingerprint(ctx, ddb2)
	canon := fmt.Sprintf("%s|%v|%d|%s|%v|%s|%d", k.Kind, k.Full, k.Archive, k.Via, k.Two, k.Writer, k.Seed)
	e.Rep.Count(canon, true)
	if k.Kind == "crafted" {
		// regression of the repaired walker defect (/repo bf9bc24): the working set whose addresses
		// only the formerly omitted fields reference must survive the collection unchanged
		if ferr != nil {
			var lost []string
			for l, a := range labels {
				if ok, _ := cs.Has(ctx, a); !ok {
					lost = append(lost, l)
				}
			}
			sort.Strings(lost)
			e.Rep.Violate("gc-loses:crafted-working-set", fmt.Sprintf("after GC a working set (merge + rebase state written by the real writers, addresses referenced only from the working set) no longer loads: %v; chunks dropped: %s", ferr, strings.Join(lost, ", ")), k)
		} else if after.Digest != before.Digest {
			e.Rep.Violate("fingerprint-changed:crafted", "logical fingerprint differs after GC: "+firstDiff(before.Lines, after.Lines), k)
		} else {
			e.Rep.Hit("crafted-working-set-survived")
			e.Rep.TracesValidated++
		}
		return
	}
	if ferr != nil {
		key := "gc-loses-data"
		if k.Writer != "" && (strings.Contains(ferr.Error(), "root hash") || strings.Contains(ferr.Error(), "wtag") || strings.Contains(ferr.Error(), "wbranch")) {
			// the store root / the refs the concurrent writer created are what is missing
			key = "gc-loses-concurrent-write"
		}
		e.Rep.Violate(key, "after GC the database no longer loads through the public API: "+ferr.Error(), k)
		return
	}
	for c, n := range after.Counts {
		e.Rep.Histogram["loaded:"+c] += n
	}
	if after.Digest != before.Digest {
		diff := firstDiff(before.Lines, after.Lines)
		key := "fingerprint-changed"
		if k.Writer != "" {
			key = "gc-loses-concurrent-write:fingerprint"
		}
		e.Rep.Violate(key, "logical fingerprint differs after GC: "+diff, k)
		return
	}
	root1, _ := cs.Root(ctx)
	reach1, absent1, err := wg.WalkClosure(ctx, cs, []hash.Hash{root1})
	if err != nil {
		e.Rep.Violate("post-gc-walk-error", err.Error(), k)
		return
	}
	if len(absent1) > 0 {
		e.Rep.Violate("post-gc-dangling", fmt.Sprintf("after GC %d addresses reachable through the walker from the root are absent (first %s)", len(absent1), absent1[0]), k)
		return
	}
	e.Rep.Histogram["chunks-reachable-before"] += reach0.Size()
	e.Rep.Histogram["chunks-reachable-after"] += reach1.Size()
	e.Rep.TracesValidated++
	// correspondence: model's kept set ⊆ post-GC store
	missing := 0
	for _, a := range kept {
		if ok, _ := cs.Has(ctx, a); !ok {
			missing++
		}
	}
	e.Rep.Histogram["model-kept"] += len(kept)
	if missing > 0 {
		e.Rep.Disagree(k, fmt.Sprintf("%d chunks absent after GC", missing), "kept by the model", "model kept set ⊆ post-GC store")
	}
	if len(e.Rep.Samples) < 4 {
		e.Rep.Sample(fmt.Sprintf("%s: reach %d → %d, model kept %d, digest %s", canon, reach0.Size(), reach1.Size(), len(kept), after.Digest[:12]))
	}
}

// rewriteCase (chunk-store level): a session writes a value (a prolly map of N tuples: one leaf, or
// a multi-level tree) through the NodeStore WITHOUT committing anything that references it — the
// chunks sit in the shared memtable; the collection starts; parked at a yield point of ValueStore.GC
// the session writes the SAME value again (same content, same addresses: every Put finds the chunk
// already in the memtable); after the collection the session commits a reference to it (statistics
// ref → Statistic message → map root).  Property: the Put during the collection succeeded, so the
// value must be present after it, the commit must succeed, and the value must be readable after
// reopening the database.
func (v *env) rewriteCase(k kase) {
	e := v.e
	ctx := v.ctx
	v.n++
	dir := filepath.Join(e.Scratch, fmt.Sprintf("repo%d", v.n))
	os.MkdirAll(dir, 0o755)
	defer os.RemoveAll(dir)
	defer dbfactory.CloseAllLocalDatabases()
	r, err := wg.NewRepo(ctx, dir)
	if err != nil {
		e.Rep.Disagree(k, "new repo: "+err.Error(), "", "generator")
		return
	}
	if err := r.Exec("CREATE TABLE seedt (id INT PRIMARY KEY, t TEXT)"); err == nil {
		r.Exec("INSERT INTO seedt VALUES (1, 'x'), (2, 'y')")
		r.Exec("CALL dolt_commit('-Am', 'seed')")
	}
	ns := r.DDB.NodeStore()
	kd := val.NewTupleDescriptor(val.Type{Enc: val.Int64Enc})
	vd := val.NewTupleDescriptor(val.Type{Enc: val.Int64Enc}, val.Type{Enc: val.StringEnc, Nullable: true})
	rng := hx.NewRng(k.Seed)
	salt := rng.Intn(1 << 30)
	build := func() (prolly.Map, error) {
		kb, vb := val.NewTupleBuilder(kd, ns), val.NewTupleBuilder(vd, ns)
		tups := make([]val.Tuple, 0, 2*k.Rows)
		for i := 0; i < k.Rows; i++ {
			kb.PutInt64(0, int64(i))
			kt, err := kb.Build(ctx, ns.Pool())
			if err != nil {
				return prolly.Map{}, err
			}
			vb.PutInt64(0, int64(salt+i))
			vb.PutString(1, fmt.Sprintf("value-%d-%d-%s", salt, i, strings.Repeat("z", i%90)))
			vt, err := vb.Build(ctx, ns.Pool())
			if err != nil {
				return prolly.Map{}, err
			}
			tups = append(tups, kt, vt)
		}
		return prolly.NewMapFromTuples(ctx, ns, kd, vd, tups...)
	}
	// 1) before the collection: written, referenced by nothing, nothing committed afterwards
	m1, err := build()
	if err != nil {
		e.Rep.Disagree(k, "build map: "+err.Error(), "", "generator")
		return
	}
	x := m1.HashOf()
	levels := m1.Node().Level() + 1
	// 2) during the collection: the same value is written again at the yield point(s)
	rewrites := 0
	var rewriteErr error
	types.VerifSetGCYield(func(point string) {
		if !(k.Writer == "both" || (k.Writer == "old" && point == "oldgen") || (k.Writer == "new" && point == "newgen")) {
			return
		}
		m2, err := build()
		if err != nil {
			rewriteErr = err
			return
		}
		if m2.HashOf() != x {
			rewriteErr = fmt.Errorf("rewritten value has a different address")
			return
		}
		rewrites++
		e.Rep.Hit("rewrite-at:" + point)
	})
	defer types.VerifSetGCYield(nil)
	gerr := v.gc(r, k)
	types.VerifSetGCYield(nil)
	if gerr != nil {
		e.Rep.Violate("gc-error", "garbage collection failed: "+gerr.Error(), k)
		return
	}
	mode := "default"
	if k.Full {
		mode = "full"
	}
	e.Rep.Hit(fmt.Sprintf("gc-rewrite:%s:levels%d", mode, levels))
	e.Rep.Count(fmt.Sprintf("rewrite|%v|%s|%d|%d", k.Full, k.Writer, k.Rows, k.Seed), true)
	if rewriteErr != nil {
		e.Rep.Violate("writer-refused", "writing a value while a collection was in a non-finalizing phase failed: "+rewriteErr.Error(), k)
		return
	}
	if rewrites == 0 {
		e.Rep.Disagree(k, "yield point not reached", "", "rewrite case")
		return
	}
	// 3) after the collection
	if has, herr := r.DDB.Has(ctx, x); herr != nil || !has {
		e.Rep.Violate("gc-loses-rewritten-chunk", fmt.Sprintf("value %s (%d tuples, %d levels) was written before the collection and successfully written AGAIN while it ran (%d times), but is absent after it (Has=%v err=%v)", x, k.Rows, levels, rewrites, has, herr), k)
		return
	}
	if serr := r.DDB.SetStatistics(ctx, "main", x); serr != nil {
		e.Rep.Violate("commit-after-gc-dangling", "committing a reference to a value written during the collection fails after it: "+serr.Error(), k)
		return
	}
	ddb2, rerr := r.Reopen(ctx)
	if rerr != nil {
		e.Rep.Violate("reopen-error", "database does not open after GC: "+rerr.Error(), k)
		return
	}
	fp, ferr := wg.Fingerprint(ctx, ddb2)
	if ferr != nil {
		e.Rep.Violate("rewritten-value-unreadable", "after GC + commit + reopen the database no longer loads: "+ferr.Error(), k)
		return
	}
	if fp.Counts["stats"] != k.Rows {
		e.Rep.Violate("rewritten-value-unreadable", fmt.Sprintf("the committed value has %d tuples after reopen, %d were written", fp.Counts["stats"], k.Rows), k)
		return
	}
	cs := wg.ChunkStoreOf(ddb2)
	root1, _ := cs.Root(ctx)
	if _, absent, werr := wg.WalkClosure(ctx, cs, []hash.Hash{root1}); werr != nil || len(absent) > 0 {
		e.Rep.Violate("post-gc-dangling", fmt.Sprintf("after GC + commit: walker closure error=%v, %d absent", werr, len(absent)), k)
		return
	}
	e.Rep.TracesValidated++
}

func firstDiff(a, b []string) string {
	sa := map[string]bool{}
	for _, l := range a {
		sa[l] = true
	}
	for _, l := range b {
		if !sa[l] {
			if len(l) > 300 {
				l = l[:300]
			}
			return "only after: " + l
		}
	}
	return fmt.Sprintf("%d lines before, %d after", len(a), len(b))
}

func main() {
	e := hx.Init("gcgraph", "C08")
	defer e.Finish()
	v := &env{e: e, ctx: context.Background()}
	e.Rep.Rule = "every case is a distinct (history seed, GC mode, archive level, entry point) combination run through the real collector; all are non-trivial (≥ 9 refs of 6 dataset kinds, 4 in-progress operations)"
	if e.Replay != "" {
		rf, err := hx.LoadReplay(e.Replay)
		if err != nil {
			panic(err)
		}
		var k kase
		json.Unmarshal(rf.Case, &k)
		v.run(k)
		return
	}
	for _, raw := range e.CorpusCases() {
		var k kase
		if json.Unmarshal(raw, &k) == nil && k.Kind != "" {
			v.run(k)
		}
	}
	rng := e.Rng
	n := e.N(4, 10)
	for i := 0; i < n; i++ {
		k := kase{Kind: "history", Seed: e.Seed*1000 + uint64(i), Rows: e.N(150, 600), Full: i%2 == 1, Archive: (i / 2) % 2, Via: "sql", Two: i%4 == 1 || i%4 == 2}
		if rng.Chance(1, 3) {
			k.Via = "api"
		}
		if i%2 == 1 || i%4 == 2 {
			// writer cases run the collector through DoltDB.GC so that the session is free to write
			k.Via = "api"
			k.Writer = []string{"both", "old", "new"}[i%3]
		}
		v.run(k)
	}
	v.run(kase{Kind: "crafted", Seed: e.Seed*1000 + 777, Rows: 60, Full: true, Archive: 0, Via: "api"})
	// chunk-store level: a value written before the collection is written again while it runs
	nr := e.N(4, 12)
	for i := 0; i < nr; i++ {
		v.run(kase{Kind: "rewrite", Seed: e.Seed*1000 + 900 + uint64(i), Rows: []int{3, 4000, 40, 12000}[i%4], Full: i%2 == 1,
			Archive: 0, Via: "api", Writer: []string{"new", "old", "both"}[i%3]})
	}
}
