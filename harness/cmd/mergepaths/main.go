// mergepaths: C30 — run the chunk-level fast merge path and the row-by-row path of dolt ON THE
// SAME INPUTS in-process (merge.MergeRoots twice; the second time with the verif hook
// merge.VerifSetForceRowPath(true)) and compare
//   - the merged table: schema hash, row-data hash (content-addressed prolly tree, so equal rows
//     ⇔ equal hash), artifact (conflict) map hash, and the decoded rows / conflict rows,
//   - merge.MergeStats of both runs.
// The property oracle is exactly that comparison (no model involved).  The Lean model is asked for
// both paths too and its rows/conflicts/stats are compared with what each real path produced.
package main

import (
	"context"
	"encoding/json"
	"fmt"
	"os"
	"path/filepath"
	"strings"

	"github.com/dolthub/dolt/go/libraries/doltcore/doltdb"
	"github.com/dolthub/dolt/go/libraries/doltcore/doltdb/durable"
	"github.com/dolthub/dolt/go/libraries/doltcore/merge"
	"github.com/dolthub/dolt/go/libraries/doltcore/ref"
	"github.com/dolthub/dolt/go/libraries/doltcore/sqle/dsess"
	"github.com/dolthub/dolt/go/libraries/doltcore/table/editor"
	"github.com/dolthub/dolt/go/store/prolly/tree"
	"github.com/dolthub/dolt/go/store/val"
	"github.com/dolthub/go-mysql-server/sql"

	"verif/harness/internal/hx"
	"verif/harness/internal/rmkit"
	"verif/harness/internal/sqleng"
)

const keyStats = "fastmerge-stats"

type pathResult struct {
	Err        string
	SchemaHash string
	RowsHash   string
	ArtHash    string
	Stats      merge.MergeStats
	HasStats   bool
}

type runner struct {
	e   *hx.Env
	m   *hx.Model
	eng *sqleng.Engine
	s   *sqleng.Session
	n   int
	gen int
}

func (r *runner) reopen() {
	if r.eng != nil {
		r.eng.Close()
	}
	r.gen++
	if r.gen > 1 {
		os.RemoveAll(filepath.Join(r.e.Scratch, fmt.Sprintf("eng%d", r.gen-1)))
	}
	eng, err := sqleng.New(filepath.Join(r.e.Scratch, fmt.Sprintf("eng%d", r.gen)), sqleng.Options{})
	if err != nil {
		panic(err)
	}
	r.eng = eng
	if r.s, err = eng.NewSession(); err != nil {
		panic(err)
	}
	r.s.MustExec("set @@dolt_allow_commit_conflicts = 1")
}

func (r *runner) sqlCtx() *sql.Context {
	ctx, err := r.eng.SE.NewContext(context.Background(), r.s.Sess)
	if err != nil {
		panic(err)
	}
	return ctx
}

// mergeDirect runs merge.MergeRoots(ours <- theirs) on the heads of two branches.
func (r *runner) mergeDirect(ours, theirs, tbl string, forceRowPath bool) pathResult {
	ctx := r.sqlCtx()
	sql.SessionCommandBegin(ctx.Session)
	defer sql.SessionCommandEnd(ctx.Session)
	ddb := r.eng.DEnv.DoltDB(ctx)
	oc, err := ddb.ResolveCommitRef(ctx, ref.NewBranchRef(ours))
	if err != nil {
		return pathResult{Err: "setup:" + err.Error()}
	}
	tc, err := ddb.ResolveCommitRef(ctx, ref.NewBranchRef(theirs))
	if err != nil {
		return pathResult{Err: "setup:" + err.Error()}
	}
	optAnc, err := doltdb.GetCommitAncestor(ctx, oc, tc)
	if err != nil {
		return pathResult{Err: "setup:" + err.Error()}
	}
	ac, ok := optAnc.ToCommit()
	if !ok {
		return pathResult{Err: "setup:ghost ancestor"}
	}
	or, _ := oc.GetRootValue(ctx)
	tr, _ := tc.GetRootValue(ctx)
	ar, _ := ac.GetRootValue(ctx)
	resolver, err := dsess.GetTableResolver(ctx, r.eng.DBName)
	if err != nil {
		return pathResult{Err: "setup:" + err.Error()}
	}
	merge.VerifSetForceRowPath(forceRowPath)
	defer merge.VerifSetForceRowPath(false)
	res, err := merge.MergeRoots(ctx, resolver, or, tr, ar, tc, ac, editor.Options{}, merge.MergeOpts{})
	if err != nil {
		return pathResult{Err: rmkit.MergeErrClass(err)}
	}
	out := pathResult{Err: "ok"}
	t, ok, err := res.Root.GetTable(ctx, doltdb.TableName{Name: tbl})
	if err != nil || !ok {
		return pathResult{Err: "setup:merged table missing"}
	}
	if h, err := t.GetSchemaHash(ctx); err == nil {
		out.SchemaHash = h.String()
	}
	if h, err := t.GetRowDataHash(ctx); err == nil {
		out.RowsHash = h.String()
	}
	if a, err := t.GetArtifacts(ctx); err == nil {
		if h, err := a.HashOf(); err == nil {
			out.ArtHash = h.String()
		}
	}
	for name, st := range res.Stats {
		if name.Name == tbl && st != nil {
			out.Stats = *st
			out.HasStats = true
		}
	}
	return out
}

// chunkEnds walks the primary index of table tbl at main's head and returns the last key of every
// leaf chunk, in key order.
func (r *runner) chunkEnds(tbl string) ([]int64, error) {
	ctx := r.sqlCtx()
	sql.SessionCommandBegin(ctx.Session)
	defer sql.SessionCommandEnd(ctx.Session)
	ddb := r.eng.DEnv.DoltDB(ctx)
	c, err := ddb.ResolveCommitRef(ctx, ref.NewBranchRef("main"))
	if err != nil {
		return nil, err
	}
	root, err := c.GetRootValue(ctx)
	if err != nil {
		return nil, err
	}
	t, ok, err := root.GetTable(ctx, doltdb.TableName{Name: tbl})
	if err != nil || !ok {
		return nil, fmt.Errorf("table %s not found: %v", tbl, err)
	}
	idx, err := t.GetRowData(ctx)
	if err != nil {
		return nil, err
	}
	m, err := durable.ProllyMapFromIndex(idx)
	if err != nil {
		return nil, err
	}
	kd := m.KeyDesc()
	var ends []int64
	err = tree.WalkNodes(ctx, m.Node(), m.NodeStore(), func(_ context.Context, nd *tree.Node) error {
		if nd != nil && nd.IsLeaf() && nd.Count() > 0 {
			if v, ok := kd.GetInt32(0, val.Tuple(nd.GetKey(nd.Count()-1))); ok {
				ends = append(ends, int64(v))
			}
		}
		return nil
	})
	return ends, err
}

func statsWire(s merge.MergeStats) string {
	return fmt.Sprintf("%d,%d,%d,%d", s.Adds, s.Modifications, s.Deletes, s.DataConflicts)
}

func (r *runner) runOne(sc *rmkit.Scenario) {
	r.n++
	if r.eng == nil || r.n%50 == 0 {
		r.reopen()
	}
	s := r.s
	n := r.n
	tbl := fmt.Sprintf("t%d", n)
	s.MustExec("call dolt_checkout('main')")
	if sc.MultiRows > 0 {
		sc.BaseCols = []rmkit.Col{{ID: 1, Ty: 'i'}}
	}
	s.MustExec(rmkit.CreateSQL(tbl, sc.BaseCols, false))
	cols := append([]rmkit.Col{}, sc.BaseCols...)
	for i, row := range sc.BaseRows {
		s.MustExec(rmkit.Op{Kind: "ins", Key: int64(i + 1), Row: row}.SQL(tbl, &cols))
	}
	for lo := 1; lo <= sc.MultiRows; lo += 500 {
		var vals []string
		for k := lo; k < lo+500 && k <= sc.MultiRows; k++ {
			vals = append(vals, fmt.Sprintf("(%d,%d)", k, rmkit.MultiVal(int64(k))))
		}
		s.MustExec(fmt.Sprintf("insert into %s (pk, c1) values %s", tbl, strings.Join(vals, ",")))
	}
	s.MustExec("call dolt_commit('-Am', 'base')")
	if sc.MultiRows > 0 {
		ends, err := r.chunkEnds(tbl)
		if err != nil {
			panic(err)
		}
		r.e.Rep.Hit(fmt.Sprintf("multi-chunk-leaves:%d", min(len(ends), 9)))
		if len(sc.Ours) == 0 && len(sc.Theirs) == 0 {
			sc.Ours, sc.Theirs = rmkit.GenMultiOps(hx.NewRng(sc.MultiSeed), ends, int64(sc.MultiRows))
		}
		r.e.Rep.Hit("multi-chunk")
	}
	base, err := rmkit.ReadTable(s, tbl)
	if err != nil {
		panic(err)
	}
	side := func(name string, ops []rmkit.Op) *rmkit.Table {
		s.MustExec(fmt.Sprintf("call dolt_checkout('-b', '%s%d', 'main')", name, n))
		cols := append([]rmkit.Col{}, sc.BaseCols...)
		for _, op := range ops {
			if res := s.Exec(op.SQL(tbl, &cols)); res.Err != nil {
				panic(res.Err)
			}
		}
		s.MustExec("call dolt_commit('--allow-empty', '-Am', 'side')")
		t, err := rmkit.ReadTable(s, tbl)
		if err != nil {
			panic(err)
		}
		return t
	}
	left := side("o", sc.Ours)
	right := side("h", sc.Theirs)
	s.MustExec("call dolt_checkout('main')")

	for _, d := range []struct {
		dir          string
		ours, theirs string
		l, rt        *rmkit.Table
	}{{"ours<-theirs", fmt.Sprintf("o%d", n), fmt.Sprintf("h%d", n), left, right}, {"theirs<-ours", fmt.Sprintf("h%d", n), fmt.Sprintf("o%d", n), right, left}} {
		fast := r.mergeDirect(d.ours, d.theirs, tbl, false)
		slow := r.mergeDirect(d.ours, d.theirs, tbl, true)
		req := fmt.Sprintf("%s %s %s %s %s %s none", rmkit.WireSchema(base.Cols), rmkit.WireSchema(d.l.Cols), rmkit.WireSchema(d.rt.Cols),
			base.WireRows(), d.l.WireRows(), d.rt.WireRows())
		mf := rmkit.Fields(r.m.Ask("merge 0 " + req))
		ms := rmkit.Fields(r.m.Ask("merge 1 " + req))
		tookFast := mf["path"] == "fast"
		r.e.Rep.Count(req, tookFast)
		r.e.Rep.Hit("model-path:" + mf["path"])

		// ---- the property: identical rows, conflicts (artifacts) and statistics
		switch {
		case fast.Err != slow.Err:
			r.e.Rep.Violate("C30-error-differs", fmt.Sprintf("%s: fast path: %s, row path: %s", d.dir, fast.Err, slow.Err), sc)
		case fast.Err != "ok":
			r.e.Rep.Hit("both-error:" + fast.Err)
		default:
			if fast.RowsHash != slow.RowsHash || fast.SchemaHash != slow.SchemaHash {
				r.e.Rep.Violate("C30-rows-differ", fmt.Sprintf("%s: merged rows differ between the paths (row data %s vs %s, schema %s vs %s)", d.dir, fast.RowsHash, slow.RowsHash, fast.SchemaHash, slow.SchemaHash), sc)
			}
			if fast.ArtHash != slow.ArtHash {
				r.e.Rep.Violate("C30-conflicts-differ", fmt.Sprintf("%s: conflict artifacts differ between the paths (%s vs %s)", d.dir, fast.ArtHash, slow.ArtHash), sc)
			}
			if fast.HasStats != slow.HasStats || fast.Stats.DataConflicts != slow.Stats.DataConflicts ||
				fast.Stats.ConstraintViolations != slow.Stats.ConstraintViolations || fast.Stats.SchemaConflicts != slow.Stats.SchemaConflicts ||
				fast.Stats.Operation != slow.Stats.Operation {
				r.e.Rep.Violate("C30-conflict-counts-differ", fmt.Sprintf("%s: DataConflicts/ConstraintViolations/SchemaConflicts/Operation differ: fast %+v row %+v", d.dir, fast.Stats, slow.Stats), sc)
			} else if fast.Stats.Adds != slow.Stats.Adds || fast.Stats.Modifications != slow.Stats.Modifications || fast.Stats.Deletes != slow.Stats.Deletes {
				// only the row counters differ: the known finding
				r.e.Rep.Known(keyStats, fmt.Sprintf("%s: MergeStats differ between the paths on identical inputs (rows, conflicts equal): fast path %+v, row path %+v", d.dir, fast.Stats, slow.Stats), sc)
				r.e.Rep.Hit("stats-differ")
			} else {
				r.e.Rep.Hit("stats-equal")
			}
			// ---- correspondence with the model (each path separately)
			if tookFast && fast.HasStats && (mf["stats"] != statsWire(fast.Stats) || ms["stats"] != statsWire(slow.Stats)) {
				r.e.Rep.Disagree(sc, fmt.Sprintf("fast=%s row=%s", statsWire(fast.Stats), statsWire(slow.Stats)), fmt.Sprintf("fast=%s row=%s", mf["stats"], ms["stats"]), "merge {0,1} "+req)
			} else if mf["rows"] != ms["rows"] || mf["conf"] != ms["conf"] {
				r.e.Rep.Disagree(sc, "paths agree", fmt.Sprintf("model paths differ: %v vs %v", mf, ms), req)
			} else {
				r.e.Rep.TracesValidated++
			}
		}
	}
	r.e.Rep.Sample(map[string]any{"base": base.WireRows(), "ours": left.WireRows(), "theirs": right.WireRows()})
}

func main() {
	e := hx.Init("mergepaths", "C30")
	defer e.Finish()
	e.Rep.Rule = "a merge direction counts as non-trivial when it qualifies for the fast path (model path = fast, i.e. no short-circuit and no schema change); distinct by the observed (base, ours, theirs) tables"
	r := &runner{e: e, m: e.MustModel()}
	defer r.m.Close()
	defer func() {
		if r.eng != nil {
			r.eng.Close()
		}
	}()
	run := func(sc *rmkit.Scenario) {
		if out := hx.Recover(func() string { r.runOne(sc); return "" }); out != "" {
			e.Rep.Violate("C30-harness-panic", out, sc)
			r.reopen()
		}
	}
	if e.Replay != "" {
		rf, err := hx.LoadReplay(e.Replay)
		if err != nil {
			panic(err)
		}
		var sc rmkit.Scenario
		if err := json.Unmarshal(rf.Case, &sc); err != nil {
			panic(err)
		}
		run(&sc)
		return
	}
	for _, raw := range e.CorpusCases() {
		var sc rmkit.Scenario
		if json.Unmarshal(raw, &sc) == nil && (len(sc.BaseCols) > 0 || sc.MultiRows > 0) {
			run(&sc)
		}
	}
	// the witness of C30_stats_refuted (Props/C30.lean): base {1}, ours inserts 2, theirs inserts 3
	run(&rmkit.Scenario{
		BaseCols: []rmkit.Col{{ID: 1, Ty: 'i'}}, BaseRows: [][]rmkit.Val{{rmkit.IntV(1)}},
		Ours:   []rmkit.Op{{Kind: "ins", Key: 2, Row: []rmkit.Val{rmkit.IntV(5)}}},
		Theirs: []rmkit.Op{{Kind: "ins", Key: 3, Row: []rmkit.Val{rmkit.IntV(7)}}}, Resolve: "none"})
	root := hx.NewRng(e.Seed*0xD6E8FEB86659FD93 ^ e.Rng.U64())
	// multi-chunk family: tables with several leaf chunks, edits on chunk-boundary keys (SendPatches'
	// range/point branches are only reachable there)
	for i, nm := 0, e.N(3, 25); i < nm; i++ {
		rng := root.Fork()
		run(&rmkit.Scenario{MultiRows: rng.Range(1500, 3000), MultiSeed: rng.U64(), Resolve: "none"})
	}
	n := e.N(60, 600)
	for i := 0; i < n; i++ {
		rng := root.Fork()
		o := rmkit.GenOpts{SchemaChange: 3, MaxKeys: 8, Cellwise: 3}
		if rng.Chance(1, 6) {
			o.MaxKeys = 60 // several chunks are out of reach of SQL-sized tables; still exercises range logic a little
		}
		run(rmkit.GenScenario(rng, i, o))
	}
}
