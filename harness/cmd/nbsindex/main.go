// nbsindex: C01 correspondence + oracle at the index level: table-file index lookups (lookupOrdinal,
// hasMany, findOffsets with the carried filterIdx), archive prefix search (prollyBinSearch,
// findIndex) and the journal range index, on constructed addresses with dense 8-byte-prefix
// collisions.  Real code in-process vs the Lean model driver; the oracle is the written set.
package main

import (
	"bytes"
	"encoding/json"
	"fmt"
	"os"
	"path/filepath"
	"sort"
	"strings"

	"github.com/dolthub/dolt/go/store/chunks"
	"github.com/dolthub/dolt/go/store/hash"
	"github.com/dolthub/dolt/go/store/nbs"

	"verif/harness/internal/hx"
	"verif/harness/internal/nbsx"
)

type kase struct {
	Kind string `json:"kind"` // table | archive | pbs | journal
	Seed uint64 `json:"seed"`
	Max  int    `json:"max"`
}

const journalKey = "journal-addr16-alias"

type env struct {
	e *hx.Env
	m *hx.Model
	k kase
}

func (x *env) violate(key, what string) { x.e.Rep.Violate(key, what, x.k) }
func (x *env) disagree(op, impl, model string) {
	x.e.Rep.Disagree(map[string]any{"case": x.k, "op": op}, impl, model, "")
}
func (x *env) cmp(op, impl, model string) bool {
	if impl != model {
		x.disagree(op, impl, model)
		return false
	}
	return true
}

func rangesStr(rs []nbs.VerifIdxRange) string {
	if len(rs) == 0 {
		return "-"
	}
	sort.SliceStable(rs, func(i, j int) bool {
		if rs[i].Offset != rs[j].Offset {
			return rs[i].Offset < rs[j].Offset
		}
		return bytes.Compare(rs[i].H[:], rs[j].H[:]) < 0
	})
	p := make([]string, len(rs))
	for i, r := range rs {
		p[i] = fmt.Sprintf("%s:%d:%d", nbsx.AddrHex(r.H), r.Offset, r.Length)
	}
	return strings.Join(p, ",")
}

// canonical re-sort of the model's "addr:off:len,..." by (off, addr)
func canonRecs(s string) string {
	if s == "-" || s == "" {
		return "-"
	}
	it := strings.Split(s, ",")
	type rec struct {
		a   string
		off uint64
		s   string
	}
	rs := make([]rec, len(it))
	for i, t := range it {
		f := strings.Split(t, ":")
		var o uint64
		if len(f) == 3 {
			fmt.Sscan(f[1], &o)
		}
		rs[i] = rec{f[0], o, t}
	}
	sort.SliceStable(rs, func(i, j int) bool {
		if rs[i].off != rs[j].off {
			return rs[i].off < rs[j].off
		}
		return rs[i].a < rs[j].a
	})
	for i := range rs {
		it[i] = rs[i].s
	}
	return strings.Join(it, ",")
}

func genChunks(r *hx.Rng, max int, maxLen int) []nbsx.Chunk {
	addrs := nbsx.GenAddrs(r, max)
	cs := make([]nbsx.Chunk, len(addrs))
	for i, a := range addrs {
		cs[i] = nbsx.Chunk{H: a, Data: nbsx.GenData(r, i, maxLen)}
	}
	return cs
}

func split(cs []nbsx.Chunk) ([]hash.Hash, [][]byte) {
	hs := make([]hash.Hash, len(cs))
	ds := make([][]byte, len(cs))
	for i, c := range cs {
		hs[i], ds[i] = c.H, c.Data
	}
	return hs, ds
}

// reqList picks a request list (with repetitions of hard probes), sorted by prefix unless !sorted.
func reqList(r *hx.Rng, probes []hash.Hash, max int, sorted bool) ([]hash.Hash, []bool) {
	n := r.Range(0, max)
	if len(probes) == 0 {
		n = 0
	}
	hs := make([]hash.Hash, n)
	for i := range hs {
		hs[i] = probes[r.Intn(len(probes))]
	}
	if sorted {
		nbsx.SortByPrefix(hs)
	}
	fl := make([]bool, n)
	if r.Chance(1, 3) {
		for i := range fl {
			fl[i] = r.Chance(1, 4)
		}
	}
	return hs, fl
}

// checkSource runs the read-path oracle on any source: present iff written, bytes equal, all read
// paths agree.  Returns the number of nontrivial branches seen.
func (x *env) checkSource(src *nbs.VerifIdxSource, kind string, written map[hash.Hash][]byte, probes []hash.Hash, realHashOnGetMany bool) {
	r := x.e.Rng
	for _, h := range probes {
		want, present := written[h]
		ok, err := src.Has(h)
		if err != nil || ok != present {
			x.violate(kind+"-has", fmt.Sprintf("%s.has(%s) = %v,%v but written=%v", kind, nbsx.AddrHex(h), ok, err, present))
		}
		d, err := src.Get(h)
		if err != nil || (d != nil) != present || (present && !bytes.Equal(d, want)) {
			x.violate(kind+"-get", fmt.Sprintf("%s.get(%s) = %x,%v but written=%v %x", kind, nbsx.AddrHex(h), d, err, present, want))
		}
	}
	// batched paths on prefix-sorted request lists (as every caller builds them)
	for rep := 0; rep < 3; rep++ {
		hs, fl := reqList(r, probes, 24, true)
		out, rem, err := src.HasMany(hs, fl)
		if err != nil {
			x.violate(kind+"-hasmany", fmt.Sprintf("%s.hasMany error %v", kind, err))
			continue
		}
		anyMissing := false
		for i, h := range hs {
			_, present := written[h]
			if out[i] != (fl[i] || present) {
				x.violate(kind+"-hasmany", fmt.Sprintf("%s.hasMany %s: has=%v, pre-set=%v, written=%v (req %d of %s)", kind, nbsx.AddrHex(h), out[i], fl[i], present, i, nbsx.FlaggedList(hs, fl)))
			}
			if !out[i] {
				anyMissing = true
			}
		}
		if anyMissing && !rem {
			x.violate(kind+"-hasmany-remaining", fmt.Sprintf("%s.hasMany left a request unanswered but returned remaining=false: %s", kind, nbsx.FlaggedList(hs, fl)))
		}
		// getMany / getManyCompressed
		for _, compressed := range []bool{false, true} {
			hs, fl := reqList(r, probes, 24, true)
			var got []nbs.VerifIdxChunk
			var out []bool
			var rem bool
			var err error
			name := kind + "-getmany"
			if compressed {
				name = kind + "-getmanycompressed"
				got, out, rem, err = src.GetManyCompressed(hs, fl)
			} else {
				got, out, rem, err = src.GetMany(hs, fl)
			}
			if err != nil {
				x.violate(name, fmt.Sprintf("%s error %v on %s", name, err, nbsx.FlaggedList(hs, fl)))
				continue
			}
			wantN := 0
			missing := false
			for i, h := range hs {
				_, present := written[h]
				if out[i] != (fl[i] || present) {
					x.violate(name, fmt.Sprintf("%s %s: found=%v pre-set=%v written=%v", name, nbsx.AddrHex(h), out[i], fl[i], present))
				}
				if !fl[i] && present {
					wantN++
				}
				if !out[i] {
					missing = true
				}
			}
			if missing && !rem {
				x.violate(name+"-remaining", fmt.Sprintf("%s left a request unanswered but returned remaining=false", name))
			}
			if len(got) != wantN {
				x.violate(name, fmt.Sprintf("%s delivered %d chunks, %d requested-and-present: %s", name, len(got), wantN, nbsx.FlaggedList(hs, fl)))
			}
			for _, c := range got {
				h := c.H
				if realHashOnGetMany && !compressed {
					// archiveChunkSource.getMany re-hashes the data (chunks.NewChunk): map back through the data
					h = hash.Hash{}
					for wh, wd := range written {
						if bytes.Equal(wd, c.Data) {
							h = wh
						}
					}
					if c.H != nbsx.ContentAddr(c.Data) {
						x.violate(name, fmt.Sprintf("%s returned a chunk tagged %s that is neither the requested nor the content address", name, nbsx.AddrHex(c.H)))
					}
				}
				want, present := written[h]
				if !present || !bytes.Equal(want, c.Data) {
					x.violate(name, fmt.Sprintf("%s delivered %s = %x, written=%v %x", name, nbsx.AddrHex(h), c.Data, present, want))
				}
				if compressed && !c.Zstd {
					exp := nbs.ChunkToCompressedChunk(chunks.NewChunkWithHash(h, want)).FullCompressedChunk
					if !bytes.Equal(exp, c.Compressed) {
						x.violate(name, fmt.Sprintf("%s: stored record of %s differs from snappy(data)+crc", name, nbsx.AddrHex(h)))
					}
				}
			}
		}
	}
	all, err := src.IterateAll()
	if err != nil {
		x.violate(kind+"-iterate", fmt.Sprintf("%s.iterateAllChunks error %v", kind, err))
	} else {
		seen := map[hash.Hash]int{}
		for _, c := range all {
			seen[c.H]++
			if want, ok := written[c.H]; !ok || !bytes.Equal(want, c.Data) {
				x.violate(kind+"-iterate", fmt.Sprintf("%s.iterateAllChunks yielded %s = %x, written=%v", kind, nbsx.AddrHex(c.H), c.Data, ok))
			}
		}
		for h := range written {
			if seen[h] == 0 {
				x.violate(kind+"-iterate", fmt.Sprintf("%s.iterateAllChunks skipped %s", kind, nbsx.AddrHex(h)))
			}
		}
	}
}

func (x *env) tableCase() {
	r := x.e.Rng
	cs := genChunks(r, x.k.Max, 96)
	hs, ds := split(cs)
	written := map[hash.Hash][]byte{}
	var unc uint64
	for _, c := range cs {
		written[c.H] = c.Data
		unc += uint64(len(c.Data))
	}
	name, file, err := nbs.VerifIdxWriteTable(hs, ds)
	if err != nil {
		x.violate("table-write", "tableWriter failed: "+err.Error())
		return
	}
	src, err := nbs.VerifIdxOpenBytes(file, name)
	if err != nil {
		x.violate("table-open", "cannot open a freshly written table: "+err.Error())
		return
	}
	defer src.Close()
	n := len(cs)
	idxStart := len(file) - (n*28 + 20)
	collisions := 0
	pc := map[uint64]int{}
	for _, h := range hs {
		pc[h.Prefix()]++
	}
	for _, c := range pc {
		if c > 1 {
			collisions += c
		}
	}
	x.e.Rep.Count(fmt.Sprintf("table %d %d", x.k.Seed, x.k.Max), collisions > 0)
	if collisions > 0 {
		x.e.Rep.Hit("table:prefix-collisions")
	}
	if n == 0 {
		x.e.Rep.Hit("table:empty")
	}

	// real writer -> Lean reader
	resp := x.m.Ask("topen " + hx.Hex(file[idxStart:]))
	x.cmp("topen", fmt.Sprintf("ok %d %d %d", src.Count(), unc, src.TableFileSize()), resp)
	if ul, _ := src.UncompressedLen(); ul != unc || src.Count() != uint32(n) || src.TableFileSize() != uint64(len(file)) {
		x.violate("table-counts", fmt.Sprintf("footer count=%d unc=%d size=%d; written %d chunks, %d bytes, file %d", src.Count(), ul, src.TableFileSize(), n, unc, len(file)))
	}
	var rows []nbs.VerifIdxRange
	for i := uint32(0); i < src.Count(); i++ {
		h, off, l, err := src.IndexEntry(i)
		if err != nil {
			x.violate("table-entry", err.Error())
		}
		rows = append(rows, nbs.VerifIdxRange{H: h, Offset: off, Length: l})
	}
	rowsTupleOrder := "-"
	if len(rows) > 0 {
		p := make([]string, len(rows))
		for i, rr := range rows {
			p[i] = fmt.Sprintf("%s:%d:%d", nbsx.AddrHex(rr.H), rr.Offset, rr.Length)
		}
		rowsTupleOrder = strings.Join(p, ",")
	}
	x.cmp("entries", rowsTupleOrder, x.m.Ask("entries"))

	probes := nbsx.Probes(r, hs, 12+n/2)
	for _, h := range probes {
		_, present := written[h]
		off, l, ok, err := src.Lookup(h)
		impl := "none"
		if err != nil {
			impl = "panic"
		} else if ok {
			impl = fmt.Sprintf("some %d %d", off, l)
		}
		if ok != present {
			x.violate("table-lookup", fmt.Sprintf("lookup(%s) ok=%v written=%v", nbsx.AddrHex(h), ok, present))
		}
		if ok {
			// the record at (off,len) must be the stored form of the written bytes
			exp := nbs.ChunkToCompressedChunk(chunks.NewChunkWithHash(h, written[h])).FullCompressedChunk
			if int(off)+int(l) > len(file) || !bytes.Equal(file[off:off+uint64(l)], exp) {
				x.violate("table-lookup", fmt.Sprintf("lookup(%s) points at bytes that are not its record", nbsx.AddrHex(h)))
			}
		}
		if !present {
			x.e.Rep.Hit("probe:absent")
			if pc[h.Prefix()] > 0 {
				x.e.Rep.Hit("probe:absent-equal-prefix")
			}
		}
		x.cmp("lookup", impl, x.m.Ask("lookup "+nbsx.AddrHex(h)))
		ord, _ := src.LookupOrdinal(h)
		x.cmp("ord", fmt.Sprint(ord), x.m.Ask("ord "+nbsx.AddrHex(h)))
		x.cmp("findprefix", fmt.Sprint(src.FindPrefix(h.Prefix())), x.m.Ask(fmt.Sprintf("findprefix %d", h.Prefix())))
	}
	// batched lookups vs model: sorted (as callers do) and, for the transliteration, unsorted too
	for rep := 0; rep < 6; rep++ {
		sorted := rep < 4
		rq, fl := reqList(r, probes, 32, sorted)
		out, rem, err := src.HasMany(rq, fl)
		impl := nbsx.Flags(out) + " " + nbsx.Bit(rem)
		if err != nil {
			impl = "panic"
		}
		x.cmp("hasmany", impl, x.m.Ask("hasmany "+nbsx.FlaggedList(rq, fl)))
		if len(rq) > 0 && rem {
			// did the early exit fire? (last request's prefix beyond the last index prefix)
			px := src.Prefixes()
			if len(px) == 0 || rq[len(rq)-1].Prefix() > px[len(px)-1] {
				x.e.Rep.Hit("hasmany:early-exit")
			}
		}
		rq, fl = reqList(r, probes, 32, sorted)
		ors, out2, rem2, err := src.FindOffsets(rq, fl)
		impl = nbsx.Flags(out2) + " " + nbsx.Bit(rem2) + " " + rangesStr(ors)
		if err != nil {
			impl = "panic"
		}
		mod := x.m.Ask("findoffsets " + nbsx.FlaggedList(rq, fl))
		if f := strings.SplitN(mod, " ", 3); len(f) == 3 {
			mod = f[0] + " " + f[1] + " " + canonRecs(f[2])
		}
		x.cmp("findoffsets", impl, mod)
		if sorted && err == nil {
			// oracle: one record per newly found request, at the record of that address
			want := 0
			for i, h := range rq {
				_, present := written[h]
				if out2[i] != (fl[i] || present) {
					x.violate("table-findoffsets", fmt.Sprintf("findOffsets %s: found=%v pre-set=%v written=%v in %s", nbsx.AddrHex(h), out2[i], fl[i], present, nbsx.FlaggedList(rq, fl)))
				}
				if !fl[i] && present {
					want++
				}
				if !out2[i] && !rem2 {
					x.violate("table-findoffsets-remaining", "findOffsets left a request unanswered but remaining=false")
				}
			}
			if len(ors) != want {
				x.violate("table-findoffsets", fmt.Sprintf("findOffsets returned %d records for %d present requests", len(ors), want))
			}
			for i := 1; i < len(ors); i++ {
				if ors[i-1].Offset > ors[i].Offset {
					x.violate("table-findoffsets", "offset records not sorted by offset")
				}
			}
		}
	}
	x.checkSource(src, "table", written, probes, false)

	// Lean writer -> real reader
	if n > 0 {
		p := make([]string, n)
		for i, c := range cs {
			rl := len(nbs.ChunkToCompressedChunk(chunks.NewChunkWithHash(c.H, c.Data)).FullCompressedChunk)
			p[i] = fmt.Sprintf("%s:%d", nbsx.AddrHex(c.H), rl)
		}
		resp := x.m.Ask(fmt.Sprintf("tbuild %d %s", unc, strings.Join(p, ",")))
		if !strings.HasPrefix(resp, "ok ") {
			x.disagree("tbuild", "ok", resp)
			return
		}
		leanIdx := hx.Unhex(resp[3:])
		file2 := append(append([]byte{}, file[:idxStart]...), leanIdx...)
		if collisions == 0 && !bytes.Equal(file2, file) {
			x.disagree("tbuild-bytes", hx.Hex(file[idxStart:]), resp[3:])
		}
		src2, err := nbs.VerifIdxOpenBytes(file2, name)
		if err != nil {
			x.disagree("tbuild-open", "real reader rejects the model-written index: "+err.Error(), "ok")
			return
		}
		defer src2.Close()
		for _, h := range probes {
			want, present := written[h]
			d, err := src2.Get(h)
			if err != nil || (d != nil) != present || !bytes.Equal(d, want) {
				x.disagree("tbuild-get "+nbsx.AddrHex(h), fmt.Sprintf("%x %v", d, err), fmt.Sprintf("%x", want))
			}
		}
		x.e.Rep.Hit("table:lean-writer-read-by-go")
	}
}

func (x *env) pbsCase() {
	r := x.e.Rng
	n := r.Range(0, x.k.Max)
	vals := nbsx.GenPrefixes(r, n)
	if r.Chance(1, 4) { // dense run
		base := r.U64()
		for i := range vals {
			vals[i] = base + uint64(r.Intn(n/2+1))
		}
	}
	if r.Chance(1, 6) { // all equal
		for i := range vals {
			vals[i] = vals[0]
		}
	}
	sort.Slice(vals, func(i, j int) bool { return vals[i] < vals[j] })
	p := make([]string, len(vals))
	for i, v := range vals {
		p[i] = fmt.Sprint(v)
	}
	list := "-"
	if len(p) > 0 {
		list = strings.Join(p, ",")
	}
	dups := false
	for i := 1; i < len(vals); i++ {
		if vals[i] == vals[i-1] {
			dups = true
		}
	}
	x.e.Rep.Count(fmt.Sprintf("pbs %d", x.k.Seed), dups || n < 3)
	targets := []uint64{0, ^uint64(0), r.U64()}
	for _, v := range vals {
		targets = append(targets, v, v+1, v-1)
	}
	for _, t := range targets {
		got, pan := nbs.VerifArcSearch(vals, t)
		impl := fmt.Sprint(got)
		if pan != "" {
			impl = "panic"
		}
		want := sort.Search(len(vals), func(i int) bool { return vals[i] >= t })
		if pan != "" || got != want {
			x.violate("archive-prollybinsearch", fmt.Sprintf("prollyBinSearch(%v, %d) = %s (%s), lower bound is %d", vals, t, impl, pan, want))
		}
		x.cmp("pbs", impl, x.m.Ask(fmt.Sprintf("pbs %d %s", t, list)))
	}
}

func (x *env) archiveCase() {
	r := x.e.Rng
	cs := genChunks(r, x.k.Max, 64)
	if len(cs) == 0 {
		cs = genChunks(r, 3, 8)
		if len(cs) == 0 {
			return
		}
	}
	hs, ds := split(cs)
	written := map[hash.Hash][]byte{}
	for _, c := range cs {
		written[c.H] = c.Data
	}
	dir := filepath.Join(x.e.Scratch, fmt.Sprintf("arc-%d", x.k.Seed))
	os.MkdirAll(dir, 0o755)
	defer os.RemoveAll(dir)
	name, _, err := nbs.VerifArcWriteSnappy(dir, hs, ds)
	if err != nil {
		x.violate("archive-write", "archiveWriter failed on distinct chunks: "+err.Error())
		return
	}
	mm := r.Bool()
	src, err := nbs.VerifIdxOpenFile(dir, name, uint32(len(cs)), mm)
	if err != nil {
		x.violate("archive-open", "cannot open a freshly written archive: "+err.Error())
		return
	}
	defer src.Close()
	pc := map[uint64]int{}
	coll := false
	for _, h := range hs {
		pc[h.Prefix()]++
		if pc[h.Prefix()] > 1 {
			coll = true
		}
	}
	x.e.Rep.Count(fmt.Sprintf("archive %d %d", x.k.Seed, x.k.Max), coll)
	if mm {
		x.e.Rep.Hit("archive:mmap-index")
	} else {
		x.e.Rep.Hit("archive:in-memory-index")
	}
	file, _ := os.ReadFile(filepath.Join(dir, name.String()+nbs.ArchiveFileSuffix))
	f := src.ArcFooter()
	resp := x.m.Ask("aopen " + hx.Hex(file))
	x.cmp("aopen", fmt.Sprintf("ok %d %d %d %d %d %d", f.FormatVersion, f.ByteSpanCount, f.ChunkCount, f.MetadataSize, f.IndexSize, f.DataSpanLen), resp)
	if int(f.ChunkCount) != len(cs) || src.Count() != uint32(len(cs)) {
		x.violate("archive-counts", fmt.Sprintf("archive footer chunkCount=%d, written %d", f.ChunkCount, len(cs)))
	}
	p := make([]string, f.ChunkCount)
	for i := uint32(0); i < f.ChunkCount; i++ {
		h, d, dt, off, l := src.ArcEntry(i)
		p[i] = fmt.Sprintf("%s:%d:%d:%d:%d", nbsx.AddrHex(h), d, dt, off, l)
	}
	x.cmp("aentries", strings.Join(p, ","), x.m.Ask("aentries"))
	probes := nbsx.Probes(r, hs, 12+len(cs)/2)
	for _, h := range probes {
		i, err := src.ArcFindIndex(h)
		impl := fmt.Sprint(i)
		if err != nil {
			impl = "panic"
		}
		_, present := written[h]
		if (i >= 0) != present {
			x.violate("archive-findindex", fmt.Sprintf("findIndex(%s) = %s, written=%v", nbsx.AddrHex(h), impl, present))
		}
		x.cmp("afind", impl, x.m.Ask("afind "+nbsx.AddrHex(h)))
	}
	x.checkSource(src, "archive", written, probes, true)
}

func (x *env) journalCase() {
	r := x.e.Rng
	ri := nbs.VerifIdxNewRangeIndex()
	x.m.Ask("jnew")
	addrs := nbsx.GenAddrs(r, x.k.Max)
	probes := nbsx.Probes(r, addrs, 16)
	put := map[hash.Hash][2]uint64{}
	// which 16-byte keys are shared by two *put* addresses: flatten order is unspecified there
	flattened := false
	off := uint64(0)
	x.e.Rep.Count(fmt.Sprintf("journal %d", x.k.Seed), true)
	steps := r.Range(1, 3*len(addrs)+4)
	for s := 0; s < steps; s++ {
		switch {
		case len(addrs) > 0 && r.Chance(3, 6):
			h := addrs[r.Intn(len(addrs))]
			if _, ok := put[h]; ok {
				continue
			}
			l := uint64(r.Range(5, 400))
			ri.Put(h, off, uint32(l))
			x.m.Ask(fmt.Sprintf("jput %s %d %d", nbsx.AddrHex(h), off, l))
			put[h] = [2]uint64{off, l}
			off += l + 30
		case r.Chance(1, 5):
			ri.Flatten()
			x.m.Ask("jflat")
			flattened = true
			x.e.Rep.Hit("journal:flatten")
		default:
			if len(probes) == 0 {
				continue
			}
			h := probes[r.Intn(len(probes))]
			o, l, ok := ri.Get(h)
			impl := "none"
			if ok {
				impl = fmt.Sprintf("some %d %d", o, l)
			}
			want, present := put[h]
			// aliasing *put* keys make the model's tie order arbitrary: compare only when unambiguous
			amb := 0
			for ph := range put {
				if bytes.Equal(ph[:16], h[:16]) {
					amb++
				}
			}
			if amb <= 1 {
				x.cmp("jget", impl, x.m.Ask("jget "+nbsx.AddrHex(h)))
			}
			switch {
			case present && (!ok || (amb <= 1 && (o != want[0] || uint64(l) != want[1]))):
				x.violate("journal-get", fmt.Sprintf("rangeIndex.get(%s) = %s, put range %v", nbsx.AddrHex(h), impl, want))
			case !present && ok:
				if flattened && amb >= 1 {
					x.e.Rep.Known(journalKey, fmt.Sprintf("journal rangeIndex.get after flatten answers the absent address %s with the range of a stored address sharing its first 16 bytes", nbsx.AddrHex(h)), x.k)
					x.e.Rep.Hit("journal:addr16-alias-witness")
				} else {
					x.violate("journal-get", fmt.Sprintf("rangeIndex.get(%s) = %s for an address never put", nbsx.AddrHex(h), impl))
				}
			}
		}
	}
}

func (x *env) run() {
	x.e.Rng = hx.NewRng(x.k.Seed)
	switch x.k.Kind {
	case "table":
		x.tableCase()
	case "archive":
		x.archiveCase()
	case "pbs":
		x.pbsCase()
	case "journal":
		x.journalCase()
	}
	x.e.Rep.Hit("kind:" + x.k.Kind)
}

func main() {
	e := hx.Init("nbsindex", "C01")
	defer e.Finish()
	e.Rep.Rule = "constructed (not hashed) 20-byte addresses in families sharing the 8-byte prefix (suffix differs in first byte / last byte / one bit / last 4 bytes), prefixes 0, 2^64-1 and ±1 neighbours; probes = every present address + absent neighbours; request lists prefix-sorted with pre-set flags (and unsorted for the transliteration); nontrivial = the file has ≥2 chunks with equal prefix (tables/archives), duplicates or <3 elements (search), every journal case; distinct by (kind, seed, size)"
	m := e.MustModel()
	defer m.Close()
	runOne := func(k kase) {
		x := &env{e: e, m: m, k: k}
		if s := hx.Recover(func() string { x.run(); return "" }); s != "" {
			e.Rep.Violate("panic-"+k.Kind, "harness/real code panicked: "+s, k)
		}
	}
	master := e.Rng
	if e.Replay != "" {
		rf, err := hx.LoadReplay(e.Replay)
		if err != nil {
			panic(err)
		}
		var k kase
		var wrapped struct {
			Case kase `json:"case"`
		}
		if json.Unmarshal(rf.Case, &wrapped) == nil && wrapped.Case.Kind != "" {
			k = wrapped.Case
		} else {
			json.Unmarshal(rf.Case, &k)
		}
		runOne(k)
		return
	}
	for _, raw := range e.CorpusCases() {
		var k kase
		if json.Unmarshal(raw, &k) == nil && (k.Kind == "table" || k.Kind == "archive" || k.Kind == "pbs" || k.Kind == "journal") {
			runOne(k)
		}
	}
	n := e.N(600, 25000)
	for i := 0; i < n; i++ {
		k := kase{Seed: master.U64(), Max: hx.Pick(master, []int{0, 1, 2, 3, 6, 12, 24, 48, 64})}
		switch master.Intn(10) {
		case 0, 1, 2, 3, 4:
			k.Kind = "table"
		case 5, 6:
			k.Kind = "archive"
		case 7:
			k.Kind = "pbs"
		default:
			k.Kind = "journal"
		}
		runOne(k)
	}
	e.Rng = master
}
