package main

import (
	"encoding/json"
	"fmt"
	"math/big"
	"strings"
	"time"

	"verif/harness/internal/hx"
)

func pow2(n int) *big.Int  { return new(big.Int).Lsh(big.NewInt(1), uint(n)) }
func pow10(n int) *big.Int { return new(big.Int).Exp(big.NewInt(10), big.NewInt(int64(n)), nil) }

func randBig(r *hx.Rng, limit *big.Int) *big.Int { // uniform-ish in [0,limit)
	if limit.Sign() <= 0 {
		return big.NewInt(0)
	}
	b := r.Bytes(len(limit.Bytes()) + 2)
	return new(big.Int).Mod(new(big.Int).SetBytes(b), limit)
}

var intWidths = []int{1, 2, 3, 4, 8}
var varcharChars = []int{1, 10, 63, 64, 100, 255, 256, 1000, 16383}
var varbinaryLens = []int{1, 10, 255, 256, 300, 65535}
var charChars = []int{1, 10, 63, 64, 255}
var binaryLens = []int{1, 16, 255}
var blobKinds = []string{"tinyblob", "blob", "mediumblob", "longblob", "tinytext", "text", "mediumtext", "longtext"}
var enumSizes = []int{1, 2, 3, 255, 256, 300, 1000}

func cellCase(t, v string) kase { return kase{Kind: "cell", T: t, V: v} }

func intVals(r *hx.Rng, w int, signed bool) []*big.Int {
	bits := 8 * w
	if signed {
		min := new(big.Int).Neg(pow2(bits - 1))
		max := new(big.Int).Sub(pow2(bits-1), big.NewInt(1))
		return []*big.Int{min, new(big.Int).Add(min, big.NewInt(1)), big.NewInt(-1), big.NewInt(0), big.NewInt(1),
			new(big.Int).Sub(max, big.NewInt(1)), max, big.NewInt(-128), big.NewInt(127), big.NewInt(-129)}
	}
	max := new(big.Int).Sub(pow2(bits), big.NewInt(1))
	return []*big.Int{big.NewInt(0), big.NewInt(1), max, new(big.Int).Sub(max, big.NewInt(1)), pow2(bits - 1),
		new(big.Int).Sub(pow2(bits-1), big.NewInt(1)), big.NewInt(255)}
}

func inRangeInt(v *big.Int, w int, signed bool) bool {
	bits := 8 * w
	if signed {
		return v.Cmp(new(big.Int).Neg(pow2(bits-1))) >= 0 && v.Cmp(pow2(bits-1)) < 0
	}
	return v.Sign() >= 0 && v.Cmp(pow2(bits)) < 0
}

func fmtTime(neg bool, h, m, s, us int64) string {
	v := (h*3600+m*60+s)*1000000 + us
	if neg {
		v = -v
	}
	return fmt.Sprintf("t:%d", v)
}

func fspUs(r *hx.Rng, fsp int) int {
	unit := 1
	for i := 0; i < 6-fsp; i++ {
		unit *= 10
	}
	switch r.Intn(5) {
	case 0:
		return 0
	case 1:
		return (1000000/unit - 1) * unit // all nines at this precision
	case 2:
		return unit % 1000000 // smallest non-zero
	}
	return r.Intn(1000000/unit) * unit
}

func daysIn(y, m int) int {
	return time.Date(y, time.Month(m)+1, 0, 0, 0, 0, 0, time.UTC).Day()
}

func strBytes(r *hx.Rng, n int, binary bool) []byte {
	b := make([]byte, n)
	for i := range b {
		if binary {
			b[i] = byte(r.U64())
		} else {
			b[i] = byte(0x20 + r.Intn(0x5f))
		}
	}
	return b
}

func lenChoices(max int) []int {
	c := []int{0, 1, 2, 127, 128, 254, 255, 256, 257, 65535, 65536, 65537, max - 1, max}
	var out []int
	for _, n := range c {
		if n >= 0 && n <= max && n <= 70000 {
			out = append(out, n)
		}
	}
	return out
}

// decimalValue picks an unscaled value < 10^p biased to the group boundaries.
func decimalValue(r *hx.Rng, p, s int) *big.Int {
	lim := pow10(p)
	switch r.Intn(9) {
	case 0:
		return big.NewInt(0)
	case 1:
		return big.NewInt(1) // smallest unit: all leading zeros
	case 2:
		return new(big.Int).Sub(lim, big.NewInt(1)) // all nines
	case 3:
		return pow10(r.Intn(p)) // a single 1 digit somewhere
	case 4:
		return new(big.Int).Sub(pow10(1+r.Intn(p)), big.NewInt(1)) // k nines
	case 5:
		if s > 0 {
			return new(big.Int).Mul(randBig(r, pow10(p-s)), pow10(s)) // integral value (reducible exponent)
		}
	case 6:
		if s > 0 {
			return randBig(r, pow10(s)) // pure fraction
		}
	}
	return randBig(r, lim)
}

// boundaryCases: the fixed list run on every seed.
func boundaryCases() []kase {
	r := hx.NewRng(12345)
	var ks []kase
	for _, w := range intWidths {
		for _, sg := range []bool{true, false} {
			s := "u"
			if sg {
				s = "s"
			}
			for _, v := range intVals(r, w, sg) {
				if inRangeInt(v, w, sg) {
					ks = append(ks, cellCase(fmt.Sprintf("int:%d:%s", w, s), "i:"+v.String()))
				}
			}
		}
	}
	for _, y := range []int{0, 1901, 1902, 1999, 2000, 2027, 2028, 2029, 2155, 2154} {
		ks = append(ks, cellCase("year", fmt.Sprintf("i:%d", y)))
	}
	for _, d := range [][3]int{{1000, 1, 1}, {9999, 12, 31}, {2024, 2, 29}, {1970, 1, 1}, {2038, 1, 19}, {1999, 12, 31}, {2000, 1, 1}} {
		ks = append(ks, cellCase("date", fmt.Sprintf("d:%d:%d:%d", d[0], d[1], d[2])))
	}
	for _, neg := range []bool{false, true} {
		for _, x := range [][4]int64{{0, 0, 0, 0}, {0, 0, 0, 1}, {0, 0, 1, 0}, {0, 0, 59, 0}, {0, 0, 59, 500000}, {0, 0, 59, 999999}, {0, 0, 58, 999999},
			{0, 59, 59, 1}, {0, 59, 58, 1}, {1, 0, 0, 0}, {23, 59, 59, 999999}, {838, 59, 59, 0}, {838, 59, 58, 999999}, {837, 59, 59, 999999}, {100, 0, 0, 100000}, {0, 1, 0, 0}, {0, 1, 0, 1}} {
			if neg && x == [4]int64{0, 0, 0, 0} {
				continue
			}
			ks = append(ks, cellCase("time", fmtTime(neg, x[0], x[1], x[2], x[3])))
		}
	}
	for fsp := 0; fsp <= 6; fsp++ {
		unit := 1
		for i := 0; i < 6-fsp; i++ {
			unit *= 10
		}
		for _, us := range []int{0, unit % 1000000, (1000000/unit - 1) * unit} {
			ks = append(ks, cellCase(fmt.Sprintf("datetime:%d", fsp), fmt.Sprintf("dt:1000:1:1:0:0:0:%d", us)))
			ks = append(ks, cellCase(fmt.Sprintf("datetime:%d", fsp), fmt.Sprintf("dt:9999:12:31:23:59:59:%d", us)))
			ks = append(ks, cellCase(fmt.Sprintf("timestamp:%d", fsp), fmt.Sprintf("ts:1:%d", us)))
			ks = append(ks, cellCase(fmt.Sprintf("timestamp:%d", fsp), fmt.Sprintf("ts:2147483647:%d", us)))
			ks = append(ks, cellCase(fmt.Sprintf("timestamp:%d", fsp), fmt.Sprintf("ts:1700000000:%d", us)))
		}
	}
	for _, ps := range [][2]int{{1, 0}, {1, 1}, {2, 1}, {2, 2}, {9, 0}, {9, 9}, {10, 0}, {10, 1}, {10, 9}, {10, 10}, {18, 9}, {18, 0}, {19, 10}, {20, 0}, {27, 9}, {30, 30}, {38, 10}, {65, 0}, {65, 30}, {64, 29}, {31, 30}, {5, 2}, {12, 4}} {
		p, s := ps[0], ps[1]
		t := fmt.Sprintf("decimal:%d:%d", p, s)
		for _, u := range []*big.Int{big.NewInt(0), big.NewInt(1), new(big.Int).Sub(pow10(p), big.NewInt(1)), pow10(p - 1)} {
			ks = append(ks, cellCase(t, "dec:0:"+u.String()))
			if u.Sign() != 0 {
				ks = append(ks, cellCase(t, "dec:1:"+u.String()))
				k := cellCase(t, "dec:1:"+u.String())
				k.Variant = 1
				ks = append(ks, k)
			}
		}
	}
	for _, n := range []int{1, 7, 8, 9, 16, 17, 63, 64} {
		for _, v := range []*big.Int{big.NewInt(0), big.NewInt(1), new(big.Int).Sub(pow2(n), big.NewInt(1)), pow2(n - 1)} {
			ks = append(ks, cellCase(fmt.Sprintf("bit:%d", n), "i:"+v.String()))
			ks = append(ks, cellCase(fmt.Sprintf("set:%d", n), "i:"+v.String()))
		}
	}
	for _, n := range enumSizes {
		for _, v := range []int{1, n, (n + 1) / 2} {
			ks = append(ks, cellCase(fmt.Sprintf("enum:%d", n), fmt.Sprintf("i:%d", v)))
		}
	}
	add := func(t string, max int, binary bool) {
		for _, n := range lenChoices(max) {
			ks = append(ks, cellCase(t, "b:"+hexs(strBytes(r, n, binary))))
		}
	}
	for _, n := range varcharChars {
		ts, _ := parseTspec(fmt.Sprintf("varchar:%d", n))
		if ts != nil {
			// a VARCHAR(n) holds n characters: stay within n one-byte characters
			add(ts.Spec, n, false)
		}
	}
	for _, n := range varbinaryLens {
		add(fmt.Sprintf("varbinary:%d", n), n, true)
	}
	for _, n := range charChars {
		add(fmt.Sprintf("char:%d", n), n, false)
	}
	for _, n := range binaryLens {
		add(fmt.Sprintf("binary:%d", n), n, true)
	}
	for _, b := range blobKinds {
		ts, _ := parseTspec(b)
		mx := ts.Max
		if !ts.Binary {
			mx = ts.Max / 4
		}
		add(b, mx, ts.Binary)
	}
	for _, b := range []uint64{0, 0x3f800000, 0xbf800000, 0x7f7fffff, 1, 0x80000000, 0x00800000} {
		ks = append(ks, cellCase("f32", fmt.Sprintf("i:%d", b)))
	}
	for _, b := range []uint64{0, 0x3ff0000000000000, 0xbff0000000000000, 0x7fefffffffffffff, 1, 0x8000000000000000, 0x0010000000000000} {
		ks = append(ks, cellCase("f64", fmt.Sprintf("i:%d", b)))
	}
	// JSON boundary documents
	for _, d := range []string{`null`, `true`, `false`, `1`, `-1.5`, `"x"`, `""`, `[]`, `{}`, `[null,true,false]`, `{"a":1}`, `{"a":{"b":[1,2,{"c":null}]}}`,
		`["it's","a\"b","\\", "\n\t"]`, `{"k k":"v","":0}`, `[1e308,-1e-308,123456789012345678]`} {
		ks = append(ks, kase{Kind: "json", Doc: d})
	}
	ks = append(ks, kase{Kind: "json", Doc: `{"` + strings.Repeat("k", 255) + `":1}`})
	ks = append(ks, kase{Kind: "json", Doc: `{"` + strings.Repeat("k", 256) + `":1}`})
	ks = append(ks, kase{Kind: "json", Doc: `{"` + strings.Repeat("k", 300) + `":"v","b":2}`})
	ks = append(ks, kase{Kind: "json", Doc: `["` + strings.Repeat("s", 127) + `","` + strings.Repeat("t", 128) + `","` + strings.Repeat("u", 16383) + `","` + strings.Repeat("v", 16384) + `"]`})
	ks = append(ks, kase{Kind: "json", Doc: `["` + strings.Repeat("s", 66000) + `"]`})
	ks = append(ks, kase{Kind: "json", Doc: `{"a":"` + strings.Repeat("s", 70000) + `"}`})
	ks = append(ks, kase{Kind: "json", Doc: `["` + strings.Repeat("s", 40000) + `","` + strings.Repeat("t", 40000) + `"]`})
	// the defect shapes through the SQL engine (insert → stored row → row event → replica decoder)
	ks = append(ks, kase{Kind: "sql", Cols: []string{"time"}, Stmts: []string{"INSERT INTO %T VALUES (1,'-00:00:59.500000'),(2,'-00:00:58.500000'),(3,'00:00:59.500000')", "UPDATE %T SET c0 = '-00:59:59.000001' WHERE pk = 2", "DELETE FROM %T WHERE pk = 2"}})
	ks = append(ks, kase{Kind: "sql", Cols: []string{"year"}, Stmts: []string{"INSERT INTO %T VALUES (1,0),(2,1901),(3,2155)"}})
	ks = append(ks, kase{Kind: "sql", Cols: []string{"decimal:3:3", "int:4:s"}, Stmts: []string{"INSERT INTO %T VALUES (1,0.5,7)"}})
	ks = append(ks, kase{Kind: "sql", Cols: []string{"json"}, Stmts: []string{"INSERT INTO %T VALUES (1,'{\"" + strings.Repeat("k", 256) + "\":1}')"}})
	ks = append(ks, kase{Kind: "sql", Cols: []string{"date", "datetime:6"}, Stmts: []string{"INSERT INTO %T VALUES (1,'0000-00-00','0000-00-00 00:00:00'),(2,'1000-01-01','9999-12-31 23:59:59.999999')"}})
	ks = append(ks, kase{Kind: "sql", Cols: []string{"int:1:s", "varchar:64", "decimal:20:10", "datetime:3", "blob", "bit:9", "enum:300", "set:9", "time"},
		Stmts: []string{"INSERT INTO %T VALUES (1,NULL,NULL,NULL,NULL,NULL,NULL,NULL,NULL,NULL),(2,-128,'',-9999999999.9999999999,'2024-02-29 23:59:59.999',x'00ff',511,300,511,'838:59:59'),(3,127,NULL,0.0000000001,NULL,'',NULL,1,NULL,'-838:59:59')",
			"UPDATE %T SET c1 = 'x', c4 = NULL WHERE pk >= 2", "DELETE FROM %T WHERE pk = 1"}})
	return ks
}

// genCell: one random (type, value) case.
func genCell(r *hx.Rng) kase {
	switch r.Intn(16) {
	case 0, 1:
		w := hx.Pick(r, intWidths)
		sg := r.Bool()
		s := "u"
		if sg {
			s = "s"
		}
		var v *big.Int
		if r.Chance(1, 3) {
			v = hx.Pick(r, intVals(r, w, sg))
		} else {
			v = randBig(r, pow2(8*w))
			if sg {
				v.Sub(v, pow2(8*w-1))
			}
			if r.Chance(1, 4) { // small magnitudes
				v = big.NewInt(int64(r.Intn(512)) - 256)
			}
		}
		if !inRangeInt(v, w, sg) {
			v = big.NewInt(0)
		}
		return cellCase(fmt.Sprintf("int:%d:%s", w, s), "i:"+v.String())
	case 2:
		if r.Bool() {
			b := uint32(r.U64())
			if b&0x7f800000 == 0x7f800000 {
				b &^= 0x00800000 // no Inf/NaN
			}
			return cellCase("f32", fmt.Sprintf("i:%d", b))
		}
		b := r.U64()
		if b&0x7ff0000000000000 == 0x7ff0000000000000 {
			b &^= 0x0010000000000000
		}
		return cellCase("f64", fmt.Sprintf("i:%d", b))
	case 3:
		if r.Chance(1, 12) {
			return cellCase("year", "i:0")
		}
		return cellCase("year", fmt.Sprintf("i:%d", r.Range(1901, 2155)))
	case 4:
		y, m := r.Range(1000, 9999), r.Range(1, 12)
		return cellCase("date", fmt.Sprintf("d:%d:%d:%d", y, m, r.Range(1, daysIn(y, m))))
	case 5, 6:
		h := int64(r.Intn(839))
		if r.Chance(1, 3) {
			h = int64(r.Intn(3))
		}
		mi, s := int64(r.Intn(60)), int64(r.Intn(60))
		if r.Chance(1, 4) {
			s = 59
		}
		if r.Chance(1, 6) {
			mi = 59
		}
		us := int64(0)
		if r.Chance(2, 3) {
			us = int64(r.Intn(1000000))
			if r.Chance(1, 4) {
				us = hx.Pick(r, []int64{1, 999999, 500000, 100000, 10})
			}
		}
		if h == 838 && mi == 59 && s == 59 {
			us = 0
		}
		neg := r.Bool() && (h+mi+s+us) > 0
		return cellCase("time", fmtTime(neg, h, mi, s, us))
	case 7:
		fsp := r.Intn(7)
		y, m := r.Range(1000, 9999), r.Range(1, 12)
		return cellCase(fmt.Sprintf("datetime:%d", fsp), fmt.Sprintf("dt:%d:%d:%d:%d:%d:%d:%d", y, m, r.Range(1, daysIn(y, m)), r.Intn(24), r.Intn(60), r.Intn(60), fspUs(r, fsp)))
	case 8:
		fsp := r.Intn(7)
		secs := int64(r.Range(1, 2147483647))
		if r.Chance(1, 5) {
			secs = hx.Pick(r, []int64{1, 2147483647, 86400, 1700000000, 951782400})
		}
		return cellCase(fmt.Sprintf("timestamp:%d", fsp), fmt.Sprintf("ts:%d:%d", secs, fspUs(r, fsp)))
	case 9, 10, 11:
		p := r.Range(1, 65)
		if r.Chance(1, 3) {
			p = hx.Pick(r, []int{1, 2, 8, 9, 10, 17, 18, 19, 27, 28, 36, 37, 45, 46, 54, 55, 63, 64, 65})
		}
		smax := p
		if smax > 30 {
			smax = 30
		}
		s := r.Intn(smax + 1)
		if r.Chance(1, 3) {
			s = hx.Pick(r, []int{0, 1, 2, 8, 9, 10, 17, 18, 19, 27, 28, 30})
			if s > smax {
				s = smax
			}
		}
		if s == p && !r.Chance(1, 6) && p > 1 {
			s = p - 1
		}
		u := decimalValue(r, p, s)
		neg := 0
		if r.Bool() && u.Sign() != 0 {
			neg = 1
		}
		k := cellCase(fmt.Sprintf("decimal:%d:%d", p, s), fmt.Sprintf("dec:%d:%s", neg, u.String()))
		k.Variant = r.Intn(2)
		return k
	case 12:
		n := r.Range(1, 64)
		v := randBig(r, pow2(n))
		if r.Chance(1, 4) {
			v = new(big.Int).Sub(pow2(n), big.NewInt(1))
		}
		if r.Bool() {
			return cellCase(fmt.Sprintf("bit:%d", n), "i:"+v.String())
		}
		return cellCase(fmt.Sprintf("set:%d", n), "i:"+v.String())
	case 13:
		n := hx.Pick(r, enumSizes)
		return cellCase(fmt.Sprintf("enum:%d", n), fmt.Sprintf("i:%d", r.Range(1, n)))
	case 14:
		var t string
		var max int
		var binary bool
		switch r.Intn(4) {
		case 0:
			n := hx.Pick(r, varcharChars)
			t, max = fmt.Sprintf("varchar:%d", n), n
		case 1:
			n := hx.Pick(r, varbinaryLens)
			t, max, binary = fmt.Sprintf("varbinary:%d", n), n, true
		case 2:
			n := hx.Pick(r, charChars)
			t, max = fmt.Sprintf("char:%d", n), n
		default:
			n := hx.Pick(r, binaryLens)
			t, max, binary = fmt.Sprintf("binary:%d", n), n, true
		}
		n := r.Intn(max + 1)
		if r.Chance(1, 3) {
			n = hx.Pick(r, lenChoices(max))
		}
		if n > 3000 && !r.Chance(1, 20) {
			n = r.Intn(600)
			if n > max {
				n = max
			}
		}
		return cellCase(t, "b:"+hexs(strBytes(r, n, binary)))
	default:
		b := hx.Pick(r, blobKinds)
		ts, _ := parseTspec(b)
		mx := ts.Max
		if !ts.Binary {
			mx /= 4
		}
		n := r.Intn(600)
		if r.Chance(1, 3) {
			n = hx.Pick(r, lenChoices(mx))
		}
		if n > mx {
			n = mx
		}
		if n > 3000 && !r.Chance(1, 20) {
			n = r.Intn(600)
			if n > mx {
				n = mx
			}
		}
		return cellCase(b, "b:"+hexs(strBytes(r, n, ts.Binary)))
	}
}

// ---------------------------------------------------------------- JSON documents

func genJSONValue(r *hx.Rng, depth int) any {
	k := r.Intn(10)
	if depth <= 0 && k >= 6 {
		k = r.Intn(6)
	}
	switch k {
	case 0:
		return nil
	case 1:
		return r.Bool()
	case 2:
		switch r.Intn(4) {
		case 0:
			return float64(r.Intn(100000) - 50000)
		case 1:
			return float64(int64(r.U64()>>12)) / 1024
		case 2:
			return hx.Pick(r, []float64{0, 1, -1, 32767, 32768, -32768, 65535, 65536, 2147483647, 2147483648, 4294967296, 1e15, 1.5e-7})
		}
		return float64(r.Intn(1000)) / 8
	case 3, 4, 5:
		n := r.Intn(12)
		if r.Chance(1, 8) {
			n = hx.Pick(r, []int{0, 127, 128, 129, 255, 256, 1000})
		}
		b := strBytes(r, n, false)
		return string(b)
	case 6, 7:
		n := r.Intn(5)
		if r.Chance(1, 10) {
			n = r.Intn(40)
		}
		a := make([]any, n)
		for i := range a {
			a[i] = genJSONValue(r, depth-1)
		}
		return a
	default:
		n := r.Intn(5)
		m := map[string]any{}
		for i := 0; i < n; i++ {
			kl := r.Range(0, 6)
			if r.Chance(1, 12) {
				kl = hx.Pick(r, []int{20, 100, 254, 255})
			}
			key := string(strBytes(r, kl, false))
			if r.Chance(1, 4) {
				key = hx.Pick(r, []string{"a", "b", "ab", "aa", "a b", "k'", `k"`, "Z", "é"})
			}
			m[key] = genJSONValue(r, depth-1)
		}
		return m
	}
}

func genJSON(r *hx.Rng, i int) kase {
	v := genJSONValue(r, 4)
	if r.Chance(3, 4) { // mostly containers at top level
		switch v.(type) {
		case []any, map[string]any:
		default:
			v = []any{v, genJSONValue(r, 3)}
		}
	}
	if s, ok := v.(string); ok {
		// vitess prints a top-level string unescaped: keep it free of quote/backslash
		v = strings.Map(func(c rune) rune {
			if c == '"' || c == '\\' || c == '\'' {
				return 'x'
			}
			return c
		}, s)
	}
	b, _ := json.Marshal(v)
	return kase{Kind: "json", Doc: string(b)}
}
