// binlog: correspondence + property oracle for C40 (binlog row events encode values the way a
// MySQL replica decodes them).
//
// Stream A ("cell"): every serializer of typeSerializersMap is run in-process on boundary and
// random values; (i) ORACLE on the implementation: the bytes + the metadata dolt emits are decoded
// with the vitess binlog decoder (mysql.CellValue — what a replica runs) and must give back the
// stored value, consuming exactly the bytes; (ii) bytes/type byte/metadata must equal the Lean
// model's encoder; (iii) the Lean model's independent decoder must agree with the vitess decoder.
// Stream B ("sql"): tables of random column types are created through the real SQL engine, rows
// are inserted/updated/deleted, the TableMap + Write/Update/Delete row events are produced by the
// binlog producer's own functions, parsed back with the vitess event parser and compared with what
// SELECT returns (NULL patterns included); the row images are compared with the model's encodeRow.
package main

import (
	"context"
	"encoding/json"
	"fmt"
	"math/big"
	"sort"
	"strings"

	"github.com/dolthub/go-mysql-server/sql"
	gmstypes "github.com/dolthub/go-mysql-server/sql/types"
	"github.com/dolthub/vitess/go/mysql"

	br "github.com/dolthub/dolt/go/libraries/doltcore/sqle/binlogreplication"

	"verif/harness/internal/hx"
)

type kase struct {
	Kind    string   `json:"kind"` // cell | json | sql
	T       string   `json:"t,omitempty"`
	V       string   `json:"v,omitempty"`
	Variant int      `json:"variant,omitempty"`
	Doc     string   `json:"doc,omitempty"`  // json: document text
	Cols    []string `json:"cols,omitempty"` // sql: column type specs
	Stmts   []string `json:"stmts,omitempty"`
}

var sqlCtx = sql.NewEmptyContext()

// ---------------------------------------------------------------- known-finding keys

// classify gives the stable key of a violating input: the defect shapes recorded as known findings
// get their own key, everything else a generic one (YEAR 0000 and long JSON keys were repaired in
// /repo — e60c6b5, 22b8e06 — and are ordinary cases again: a regression is a plain violation).
func classify(t *tspec, c *cell) string {
	switch t.Fam {
	case "time":
		a := c.Micros
		if a < 0 {
			a = -a
			if a%1000000 != 0 && (a/1000000)%60 == 59 {
				return "time2-negative-fraction-seconds-59"
			}
		}
	case "date", "datetime":
		if c.F[0] <= 0 {
			return "zero-date"
		}
	case "decimal":
		if t.P == t.S {
			return "decimal-precision-equals-scale"
		}
	}
	return "cell-" + t.Fam
}

func errClass(err error) string {
	if err == nil {
		return "ok"
	}
	m := err.Error()
	switch {
	case strings.Contains(m, "unexpected remaining string"):
		return "err remaining"
	case strings.Contains(m, "out of range"), strings.Contains(m, "too large"), strings.Contains(m, "too long"),
		strings.Contains(m, "is not valid"), strings.Contains(m, "not a valid"), strings.Contains(m, "is not a valid"):
		return "err range"
	}
	return "err other: " + m
}

// ---------------------------------------------------------------- stream A

func runCell(e *hx.Env, m *hx.Model, k kase) {
	t, err := parseTspec(k.T)
	if err != nil {
		e.Rep.Note("bad case: " + err.Error())
		return
	}
	c, err := parseCell(k.V)
	if err != nil {
		e.Rep.Note("bad case: " + err.Error())
		return
	}
	val, err := goValue(t, c, k.Variant)
	if err != nil {
		e.Rep.Note("bad case: " + err.Error())
		return
	}
	var data []byte
	var tc byte
	var md uint16
	impl := hx.Recover(func() string {
		d, err := br.VerifSerialize(sqlCtx, t.Typ, val, nil)
		if err != nil {
			return errClass(err)
		}
		data = d
		tc, md, _ = br.VerifMetadata(sqlCtx, t.Typ)
		return fmt.Sprintf("ok %s %d %d", hx.Hex(d), tc, md)
	})
	mod := m.Ask("enc " + t.Model + " " + k.V)
	key := classify(t, c)
	e.Rep.Count(k.T+" "+k.V, true)
	e.Rep.Hit("cell:" + t.Fam)
	e.Rep.Sample(map[string]string{"t": k.T, "v": k.V, "impl": clip(impl), "model": clip(mod)})

	// (i) the property's own oracle on the implementation
	want := expected(t, c)
	if !strings.HasPrefix(impl, "ok ") {
		e.Rep.Hit("impl:" + strings.SplitN(impl, ":", 2)[0])
		e.Rep.Violate(key, fmt.Sprintf("%s value %s (stored, in the column's domain) is not serialized: %s", k.T, k.V, clip(impl)), k)
	} else {
		var got string
		var n int
		dec := hx.Recover(func() string {
			v, l, err := mysql.CellValue(data, 0, tc, md, t.Typ.Type())
			if err != nil {
				return "decode error: " + err.Error()
			}
			n = l
			s, err := canonVitess(t, v)
			if err != nil {
				return "decode error: " + err.Error()
			}
			got = s
			return "ok"
		})
		vitessOK := dec == "ok" && got == want && n == len(data)
		if !vitessOK {
			e.Rep.Hit("oracle-mismatch:" + key)
			e.Rep.Violate(key, fmt.Sprintf("%s stored %s → bytes %s meta (%d,%#x): replica decodes %s [%s] consuming %d/%d bytes, stored value is %s",
				k.T, k.V, clip(hx.Hex(data)), tc, md, clip(got), dec, n, len(data), clip(want)), k)
		}
		// (iii) the model's independent decoder against the vitess decoder
		sg := "0"
		if t.Signed {
			sg = "1"
		}
		md2 := m.Ask(fmt.Sprintf("dec %d %d %s %s", tc, md, sg, hx.Hex(data)))
		modelOK := md2 == fmt.Sprintf("ok %s %d", normCell(k.V), len(data))
		if modelOK != vitessOK {
			e.Rep.Disagree(k, fmt.Sprintf("vitess decoder: match=%v (%s)", vitessOK, clip(got)), "model decoder: "+clip(md2), "decoders differ on dolt's bytes")
		}
	}
	// (ii) implementation vs model encoder
	if impl != mod && !(strings.HasPrefix(impl, "err other") && strings.HasPrefix(mod, "err")) {
		e.Rep.Disagree(k, clip(impl), clip(mod), "encoder")
	}
}

// normCell is the cell spec as the model prints it back (decimal zero has no sign).
func normCell(v string) string {
	if strings.HasPrefix(v, "dec:1:") {
		u, _ := new(big.Int).SetString(v[6:], 10)
		if u != nil && u.Sign() == 0 {
			return "dec:1:0"
		}
	}
	return v
}

func clip(s string) string {
	if len(s) > 300 {
		return s[:140] + "…" + s[len(s)-140:]
	}
	return s
}

// runJSON: the JSON serializer.  The binary JSON body is decoded by the vitess JSON decoder and
// compared with the document (oracle); the model only frames the body (4-byte length).
func runJSON(e *hx.Env, m *hx.Model, k kase) {
	var doc any
	if err := json.Unmarshal([]byte(k.Doc), &doc); err != nil {
		e.Rep.Note("bad json case: " + err.Error())
		return
	}
	t, _ := parseTspec("json")
	var data []byte
	var tc byte
	var md uint16
	impl := hx.Recover(func() string {
		d, err := br.VerifSerialize(sqlCtx, t.Typ, gmstypes.JSONDocument{Val: doc}, nil)
		if err != nil {
			return errClass(err)
		}
		data = d
		tc, md, _ = br.VerifMetadata(sqlCtx, t.Typ)
		return fmt.Sprintf("ok %s %d %d", hx.Hex(d), tc, md)
	})
	key := classifyJSON(doc)
	e.Rep.Count("json "+k.Doc, true)
	e.Rep.Hit("cell:json")
	if !strings.HasPrefix(impl, "ok ") {
		e.Rep.Violate(key, fmt.Sprintf("JSON document (%d bytes of text) is not serialized: %s", len(k.Doc), clip(impl)), k)
		return
	}
	var n int
	dec := hx.Recover(func() string {
		v, l, err := mysql.CellValue(data, 0, tc, md, t.Typ.Type())
		if err != nil {
			return "decode error: " + err.Error()
		}
		n = l
		got, err := parseVitessJSON(v.Raw())
		if err != nil {
			return "decode error: " + err.Error()
		}
		if !jsonEqual(got, doc) {
			return "replica decodes a different document: " + clip(string(v.Raw()))
		}
		return "ok"
	})
	if dec == "ok" {
		dec = jsonDeclaredSize(data[4:])
	}
	if dec != "ok" || n != len(data) {
		e.Rep.Hit("oracle-mismatch:" + key)
		e.Rep.Violate(key, fmt.Sprintf("JSON %s: %s (consumed %d/%d)", clip(k.Doc), dec, n, len(data)), k)
	}
	if obj, ok := doc.(map[string]any); ok && len(data) > 5 && len(obj) > 0 {
		// key-entry section of the top-level object against the model's jsonKeyEntries
		body := data[5:]
		large := data[4] == 1
		w, lg := 2, "0"
		if large {
			w, lg = 4, "1"
		}
		keys := make([]string, 0, len(obj))
		for kk := range obj {
			keys = append(keys, kk)
		}
		sort.Strings(keys)
		req := "jkeys " + lg
		for _, kk := range keys {
			req += " " + hx.Hex([]byte(kk))
		}
		lo, hi := 2*w, 2*w+len(keys)*(w+2)
		if hi <= len(body) {
			e.Rep.Hit("json:key-entries-compared")
			if got, want := "ok "+hx.Hex(body[lo:hi]), m.Ask(req); got != want {
				e.Rep.Disagree(k, clip(got), clip(want), "json object key entries")
			}
		}
	}
	if len(data) >= 4 {
		mod := m.Ask("enc json b:" + hx.Hex(data[4:]))
		if mod != impl {
			e.Rep.Disagree(k, clip(impl), clip(mod), "json framing")
		}
	}
}

// jsonDeclaredSize checks, for a top-level array/object, the size field of the MySQL binary JSON
// format ("total size of the encoded container", json_binary.h): a MySQL server rejects a document
// whose declared size differs from the real extent, the vitess printer does not look at it.
func jsonDeclaredSize(body []byte) string {
	if len(body) < 1 {
		return "ok"
	}
	var size int
	switch body[0] {
	case 0, 2:
		if len(body) < 5 {
			return "truncated container header"
		}
		size = int(body[3]) | int(body[4])<<8
	case 1, 3:
		if len(body) < 9 {
			return "truncated container header"
		}
		size = int(body[5]) | int(body[6])<<8 | int(body[7])<<16 | int(body[8])<<24
	default:
		return "ok"
	}
	if size != len(body)-1 {
		return fmt.Sprintf("container declares size %d but occupies %d bytes (format type %d)", size, len(body)-1, body[0])
	}
	return "ok"
}

// classifyJSON: documents with an array/object member whose encoding exceeds 64KiB hit the JSON
// defect recorded in design/C40.md (known finding json-member-over-64k).
func classifyJSON(doc any) string {
	key := "cell-json"
	var walk func(v any)
	walk = func(v any) {
		switch x := v.(type) {
		case map[string]any:
			for _, w := range x {
				if s, ok := w.(string); ok && len(s) > 65000 && key == "cell-json" {
					key = "json-member-over-64k"
				}
				walk(w)
			}
		case []any:
			for _, w := range x {
				if s, ok := w.(string); ok && len(s) > 65000 && key == "cell-json" {
					key = "json-member-over-64k"
				}
				walk(w)
			}
		}
	}
	walk(doc)
	return key
}

func runCase(e *hx.Env, m *hx.Model, k kase) {
	switch k.Kind {
	case "cell":
		runCell(e, m, k)
	case "json":
		runJSON(e, m, k)
	case "sql":
		runSQL(e, m, k)
	}
}

func main() {
	e := hx.Init("binlog", "C40")
	defer e.Finish()
	e.Rep.Rule = "stream A: (column type, stored value) per serializer of typeSerializersMap — all integer widths/signs at min/max/-1/0/sign-bit, floats by bit pattern, YEAR incl. 0000, dates, TIME incl. negative values with fractions and seconds=59, DATETIME/TIMESTAMP at every fsp 0..6, DECIMAL over (precision,scale) pairs incl. p=s, leading zeros, all-nines, reduced exponents, BIT/ENUM/SET at width boundaries, strings/blobs at the 255/256 and 65535/65536 length-prefix boundaries, JSON trees incl. long keys and >64KiB members; stream B: random tables through the SQL engine with NULL patterns, insert/update/delete row events; every case is non-trivial (a value of a real column type); distinct by (type, value) resp. statement list"
	_ = context.Background()
	m := e.MustModel()
	defer m.Close()
	if e.Replay != "" {
		rf, err := hx.LoadReplay(e.Replay)
		if err != nil {
			panic(err)
		}
		var k kase
		json.Unmarshal(rf.Case, &k)
		runCase(e, m, k)
		return
	}
	for _, raw := range e.CorpusCases() {
		var k kase
		if json.Unmarshal(raw, &k) == nil {
			runCase(e, m, k)
		}
	}
	for _, k := range boundaryCases() {
		runCase(e, m, k)
	}
	n := e.N(60000, 1500000)
	r := e.Rng
	for i := 0; i < n; i++ {
		runCase(e, m, genCell(r))
	}
	nj := e.N(1500, 30000)
	for i := 0; i < nj; i++ {
		runCase(e, m, genJSON(r, i))
	}
	nb := e.N(12, 150)
	for i := 0; i < nb; i++ {
		runCase(e, m, genSQL(r.Fork(), i))
	}
	closeSQL()
}
