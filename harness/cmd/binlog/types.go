package main

import (
	"bytes"
	"encoding/hex"
	"fmt"
	"math"
	"math/big"
	"strconv"
	"strings"
	"time"

	"github.com/cockroachdb/apd/v3"
	"github.com/dolthub/go-mysql-server/sql"
	gmstypes "github.com/dolthub/go-mysql-server/sql/types"
	"github.com/dolthub/vitess/go/sqltypes"
	"github.com/dolthub/vitess/go/vt/proto/query"
)

// tspec is one column type: how to build it with go-mysql-server's public constructors, how it
// is called on the model's wire, and how it is declared in SQL.
type tspec struct {
	Spec   string // harness spec (JSON-replayable)
	Fam    string // int float year date time datetime timestamp decimal bit enum set str blob json
	Typ    sql.Type
	Model  string // spec on the model wire (parameters = what the Go type reports: MaxByteLength, ...)
	SQL    string // column definition
	W      int    // int width
	Signed bool
	P, S   int // decimal
	Fsp    int
	N      int  // bit / enum / set size
	Max    int  // strings/blobs: MaxByteLength
	Binary bool // value is []byte (true) or string (false)
	Fixed  bool // CHAR/BINARY
}

var enumCache = map[int]sql.Type{}
var setCache = map[int]sql.Type{}

func enumValues(n int) []string {
	vs := make([]string, n)
	for i := range vs {
		vs[i] = "e" + strconv.Itoa(i+1)
	}
	return vs
}

func parseTspec(spec string) (ts *tspec, err error) {
	defer func() {
		if p := recover(); p != nil {
			ts, err = nil, fmt.Errorf("type %s: %v", spec, p)
		}
	}()
	f := strings.Split(spec, ":")
	atoi := func(i int) int { n, _ := strconv.Atoi(f[i]); return n }
	t := &tspec{Spec: spec}
	switch f[0] {
	case "int":
		t.Fam, t.W, t.Signed = "int", atoi(1), f[2] == "s"
		m := map[string]sql.Type{"1s": gmstypes.Int8, "1u": gmstypes.Uint8, "2s": gmstypes.Int16, "2u": gmstypes.Uint16,
			"3s": gmstypes.Int24, "3u": gmstypes.Uint24, "4s": gmstypes.Int32, "4u": gmstypes.Uint32, "8s": gmstypes.Int64, "8u": gmstypes.Uint64}
		t.Typ = m[f[1]+f[2]]
		t.Model = spec
		t.SQL = map[int]string{1: "TINYINT", 2: "SMALLINT", 3: "MEDIUMINT", 4: "INT", 8: "BIGINT"}[t.W]
		if !t.Signed {
			t.SQL += " UNSIGNED"
		}
	case "f32":
		t.Fam, t.Typ, t.Model, t.SQL, t.W = "float", gmstypes.Float32, spec, "FLOAT", 4
	case "f64":
		t.Fam, t.Typ, t.Model, t.SQL, t.W = "float", gmstypes.Float64, spec, "DOUBLE", 8
	case "year":
		t.Fam, t.Typ, t.Model, t.SQL = "year", gmstypes.Year, spec, "YEAR"
	case "date":
		t.Fam, t.Typ, t.Model, t.SQL = "date", gmstypes.Date, spec, "DATE"
	case "time":
		t.Fam, t.Typ, t.Model, t.SQL = "time", gmstypes.Time, spec, "TIME(6)"
	case "datetime":
		t.Fam, t.Fsp = "datetime", atoi(1)
		t.Typ = gmstypes.MustCreateDatetimeType(query.Type_DATETIME, t.Fsp)
		t.Model, t.SQL = spec, fmt.Sprintf("DATETIME(%d)", t.Fsp)
	case "timestamp":
		t.Fam, t.Fsp = "timestamp", atoi(1)
		t.Typ = gmstypes.MustCreateDatetimeType(query.Type_TIMESTAMP, t.Fsp)
		t.Model, t.SQL = spec, fmt.Sprintf("TIMESTAMP(%d) NULL", t.Fsp)
	case "decimal":
		t.Fam, t.P, t.S = "decimal", atoi(1), atoi(2)
		t.Typ = gmstypes.MustCreateDecimalType(uint8(t.P), uint8(t.S))
		t.Model, t.SQL = spec, fmt.Sprintf("DECIMAL(%d,%d)", t.P, t.S)
	case "bit":
		t.Fam, t.N = "bit", atoi(1)
		t.Typ = gmstypes.MustCreateBitType(uint8(t.N))
		t.Model, t.SQL = spec, fmt.Sprintf("BIT(%d)", t.N)
	case "enum":
		t.Fam, t.N = "enum", atoi(1)
		if enumCache[t.N] == nil {
			enumCache[t.N] = gmstypes.MustCreateEnumType(enumValues(t.N), sql.Collation_Default)
		}
		t.Typ = enumCache[t.N]
		t.Model = spec
		t.SQL = "ENUM('" + strings.Join(enumValues(t.N), "','") + "')"
	case "set":
		t.Fam, t.N = "set", atoi(1)
		if setCache[t.N] == nil {
			setCache[t.N] = gmstypes.MustCreateSetType(enumValues(t.N), sql.Collation_Default)
		}
		t.Typ = setCache[t.N]
		t.Model = spec
		t.SQL = "SET('" + strings.Join(enumValues(t.N), "','") + "')"
	case "varchar", "char", "varbinary", "binary":
		t.Fam = "str"
		n := int64(atoi(1))
		switch f[0] {
		case "varchar":
			t.Typ = gmstypes.MustCreateString(query.Type_VARCHAR, n, sql.Collation_Default)
			t.SQL = fmt.Sprintf("VARCHAR(%d)", n)
		case "char":
			t.Typ = gmstypes.MustCreateString(query.Type_CHAR, n, sql.Collation_Default)
			t.SQL, t.Fixed = fmt.Sprintf("CHAR(%d)", n), true
		case "varbinary":
			t.Typ = gmstypes.MustCreateBinary(query.Type_VARBINARY, n)
			t.SQL, t.Binary = fmt.Sprintf("VARBINARY(%d)", n), true
		case "binary":
			t.Typ = gmstypes.MustCreateBinary(query.Type_BINARY, n)
			t.SQL, t.Binary, t.Fixed = fmt.Sprintf("BINARY(%d)", n), true, true
		}
		t.Max = int(t.Typ.(sql.StringType).MaxByteLength())
		if t.Fixed {
			t.Model = fmt.Sprintf("char:%d", t.Max)
		} else {
			t.Model = fmt.Sprintf("varchar:%d", t.Max)
		}
	case "tinyblob", "blob", "mediumblob", "longblob", "tinytext", "text", "mediumtext", "longtext":
		t.Fam = "blob"
		m := map[string]sql.Type{"tinyblob": gmstypes.TinyBlob, "blob": gmstypes.Blob, "mediumblob": gmstypes.MediumBlob, "longblob": gmstypes.LongBlob,
			"tinytext": gmstypes.TinyText, "text": gmstypes.Text, "mediumtext": gmstypes.MediumText, "longtext": gmstypes.LongText}
		t.Typ = m[f[0]]
		t.Binary = strings.HasSuffix(f[0], "blob")
		t.Max = int(t.Typ.(sql.StringType).MaxByteLength())
		t.Model = fmt.Sprintf("blob:%d", t.Max)
		t.SQL = strings.ToUpper(f[0])
	case "json":
		t.Fam, t.Typ, t.Model, t.SQL = "json", gmstypes.JSON, spec, "JSON"
	default:
		return nil, fmt.Errorf("unknown type spec %q", spec)
	}
	if t.Typ == nil {
		return nil, fmt.Errorf("unknown type spec %q", spec)
	}
	return t, nil
}

// ---------------------------------------------------------------- cells

// cell is a parsed cell spec (the same grammar as the model wire).
type cell struct {
	Kind     string // i d t dt ts dec b
	I        *big.Int
	F        [7]int // d: y m d ; dt: y mo d h mi s us
	Micros   int64
	Secs, Us int64
	Neg      bool
	Unscaled *big.Int
	B        []byte
}

func parseCell(s string) (*cell, error) {
	f := strings.Split(s, ":")
	c := &cell{Kind: f[0]}
	bad := fmt.Errorf("bad cell %q", s)
	switch f[0] {
	case "i":
		v, ok := new(big.Int).SetString(f[1], 10)
		if !ok {
			return nil, bad
		}
		c.I = v
	case "d":
		if len(f) != 4 {
			return nil, bad
		}
		for i := 0; i < 3; i++ {
			c.F[i], _ = strconv.Atoi(f[i+1])
		}
	case "t":
		c.Micros, _ = strconv.ParseInt(f[1], 10, 64)
	case "dt":
		if len(f) != 8 {
			return nil, bad
		}
		for i := 0; i < 7; i++ {
			c.F[i], _ = strconv.Atoi(f[i+1])
		}
	case "ts":
		c.Secs, _ = strconv.ParseInt(f[1], 10, 64)
		c.Us, _ = strconv.ParseInt(f[2], 10, 64)
	case "dec":
		c.Neg = f[1] == "1"
		v, ok := new(big.Int).SetString(f[2], 10)
		if !ok {
			return nil, bad
		}
		c.Unscaled = v
	case "b":
		if f[1] != "-" {
			b, err := hex.DecodeString(f[1])
			if err != nil {
				return nil, bad
			}
			c.B = b
		}
	default:
		return nil, bad
	}
	return c, nil
}

func hexs(b []byte) string {
	if len(b) == 0 {
		return "-"
	}
	return hex.EncodeToString(b)
}

// goValue turns a cell into the Go value the serializer's `deserialize` would hand to `serialize`
// (the stored value).  variant picks among equivalent representations (apd exponent form).
func goValue(t *tspec, c *cell, variant int) (interface{}, error) {
	switch t.Fam {
	case "int":
		if t.Signed {
			v := c.I.Int64()
			switch t.W {
			case 1:
				return int8(v), nil
			case 2:
				return int16(v), nil
			case 3, 4:
				return int32(v), nil
			}
			return v, nil
		}
		v := c.I.Uint64()
		switch t.W {
		case 1:
			return uint8(v), nil
		case 2:
			return uint16(v), nil
		case 3, 4:
			return uint32(v), nil
		}
		return v, nil
	case "float":
		if t.W == 4 {
			return math.Float32frombits(uint32(c.I.Uint64())), nil
		}
		return math.Float64frombits(c.I.Uint64()), nil
	case "year":
		return int16(c.I.Int64()), nil
	case "date":
		return time.Date(c.F[0], time.Month(c.F[1]), c.F[2], 0, 0, 0, 0, time.UTC), nil
	case "time":
		return time.UnixMicro(c.Micros), nil
	case "datetime":
		return time.Date(c.F[0], time.Month(c.F[1]), c.F[2], c.F[3], c.F[4], c.F[5], c.F[6]*1000, time.UTC), nil
	case "timestamp":
		return time.Unix(c.Secs, c.Us*1000).UTC(), nil
	case "decimal":
		coeff := new(big.Int).Set(c.Unscaled)
		exp := -t.S
		if variant%2 == 1 {
			// reduced form: fewer fractional digits than the scale (what arithmetic results look like)
			ten := big.NewInt(10)
			for exp < 0 && coeff.Sign() != 0 && new(big.Int).Mod(coeff, ten).Sign() == 0 {
				coeff.Div(coeff, ten)
				exp++
			}
		}
		d := apd.NewWithBigInt(new(apd.BigInt).SetMathBigInt(coeff), int32(exp))
		d.Negative = c.Neg
		return d, nil
	case "bit", "set":
		return c.I.Uint64(), nil
	case "enum":
		return uint16(c.I.Uint64()), nil
	case "str", "blob":
		if t.Binary {
			return append([]byte{}, c.B...), nil
		}
		return string(c.B), nil
	}
	return nil, fmt.Errorf("no go value for %s", t.Spec)
}

// expected is the canonical rendering of the stored value, written from the SQL meaning of the
// cell (independent of dolt's serializers and of the Lean model).
func expected(t *tspec, c *cell) string {
	switch t.Fam {
	case "int", "year", "enum", "set", "bit":
		return c.I.String()
	case "float":
		return fmt.Sprintf("bits:%x", c.I.Uint64())
	case "date":
		return fmt.Sprintf("%d-%d-%d", c.F[0], c.F[1], c.F[2])
	case "time":
		return fmt.Sprintf("us:%d", c.Micros)
	case "datetime":
		return fmt.Sprintf("%d-%d-%d %d:%d:%d.%06d", c.F[0], c.F[1], c.F[2], c.F[3], c.F[4], c.F[5], c.F[6])
	case "timestamp":
		return fmt.Sprintf("unix:%d.%06d", c.Secs, c.Us)
	case "decimal":
		if c.Unscaled.Sign() == 0 {
			return "dec:0:0"
		}
		n := 0
		if c.Neg {
			n = 1
		}
		return fmt.Sprintf("dec:%d:%s", n, c.Unscaled.String())
	case "str":
		b := c.B
		if t.Fixed && t.Binary && t.Max <= 255 {
			// a replica pads fixed-length binary values with zero bytes to the field length
			p := make([]byte, t.Max)
			copy(p, b)
			b = p
		}
		return "b:" + hexs(b)
	case "blob":
		return "b:" + hexs(c.B)
	}
	return "?"
}

// canonVitess renders what the vitess decoder (the replica) returned, in the same canonical form.
func canonVitess(t *tspec, v sqltypes.Value) (string, error) {
	raw := v.Raw()
	txt := string(raw)
	switch t.Fam {
	case "int", "year", "enum", "set":
		n, ok := new(big.Int).SetString(txt, 10)
		if !ok {
			return "", fmt.Errorf("not an integer: %q", txt)
		}
		return n.String(), nil
	case "bit":
		return new(big.Int).SetBytes(raw).String(), nil
	case "float":
		if t.W == 4 {
			f, err := strconv.ParseFloat(txt, 32)
			if err != nil {
				return "", err
			}
			return fmt.Sprintf("bits:%x", math.Float32bits(float32(f))), nil
		}
		f, err := strconv.ParseFloat(txt, 64)
		if err != nil {
			return "", err
		}
		return fmt.Sprintf("bits:%x", math.Float64bits(f)), nil
	case "date":
		var y, m, d int
		if _, err := fmt.Sscanf(txt, "%d-%d-%d", &y, &m, &d); err != nil {
			return "", fmt.Errorf("date %q: %v", txt, err)
		}
		return fmt.Sprintf("%d-%d-%d", y, m, d), nil
	case "time":
		s := txt
		neg := strings.HasPrefix(s, "-")
		s = strings.TrimPrefix(s, "-")
		var h, mi, sec int64
		frac := ""
		if i := strings.IndexByte(s, '.'); i >= 0 {
			frac, s = s[i+1:], s[:i]
		}
		if _, err := fmt.Sscanf(s, "%d:%d:%d", &h, &mi, &sec); err != nil {
			return "", fmt.Errorf("time %q: %v", txt, err)
		}
		for len(frac) < 6 {
			frac += "0"
		}
		us, err := strconv.ParseInt(frac, 10, 64)
		if err != nil {
			return "", fmt.Errorf("time %q: %v", txt, err)
		}
		tot := (h*3600+mi*60+sec)*1000000 + us
		if neg {
			tot = -tot
		}
		return fmt.Sprintf("us:%d", tot), nil
	case "datetime":
		y, mo, d, h, mi, s, us, err := parseDT(txt)
		if err != nil {
			return "", err
		}
		return fmt.Sprintf("%d-%d-%d %d:%d:%d.%06d", y, mo, d, h, mi, s, us), nil
	case "timestamp":
		if strings.HasPrefix(txt, "0000-00-00 00:00:00") {
			_, _, _, _, _, _, us, err := parseDT(txt)
			if err != nil {
				return "", err
			}
			return fmt.Sprintf("unix:0.%06d", us), nil
		}
		y, mo, d, h, mi, s, us, err := parseDT(txt)
		if err != nil {
			return "", err
		}
		tm := time.Date(y, time.Month(mo), d, h, mi, s, 0, time.UTC)
		return fmt.Sprintf("unix:%d.%06d", tm.Unix(), us), nil
	case "decimal":
		// vitess prints the 9-digit integer groups with %9d (space padded): spaces are zeros
		s := strings.ReplaceAll(txt, " ", "0")
		neg := strings.HasPrefix(s, "-")
		s = strings.TrimPrefix(s, "-")
		ip, fp := s, ""
		if i := strings.IndexByte(s, '.'); i >= 0 {
			ip, fp = s[:i], s[i+1:]
		}
		if len(fp) != t.S {
			return "", fmt.Errorf("decimal %q: %d fractional digits, scale %d", txt, len(fp), t.S)
		}
		digits := ip + fp
		if digits == "" {
			digits = "0"
		}
		u, ok := new(big.Int).SetString(digits, 10)
		if !ok {
			return "", fmt.Errorf("decimal %q", txt)
		}
		if u.Sign() == 0 {
			return "dec:0:0", nil
		}
		n := 0
		if neg {
			n = 1
		}
		return fmt.Sprintf("dec:%d:%s", n, u.String()), nil
	case "str", "blob":
		return "b:" + hexs(raw), nil
	}
	return "", fmt.Errorf("no canon for %s", t.Fam)
}

func parseDT(txt string) (y, mo, d, h, mi, s, us int, err error) {
	main, frac := txt, ""
	if i := strings.IndexByte(txt, '.'); i >= 0 {
		main, frac = txt[:i], txt[i+1:]
	}
	if _, err = fmt.Sscanf(main, "%d-%d-%d %d:%d:%d", &y, &mo, &d, &h, &mi, &s); err != nil {
		return 0, 0, 0, 0, 0, 0, 0, fmt.Errorf("datetime %q: %v", txt, err)
	}
	for len(frac) < 6 {
		frac += "0"
	}
	us, err = strconv.Atoi(frac)
	return
}

// ---------------------------------------------------------------- binary JSON as printed by vitess

// parseVitessJSON parses the SQL expression vitess prints for a binary JSON document
// (JSON_OBJECT(..)/JSON_ARRAY(..)/'str'/number/null/true/false; top level scalars quoted).
func parseVitessJSON(expr []byte) (any, error) {
	s := string(expr)
	if strings.HasPrefix(s, "JSON_OBJECT(") || strings.HasPrefix(s, "JSON_ARRAY(") {
		p := &jparser{s: s}
		v, err := p.value()
		if err != nil {
			return nil, err
		}
		if p.i != len(s) {
			return nil, fmt.Errorf("trailing input at %d", p.i)
		}
		return v, nil
	}
	if len(s) >= 2 && s[0] == '\'' && s[len(s)-1] == '\'' {
		in := s[1 : len(s)-1]
		switch in {
		case "null":
			return nil, nil
		case "true":
			return true, nil
		case "false":
			return false, nil
		}
		if len(in) >= 2 && in[0] == '"' && in[len(in)-1] == '"' {
			return in[1 : len(in)-1], nil // vitess prints the raw bytes (no escaping)
		}
		f, err := strconv.ParseFloat(in, 64)
		if err != nil {
			return nil, fmt.Errorf("top-level scalar %q", in)
		}
		return f, nil
	}
	return nil, fmt.Errorf("unrecognised JSON expression %.40q", s)
}

type jparser struct {
	s string
	i int
}

func (p *jparser) value() (any, error) {
	rest := p.s[p.i:]
	switch {
	case strings.HasPrefix(rest, "JSON_OBJECT("):
		p.i += len("JSON_OBJECT(")
		m := map[string]any{}
		for {
			if p.i < len(p.s) && p.s[p.i] == ')' {
				p.i++
				return m, nil
			}
			k, err := p.str()
			if err != nil {
				return nil, err
			}
			if p.i >= len(p.s) || p.s[p.i] != ',' {
				return nil, fmt.Errorf("expected , after key at %d", p.i)
			}
			p.i++
			v, err := p.value()
			if err != nil {
				return nil, err
			}
			if _, dup := m[k]; dup {
				return nil, fmt.Errorf("duplicate key %q", k)
			}
			m[k] = v
			if p.i < len(p.s) && p.s[p.i] == ',' {
				p.i++
			}
		}
	case strings.HasPrefix(rest, "JSON_ARRAY("):
		p.i += len("JSON_ARRAY(")
		a := []any{}
		for {
			if p.i < len(p.s) && p.s[p.i] == ')' {
				p.i++
				return a, nil
			}
			v, err := p.value()
			if err != nil {
				return nil, err
			}
			a = append(a, v)
			if p.i < len(p.s) && p.s[p.i] == ',' {
				p.i++
			}
		}
	case strings.HasPrefix(rest, "null"):
		p.i += 4
		return nil, nil
	case strings.HasPrefix(rest, "true"):
		p.i += 4
		return true, nil
	case strings.HasPrefix(rest, "false"):
		p.i += 5
		return false, nil
	case strings.HasPrefix(rest, "'"):
		return p.str()
	}
	j := p.i
	for j < len(p.s) && strings.IndexByte("+-.0123456789eEInfNa", p.s[j]) >= 0 {
		j++
	}
	f, err := strconv.ParseFloat(p.s[p.i:j], 64)
	if err != nil {
		return nil, fmt.Errorf("bad token at %d: %.20q", p.i, p.s[p.i:])
	}
	p.i = j
	return f, nil
}

var sqlUnescape = map[byte]byte{'0': 0, '\'': '\'', '"': '"', 'b': 8, 'n': 10, 'r': 13, 't': 9, 'Z': 26, '\\': '\\'}

func (p *jparser) str() (string, error) {
	if p.i >= len(p.s) || p.s[p.i] != '\'' {
		return "", fmt.Errorf("expected string at %d", p.i)
	}
	p.i++
	var b bytes.Buffer
	for p.i < len(p.s) {
		c := p.s[p.i]
		switch c {
		case '\'':
			p.i++
			return b.String(), nil
		case '\\':
			if p.i+1 >= len(p.s) {
				return "", fmt.Errorf("dangling escape")
			}
			u, ok := sqlUnescape[p.s[p.i+1]]
			if !ok {
				u = p.s[p.i+1]
			}
			b.WriteByte(u)
			p.i += 2
		default:
			b.WriteByte(c)
			p.i++
		}
	}
	return "", fmt.Errorf("unterminated string")
}

// jsonEqual compares two decoded JSON trees (numbers as float64).
func jsonEqual(a, b any) bool {
	switch x := a.(type) {
	case nil:
		return b == nil
	case bool:
		y, ok := b.(bool)
		return ok && x == y
	case string:
		y, ok := b.(string)
		return ok && x == y
	case float64:
		y, ok := b.(float64)
		return ok && (x == y || (math.IsNaN(x) && math.IsNaN(y)))
	case []any:
		y, ok := b.([]any)
		if !ok || len(x) != len(y) {
			return false
		}
		for i := range x {
			if !jsonEqual(x[i], y[i]) {
				return false
			}
		}
		return true
	case map[string]any:
		y, ok := b.(map[string]any)
		if !ok || len(x) != len(y) {
			return false
		}
		for k, v := range x {
			w, ok := y[k]
			if !ok || !jsonEqual(v, w) {
				return false
			}
		}
		return true
	}
	return false
}
