package main

import (
	"context"
	"encoding/json"
	"fmt"
	"io"
	"math"
	"math/big"
	"path/filepath"
	"sort"
	"strconv"
	"strings"
	"time"

	"github.com/cockroachdb/apd/v3"
	"github.com/dolthub/go-mysql-server/sql"
	gmstypes "github.com/dolthub/go-mysql-server/sql/types"
	"github.com/dolthub/vitess/go/mysql"

	"github.com/dolthub/dolt/go/libraries/doltcore/doltdb"
	br "github.com/dolthub/dolt/go/libraries/doltcore/sqle/binlogreplication"
	"github.com/dolthub/dolt/go/libraries/doltcore/sqle/dsess"

	"verif/harness/internal/hx"
	"verif/harness/internal/sqleng"
)

var (
	eng     *sqleng.Engine
	sess    *sqleng.Session
	tblSeq  int
	sqlDead string
)

func ensureSQL(e *hx.Env) bool {
	if eng != nil {
		return true
	}
	if sqlDead != "" {
		return false
	}
	en, err := sqleng.New(filepath.Join(e.Scratch, "sqldb"), sqleng.Options{})
	if err != nil {
		sqlDead = err.Error()
		e.Rep.Note("sql stream disabled: " + sqlDead)
		return false
	}
	s, err := en.NewSession()
	if err != nil {
		sqlDead = err.Error()
		e.Rep.Note("sql stream disabled: " + sqlDead)
		return false
	}
	eng, sess = en, s
	sess.Exec("SET time_zone = '+00:00'")
	sess.Exec("SET sql_mode = 'NO_ENGINE_SUBSTITUTION'")
	return true
}

func closeSQL() {
	if eng != nil {
		eng.Close()
		eng = nil
	}
}

// ---------------------------------------------------------------- literals

func sqlQuote(b []byte) string {
	var sb strings.Builder
	sb.WriteByte('\'')
	for _, c := range b {
		switch c {
		case '\'':
			sb.WriteString("''")
		case '\\':
			sb.WriteString("\\\\")
		default:
			sb.WriteByte(c)
		}
	}
	sb.WriteByte('\'')
	return sb.String()
}

func literal(t *tspec, c *cell) string {
	switch t.Fam {
	case "int", "year", "bit", "enum", "set":
		return c.I.String()
	case "float":
		if t.W == 4 {
			return strconv.FormatFloat(float64(math.Float32frombits(uint32(c.I.Uint64()))), 'g', -1, 32)
		}
		return strconv.FormatFloat(math.Float64frombits(c.I.Uint64()), 'g', -1, 64)
	case "date":
		return fmt.Sprintf("'%04d-%02d-%02d'", c.F[0], c.F[1], c.F[2])
	case "time":
		a, sg := c.Micros, ""
		if a < 0 {
			a, sg = -a, "-"
		}
		s := a / 1000000
		return fmt.Sprintf("'%s%02d:%02d:%02d.%06d'", sg, s/3600, s/60%60, s%60, a%1000000)
	case "datetime":
		return fmt.Sprintf("'%04d-%02d-%02d %02d:%02d:%02d.%06d'", c.F[0], c.F[1], c.F[2], c.F[3], c.F[4], c.F[5], c.F[6])
	case "timestamp":
		tm := time.Unix(c.Secs, 0).UTC()
		return fmt.Sprintf("'%s.%06d'", tm.Format("2006-01-02 15:04:05"), c.Us)
	case "decimal":
		d := c.Unscaled.String()
		for len(d) <= t.S {
			d = "0" + d
		}
		s := d[:len(d)-t.S]
		if t.S > 0 {
			s += "." + d[len(d)-t.S:]
		}
		if c.Neg {
			s = "-" + s
		}
		return s
	case "str", "blob":
		if t.Binary {
			if len(c.B) == 0 {
				return "''"
			}
			return "x'" + hexs(c.B) + "'"
		}
		return sqlQuote(c.B)
	}
	return "NULL"
}

// valueFor: a random in-domain value of the column type (stream A does the boundaries in depth).
func valueFor(r *hx.Rng, t *tspec) string {
	for tries := 0; tries < 400; tries++ {
		k := genCell(r)
		if k.T == t.Spec {
			if t.Fam == "str" || t.Fam == "blob" {
				c, _ := parseCell(k.V)
				if len(c.B) > 2000 {
					continue
				}
			}
			return k.V
		}
	}
	switch t.Fam {
	case "int":
		return fmt.Sprintf("i:%d", r.Intn(100))
	case "year":
		return fmt.Sprintf("i:%d", r.Range(1901, 2155))
	case "enum":
		return fmt.Sprintf("i:%d", r.Range(1, t.N))
	case "bit", "set":
		return "i:" + randBig(r, pow2(t.N)).String()
	case "decimal":
		u := decimalValue(r, t.P, t.S)
		n := 0
		if r.Bool() && u.Sign() != 0 {
			n = 1
		}
		return fmt.Sprintf("dec:%d:%s", n, u)
	case "datetime":
		y, m := r.Range(1000, 9999), r.Range(1, 12)
		return fmt.Sprintf("dt:%d:%d:%d:%d:%d:%d:%d", y, m, r.Range(1, daysIn(y, m)), r.Intn(24), r.Intn(60), r.Intn(60), fspUs(r, t.Fsp))
	case "timestamp":
		return fmt.Sprintf("ts:%d:%d", r.Range(1, 2147483647), fspUs(r, t.Fsp))
	case "str", "blob":
		mx := t.Max
		if !t.Binary {
			mx /= 4
		}
		if mx > 300 {
			mx = 300
		}
		return "b:" + hexs(strBytes(r, r.Intn(mx+1), t.Binary))
	}
	return "i:0"
}

var sqlColTypes = []string{"int:1:s", "int:1:u", "int:2:s", "int:2:u", "int:3:s", "int:3:u", "int:4:s", "int:4:u", "int:8:s", "int:8:u",
	"f32", "f64", "year", "date", "time", "datetime:0", "datetime:1", "datetime:2", "datetime:3", "datetime:4", "datetime:5", "datetime:6",
	"timestamp:0", "timestamp:3", "timestamp:6", "decimal:5:2", "decimal:10:0", "decimal:20:10", "decimal:65:30", "decimal:9:9", "decimal:18:9", "decimal:3:3",
	"bit:1", "bit:9", "bit:64", "enum:3", "enum:300", "set:3", "set:9", "set:64", "varchar:10", "varchar:63", "varchar:64", "varchar:300",
	"varbinary:255", "varbinary:256", "char:10", "char:64", "binary:16", "tinyblob", "blob", "mediumblob", "longblob", "tinytext", "text", "mediumtext", "longtext", "json"}

// genSQL: one table + a short statement history.
func genSQL(r *hx.Rng, i int) kase {
	k := kase{Kind: "sql"}
	nc := r.Range(1, 9)
	var cols []*tspec
	for j := 0; j < nc; j++ {
		s := hx.Pick(r, sqlColTypes)
		if s == "decimal:3:3" || s == "decimal:9:9" {
			if !r.Chance(1, 4) { // p = s makes the whole transaction unserializable (known finding): keep it rare
				s = "decimal:12:4"
			}
		}
		t, _ := parseTspec(s)
		cols = append(cols, t)
		k.Cols = append(k.Cols, s)
	}
	lit := func(t *tspec) string {
		if r.Chance(1, 5) {
			return "NULL"
		}
		if t.Fam == "json" {
			return sqlQuote([]byte(genJSON(r, 0).Doc))
		}
		c, _ := parseCell(valueFor(r, t))
		return literal(t, c)
	}
	pk := 0
	var live []int
	ns := r.Range(2, 6)
	for s := 0; s < ns; s++ {
		op := r.Intn(4)
		if len(live) == 0 {
			op = 0
		}
		switch op {
		case 0, 1:
			var rows []string
			for n := r.Range(1, 6); n > 0; n-- {
				pk++
				live = append(live, pk)
				vs := []string{strconv.Itoa(pk)}
				for _, t := range cols {
					vs = append(vs, lit(t))
				}
				rows = append(rows, "("+strings.Join(vs, ",")+")")
			}
			k.Stmts = append(k.Stmts, "INSERT INTO %T VALUES "+strings.Join(rows, ","))
		case 2:
			j := r.Intn(nc)
			x := hx.Pick(r, live)
			where := fmt.Sprintf("pk = %d", x)
			if r.Chance(1, 3) {
				where = fmt.Sprintf("pk >= %d", x)
			}
			k.Stmts = append(k.Stmts, fmt.Sprintf("UPDATE %%T SET c%d = %s WHERE %s", j, lit(cols[j]), where))
		default:
			idx := r.Intn(len(live))
			x := live[idx]
			live = append(live[:idx], live[idx+1:]...)
			k.Stmts = append(k.Stmts, fmt.Sprintf("DELETE FROM %%T WHERE pk = %d", x))
		}
	}
	return k
}

// ---------------------------------------------------------------- reading stored values back

type snapshot map[string][]string // pk → canonical column values ("NULL" or expected(...)), [0] = pk itself

// query runs q and returns raw Go values.
func runQuery(q string) ([][]interface{}, *sql.Context, error) {
	ctx, err := eng.SE.NewContext(context.Background(), sess.Sess)
	if err != nil {
		return nil, nil, err
	}
	ctx.SetQueryTime(time.Now())
	sql.SessionCommandBegin(ctx.Session)
	defer sql.SessionCommandEnd(ctx.Session)
	_, it, _, err := eng.SE.Query(ctx, q)
	if err != nil {
		return nil, ctx, err
	}
	var out [][]interface{}
	for {
		row, err := it.Next(ctx)
		if err == io.EOF {
			break
		}
		if err != nil {
			it.Close(ctx)
			return nil, ctx, err
		}
		out = append(out, append([]interface{}{}, row...))
	}
	return out, ctx, it.Close(ctx)
}

func toBig(v interface{}) (*big.Int, bool) {
	switch x := v.(type) {
	case int8:
		return big.NewInt(int64(x)), true
	case int16:
		return big.NewInt(int64(x)), true
	case int32:
		return big.NewInt(int64(x)), true
	case int64:
		return big.NewInt(x), true
	case int:
		return big.NewInt(int64(x)), true
	case uint8:
		return new(big.Int).SetUint64(uint64(x)), true
	case uint16:
		return new(big.Int).SetUint64(uint64(x)), true
	case uint32:
		return new(big.Int).SetUint64(uint64(x)), true
	case uint64:
		return new(big.Int).SetUint64(x), true
	case uint:
		return new(big.Int).SetUint64(uint64(x)), true
	}
	return nil, false
}

// storedCell converts the value SELECT returned into a cell spec (the stored value).
func storedCell(ctx *sql.Context, t *tspec, v interface{}) (string, any, error) {
	bad := fmt.Errorf("column %s: unexpected stored value %T %v", t.Spec, v, v)
	switch t.Fam {
	case "int", "year", "bit":
		if b, ok := toBig(v); ok {
			return "i:" + b.String(), nil, nil
		}
	case "enum":
		if b, ok := toBig(v); ok {
			return "i:" + b.String(), nil, nil
		}
		if s, ok := v.(string); ok {
			return "i:" + strconv.Itoa(t.Typ.(sql.EnumType).IndexOf(s)), nil, nil
		}
	case "set":
		if b, ok := toBig(v); ok {
			return "i:" + b.String(), nil, nil
		}
		if s, ok := v.(string); ok {
			var bits uint64
			if s != "" {
				for _, e := range strings.Split(s, ",") {
					n, err := strconv.Atoi(strings.TrimPrefix(e, "e"))
					if err != nil {
						return "", nil, bad
					}
					bits |= 1 << uint(n-1)
				}
			}
			return "i:" + strconv.FormatUint(bits, 10), nil, nil
		}
	case "float":
		switch x := v.(type) {
		case float32:
			return fmt.Sprintf("i:%d", math.Float32bits(x)), nil, nil
		case float64:
			if t.W == 4 {
				return fmt.Sprintf("i:%d", math.Float32bits(float32(x))), nil, nil
			}
			return fmt.Sprintf("i:%d", math.Float64bits(x)), nil, nil
		}
	case "date":
		if x, ok := v.(time.Time); ok {
			x = x.UTC()
			return fmt.Sprintf("d:%d:%d:%d", x.Year(), int(x.Month()), x.Day()), nil, nil
		}
	case "datetime":
		if x, ok := v.(time.Time); ok {
			x = x.UTC()
			return fmt.Sprintf("dt:%d:%d:%d:%d:%d:%d:%d", x.Year(), int(x.Month()), x.Day(), x.Hour(), x.Minute(), x.Second(), x.Nanosecond()/1000), nil, nil
		}
	case "timestamp":
		if x, ok := v.(time.Time); ok {
			return fmt.Sprintf("ts:%d:%d", x.Unix(), x.Nanosecond()/1000), nil, nil
		}
	case "time":
		switch x := v.(type) {
		case gmstypes.Timespan:
			return fmt.Sprintf("t:%d", x.AsMicroseconds()), nil, nil
		case int64:
			return fmt.Sprintf("t:%d", x), nil, nil
		}
	case "decimal":
		var s string
		switch x := v.(type) {
		case *apd.Decimal:
			s = x.Text('f')
		case apd.Decimal:
			s = x.Text('f')
		case fmt.Stringer:
			s = x.String()
		default:
			return "", nil, bad
		}
		neg := 0
		if strings.HasPrefix(s, "-") {
			neg, s = 1, s[1:]
		}
		ip, fp := s, ""
		if i := strings.IndexByte(s, '.'); i >= 0 {
			ip, fp = s[:i], s[i+1:]
		}
		if len(fp) > t.S || strings.ContainsAny(s, "eE") {
			return "", nil, bad
		}
		for len(fp) < t.S {
			fp += "0"
		}
		u, ok := new(big.Int).SetString(ip+fp, 10)
		if !ok {
			return "", nil, bad
		}
		if u.Sign() == 0 {
			neg = 0
		}
		return fmt.Sprintf("dec:%d:%s", neg, u), nil, nil
	case "str", "blob":
		switch x := v.(type) {
		case string:
			return "b:" + hexs([]byte(x)), nil, nil
		case []byte:
			return "b:" + hexs(x), nil, nil
		case sql.StringWrapper:
			s, err := x.Unwrap(ctx)
			return "b:" + hexs([]byte(s)), nil, err
		case sql.BytesWrapper:
			s, err := x.Unwrap(ctx)
			return "b:" + hexs(s), nil, err
		}
	case "json":
		if w, ok := v.(sql.JSONWrapper); ok {
			doc, err := w.ToInterface(ctx)
			if err != nil {
				return "", nil, err
			}
			// normalise through JSON text: every number becomes float64
			txt, err := json.Marshal(doc)
			if err != nil {
				return "", nil, err
			}
			var norm any
			if err := json.Unmarshal(txt, &norm); err != nil {
				return "", nil, err
			}
			body, err := br.VerifEncodeJsonDoc(ctx, gmstypes.JSONDocument{Val: doc})
			if err != nil {
				return "", norm, fmt.Errorf("encodeJsonDoc: %w", err)
			}
			return "b:" + hexs(body), norm, nil
		}
	}
	return "", nil, bad
}

type stored struct {
	cells []string // cell spec or "null" per column (col 0 = pk)
	canon []string // canonical rendering (expected) or "NULL"
	docs  []any    // JSON columns: the document
}

func takeSnapshot(tbl string, cols []*tspec) (map[string]*stored, error) {
	names := []string{"pk"}
	for i := range cols[1:] {
		names = append(names, fmt.Sprintf("c%d", i))
	}
	rows, ctx, err := runQuery("SELECT " + strings.Join(names, ",") + " FROM " + tbl)
	if err != nil {
		return nil, err
	}
	out := map[string]*stored{}
	for _, row := range rows {
		st := &stored{}
		for i, v := range row {
			if v == nil {
				st.cells = append(st.cells, "null")
				st.canon = append(st.canon, "NULL")
				st.docs = append(st.docs, nil)
				continue
			}
			cs, doc, err := storedCell(ctx, cols[i], v)
			if err != nil {
				return nil, err
			}
			st.cells = append(st.cells, cs)
			st.docs = append(st.docs, doc)
			if cols[i].Fam == "json" {
				st.canon = append(st.canon, "json")
			} else {
				c, err := parseCell(cs)
				if err != nil {
					return nil, err
				}
				st.canon = append(st.canon, expected(cols[i], c))
			}
		}
		out[st.canon[0]] = st
	}
	return out, nil
}

func workingRoot() (doltdb.RootValue, *sql.Context, error) {
	ctx, err := eng.SE.NewContext(context.Background(), sess.Sess)
	if err != nil {
		return nil, nil, err
	}
	roots, ok := dsess.DSessFromSess(ctx.Session).GetRoots(ctx, eng.DBName)
	if !ok {
		return nil, nil, fmt.Errorf("no roots for %s", eng.DBName)
	}
	return roots.Working, ctx, nil
}

// decodeImage decodes one row image the way a replica does; returns canonical values per column.
func decodeImage(tm *mysql.TableMap, cols []*tspec, present, nulls mysql.Bitmap, data []byte, docs *[]any) (out []string, err error) {
	defer func() {
		if p := recover(); p != nil {
			err = fmt.Errorf("replica decoder panicked: %v", p)
		}
	}()
	pos, vi := 0, 0
	*docs = make([]any, len(cols))
	for c := range cols {
		if !present.Bit(c) {
			out = append(out, "ABSENT")
			continue
		}
		if nulls.Bit(vi) {
			out = append(out, "NULL")
			vi++
			continue
		}
		v, l, err := mysql.CellValue(data, pos, tm.Types[c], tm.Metadata[c], cols[c].Typ.Type())
		if err != nil {
			return nil, fmt.Errorf("column %d (%s): %v", c, cols[c].Spec, err)
		}
		if cols[c].Fam == "json" {
			d, err := parseVitessJSON(v.Raw())
			if err != nil {
				return nil, fmt.Errorf("column %d (json): %v", c, err)
			}
			(*docs)[c] = d
			out = append(out, "json")
		} else {
			s, err := canonVitess(cols[c], v)
			if err != nil {
				return nil, fmt.Errorf("column %d (%s): %v", c, cols[c].Spec, err)
			}
			out = append(out, s)
		}
		pos += l
		vi++
	}
	if pos != len(data) {
		return nil, fmt.Errorf("row image has %d bytes, replica consumed %d", len(data), pos)
	}
	return out, nil
}

func sqlKey(cols []*tspec, st *stored, what string) string {
	// attribute a failing row to a known defect shape when one of its cells has it
	for i, t := range cols {
		if st != nil && i < len(st.cells) && st.cells[i] != "null" && t.Fam != "json" {
			if c, err := parseCell(st.cells[i]); err == nil {
				if k := classify(t, c); !strings.HasPrefix(k, "cell-") {
					return k
				}
			}
		}
		if st != nil && t.Fam == "json" && i < len(st.docs) && st.docs[i] != nil {
			if k := classifyJSON(st.docs[i]); k != "cell-json" {
				return k
			}
		}
	}
	return "sql-" + what
}

func runSQL(e *hx.Env, m *hx.Model, k kase) {
	if !ensureSQL(e) {
		return
	}
	pkT, _ := parseTspec("int:4:s")
	cols := []*tspec{pkT}
	for _, s := range k.Cols {
		t, err := parseTspec(s)
		if err != nil {
			e.Rep.Note("bad sql case: " + err.Error())
			return
		}
		cols = append(cols, t)
	}
	tblSeq++
	tbl := fmt.Sprintf("t%d", tblSeq)
	defs := []string{"pk INT PRIMARY KEY"}
	for i, t := range cols[1:] {
		defs = append(defs, fmt.Sprintf("c%d %s", i, t.SQL))
	}
	if r := sess.Exec("CREATE TABLE " + tbl + " (" + strings.Join(defs, ", ") + ")"); r.Err != nil {
		e.Rep.Note("create table failed: " + r.Err.Error())
		return
	}
	e.Rep.Count("sql "+strings.Join(k.Cols, ",")+" "+strings.Join(k.Stmts, ";"), true)
	e.Rep.Hit("sql:tables")
	for _, stmt := range k.Stmts {
		q := strings.ReplaceAll(stmt, "%T", tbl)
		s0, err := takeSnapshot(tbl, cols)
		if err != nil {
			e.Rep.Note("snapshot failed: " + err.Error())
			return
		}
		before, _, err := workingRoot()
		if err != nil {
			e.Rep.Note("roots: " + err.Error())
			return
		}
		if r := sess.Exec(q); r.Err != nil {
			e.Rep.Hit("sql:stmt-rejected")
			continue
		}
		e.Rep.Hit("sql:stmt-" + strings.ToLower(strings.SplitN(stmt, " ", 2)[0]))
		s1, err := takeSnapshot(tbl, cols)
		if err != nil {
			e.Rep.Note("snapshot failed: " + err.Error())
			return
		}
		after, ctx, err := workingRoot()
		if err != nil {
			e.Rep.Note("roots: " + err.Error())
			return
		}
		// which rows changed (by stored value)
		changed := map[string]string{}
		var anyRow *stored
		for pk, a := range s1 {
			if b, ok := s0[pk]; !ok {
				changed[pk] = "insert"
				anyRow = a
			} else if strings.Join(a.cells, "|") != strings.Join(b.cells, "|") {
				changed[pk] = "update"
				anyRow = a
			}
		}
		for pk, b := range s0 {
			if _, ok := s1[pk]; !ok {
				changed[pk] = "delete"
				anyRow = b
			}
		}
		var events []mysql.BinlogEvent
		var f mysql.BinlogFormat
		res := hx.Recover(func() string {
			evs, ff, err := br.VerifRowEvents(ctx, eng.DBName, before, after)
			if err != nil {
				return "err: " + err.Error()
			}
			events, f = evs, ff
			return "ok"
		})
		if res != "ok" {
			if len(changed) > 0 {
				// find the row that carries a known defect shape, if any
				key := "sql-events"
				for pk := range changed {
					st := s1[pk]
					if st == nil {
						st = s0[pk]
					}
					if kk := sqlKey(cols, st, "events"); kk != "sql-events" {
						key = kk
					}
				}
				if key == "sql-events" {
					for _, t := range cols {
						if t.Fam == "decimal" && t.P == t.S {
							key = "decimal-precision-equals-scale"
						}
					}
				}
				e.Rep.Violate(key, fmt.Sprintf("%d stored row change(s) of %s produce no binlog events: %s [%s]", len(changed), strings.Join(k.Cols, ","), clip(res), clip(q)), k)
			}
			continue
		}
		_ = anyRow
		seen := map[string]string{}
		var tm *mysql.TableMap
		for _, ev := range events {
			if f.ChecksumAlgorithm == mysql.BinlogChecksumAlgCRC32 {
				ev2, _, err := ev.StripChecksum(f)
				if err != nil {
					e.Rep.Violate("sql-event-frame", "event checksum cannot be stripped: "+err.Error(), k)
					continue
				}
				ev = ev2
			}
			switch {
			case ev.IsTableMap():
				t, err := ev.TableMap(f)
				if err != nil {
					e.Rep.Violate("sql-tablemap", "replica cannot parse the TableMap event: "+err.Error(), k)
					continue
				}
				if t.Name == tbl {
					tm = t
				}
			case ev.IsWriteRows(), ev.IsUpdateRows(), ev.IsDeleteRows():
				if tm == nil {
					e.Rep.Violate("sql-tablemap", "row event without a TableMap for "+tbl, k)
					continue
				}
				if len(tm.Types) != len(cols) {
					e.Rep.Violate("sql-tablemap", fmt.Sprintf("TableMap has %d columns, table has %d", len(tm.Types), len(cols)), k)
					continue
				}
				var rows mysql.Rows
				perr := hx.Recover(func() string {
					rs, err := ev.Rows(f, tm)
					if err != nil {
						return "err: " + err.Error()
					}
					rows = rs
					return "ok"
				})
				if perr != "ok" {
					e.Rep.Violate(sqlKeyAny(cols, changed, s0, s1, "rows-parse"), "replica cannot parse the rows event: "+clip(perr)+" ["+clip(q)+"]", k)
					continue
				}
				for _, row := range rows.Rows {
					e.Rep.TracesValidated++
					check := func(kind string, present, nulls mysql.Bitmap, data []byte, snap map[string]*stored) {
						var docs []any
						got, err := decodeImage(tm, cols, present, nulls, data, &docs)
						if err != nil {
							e.Rep.Violate(sqlKeyAny(cols, changed, s0, s1, "image"), fmt.Sprintf("%s image of %s undecodable: %v [%s]", kind, tbl, err, clip(q)), k)
							return
						}
						st := snap[got[0]]
						if st == nil {
							e.Rep.Violate(sqlKeyAny(cols, changed, s0, s1, "image"), fmt.Sprintf("%s image decodes to pk %s which is not a stored row [%s]", kind, got[0], clip(q)), k)
							return
						}
						seen[got[0]] += kind
						for c := range cols {
							ok := got[c] == st.canon[c]
							if ok && cols[c].Fam == "json" && got[c] == "json" {
								ok = jsonEqual(docs[c], st.docs[c])
							}
							if !ok {
								e.Rep.Violate(sqlKey(cols, st, "value"), fmt.Sprintf("%s image, row pk=%s column c%d %s: replica decodes %s, stored value is %s (%s) [%s]",
									kind, got[0], c-1, cols[c].Spec, clip(got[c]), clip(st.canon[c]), clip(st.cells[c]), clip(q)), k)
							}
						}
						// model: encodeRow must give the same image and NULL bitmap (the model's DATE/DATETIME
						// domain starts at year 0: dolt's internal zero date, year -1, is left to the oracle)
						for _, cs := range st.cells {
							if strings.HasPrefix(cs, "d:-") || strings.HasPrefix(cs, "dt:-") {
								e.Rep.Hit("sql:zero-date-not-sent-to-model")
								return
							}
						}
						var req []string
						for _, t := range cols {
							req = append(req, t.Model)
						}
						req = append(req, st.cells...)
						mod := m.Ask(fmt.Sprintf("row %d %s", len(cols), strings.Join(req, " ")))
						bm := make([]byte, (len(cols)+7)/8)
						for i := range cols {
							if nulls.Bit(i) {
								bm[i/8] |= 1 << uint(i%8)
							}
						}
						impl := fmt.Sprintf("ok %s %s", hx.Hex(data), hx.Hex(bm))
						if impl != mod {
							e.Rep.Disagree(k, clip(impl), clip(mod), kind+" row image pk="+got[0])
						}
					}
					if ev.IsUpdateRows() || ev.IsDeleteRows() {
						check("before", rows.IdentifyColumns, row.NullIdentifyColumns, row.Identify, s0)
					}
					if ev.IsWriteRows() || ev.IsUpdateRows() {
						check("after", rows.DataColumns, row.NullColumns, row.Data, s1)
					}
				}
			}
		}
		// every changed stored row must be carried by an event of the right kind
		var pks []string
		for pk := range changed {
			pks = append(pks, pk)
		}
		sort.Strings(pks)
		for _, pk := range pks {
			want := map[string]string{"insert": "after", "update": "beforeafter", "delete": "before"}[changed[pk]]
			if seen[pk] != want {
				st := s1[pk]
				if st == nil {
					st = s0[pk]
				}
				e.Rep.Violate(sqlKey(cols, st, "missing"), fmt.Sprintf("stored row pk=%s was %sd but the row events carry %q for it [%s]", pk, changed[pk], seen[pk], clip(q)), k)
			}
		}
	}
	sess.Exec("DROP TABLE " + tbl)
}

func sqlKeyAny(cols []*tspec, changed map[string]string, s0, s1 map[string]*stored, what string) string {
	for pk := range changed {
		st := s1[pk]
		if st == nil {
			st = s0[pk]
		}
		if k := sqlKey(cols, st, what); !strings.HasPrefix(k, "sql-") {
			return k
		}
	}
	return "sql-" + what
}
