// blobstore: correspondence + property oracle for C42 (byte ranges, conditional manifest update,
// concatenation, NBS on a blobstore) for the local and in-memory blobstores.
package main

import (
	"bytes"
	"context"
	"encoding/json"
	"fmt"
	"math"
	"os"
	"path/filepath"
	"sort"
	"strings"
	"sync"
	"time"

	"github.com/dolthub/dolt/go/store/blobstore"
	"github.com/dolthub/dolt/go/store/chunks"
	"github.com/dolthub/dolt/go/store/hash"
	"github.com/dolthub/dolt/go/store/nbs"
	"github.com/dolthub/dolt/go/store/types"

	"verif/harness/internal/hx"
)

type kase struct {
	Stream string `json:"stream"` // range | arith | cas | casl | gitcas | concat | nbs
	Op     string `json:"op,omitempty"` // gitcas: hook | free
	Store  string `json:"store,omitempty"`
	Size   int    `json:"size,omitempty"`
	Off    int64  `json:"off,omitempty"`
	Len    int64  `json:"len,omitempty"`
	G      int    `json:"g,omitempty"`
	Rounds int    `json:"rounds,omitempty"`
	Seed   uint64 `json:"seed,omitempty"`
}

var ctx = context.Background()
var hung = map[string]bool{}

func blobOf(size int) []byte {
	b := make([]byte, size)
	for i := range b {
		b[i] = byte(i*7 + 1)
	}
	return b
}

type stores struct {
	dir   string
	inmem *blobstore.InMemoryBlobstore
	local *blobstore.LocalBlobstore
	git   *blobstore.GitBlobstore
	have  map[string]bool
}

func (s *stores) get(name string) blobstore.Blobstore {
	switch name {
	case "inmem":
		return s.inmem
	case "git":
		if s.git == nil {
			s.git = newGitClient(s.dir, newGitRemote(s.dir), time.Hour)
		}
		return s.git
	}
	return s.local
}

func (s *stores) ensure(name string, size int) string {
	key := fmt.Sprintf("blob%d", size)
	if !s.have[name+key] {
		if _, err := blobstore.PutBytes(ctx, s.get(name), key, blobOf(size)); err != nil {
			panic(err)
		}
		s.have[name+key] = true
	}
	return key
}

// documented semantics, written independently: offset >= 0 from the start, offset < 0 from the
// end, length 0 = to the end, clamped at the size.  Defined for -size <= off <= size.
func wantRange(data []byte, off, length int64) (out []byte, defined bool) {
	size := int64(len(data))
	if off > size || off < -size || length < 0 {
		return nil, false
	}
	start := off
	if off < 0 {
		start = size + off
	}
	end := size
	if length != 0 && length <= size-start {
		end = start + length
	}
	return data[start:end], true
}

func runRange(e *hx.Env, m *hx.Model, s *stores, k kase) {
	data := blobOf(k.Size)
	key := s.ensure(k.Store, k.Size)
	if hung[k.Store] {
		return
	}
	done := make(chan string, 1)
	go func() {
		done <- hx.Recover(func() string {
			b, _, err := blobstore.GetBytes(ctx, s.get(k.Store), key, blobstore.NewBlobRange(k.Off, k.Len))
			if err != nil {
				return "error"
			}
			return "ok " + hx.Hex(b)
		})
	}()
	var got string
	select {
	case got = <-done:
	case <-time.After(10 * time.Second):
		// a reader that never reaches EOF: report and stop reading from this store (the goroutine is lost)
		hung[k.Store] = true
		e.Rep.Violate("range-read-hangs:"+k.Store, fmt.Sprintf("%s Get(size %d, offset %d, length %d): reading the returned range does not terminate", k.Store, k.Size, k.Off, k.Len), k)
		return
	}
	if strings.HasPrefix(got, "panic") {
		got = "panic"
	}
	if k.Store == "local" && k.Off > 1<<40 && got == "error" {
		// lseek beyond the filesystem's maximum offset fails (EINVAL); not modelled: same as "nothing there"
		e.Rep.Hit("range:local:seek-limit")
		got = "ok -"
	}
	mod := m.Ask(fmt.Sprintf("%s %s %d %d", k.Store, hx.Hex(data), k.Off, k.Len))
	want, defined := wantRange(data, k.Off, k.Len)
	short := func(s string) string {
		if len(s) > 200 {
			return s[:200] + "…"
		}
		return s
	}
	edge := k.Off < 0 || k.Len == 0 || k.Off+k.Len >= int64(k.Size)
	e.Rep.Count(fmt.Sprintf("range %s %d %d %d", k.Store, k.Size, k.Off, k.Len), edge)
	cls := strings.Fields(got)[0]
	if !defined {
		cls += "-outside-domain"
	}
	e.Rep.Hit("range:" + k.Store + ":" + cls)
	switch {
	case defined && got == "panic" && k.Len > math.MaxInt64-int64(k.Size):
		e.Rep.Known("inmem-range-length-overflow-panic", fmt.Sprintf("%s Get panics for an in-bounds offset %d with length %d on a blob of size %d: offset+length overflows int64 in positiveRange, so the length is not clamped", k.Store, k.Off, k.Len, k.Size), k)
	case defined && got != "ok "+hx.Hex(want):
		e.Rep.Violate("range-wrong-bytes:"+k.Store, fmt.Sprintf("%s Get(size %d, offset %d, length %d) = %s, documented range is %s", k.Store, k.Size, k.Off, k.Len, short(got), short("ok "+hx.Hex(want))), k)
		return
	case !defined && got == "panic":
		e.Rep.Known("inmem-range-out-of-bounds-panic", fmt.Sprintf("%s Get panics (slice bounds out of range) for offset %d on a blob of size %d (|offset| > size); the local store returns no bytes / an error for the same range", k.Store, k.Off, k.Size), k)
	case !defined && strings.HasPrefix(got, "ok ") && got != "ok -":
		// beyond the blob: any bytes returned must at least be a suffix of the blob; nothing is "requested"
		b := hx.Unhex(strings.TrimPrefix(got, "ok "))
		if !bytes.HasSuffix(data, b) && !bytes.Contains(data, b) {
			e.Rep.Violate("range-invented-bytes:"+k.Store, fmt.Sprintf("%s Get(size %d, offset %d, length %d) returned bytes that are not in the blob", k.Store, k.Size, k.Off, k.Len), k)
			return
		}
	}
	if got != mod {
		e.Rep.Disagree(k, got, mod, "range read")
	}
}

func runArith(e *hx.Env, m *hx.Model, k kase) {
	size := int64(k.Size)
	po, pl := blobstore.VerifPositiveRange(k.Off, k.Len, size)
	got := fmt.Sprintf("%d %d", po, pl)
	mod := m.Ask(fmt.Sprintf("pos %d %d %d", k.Off, k.Len, size))
	e.Rep.Count(fmt.Sprintf("arith %d %d %d", k.Off, k.Len, size), true)
	e.Rep.Hit("arith:pos")
	// oracle on the domain: the positive range denotes exactly the documented slice
	if k.Off <= size && k.Off >= -size && k.Len >= 0 {
		data := blobOf(k.Size)
		want, _ := wantRange(data, k.Off, k.Len)
		if po < 0 || pl < 0 || po+pl > size || !bytes.Equal(data[po:po+pl], want) {
			e.Rep.Violate("positive-range", fmt.Sprintf("positiveRange(off %d, len %d, size %d) = (%d,%d) does not denote the documented slice", k.Off, k.Len, size, po, pl), k)
			return
		}
	}
	if got != mod {
		e.Rep.Disagree(k, got, mod, "positiveRange")
	}
	h := "h:" + blobstore.VerifRangeHeader(k.Off, k.Len)
	// oracle: an RFC 7233 server applying the header to the blob must select the documented range
	// (checked where the header form is a valid byte-range-spec and carries the whole request:
	// first-last, suffix with length 0, and no header for the whole blob)
	if k.Off <= size && k.Off >= -size {
		data := blobOf(k.Size)
		want, _ := wantRange(data, k.Off, k.Len)
		var sel []byte
		checked := true
		var a, b int64
		switch {
		case h == "h:":
			sel = data
		case k.Off >= 0 && k.Len > 0:
			if n, _ := fmt.Sscanf(h, "h:bytes=%d-%d", &a, &b); n != 2 || a > b {
				sel = nil
			} else if a >= size {
				sel = []byte{}
			} else {
				sel = data[a:min(b+1, size)]
			}
		case k.Off < 0 && k.Len == 0:
			if n, _ := fmt.Sscanf(h, "h:bytes=-%d", &a); n != 1 {
				sel = nil
			} else {
				sel = data[size-min(a, size):]
			}
		default:
			checked = false
		}
		if checked && !bytes.Equal(sel, want) {
			e.Rep.Violate("range-header", fmt.Sprintf("asHttpRangeHeader(offset %d, length %d) = %q selects %x on a blob of size %d, documented range is %x", k.Off, k.Len, h[2:], sel, size, want), k)
			return
		}
	}
	hm := m.Ask(fmt.Sprintf("hdr %d %d", k.Off, k.Len))
	e.Rep.Hit("arith:hdr")
	if h != hm {
		e.Rep.Disagree(k, h, hm, "asHttpRangeHeader")
	}
}

// concurrent CheckAndPutManifest: G goroutines, each repeatedly reads the version and tries to
// install its own content; the history must be that of a register with compare-and-swap.
func runCAS(e *hx.Env, m *hx.Model, dir string, k kase) {
	var bs blobstore.Blobstore
	if k.Store == "inmem" {
		bs = blobstore.NewInMemoryBlobstore("")
	} else {
		d := filepath.Join(dir, fmt.Sprintf("cas-%d-%d", k.Seed, k.G))
		os.MkdirAll(d, 0o755)
		bs = blobstore.NewLocalBlobstore(d)
	}
	type ev struct {
		g        int
		expected string
		content  string
		ok       bool
		newVer   string
		errOther string
	}
	var mu sync.Mutex
	var events []ev
	var wg sync.WaitGroup
	for g := 0; g < k.G; g++ {
		wg.Add(1)
		go func(g int) {
			defer wg.Done()
			for r := 0; r < k.Rounds; r++ {
				ver := ""
				_, v, err := blobstore.GetBytes(ctx, bs, blobstore.ManifestKey, blobstore.AllRange)
				if err == nil {
					ver = v
				}
				content := fmt.Sprintf("g%d-r%d", g, r)
				nv, err := bs.CheckAndPutManifest(ctx, ver, []byte(content))
				x := ev{g: g, expected: ver, content: content, ok: err == nil, newVer: nv}
				if err != nil && !blobstore.IsCheckAndPutError(err) {
					x.errOther = err.Error()
				}
				mu.Lock()
				events = append(events, x)
				mu.Unlock()
			}
		}(g)
	}
	wg.Wait()
	final, finalVer, err := blobstore.GetBytes(ctx, bs, blobstore.ManifestKey, blobstore.AllRange)
	e.Rep.Count(fmt.Sprintf("cas %s %d %d %d", k.Store, k.G, k.Rounds, k.Seed), true)
	e.Rep.TracesValidated++
	// ---- register oracle
	winners := map[string][]ev{} // by expected version
	newVers := map[string]int{}
	nWin := 0
	for _, x := range events {
		if x.errOther != "" {
			e.Rep.Violate("cas-error:"+k.Store, "CheckAndPutManifest failed with a non-CAS error: "+x.errOther, k)
			return
		}
		if x.ok {
			nWin++
			winners[x.expected] = append(winners[x.expected], x)
			newVers[x.newVer]++
		}
	}
	e.Rep.Hit(fmt.Sprintf("cas:%s:winners", k.Store))
	for exp, ws := range winners {
		if len(ws) > 1 {
			e.Rep.Violate("cas-two-winners:"+k.Store, fmt.Sprintf("%d writers succeeded with the same expected version %q: %v", len(ws), exp, ws), k)
			return
		}
	}
	for v, n := range newVers {
		if n > 1 || v == "" {
			e.Rep.Violate("cas-version-reused:"+k.Store, fmt.Sprintf("version %q was returned by %d successful updates", v, n), k)
			return
		}
	}
	// the successful updates form one chain "" -> v1 -> v2 ... ; the final value is the last link
	cur, steps, last := "", 0, ev{}
	for {
		ws, ok := winners[cur]
		if !ok {
			break
		}
		last = ws[0]
		cur = last.newVer
		steps++
	}
	if steps != nWin {
		e.Rep.Violate("cas-not-a-chain:"+k.Store, fmt.Sprintf("%d successful updates but the version chain from \"\" has %d links", nWin, steps), k)
		return
	}
	if nWin == 0 || err != nil || string(final) != last.content || finalVer != cur {
		e.Rep.Violate("cas-final:"+k.Store, fmt.Sprintf("final manifest %q@%q is not the last winner %q@%q (err %v)", final, finalVer, last.content, cur, err), k)
		return
	}
	// ---- model: replay the winners' chain and the losers against the register
	m.Ask("reset")
	verNo := map[string]int{"": 0}
	n := 0
	c := ""
	for {
		ws, ok := winners[c]
		if !ok {
			break
		}
		n++
		verNo[ws[0].newVer] = n
		c = ws[0].newVer
	}
	// order: each winner in chain order; a loser with expected version index i is replayed after
	// winner i+1 (it lost because someone else had already moved on)
	c = ""
	for i := 0; i < nWin; i++ {
		w := winners[c][0]
		resp := m.Ask(fmt.Sprintf("cap %d %s", i, hx.Hex([]byte(w.content))))
		if !strings.HasPrefix(resp, "true ") {
			e.Rep.Disagree(k, "winner", resp, "model register rejected a winning update")
		}
		for _, x := range events {
			if !x.ok && verNo[x.expected] == i {
				resp := m.Ask(fmt.Sprintf("cap %d %s", i, hx.Hex([]byte(x.content))))
				if !strings.HasPrefix(resp, "false ") {
					e.Rep.Disagree(k, "loser", resp, "model register accepted a losing update")
				}
			}
		}
		c = w.newVer
	}
}

// lockstep rounds: all G writers read the version, then all try to update from that same version
// at once: exactly one must win each round; after every round stale writers (expected "", the
// previous round's version, a version that never existed) must fail and change nothing.
func runCASLockstep(e *hx.Env, m *hx.Model, dir string, k kase) {
	var bs blobstore.Blobstore
	if k.Store == "inmem" {
		bs = blobstore.NewInMemoryBlobstore("")
	} else {
		d := filepath.Join(dir, fmt.Sprintf("casl-%d-%d", k.Seed, k.G))
		os.MkdirAll(d, 0o755)
		bs = blobstore.NewLocalBlobstore(d)
	}
	e.Rep.Count(fmt.Sprintf("casl %s %d %d %d", k.Store, k.G, k.Rounds, k.Seed), true)
	e.Rep.TracesValidated++
	e.Rep.Hit("casl:" + k.Store)
	m.Ask("reset")
	prev, cur := "", ""
	for r := 0; r < k.Rounds; r++ {
		oks := make([]bool, k.G)
		vers := make([]string, k.G)
		var wg sync.WaitGroup
		start := make(chan struct{})
		for g := 0; g < k.G; g++ {
			wg.Add(1)
			go func(g int) {
				defer wg.Done()
				<-start
				nv, err := bs.CheckAndPutManifest(ctx, cur, []byte(fmt.Sprintf("r%d-g%d", r, g)))
				oks[g], vers[g] = err == nil, nv
			}(g)
		}
		close(start)
		wg.Wait()
		win := -1
		for g, ok := range oks {
			if ok {
				if win >= 0 {
					e.Rep.Violate("cas-two-winners:"+k.Store, fmt.Sprintf("round %d: writers %d and %d both succeeded from expected version %q", r, win, g, cur), k)
					return
				}
				win = g
			}
		}
		if win < 0 {
			e.Rep.Violate("cas-no-winner:"+k.Store, fmt.Sprintf("round %d: none of %d writers expecting the current version %q succeeded", r, k.G, cur), k)
			return
		}
		content := fmt.Sprintf("r%d-g%d", r, win)
		b, v, err := blobstore.GetBytes(ctx, bs, blobstore.ManifestKey, blobstore.AllRange)
		if err != nil || string(b) != content || v != vers[win] || v == cur || v == "" {
			e.Rep.Violate("cas-final:"+k.Store, fmt.Sprintf("round %d: manifest is %q@%q, winner wrote %q and got version %q (previous %q)", r, b, v, content, vers[win], cur), k)
			return
		}
		if resp := m.Ask(fmt.Sprintf("cap %d %s", r, hx.Hex([]byte(content)))); !strings.HasPrefix(resp, "true ") {
			e.Rep.Disagree(k, "winner", resp, "model register rejected the round's winner")
		}
		prev, cur = cur, v
		// stale writers
		stale := []string{prev, "no-such-version"}
		if r > 0 {
			stale = append(stale, "")
		}
		for i, exp := range stale {
			if exp == cur {
				continue
			}
			_, err := bs.CheckAndPutManifest(ctx, exp, []byte("stale"))
			b2, v2, _ := blobstore.GetBytes(ctx, bs, blobstore.ManifestKey, blobstore.AllRange)
			if err == nil || !blobstore.IsCheckAndPutError(err) || string(b2) != content || v2 != cur {
				e.Rep.Violate("cas-stale-accepted:"+k.Store, fmt.Sprintf("round %d: an update expecting the stale version %q (current %q) returned err=%v and left %q@%q", r, exp, cur, err, b2, v2), k)
				return
			}
			if resp := m.Ask(fmt.Sprintf("cap %d %s", 1000000+i, hx.Hex([]byte("stale")))); !strings.HasPrefix(resp, "false ") {
				e.Rep.Disagree(k, "stale", resp, "model register accepted a stale update")
			}
		}
	}
}

func runConcat(e *hx.Env, m *hx.Model, s *stores, k kase) {
	r := hx.NewRng(k.Seed)
	n := r.Range(0, 6)
	if r.Chance(1, 6) {
		n = r.Range(30, 70) // beyond composeBatch (32) in the in-memory store
	}
	bs := s.get(k.Store)
	if k.Store == "git" && n > 8 {
		n = 8 // every Put is a git commit + push
	}
	var keys []string
	var parts [][]byte
	var hexes []string
	for i := 0; i < n; i++ {
		b := r.Bytes(r.Intn(9))
		key := fmt.Sprintf("c%d-%d", k.Seed, i)
		if _, err := blobstore.PutBytes(ctx, bs, key, b); err != nil {
			panic(err)
		}
		keys = append(keys, key)
		parts = append(parts, b)
		hexes = append(hexes, hx.Hex(b))
	}
	dst := fmt.Sprintf("cat%d", k.Seed)
	got := hx.Recover(func() string {
		if _, err := bs.Concatenate(ctx, dst, keys); err != nil {
			return "error " + err.Error()
		}
		b, _, err := blobstore.GetBytes(ctx, bs, dst, blobstore.AllRange)
		if err != nil {
			return "error " + err.Error()
		}
		return hx.Hex(b)
	})
	want := hx.Hex(bytes.Join(parts, nil))
	mod := m.Ask(strings.TrimSpace("concat " + strings.Join(hexes, " ")))
	e.Rep.Count(fmt.Sprintf("concat %s %d", k.Store, k.Seed), n > 1)
	e.Rep.Hit("concat:" + k.Store)
	if k.Store == "git" && n == 0 && strings.Contains(got, "requires at least one source") {
		// the git backend rejects an empty source list (local / in-memory create an empty blob);
		// a rejection is not a wrong concatenation — recorded as a backend difference
		e.Rep.Hit("concat:git:empty-sources-rejected")
		return
	}
	if got != want {
		e.Rep.Violate("concat:"+k.Store, fmt.Sprintf("Concatenate of %d blobs = %s, want %s", n, got, want), k)
		return
	}
	if got != mod {
		e.Rep.Disagree(k, got, mod, "concat")
	}
}

// NBS on a blobstore: put chunks, commit, reopen, read back; same root and chunk semantics.
func runNBS(e *hx.Env, dir string, k kase) {
	r := hx.NewRng(k.Seed)
	var bs blobstore.Blobstore
	if k.Store == "inmem" {
		bs = blobstore.NewInMemoryBlobstore("")
	} else {
		d := filepath.Join(dir, fmt.Sprintf("nbs-%d", k.Seed))
		os.MkdirAll(d, 0o755)
		bs = blobstore.NewLocalBlobstore(d)
	}
	q := nbs.NewUnlimitedMemQuotaProvider()
	open := func() *nbs.NomsBlockStore {
		st, err := nbs.NewBSStore(ctx, types.Format_DOLT.VersionString(), bs, 1<<16, q)
		if err != nil {
			panic(err)
		}
		return st
	}
	written := map[hash.Hash][]byte{}
	root := hash.Hash{}
	st := open()
	noRefs := func(c chunks.Chunk) chunks.InsertAddrsCb {
		return func(ctx context.Context, addrs hash.HashSet, _ chunks.PendingRefExists) error { return nil }
	}
	rounds := r.Range(1, 4)
	what := hx.Recover(func() string {
		for i := 0; i < rounds; i++ {
			var last hash.Hash
			for j, n := 0, r.Range(1, 12); j < n; j++ {
				c := chunks.NewChunk(r.Bytes(r.Range(1, 300)))
				if err := st.Put(ctx, c, noRefs); err != nil {
					return "put: " + err.Error()
				}
				written[c.Hash()] = c.Data()
				last = c.Hash()
			}
			cur, err := st.Root(ctx)
			if err != nil {
				return "root: " + err.Error()
			}
			if cur != root {
				return fmt.Sprintf("root before commit is %s, want %s", cur, root)
			}
			ok, err := st.Commit(ctx, last, root)
			if err != nil || !ok {
				return fmt.Sprintf("commit: ok=%v err=%v", ok, err)
			}
			// a stale commit must fail
			if i > 0 {
				ok2, err := st.Commit(ctx, hash.Of([]byte("stale")), hash.Hash{})
				if err == nil && ok2 {
					return "a commit against a stale root succeeded"
				}
			}
			root = last
			if r.Chance(1, 2) {
				st.Close()
				st = open()
			}
		}
		st.Close()
		st = open()
		defer st.Close()
		cur, err := st.Root(ctx)
		if err != nil || cur != root {
			return fmt.Sprintf("after reopen root = %s (err %v), want %s", cur, err, root)
		}
		var hs []hash.Hash
		for h := range written {
			hs = append(hs, h)
		}
		sort.Slice(hs, func(i, j int) bool { return hs[i].Less(hs[j]) })
		for _, h := range hs {
			c, err := st.Get(ctx, h)
			if err != nil || !bytes.Equal(c.Data(), written[h]) {
				return fmt.Sprintf("after reopen chunk %s reads back wrong (err %v)", h, err)
			}
		}
		ok, err := st.Has(ctx, hash.Of([]byte("absent")))
		if err != nil || ok {
			return "an absent chunk is reported present"
		}
		return ""
	})
	e.Rep.Count(fmt.Sprintf("nbs %s %d", k.Store, k.Seed), true)
	e.Rep.Hit("nbs:" + k.Store)
	e.Rep.TracesValidated++
	if what != "" {
		e.Rep.Violate("nbs-on-blobstore:"+k.Store, what, k)
	}
}

func runCase(e *hx.Env, m *hx.Model, s *stores, k kase) {
	switch k.Stream {
	case "range":
		runRange(e, m, s, k)
	case "arith":
		runArith(e, m, k)
	case "cas":
		runCAS(e, m, s.dir, k)
	case "casl":
		runCASLockstep(e, m, s.dir, k)
	case "gitcas":
		if k.Op == "free" {
			runGitCASFree(e, m, s.dir, k)
		} else {
			runGitCASHook(e, m, s.dir, k)
		}
	case "concat":
		runConcat(e, m, s, k)
	case "nbs":
		runNBS(e, s.dir, k)
	}
}

func main() {
	e := hx.Init("blobstore", "C42")
	defer e.Finish()
	e.Rep.Rule = "range: ALL (offset, length) with -size-3 <= offset <= size+3, 0 <= length <= size+3 over blobs of sizes 0..40 for the in-memory and local stores (and sizes {0,1,2..4,7} for the git-backed store), plus random ranges over a 3 kB blob incl. int64 extremes; arith: positiveRange/asHttpRangeHeader on the same grid; cas: G goroutines x R rounds of read-version/CheckAndPutManifest checked against a compare-and-swap register, and lockstep rounds (all writers expect the same version: exactly one wins; stale/empty/unknown expected versions must fail); gitcas: two git-blobstore clients of one bare remote, the second client's conditional write forced between the first one's validation and its lease-guarded push (push hook), and free-running 3-client read-modify-write loops (every success must be recorded in the final manifest); concat: 0..70 blobs; nbs: put/commit/reopen round trips on a blobstore-backed NBS; nontrivial = suffix range, length 0, clamped or beyond the end; distinct by full case"
	m := e.MustModel()
	defer m.Close()
	gitEnv()
	dir := filepath.Join(e.Scratch, "bs")
	os.MkdirAll(filepath.Join(dir, "local"), 0o755)
	s := &stores{dir: dir, inmem: blobstore.NewInMemoryBlobstore(""), local: blobstore.NewLocalBlobstore(filepath.Join(dir, "local")), have: map[string]bool{}}

	if e.Replay != "" {
		rf, err := hx.LoadReplay(e.Replay)
		if err != nil {
			panic(err)
		}
		var k kase
		json.Unmarshal(rf.Case, &k)
		runCase(e, m, s, k)
		return
	}
	for _, raw := range e.CorpusCases() {
		var k kase
		if json.Unmarshal(raw, &k) == nil {
			runCase(e, m, s, k)
		}
	}
	r := e.Rng
	maxSize := 40
	step := 1
	if !e.Thorough() {
		step = 3 // quick: every third size (still exhaustive in offset/length), thorough: all
	}
	for _, st := range []string{"inmem", "local"} {
		for size := (int(e.Seed) % step); size <= maxSize; size += step {
			for off := int64(-size - 3); off <= int64(size+3); off++ {
				for l := int64(0); l <= int64(size+3); l++ {
					runRange(e, m, s, kase{Stream: "range", Store: st, Size: size, Off: off, Len: l})
				}
			}
		}
		for i, n := 0, e.N(150, 3000); i < n; i++ {
			size := 3000
			off := int64(r.Intn(2*size+20)) - int64(size+10)
			l := int64(r.Intn(size + 10))
			switch r.Intn(12) {
			case 0:
				off, l = math.MaxInt64, hx.Pick(r, []int64{0, 1, math.MaxInt64})
			case 1:
				off, l = math.MinInt64, hx.Pick(r, []int64{0, 1, math.MaxInt64})
			case 2:
				off, l = int64(r.Intn(size)), math.MaxInt64
			case 3:
				off, l = -int64(r.Intn(size)+1), math.MaxInt64
			}
			runRange(e, m, s, kase{Stream: "range", Store: st, Size: size, Off: off, Len: l})
		}
	}
	// git-backed store: the same exhaustive (offset, length) sweep on a few small sizes (every read
	// is a git process), plus int64 extremes
	gitSizes := []int{0, 1, 2 + int(e.Seed)%3, 7}
	if e.Thorough() {
		gitSizes = []int{0, 1, 2, 3, 4, 5, 7, 12, 20}
	}
	for _, size := range gitSizes {
		for off := int64(-size - 3); off <= int64(size+3); off++ {
			for l := int64(0); l <= int64(size+3); l++ {
				runRange(e, m, s, kase{Stream: "range", Store: "git", Size: size, Off: off, Len: l})
			}
		}
		for _, x := range [][2]int64{{math.MaxInt64, 0}, {math.MinInt64, 0}, {0, math.MaxInt64}, {-1, math.MaxInt64}, {int64(size), math.MaxInt64}} {
			runRange(e, m, s, kase{Stream: "range", Store: "git", Size: size, Off: x[0], Len: x[1]})
		}
	}
	for i, n := 0, e.N(2, 10); i < n; i++ {
		runGitCASHook(e, m, dir, kase{Stream: "gitcas", Op: "hook", Rounds: r.Range(2, 4), Seed: r.U64() % 100000})
	}
	for i, n := 0, e.N(1, 6); i < n; i++ {
		runGitCASFree(e, m, dir, kase{Stream: "gitcas", Op: "free", G: 3, Rounds: r.Range(3, 4), Seed: r.U64() % 100000})
	}
	for size := 0; size <= maxSize; size += step {
		for off := int64(-size - 3); off <= int64(size+3); off++ {
			for l := int64(0); l <= int64(size+3); l++ {
				runArith(e, m, kase{Stream: "arith", Size: size, Off: off, Len: l})
			}
		}
	}
	for i, n := 0, e.N(6, 40); i < n; i++ {
		runCAS(e, m, dir, kase{Stream: "cas", Store: "inmem", G: r.Range(2, 8), Rounds: r.Range(5, 40), Seed: r.U64() % 100000})
	}
	for i, n := 0, e.N(3, 12); i < n; i++ {
		// each successful local update sleeps 10 ms: keep rounds small
		runCAS(e, m, dir, kase{Stream: "cas", Store: "local", G: r.Range(2, 6), Rounds: r.Range(3, 10), Seed: r.U64() % 100000})
	}
	for i, n := 0, e.N(6, 40); i < n; i++ {
		runCASLockstep(e, m, dir, kase{Stream: "casl", Store: "inmem", G: r.Range(2, 8), Rounds: r.Range(3, 20), Seed: r.U64() % 100000})
	}
	for i, n := 0, e.N(3, 12); i < n; i++ {
		runCASLockstep(e, m, dir, kase{Stream: "casl", Store: "local", G: r.Range(2, 6), Rounds: r.Range(2, 6), Seed: r.U64() % 100000})
	}
	for i, n := 0, e.N(20, 200); i < n; i++ {
		runConcat(e, m, s, kase{Stream: "concat", Store: hx.Pick(r, []string{"inmem", "inmem", "local", "git"}), Seed: r.U64() % 1000000})
	}
	for i, n := 0, e.N(4, 30); i < n; i++ {
		runNBS(e, dir, kase{Stream: "nbs", Store: hx.Pick(r, []string{"inmem", "local"}), Seed: r.U64() % 1000000})
	}
}
