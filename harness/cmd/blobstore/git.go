package main

// Git-backed blobstore (third backend): clients of one bare remote, each with its own local cache
// repository, as two `dolt push`ers of the same git remote would be.

import (
	"context"
	"fmt"
	"os"
	"os/exec"
	"path/filepath"
	"strings"
	"sync"
	"time"

	"github.com/dolthub/dolt/go/store/blobstore"

	"verif/harness/internal/hx"
)

var gitSeq int

func gitRun(args ...string) {
	cmd := exec.Command("git", args...)
	if out, err := cmd.CombinedOutput(); err != nil {
		panic(fmt.Sprintf("git %v: %v: %s", args, err, out))
	}
}

func gitEnv() {
	for k, v := range map[string]string{"GIT_AUTHOR_NAME": "verif", "GIT_AUTHOR_EMAIL": "verif@example.invalid",
		"GIT_COMMITTER_NAME": "verif", "GIT_COMMITTER_EMAIL": "verif@example.invalid", "GIT_CONFIG_NOSYSTEM": "1"} {
		os.Setenv(k, v)
	}
}

// newGitRemote makes an empty bare repository.
func newGitRemote(dir string) string {
	gitSeq++
	d := filepath.Join(dir, fmt.Sprintf("remote-%d.git", gitSeq))
	gitRun("init", "--bare", "-q", d)
	return d
}

// newGitClient makes a blobstore client of |remote| with its own local repository.
// ttl = how long reads may reuse the last fetch (1ns: every read fetches).
func newGitClient(dir, remote string, ttl time.Duration) *blobstore.GitBlobstore {
	gitSeq++
	d := filepath.Join(dir, fmt.Sprintf("client-%d.git", gitSeq))
	gitRun("init", "--bare", "-q", d)
	gitRun("--git-dir", d, "remote", "add", "origin", remote)
	bs, err := blobstore.NewGitBlobstoreWithOptions(d, blobstore.DoltDataRef, blobstore.GitBlobstoreOptions{RemoteName: "origin", SyncForReadTTL: ttl})
	if err != nil {
		panic(err)
	}
	return bs
}

func readManifest(bs blobstore.Blobstore) (string, string, error) {
	b, v, err := blobstore.GetBytes(ctx, bs, blobstore.ManifestKey, blobstore.AllRange)
	if err != nil {
		if blobstore.IsNotFoundError(err) {
			return "", "", nil
		}
		return "", "", err
	}
	return string(b), v, nil
}

// hook rounds: clients A and B read the same version V; B's conditional write lands after A has
// fetched and validated V and before A's lease-guarded push (forced through the push hook), so A's
// push loses the lease and A retries.  A compare-and-swap must reject A.
func runGitCASHook(e *hx.Env, m *hx.Model, dir string, k kase) {
	remote := newGitRemote(dir)
	cl := []*blobstore.GitBlobstore{newGitClient(dir, remote, time.Nanosecond), newGitClient(dir, remote, time.Nanosecond)}
	e.Rep.Count(fmt.Sprintf("gitcas hook %d %d", k.Rounds, k.Seed), true)
	e.Rep.TracesValidated++
	e.Rep.Hit("gitcas:hook")
	m.Ask("reset")
	wins := 0
	for r := 0; r < k.Rounds; r++ {
		a, b := cl[(r+int(k.Seed))%2], cl[(r+1+int(k.Seed))%2]
		_, va, erra := readManifest(a)
		_, vb, errb := readManifest(b)
		if erra != nil || errb != nil || va != vb {
			e.Rep.Violate("gitcas-read:git", fmt.Sprintf("round %d: the two clients do not read the same manifest version: %q/%v vs %q/%v", r, va, erra, vb, errb), k)
			return
		}
		ca, cb := fmt.Sprintf("A-s%d-r%d\n", k.Seed, r), fmt.Sprintf("B-s%d-r%d\n", k.Seed, r)
		var bVer string
		var bErr error
		hooked := false
		blobstore.VerifHookPush(a, func(ctx context.Context, attempt int) {
			if attempt == 1 {
				hooked = true
				bVer, bErr = b.CheckAndPutManifest(ctx, vb, []byte(cb))
			}
		})
		aVer, aErr := a.CheckAndPutManifest(ctx, va, []byte(ca))
		blobstore.VerifHookPush(a, nil)
		if !hooked {
			e.Rep.Note("gitcas hook: A never pushed")
		}
		for _, er := range []error{aErr, bErr} {
			if er != nil && !blobstore.IsCheckAndPutError(er) {
				e.Rep.Violate("cas-error:git", fmt.Sprintf("round %d: CheckAndPutManifest failed with a non-CAS error: %v", r, er), k)
				return
			}
		}
		fresh := newGitClient(dir, remote, time.Nanosecond)
		got, gotVer, err := readManifest(fresh)
		switch {
		case aErr == nil && bErr == nil:
			e.Rep.Violate("cas-two-winners:git", fmt.Sprintf("round %d: two clients expecting manifest version %q both succeeded (B's write landed between A's validation and A's push; A retried without re-checking); stored manifest is %q — one update is lost", r, va, got), k)
			return
		case aErr != nil && bErr != nil:
			e.Rep.Violate("cas-no-winner:git", fmt.Sprintf("round %d: neither client expecting the current version %q succeeded: %v / %v", r, va, aErr, bErr), k)
			return
		}
		wantC, wantV := cb, bVer
		if aErr == nil {
			wantC, wantV = ca, aVer
		}
		if err != nil || got != wantC || gotVer != wantV {
			e.Rep.Violate("cas-final:git", fmt.Sprintf("round %d: stored manifest %q@%q (err %v) is not the winner's %q@%q", r, got, gotVer, err, wantC, wantV), k)
			return
		}
		if resp := m.Ask(fmt.Sprintf("cap %d %s", wins, hx.Hex([]byte(wantC)))); !strings.HasPrefix(resp, "true ") {
			e.Rep.Disagree(k, "winner", resp, "model register rejected the winner")
		}
		if resp := m.Ask(fmt.Sprintf("cap %d %s", wins, hx.Hex([]byte("loser")))); !strings.HasPrefix(resp, "false ") {
			e.Rep.Disagree(k, "loser", resp, "model register accepted the loser")
		}
		wins++
		// stale expected versions must fail and change nothing
		for _, exp := range []string{va, "0000000000000000000000000000000000000000"} {
			if exp == wantV {
				continue
			}
			_, err := a.CheckAndPutManifest(ctx, exp, []byte(fmt.Sprintf("stale-s%d-r%d\n", k.Seed, r)))
			g2, v2, _ := readManifest(fresh)
			if err == nil || g2 != wantC || v2 != wantV {
				e.Rep.Violate("cas-stale-accepted:git", fmt.Sprintf("round %d: an update expecting the stale version %q (current %q) returned err=%v and left %q@%q", r, exp, wantV, err, g2, v2), k)
				return
			}
		}
	}
}

// free-running: G clients do read-modify-write loops on one remote; every successful conditional
// write appends one unique token, so the final manifest must hold exactly the successful tokens.
func runGitCASFree(e *hx.Env, m *hx.Model, dir string, k kase) {
	remote := newGitRemote(dir)
	e.Rep.Count(fmt.Sprintf("gitcas free %d %d %d", k.G, k.Rounds, k.Seed), true)
	e.Rep.TracesValidated++
	e.Rep.Hit("gitcas:free")
	var mu sync.Mutex
	var won []string
	var other []string
	var wg sync.WaitGroup
	for g := 0; g < k.G; g++ {
		c := newGitClient(dir, remote, time.Nanosecond)
		wg.Add(1)
		go func(g int) {
			defer wg.Done()
			for r := 0; r < k.Rounds; r++ {
				cur, v, err := readManifest(c)
				if err != nil {
					mu.Lock()
					other = append(other, err.Error())
					mu.Unlock()
					continue
				}
				tok := fmt.Sprintf("[s%dg%dr%d]", k.Seed, g, r)
				_, err = c.CheckAndPutManifest(ctx, v, []byte(cur+tok))
				mu.Lock()
				if err == nil {
					won = append(won, tok)
				} else if !blobstore.IsCheckAndPutError(err) {
					other = append(other, err.Error())
				}
				mu.Unlock()
			}
		}(g)
	}
	wg.Wait()
	if len(other) > 0 {
		e.Rep.Violate("cas-error:git", "non-CAS errors during concurrent conditional writes: "+strings.Join(other, "; "), k)
		return
	}
	final, _, err := readManifest(newGitClient(dir, remote, time.Nanosecond))
	if err != nil {
		e.Rep.Violate("cas-final:git", "cannot read the final manifest: "+err.Error(), k)
		return
	}
	missing := 0
	for _, t := range won {
		if strings.Count(final, t) != 1 {
			missing++
		}
	}
	if missing > 0 || strings.Count(final, "[") != len(won) {
		e.Rep.Violate("cas-lost-update:git", fmt.Sprintf("%d conditional writes reported success but the final manifest records %d of them (%d successful tokens missing): %q", len(won), strings.Count(final, "["), missing, final), k)
		return
	}
	e.Rep.Hit(fmt.Sprintf("gitcas:free:wins=%d", len(won)))
}
