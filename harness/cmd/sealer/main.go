// sealer: correspondence + property oracle for C39 (sealed URLs, file-handler confinement).
//
// Streams:
//   pure   : PathClean.clean vs filepath.Clean, base64/ParseInt models vs the Go standard library
//   seal   : real singleSymmetricKeySealer round trips + every single-field mutation, forged
//            windows (with the extracted key), cross-URL splices; oracle written from the property
//   fh     : the real filehandler under httptest over a temp root with sentinel files outside it
package main

import (
	"bytes"
	"context"
	"crypto/aes"
	"crypto/cipher"
	"crypto/sha256"
	"encoding/base64"
	"encoding/json"
	"fmt"
	"io"
	"net/http"
	"net/http/httptest"
	"net/url"
	"os"
	"path/filepath"
	"reflect"
	"regexp"
	"sort"
	"strconv"
	"strings"
	"time"
	"unsafe"

	"github.com/sirupsen/logrus"

	"github.com/dolthub/dolt/go/libraries/doltcore/remotesrv"
	"github.com/dolthub/dolt/go/libraries/utils/filesys"
	"github.com/dolthub/dolt/go/store/nbs"
	"github.com/dolthub/dolt/go/store/types"

	"verif/harness/internal/hx"
)

const sealedPrefix = "/single_symmetric_key_sealed_request/"

type kase struct {
	Stream string   `json:"stream"`         // pure | seal | fh
	Op     string   `json:"op,omitempty"`   // pure: clean|b64d|pint ; fh: GET|POST
	S      string   `json:"s,omitempty"`    // hex input (pure) / raw request target (fh)
	Path   string   `json:"path,omitempty"` // seal: u.Path (hex)
	RawQ   string   `json:"rawq,omitempty"` // seal: u.RawQuery (hex)
	Path2  string   `json:"path2,omitempty"`
	RawQ2  string   `json:"rawq2,omitempty"`
	Muts   []string `json:"muts,omitempty"` // seal: mutation ids to apply (empty = all)
	Sealed bool     `json:"sealed,omitempty"`
}

// ---------------------------------------------------------------- pure stream

func pureImpl(op string, in []byte) string {
	switch op {
	case "clean":
		return hx.Hex([]byte(filepath.Clean(string(in))))
	case "b64d":
		b, err := base64.RawURLEncoding.DecodeString(string(in))
		if err != nil {
			return "err"
		}
		return "ok " + hx.Hex(b)
	case "b64e":
		return hx.Hex([]byte(base64.RawURLEncoding.EncodeToString(in)))
	case "pint":
		i, err := strconv.ParseInt(string(in), 10, 64)
		if err != nil {
			return "err"
		}
		return fmt.Sprintf("ok %d", i)
	}
	return "bad-op"
}

var segs = []string{"a", "db", "sub", "..", ".", "", "...", "..a", "a..", ".a", "a.", "x y", "é", "..", ".", "", "%2e%2e", "%2f", "..%2f", "%2e", "%2E%2E", "a%2f..", "\x00", "..", "..\\", "store", "outside"}

func genRelPath(r *hx.Rng, pool []string) string {
	n := r.Range(0, 7)
	parts := make([]string, n)
	for i := range parts {
		parts[i] = hx.Pick(r, pool)
	}
	s := strings.Join(parts, "/")
	switch r.Intn(6) {
	case 0:
		s = "/" + s
	case 1:
		s = "//" + s
	}
	switch r.Intn(8) {
	case 0:
		s += "/"
	case 1:
		s += "/."
	case 2:
		s += "/.."
	case 3:
		s += "."
	}
	return s
}

// clean's own documented post-conditions (Go doc of filepath.Clean), used to sanity check the
// *model input space*, not dolt.
func runPure(e *hx.Env, m *hx.Model, k kase) {
	in := hx.Unhex(k.S)
	got := pureImpl(k.Op, in)
	mod := m.Ask(k.Op + " " + k.S)
	e.Rep.Count("pure "+k.Op+" "+k.S, len(in) > 0)
	e.Rep.Hit("pure:" + k.Op)
	if got != mod {
		e.Rep.Disagree(k, got, mod, "standard-library function vs model parameter instance")
	}
}

// ---------------------------------------------------------------- sealer stream

type fields struct {
	Path string
	Q    [][2]string
}

func (f fields) clone() fields {
	q := make([][2]string, len(f.Q))
	copy(q, f.Q)
	return fields{f.Path, q}
}
func (f fields) get(k string) string {
	for _, p := range f.Q {
		if p[0] == k {
			return p[1]
		}
	}
	return ""
}
func (f *fields) set(k, v string) {
	for i, p := range f.Q {
		if p[0] == k {
			f.Q[i][1] = v
			return
		}
	}
	f.Q = append(f.Q, [2]string{k, v})
}
func (f *fields) drop(k string) {
	var q [][2]string
	for _, p := range f.Q {
		if p[0] != k {
			q = append(q, p)
		}
	}
	f.Q = q
}
func (f fields) url() *url.URL {
	var sb strings.Builder
	for i, p := range f.Q {
		if i > 0 {
			sb.WriteByte('&')
		}
		sb.WriteString(url.QueryEscape(p[0]))
		sb.WriteByte('=')
		sb.WriteString(url.QueryEscape(p[1]))
	}
	return &url.URL{Scheme: "http", Host: "h:80", Path: f.Path, RawQuery: sb.String()}
}
func (f fields) wire() string {
	if len(f.Q) == 0 {
		return hx.Hex([]byte(f.Path)) + " -"
	}
	ps := make([]string, len(f.Q))
	for i, p := range f.Q {
		ps[i] = hx.Hex([]byte(p[0])) + "=" + hx.Hex([]byte(p[1]))
	}
	return hx.Hex([]byte(f.Path)) + " " + strings.Join(ps, ",")
}

func fieldsOfURL(u *url.URL) fields {
	f := fields{Path: u.Path}
	// u.Query() loses order across keys; parse RawQuery in order instead
	for _, kv := range strings.Split(u.RawQuery, "&") {
		if kv == "" {
			continue
		}
		k, v, _ := strings.Cut(kv, "=")
		k1, err1 := url.QueryUnescape(k)
		v1, err2 := url.QueryUnescape(v)
		if err1 != nil || err2 != nil {
			continue
		}
		f.Q = append(f.Q, [2]string{k1, v1})
	}
	return f
}

func parseModelFields(resp string) (fields, bool) {
	w := strings.Fields(resp)
	if len(w) != 2 {
		return fields{}, false
	}
	f := fields{Path: string(hx.Unhex(w[0]))}
	if w[1] != "-" {
		for _, kv := range strings.Split(w[1], ",") {
			k, v, ok := strings.Cut(kv, "=")
			if !ok {
				return fields{}, false
			}
			f.Q = append(f.Q, [2]string{string(hx.Unhex(k)), string(hx.Unhex(v))})
		}
	}
	return f, true
}

func errClass(err error) string {
	s := err.Error()
	for _, p := range [][2]string{
		{"does not start with", "bad-prefix"}, {"does not include an nbf", "no-nbf"}, {"does not include an exp", "no-exp"},
		{"does not include a nonce", "no-nonce"}, {"does not include a req", "no-req"}, {"error parsing nbf", "parse-nbf"},
		{"error parsing exp", "parse-exp"}, {"error parsing nonce", "decode-nonce"}, {"nbf is invalid", "nbf-invalid"},
		{"exp is invalid", "exp-invalid"}, {"nonce has an invalid length", "nonce-len"}, {"error parsing req", "decode-req"}, {"error opening sealed url", "open-fail"},
		{"error parsing unsealed request uri", "parse-url"}, {"did not equal request path", "path-mismatch"}} {
		if strings.Contains(s, p[0]) {
			return "err " + p[1]
		}
	}
	return "err other:" + s
}

func implUnseal(s remotesrv.Sealer, u *url.URL) string {
	out := hx.Recover(func() string {
		r, err := s.Unseal(u)
		if err != nil {
			return errClass(err)
		}
		return "ok " + hx.Hex([]byte(r.Path)) + " " + hx.Hex([]byte(r.RawQuery))
	})
	return out
}

// sealerKey reads the unexported key of singleSymmetricKeySealer (no hook in /repo needed).
func sealerKey(s remotesrv.Sealer) []byte {
	v := reflect.ValueOf(s)
	if v.Kind() != reflect.Struct || v.NumField() != 1 || v.Field(0).Kind() != reflect.Slice {
		panic("singleSymmetricKeySealer no longer has the shape {privateKeyBytes []byte}")
	}
	cp := reflect.New(v.Type()).Elem()
	cp.Set(v)
	f := cp.Field(0)
	b := *(*[]byte)(unsafe.Pointer(f.UnsafeAddr()))
	return append([]byte(nil), b...)
}

func gcmOf(key []byte) cipher.AEAD {
	blk, err := aes.NewCipher(key)
	if err != nil {
		panic(err)
	}
	g, err := cipher.NewGCM(blk)
	if err != nil {
		panic(err)
	}
	return g
}

// forge builds a sealed URL the way the documentation of the scheme says, with a chosen window.
func forge(key []byte, ep, rq string, nbf, exp int64, nonce []byte) fields {
	pt := (&url.URL{Path: ep, RawQuery: rq}).String()
	ns, es := strconv.FormatInt(nbf, 10), strconv.FormatInt(exp, 10)
	ct := gcmOf(key).Seal(nil, nonce, []byte(pt), []byte(ns+":"+es))
	return fields{Path: sealedPrefix + ep, Q: [][2]string{{"exp", es}, {"nbf", ns},
		{"nonce", base64.RawURLEncoding.EncodeToString(nonce)}, {"req", base64.RawURLEncoding.EncodeToString(ct)}}}
}

type issued struct {
	stable bool // the net/url law the scheme relies on holds for this URL
	parsed *url.URL
	u    *url.URL
	ep   string
	pt   string
	real fields
	mod  fields
}

func parseEntry(pt string) string {
	p, err := url.Parse(pt)
	if err != nil {
		return hx.Hex([]byte(pt)) + ":!"
	}
	return hx.Hex([]byte(pt)) + ":" + hx.Hex([]byte(p.Path)) + ":" + hx.Hex([]byte(p.EscapedPath())) + ":" + hx.Hex([]byte(p.RawQuery))
}

var pathAtoms = []string{"org", "repo", "db", "a", "my db", "é", "a%2fb", "a%zz", "a:b", "a?b", "a#b", "a+b", "a;b", "..", ".", "", "%2e%2e", "x&y", "a=b", "*", "~u", "a\"b", "a<b", "[v6]", "@h", "a,b", "$", "!", "'", "(", ")"}
var hashNames = []string{"0123456789abcdefghijklmnopqrstuv", "vvvvvvvvvvvvvvvvvvvvvvvvvvvvvvvv", "00000000000000000000000000000000"}

func genSealPath(r *hx.Rng) string {
	if r.Chance(1, 3) { // the shape the gRPC server produces: repo path + file id
		return hx.Pick(r, []string{"org/repo/", "db/", "db/.dolt/noms/", "a/b/c/"}) + hx.Pick(r, hashNames)
	}
	n := r.Range(1, 4)
	parts := make([]string, n)
	for i := range parts {
		parts[i] = hx.Pick(r, pathAtoms)
	}
	s := strings.Join(parts, "/") + "/" + hx.Pick(r, hashNames)
	if r.Chance(1, 6) {
		s = "/" + s
	}
	if r.Chance(1, 12) {
		s = "/" + s
	}
	return s
}

func genRawQuery(r *hx.Rng) string {
	switch r.Intn(5) {
	case 0:
		return ""
	case 1:
		return "num_chunks=3&split_offset=0&content_length=120&content_hash=AAECAwQFBgcICQoLDA0ODw"
	case 2:
		return "a=b%20c&d=%2F&e=x+y"
	case 3:
		return "x=" + hx.Pick(r, []string{"%zz", "a;b", "%C3%A9", "a%23b", "?", "&&", "="})
	}
	return "num_chunks=" + strconv.Itoa(r.Intn(100))
}

// needsEscape: the (documented) reason a path cannot survive the sealer's double use of the
// escaped form: EscapedPath() differs from Path, or URL.String() prefixes "./".
func pathShape(u *url.URL) string {
	ep := u.EscapedPath()
	switch {
	case ep != u.Path:
		return "escaped-path"
	case (&url.URL{Path: ep}).String() != ep:
		return "string-prefixed" // "./" before a first segment with ':'
	case strings.HasPrefix(u.Path, "//"):
		return "double-slash-authority"
	}
	return "plain"
}

type mutation struct {
	id       string
	semantic bool // true = a field the property names really changes => must be rejected
	apply    func(f *fields, other fields, r *hx.Rng) bool
}

func flipChar(s string, i int) string {
	if len(s) == 0 {
		return "A"
	}
	i = i % len(s)
	b := []byte(s)
	const al = "ABCDEFGHIJKLMNOPQRSTUVWXYZabcdefghijklmnopqrstuvwxyz0123456789-_"
	j := strings.IndexByte(al, b[i])
	// change the top bits of the sextet so that real payload bits (never only padding bits) change
	b[i] = al[(j+32)%64]
	if j < 0 {
		b[i] = 'A'
	}
	return string(b)
}

func addInt(s string, d int64) string {
	i, err := strconv.ParseInt(s, 10, 64)
	if err != nil {
		return s + "0"
	}
	return strconv.FormatInt(i+d, 10)
}

var mutations = []mutation{
	// ---- window
	{"nbf+1", true, func(f *fields, _ fields, _ *hx.Rng) bool { f.set("nbf", addInt(f.get("nbf"), 1)); return true }},
	{"nbf-1", true, func(f *fields, _ fields, _ *hx.Rng) bool { f.set("nbf", addInt(f.get("nbf"), -1)); return true }},
	{"nbf-future", true, func(f *fields, _ fields, _ *hx.Rng) bool { f.set("nbf", addInt(f.get("nbf"), 600000)); return true }},
	{"nbf-lead0", true, func(f *fields, _ fields, _ *hx.Rng) bool { f.set("nbf", "0"+f.get("nbf")); return true }},
	{"nbf-plus", true, func(f *fields, _ fields, _ *hx.Rng) bool { f.set("nbf", "+"+f.get("nbf")); return true }},
	{"nbf-junk", true, func(f *fields, _ fields, _ *hx.Rng) bool { f.set("nbf", f.get("nbf")+"x"); return true }},
	{"nbf-empty", true, func(f *fields, _ fields, _ *hx.Rng) bool { f.set("nbf", ""); return true }},
	{"nbf-huge", true, func(f *fields, _ fields, _ *hx.Rng) bool { f.set("nbf", "-9223372036854775809"); return true }},
	{"nbf-min", true, func(f *fields, _ fields, _ *hx.Rng) bool { f.set("nbf", "-9223372036854775808"); return true }},
	{"exp+1", true, func(f *fields, _ fields, _ *hx.Rng) bool { f.set("exp", addInt(f.get("exp"), 1)); return true }},
	{"exp-1", true, func(f *fields, _ fields, _ *hx.Rng) bool { f.set("exp", addInt(f.get("exp"), -1)); return true }},
	{"exp-past", true, func(f *fields, _ fields, _ *hx.Rng) bool { f.set("exp", addInt(f.get("exp"), -1800000)); return true }},
	{"exp-extend", true, func(f *fields, _ fields, _ *hx.Rng) bool { f.set("exp", addInt(f.get("exp"), 86400000)); return true }},
	{"exp-max", true, func(f *fields, _ fields, _ *hx.Rng) bool { f.set("exp", "9223372036854775807"); return true }},
	{"exp-over", true, func(f *fields, _ fields, _ *hx.Rng) bool { f.set("exp", "9223372036854775808"); return true }},
	{"exp-lead0", true, func(f *fields, _ fields, _ *hx.Rng) bool { f.set("exp", "00"+f.get("exp")); return true }},
	{"nbf-exp-swap", true, func(f *fields, _ fields, _ *hx.Rng) bool {
		n, x := f.get("nbf"), f.get("exp")
		f.set("nbf", x)
		f.set("exp", n)
		return true
	}},
	{"window-shift-colon", true, func(f *fields, _ fields, _ *hx.Rng) bool { // try to move the ':' of the AAD
		n, x := f.get("nbf"), f.get("exp")
		f.set("nbf", n+":"+x[:1])
		f.set("exp", x[1:])
		return true
	}},
	// ---- nonce
	{"nonce-flip", true, func(f *fields, _ fields, r *hx.Rng) bool { f.set("nonce", flipChar(f.get("nonce"), r.Intn(16))); return true }},
	{"nonce-trunc", true, func(f *fields, _ fields, r *hx.Rng) bool {
		n := f.get("nonce")
		f.set("nonce", n[:len(n)-hx.Pick(r, []int{2, 3, 4, 8, 16})])
		return true
	}},
	{"nonce-extend", true, func(f *fields, _ fields, _ *hx.Rng) bool { f.set("nonce", f.get("nonce")+"AAAA"); return true }},
	{"nonce-empty", true, func(f *fields, _ fields, _ *hx.Rng) bool { f.set("nonce", ""); return true }},
	{"nonce-badchar", true, func(f *fields, _ fields, _ *hx.Rng) bool { f.set("nonce", "="+f.get("nonce")[1:]); return true }},
	{"nonce-other", true, func(f *fields, o fields, _ *hx.Rng) bool { f.set("nonce", o.get("nonce")); return true }},
	// ---- sealed payload
	{"req-flip", true, func(f *fields, _ fields, r *hx.Rng) bool { f.set("req", flipChar(f.get("req"), r.Intn(1<<20))); return true }},
	{"req-flip-first", true, func(f *fields, _ fields, _ *hx.Rng) bool { f.set("req", flipChar(f.get("req"), 0)); return true }},
	{"req-trunc4", true, func(f *fields, _ fields, _ *hx.Rng) bool { q := f.get("req"); f.set("req", q[:len(q)-4]); return true }},
	{"req-trunc-tag", true, func(f *fields, _ fields, _ *hx.Rng) bool {
		q := f.get("req")
		if len(q) < 28 {
			return false
		}
		f.set("req", q[:len(q)-24])
		return true
	}},
	{"req-extend", true, func(f *fields, _ fields, _ *hx.Rng) bool { f.set("req", f.get("req")+"AAAA"); return true }},
	{"req-empty", true, func(f *fields, _ fields, _ *hx.Rng) bool { f.set("req", ""); return true }},
	{"req-badchar", true, func(f *fields, _ fields, _ *hx.Rng) bool { f.set("req", f.get("req")+"="); return true }},
	{"req-other", true, func(f *fields, o fields, _ *hx.Rng) bool { f.set("req", o.get("req")); return true }},
	{"req+nonce-other", true, func(f *fields, o fields, _ *hx.Rng) bool {
		f.set("req", o.get("req"))
		f.set("nonce", o.get("nonce"))
		return o.Path != f.Path // with equal paths this is simply the other issued URL
	}},
	{"all-query-other", true, func(f *fields, o fields, _ *hx.Rng) bool { // other URL's whole query under this path
		f.Q = o.clone().Q
		return o.Path != f.Path
	}},
	// ---- path
	{"path-append", true, func(f *fields, _ fields, _ *hx.Rng) bool { f.Path += "x"; return true }},
	{"path-dotdot", true, func(f *fields, _ fields, _ *hx.Rng) bool {
		f.Path = sealedPrefix + "../" + strings.TrimPrefix(f.Path, sealedPrefix)
		return true
	}},
	{"path-slash", true, func(f *fields, _ fields, _ *hx.Rng) bool { f.Path += "/"; return true }},
	{"path-dotseg", true, func(f *fields, _ fields, _ *hx.Rng) bool {
		f.Path = sealedPrefix + "./" + strings.TrimPrefix(f.Path, sealedPrefix)
		return true
	}},
	{"path-lastchar", true, func(f *fields, _ fields, _ *hx.Rng) bool {
		b := []byte(f.Path)
		if b[len(b)-1] == 'v' {
			b[len(b)-1] = 'u'
		} else {
			b[len(b)-1] = 'v'
		}
		f.Path = string(b)
		return true
	}},
	{"path-other", true, func(f *fields, o fields, _ *hx.Rng) bool { f.Path = o.Path; return o.Path != f.Path }},
	{"path-noprefix", true, func(f *fields, _ fields, _ *hx.Rng) bool { f.Path = "/" + strings.TrimPrefix(f.Path, sealedPrefix); return true }},
	{"path-prefix-case", true, func(f *fields, _ fields, _ *hx.Rng) bool {
		f.Path = strings.ToUpper(sealedPrefix) + strings.TrimPrefix(f.Path, sealedPrefix)
		return true
	}},
	{"path-unescape", true, func(f *fields, _ fields, _ *hx.Rng) bool { // decode the escaped form once more
		p, err := url.PathUnescape(strings.TrimPrefix(f.Path, sealedPrefix))
		if err != nil || sealedPrefix+p == f.Path {
			return false
		}
		f.Path = sealedPrefix + p
		return true
	}},
	// ---- dropped fields
	{"drop-nbf", true, func(f *fields, _ fields, _ *hx.Rng) bool { f.drop("nbf"); return true }},
	{"drop-exp", true, func(f *fields, _ fields, _ *hx.Rng) bool { f.drop("exp"); return true }},
	{"drop-nonce", true, func(f *fields, _ fields, _ *hx.Rng) bool { f.drop("nonce"); return true }},
	{"drop-req", true, func(f *fields, _ fields, _ *hx.Rng) bool { f.drop("req"); return true }},
	// ---- a second value *before* the genuine one (Get returns the first): a real change
	{"shadow-nbf", true, func(f *fields, _ fields, _ *hx.Rng) bool {
		f.Q = append([][2]string{{"nbf", addInt(f.get("nbf"), -5)}}, f.Q...)
		return true
	}},
	{"shadow-exp", true, func(f *fields, _ fields, _ *hx.Rng) bool {
		f.Q = append([][2]string{{"exp", addInt(f.get("exp"), 999999)}}, f.Q...)
		return true
	}},
	// ---- changes that do not change any authenticated value: must be rejected or give the SAME request
	{"benign-extra-param", false, func(f *fields, _ fields, _ *hx.Rng) bool { f.Q = append(f.Q, [2]string{"zzz", "1"}); return true }},
	{"benign-dup-after", false, func(f *fields, _ fields, _ *hx.Rng) bool { f.Q = append(f.Q, [2]string{"exp", "1"}, [2]string{"nbf", "99999999999999"}); return true }},
	{"benign-req-newline", false, func(f *fields, _ fields, _ *hx.Rng) bool { q := f.get("req"); f.set("req", q[:5]+"\n"+q[5:]+"\r\n"); return true }},
	{"benign-nonce-newline", false, func(f *fields, _ fields, _ *hx.Rng) bool { f.set("nonce", f.get("nonce")+"\n"); return true }},
	{"benign-req-padbits", false, func(f *fields, _ fields, _ *hx.Rng) bool {
		q := f.get("req")
		const al = "ABCDEFGHIJKLMNOPQRSTUVWXYZabcdefghijklmnopqrstuvwxyz0123456789-_"
		if len(q)%4 == 0 {
			return false
		}
		j := strings.IndexByte(al, q[len(q)-1])
		f.set("req", q[:len(q)-1]+string(al[j|1])) // set a padding bit of the last sextet
		return al[j|1] != q[len(q)-1]
	}},
	{"identity", false, func(f *fields, _ fields, _ *hx.Rng) bool { return true }},
}

func runSeal(e *hx.Env, m *hx.Model, s remotesrv.Sealer, key []byte, k kase) {
	r := e.Rng.Fork()
	mk := func(p, q string) *url.URL {
		return &url.URL{Scheme: "http", Host: "h:80", Path: string(hx.Unhex(p)), RawQuery: string(hx.Unhex(q))}
	}
	us := []*url.URL{mk(k.Path, k.RawQ), mk(k.Path2, k.RawQ2)}
	keyHex := hx.Hex(key)
	var iss []issued
	for _, u := range us {
		t0 := time.Now().UnixMilli()
		su, err := s.Seal(u)
		t1 := time.Now().UnixMilli()
		if err != nil {
			e.Rep.Violate("seal-error", "Seal failed: "+err.Error(), k)
			return
		}
		rf := fieldsOfURL(su)
		is := issued{u: u, ep: u.EscapedPath(), real: rf}
		is.pt = (&url.URL{Path: is.ep, RawQuery: u.RawQuery}).String()
		// ---- oracle on Seal's output, from the documented scheme (independent AES-GCM with the key)
		nonce, err1 := base64.RawURLEncoding.DecodeString(rf.get("nonce"))
		ct, err2 := base64.RawURLEncoding.DecodeString(rf.get("req"))
		nbf, err3 := strconv.ParseInt(rf.get("nbf"), 10, 64)
		exp, err4 := strconv.ParseInt(rf.get("exp"), 10, 64)
		if err1 != nil || err2 != nil || err3 != nil || err4 != nil || len(nonce) != 12 || len(rf.Q) != 4 {
			e.Rep.Violate("seal-shape", fmt.Sprintf("sealed URL lacks well-formed exp/nbf/nonce/req: %v", rf), k)
			return
		}
		if !(t0-10000-5 <= nbf && nbf <= t1-10000+5) || !(t0+900000-5 <= exp && exp <= t1+900000+5) {
			e.Rep.Violate("seal-window", fmt.Sprintf("window [%d,%d] is not [now-10s, now+15min] for now in [%d,%d]", nbf, exp, t0, t1), k)
		}
		pt, err := gcmOf(key).Open(nil, nonce, ct, []byte(rf.get("nbf")+":"+rf.get("exp")))
		if err != nil {
			e.Rep.Violate("seal-aad", "req does not open under AES-256-GCM with AAD nbf:exp", k)
			return
		}
		if !strings.HasPrefix(rf.Path, sealedPrefix) {
			e.Rep.Violate("seal-prefix", "sealed path lacks the prefix", k)
		}
		// ---- model seal with the same nonce and the same two clock reads (nbf + 10 s, exp - 15 min)
		resp := m.Ask(fmt.Sprintf("seal %s %d %d %s %s %s %s", keyHex, nbf+10000, exp-900000, hx.Hex(nonce), hx.Hex([]byte(is.ep)), hx.Hex([]byte(u.RawQuery)), hx.Hex([]byte(is.pt))))
		mf, ok := parseModelFields(resp)
		if !ok {
			e.Rep.Disagree(k, "seal", resp, "model seal did not answer")
			return
		}
		is.mod = mf
		if string(pt) != is.pt {
			e.Rep.Disagree(k, "plaintext "+string(pt), "plaintext "+is.pt, "sealed plaintext is not URL{EscapedPath,RawQuery}.String()")
		}
		if mf.Path != rf.Path || mf.get("nbf") != rf.get("nbf") || mf.get("exp") != rf.get("exp") || mf.get("nonce") != rf.get("nonce") || len(mf.Q) != len(rf.Q) {
			e.Rep.Disagree(k, fmt.Sprint(rf), fmt.Sprint(mf), "sealed URL fields (all but req) differ")
		}
		for i := range rf.Q {
			if i < len(mf.Q) && rf.Q[i][0] != mf.Q[i][0] {
				e.Rep.Disagree(k, fmt.Sprint(rf.Q), fmt.Sprint(mf.Q), "query key order")
			}
		}
		if p, err := url.Parse(is.pt); err == nil {
			is.parsed = p
			is.stable = p.EscapedPath() == is.ep && p.Path == u.Path && p.RawQuery == u.RawQuery
		}
		iss = append(iss, is)
	}
	table := parseEntry(iss[0].pt) + "," + parseEntry(iss[1].pt)
	now := time.Now().UnixMilli()
	askModel := func(f fields) string {
		return m.Ask(fmt.Sprintf("unseal %s %d %s %s", keyHex, now, f.wire(), table))
	}
	want := func(is issued) string { return "ok " + hx.Hex([]byte(is.u.Path)) + " " + hx.Hex([]byte(is.u.RawQuery)) }
	// the set of requests the server really issued, by outer path
	accepted := func(got string, f fields) (bool, string) {
		if !strings.HasPrefix(got, "ok ") {
			return true, ""
		}
		for _, is := range iss {
			if got == want(is) && f.Path == sealedPrefix+is.ep {
				return true, ""
			}
			// what the scheme binds when the net/url law fails (finding D1): the parsed plaintext
			if !is.stable && is.parsed != nil && f.Path == sealedPrefix+is.parsed.EscapedPath() &&
				got == "ok "+hx.Hex([]byte(is.parsed.Path))+" "+hx.Hex([]byte(is.parsed.RawQuery)) {
				return true, "unstable"
			}
		}
		return false, "Unseal accepted a URL and returned a request that was never issued for that path: " + got
	}

	// ---- round trip (both in memory and across String()/Parse, as over HTTP)
	for i, is := range iss {
		shape := pathShape(is.u)
		e.Rep.Hit("seal:shape:" + shape)
		direct := implUnseal(s, is.real.url())
		wireU, err := url.Parse(is.real.url().String())
		viaWire := "wire-parse-error"
		if err == nil {
			viaWire = implUnseal(s, wireU)
		}
		mod := askModel(is.mod)
		e.Rep.Count(fmt.Sprintf("seal rt %s %s", hx.Hex([]byte(is.u.Path)), hx.Hex([]byte(is.u.RawQuery))), shape != "plain" || is.u.RawQuery != "")
		e.Rep.Sample(map[string]string{"path": is.u.Path, "rawq": is.u.RawQuery, "impl": direct, "model": mod})
		if direct != viaWire {
			e.Rep.Disagree(k, direct, viaWire, "net/url law: String()/Parse of a sealed URL preserves (Path, Query())")
		}
		if direct != want(is) {
			kk := kase{Stream: "seal", Path: hx.Hex([]byte(is.u.Path)), RawQ: hx.Hex([]byte(is.u.RawQuery)), Path2: hx.Hex([]byte("a/" + hashNames[0])), Muts: []string{"identity"}}
			if !is.stable && (direct == "err path-mismatch" || direct == "err parse-url") {
				e.Rep.Known("unseal-seal-escaped-path", fmt.Sprintf("Unseal(Seal(u)) fails with %q for u.Path=%q (shape %s): a sealed URL does not unseal to the original request", direct, is.u.Path, shape), kk)
			} else {
				e.Rep.Violate("roundtrip:"+shape, fmt.Sprintf("Unseal(Seal(u)) = %s, want %s (u.Path=%q RawQuery=%q)", direct, want(is), is.u.Path, is.u.RawQuery), kk)
			}
		}
		if direct != mod {
			e.Rep.Disagree(k, direct, mod, fmt.Sprintf("round trip of URL %d", i))
		}
	}

	// ---- single-field mutations of the first sealed URL (the second one provides splice material)
	base, other := iss[0], iss[1]
	baseOK := implUnseal(s, base.real.url()) == want(base)
	for _, mu := range mutations {
		if len(k.Muts) > 0 && !contains(k.Muts, mu.id) {
			continue
		}
		rf, mf := base.real.clone(), base.mod.clone()
		seed := r.U64()
		if !mu.apply(&rf, other.real, hx.NewRng(seed)) {
			continue
		}
		mu.apply(&mf, other.mod, hx.NewRng(seed))
		got := implUnseal(s, rf.url())
		mod := askModel(mf)
		e.Rep.Count("seal mut "+mu.id+" "+k.Path+" "+k.RawQ, true)
		e.Rep.Hit("seal:mut:" + mu.id + ":" + cls(got))
		kk := k
		kk.Muts = []string{mu.id}
		ok, what := accepted(got, rf)
		if !ok {
			e.Rep.Violate("forged:"+mu.id, what, kk)
			continue
		}
		if what == "unstable" {
			e.Rep.Known("unseal-seal-escaped-path", fmt.Sprintf("for u.Path=%q the sealed plaintext %q re-parses to a different path, and Unseal accepts the outer path %q instead of the issued one", base.u.Path, base.pt, rf.Path), kk)
			if got != mod {
				e.Rep.Disagree(kk, got, mod, "mutation "+mu.id)
			}
			continue
		}
		if mu.semantic && strings.HasPrefix(got, "ok ") {
			// a spliced-in field of the *other issued* URL may legitimately yield that other URL
			e.Rep.Violate("tamper-accepted:"+mu.id, "mutated sealed URL ("+mu.id+") was accepted: "+got, kk)
			continue
		}
		if !mu.semantic && baseOK && got != want(base) && strings.HasPrefix(got, "ok ") {
			e.Rep.Violate("benign-changed:"+mu.id, "encoding-only change returned a different request: "+got, kk)
			continue
		}
		if strings.HasPrefix(got, "panic") && strings.Contains(got, "incorrect nonce length") {
			// repaired in /repo (fix: Unseal rejects a nonce of the wrong length); a violation if it returns
			e.Rep.Violate("unseal-panic-nonce-length", "Unseal panics (crypto/cipher: incorrect nonce length given to GCM) instead of returning an error when the nonce parameter does not decode to 12 bytes", kk)
			continue
		} else if strings.HasPrefix(got, "panic") || strings.HasPrefix(got, "err other") {
			e.Rep.Violate("unseal-unexpected:"+mu.id, got, kk)
			continue
		}
		if got != mod {
			e.Rep.Disagree(kk, got, mod, "mutation "+mu.id)
		}
	}

	// ---- use outside the window: URLs forged with the real key (valid tags), shifted windows
	if len(k.Muts) == 0 || contains(k.Muts, "window") {
		for _, w := range []struct {
			id    string
			shift int64
			okk   bool
		}{{"valid", 0, true}, {"expired", -(900000 + 60000), false}, {"expired-long", -86400000, false}, {"not-yet", 10000 + 60000, false}, {"just-valid-old", -(900000 - 60000), true}, {"just-valid-new", 10000 - 5000, true}} {
			nonce := r.Bytes(12)
			tn := now + w.shift
			rf := forge(key, base.ep, base.u.RawQuery, tn-10000, tn+900000, nonce)
			resp := m.Ask(fmt.Sprintf("seal %s %d %d %s %s %s %s", keyHex, tn, tn, hx.Hex(nonce), hx.Hex([]byte(base.ep)), hx.Hex([]byte(base.u.RawQuery)), hx.Hex([]byte(base.pt))))
			mf, _ := parseModelFields(resp)
			got := implUnseal(s, rf.url())
			mod := askModel(mf)
			e.Rep.Count("seal window "+w.id+" "+k.Path, true)
			e.Rep.Hit("seal:window:" + w.id + ":" + strings.Fields(got)[0])
			kk := k
			kk.Muts = []string{"window"}
			if !w.okk && strings.HasPrefix(got, "ok ") {
				e.Rep.Violate("window:"+w.id, "a correctly sealed URL was accepted outside its validity window ("+w.id+")", kk)
			} else if w.okk && baseOK && got != want(base) {
				e.Rep.Violate("window:"+w.id, "a correctly sealed URL inside its window was not unsealed to the request: "+got, kk)
			} else if got != mod {
				e.Rep.Disagree(kk, got, mod, "window "+w.id)
			}
		}
	}
}

func cls(got string) string {
	w := strings.Fields(got)
	if len(w) >= 2 && w[0] == "err" {
		return w[1]
	}
	if len(w) > 0 {
		return w[0]
	}
	return "?"
}

func contains(xs []string, x string) bool {
	for _, y := range xs {
		if x == y {
			return true
		}
	}
	return false
}

// ---------------------------------------------------------------- file-handler stream

type passSealer struct{}

func (passSealer) Seal(u *url.URL) (*url.URL, error)   { return u, nil }
func (passSealer) Unseal(u *url.URL) (*url.URL, error) { return u, nil }

type recCache struct {
	cs    remotesrv.RemoteSrvStore
	paths []string
}

func (c *recCache) Get(_ context.Context, path, _ string) (remotesrv.RemoteSrvStore, error) {
	c.paths = append(c.paths, path)
	return c.cs, nil
}

type world struct {
	base, root, store string
	handler           http.Handler
	sealed            http.Handler
	sealer            remotesrv.Sealer
	cache             *recCache
	hashes            []string
	sentinel          string
}

var hashRe = regexp.MustCompile(`\A[0-9a-v]{32}(\.darc)?\z`)

const sentinelBody = "SENTINEL-OUTSIDE-ROOT-c39"

func mustWrite(p, body string) {
	if err := os.MkdirAll(filepath.Dir(p), 0o755); err != nil {
		panic(err)
	}
	if err := os.WriteFile(p, []byte(body), 0o644); err != nil {
		panic(err)
	}
}

func newWorld(e *hx.Env) *world {
	w := &world{base: filepath.Join(e.Scratch, "fh")}
	w.root = filepath.Join(w.base, "root")
	w.store = filepath.Join(w.root, "store")
	h1, h2, h3 := hashNames[0], hashNames[1], hashNames[2]
	w.hashes = []string{h1, h2, h3}
	w.sentinel = "ssssssssssssssssssssssssssssssss"
	mustWrite(filepath.Join(w.root, "db", h1), "IN:db/"+h1)
	mustWrite(filepath.Join(w.root, "db", h2+".darc"), "IN:db/"+h2+".darc")
	mustWrite(filepath.Join(w.root, "db", "sub", h3), "IN:db/sub/"+h3)
	mustWrite(filepath.Join(w.root, "db", "notahash"), "IN:db/notahash")
	mustWrite(filepath.Join(w.root, h1), "IN:"+h1)
	mustWrite(filepath.Join(w.root, "..a", h1), "IN:..a/"+h1)
	// outside the root: same names, so that an escaping request would find something
	mustWrite(filepath.Join(w.base, w.sentinel), sentinelBody)
	mustWrite(filepath.Join(w.base, h1), sentinelBody)
	mustWrite(filepath.Join(w.base, "outside", h1), sentinelBody)
	mustWrite(filepath.Join(w.base, "outside", w.sentinel), sentinelBody)
	mustWrite(filepath.Join(w.base, "db", h1), sentinelBody)
	mustWrite(filepath.Join(w.base, "root2", "db", h1), sentinelBody)
	if err := os.MkdirAll(w.store, 0o755); err != nil {
		panic(err)
	}
	fs, err := filesys.LocalFilesysWithWorkingDir(w.root)
	if err != nil {
		panic(err)
	}
	cs, err := nbs.NewLocalStore(context.Background(), types.Format_DOLT.VersionString(), w.store, 1<<20, nbs.NewUnlimitedMemQuotaProvider(), false)
	if err != nil {
		panic(err)
	}
	w.cache = &recCache{cs: cs}
	lg := logrus.New()
	lg.SetOutput(io.Discard)
	w.handler = remotesrv.NewFileHandler(logrus.NewEntry(lg), w.cache, fs, false, passSealer{}, false)
	w.sealer, err = remotesrv.NewSingleSymmetricKeySealer()
	if err != nil {
		panic(err)
	}
	w.sealed = remotesrv.NewFileHandler(logrus.NewEntry(lg), w.cache, fs, false, w.sealer, false)
	return w
}

// snapshot of everything under dir: relative path -> sha256 of content ("dir" for directories)
func snapshot(dir string, skip string) map[string]string {
	out := map[string]string{}
	filepath.Walk(dir, func(p string, info os.FileInfo, err error) error {
		if err != nil {
			return nil
		}
		if skip != "" && (p == skip || strings.HasPrefix(p, skip+"/")) {
			if info.IsDir() {
				return filepath.SkipDir
			}
			return nil
		}
		rel, _ := filepath.Rel(dir, p)
		if info.IsDir() {
			out[rel] = "dir"
			return nil
		}
		b, _ := os.ReadFile(p)
		h := sha256.Sum256(b)
		out[rel] = fmt.Sprintf("%x", h[:8])
		return nil
	})
	return out
}

func diffSnap(a, b map[string]string) []string {
	var d []string
	for k, v := range a {
		if b[k] != v {
			d = append(d, k)
		}
	}
	for k := range b {
		if _, ok := a[k]; !ok {
			d = append(d, "+"+k)
		}
	}
	sort.Strings(d)
	return d
}

// lexicalResolve: the kernel's path walk without symlinks, relative to the root: the list of
// components below the root, or ok=false when the walk steps above the root at any point.
func lexicalResolve(p string) (comps []string, ok bool) {
	for _, c := range strings.Split(p, "/") {
		switch c {
		case "", ".":
		case "..":
			if len(comps) == 0 {
				return nil, false
			}
			comps = comps[:len(comps)-1]
		default:
			comps = append(comps, c)
		}
	}
	return comps, true
}

var fhSegs = []string{"db", "sub", "..", ".", "", "..", "%2e%2e", "%2f", "..%2f", "%2e", "%2E%2e", "...", "..a", "a..", "store", "outside", "root", "root2", "notahash", "x"}

func genTarget(r *hx.Rng, w *world) string {
	names := []string{w.hashes[0], w.hashes[1], w.hashes[2], w.hashes[1] + ".darc", w.hashes[0] + ".darc", w.sentinel, w.hashes[0] + ".darc.darc", w.hashes[0] + "x", w.hashes[0][:31], strings.ToUpper(w.hashes[0][10:]) + w.hashes[0][:10], "notahash", "wwwwwwwwwwwwwwwwwwwwwwwwwwwwwwww", w.hashes[0] + "%2f..", "..", w.hashes[0] + "/", w.hashes[0] + "/.", w.hashes[0] + "/..", w.hashes[0] + "%00", ".darc", w.hashes[0] + "\n"}
	n := r.Range(0, 6)
	parts := make([]string, 0, n+1)
	for i := 0; i < n; i++ {
		parts = append(parts, hx.Pick(r, fhSegs))
	}
	if r.Chance(1, 2) && n > 0 {
		// bias: a real directory first, so that many requests are well-formed
		parts[0] = "db"
	}
	parts = append(parts, hx.Pick(r, names))
	s := strings.Join(parts, "/")
	s = strings.Repeat("/", hx.Pick(r, []int{1, 1, 1, 2, 3})) + s
	s = strings.ReplaceAll(s, "\n", "%0a")
	return s
}

func runFH(e *hx.Env, m *hx.Model, w *world, k kase) {
	target := k.S
	method := k.Op
	q := ""
	body := "table-file-bytes-" + target
	if method == "POST" || method == "PUT" {
		q = "?num_chunks=1&content_length=" + strconv.Itoa(len(body))
	}
	u, err := url.Parse("http://h" + target + q)
	if err != nil {
		e.Rep.Hit("fh:unparseable-target")
		return
	}
	decoded := u.Path
	h := w.handler
	unsealable := false
	if k.Sealed {
		pt := (&url.URL{Path: u.EscapedPath(), RawQuery: u.RawQuery}).String()
		p, perr := url.Parse(pt)
		unsealable = perr != nil || p.EscapedPath() != u.EscapedPath() || p.Path != u.Path || p.RawQuery != u.RawQuery
		su, err := w.sealer.Seal(u)
		if err != nil {
			return
		}
		u, err = url.Parse(su.String())
		if err != nil {
			return
		}
		h = w.sealed
	}
	req := httptest.NewRequest(method, "http://h/", strings.NewReader(body))
	req.URL = u
	req.RequestURI = u.RequestURI()
	before := snapshot(w.base, w.root)
	inBefore := snapshot(w.root, "")
	w.cache.paths = nil
	rec := httptest.NewRecorder()
	pan := hx.Recover(func() string { h.ServeHTTP(rec, req); return "" })
	after := snapshot(w.base, w.root)
	inAfter := snapshot(w.root, "")
	status := rec.Code
	got := fmt.Sprintf("%d", status)
	if pan != "" {
		got = pan
	}
	respBody := rec.Body.Bytes()

	// ---------------- the property's own oracle, on the implementation
	nontrivial := strings.Contains(decoded, "..") || strings.Contains(target, "%") || strings.Contains(decoded, "//")
	e.Rep.Count("fh "+method+" "+target+fmt.Sprint(k.Sealed), nontrivial)
	key := "fh-" + method
	if d := diffSnap(before, after); len(d) > 0 {
		e.Rep.Violate(key+"-wrote-outside-root", fmt.Sprintf("%s %q changed files outside the root: %v", method, target, d), k)
		// restore the sentinels so that later cases are not polluted
		mustWrite(filepath.Join(w.base, w.sentinel), sentinelBody)
	}
	if bytes.Contains(respBody, []byte(sentinelBody)) {
		e.Rep.Violate(key+"-read-outside-root", fmt.Sprintf("%s %q returned the content of a file outside the root", method, target), k)
	}
	newIn := diffSnap(inBefore, inAfter)
	for _, d := range newIn {
		name := strings.TrimPrefix(d, "+")
		if name == "store" || name == "store/LOCK" || name == "store/manifest" {
			continue // store bookkeeping
		}
		if (method == "POST" || method == "PUT") && strings.HasPrefix(name, "store/") && hashRe.MatchString(strings.TrimPrefix(name, "store/")) {
			continue
		}
		e.Rep.Violate(key+"-wrote-non-table-file", fmt.Sprintf("%s %q created/changed %q inside the root (not a hash-named table file in the store)", method, target, d), k)
	}
	if method == "GET" && len(newIn) > 0 {
		e.Rep.Violate(key+"-wrote", fmt.Sprintf("GET %q changed files: %v", target, newIn), k)
	}
	comps, inside := lexicalResolve(strings.TrimLeft(decoded, "/"))
	if method == "GET" && (status == 200 || status == 206) {
		// what was served must be the file the path lexically denotes below the root, hash-named
		if !inside || len(comps) < 2 || !hashRe.MatchString(comps[len(comps)-1]) {
			e.Rep.Violate(key+"-served-bad-path", fmt.Sprintf("GET %q -> %d but the path leaves the root / is not <dir>/<hash>", target, status), k)
		} else {
			want, err := os.ReadFile(filepath.Join(append([]string{w.root}, comps...)...))
			if err != nil || !bytes.Equal(want, respBody) {
				e.Rep.Violate(key+"-served-wrong-file", fmt.Sprintf("GET %q -> %d with a body that is not root/%s", target, status, strings.Join(comps, "/")), k)
			}
		}
	}
	if (method == "POST" || method == "PUT") && status == 200 {
		i := strings.LastIndex(decoded, "/")
		f := decoded[i+1:]
		if !hashRe.MatchString(f) {
			e.Rep.Violate(key+"-accepted-bad-name", fmt.Sprintf("%s %q -> 200 with file name %q", method, target, f), k)
		} else if b, err := os.ReadFile(filepath.Join(w.store, f)); err != nil || string(b) != body {
			e.Rep.Violate(key+"-lost-upload", fmt.Sprintf("%s %q -> 200 but store/%s does not hold the body", method, target, f), k)
		}
	}
	if pan != "" {
		e.Rep.Violate(key+"-panic", fmt.Sprintf("%s %q: %s", method, target, pan), k)
	}

	// ---------------- correspondence with the model's path logic
	var mod, impl string
	if unsealable {
		// round trip through the sealer is known to fail for such paths (finding D1): 400
		e.Rep.Hit("fh:sealed-unsealable")
		if status != 400 {
			e.Rep.Disagree(k, got, "400", "sealed request with a path that needs escaping")
		}
		return
	}
	switch method {
	case "GET":
		mod = m.Ask("get " + hx.Hex([]byte(decoded)))
		switch {
		case status == 400:
			impl = "reject"
		case status == 404:
			impl = "serve-missing"
		case status == 500:
			impl = "serve-error"
		case status == 200:
			impl = "serve " + hx.Hex([]byte(strings.Join(comps, "/")))
			if !inside {
				impl = "serve-outside"
			}
		default:
			impl = got
		}
		if strings.HasPrefix(mod, "serve ") {
			rel := string(hx.Unhex(strings.TrimPrefix(mod, "serve ")))
			if st, err := os.Stat(filepath.Join(w.root, rel)); err != nil && !os.IsNotExist(err) {
				mod = "serve-error" // e.g. ENOTDIR: a path component is a regular file
			} else if err != nil {
				mod = "serve-missing"
			} else if st.IsDir() {
				mod = "serve-dir"
			} else {
				mod = "serve " + hx.Hex([]byte(rel))
			}
		} else {
			mod = "reject"
		}
		e.Rep.Hit("fh:GET:" + strings.Fields(impl)[0])
	default:
		mod = m.Ask("post " + hx.Hex([]byte(decoded)))
		switch {
		case status == 404:
			impl = "notfound"
		case status == 200 && len(w.cache.paths) == 1:
			i := strings.LastIndex(decoded, "/")
			impl = "write " + hx.Hex([]byte(w.cache.paths[0])) + " " + hx.Hex([]byte(decoded[i+1:]))
		default:
			impl = got + " " + fmt.Sprint(w.cache.paths)
		}
		e.Rep.Hit("fh:" + method + ":" + strings.Fields(impl)[0])
	}
	e.Rep.Sample(map[string]string{"method": method, "target": target, "impl": impl, "model": mod})
	if impl != mod {
		e.Rep.Disagree(k, impl, mod, "file handler path logic on decoded path "+strconv.Quote(decoded))
	}
	// keep the store small
	if ents, _ := os.ReadDir(w.store); len(ents) > 40 {
		for _, en := range ents {
			if hashRe.MatchString(en.Name()) {
				os.Remove(filepath.Join(w.store, en.Name()))
			}
		}
	}
}

// ---------------------------------------------------------------- main

func runCase(e *hx.Env, m *hx.Model, w *world, s remotesrv.Sealer, key []byte, k kase) {
	switch k.Stream {
	case "pure":
		runPure(e, m, k)
	case "seal":
		runSeal(e, m, s, key, k)
	case "fh":
		runFH(e, m, w, k)
	}
}

func main() {
	e := hx.Init("sealer", "C39")
	defer e.Finish()
	e.Rep.Rule = "pure: path/base64/int strings from grammars (dot segments, doubled slashes, trailing dots, encoded separators); seal: URLs = path atoms (plain, spaces, non-ASCII, %-sequences, ':', '?', '#', '..') + hash name, with queries, each with the round trip, 55 single-field mutations (window, nonce, payload, path, dropped/shadowed/benign parameters, splices from a second sealed URL) and 6 forged windows; fh: GET/POST/PUT targets from a traversal grammar (.., %2e%2e, %2f, //, trailing dots, hash-like and non-hash names) against a root with sentinels outside; nontrivial = contains a dot segment, an escape, a doubled slash or a mutation; distinct by full case"
	m := e.MustModel()
	defer m.Close()
	s, err := remotesrv.NewSingleSymmetricKeySealer()
	if err != nil {
		panic(err)
	}
	key := sealerKey(s)
	if len(key) != 32 {
		panic("sealer key is not 32 bytes")
	}
	w := newWorld(e)

	if e.Replay != "" {
		rf, err := hx.LoadReplay(e.Replay)
		if err != nil {
			panic(err)
		}
		var k kase
		json.Unmarshal(rf.Case, &k)
		runCase(e, m, w, s, key, k)
		return
	}
	for _, raw := range e.CorpusCases() {
		var k kase
		if json.Unmarshal(raw, &k) == nil {
			runCase(e, m, w, s, key, k)
		}
	}
	r := e.Rng
	// pure
	for i, n := 0, e.N(6000, 200000); i < n; i++ {
		switch r.Intn(10) {
		case 0, 1, 2, 3, 4, 5:
			p := genRelPath(r, segs)
			p = strings.ReplaceAll(p, "\x00", "z")
			runPure(e, m, kase{Stream: "pure", Op: "clean", S: hx.Hex([]byte(p))})
		case 6, 7:
			b := r.Bytes(r.Intn(20))
			enc := base64.RawURLEncoding.EncodeToString(b)
			switch r.Intn(6) {
			case 0:
				enc = flipChar(enc, r.Intn(40))
			case 1:
				enc += hx.Pick(r, []string{"=", "A", "\n", "\r\n", "+", "/", " "})
			case 2:
				if len(enc) > 0 {
					enc = enc[:len(enc)-1]
				}
			case 3:
				i := r.Intn(len(enc) + 1)
				enc = enc[:i] + hx.Pick(r, []string{"\n", "\r", "=", "*"}) + enc[i:]
			}
			runPure(e, m, kase{Stream: "pure", Op: "b64d", S: hx.Hex([]byte(enc))})
			runPure(e, m, kase{Stream: "pure", Op: "b64e", S: hx.Hex(b)})
		default:
			s := hx.Pick(r, []string{"", "+", "-", "0", "-0", "+0", "007", "9223372036854775807", "9223372036854775808", "-9223372036854775808", "-9223372036854775809", "1_000", "0x10", " 1", "1 ", "1e3", "١", "18446744073709551616", "99999999999999999999999999"})
			if r.Chance(1, 2) {
				s = strconv.FormatInt(int64(r.U64()), 10)
				if r.Chance(1, 4) {
					s = "+" + strings.TrimPrefix(s, "-")
				}
			}
			runPure(e, m, kase{Stream: "pure", Op: "pint", S: hx.Hex([]byte(s))})
		}
	}
	// sealer
	for i, n := 0, e.N(250, 6000); i < n; i++ {
		k := kase{Stream: "seal", Path: hx.Hex([]byte(genSealPath(r))), RawQ: hx.Hex([]byte(genRawQuery(r))),
			Path2: hx.Hex([]byte(genSealPath(r))), RawQ2: hx.Hex([]byte(genRawQuery(r)))}
		if r.Chance(1, 4) { // same path, different query: splices stay on the same outer path
			k.Path2 = k.Path
		}
		runSeal(e, m, s, key, k)
	}
	// file handler
	for i, n := 0, e.N(2500, 60000); i < n; i++ {
		k := kase{Stream: "fh", Op: hx.Pick(r, []string{"GET", "GET", "GET", "POST", "PUT"}), S: genTarget(r, w)}
		k.Sealed = r.Chance(1, 5)
		runFH(e, m, w, k)
	}
}
