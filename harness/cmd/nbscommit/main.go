// nbscommit: correspondence + property oracle for C02 (root commit is an atomic compare-and-swap and
// acknowledged commits persist).  K ≤ 4 real NomsBlockStore handles on one directory (file manifest:
// genuine cross-handle CAS through the LOCK file) plus a journal store with reopen; seeded op
// sequences; other handles' operations nested inside manifest.Update (write hook, under the LOCK) and
// before manifest reads (read hook); after every step a fresh open's Root(), each handle's Root() and
// the readability of every chunk put before a successful commit are checked against a register oracle
// built from the implementation's observations only, and every answer is compared with the Lean model.
package main

import (
	"encoding/json"
	"fmt"

	"verif/harness/internal/hx"
	"verif/harness/internal/manst"
)

var prof = manst.Profile{Name: "nbscommit", Hooks: true, MaxK: 4, Conjoin: true}

func runCase(e *hx.Env, m *hx.Model, n int, r *hx.Rng, replay *manst.Case) {
	mode := "file"
	if replay != nil {
		mode = replay.Mode
	} else if r.Chance(1, 8) {
		mode = "journal"
	}
	dir := manst.ScratchDir(e, n)
	var defs []manst.ChunkDef
	never := map[int]bool{}
	if replay != nil {
		defs = replay.Chunks
	} else {
		defs, never = manst.GenDefs(r, prof)
	}
	w := manst.NewWorld(e, m, dir, mode, defs)
	w.Case = &manst.Case{Mode: mode, Chunks: defs}
	if replay != nil {
		manst.Replay(w, replay)
	} else if mode == "journal" {
		journalCase(w, r)
	} else {
		g := &manst.Gen{W: w, R: r, P: prof, Never: never}
		steps := r.Range(6, 30)
		for i := 0; i < steps; i++ {
			g.Step()
		}
	}
	if mode == "journal" {
		w.CloseAll()
	} else {
		w.Finish()
	}
	nontrivial := w.Flags["cas-ok"] && (w.Flags["cas-false"] || w.Flags["shortcut-stale"] || hasNested(w.Case.Ops))
	e.Rep.Count(manst.Canon(w.Case), nontrivial)
	for _, o := range w.Case.Ops {
		e.Rep.Hit("op:" + o.Kind)
		if o.Kind == "commit" {
			e.Rep.Hit("commit:" + firstWord(o.Res))
			if o.Hook != "" && len(o.Nested) > 0 {
				e.Rep.Hit("commit-hook:" + o.Hook)
			}
		}
		for _, nn := range o.Nested {
			if nn.Res != "" {
				e.Rep.Hit("nested:" + nn.Kind + ":" + firstWord(nn.Res))
			}
		}
	}
	e.Rep.Hit("mode:" + mode)
	if n < 3 {
		e.Rep.Sample(map[string]any{"mode": mode, "trace": w.Trace})
	}
	e.Rep.TracesValidated++
}

func firstWord(s string) string {
	for i, c := range s {
		if c == ':' {
			return s[:i]
		}
	}
	return s
}

func hasNested(ops []manst.Op) bool {
	for _, o := range ops {
		for _, n := range o.Nested {
			if n.Res != "" {
				return true
			}
		}
	}
	return false
}

// journalCase: one journaling store (exclusive writer), puts/commits with right and wrong `last`,
// close + reopen at arbitrary points; oracle: after a reopen Root() is the root of the last commit
// that returned true, and every chunk put before such a commit is readable.
func journalCase(w *manst.World, r *hx.Rng) {
	do := func(op manst.Op) manst.Op {
		w.Do(&op)
		w.Case.Ops = append(w.Case.Ops, op)
		return op
	}
	do(manst.Op{Kind: "open", H: 0, Mem: 1 << 27})
	var ids []int
	for id := range w.Defs {
		ids = append(ids, id)
	}
	for i := 1; i < len(ids); i++ {
		for j := i; j > 0 && ids[j-1] > ids[j]; j-- {
			ids[j-1], ids[j] = ids[j], ids[j-1]
		}
	}
	ackedRoot := 0
	var put []int
	pending := map[int]bool{}
	acked := map[int]bool{}
	steps := r.Range(6, 24)
	for i := 0; i < steps; i++ {
		switch x := r.Intn(100); {
		case x < 45:
			id := hx.Pick(r, ids)
			op := do(manst.Op{Kind: "put", H: 0, A: id})
			if op.Res == "ok" {
				put = append(put, id)
				pending[id] = true
			} else if op.Res == "err dangling" {
				pending = map[int]bool{}
			}
		case x < 80:
			last := ackedRoot
			if r.Chance(1, 4) {
				last = hx.Pick(r, append([]int{0}, ids...))
			}
			cur := last
			if len(put) > 0 && !r.Chance(1, 6) {
				cur = put[len(put)-1]
			} else if r.Chance(1, 3) {
				cur = hx.Pick(r, ids)
			}
			op := do(manst.Op{Kind: "commit", H: 0, Cur: cur, Last: last})
			if op.Res == "true" {
				if last != ackedRoot && !(cur == last) {
					w.E.Rep.Violate("C02/journal-commit-succeeded-on-wrong-last", fmt.Sprintf("journal store: commit(cur=%d,last=%d) returned true while the root was %d", cur, last, ackedRoot), w.Case)
				}
				if last == ackedRoot {
					ackedRoot = cur
					for id := range pending {
						acked[id] = true
					}
					pending = map[int]bool{}
				}
			} else if op.Res == "err dangling" {
				pending = map[int]bool{}
			}
		default:
			do(manst.Op{Kind: "close", H: 0})
			put = nil
			pending = map[int]bool{}
			do(manst.Op{Kind: "open", H: 0, Mem: 1 << 27})
			w.E.Rep.Hit("journal:reopen")
			ro := do(manst.Op{Kind: "root", H: 0})
			if ro.Res != fmt.Sprint(ackedRoot) {
				w.E.Rep.Violate("C02/journal-reopen-root", fmt.Sprintf("journal store: after reopen Root()=%s, last acknowledged root %d", ro.Res, ackedRoot), w.Case)
			}
			for id := range acked {
				h := do(manst.Op{Kind: "has", H: 0, A: id})
				if h.Res != "true" {
					w.E.Rep.Violate("C02/journal-acked-chunk-lost", fmt.Sprintf("journal store: chunk %d put before an acknowledged commit is gone after reopen", id), w.Case)
				}
			}
		}
	}
}

// knownWitnesses replays, on the real code, the witnesses of the two refuted full statements of C02
// (Props/C02.lean: commit_step_is_cas_full_refuted, shortcut_true_on_stale_last).
func knownWitnesses(e *hx.Env, m *hx.Model, n *int) {
	cases := []manst.Case{
		{Mode: "file", Comment: "updateManifest recognises success by newContents.lock == upstream.lock: a commit on a stale last is acknowledged when the same root over the same table set is already installed",
			Chunks: []manst.ChunkDef{{ID: 1, Size: 20}},
			Ops: []manst.Op{{Kind: "open", H: 0, Mem: 100}, {Kind: "open", H: 1, Mem: 100}, {Kind: "put", H: 0, A: 1}, {Kind: "put", H: 1, A: 1},
				{Kind: "commit", H: 0, Cur: 1, Last: 0}, {Kind: "commit", H: 1, Cur: 1, Last: 0}}},
		{Mode: "file", Comment: "Commit(x, x) with nothing novel returns true without comparing x with the root",
			Chunks: []manst.ChunkDef{{ID: 1, Size: 20}},
			Ops: []manst.Op{{Kind: "open", H: 0, Mem: 100}, {Kind: "open", H: 1, Mem: 100}, {Kind: "put", H: 0, A: 1},
				{Kind: "commit", H: 0, Cur: 1, Last: 0}, {Kind: "commit", H: 1, Cur: 7, Last: 7}}},
	}
	known := map[string]bool{"C02/commit-true-root-already-cur": true, "C02/commit-shortcut-true-on-stale-last": true}
	for i := range cases {
		before := len(e.Rep.Violations)
		runCase(e, m, *n, nil, &cases[i])
		*n++
		var rest []hx.Violation
		for j, v := range e.Rep.Violations {
			if j >= before && known[v.Key] {
				e.Rep.Known(v.Key, v.What, v.Replay)
				e.Rep.ViolationsTotal--
				continue
			}
			rest = append(rest, v)
		}
		if rest == nil {
			rest = []hx.Violation{}
		}
		e.Rep.Violations = rest
	}
}

func main() {
	e := hx.Init("nbscommit", "C02")
	defer e.Finish()
	e.Rep.Rule = "lazy seeded op sequences (open/close/put/commit/rebase/root/has, other handles' ops nested in manifest.Update and before manifest reads) over K<=4 handles on one directory, plus journal-store sequences with reopen; distinct = different (op, handle, result) sequence; non-trivial = at least one successful CAS and at least one of {commit returning false, shortcut commit on a stale last, an op executed inside a hook}"
	m := e.MustModel()
	defer m.Close()
	n := 0
	for _, raw := range e.CorpusCases() {
		var c manst.Case
		if json.Unmarshal(raw, &c) == nil {
			runCase(e, m, n, nil, &c)
			n++
		}
	}
	if e.Replay != "" {
		rf, err := hx.LoadReplay(e.Replay)
		if err != nil {
			panic(err)
		}
		var c manst.Case
		if err := json.Unmarshal(rf.Case, &c); err != nil {
			// a disagreement replay wraps the case
			var wrap struct {
				Case manst.Case `json:"case"`
			}
			if err2 := json.Unmarshal(rf.Case, &wrap); err2 != nil {
				panic(err)
			}
			c = wrap.Case
		}
		if len(c.Ops) == 0 {
			var wrap struct {
				Case manst.Case `json:"case"`
			}
			json.Unmarshal(rf.Case, &wrap)
			c = wrap.Case
		}
		runCase(e, m, n, nil, &c)
		return
	}
	knownWitnesses(e, m, &n)
	total := e.N(150, 3000)
	for i := 0; i < total; i++ {
		runCase(e, m, n, e.Rng.Fork(), nil)
		n++
	}
}
