// bigvalues: correspondence + property oracle for C16 (large TEXT, BLOB and JSON values are stored
// faithfully).
//
// Store level (real tree.BlobBuilder / nodeStore / val adaptive code against the Lean model driver):
//
//	varint  SQLite4 varint of the out-of-band length prefix (mohae/uvarint) vs model
//	put     TupleBuilder.PutAdaptiveBytesFromInline at a target row size: inline / out of band,
//	        header bytes, sizes; oracle: the value reads back byte for byte
//	row     several adaptive columns in one row: which go out of band (BuildPermissive) vs model;
//	        oracle: every column reads back
//	blob    BlobBuilder(chunk size).Init/Chunk over full and short-reading readers: level, leaf
//	        count, root fan-out, first/last leaf size, ReadBytes vs model; oracle (full reads only):
//	        ReadBytes = data, and the address does not depend on how the bytes were produced
//	acmp    nodeStore.CompareAdaptive of two values in any mix of representations vs model;
//	        oracle: sign = bytes.Compare of the contents, antisymmetry
//	json    SerializeJsonToAddr / JSONDoc round trip (oracle only)
//
// SQL level (in-process engine, oracle only): INSERT / UPDATE / CONCAT productions of the same
// values, SELECT back, LENGTH, ORDER BY, GROUP BY, SELECT DISTINCT, COUNT(DISTINCT), equality and
// joins between a table that keeps values inline (large TARGET_ROW_SIZE) and one that stores them
// out of band, dolt_hashof_table equality across productions; TEXT, BLOB and JSON; sizes 0, 1,
// threshold±1, one chunk ±1, two chunks ±1, many chunks (thorough: around 800 000 bytes where the
// blob tree grows a level).
package main

import (
	"bytes"
	"context"
	"encoding/json"
	"flag"
	"fmt"
	"io"
	"reflect"
	"sort"
	"strings"
	"testing/iotest"

	"github.com/dolthub/go-mysql-server/sql"
	gmstypes "github.com/dolthub/go-mysql-server/sql/types"
	"github.com/mohae/uvarint"

	"github.com/dolthub/dolt/go/store/chunks"
	"github.com/dolthub/dolt/go/store/hash"
	"github.com/dolthub/dolt/go/store/pool"
	"github.com/dolthub/dolt/go/store/prolly/tree"
	"github.com/dolthub/dolt/go/store/types"
	"github.com/dolthub/dolt/go/store/val"

	"verif/harness/internal/hx"
	"verif/harness/internal/sqleng"
)

var ctx = context.Background()
var bp = pool.NewBuffPool()

// keys of the findings this harness knows how to reproduce (see design/C16.md)
const (
	keyHeight    = "compare-adaptive/tree-height-mismatch"
	keyInlineBig = "compare-adaptive/inline-longer-than-chunk"
	keyEmptyOOB  = "adaptive/empty-value-out-of-band"
	keyCountDist = "sql/count-distinct-large-value"
	keyJoinBlob  = "sql/join-inline-outofband/blob"
)

type kase struct {
	Kind   string   `json:"kind"`
	CS     int      `json:"cs,omitempty"`
	Target int      `json:"target,omitempty"`
	Fixed  int      `json:"fixed,omitempty"`
	Lens   []int    `json:"lens,omitempty"` // -1 = NULL
	D      []string `json:"d,omitempty"`    // data descriptors
	Repr   []string `json:"repr,omitempty"` // i | o
	Seg    []int    `json:"seg,omitempty"`
	N      uint64   `json:"n,omitempty"`
}

func (k kase) canon() string { b, _ := json.Marshal(k); return string(b) }

// data descriptor: h:<hex> | r:<n>:<pos>:<val>
func dataOf(d string) []byte {
	p := strings.Split(d, ":")
	switch p[0] {
	case "h":
		return hx.Unhex(p[1])
	case "r":
		var n, pos, v int
		fmt.Sscan(p[1], &n)
		fmt.Sscan(p[2], &pos)
		fmt.Sscan(p[3], &v)
		b := make([]byte, n)
		for i := range b {
			b[i] = byte(97 + i%10)
		}
		if pos < n {
			b[pos] = byte(v)
		}
		return b
	}
	panic("bad data descriptor " + d)
}

type runner struct {
	e  *hx.Env
	m  *hx.Model
	ns tree.NodeStore
}

func newNS() tree.NodeStore {
	ts := &chunks.TestStorage{}
	return tree.NewNodeStore(ts.NewViewWithFormat(types.Format_DOLT.VersionString()))
}

func rec(f func() string) string { return hx.Recover(f) }

// ---------------------------------------------------------------- blob trees

type segReader struct {
	r   io.Reader
	seg []int
}

func (s *segReader) Read(p []byte) (int, error) {
	if len(s.seg) > 0 {
		n := s.seg[0]
		s.seg = s.seg[1:]
		if n < len(p) {
			p = p[:n]
		}
	}
	return s.r.Read(p)
}

// buildBlob writes data through a BlobBuilder of chunk size cs (cs = 0: the node store's own
// builder, i.e. the production path ns.WriteBytes)
func (r *runner) buildBlob(cs int, data []byte, seg []int) (*tree.Node, hash.Hash, error) {
	var rd io.Reader = bytes.NewReader(data)
	if len(seg) > 0 {
		rd = &segReader{r: rd, seg: append([]int{}, seg...)}
	}
	if cs == 0 {
		return tree.SerializeBytesToAddr(ctx, r.ns, rd, len(data))
	}
	bb, err := tree.NewBlobBuilder(cs)
	if err != nil {
		return nil, hash.Hash{}, err
	}
	bb.SetNodeStore(r.ns)
	bb.Init(len(data))
	return bb.Chunk(ctx, rd)
}

func (r *runner) shape(node *tree.Node, addr hash.Hash, data []byte) string {
	if node == nil {
		return "none"
	}
	var sizes []int
	err := tree.WalkNodes(ctx, node, r.ns, func(ctx context.Context, n *tree.Node) error {
		if n.IsLeaf() {
			sizes = append(sizes, len(n.GetValue(0)))
		}
		return nil
	})
	if err != nil {
		return "err walk: " + err.Error()
	}
	rb, err := r.ns.ReadBytes(ctx, addr)
	if err != nil {
		return "err read: " + err.Error()
	}
	eq := 0
	if bytes.Equal(rb, data) {
		eq = 1
	}
	return fmt.Sprintf("L%d n%d c%d f%d l%d t%d eq%d", node.Level(), len(sizes), node.Count(), sizes[0], sizes[len(sizes)-1], len(rb), eq)
}

func csOrDefault(cs int) int {
	if cs == 0 {
		return tree.DefaultFixedChunkLength
	}
	return cs
}

func (r *runner) runBlob(k kase) {
	e := r.e
	data := dataOf(k.D[0])
	var addr hash.Hash
	impl := rec(func() string {
		node, a, err := r.buildBlob(k.CS, data, k.Seg)
		if err != nil {
			return "err " + err.Error()
		}
		addr = a
		return r.shape(node, a, data)
	})
	full := len(k.Seg) == 0
	e.Rep.Hit(fmt.Sprintf("blob:full=%v:%s", full, strings.SplitN(impl, " ", 2)[0]))
	if full {
		// ---- property: reads back byte for byte; same bytes -> same address however produced
		if len(data) > 0 && !strings.HasSuffix(impl, "eq1") {
			e.Rep.Violate("blob/roundtrip", fmt.Sprintf("%d bytes (chunk size %d) do not read back: %s", len(data), csOrDefault(k.CS), impl), k)
			return
		}
		if len(data) == 0 && impl != "none" {
			e.Rep.Violate("blob/empty", "empty blob produced a node: "+impl, k)
			return
		}
		// other productions of the same bytes: a copy assembled from pieces, a reader that is not a bytes.Reader but fills the buffer
		cp := append(append([]byte{}, data[:len(data)/2]...), data[len(data)/2:]...)
		_, a2, err2 := r.buildBlob(k.CS, cp, nil)
		var a3 hash.Hash
		var err3 error
		if k.CS == 0 {
			a3, err3 = r.ns.WriteBytes(ctx, data)
		} else {
			_, a3, err3 = r.buildBlob(k.CS, data, []int{csOrDefault(k.CS) + 7, 1 << 30})
		}
		if err2 != nil || err3 != nil || a2 != addr || a3 != addr {
			e.Rep.Violate("blob/deterministic", fmt.Sprintf("same %d bytes, different addresses: %s %s %s (%v %v)", len(data), addr, a2, a3, err2, err3), k)
			return
		}
	} else if strings.HasSuffix(impl, "eq0") {
		e.Rep.Hit("blob:short-reads-truncate")
	}
	mm := r.m.Ask(fmt.Sprintf("blob %d %s %s", csOrDefault(k.CS), k.D[0], hx.NatList(k.Seg)))
	if mm != impl {
		e.Rep.Disagree(k, impl, mm, "blob shape / read back")
	}
}

// ---------------------------------------------------------------- adaptive values

func (r *runner) mkAdaptive(cs int, repr string, data []byte) val.AdaptiveValue {
	if repr == "i" {
		return val.AdaptiveValueInlineBytes(data)
	}
	_, addr, err := r.buildBlob(cs, data, nil)
	if err != nil {
		panic(err)
	}
	buf := make([]byte, 9)
	n := uvarint.Encode(buf, uint64(len(data)))
	return append(buf[:n:n], addr[:]...)
}

func sgn(x int) int {
	if x < 0 {
		return -1
	} else if x > 0 {
		return 1
	}
	return 0
}

// levelOf: height of the blob tree of n bytes under chunk size cs (independent re-statement of Init)
func levelOf(cs, n int) int {
	if n <= cs {
		return 0
	}
	t, ds := 0, n/cs
	for ds > 0 {
		ds /= cs / 20
		t++
	}
	return t
}

func (r *runner) runACmp(k kase) {
	e := r.e
	l, rr := dataOf(k.D[0]), dataOf(k.D[1])
	cs := csOrDefault(k.CS)
	var c1, c2 int
	impl := rec(func() string {
		a, b := r.mkAdaptive(k.CS, k.Repr[0], l), r.mkAdaptive(k.CS, k.Repr[1], rr)
		var err error
		c1, err = r.ns.CompareAdaptive(ctx, a, b, val.BytesAdaptiveEnc)
		if err != nil {
			return "err " + err.Error()
		}
		c2, err = r.ns.CompareAdaptive(ctx, b, a, val.BytesAdaptiveEnc)
		if err != nil {
			return "err " + err.Error()
		}
		c1, c2 = sgn(c1), sgn(c2)
		return fmt.Sprint(c1)
	})
	want := sgn(bytes.Compare(l, rr))
	e.Rep.Hit(fmt.Sprintf("acmp:%s%s:%s", k.Repr[0], k.Repr[1], impl))
	// ---- property: compares like the contents, whatever the representation
	if impl != fmt.Sprint(want) || c2 != -want {
		key := "compare-adaptive/other"
		ll, lr := levelOf(cs, len(l)), levelOf(cs, len(rr))
		switch {
		case k.Repr[0] == "o" && len(l) == 0 || k.Repr[1] == "o" && len(rr) == 0:
			key = keyEmptyOOB
		case k.Repr[0] == "o" && k.Repr[1] == "o" && ll != lr:
			key = keyHeight
		case (k.Repr[0] == "i" && len(l) >= cs) || (k.Repr[1] == "i" && len(rr) >= cs):
			key = keyInlineBig
		}
		what := fmt.Sprintf("CompareAdaptive(%s %d bytes, %s %d bytes; chunk size %d) = %s (reverse %d), contents compare %d", k.Repr[0], len(l), k.Repr[1], len(rr), cs, impl, c2, want)
		if key == keyEmptyOOB {
			// varint(0) ++ zero address reads as an *inline* value of 20 NUL bytes.  No caller can
			// produce it: NewOutOfBandAdaptiveValue has no caller, and BuildPermissive converts a
			// value without savings back to inline (SQL: TARGET_ROW_SIZE=0 with '' round-trips).
			e.Rep.Hit("acmp:empty-out-of-band-reads-as-inline(unreachable)")
		} else {
			e.Rep.Violate(key, what, k)
		}
	}
	mm := r.m.Ask(fmt.Sprintf("acmp %d %s %s %s %s", cs, k.Repr[0], k.D[0], k.Repr[1], k.D[1]))
	if mm != impl {
		e.Rep.Disagree(k, impl, mm, "CompareAdaptive")
	}
}

func (r *runner) runVarint(k kase) {
	buf := make([]byte, 9)
	n := uvarint.Encode(buf, k.N)
	impl := hx.Hex(buf[:n])
	if v, c := uvarint.Uvarint(buf[:n]); v != k.N || c != n {
		r.e.Rep.Violate("varint/roundtrip", fmt.Sprintf("varint %d decodes to %d (%d bytes)", k.N, v, c), k)
		return
	}
	if k.N > 0 && buf[0] == 0 {
		r.e.Rep.Violate("varint/zero-first-byte", fmt.Sprintf("length %d encodes with first byte 0 (would read as inline)", k.N), k)
	}
	if mm := r.m.Ask(fmt.Sprintf("varint %d", k.N)); mm != impl {
		r.e.Rep.Disagree(k, impl, mm, "varint encode")
	}
	if mm := r.m.Ask("unvarint " + impl + "abcd"); mm != fmt.Sprintf("%d %d", k.N, n) {
		r.e.Rep.Disagree(k, fmt.Sprintf("%d %d", k.N, n), mm, "varint decode")
	}
	r.e.Rep.Hit(fmt.Sprintf("varint:%dbytes", n))
}

func adaptiveDesc(n int) *val.TupleDesc {
	ts := []val.Type{{Enc: val.Int64Enc, Nullable: false}}
	for i := 0; i < n; i++ {
		ts = append(ts, val.Type{Enc: val.BytesAdaptiveEnc, Nullable: true})
	}
	return val.NewTupleDescriptorWithArgs(val.TupleDescriptorArgs{}, ts...)
}

func pattern(n, salt int) []byte {
	b := make([]byte, n)
	for i := range b {
		b[i] = byte(33 + (i*7+salt)%90)
	}
	return b
}

// put / row: adaptive columns through the TupleBuilder
func (r *runner) runRow(k kase) {
	e := r.e
	td := adaptiveDesc(len(k.Lens))
	vals := make([][]byte, len(k.Lens))
	var tup val.Tuple
	impl := rec(func() string {
		tb := val.NewTupleBuilder(td, r.ns).WithMaxRowSize(uint16(k.Target))
		tb.PutInt64(0, 7)
		for i, l := range k.Lens {
			if l < 0 {
				continue
			}
			vals[i] = pattern(l, i)
			if err := tb.PutAdaptiveBytesFromInline(ctx, i+1, vals[i]); err != nil {
				return "err " + err.Error()
			}
		}
		t, err := tb.Build(ctx, bp)
		if err != nil {
			return "err " + err.Error()
		}
		tup = t
		var sb strings.Builder
		for i := range k.Lens {
			f := td.GetField(i+1, t)
			switch {
			case f == nil:
				sb.WriteByte('n')
			case val.IsInlineAdaptiveBytes(f):
				sb.WriteByte('i')
			default:
				sb.WriteByte('o')
			}
		}
		return sb.String()
	})
	e.Rep.Hit("row:" + impl)
	if strings.HasPrefix(impl, "err") || strings.HasPrefix(impl, "panic") {
		e.Rep.Violate("adaptive/build-failed", impl, k)
		return
	}
	// ---- property: every value reads back byte for byte, NULL stays NULL
	for i, l := range k.Lens {
		got, ok, err := td.GetBytesAdaptiveValue(ctx, i+1, r.ns, tup)
		if err != nil {
			e.Rep.Violate("adaptive/roundtrip", fmt.Sprintf("column %d: %v", i, err), k)
			return
		}
		if l < 0 {
			if ok {
				e.Rep.Violate("adaptive/roundtrip", fmt.Sprintf("column %d: NULL reads back as a value", i), k)
				return
			}
			continue
		}
		var b []byte
		switch x := got.(type) {
		case []byte:
			b = x
		case *val.ByteArray:
			b, err = x.ToBytes(ctx)
		default:
			err = fmt.Errorf("unexpected %T", got)
		}
		if err != nil || !ok || !bytes.Equal(b, vals[i]) {
			key := "adaptive/roundtrip"
			if l == 0 && impl[i] == 'o' {
				key = keyEmptyOOB
			}
			e.Rep.Violate(key, fmt.Sprintf("column %d (%d bytes, stored %c, target %d): reads back %d bytes ok=%v err=%v", i, l, impl[i], k.Target, len(b), ok, err), k)
			return
		}
	}
	// model
	cols := make([]string, len(k.Lens))
	for i, l := range k.Lens {
		if l < 0 {
			cols[i] = "n"
		} else {
			cols[i] = fmt.Sprint(l)
		}
	}
	if mm := r.m.Ask(fmt.Sprintf("row %d 8 %s", k.Target, strings.Join(cols, ","))); mm != impl {
		e.Rep.Disagree(k, impl, mm, "which adaptive columns are out of band")
	}
	// header layout of each stored field
	for i := range k.Lens {
		f := td.GetField(i+1, tup)
		if f == nil {
			continue
		}
		av := val.AdaptiveValue(f)
		var hdr []byte
		if av.IsOutOfBand() {
			hdr = f[:len(f)-hash.ByteLen]
			if mm := r.m.Ask("varint " + fmt.Sprint(k.Lens[i])); mm != hx.Hex(hdr) {
				e.Rep.Disagree(k, hx.Hex(hdr), mm, "length prefix")
			}
		}
	}
}

// ---------------------------------------------------------------- JSON at store level

func genJSON(r *hx.Rng, depth, width int) interface{} {
	switch k := r.Intn(7); {
	case depth <= 0 || k == 0:
		switch r.Intn(6) {
		case 0:
			return nil
		case 1:
			return r.Bool()
		case 2:
			return float64(r.Intn(2000000) - 1000000)
		case 3:
			return hx.Pick(r, []string{"", "a", "é", " ", "<&>", "\"q\"", "back\\slash", "line\nbreak", "\u0000", "😀", strings.Repeat("x", r.Intn(300))})
		default:
			return string(pattern(r.Intn(40), r.Intn(50)))
		}
	case k <= 3:
		n := r.Intn(width + 1)
		a := make([]interface{}, n)
		for i := range a {
			a[i] = genJSON(r, depth-1, width)
		}
		return a
	default:
		n := r.Intn(width + 1)
		o := map[string]interface{}{}
		for i := 0; i < n; i++ {
			o[hx.Pick(r, []string{"a", "b", "key", "k" + fmt.Sprint(r.Intn(1000)), "é", "<", "", "a.b", "$", strings.Repeat("k", r.Intn(30))})] = genJSON(r, depth-1, width)
		}
		return o
	}
}

func normJSON(s string) (interface{}, error) {
	var v interface{}
	err := json.Unmarshal([]byte(s), &v)
	return v, err
}

func (r *runner) runJSONStore(k kase) {
	e := r.e
	src := k.D[0]
	want, err := normJSON(src)
	if err != nil {
		return
	}
	impl := rec(func() string {
		doc := gmstypes.JSONDocument{Val: want}
		root, err := tree.SerializeJsonToAddr(ctx, r.ns, doc)
		addr := hash.Hash{}
		if err == nil {
			addr = root.HashOf()
		}
		if err != nil {
			return "err serialize: " + err.Error()
		}
		_ = root
		// json_chunks_concat on the implementation: the leaf blobs of the stored tree, in order,
		// are exactly the serialized text handed to the chunker
		text, err := gmstypes.MarshallJson(ctx, doc)
		if err != nil {
			return "err marshal: " + err.Error()
		}
		var cat []byte
		nleaves := 0
		if err := tree.WalkNodes(ctx, root, r.ns, func(ctx context.Context, n *tree.Node) error {
			if n.IsLeaf() {
				cat = append(cat, n.GetValue(0)...)
				nleaves++
			}
			return nil
		}); err != nil {
			return "err walk: " + err.Error()
		}
		if !bytes.Equal(cat, text) {
			return fmt.Sprintf("chunks: %d leaf blobs concatenate to %d bytes, serialized text has %d", nleaves, len(cat), len(text))
		}
		if nleaves > 1 {
			r.e.Rep.Hit("json-store:multi-chunk")
		}
		jd := tree.NewJSONDoc(addr, r.ns)
		w, err := jd.ToIndexedJSONDocument(ctx)
		if err != nil {
			return "err read: " + err.Error()
		}
		sctx := sql.NewEmptyContext()
		s, err := gmstypes.JsonToMySqlString(sctx, w)
		if err != nil {
			return "err render: " + err.Error()
		}
		got, err := normJSON(s)
		if err != nil {
			return "err parse: " + err.Error() + ": " + s
		}
		if !reflect.DeepEqual(got, want) {
			return "different: " + s
		}
		// same document again -> same address
		root2, err := tree.SerializeJsonToAddr(ctx, r.ns, gmstypes.JSONDocument{Val: want})
		addr2 := hash.Hash{}
		if err == nil {
			addr2 = root2.HashOf()
		}
		if err != nil || addr2 != addr {
			return fmt.Sprintf("address not deterministic: %s %s %v", addr, addr2, err)
		}
		return "ok"
	})
	e.Rep.Hit("json-store:" + strings.SplitN(impl, ":", 2)[0])
	if impl != "ok" {
		if len(impl) > 300 {
			impl = impl[:300]
		}
		e.Rep.Violate("json/store-roundtrip", fmt.Sprintf("document of %d bytes: %s", len(src), impl), k)
	}
}

func (r *runner) run(k kase) {
	defer func() {
		if p := recover(); p != nil {
			// a panic of the code under test that escaped the per-operation recover
			r.e.Rep.Violate("panic/"+k.Kind, fmt.Sprintf("panic while running a %s case: %v", k.Kind, p), k)
		}
	}()
	switch k.Kind {
	case "varint":
		r.runVarint(k)
	case "row":
		r.runRow(k)
	case "blob":
		r.runBlob(k)
	case "acmp":
		r.runACmp(k)
	case "json":
		r.runJSONStore(k)
	case "sql":
		r.runSQL(k)
	}
}

// ---------------------------------------------------------------- SQL level

type sqlVal struct {
	pk int
	v  string
}

func sqlQuote(s string) string {
	return "'" + strings.ReplaceAll(strings.ReplaceAll(s, "\\", "\\\\"), "'", "''") + "'"
}

// textValue: printable ASCII of length n; variants differ early, late, or are equal
func textValue(n, variant int) string {
	b := make([]byte, n)
	for i := range b {
		b[i] = byte(97 + (i*3+i/7)%26)
	}
	switch {
	case n == 0:
	case variant == 1:
		b[n-1] = '~'
	case variant == 2:
		b[0] = 'A'
	case variant == 3 && n > 4000:
		b[4000] = '#'
	}
	return string(b)
}

func (r *runner) sqlFail(key, what string, k kase) { r.e.Rep.Violate(key, what, k) }

// runSQL: one engine, one value family (TEXT | BLOB | JSON), a list of sizes
func (r *runner) runSQL(k kase) {
	e := r.e
	dir := fmt.Sprintf("%s/sql-%s-%d", e.Scratch, k.D[0], e.Rep.Evaluations)
	eng, err := sqleng.New(dir, sqleng.Options{})
	if err != nil {
		panic(err)
	}
	defer eng.Close()
	s, err := eng.NewSession()
	if err != nil {
		panic(err)
	}
	fam := k.D[0]
	if fam == "json" {
		r.sqlJSON(s, k)
		return
	}
	typ := map[string]string{"text": "LONGTEXT", "blob": "LONGBLOB"}[fam]
	// the values: per size, variants (equal pair, last byte differs, first byte differs, differs after one chunk)
	var vals []sqlVal
	pk := 0
	for _, n := range k.Lens {
		for _, variant := range []int{0, 0, 1, 2, 3} {
			pk++
			vals = append(vals, sqlVal{pk, textValue(n, variant)})
		}
	}
	// the same table `t` filled on three branches by three productions (same schema, same tags, so
	// equal contents must give equal table hashes) + tables for the comparisons on main
	s.MustExec(fmt.Sprintf("CREATE TABLE t (pk int primary key, v %s)", typ))
	s.MustExec(fmt.Sprintf("CREATE TABLE t_ins (pk int primary key, v %s)", typ))
	s.MustExec(fmt.Sprintf("CREATE TABLE t_inl (pk int primary key, v %s) TARGET_ROW_SIZE=60000", typ))
	s.MustExec("CALL dolt_commit('-Am', 'schema')")
	for _, v := range vals {
		q := sqlQuote(v.v)
		s.MustExec(fmt.Sprintf("INSERT INTO t_ins VALUES (%d, %s)", v.pk, q))
		s.MustExec(fmt.Sprintf("INSERT INTO t_inl VALUES (%d, %s)", v.pk, q))
	}
	s.MustExec("CALL dolt_commit('-Am', 'comparison tables')")
	e.Rep.Hit(fmt.Sprintf("sql:%s:values=%d", fam, len(vals)))
	hs := map[string]string{}
	for _, prod := range []string{"ins", "upd", "cat"} {
		s.MustExec("CALL dolt_checkout('main')")
		s.MustExec("CALL dolt_checkout('-b', 'p_" + prod + "')")
		for _, v := range vals {
			q := sqlQuote(v.v)
			switch prod {
			case "ins":
				s.MustExec(fmt.Sprintf("INSERT INTO t VALUES (%d, %s)", v.pk, q))
			case "upd":
				s.MustExec(fmt.Sprintf("INSERT INTO t VALUES (%d, 'placeholder')", v.pk))
				s.MustExec(fmt.Sprintf("UPDATE t SET v = %s WHERE pk = %d", q, v.pk))
			case "cat":
				h := len(v.v) / 3
				s.MustExec(fmt.Sprintf("INSERT INTO t SELECT %d, CONCAT(%s, %s)", v.pk, sqlQuote(v.v[:h]), sqlQuote(v.v[h:])))
			}
		}
		// 1. read back
		res := s.Exec("SELECT pk, v, LENGTH(v) FROM t ORDER BY pk")
		if res.Err != nil || len(res.Rows) != len(vals) {
			r.sqlFail("sql/select", fmt.Sprintf("%s %s: %v rows=%d", fam, prod, res.Err, len(res.Rows)), k)
			return
		}
		for i, row := range res.Rows {
			if row[1] != fmt.Sprintf("%q", vals[i].v) || row[2] != fmt.Sprint(len(vals[i].v)) {
				r.sqlFail("sql/roundtrip", fmt.Sprintf("%s via %s pk=%d: %d bytes written, read back length %s, equal=%v", fam, prod, vals[i].pk, len(vals[i].v), row[2], row[1] == fmt.Sprintf("%q", vals[i].v)), k)
				return
			}
		}
		res = s.Exec("SELECT dolt_hashof_table('t')")
		if res.Err != nil {
			r.sqlFail("sql/hashof", fmt.Sprint(res.Err), k)
			return
		}
		hs[prod] = res.Rows[0][0]
		s.MustExec("CALL dolt_commit('-Am', 'filled')")
	}
	s.MustExec("CALL dolt_checkout('main')")
	// 2. same table however produced
	if hs["ins"] != hs["upd"] || hs["ins"] != hs["cat"] {
		r.sqlFail("sql/production-address", fmt.Sprintf("%s: same rows, different table hashes: INSERT %s UPDATE %s CONCAT %s", fam, hs["ins"], hs["upd"], hs["cat"]), k)
		return
	}
	for _, tbl := range []string{"t_ins", "t_inl"} {
		res := s.Exec(fmt.Sprintf("SELECT pk, v, LENGTH(v) FROM %s ORDER BY pk", tbl))
		if res.Err != nil || len(res.Rows) != len(vals) {
			r.sqlFail("sql/select", fmt.Sprintf("%s %s: %v rows=%d", fam, tbl, res.Err, len(res.Rows)), k)
			return
		}
		for i, row := range res.Rows {
			if row[1] != fmt.Sprintf("%q", vals[i].v) || row[2] != fmt.Sprint(len(vals[i].v)) {
				r.sqlFail("sql/roundtrip", fmt.Sprintf("%s %s pk=%d: %d bytes written, read back length %s", fam, tbl, vals[i].pk, len(vals[i].v), row[2]), k)
				return
			}
		}
	}
	// 3. ORDER BY / GROUP BY / DISTINCT / COUNT(DISTINCT) agree with the values (bytewise order: blobs, and utf8mb4_0900_bin text)
	sorted := append([]sqlVal{}, vals...)
	sort.SliceStable(sorted, func(i, j int) bool {
		if sorted[i].v != sorted[j].v {
			return sorted[i].v < sorted[j].v
		}
		return sorted[i].pk < sorted[j].pk
	})
	wantOrder := make([]string, len(sorted))
	for i, v := range sorted {
		wantOrder[i] = fmt.Sprint(v.pk)
	}
	groups := map[string]int{}
	for _, v := range vals {
		groups[v.v]++
	}
	var wantGroups []string
	for v, c := range groups {
		wantGroups = append(wantGroups, fmt.Sprintf("%d|%d", len(v), c))
	}
	sort.Strings(wantGroups)
	for _, tbl := range []string{"t_ins", "t_inl"} {
		res := s.Exec(fmt.Sprintf("SELECT pk FROM %s ORDER BY v, pk", tbl))
		got := []string{}
		for _, row := range res.Rows {
			got = append(got, row[0])
		}
		if res.Err != nil || !reflect.DeepEqual(got, wantOrder) {
			r.sqlFail("sql/order-by", fmt.Sprintf("%s %s: ORDER BY v gives %v, values sort %v (%v)", fam, tbl, got, wantOrder, res.Err), k)
			return
		}
		res = s.Exec(fmt.Sprintf("SELECT LENGTH(v), COUNT(*) FROM %s GROUP BY v", tbl))
		if res.Err != nil || !reflect.DeepEqual(res.Sorted(), wantGroups) {
			r.sqlFail("sql/group-by", fmt.Sprintf("%s %s: GROUP BY v gives %v, want %v (%v)", fam, tbl, res.Sorted(), wantGroups, res.Err), k)
			return
		}
		res = s.Exec(fmt.Sprintf("SELECT COUNT(*) FROM (SELECT DISTINCT v FROM %s) q", tbl))
		if res.Err != nil || res.Rows[0][0] != fmt.Sprint(len(groups)) {
			r.sqlFail("sql/select-distinct", fmt.Sprintf("%s %s: SELECT DISTINCT gives %v rows, want %d (%v)", fam, tbl, res.Rows, len(groups), res.Err), k)
			return
		}
		res = s.Exec(fmt.Sprintf("SELECT COUNT(DISTINCT v) FROM %s", tbl))
		if res.Err != nil || res.Rows[0][0] != fmt.Sprint(len(groups)) {
			key := "sql/count-distinct"
			es := fmt.Sprint(res.Err)
			if res.Err != nil && (strings.Contains(es, "unable to hash value") || strings.Contains(es, "is too large for column")) {
				key = keyCountDist
			}
			if len(es) > 200 {
				es = es[:80] + " ... " + es[len(es)-80:]
			}
			r.sqlFail(key, fmt.Sprintf("%s %s: COUNT(DISTINCT v) = %v err=%s, want %d", fam, tbl, res.Rows, es, len(groups)), k)
		}
	}
	// 4. inline and out-of-band copies of the same value are equal, and only those
	res := s.Exec("SELECT COUNT(*) FROM t_ins a JOIN t_inl b ON a.v = b.v")
	wantPairs := 0
	for _, c := range groups {
		wantPairs += c * c
	}
	if res.Err != nil || res.Rows[0][0] != fmt.Sprint(wantPairs) {
		r.sqlFail("sql/join-inline-outofband/"+fam, fmt.Sprintf("%s: equi-join on v between the table storing values out of band and the one keeping them inline gives %v pairs, want %d (%v)", fam, res.Rows, wantPairs, res.Err), k)
	}
	res = s.Exec("SELECT COUNT(*) FROM t_ins a JOIN t_inl b ON a.pk = b.pk WHERE a.v = b.v AND NOT (a.v < b.v) AND NOT (a.v > b.v)")
	if res.Err != nil || res.Rows[0][0] != fmt.Sprint(len(vals)) {
		r.sqlFail("sql/compare-inline-outofband", fmt.Sprintf("%s: a.v = b.v for the same value stored both ways holds for %v of %d rows (%v)", fam, res.Rows, len(vals), res.Err), k)
	}
	// 5. survives a commit and a reopen of the session
	s2, _ := eng.NewSession()
	res = s2.Exec("SELECT COUNT(*) FROM t_ins a JOIN `db/p_cat`.t b ON a.pk = b.pk AND a.v = b.v")
	if res.Err != nil || res.Rows[0][0] != fmt.Sprint(len(vals)) {
		r.sqlFail("sql/after-commit", fmt.Sprintf("%s: after commit %v rows match, want %d (%v)", fam, res.Rows, len(vals), res.Err), k)
	}
}

func (r *runner) sqlJSON(s *sqleng.Session, k kase) {
	e := r.e
	rng := hx.NewRng(k.N)
	s.MustExec("CREATE TABLE j (pk int primary key, v JSON)")
	s.MustExec("CALL dolt_commit('-Am', 'schema')")
	type jv struct {
		src  string
		norm interface{}
	}
	var docs []jv
	add := func(v interface{}) {
		b, err := json.Marshal(v)
		if err != nil {
			return
		}
		n, err := normJSON(string(b))
		if err != nil {
			return
		}
		docs = append(docs, jv{string(b), n})
	}
	for _, n := range k.Lens {
		// an array of strings whose serialization is about n bytes, and an object of the same size
		var arr []interface{}
		obj := map[string]interface{}{}
		for sz := 2; sz < n; sz += 13 {
			arr = append(arr, string(pattern(8, sz)))
			obj[fmt.Sprintf("k%07d", sz)] = sz
		}
		add(arr)
		add(obj)
		add(map[string]interface{}{"a": arr, "b": obj, "c": nil})
	}
	for i := 0; i < 12; i++ {
		add(genJSON(rng, 4, 5))
	}
	add(docs[0].norm) // a duplicate
	s.MustExec("CALL dolt_checkout('-b', 'p_upd')")
	for i, d := range docs {
		s.MustExec(fmt.Sprintf("INSERT INTO j VALUES (%d, '{}')", i))
		s.MustExec(fmt.Sprintf("UPDATE j SET v = %s WHERE pk = %d", sqlQuote(d.src), i))
	}
	h2 := s.Exec("SELECT dolt_hashof_table('j')")
	s.MustExec("CALL dolt_commit('-Am', 'filled by update')")
	s.MustExec("CALL dolt_checkout('main')")
	for i, d := range docs {
		if res := s.Exec(fmt.Sprintf("INSERT INTO j VALUES (%d, %s)", i, sqlQuote(d.src))); res.Err != nil {
			r.sqlFail("sql/json-insert", fmt.Sprintf("document of %d bytes rejected: %v", len(d.src), res.Err), k)
			return
		}
	}
	e.Rep.Hit(fmt.Sprintf("sql:json:docs=%d", len(docs)))
	res := s.Exec("SELECT pk, v FROM j ORDER BY pk")
	if res.Err != nil || len(res.Rows) != len(docs) {
		r.sqlFail("sql/json-select", fmt.Sprintf("%v rows=%d", res.Err, len(res.Rows)), k)
		return
	}
	for i, row := range res.Rows {
		got, err := normJSON(row[1])
		if err != nil || !reflect.DeepEqual(got, docs[i].norm) {
			out := row[1]
			if len(out) > 200 {
				out = out[:200]
			}
			r.sqlFail("sql/json-roundtrip", fmt.Sprintf("document %d (%d bytes) reads back different (err=%v): %s", i, len(docs[i].src), err, out), k)
			return
		}
	}
	h1 := s.Exec("SELECT dolt_hashof_table('j')")
	if h1.Err != nil || h2.Err != nil || h1.Rows[0][0] != h2.Rows[0][0] {
		r.sqlFail("sql/json-production-address", fmt.Sprintf("INSERT vs UPDATE of the same documents: %v %v", h1.Rows, h2.Rows), k)
		return
	}
	distinct := map[string]bool{}
	for _, d := range docs {
		b, _ := json.Marshal(d.norm)
		distinct[string(b)] = true
	}
	res = s.Exec("SELECT COUNT(*) FROM (SELECT DISTINCT v FROM j) q")
	if res.Err != nil || res.Rows[0][0] != fmt.Sprint(len(distinct)) {
		r.sqlFail("sql/json-distinct", fmt.Sprintf("SELECT DISTINCT over JSON gives %v, want %d (%v)", res.Rows, len(distinct), res.Err), k)
	}
	res = s.Exec("SELECT COUNT(*) FROM j a JOIN `db/p_upd`.j b ON a.pk = b.pk WHERE a.v = b.v")
	if res.Err != nil || res.Rows[0][0] != fmt.Sprint(len(docs)) {
		r.sqlFail("sql/json-equal", fmt.Sprintf("a.v = b.v holds for %v of %d identical documents (%v)", res.Rows, len(docs), res.Err), k)
	}
}

// ---------------------------------------------------------------- generators

func rdesc(n, pos, v int) string { return fmt.Sprintf("r:%d:%d:%d", n, pos, v) }

func main() {
	noSQL := flag.Bool("nosql", false, "skip the SQL-level stream")
	e := hx.Init("bigvalues", "C16")
	defer e.Finish()
	e.Rep.Rule = "store level: varint boundaries; adaptive put/row at targets with lengths target-2..target+1 and 0,1; blob trees for chunk sizes 40/60/100/4000 with sizes 0,1,cs-1,cs,cs+1,k*cs(+-1), the sizes where the tree grows a level (cs*fanout^k +-1), full and short-reading readers; CompareAdaptive over all four representation pairs with values equal / differing in the first, a middle, the last chunk / one a prefix of the other / of different tree heights; JSON documents. SQL level: TEXT, BLOB, JSON of sizes 0,1,threshold+-1,one chunk+-1,two chunks+-1,many chunks through INSERT, UPDATE and CONCAT. nontrivial = not a single-chunk inline-only case; distinct by the JSON of the case"
	m := e.MustModel()
	defer m.Close()
	r := &runner{e: e, m: m, ns: newNS()}
	do := func(k kase) {
		r.run(k)
		nontrivial := true
		if k.Kind == "varint" && k.N < 241 {
			nontrivial = false
		}
		e.Rep.Count(k.canon(), nontrivial)
		if e.Rep.Evaluations%400 == 1 {
			e.Rep.Sample(k)
		}
	}
	if e.Replay != "" {
		rf, err := hx.LoadReplay(e.Replay)
		if err != nil {
			panic(err)
		}
		var k kase
		json.Unmarshal(rf.Case, &k)
		do(k)
		return
	}
	for _, raw := range e.CorpusCases() {
		var k kase
		if json.Unmarshal(raw, &k) == nil {
			do(k)
		}
	}
	rng := e.Rng

	// ---- witnesses of the recorded findings: replayed on the real code on every run
	witness := func(key string, k kase) {
		before := e.Rep.ViolationsTotal
		r.run(k)
		e.Rep.Count(k.canon(), true)
		if e.Rep.ViolationsTotal == before {
			e.Rep.Note("witness of " + key + " no longer reproduces")
		}
	}
	witness(keyHeight, kase{Kind: "acmp", CS: 0, Repr: []string{"o", "o"}, D: []string{rdesc(4001, 4000, 120), rdesc(800000, 799999, 121)}})
	// the most reachable shape: a value exactly one chunk long that is a prefix of a longer one
	witness(keyHeight, kase{Kind: "acmp", CS: 0, Repr: []string{"o", "o"}, D: []string{rdesc(4000, 9999, 0), rdesc(8000, 9999, 0)}})
	witness(keyHeight, kase{Kind: "acmp", CS: 40, Repr: []string{"o", "o"}, D: []string{rdesc(41, 40, 120), rdesc(80, 79, 121)}})
	witness(keyInlineBig, kase{Kind: "acmp", CS: 0, Repr: []string{"i", "o"}, D: []string{rdesc(5000, 9999, 0), rdesc(5000, 9999, 0)}})
	r.run(kase{Kind: "acmp", CS: 0, Repr: []string{"o", "i"}, D: []string{rdesc(0, 0, 0), rdesc(0, 0, 0)}})
	// suspicion (j): a short-reading reader changes the tree, and can even lose data; no production
	// caller passes one (every caller of SerializeBytesToAddr uses bytes.NewReader) -> note only
	func() {
		defer func() {
			if p := recover(); p != nil {
				e.Rep.Note(fmt.Sprintf("short-reading reader probe panicked: %v", p))
			}
		}()
		data := dataOf(rdesc(10000, 9999, 33))
		_, h1, _ := tree.SerializeBytesToAddr(ctx, r.ns, bytes.NewReader(data), len(data))
		_, h2, _ := tree.SerializeBytesToAddr(ctx, r.ns, iotest.HalfReader(bytes.NewReader(data)), len(data))
		_, h3, _ := tree.SerializeBytesToAddr(ctx, r.ns, iotest.OneByteReader(bytes.NewReader(data)), len(data))
		b3, _ := r.ns.ReadBytes(ctx, h3)
		e.Rep.Note(fmt.Sprintf("blobLeafWriter with short-reading readers (not reachable from production callers): 10000 bytes: bytes.Reader %s, HalfReader %s (different address: %v), OneByteReader %s reads back %d bytes", h1, h2, h1 != h2, h3, len(b3)))
	}()

	// ---- varint
	for _, n := range []uint64{0, 1, 20, 21, 239, 240, 241, 242, 495, 496, 497, 2286, 2287, 2288, 2289, 4000, 4001, 65535, 65536, 67822, 67823, 67824, 67825,
		800000, 1<<24 - 1, 1 << 24, 1<<32 - 1, 1 << 32, 1<<40 - 1, 1 << 40, 1<<48 - 1, 1 << 48, 1<<56 - 1, 1 << 56, 1<<63 - 1, 1 << 63, 1<<64 - 1} {
		do(kase{Kind: "varint", N: n})
	}
	for i := 0; i < e.N(3000, 100000); i++ {
		n := rng.U64() >> uint(rng.Intn(64))
		do(kase{Kind: "varint", N: n})
	}

	// ---- adaptive put / row placement
	for _, target := range []int{1, 2, 21, 22, 23, 24, 30, 100, 2048, 4000, 4096, 65535} {
		for _, d := range []int{-3, -2, -1, 0, 1} {
			if l := target + d; l >= 0 {
				do(kase{Kind: "row", Target: target, Lens: []int{l}})
			}
		}
		for _, l := range []int{0, 1, 19, 20, 21, 22, 23} {
			do(kase{Kind: "row", Target: target, Lens: []int{l}})
		}
	}
	for i := 0; i < e.N(1500, 40000); i++ {
		target := hx.Pick(rng, []int{50, 100, 200, 300, 2048})
		n := rng.Range(1, 5)
		lens := make([]int, n)
		for j := range lens {
			switch rng.Intn(8) {
			case 0:
				lens[j] = -1
			case 1:
				lens[j] = hx.Pick(rng, []int{0, 1, 20, 21, 22, 23})
			case 2:
				lens[j] = target + rng.Range(-3, 2)
			case 3: // ties in savings
				lens[j] = 60
			default:
				lens[j] = rng.Intn(target * 2 / n * 2)
			}
			if lens[j] < -1 {
				lens[j] = 0
			}
		}
		do(kase{Kind: "row", Target: target, Lens: lens})
	}

	// ---- blob trees
	sizesFor := func(cs int) []int {
		f := cs / 20
		out := []int{0, 1, 2, cs - 1, cs, cs + 1, 2*cs - 1, 2 * cs, 2*cs + 1, 3 * cs, cs*f - 1, cs * f, cs*f + 1, cs*f + cs, 2 * cs * f}
		if cs <= 100 {
			out = append(out, cs*f*f-1, cs*f*f, cs*f*f+1, cs*f*f+cs*f+3)
		}
		return out
	}
	for _, cs := range []int{40, 60, 100} {
		for _, n := range sizesFor(cs) {
			do(kase{Kind: "blob", CS: cs, D: []string{rdesc(n, n/2, 35)}})
		}
		for i := 0; i < e.N(150, 4000); i++ {
			n := rng.Intn(cs * (cs / 20) * 3)
			seg := []int{}
			if rng.Chance(1, 2) {
				for j := rng.Intn(12); j > 0; j-- {
					seg = append(seg, hx.Pick(rng, []int{1, 2, cs - 1, cs, cs / 2, cs + 5, 7}))
				}
			}
			do(kase{Kind: "blob", CS: cs, D: []string{rdesc(n, rng.Intn(n+1), 36)}, Seg: seg})
		}
	}
	for _, n := range []int{0, 1, 3999, 4000, 4001, 7999, 8000, 8001, 100000} {
		do(kase{Kind: "blob", CS: 0, D: []string{rdesc(n, n/2, 35)}})
	}
	do(kase{Kind: "blob", CS: 0, D: []string{rdesc(10000, 1, 35)}, Seg: []int{100, 4000, 1, 3999}})
	if e.Thorough() {
		for _, n := range []int{799999, 800000, 800001, 1600001} {
			do(kase{Kind: "blob", CS: 0, D: []string{rdesc(n, n/2, 35)}})
		}
	}

	// ---- CompareAdaptive
	reprs := [][]string{{"i", "i"}, {"i", "o"}, {"o", "i"}, {"o", "o"}}
	for _, cs := range []int{40, 60, 100} {
		f := cs / 20
		grow := cs * f // first size of height 2
		lens := []int{1, cs - 1, cs, cs + 1, 2 * cs, 2*cs + 1, grow - 1, grow, grow + 1, grow + cs}
		for i := 0; i < e.N(1200, 40000); i++ {
			a := hx.Pick(rng, lens)
			if rng.Chance(1, 3) {
				a = rng.Range(1, grow*2)
			}
			b := a
			switch rng.Intn(4) {
			case 0:
				b = hx.Pick(rng, lens)
			case 1:
				b = a + hx.Pick(rng, []int{-1, 1, cs, -cs})
			}
			if b < 1 {
				b = 1
			}
			// where the two differ: nowhere, first chunk, a later chunk, last byte
			pa, va, pb, vb := a+9, 0, b+9, 0
			switch rng.Intn(5) {
			case 0:
			case 1:
				pa, va = rng.Intn(a), 200
			case 2:
				pb, vb = rng.Intn(b), 201
			case 3:
				pa, va = a-1, 10
			case 4:
				pb, vb = b-1, 250
			}
			rp := hx.Pick(rng, reprs)
			// an inline value longer than a chunk only exists under a raised TARGET_ROW_SIZE: keep it rare
			if (rp[0] == "i" && a >= cs || rp[1] == "i" && b >= cs) && !rng.Chance(1, 10) {
				rp = []string{"o", "o"}
			}
			do(kase{Kind: "acmp", CS: cs, Repr: rp, D: []string{rdesc(a, pa, va), rdesc(b, pb, vb)}})
		}
	}
	for _, p := range [][2]int{{2000, 2000}, {2047, 5000}, {4000, 4001}, {4001, 8001}, {8000, 8000}, {100000, 100000}, {100000, 99999}} {
		for _, rp := range reprs {
			if rp[0] == "i" && p[0] > 4000 || rp[1] == "i" && p[1] > 4000 {
				continue
			}
			do(kase{Kind: "acmp", CS: 0, Repr: rp, D: []string{rdesc(p[0], p[0]-1, 77), rdesc(p[1], p[1]+5, 0)}})
			do(kase{Kind: "acmp", CS: 0, Repr: rp, D: []string{rdesc(p[0], p[0]+5, 0), rdesc(p[1], p[1]+5, 0)}})
		}
	}

	// ---- JSON at store level
	for i := 0; i < e.N(150, 3000); i++ {
		v := genJSON(rng, rng.Range(1, 5), rng.Range(1, 8))
		if rng.Chance(1, 6) { // many chunks
			arr := []interface{}{}
			for j := rng.Range(200, 3000); j > 0; j-- {
				arr = append(arr, map[string]interface{}{"i": j, "s": string(pattern(rng.Intn(30), j))})
			}
			v = map[string]interface{}{"big": arr, "x": v}
		}
		b, err := json.Marshal(v)
		if err != nil {
			continue
		}
		do(kase{Kind: "json", D: []string{string(b)}})
	}

	// ---- SQL level
	if !*noSQL {
		sizes := []int{0, 1, 2046, 2047, 2048, 2049, 3999, 4000, 4001, 7999, 8000, 8001, 20000, 100003}
		if e.Thorough() {
			sizes = append(sizes, 799999, 800000, 800001)
		}
		do(kase{Kind: "sql", D: []string{"text"}, Lens: sizes})
		do(kase{Kind: "sql", D: []string{"blob"}, Lens: sizes})
		do(kase{Kind: "sql", D: []string{"json"}, Lens: []int{10, 2040, 2060, 4000, 4100, 12000, 90000}, N: rng.U64()})
	}
	e.Rep.Note("SQL level is checked against the values themselves (oracle), not against the Lean model; JSON equality is decided on normalised documents")
}
